#!/bin/sh
# Build the framework from files on disk only (offline): regenerate the static tie tables from
# /repo, compile the whole Coq development (full .vo build), extract the model, build the driver.
set -e
cd "$(dirname "$0")"
mkdir -p _work evidence replays
python3 harness/tie_extract.py || echo "tie extractor failed closed (reported by the checks)"
cd coq
coq_makefile -f _CoqProject -o Makefile
timeout 3400 make -j12 > ../_work/setup-make.log 2>&1 || { tail -40 ../_work/setup-make.log; exit 1; }
cd ../ocaml
ocamlfind ocamlopt -O3 -w -a model.mli model.ml driver.ml -o driver
echo "setup ok"
