#!/usr/bin/env python3
"""How much of the library's code is inside the translation-validation layer: runs every translator of
harness/tie_extract.py on the CURRENT source, collects the function bodies that were handed to one, and
counts statements (ast.stmt nodes inside function bodies, docstrings excluded) over src/smoothmath.
usage: tools/coverage_count.py [--list]"""
import ast, os, sys
VERIF = os.path.dirname(os.path.dirname(os.path.abspath(__file__)))
sys.path.insert(0, os.path.join(VERIF, 'harness'))
import tie_extract as te  # noqa: E402


def stmts(fd):
    n = 0
    for node in ast.walk(fd):
        if isinstance(node, ast.stmt) and node is not fd:
            if isinstance(node, ast.Expr) and isinstance(node.value, ast.Constant) and isinstance(node.value.value, str):
                continue
            n += 1
    return n


def main():
    for g in sorted(k for k in dir(te) if k.startswith('generate')):
        try:
            getattr(te, g)()
        except Exception as ex:  # noqa: BLE001
            print('%s failed: %s' % (g, ex))
    done = set((f, a) for f, a, _b, _n in te.TRANSLATED)
    tot = cov = nf = nfc = 0
    missing = []
    for path in te.all_py_files():
        t = ast.parse(open(path).read())
        for node in ast.walk(t):
            if isinstance(node, (ast.FunctionDef, ast.Lambda)) and not isinstance(node, ast.Lambda):
                # only outermost functions / methods (nested defs are counted with their parent)
                k = stmts(node)
                inner = any(isinstance(p, ast.FunctionDef) and p is not node and node in ast.walk(p) for p in ast.walk(t) if isinstance(p, ast.FunctionDef))
                if inner:
                    continue
                nf += 1
                tot += k
                if (path, node.lineno) in done:
                    cov += k
                    nfc += 1
                else:
                    missing.append((os.path.relpath(path, te.SRC), node.name, k))
    print('function bodies: %d, translated: %d' % (nf, nfc))
    print('statements in function bodies: %d, inside translated bodies: %d (%.0f %%)' % (tot, cov, 100.0 * cov / max(tot, 1)))
    if '--list' in sys.argv:
        for m in sorted(missing):
            print('  not translated: %s:%s (%d statements)' % m)
    return 0


if __name__ == '__main__':
    sys.exit(main())
