#!/usr/bin/env python3
"""Rewrite the generated tables of DESIGN.md (between the BEGIN/END markers) from
seeded/RESULTS.json (dynamic evaluation) and seeded/STATIC.json (static tie alone)."""
import json
import os
import re

VERIF = os.path.dirname(os.path.dirname(os.path.abspath(__file__)))


def main():
    res = json.load(open(os.path.join(VERIF, 'seeded', 'RESULTS.json')))
    sta = json.load(open(os.path.join(VERIF, 'seeded', 'STATIC.json')))
    rows = ['| id | property | what was changed (abridged) | dynamic check | concrete input | static tie alone |',
            '|---|---|---|---|---|---|']
    for sid in sorted(res):
        r = res[sid]
        prop = r['property']
        c = r.get('checks', {}).get(prop, {})
        dyn = 'caught' if r.get('detected') else 'MISSED'
        conc = 'yes' if r.get('concrete_input') else 'no'
        what = (c.get('what') or '').replace('|', '/').replace('\n', ' ')[:110]
        s = sta.get(sid, {})
        st = '; '.join(x.split(' (')[0].replace('|', '/')[:70] for x in s.get('broken', [])[:1]) if s.get('static') else '-'
        summ = r.get('summary', '').replace('|', '/').replace('\n', ' ')[:120]
        rows.append('| %s | %s | %s | %s: %s | %s | %s |' % (sid, prop, summ, dyn, what, conc, st))
    n = len(res)
    head = ('%d seeded changes; caught by the check of their own property: %d; with a concrete failing input: %d; '
            'caught by the static tie alone (before any input is generated): %d.\n\n' % (
                n, sum(1 for r in res.values() if r.get('detected')),
                sum(1 for r in res.values() if r.get('concrete_input')),
                sum(1 for k in res if sta.get(k, {}).get('static'))))
    block = head + '\n'.join(rows) + '\n'
    path = os.path.join(VERIF, 'DESIGN.md')
    text = open(path).read()
    new = re.sub(r'(<!-- BEGIN seeded table -->\n).*?(<!-- END seeded table -->)', lambda m: m.group(1) + block + m.group(2),
                 text, flags=re.S)
    if new == text and '<!-- BEGIN seeded table -->' not in text:
        print('markers not found')
        return 1
    open(path, 'w').write(new)
    print('table rewritten: %d rows' % n)
    refactor_table(path)
    return 0


def refactor_table(path):
    rp = os.path.join(VERIF, 'refactors', 'RESULTS.json')
    if not os.path.exists(rp):
        return
    res = json.load(open(rp))
    rows = ['| id | what was refactored (abridged) | checks that still pass | report `no-failing-input-found` | report a failing input (false alarm) |',
            '|---|---|---|---|---|']
    tot_false = 0
    accepted = 0
    for rid in sorted(res):
        r = res[rid]
        ok, nf, bad = [], [], []
        for c, cr in sorted(r.get('checks', {}).items()):
            if cr['rc'] == 0:
                ok.append(c)
            elif all('no-failing-input-found' in v for v in cr['violations']) and cr['violations']:
                nf.append(c)
            else:
                bad.append(c)
        tot_false += len(bad)
        accepted += (not nf and not bad)
        summ = r.get('summary', '').replace('|', '/').replace('\n', ' ')[:140]
        rows.append('| %s | %s | %d | %s | %s |' % (rid, summ, len(ok), ', '.join(nf) or '-', ', '.join(bad) or '-'))
    head = ('%d behaviour-preserving refactorings (byte-identical transcripts); accepted by all 18 checks with the proofs re-established: %d; '
            'reports naming a failing input (there is none: these would be false alarms): %d.\n\n' % (len(res), accepted, tot_false))
    block = head + '\n'.join(rows) + '\n'
    text = open(path).read()
    if '<!-- BEGIN refactor table -->' not in text:
        print('refactor markers not found')
        return
    new = re.sub(r'(<!-- BEGIN refactor table -->\n).*?(<!-- END refactor table -->)', lambda m: m.group(1) + block + m.group(2),
                 text, flags=re.S)
    open(path, 'w').write(new)
    print('refactor table rewritten: %d rows' % len(res))


if __name__ == '__main__':
    raise SystemExit(main())
