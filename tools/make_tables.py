#!/usr/bin/env python3
"""Rewrite the generated tables of DESIGN.md (between the BEGIN/END markers) from
seeded/RESULTS.json (dynamic evaluation) and seeded/STATIC.json (static tie alone)."""
import json
import os
import re

VERIF = os.path.dirname(os.path.dirname(os.path.abspath(__file__)))


def main():
    res = json.load(open(os.path.join(VERIF, 'seeded', 'RESULTS.json')))
    sta = json.load(open(os.path.join(VERIF, 'seeded', 'STATIC.json')))
    rows = ['| id | property | what was changed (abridged) | dynamic check | concrete input | static tie alone |',
            '|---|---|---|---|---|---|']
    for sid in sorted(res):
        r = res[sid]
        prop = r['property']
        c = r.get('checks', {}).get(prop, {})
        dyn = 'caught' if r.get('detected') else 'MISSED'
        conc = 'yes' if r.get('concrete_input') else 'no'
        what = (c.get('what') or '').replace('|', '/').replace('\n', ' ')[:110]
        s = sta.get(sid, {})
        st = '; '.join(x.split(' (')[0].replace('|', '/')[:70] for x in s.get('broken', [])[:1]) if s.get('static') else '-'
        summ = r.get('summary', '').replace('|', '/').replace('\n', ' ')[:120]
        rows.append('| %s | %s | %s | %s: %s | %s | %s |' % (sid, prop, summ, dyn, what, conc, st))
    n = len(res)
    head = ('%d seeded changes; caught by the check of their own property: %d; with a concrete failing input: %d; '
            'caught by the static tie alone (before any input is generated): %d.\n\n' % (
                n, sum(1 for r in res.values() if r.get('detected')),
                sum(1 for r in res.values() if r.get('concrete_input')),
                sum(1 for k in res if sta.get(k, {}).get('static'))))
    block = head + '\n'.join(rows) + '\n'
    path = os.path.join(VERIF, 'DESIGN.md')
    text = open(path).read()
    new = re.sub(r'(<!-- BEGIN seeded table -->\n).*?(<!-- END seeded table -->)', lambda m: m.group(1) + block + m.group(2),
                 text, flags=re.S)
    if new == text and '<!-- BEGIN seeded table -->' not in text:
        print('markers not found')
        return 1
    open(path, 'w').write(new)
    print('table rewritten: %d rows' % n)
    return 0


if __name__ == '__main__':
    raise SystemExit(main())
