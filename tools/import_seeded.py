#!/usr/bin/env python3
"""Confirm candidate seeded changes in a scratch worktree and copy the confirmed ones to /verif/seeded.
usage: tools/import_seeded.py /tmp/wt_out_5 [...]"""
import json, os, shutil, subprocess, sys
VERIF = os.path.dirname(os.path.dirname(os.path.abspath(__file__)))
WT = '/tmp/wt_confirm'


def sh(cmd, cwd=None, env=None):
    pr = subprocess.run(cmd, shell=True, cwd=cwd, env=env, stdout=subprocess.PIPE, stderr=subprocess.STDOUT, timeout=1200)
    return pr.returncode, pr.stdout.decode(errors='replace')


def main():
    if not os.path.exists(WT):
        rc, out = sh('git -C /repo worktree add -q %s HEAD' % WT)
        assert rc == 0, out
    sh('git checkout -q --detach main && git checkout -- .', cwd=WT)
    env = dict(os.environ, PYTHONPATH=os.path.join(WT, 'src'))
    for src in sys.argv[1:]:
        for name in sorted(os.listdir(src)):
            d = os.path.join(src, name)
            if not os.path.isdir(d) or not all(os.path.exists(os.path.join(d, f)) for f in ('patch.diff', 'demo.py', 'meta.json')):
                continue
            dst = os.path.join(VERIF, 'seeded', name)
            if os.path.exists(dst):
                print(name, 'already imported')
                continue
            rc, out = sh('git apply --check %s && git apply %s' % (os.path.join(d, 'patch.diff'), os.path.join(d, 'patch.diff')), cwd=WT)
            if rc != 0:
                print(name, 'REJECTED: patch does not apply', out[-200:])
                continue
            rc, out = sh('/venv/bin/python -m pytest -q -p no:cacheprovider 2>&1 | tail -1', cwd=WT)
            tests = out.strip()
            rc1, out1 = sh('/venv/bin/python %s' % os.path.join(d, 'demo.py'), cwd='/tmp', env=env)
            sh('git checkout -- .', cwd=WT)
            rc0, out0 = sh('/venv/bin/python %s' % os.path.join(d, 'demo.py'), cwd='/tmp', env=env)
            ok = tests.startswith('150 passed') and rc1 == 1 and rc0 == 0
            print(name, 'CONFIRMED' if ok else 'REJECTED', '|', tests, '| demo with change rc=%d, without rc=%d' % (rc1, rc0))
            if ok:
                os.makedirs(dst)
                shutil.copy(os.path.join(d, 'patch.diff'), dst)
                shutil.copy(os.path.join(d, 'demo.py'), dst)
                meta = json.load(open(os.path.join(d, 'meta.json')))
                meta['confirmed'] = {'tests': tests, 'demo_rc_with_change': rc1, 'demo_rc_without_change': rc0,
                                     'demo_output_with_change': out1.strip()[-400:],
                                     'ran': 'git apply in a scratch worktree of /repo; /venv/bin/python -m pytest -q; demo.py with PYTHONPATH=<worktree>/src; git checkout; demo.py again'}
                json.dump(meta, open(os.path.join(dst, 'meta.json'), 'w'), indent=1)
    return 0


if __name__ == '__main__':
    sys.exit(main())
