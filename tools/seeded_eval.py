#!/usr/bin/env python3
"""Evaluate the checks against the seeded changes in /verif/seeded/<id>/.

For each seeded change: apply patch.diff to /repo (git apply), confirm that the existing test
suite still passes and the demonstration fails, run the check(s) of the property it breaks
(and optionally all checks), record which VIOLATION lines appear, and undo the change
(git checkout -- .).  Results go to /verif/seeded/RESULTS.json (a table for DESIGN.md).

usage: tools/seeded_eval.py [--only id,id] [--all-checks] [--tier quick|thorough] [--skip-tests]
"""
import argparse
import json
import os
import subprocess
import sys
import time

VERIF = os.path.dirname(os.path.dirname(os.path.abspath(__file__)))
SEEDED = os.path.join(VERIF, 'seeded')
REPO = os.environ.get('VERIF_REPO', '/repo')
ALL = ['C%02d' % i for i in range(1, 19)]


def sh(cmd, cwd=None, env=None, timeout=3600):
    pr = subprocess.run(cmd, shell=True, cwd=cwd, env=env, stdout=subprocess.PIPE, stderr=subprocess.STDOUT, timeout=timeout)
    return pr.returncode, pr.stdout.decode(errors='replace')


def clean_repo():
    rc, out = sh('git status --porcelain', cwd=REPO)
    return rc != 0 or out.strip() == ''


def main():
    ap = argparse.ArgumentParser()
    ap.add_argument('--only')
    ap.add_argument('--all-checks', action='store_true')
    ap.add_argument('--checks', default=None, help='comma-separated checks to run instead of the own property / all')
    ap.add_argument('--tier', default='quick')
    ap.add_argument('--skip-tests', action='store_true')
    ap.add_argument('--dir', default=None, help='directory of changes (default: /verif/seeded); e.g. /verif/refactors')
    args = ap.parse_args()
    global SEEDED
    if args.dir:
        SEEDED = os.path.abspath(args.dir)
    ids = sorted(d for d in os.listdir(SEEDED) if os.path.isdir(os.path.join(SEEDED, d)))
    if args.only:
        ids = [i for i in ids if i in args.only.split(',')]
    results_path = os.path.join(SEEDED, 'RESULTS.json')
    results = json.load(open(results_path)) if os.path.exists(results_path) else {}
    if not clean_repo():
        print('refusing: /repo has uncommitted changes')
        return 2
    # the evidence files describe the UNCHANGED tree: keep them aside while the checks run on changed trees
    import shutil
    ev_dir = os.path.join(VERIF, 'evidence')
    ev_keep = os.path.join(VERIF, '_work', 'evidence_keep')
    shutil.rmtree(ev_keep, ignore_errors=True)
    if os.path.isdir(ev_dir):
        shutil.copytree(ev_dir, ev_keep)
    for sid in ids:
        d = os.path.join(SEEDED, sid)
        meta = json.load(open(os.path.join(d, 'meta.json')))
        prop = meta['property']
        rec = {'property': prop, 'summary': meta.get('summary', ''), 'needs': meta.get('needs', '')}
        rc, out = sh('git apply --check %s && git apply %s' % (os.path.join(d, 'patch.diff'), os.path.join(d, 'patch.diff')), cwd=REPO)
        if rc != 0:
            rec['error'] = 'patch does not apply: ' + out[-300:]
            results[sid] = rec
            print(sid, 'PATCH DOES NOT APPLY')
            continue
        try:
            if not args.skip_tests:
                rc, out = sh('/venv/bin/python -m pytest -q -p no:cacheprovider 2>&1 | tail -1', cwd=REPO)
                rec['tests'] = out.strip()
                env = dict(os.environ, PYTHONPATH=os.path.join(REPO, 'src'))
                rc, out = sh('/venv/bin/python %s' % os.path.join(d, 'demo.py'), cwd='/tmp', env=env, timeout=600)
                rec['demo_rc_with_change'] = rc
            checks = args.checks.split(',') if args.checks else (ALL if args.all_checks else [prop])
            rec.setdefault('checks', {})
            for c in checks:
                t = time.time()
                rc, out = sh('./check %s --tier %s' % (c, args.tier), cwd=VERIF, timeout=7200)
                viol = [l for l in out.split('\n') if l.startswith('VIOLATION')]
                rec['checks'][c] = {'rc': rc, 'violations': viol[:3], 'wall_s': round(time.time() - t, 1),
                                    'summary': out.strip().split('\n')[-1][:300]}
                if viol:
                    # keep the replay of the first violation next to the seeded change
                    path = viol[0].split('replay=')[1].split()[0]
                    try:
                        payload = json.load(open(path))
                        rec['checks'][c]['what'] = payload.get('what', '')[:400]
                        rec['checks'][c]['replay_lines'] = payload.get('lines', [])[:2]
                    except Exception:  # noqa: BLE001
                        pass
            rec['detected_by'] = sorted(c for c, r in rec['checks'].items() if r['rc'] != 0)
            rec['detected'] = prop in rec['detected_by']
            rec['concrete_input'] = any('no-failing-input-found' not in v for r in rec['checks'].values() for v in r['violations'])
        finally:
            rc_u, out_u = sh('git apply -R %s' % os.path.join(d, 'patch.diff'), cwd=REPO)
            if rc_u != 0:
                sh('git checkout -- .', cwd=REPO)
        results[sid] = rec
        print(sid, prop, 'DETECTED' if rec.get('detected') else 'MISSED', rec.get('detected_by'), rec.get('tests', ''))
        json.dump(results, open(results_path, 'w'), indent=1, sort_keys=True)
    # the Generated*.v files must describe the unchanged tree again
    sh('python3 %s' % os.path.join(VERIF, 'harness', 'tie_extract.py'))
    # put back the evidence files that describe the unchanged tree
    if os.path.isdir(ev_keep):
        for fn in os.listdir(ev_keep):
            shutil.copy(os.path.join(ev_keep, fn), os.path.join(ev_dir, fn))
    return 0


if __name__ == '__main__':
    sys.exit(main())
