#!/usr/bin/env python3
"""Which seeded changes are caught by the static tie alone (before any input is generated)?

For each /verif/seeded/<id>/patch.diff: apply it to /repo, regenerate the Generated*.v files from
the patched sources, rebuild every Tie*.vo, record which tie files / lemmas no longer check, undo.
Writes /verif/seeded/STATIC.json.   usage: tools/static_eval.py [--only id,id]
"""
import argparse
import json
import os
import re
import subprocess
import sys

VERIF = os.path.dirname(os.path.dirname(os.path.abspath(__file__)))
sys.path.insert(0, os.path.join(VERIF, 'harness'))
import checklib  # noqa: E402

REPO = os.environ.get('VERIF_REPO', '/repo')
TIES = sorted({t for ts in checklib.TIE_FOR.values() for t in ts})


def sh(cmd, cwd=None, timeout=3600):
    pr = subprocess.run(cmd, shell=True, cwd=cwd, stdout=subprocess.PIPE, stderr=subprocess.STDOUT, timeout=timeout)
    return pr.returncode, pr.stdout.decode(errors='replace')


def ties_now():
    broken = []
    ok, msg = checklib.regenerate()
    if not ok:
        broken.append('tie_extract (fail-closed): ' + msg[:200])
    for line in msg.split('\n'):
        if line.startswith('TIE-TRANSLATE-FAILED'):
            broken.append('translator (fail-closed): ' + line[21:200])
    for tie in TIES:
        ok, out = checklib.make_target('%s.vo' % tie, jobs=8)
        if not ok:
            m = re.search(r'File "\./(\S+)", line (\d+)', out)
            lemma = checklib.failing_lemma(os.path.join(checklib.COQ, (m.group(1) if m else tie + '.v')), int(m.group(2)) if m else 0)
            broken.append('%s: %s (lemma %s)' % (tie, m.group(1) if m else '?', lemma))
    return broken


def main():
    ap = argparse.ArgumentParser()
    ap.add_argument('--only')
    args = ap.parse_args()
    seeded = os.path.join(VERIF, 'seeded')
    ids = sorted(d for d in os.listdir(seeded) if os.path.isdir(os.path.join(seeded, d)))
    if args.only:
        ids = [i for i in ids if i in args.only.split(',')]
    rc, out = sh('git status --porcelain', cwd=REPO)
    if out.strip():
        print('refusing: /repo has uncommitted changes')
        return 2
    path = os.path.join(seeded, 'STATIC.json')
    res = json.load(open(path)) if os.path.exists(path) else {}
    with checklib.Lock('build.lock'):
        checklib.ensure_makefile()
        for sid in ids:
            patch = os.path.join(seeded, sid, 'patch.diff')
            rc, out = sh('git apply %s' % patch, cwd=REPO)
            if rc != 0:
                res[sid] = {'error': out[-200:]}
                continue
            try:
                broken = ties_now()
            finally:
                sh('git checkout -- .', cwd=REPO)
            # a fail-closed translator makes every dependent tie fail: keep the cause first
            res[sid] = {'static': bool(broken), 'broken': broken[:6]}
            print(sid, 'STATIC' if broken else '-', '; '.join(broken[:2])[:200])
            json.dump(res, open(path, 'w'), indent=1, sort_keys=True)
        base = ties_now()
        print('unchanged tree:', 'ok' if not base else base)
    return 0


if __name__ == '__main__':
    sys.exit(main())
