#!/usr/bin/env python3
"""Confirm candidate HARMLESS refactorings in a scratch worktree (tests pass; the transcript of equiv.py is
byte-identical with and without the change) and copy the confirmed ones to /verif/refactors.
usage: tools/import_refactors.py /tmp/sw5/out"""
import hashlib, json, os, shutil, subprocess, sys
VERIF = os.path.dirname(os.path.dirname(os.path.abspath(__file__)))
WT = '/tmp/wt_confirm'


def sh(cmd, cwd=None, env=None):
    pr = subprocess.run(cmd, shell=True, cwd=cwd, env=env, stdout=subprocess.PIPE, stderr=subprocess.STDOUT, timeout=3600)
    return pr.returncode, pr.stdout


def main():
    if not os.path.exists(WT):
        rc, out = sh('git -C /repo worktree add -q --detach %s HEAD' % WT)
        assert rc == 0, out
    sh('git checkout -- .', cwd=WT)
    env = dict(os.environ, PYTHONPATH=os.path.join(WT, 'src'), PYTHONHASHSEED='0')
    for src in sys.argv[1:]:
        for name in sorted(os.listdir(src)):
            d = os.path.join(src, name)
            if not os.path.isdir(d) or not all(os.path.exists(os.path.join(d, f)) for f in ('patch.diff', 'equiv.py', 'notes.json')):
                continue
            dst = os.path.join(VERIF, 'refactors', name)
            if os.path.exists(dst):
                print(name, 'already imported')
                continue
            rc0, out0 = sh('/venv/bin/python %s' % os.path.join(d, 'equiv.py'), cwd='/tmp', env=env)
            rc, out = sh('git apply --check %s && git apply %s' % (os.path.join(d, 'patch.diff'), os.path.join(d, 'patch.diff')), cwd=WT)
            if rc != 0:
                print(name, 'REJECTED: patch does not apply')
                continue
            rc, t = sh('/venv/bin/python -m pytest -q -p no:cacheprovider 2>&1 | tail -1', cwd=WT)
            tests = t.decode(errors='replace').strip()
            rc1, out1 = sh('/venv/bin/python %s' % os.path.join(d, 'equiv.py'), cwd='/tmp', env=env)
            sh('git checkout -- .', cwd=WT)
            same = (rc0 == rc1 and out0 == out1 and len(out0) > 1000)
            ok = tests.startswith('150 passed') and same
            print(name, 'CONFIRMED' if ok else 'REJECTED', '|', tests, '| transcript %d bytes, identical: %s' % (len(out0), same))
            if ok:
                os.makedirs(dst)
                shutil.copy(os.path.join(d, 'patch.diff'), dst)
                shutil.copy(os.path.join(d, 'equiv.py'), dst)
                notes = json.load(open(os.path.join(d, 'notes.json')))
                meta = {'property': 'C01', 'kind': 'harmless refactoring', 'summary': notes.get('summary', ''), 'files': notes.get('files', []),
                        'confirmed': {'tests': tests, 'transcript_bytes': len(out0), 'transcript_sha256': hashlib.sha256(out0).hexdigest(),
                                      'ran': 'equiv.py on the unchanged worktree and with the patch applied (PYTHONHASHSEED=0): byte-identical'}}
                json.dump(meta, open(os.path.join(dst, 'meta.json'), 'w'), indent=1)
    return 0


if __name__ == '__main__':
    sys.exit(main())
