(** * MathFun: model of smoothmath/_private/math_functions.py, branch for branch.

    [prim_*] are Python's own primitives with the preconditions under which they raise
    something other than a library error. [mf_*] are the functions of math_functions.py. *)
From Coq Require Import ZArith List Bool.
From SM Require Import Num Outcome.
Import ListNotations.

Section MathFun.
  Context {T : Type} (N : NumOps T).
  Notation "0" := (n0 N).
  Notation "1" := (n1 N).

  (** ** Python primitives that can raise *)

  (* x / y *)
  Definition prim_div (x y : T) : outcome T :=
    if neqb N y 0 then PyErr ZeroDivision else Val (ndiv N x y).

  (* x ** y : ZeroDivisionError for 0 ** negative, a complex result for negative ** non-integer,
     OverflowError when the result leaves the double range. *)
  Definition prim_pow (x y : T) : outcome T :=
    if neqb N x 0 && nltb N y 0 then PyErr ZeroDivision
    else if nltb N x 0 && (match nint N y with Some _ => false | None => true end)
         then PyErr ComplexResult
    else let r := npow N x y in
         if nfinite N r then Val r else PyErr OverflowErr.

  (* x ** n, n an int >= 1 *)
  Definition prim_powi (x : T) (n : positive) : outcome T :=
    let r := npowi N x n in
    if nfinite N r then Val r else PyErr OverflowErr.

  (* math.sqrt *)
  Definition prim_sqrt (x : T) : outcome T :=
    if nltb N x 0 then PyErr ValueError else Val (nsqrt N x).

  (* math.log(x, base) = log(x) / log(base) *)
  Definition prim_log (x base : T) : outcome T :=
    if nleb N x 0 then PyErr ValueError
    else if nleb N base 0 then PyErr ValueError
    else let d := nln N base in
         if neqb N d 0 then PyErr ZeroDivision else Val (ndiv N (nln N x) d).

  (* math.sin, math.cos raise ValueError on infinities *)
  Definition prim_sin (x : T) : outcome T :=
    if nfinite N x then Val (nsin N x) else PyErr ValueError.
  Definition prim_cos (x : T) : outcome T :=
    if nfinite N x then Val (ncos N x) else PyErr ValueError.

  (** ** math_functions.py *)

  Definition mf_add (args : list T) : T := nfloat N (nsum N args).

  Definition mf_minus (x y : T) : T := nfloat N (nsub N x y).

  Definition mf_negation (x : T) : T := nfloat N (nneg N x).

  (* product = 1.0; for arg in args: if arg == 0: return 0; product *= arg *)
  Fixpoint mul_loop (product : T) (args : list T) : T :=
    match args with
    | [] => product
    | a :: r => if neqb N a 0 then 0 else mul_loop (nmul N product a) r
    end.
  Definition mf_multiply (args : list T) : T := mul_loop (nfloat N 1) args.

  Definition mf_divide (x y : T) : outcome T :=
    if neqb N y 0 then DomErr else prim_div x y.

  Definition mf_reciprocal (x : T) : outcome T :=
    if neqb N x 0 then DomErr else prim_div 1 x.

  Definition mf_power (x y : T) : outcome T :=
    if neqb N x 0 then DomErr
    else if nltb N x 0 then DomErr
    else r <- prim_pow x y ;; Val (nfloat N r).

  Definition mf_nth_power (x : T) (n : positive) : outcome T :=
    r <- prim_powi x n ;; Val (nfloat N r).

  Definition one_over (n : positive) : T := ndiv N 1 (nofZ N (Zpos n)).

  Definition mf_nth_root (x : T) (n : positive) : outcome T :=
    match n with
    | 1%positive => Val (nfloat N x)
    | 2%positive =>
        if nltb N 0 x then prim_sqrt x
        else DomErr
    | 3%positive =>
        if nltb N 0 x then Val (ncbrt N x)
        else if neqb N x 0 then DomErr
        else Val (nneg N (ncbrt N (nneg N x)))
    | _ =>
        if Z.even (Zpos n) then
          if nltb N 0 x then prim_pow x (one_over n)
          else DomErr
        else
          if nltb N 0 x then prim_pow x (one_over n)
          else if neqb N x 0 then DomErr
          else r <- prim_pow (nneg N x) (one_over n) ;; Val (nneg N r)
    end.

  Definition mf_exponential (x base : T) : outcome T :=
    if nleb N base 0 then DomErr
    else r <- prim_pow base x ;; Val (nfloat N r).

  Definition mf_logarithm (x base : T) : outcome T :=
    if nleb N base 0 then DomErr
    else if neqb N base 1 then DomErr
    else prim_log x base.

  Definition mf_cosine (x : T) : outcome T := prim_cos x.
  Definition mf_sine (x : T) : outcome T := prim_sin x.
End MathFun.
