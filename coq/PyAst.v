(** * PyAst: a deep embedding of the small Python subset in which math_functions.py and the
    _verify_domain_constraints methods are written, with an interpreter over [NumOps].

    harness/tie_extract.py translates the CURRENT source of those functions into values of
    [pfun] (coq/GeneratedMath.v); TieMath.v proves, for every number interface N and all
    arguments, that interpreting the translated source gives exactly what the hand-written model
    (MathFun.v, Eval.v) gives.  So the numeric core of the model is re-derived from the source on
    every run, and a changed comparison, constant, sign or branch breaks a lemma statically. *)
From Coq Require Import ZArith List Bool String Ascii.
From SM Require Import Num Outcome MathFun.
Import ListNotations.
Open Scope string_scope.
Open Scope list_scope.

Inductive pexpr : Type :=
| EName (x : string)                 (* a parameter or local variable            *)
| EInt (z : Z)                       (* an int literal                           *)
| EFloatLit (z : Z)                  (* a float literal with an integral value: 1.0 *)
| EMathE                             (* math.e                                   *)
| ENeg (a : pexpr)                   (* - a                                      *)
| EBin (op : string) (a b : pexpr)   (* + - * / ** *)
| EFloat (a : pexpr)                 (* float(a)                                 *)
| ESum (a : pexpr)                   (* sum(a)                                   *)
| EMath1 (f : string) (a : pexpr)    (* math.sqrt / cbrt / cos / sin             *)
| ELog2 (a b : pexpr)                (* math.log(a, b)                           *)
| EMf (f : string) (args : list pexpr).   (* mf.f(args): a call into math_functions.py, whose
                                             bodies are tied to MathFun.v by TieMath.v        *)

Inductive pcond : Type :=
| CCmp (op : string) (a b : pexpr)   (* == < > <= >= != *)
| CIsEven (a : pexpr)                (* util.is_even(a)  *)
| CAnd (a b : pcond).

Inductive pstmt : Type :=
| SReturn (e : pexpr)
| SRaiseDomain                       (* raise er.DomainError(...) *)
| SPass
| SIf (c : pcond) (t e : list pstmt)
| SAssign (x : string) (e : pexpr)
| SAugMul (x : string) (e : pexpr)   (* x *= e *)
| SFor (x : string) (l : string) (body : list pstmt).   (* for x in l: body *)

Record pfun : Type := mkFun {
  f_params : list (string * bool);   (* name, is it annotated int? ; a *args parameter has the
                                        name prefixed with "*" *)
  f_body : list pstmt;
}.

Section Interp.
  Context {T : Type} (N : NumOps T).

  Inductive value : Type :=
  | VT (x : T)
  | VZ (z : Z)
  | VList (l : list T).

  Definition env := list (string * value).

  Fixpoint lookup_env (x : string) (r : env) : option value :=
    match r with
    | [] => None
    | (y, v) :: r' => if String.eqb x y then Some v else lookup_env x r'
    end.

  (* an int object used as a number *)
  Definition as_T (v : value) : outcome T :=
    match v with
    | VT x => Val x
    | VZ z => Val (nofZ N z)
    | VList _ => PyErr TypeError
    end.

  Definition bin (op : string) (a b : value) : outcome value :=
    match a, b with
    | VZ x, VZ y =>
        if String.eqb op "+" then Val (VZ (x + y))
        else if String.eqb op "-" then Val (VZ (x - y))
        else if String.eqb op "*" then Val (VZ (x * y))
        else if String.eqb op "/" then
          (if Z.eqb y 0 then PyErr ZeroDivision else Val (VT (ndiv N (nofZ N x) (nofZ N y))))
        else PyErr TypeError
    | _, _ =>
        x <- as_T a ;;
        if String.eqb op "**" then
          match b with
          | VZ n => if Z.ltb 0 n then r <- prim_powi N x (Z.to_pos n) ;; Val (VT r)
                    else y <- as_T b ;; r <- prim_pow N x y ;; Val (VT r)
          | _ => y <- as_T b ;; r <- prim_pow N x y ;; Val (VT r)
          end
        else
          y <- as_T b ;;
          if String.eqb op "+" then Val (VT (nadd N x y))
          else if String.eqb op "-" then Val (VT (nsub N x y))
          else if String.eqb op "*" then Val (VT (nmul N x y))
          else if String.eqb op "/" then r <- prim_div N x y ;; Val (VT r)
          else PyErr TypeError
    end.

  (** a call into math_functions.py, by name; an int argument where the signature says int *)
  Definition mf_dispatch (f : string) (args : list value) : outcome T :=
    let num (v : value) := as_T v in
    match args with
    | [a] =>
        x <- num a ;;
        if String.eqb f "negation" then Val (mf_negation N x)
        else if String.eqb f "reciprocal" then mf_reciprocal N x
        else if String.eqb f "cosine" then mf_cosine N x
        else if String.eqb f "sine" then mf_sine N x
        else if String.eqb f "add" then Val (mf_add N [x])
        else if String.eqb f "multiply" then Val (mf_multiply N [x])
        else PyErr TypeError
    | [a; b] =>
        x <- num a ;;
        if String.eqb f "nth_power" then
          match b with
          | VZ n => if Z.ltb 0 n then mf_nth_power N x (Z.to_pos n) else DomErr
          | _ => PyErr TypeError
          end
        else if String.eqb f "nth_root" then
          match b with
          | VZ n => if Z.ltb 0 n then mf_nth_root N x (Z.to_pos n) else DomErr
          | _ => PyErr TypeError
          end
        else
          y <- num b ;;
          if String.eqb f "minus" then Val (mf_minus N x y)
          else if String.eqb f "divide" then mf_divide N x y
          else if String.eqb f "power" then mf_power N x y
          else if String.eqb f "exponential" then mf_exponential N x y
          else if String.eqb f "logarithm" then mf_logarithm N x y
          else if String.eqb f "add" then Val (mf_add N [x; y])
          else if String.eqb f "multiply" then Val (mf_multiply N [x; y])
          else PyErr TypeError
    | [a; b; c] =>
        x <- num a ;; y <- num b ;; z <- num c ;;
        if String.eqb f "add" then Val (mf_add N [x; y; z])
        else if String.eqb f "multiply" then Val (mf_multiply N [x; y; z])
        else PyErr TypeError
    | _ => PyErr TypeError
    end.

  Fixpoint ev (r : env) (e : pexpr) {struct e} : outcome value :=
    match e with
    | EName x => match lookup_env x r with Some v => Val v | None => PyErr KeyError end
    | EInt z => Val (VZ z)
    | EFloatLit z => Val (VT (nfloat N (nofZ N z)))
    | EMathE => Val (VT (n_e N))
    | ENeg a =>
        v <- ev r a ;;
        match v with
        | VZ z => Val (VZ (- z))
        | VT x => Val (VT (nneg N x))
        | VList _ => PyErr TypeError
        end
    | EBin op a b => x <- ev r a ;; y <- ev r b ;; bin op x y
    | EFloat a => v <- ev r a ;; x <- as_T v ;; Val (VT (nfloat N x))
    | ESum a =>
        v <- ev r a ;;
        match v with
        | VList l => Val (VT (nsum N l))
        | _ => PyErr TypeError
        end
    | EMath1 f a =>
        v <- ev r a ;; x <- as_T v ;;
        if String.eqb f "sqrt" then y <- prim_sqrt N x ;; Val (VT y)
        else if String.eqb f "cbrt" then Val (VT (ncbrt N x))
        else if String.eqb f "cos" then y <- prim_cos N x ;; Val (VT y)
        else if String.eqb f "sin" then y <- prim_sin N x ;; Val (VT y)
        else PyErr TypeError
    | ELog2 a b =>
        v <- ev r a ;; x <- as_T v ;; w <- ev r b ;; y <- as_T w ;;
        z <- prim_log N x y ;; Val (VT z)
    | EMf f args =>
        vs <- (fix evs (l : list pexpr) : outcome (list value) :=
                 match l with
                 | [] => Val []
                 | a :: rest => v <- ev r a ;; vs <- evs rest ;; Val (v :: vs)
                 end) args ;;
        x <- mf_dispatch f vs ;; Val (VT x)
    end.

  Definition cmp (op : string) (a b : value) : outcome bool :=
    match a, b with
    | VZ x, VZ y =>
        if String.eqb op "==" then Val (Z.eqb x y)
        else if String.eqb op "!=" then Val (negb (Z.eqb x y))
        else if String.eqb op "<" then Val (Z.ltb x y)
        else if String.eqb op ">" then Val (Z.ltb y x)
        else if String.eqb op "<=" then Val (Z.leb x y)
        else if String.eqb op ">=" then Val (Z.leb y x)
        else PyErr TypeError
    | _, _ =>
        x <- as_T a ;; y <- as_T b ;;
        if String.eqb op "==" then Val (neqb N x y)
        else if String.eqb op "!=" then Val (negb (neqb N x y))
        else if String.eqb op "<" then Val (nltb N x y)
        else if String.eqb op ">" then Val (nltb N y x)
        else if String.eqb op "<=" then Val (nleb N x y)
        else if String.eqb op ">=" then Val (nleb N y x)
        else PyErr TypeError
    end.

  Fixpoint evc (r : env) (c : pcond) : outcome bool :=
    match c with
    | CCmp op a b => x <- ev r a ;; y <- ev r b ;; cmp op x y
    | CIsEven a =>
        v <- ev r a ;;
        match v with
        | VZ z => Val (Z.even z)
        | _ => PyErr TypeError
        end
    | CAnd a b => x <- evc r a ;; if x then evc r b else Val false
    end.

  (** executing a block: [inl r'] = fell through with environment r'; [inr v] = returned v *)
  Definition flow := (env + value)%type.

  (* for x in items: body *)
  Fixpoint for_loop (run_body : env -> outcome flow) (x : string) (r : env) (items : list T)
    : outcome flow :=
    match items with
    | [] => Val (inl r)
    | it :: rest =>
        f <- run_body ((x, VT it) :: r) ;;
        match f with
        | inl r' => for_loop run_body x r' rest
        | inr v => Val (inr v)
        end
    end.

  Fixpoint exec (r : env) (s : pstmt) {struct s} : outcome flow :=
    let block :=
      fix block (r : env) (l : list pstmt) {struct l} : outcome flow :=
        match l with
        | [] => Val (inl r)
        | s :: rest =>
            f <- exec r s ;;
            match f with
            | inl r' => block r' rest
            | inr v => Val (inr v)
            end
        end in
    match s with
    | SReturn e => v <- ev r e ;; Val (inr v)
    | SRaiseDomain => DomErr
    | SPass => Val (inl r)
    | SIf c t e => b <- evc r c ;; if b then block r t else block r e
    | SAssign x e => v <- ev r e ;; Val (inl ((x, v) :: r))
    | SAugMul x e =>
        a <- ev r (EName x) ;; v <- ev r e ;; w <- bin "*" a v ;; Val (inl ((x, w) :: r))
    | SFor x lname body =>
        match lookup_env lname r with
        | Some (VList items) => for_loop (fun r' => block r' body) x r items
        | _ => PyErr TypeError
        end
    end.

  Fixpoint exec_block (r : env) (l : list pstmt) : outcome flow :=
    match l with
    | [] => Val (inl r)
    | s :: rest =>
        f <- exec r s ;;
        match f with
        | inl r' => exec_block r' rest
        | inr v => Val (inr v)
        end
    end.

  (** bind the parameters: a "*name" parameter takes all the remaining arguments as a list *)
  Fixpoint bind_params (ps : list (string * bool)) (args : list value) : option env :=
    match ps with
    | [] => match args with [] => Some [] | _ => None end
    | (p, _) :: ps' =>
        match get 0 p with
        | Some "*"%char =>
            let items := flat_map (fun v => match v with VT x => [x] | VZ z => [nofZ N z] | VList _ => [] end) args in
            Some [(substring 1 (String.length p - 1) p, VList items)]
        | _ =>
            match args with
            | a :: args' => match bind_params ps' args' with
                            | Some r => Some ((p, a) :: r)
                            | None => None
                            end
            | [] => None
            end
        end
    end.

  (** calling a translated function: the result as a number (None result = returned None) *)
  Definition call (f : pfun) (args : list value) : outcome (option T) :=
    match bind_params (f_params f) args with
    | None => PyErr TypeError
    | Some r =>
        fl <- exec_block r (f_body f) ;;
        match fl with
        | inl _ => Val None
        | inr v => x <- as_T v ;; Val (Some x)
        end
    end.
End Interp.

Arguments VT {T} x.
Arguments VZ {T} z.
Arguments VList {T} l.
