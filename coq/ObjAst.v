(** * ObjAst: a deep embedding of the Python subset in which the object protocol of the library is
    written — the __eq__, __hash__ and _to_string / __str__ / __repr__ methods of the six expression
    base classes and leaves, of Point and of the four derivative-object classes — with an
    interpreter over the model's objects (Objects.pyobj).

    harness/tie_extract.py translates the CURRENT source of those methods (GeneratedObj.v);
    TieObj.v proves that each computes the model's [py_eq] / [py_hash] / [show*] (Objects.v), for
    every number interface and all objects (including foreign right-hand sides of ==).

    [==] between sub-objects, [hash] of sub-objects and [str] of sub-objects are the model's own
    functions on those sub-objects (one unfolding of the recursion per method).  Python's hash of
    strings, numbers, ints and tuples stays abstract (the parameters h_str, h_num, ...), as in Objects.v. *)
From Coq Require Import ZArith List Bool String Ascii.
From SM Require Import Num Syntax Outcome Eval Objects.
Import ListNotations.
Open Scope string_scope.
Open Scope list_scope.

(** literal pieces of an f-string, tokenised by the translator *)
Inductive ltok : Type := LName (s : string) | LLP | LRP | LComma | LEq.

Inductive qx : Type :=
| QSelf
| QOther
| QName (x : string)
| QAttr (t : qx) (f : string)
| QClassName (t : qx)                  (* util.get_class_name(t) *)
| QClassOf (t : qx)                    (* t.__class__ *)
| QTag (s : string)                    (* a string literal, e.g. "Partial" in a hash tuple *)
| QBool (b : bool)
| QEq (a b : qx)
| QNe (a b : qx)
| QAnd (a b : qx)
| QLen (t : qx)
| QTuple (l : list qx)
| QTupleOf (t : qx)                    (* tuple(t) *)
| QHash (t : qx)                       (* hash(t) *)
| QSuperEq                             (* super().__eq__(other) *)
| QAnyNeZip (a b : qx)                 (* any(x != y for (x, y) in zip(a, b)) *)
| QLit (l : list ltok)                 (* a literal piece of an f-string *)
| QFStr (parts : list qx)              (* f"...": literal pieces and interpolated values *)
| QJoinStr (t : qx)                    (* ", ".join(str(x) for x in t) *)
| QJoinCoords (t : qx)                 (* ", ".join(f'{k}={v}' for k, v in t.items()) *)
| QSortedItems (t : qx)                (* tuple(sorted(t.items())) *)
| QToString.                           (* self._to_string() *)

Inductive qstmt : Type :=
| QSReturn (t : qx)
| QSIf (c : qx) (th el : list qstmt)
| QSAssign (x : string) (t : qx).

Record qfun : Type := mkQFun { q_params : list string; q_body : list qstmt }.

Section Interp.
  Context {T : Type} (N : NumOps T).
  Context {H : Type}.
  Variable h_str : string -> H.
  Variable h_name : name -> H.
  Variable h_num : T -> H.
  Variable h_pos : positive -> H.
  Variable h_nat : nat -> H.
  Variable h_tuple : list H -> H.
  Notation E := (expr T).
  Notation tok := (token T).
  Notation obj := (pyobj (T:=T)).

  Inductive qval : Type :=
  | QVObj (o : obj)
  | QVCls (c : string)          (* a class / a class name *)
  | QVTag (s : string)
  | QVB (b : bool)
  | QVName (x : name)
  | QVNum (c : T)
  | QVPos (n : positive)
  | QVNat (n : nat)
  | QVList (l : list qval)
  | QVTup (l : list qval)
  | QVDict (p : point T)
  | QVToks (ts : list tok)
  | QVHash (h : H).

  Definition qenv := list (string * qval).
  Fixpoint qlook (x : string) (r : qenv) : option qval :=
    match r with
    | [] => None
    | (y, w) :: r' => if String.eqb x y then Some w else qlook x r'
    end.

  Definition ecls (e : E) : string :=
    match e with
    | Const _ => "Constant" | Var _ => "Variable" | Add _ => "Add" | Mul _ => "Multiply"
    | Minus _ _ => "Minus" | Divide _ _ => "Divide" | Power _ _ => "Power"
    | Neg _ => "Negation" | Recip _ => "Reciprocal" | Sin _ => "Sine" | Cos _ => "Cosine"
    | NthPow _ _ => "NthPower" | NthRoot _ _ => "NthRoot"
    | Exp _ _ => "Exponential" | Log _ _ => "Logarithm"
    end.

  (* the class of an object; every foreign object has a class that is none of the library's *)
  Definition ocls (o : obj) : string :=
    match o with
    | OExpr e => ecls e
    | OPoint _ => "Point"
    | OPartial _ _ => "Partial"
    | ODerivative _ => "Derivative"
    | ODifferential _ => "Differential"
    | OLocated _ _ => "LocatedDifferential"
    | OForeign _ => "<foreign>"
    end.

  (* the NAME of the class of an object: a foreign class may be called anything, in particular what a class of the
     library is called (ast.Add, sympy.Add, a user's own Add): foreign object number k < 20 is an instance of a class
     named like the k-th class of the library; comparing class names is therefore weaker than comparing classes *)
  Definition library_class_names : list string :=
    ["Constant"; "Variable"; "Add"; "Multiply"; "Minus"; "Divide"; "Power"; "Negation"; "Reciprocal"; "Sine"; "Cosine";
     "NthPower"; "NthRoot"; "Exponential"; "Logarithm"; "Point"; "Partial"; "Derivative"; "Differential";
     "LocatedDifferential"].
  Definition oname (o : obj) : string :=
    match o with
    | OForeign k => nth k library_class_names "<foreign>"
    | _ => ocls o
    end.

  Definition qattr (w : qval) (f : string) : option qval :=
    match w with
    | QVObj (OExpr e) =>
        if String.eqb f "_inner" then
          match e with
          | Neg a | Recip a | Sin a | Cos a | NthPow a _ | NthRoot a _ | Exp a _ | Log a _ => Some (QVObj (OExpr a))
          | _ => None
          end
        else if String.eqb f "_left" then
          match e with Minus a _ | Divide a _ | Power a _ => Some (QVObj (OExpr a)) | _ => None end
        else if String.eqb f "_right" then
          match e with Minus _ b | Divide _ b | Power _ b => Some (QVObj (OExpr b)) | _ => None end
        else if String.eqb f "_inners" then
          match e with Add l | Mul l => Some (QVList (map (fun x => QVObj (OExpr x)) l)) | _ => None end
        else if String.eqb f "_parameter" then
          match e with
          | NthPow _ n | NthRoot _ n => Some (QVPos n)
          | Exp _ b | Log _ b => Some (QVNum b)
          | _ => None
          end
        else if String.eqb f "n" then
          match e with NthPow _ n | NthRoot _ n => Some (QVPos n) | _ => None end
        else if String.eqb f "base" then
          match e with Exp _ b | Log _ b => Some (QVNum b) | _ => None end
        else if String.eqb f "value" then
          match e with Const c => Some (QVNum c) | _ => None end
        else if String.eqb f "name" then
          match e with Var x => Some (QVName x) | _ => None end
        else None
    | QVObj (OPoint p) =>
        if String.eqb f "_coordinates" then Some (QVDict p) else None
    | QVObj (OPartial e v) =>
        if String.eqb f "_original_expression" then Some (QVObj (OExpr e))
        else if String.eqb f "_variable_name" then Some (QVName v)
        else None
    | QVObj (ODerivative e) =>
        if String.eqb f "_original_expression" then Some (QVObj (OExpr e)) else None
    | QVObj (ODifferential e) =>
        if String.eqb f "_original_expression" then Some (QVObj (OExpr e)) else None
    | QVObj (OLocated e p) =>
        if String.eqb f "_original_expression" then Some (QVObj (OExpr e))
        else if String.eqb f "_point" then Some (QVObj (OPoint p))
        else None
    | _ => None
    end.

  (** a == b : Python calls a.__eq__(b); between the library's objects that is the model's py_eq *)
  Definition qeq (a b : qval) : option bool :=
    match a, b with
    | QVObj x, QVObj y =>
        match x with
        | OForeign _ => None                    (* a foreign left operand: not the library's business *)
        | _ => Some (py_eq N x y)
        end
    | QVCls c, QVCls c' => Some (String.eqb c c')
    | QVName x, QVName y => Some (name_eqb x y)
    | QVNum x, QVNum y => Some (neqb N x y)
    | QVPos n, QVPos m => Some (Pos.eqb n m)
    | QVNat n, QVNat m => Some (Nat.eqb n m)
    | QVDict p, QVDict q => Some (point_eqb N p q)
    | QVPos _, QVNum _ | QVNum _, QVPos _ => None
    | _, _ => None
    end.

  Fixpoint qzip_any_ne (l l' : list qval) : option bool :=
    match l, l' with
    | x :: r, y :: r' =>
        match qeq x y with
        | Some true => qzip_any_ne r r'
        | Some false => Some true
        | None => None
        end
    | _, _ => Some false
    end.

  (** hash(w) *)
  Fixpoint qhash (w : qval) : option H :=
    match w with
    | QVObj o => py_hash h_str h_name h_num h_pos h_nat h_tuple o
    | QVCls s | QVTag s => Some (h_str s)
    | QVName x => Some (h_name x)
    | QVNum c => Some (h_num c)
    | QVPos n => Some (h_pos n)
    | QVNat n => Some (h_nat n)
    | QVTup l =>
        match (fix go (l : list qval) : option (list H) :=
                 match l with
                 | [] => Some []
                 | x :: r => match qhash x, go r with
                             | Some a, Some b => Some (a :: b)
                             | _, _ => None
                             end
                 end) l with
        | Some hs => Some (h_tuple hs)
        | None => None
        end
    | _ => None          (* lists and dicts are unhashable *)
    end.

  (** str(w) *)
  Definition qstr (w : qval) : option (list tok) :=
    match w with
    | QVObj (OExpr e) => Some (show e)
    | QVObj (OPoint p) => Some (show_point p)
    | QVCls s => Some [TName s]
    | QVName x => Some [TStr x]
    | QVNum c => Some [TNum c]
    | QVPos n => Some [TPos n]
    | QVToks ts => Some ts
    | _ => None
    end.

  Definition ltoks (l : list ltok) : list tok :=
    map (fun t => match t with
                  | LName s => TName s | LLP => TLP | LRP => TRP | LComma => TComma | LEq => TEq
                  end) l.

  (** self._to_string(): the printed form of self, per class (the methods are tied one by one) *)
  Definition qto_string (o : obj) : option (list tok) :=
    match o with
    | OExpr e => Some (show e)
    | OPoint p => Some (show_point p)
    | OPartial e v => Some (show_partial e v)
    | ODerivative e => Some (show_derivative e)
    | ODifferential e => Some (show_differential e)
    | OLocated e p => Some (show_located e p)
    | OForeign _ => None
    end.

  (** super().__eq__(other) in ParameterizedUnaryExpression: UnaryExpression.__eq__ *)
  Definition qsuper_eq (self other : qval) : option bool :=
    match self, other with
    | QVObj (OExpr e), QVObj o =>
        match e with
        | NthPow a _ | NthRoot a _ | Exp a _ | Log a _ =>
            if String.eqb (ocls o) (ecls e) then
              match o with
              | OExpr (NthPow b _ | NthRoot b _ | Exp b _ | Log b _) => Some (eqb N b a)
              | _ => None
              end
            else Some false
        | _ => None
        end
    | _, _ => None
    end.

  Fixpoint qev (r : qenv) (t : qx) {struct t} : option qval :=
    let qevlist :=
      fix qevlist (l : list qx) : option (list qval) :=
        match l with
        | [] => Some []
        | a :: rest => match qev r a, qevlist rest with
                       | Some w, Some ws => Some (w :: ws)
                       | _, _ => None
                       end
        end in
    match t with
    | QSelf => qlook "self" r
    | QOther => qlook "other" r
    | QName x => qlook x r
    | QAttr a f => match qev r a with Some w => qattr w f | None => None end
    | QClassOf a =>
        match qev r a with Some (QVObj o) => Some (QVCls (ocls o)) | _ => None end
    | QClassName a =>
        match qev r a with Some (QVObj o) => Some (QVCls (oname o)) | _ => None end
    | QTag s => Some (QVTag s)
    | QBool b => Some (QVB b)
    | QEq a b =>
        match qev r a, qev r b with
        | Some x, Some y => match qeq x y with Some c => Some (QVB c) | None => None end
        | _, _ => None
        end
    | QNe a b =>
        match qev r a, qev r b with
        | Some x, Some y => match qeq x y with Some c => Some (QVB (negb c)) | None => None end
        | _, _ => None
        end
    | QAnd a b =>
        match qev r a with
        | Some (QVB true) => match qev r b with Some (QVB c) => Some (QVB c) | _ => None end
        | Some (QVB false) => Some (QVB false)
        | _ => None
        end
    | QLen a =>
        match qev r a with Some (QVList l) => Some (QVNat (List.length l)) | _ => None end
    | QTuple l => match qevlist l with Some ws => Some (QVTup ws) | None => None end
    | QTupleOf a => match qev r a with Some (QVList l) => Some (QVTup l) | _ => None end
    | QHash a =>
        match qev r a with
        | Some w => match qhash w with Some h => Some (QVHash h) | None => None end
        | None => None
        end
    | QSuperEq =>
        match qlook "self" r, qlook "other" r with
        | Some s, Some o => match qsuper_eq s o with Some c => Some (QVB c) | None => None end
        | _, _ => None
        end
    | QAnyNeZip a b =>
        match qev r a, qev r b with
        | Some (QVList l), Some (QVList l') =>
            match qzip_any_ne l l' with Some c => Some (QVB c) | None => None end
        | _, _ => None
        end
    | QLit l => Some (QVToks (ltoks l))
    | QFStr parts =>
        match qevlist parts with
        | Some ws =>
            option_map QVToks
              ((fix cat (l : list qval) : option (list tok) :=
                  match l with
                  | [] => Some []
                  | w :: rest => match qstr w, cat rest with
                                 | Some a, Some b => Some (a ++ b)
                                 | _, _ => None
                                 end
                  end) ws)
        | None => None
        end
    | QJoinStr a =>
        match qev r a with
        | Some (QVList l) =>
            option_map (fun ls => QVToks (join_comma ls))
              ((fix go (l : list qval) : option (list (list tok)) :=
                  match l with
                  | [] => Some []
                  | w :: rest => match qstr w, go rest with
                                 | Some a, Some b => Some (a :: b)
                                 | _, _ => None
                                 end
                  end) l)
        | _ => None
        end
    | QJoinCoords a =>
        match qev r a with
        | Some (QVDict p) =>
            Some (QVToks (join_comma (map (fun kv : name * T => [TStr (fst kv); TEq; TNum (snd kv)]) p)))
        | _ => None
        end
    | QSortedItems a =>
        match qev r a with
        | Some (QVDict p) =>
            Some (QVTup (map (fun kv : name * T => QVTup [QVName (fst kv); QVNum (snd kv)]) (sort_coords p)))
        | _ => None
        end
    | QToString =>
        match qlook "self" r with
        | Some (QVObj o) => match qto_string o with Some ts => Some (QVToks ts) | None => None end
        | _ => None
        end
    end.

  Definition qflow := (qenv + qval)%type.

  Fixpoint qexec (r : qenv) (s : qstmt) {struct s} : option qflow :=
    let block :=
      fix block (r : qenv) (l : list qstmt) {struct l} : option qflow :=
        match l with
        | [] => Some (inl r)
        | s :: rest =>
            match qexec r s with
            | Some (inl r') => block r' rest
            | Some (inr w) => Some (inr w)
            | None => None
            end
        end in
    match s with
    | QSReturn t => match qev r t with Some w => Some (inr w) | None => None end
    | QSIf c th el =>
        match qev r c with
        | Some (QVB true) => block r th
        | Some (QVB false) => block r el
        | _ => None
        end
    | QSAssign x t => match qev r t with Some w => Some (inl ((x, w) :: r)) | None => None end
    end.

  Fixpoint qexec_block (r : qenv) (l : list qstmt) : option qflow :=
    match l with
    | [] => Some (inl r)
    | s :: rest =>
        match qexec r s with
        | Some (inl r') => qexec_block r' rest
        | Some (inr w) => Some (inr w)
        | None => None
        end
    end.

  Definition qcall (f : qfun) (self : obj) (args : list qval) : option qval :=
    if Nat.eqb (List.length (q_params f)) (List.length args) then
      match qexec_block (("self", QVObj self) :: combine (q_params f) args) (q_body f) with
      | Some (inr w) => Some w
      | _ => None
      end
    else None.
End Interp.

Arguments QVObj {T H} o.
Arguments QVCls {T H} c.
Arguments QVTag {T H} s.
Arguments QVB {T H} b.
Arguments QVName {T H} x.
Arguments QVNum {T H} c.
Arguments QVPos {T H} n.
Arguments QVNat {T H} n.
Arguments QVList {T H} l.
Arguments QVTup {T H} l.
Arguments QVDict {T H} p.
Arguments QVToks {T H} ts.
Arguments QVHash {T H} h.
