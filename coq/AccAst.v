(** * AccAst: the two accumulator classes (accumulators.py) — add_to and *_partials_for of
    NumericPartialsAccumulator and SyntheticPartialsAccumulator — as a deep embedding with an
    interpreter over insertion-ordered dictionaries; GeneratedAcc.v holds the translated CURRENT
    source; TieAcc.v proves the bodies compute the model's [acc_add] / [numeric_partials_for]
    (Reverse.v) and [sacc_add] / [synthetic_partials_for] (Synth.v). *)
From Coq Require Import ZArith List Bool String Ascii.
From SM Require Import Num Syntax Outcome Eval.
Import ListNotations.
Open Scope string_scope.
Open Scope list_scope.

Inductive ax : Type :=
| AName (x : string)
| AField (f : string)                 (* self._f *)
| ANone
| AZero                               (* the int 0 *)
| AEmptyDict                          (* {} *)
| AGetName (t : ax)                   (* va.get_variable_name(t) *)
| AGet (d k dflt : ax)                (* d.get(k, dflt) *)
| APlus (a b : ax)                    (* a + b *)
| AIsNone (t : ax)
| ANot (t : ax)
| AIfExp (c a b : ax)                 (* a if c else b *)
| AConst0.                            (* ex.Constant(0) *)

Inductive astmt : Type :=
| ASAssign (x : string) (t : ax)
| ASSetFieldItem (f : string) (k v : ax)    (* self._f[k] = v *)
| ASSetItem (d : string) (k v : ax)         (* d[k] = v  (d a local dict) *)
| ASFor (x : string) (iter : ax) (body : list astmt)
| ASIf (c : ax) (th el : list astmt)
| ASReturn (t : ax).

Record afun : Type := mkAFun { a_params : list string; a_body : list astmt }.

Section Interp.
  Context {T : Type} (N : NumOps T).
  Notation E := (expr T).

  Inductive aval : Type :=
  | AVN (x : T)
  | AVZ (z : Z)
  | AVE (e : E)
  | AVName (v : name)
  | AVNames (l : list name)
  | AVB (b : bool)
  | AVNone
  | AVDict (d : list (name * aval)).

  Definition aenv := list (string * aval).
  Fixpoint alook (x : string) (r : aenv) : option aval :=
    match r with
    | [] => None
    | (y, w) :: r' => if String.eqb x y then Some w else alook x r'
    end.

  Fixpoint dget (v : name) (d : list (name * aval)) : option aval :=
    match d with
    | [] => None
    | (x, w) :: r => if name_eqb v x then Some w else dget v r
    end.

  (* d[k] = w: an existing key keeps its place, a new key goes to the end *)
  Fixpoint dset (d : list (name * aval)) (v : name) (w : aval) : list (name * aval) :=
    match d with
    | [] => [(v, w)]
    | (x, u) :: r => if name_eqb v x then (x, w) :: r else (x, u) :: dset r v w
    end.

  Definition aplus (a b : aval) : option aval :=
    match a, b with
    | AVN x, AVN y => Some (AVN (nadd N x y))
    | AVZ z, AVN y => Some (AVN (nadd N (nofZ N z) y))
    | AVN x, AVZ z => Some (AVN (nadd N x (nofZ N z)))
    | AVE x, AVE y => Some (AVE (Add [x; y]))         (* Expression.__add__ *)
    | _, _ => None
    end.

  Fixpoint aev (r : aenv) (fs : aenv) (t : ax) : option aval :=
    match t with
    | AName x => alook x r
    | AField f => alook f fs
    | ANone => Some AVNone
    | AZero => Some (AVZ 0)
    | AEmptyDict => Some (AVDict [])
    | AGetName a =>
        match aev r fs a with
        | Some (AVName v) => Some (AVName v)
        | Some (AVE (Var v)) => Some (AVName v)
        | _ => None
        end
    | AGet d k dflt =>
        match aev r fs d, aev r fs k, aev r fs dflt with
        | Some (AVDict dd), Some (AVName v), Some z => Some (match dget v dd with Some u => u | None => z end)
        | _, _, _ => None
        end
    | APlus a b => match aev r fs a, aev r fs b with Some x, Some y => aplus x y | _, _ => None end
    | AIsNone a => match aev r fs a with Some w => Some (AVB (match w with AVNone => true | _ => false end)) | None => None end
    | ANot a => match aev r fs a with Some (AVB b) => Some (AVB (negb b)) | _ => None end
    | AIfExp c a b =>
        match aev r fs c with
        | Some (AVB true) => aev r fs a
        | Some (AVB false) => aev r fs b
        | _ => None
        end
    | AConst0 => Some (AVE (Const (nofZ N 0)))
    end.

  Definition astate := (aenv * aenv)%type.      (* locals, fields of self *)
  Definition aflow := (astate + aval)%type.

  Fixpoint set_local (x : string) (w : aval) (r : aenv) : aenv :=
    match r with
    | [] => [(x, w)]
    | (y, u) :: r' => if String.eqb x y then (y, w) :: r' else (y, u) :: set_local x w r'
    end.

  Section Loops.
    Fixpoint afor_loop (run_body : astate -> name -> option aflow) (st : astate) (items : list name) : option aflow :=
      match items with
      | [] => Some (inl st)
      | it :: rest =>
          match run_body st it with
          | Some (inl st') => afor_loop run_body st' rest
          | Some (inr w) => Some (inr w)
          | None => None
          end
      end.
  End Loops.

  Fixpoint aexec (st : astate) (s : astmt) {struct s} : option aflow :=
    let block :=
      fix block (st : astate) (l : list astmt) {struct l} : option aflow :=
        match l with
        | [] => Some (inl st)
        | s :: rest =>
            match aexec st s with
            | Some (inl st') => block st' rest
            | Some (inr w) => Some (inr w)
            | None => None
            end
        end in
    let (r, fs) := st in
    match s with
    | ASAssign x t => match aev r fs t with Some w => Some (inl (set_local x w r, fs)) | None => None end
    | ASSetFieldItem f k v =>
        match alook f fs, aev r fs k, aev r fs v with
        | Some (AVDict d), Some (AVName kk), Some w => Some (inl (r, set_local f (AVDict (dset d kk w)) fs))
        | _, _, _ => None
        end
    | ASSetItem dn k v =>
        match alook dn r, aev r fs k, aev r fs v with
        | Some (AVDict d), Some (AVName kk), Some w => Some (inl (set_local dn (AVDict (dset d kk w)) r, fs))
        | _, _, _ => None
        end
    | ASFor x iter body =>
        match aev r fs iter with
        | Some (AVNames items) =>
            afor_loop (fun st' it => block (set_local x (AVName it) (fst st'), snd st') body) st items
        | _ => None
        end
    | ASIf c th el =>
        match aev r fs c with
        | Some (AVB true) => block st th
        | Some (AVB false) => block st el
        | _ => None
        end
    | ASReturn t => match aev r fs t with Some w => Some (inr w) | None => None end
    end.

  Fixpoint aexec_block (st : astate) (l : list astmt) : option aflow :=
    match l with
    | [] => Some (inl st)
    | s :: rest =>
        match aexec st s with
        | Some (inl st') => aexec_block st' rest
        | Some (inr w) => Some (inr w)
        | None => None
        end
    end.

  (** a method call: the returned value (AVNone when the body falls off the end) and self's fields afterwards *)
  Definition acall (f : afun) (fs : aenv) (args : list aval) : option (aval * aenv) :=
    if Nat.eqb (List.length (a_params f)) (List.length args) then
      match aexec_block (combine (a_params f) args, fs) (a_body f) with
      | Some (inr w) => Some (w, fs)
      | Some (inl st) => Some (AVNone, snd st)
      | None => None
      end
    else None.
End Interp.

Arguments AVN {T} x.
Arguments AVZ {T} z.
Arguments AVE {T} e.
Arguments AVName {T} v.
Arguments AVNames {T} l.
Arguments AVB {T} b.
Arguments AVNone {T}.
Arguments AVDict {T} d.
