(** * Routes: the public differentiation routes (Partial, Derivative, Differential,
    LocatedDifferential), early and late, as pure functions of expression, variable and point.

    A late object on which as_expression() was called behaves like an early one (its
    _synthetic_partial is set), so "late-after-as_expression" is the early function.
    [None] = the model's depth fuel ran out (never a verdict; the harness re-runs with more). *)
From Coq Require Import ZArith List Bool String.
From SM Require Import Num Syntax Outcome MathFun Eval Forward Reverse Synth Rules Driver Normalize.
Import ListNotations.

Section Routes.
  Context {T : Type} (N : NumOps T).
  Notation E := (expr T).
  Variables (fuel d : nat).

  (** Partial(e, v).as_expression()  /  Derivative(e).as_expression() *)
  Definition partial_as_expression (e : E) (v : name) : option E :=
    normalize N fuel d (synth_fwd N v e).

  (** Partial(e, v).at(p), not computed early *)
  Definition partial_at_late (e : E) (v : name) (p : point T) : outcome T := fwd N v p e.

  (** Partial.at on an object holding the symbolic partial [s]:
      self._original_expression.at(point); return self._synthetic_partial.at(point) *)
  Definition at_via (e s : E) (p : point T) : outcome T :=
    _ <- eval N p e ;; eval N p s.

  (** Partial(e, v, compute_early=True).at(p) *)
  Definition partial_at_early (e : E) (v : name) (p : point T) : option (outcome T) :=
    match partial_as_expression e v with
    | Some s => Some (at_via e s p)
    | None => None
    end.

  (** Derivative(e): rejected (None) unless e has at most one variable *)
  Definition derivative_variable (e : E) : option name := the_single_variable_name e.

  Definition derivative_at_late (e : E) (p : point T) : option (outcome T) :=
    match derivative_variable e with
    | Some v => Some (partial_at_late e v p)
    | None => None
    end.

  (* Derivative.at(number): the point has the single coordinate variable_name = number *)
  Definition derivative_at_number_late (e : E) (x : T) : option (outcome T) :=
    match derivative_variable e with
    | Some v => Some (partial_at_late e v [(v, x)])
    | None => None
    end.

  (** Differential(e, compute_early=True)._synthetic_partials, over an enumeration of the
      variable-name set *)
  Definition differential_early_partials (e : E) (enum : list name) : option (list (name * E)) :=
    omapM (fun xs : name * E =>
             match normalize N fuel d (snd xs) with
             | Some s => Some (fst xs, s)
             | None => None
             end)
          (synthetic_partials N e enum).

  (** Differential(e, early).component(v).as_expression() *)
  Definition differential_early_component_expr (e : E) (enum : list name) (v : name)
    : option E :=
    match differential_early_partials e enum with
    | Some sp => match slookup v sp with
                 | Some s => Some s
                 | None => partial_as_expression e v   (* falls back to a late Partial *)
                 end
    | None => None
    end.

  (** Differential(e, early).component_at(v, p) = .component(v).at(p) *)
  Definition differential_early_component_at (e : E) (enum : list name) (v : name) (p : point T)
    : option (outcome T) :=
    match differential_early_partials e enum with
    | Some sp => match slookup v sp with
                 | Some s => Some (at_via e s p)
                 | None => Some (partial_at_late e v p)
                 end
    | None => None
    end.

  (** Differential(e).at(p) late  =  e.at(p); LocatedDifferential(e, p) *)
  Definition differential_at_late (e : E) (enum : list name) (p : point T)
    : outcome (list (name * T)) :=
    _ <- eval N p e ;; numeric_partials N p e enum.

  (** LocatedDifferential(e, p) *)
  Definition located_differential (e : E) (enum : list name) (p : point T)
    : outcome (list (name * T)) :=
    numeric_partials N p e enum.

  (** Differential(e, early).at(p) *)
  Definition differential_at_early (e : E) (enum : list name) (p : point T)
    : option (outcome (list (name * T))) :=
    match differential_early_partials e enum with
    | Some sp =>
        Some (_ <- eval N p e ;;
              sequence (map (fun xs : name * E => v <- eval N p (snd xs) ;; Val (fst xs, v)) sp))
    | None => None
    end.

  (** ....component(v) of a located differential *)
  Definition component_of (o : outcome (list (name * T))) (v : name) : outcome T :=
    ps <- o ;; Val (located_component N ps v).
End Routes.
