(** * Normalize: model of _normalize_fully_reduced (the final normal-form pass) and _normalize.

    The pass calls _normalize (full reduction + pass) on the arguments of sums and products, as
    the code does; the mutual recursion runs on explicit depth fuel [d] and returns None when it
    runs out (excluded in the theorems, checked by the harness).  [fuel] bounds the number of
    form-changing steps of each nested _fully_reduce. *)
From Coq Require Import ZArith List Bool String.
From SM Require Import Num Syntax Outcome MathFun Eval Rules Driver.
Import ListNotations.

Section Normalize.
  Context {T : Type} (N : NumOps T).
  Notation E := (expr T).
  Notation C0 := (Const (n0 N)).
  Notation C1 := (Const (n1 N)).

  Fixpoint omapM {A B} (f : A -> option B) (l : list A) : option (list B) :=
    match l with
    | [] => Some []
    | x :: r => match f x, omapM f r with
                | Some y, Some ys => Some (y :: ys)
                | _, _ => None
                end
    end.

  (* add._simplified_Add *)
  Definition simplified_add (terms : list E) : E :=
    match terms with
    | [] => C0
    | [t] => t
    | _ => Add terms
    end.

  (* multiply._simplified_Multiply *)
  Definition simplified_multiply (terms : list E) : E :=
    match terms with
    | [] => C1
    | [t] => t
    | _ => Mul terms
    end.

  Definition assemble_add (type_i type_ii : list E) : E :=
    match type_i, type_ii with
    | _ :: _, _ :: _ => Minus (simplified_add type_i) (simplified_add type_ii)
    | _ :: _, [] => simplified_add type_i
    | [], _ :: _ => Neg (simplified_add type_ii)
    | [], [] => C0
    end.

  Definition assemble_multiply (numer denom : list E) : E :=
    match numer, denom with
    | _ :: _, _ :: _ => Divide (simplified_multiply numer) (simplified_multiply denom)
    | _ :: _, [] => simplified_multiply numer
    | [], _ :: _ => Recip (simplified_multiply denom)
    | [], [] => C1
    end.

  Definition opt_map1 (f : E -> E) (o : option E) : option E :=
    match o with Some x => Some (f x) | None => None end.
  Definition opt_map2 (f : E -> E -> E) (o1 o2 : option E) : option E :=
    match o1, o2 with Some x, Some y => Some (f x y) | _, _ => None end.

  (* _normalize_fully_reduced *)
  Fixpoint nfr (fuel : nat) (d : nat) (e : E) {struct d} : option E :=
    match d with
    | O => None
    | S d' =>
        let norm := fun t : E => nfr fuel d' (fully_reduce N fuel t) in   (* t._normalize() *)
        match e with
        | Const c => Some (Const c)
        | Var x => Some (Var x)
        | Add l =>
            let (negs, non_negs) := partition_by is_Neg l in
            match omapM norm non_negs, omapM (fun t => norm (inner_of t)) negs with
            | Some type_i, Some type_ii => Some (assemble_add type_i type_ii)
            | _, _ => None
            end
        | Mul l =>
            let (recips, non_recips) := partition_by is_Recip l in
            match omapM norm non_recips, omapM (fun t => norm (inner_of t)) recips with
            | Some numer, Some denom => Some (assemble_multiply numer denom)
            | _, _ => None
            end
        | Minus a b => opt_map2 Minus (nfr fuel d' a) (nfr fuel d' b)
        | Divide a b => opt_map2 Divide (nfr fuel d' a) (nfr fuel d' b)
        | Power a b => opt_map2 Power (nfr fuel d' a) (nfr fuel d' b)
        | Neg a => opt_map1 Neg (nfr fuel d' a)
        | Recip a => opt_map1 Recip (nfr fuel d' a)
        | Sin a => opt_map1 Sin (nfr fuel d' a)
        | Cos a => opt_map1 Cos (nfr fuel d' a)
        | NthPow a n => opt_map1 (fun x => NthPow x n) (nfr fuel d' a)
        | NthRoot a n => opt_map1 (fun x => NthRoot x n) (nfr fuel d' a)
        | Exp a b => opt_map1 (fun x => Exp x b) (nfr fuel d' a)
        | Log a b => opt_map1 (fun x => Log x b) (nfr fuel d' a)
        end
    end.

  (** The labels of every form-changing step taken by the nested _normalize calls of
      [nfr fuel d e] (same recursion as [nfr]); used to state soundness modulo KF-ROOT and by the
      driver to attribute a failure to that known finding. *)
  Fixpoint nfr_trace (fuel : nat) (d : nat) (e : E) {struct d} : list (label (T:=T)) :=
    match d with
    | O => []
    | S d' =>
        let ntrace := fun t : E =>
          reduce_trace N fuel t ++ nfr_trace fuel d' (fully_reduce N fuel t) in
        match e with
        | Const _ | Var _ => []
        | Add l =>
            let (negs, non_negs) := partition_by is_Neg l in
            flat_map ntrace non_negs ++ flat_map (fun t => ntrace (inner_of t)) negs
        | Mul l =>
            let (recips, non_recips) := partition_by is_Recip l in
            flat_map ntrace non_recips ++ flat_map (fun t => ntrace (inner_of t)) recips
        | Minus a b | Divide a b | Power a b => nfr_trace fuel d' a ++ nfr_trace fuel d' b
        | Neg a | Recip a | Sin a | Cos a | NthPow a _ | NthRoot a _ | Exp a _ | Log a _ =>
            nfr_trace fuel d' a
        end
    end.

  Definition normalize_trace (fuel d : nat) (e : E) : list (label (T:=T)) :=
    reduce_trace N fuel e ++ nfr_trace fuel d (fully_reduce N fuel e).

  (* no application of the even/even root-of-power rule (KF-ROOT) anywhere in the trace *)
  Definition good_trace (tr : list (label (T:=T))) : bool :=
    forallb (fun lab => negb (bad_label lab)) tr.

  (* Expression._normalize *)
  Definition normalize (fuel d : nat) (e : E) : option E :=
    nfr fuel d (fully_reduce N fuel e).
End Normalize.
