(** * History: proofs of the statements of SpecStateful.v (C09).

    Part A — the evaluation cache ([reset_clean], [eval_s_refines], [history_independent],
    [no_reset_refuted]).
    Part B — the simplifier's flags ([flags_step], [flags_fully_reduce],
    [flags_history_independent]).

    Everything is generic in the number type: no axioms are used. *)
From Coq Require Import ZArith List Bool Lia.
From SM Require Import Num Syntax Outcome MathFun Eval Rules Driver Stateful SpecStateful.
Import ListNotations.

(* ====================================================================================== *)
(** * Part A: the evaluation cache *)
(* ====================================================================================== *)

Section PartA.
  Context {T : Type} (N : NumOps T).
  Notation SE := (@sexpr T).
  Notation ST := (@store T).

  (** ** Induction through the nested lists *)
  Section Ind.
    Variable P : SE -> Prop.
    Hypothesis HConst : forall c, P (SConst c).
    Hypothesis HVar : forall x, P (SVar x).
    Hypothesis HAdd : forall i l, Forall P l -> P (SAdd i l).
    Hypothesis HMul : forall i l, Forall P l -> P (SMul i l).
    Hypothesis HMinus : forall i a b, P a -> P b -> P (SMinus i a b).
    Hypothesis HDivide : forall i a b, P a -> P b -> P (SDivide i a b).
    Hypothesis HPower : forall i a b, P a -> P b -> P (SPower i a b).
    Hypothesis HNeg : forall i a, P a -> P (SNeg i a).
    Hypothesis HRecip : forall i a, P a -> P (SRecip i a).
    Hypothesis HSin : forall i a, P a -> P (SSin i a).
    Hypothesis HCos : forall i a, P a -> P (SCos i a).
    Hypothesis HNthPow : forall i a n, P a -> P (SNthPow i a n).
    Hypothesis HNthRoot : forall i a n, P a -> P (SNthRoot i a n).
    Hypothesis HExp : forall i a b, P a -> P (SExp i a b).
    Hypothesis HLog : forall i a b, P a -> P (SLog i a b).

    Fixpoint sexpr_ind' (e : SE) : P e :=
      let fix go (l : list SE) : Forall P l :=
        match l return Forall P l with
        | [] => Forall_nil P
        | x :: r => Forall_cons x (sexpr_ind' x) (go r)
        end in
      match e return P e with
      | SConst c => HConst c
      | SVar x => HVar x
      | SAdd i l => HAdd i l (go l)
      | SMul i l => HMul i l (go l)
      | SMinus i a b => HMinus i a b (sexpr_ind' a) (sexpr_ind' b)
      | SDivide i a b => HDivide i a b (sexpr_ind' a) (sexpr_ind' b)
      | SPower i a b => HPower i a b (sexpr_ind' a) (sexpr_ind' b)
      | SNeg i a => HNeg i a (sexpr_ind' a)
      | SRecip i a => HRecip i a (sexpr_ind' a)
      | SSin i a => HSin i a (sexpr_ind' a)
      | SCos i a => HCos i a (sexpr_ind' a)
      | SNthPow i a n => HNthPow i a n (sexpr_ind' a)
      | SNthRoot i a n => HNthRoot i a n (sexpr_ind' a)
      | SExp i a b => HExp i a b (sexpr_ind' a)
      | SLog i a b => HLog i a b (sexpr_ind' a)
      end.
  End Ind.

  (** the uniform version: the property holds of a node when it holds of its children *)
  Lemma sexpr_ind_ch (P : SE -> Prop) :
    (forall e, Forall P (schildren e) -> P e) -> forall e, P e.
  Proof.
    intros H e. induction e using sexpr_ind'; apply H; simpl; auto.
  Qed.

  (** ** Uniform unfolding equations *)

  Lemma snodes_unfold (e : SE) : snodes e = e :: flat_map snodes (schildren e).
  Proof.
    destruct e; simpl; rewrite ?app_nil_r; reflexivity.
  Qed.

  Lemma in_snodes_self (e : SE) : In e (snodes e).
  Proof. rewrite snodes_unfold. left. reflexivity. Qed.

  Lemma in_snodes_child (c x : SE) : In x (schildren c) -> In x (snodes c).
  Proof.
    intro H. rewrite snodes_unfold. right. apply in_flat_map. exists x. split; auto.
    apply in_snodes_self.
  Qed.

  Lemma in_snodes_trans (a b c : SE) : In a (snodes b) -> In b (snodes c) -> In a (snodes c).
  Proof.
    revert a b. induction c as [c IH] using sexpr_ind_ch. intros a b Hab Hbc.
    rewrite snodes_unfold in Hbc. destruct Hbc as [Hbc | Hbc].
    - subst b. exact Hab.
    - apply in_flat_map in Hbc. destruct Hbc as [x [Hx Hbx]].
      rewrite snodes_unfold. right. apply in_flat_map. exists x. split; auto.
      rewrite Forall_forall in IH. eapply IH; eauto.
  Qed.

  Lemma in_snodes_child_of (root c x : SE) :
    In c (snodes root) -> In x (schildren c) -> In x (snodes root).
  Proof.
    intros Hc Hx. eapply in_snodes_trans; [apply in_snodes_child; exact Hx | exact Hc].
  Qed.

  (* _reset_evaluation_cache, uniformly *)
  Lemma reset_s_unfold (s : ST) (e : SE) :
    reset_s s e =
    fold_left reset_s (schildren e) (match oid_of e with Some i => sclear s i | None => s end).
  Proof.
    assert (HL : forall l s0,
      (fix reset_list (s : ST) (l : list SE) {struct l} : ST :=
         match l with [] => s | x :: r => reset_list (reset_s s x) r end) s0 l
      = fold_left reset_s l s0).
    { induction l as [|x r IH]; intros s0; simpl; auto. }
    destruct e; simpl; try reflexivity; apply HL.
  Qed.

  (* pure evaluation of a non-leaf node, uniformly *)
  Lemma eval_erase_unfold (p : point T) (e : SE) (i : oid) :
    oid_of e = Some i ->
    eval N p (erase e) =
    bind (sequence (map (fun x => eval N p (erase x)) (schildren e))) (node_value N e).
  Proof.
    intro Hi. destruct e; simpl in Hi; try discriminate; simpl.
    - rewrite map_map. reflexivity.
    - rewrite map_map. reflexivity.
    - destruct (eval N p (erase e1)); simpl; try reflexivity;
        destruct (eval N p (erase e2)); reflexivity.
    - destruct (eval N p (erase e1)); simpl; try reflexivity;
        destruct (eval N p (erase e2)); reflexivity.
    - destruct (eval N p (erase e1)); simpl; try reflexivity;
        destruct (eval N p (erase e2)); reflexivity.
    - destruct (eval N p (erase e)); reflexivity.
    - destruct (eval N p (erase e)); reflexivity.
    - destruct (eval N p (erase e)); reflexivity.
    - destruct (eval N p (erase e)); reflexivity.
    - destruct (eval N p (erase e)); reflexivity.
    - destruct (eval N p (erase e)); reflexivity.
    - destruct (eval N p (erase e)); reflexivity.
    - destruct (eval N p (erase e)); reflexivity.
  Qed.

  (* the inner loop of [eval_s], standalone *)
  Fixpoint eval_list_s (s : ST) (p : point T) (l : list SE) : ST * outcome (list T) :=
    match l with
    | [] => (s, Val [])
    | x :: r =>
        match eval_s N s p x with
        | (s1, Val v) =>
            match eval_list_s s1 p r with
            | (s2, Val vs) => (s2, Val (v :: vs))
            | (s2, DomErr) => (s2, DomErr)
            | (s2, CoordMissing) => (s2, CoordMissing)
            | (s2, PyErr k) => (s2, PyErr k)
            end
        | (s1, DomErr) => (s1, DomErr)
        | (s1, CoordMissing) => (s1, CoordMissing)
        | (s1, PyErr k) => (s1, PyErr k)
        end
    end.

  Definition eval_node_s (s : ST) (p : point T) (e : SE) (i : oid) : ST * outcome T :=
    match sget s i with
    | Some v => (s, Val v)
    | None =>
        match eval_list_s s p (schildren e) with
        | (s1, Val vs) =>
            match node_value N e vs with
            | Val v => (sset s1 i v, Val v)
            | err => (s1, err)
            end
        | (s1, DomErr) => (s1, DomErr)
        | (s1, CoordMissing) => (s1, CoordMissing)
        | (s1, PyErr k) => (s1, PyErr k)
        end
    end.

  Lemma eval_s_unfold (s : ST) (p : point T) (e : SE) :
    eval_s N s p e =
    match oid_of e with
    | None => (s, eval N p (erase e))
    | Some i => eval_node_s s p e i
    end.
  Proof.
    assert (HL : forall l s0,
      (fix eval_list (s : ST) (l : list SE) {struct l} : ST * outcome (list T) :=
         match l with
         | [] => (s, Val [])
         | x :: r =>
             match eval_s N s p x with
             | (s1, Val v) =>
                 match eval_list s1 r with
                 | (s2, Val vs) => (s2, Val (v :: vs))
                 | (s2, DomErr) => (s2, DomErr)
                 | (s2, CoordMissing) => (s2, CoordMissing)
                 | (s2, PyErr k) => (s2, PyErr k)
                 end
             | (s1, DomErr) => (s1, DomErr)
             | (s1, CoordMissing) => (s1, CoordMissing)
             | (s1, PyErr k) => (s1, PyErr k)
             end
         end) s0 l = eval_list_s s0 p l).
    { induction l as [|x r IH]; intros s0; simpl; auto.
      destruct (eval_s N s0 p x) as [s1 [v| | |k]]; auto. rewrite IH. reflexivity. }
    destruct e; simpl; try reflexivity; unfold eval_node_s; simpl;
      try rewrite HL; reflexivity.
  Qed.

  (** ** The store *)

  Lemma sget_sclear (s : ST) (i j : oid) :
    sget (sclear s j) i = if Pos.eqb i j then None else sget s i.
  Proof.
    induction s as [|[k v] r IH]; simpl.
    - destruct (Pos.eqb i j); reflexivity.
    - destruct (Pos.eqb j k) eqn:Ejk.
      + rewrite IH. apply Pos.eqb_eq in Ejk. subst k.
        destruct (Pos.eqb i j); reflexivity.
      + simpl. destruct (Pos.eqb i k) eqn:Eik.
        * apply Pos.eqb_eq in Eik. subst k. rewrite Pos.eqb_sym, Ejk. reflexivity.
        * exact IH.
  Qed.

  Lemma sget_sset (s : ST) (i j : oid) (v : T) :
    sget (sset s i v) j = if Pos.eqb j i then Some v else sget s j.
  Proof. reflexivity. Qed.

  (** ** reset_clean *)

  (* the reset only ever clears *)
  Lemma fold_reset_none (l : list SE) :
    Forall (fun e => forall (s : ST) i, sget s i = None -> sget (reset_s s e) i = None) l ->
    forall (s : ST) i, sget s i = None -> sget (fold_left reset_s l s) i = None.
  Proof.
    induction 1 as [|x r Hx Hr IH]; intros s i Hs; simpl; auto.
  Qed.

  Lemma reset_none (e : SE) :
    forall (s : ST) i, sget s i = None -> sget (reset_s s e) i = None.
  Proof.
    induction e as [e IH] using sexpr_ind_ch. intros s i Hs.
    rewrite reset_s_unfold. apply fold_reset_none; auto.
    destruct (oid_of e) as [j|]; auto.
    rewrite sget_sclear, Hs. destruct (Pos.eqb i j); reflexivity.
  Qed.

  Lemma fold_reset_none' (l : list SE) (s : ST) i :
    sget s i = None -> sget (fold_left reset_s l s) i = None.
  Proof.
    apply fold_reset_none. apply Forall_forall. intros x _. apply reset_none.
  Qed.

  Lemma reset_clean_gen (root : SE) :
    forall (n : SE) (i : oid) (s : ST),
      In n (snodes root) -> oid_of n = Some i -> sget (reset_s s root) i = None.
  Proof.
    induction root as [root IH] using sexpr_ind_ch. intros n i s Hn Hi.
    rewrite reset_s_unfold. rewrite snodes_unfold in Hn. destruct Hn as [Hn | Hn].
    - subst n. rewrite Hi. apply fold_reset_none'. rewrite sget_sclear, Pos.eqb_refl. reflexivity.
    - apply in_flat_map in Hn. destruct Hn as [x [Hx Hnx]].
      generalize (match oid_of root with Some i0 => sclear s i0 | None => s end).
      induction IH as [|y r Hy Hr IHr]; intros s0; simpl.
      + destruct Hx.
      + destruct Hx as [Hx | Hx].
        * subst y. apply fold_reset_none'. eapply Hy; eauto.
        * apply IHr; auto.
  Qed.

  (** ** eval_s_refines *)

  Section Refines.
    Variables (root : SE) (p : point T).
    Hypothesis Hwf : wf_ids root.

    Let good (c : SE) : Prop :=
      forall s : ST, In c (snodes root) -> consistent N s p root ->
        snd (eval_s N s p c) = eval N p (erase c) /\ consistent N (fst (eval_s N s p c)) p root.

    Lemma eval_list_ok (l : list SE) :
      Forall good l ->
      forall s : ST, (forall x, In x l -> In x (snodes root)) -> consistent N s p root ->
        snd (eval_list_s s p l) = sequence (map (fun x => eval N p (erase x)) l) /\
        consistent N (fst (eval_list_s s p l)) p root.
    Proof.
      induction 1 as [|x r Hx Hr IH]; intros s Hin Hc; simpl.
      - split; auto.
      - destruct (Hx s) as [H1 H2]; [apply Hin; left; reflexivity | exact Hc |].
        destruct (eval_s N s p x) as [s1 o]. simpl in H1, H2. rewrite <- H1.
        destruct o as [v| | |k]; simpl; auto.
        destruct (IH s1) as [I1 I2]; [intros y Hy; apply Hin; right; exact Hy | exact H2 |].
        destruct (eval_list_s s1 p r) as [s2 o2]. simpl in I1, I2. rewrite <- I1.
        destruct o2 as [vs| | |k]; simpl; auto.
    Qed.

    Lemma eval_node_ok (c : SE) (i : oid) :
      oid_of c = Some i -> Forall good (schildren c) ->
      forall s : ST, In c (snodes root) -> consistent N s p root ->
        snd (eval_node_s s p c i) = eval N p (erase c) /\
        consistent N (fst (eval_node_s s p c i)) p root.
    Proof.
      intros Hi Hch s Hc Hs. unfold eval_node_s.
      destruct (sget s i) as [v|] eqn:G; simpl.
      - split; auto. symmetry. eapply Hs; eauto.
      - destruct (eval_list_ok (schildren c) Hch s) as [H1 H2]; auto.
        { intros x Hx. eapply in_snodes_child_of; eauto. }
        rewrite (eval_erase_unfold p c i Hi).
        destruct (eval_list_s s p (schildren c)) as [s1 o]. simpl in H1, H2. rewrite <- H1.
        destruct o as [vs| | |k]; simpl; auto.
        destruct (node_value N c vs) as [v| | |k] eqn:NV; simpl; auto.
        split; auto.
        intros n j w Hn Hj Hg. rewrite sget_sset in Hg.
        destruct (Pos.eqb j i) eqn:Eji.
        + apply Pos.eqb_eq in Eji. subst j. injection Hg as Hg. subst w.
          assert (n = c) by (eapply Hwf; eauto). subst n.
          rewrite (eval_erase_unfold p c i Hi), <- H1. simpl. exact NV.
        + eapply H2; eauto.
    Qed.

    Lemma eval_s_ok (c : SE) : good c.
    Proof.
      induction c as [c IH] using sexpr_ind_ch. intros s Hc Hs.
      rewrite eval_s_unfold. destruct (oid_of c) as [i|] eqn:Hi.
      - apply eval_node_ok; auto.
      - simpl. split; auto.
    Qed.
  End Refines.
End PartA.

Theorem reset_clean : C09_reset_clean.
Proof.
  unfold C09_reset_clean. intros T root n i s Hn Hi. eapply reset_clean_gen; eauto.
Qed.

Theorem eval_s_refines : C09_eval_s_refines.
Proof.
  unfold C09_eval_s_refines. intros T N root c p s Hwf Hc Hs.
  apply (eval_s_ok N root p Hwf c s Hc Hs).
Qed.

(** ** history_independent *)
Section HistoryA.
  Context {T : Type} (N : NumOps T).

  Lemma reset_consistent (s : @store T) (p : point T) (root : @sexpr T) :
    consistent N (reset_s s root) p root.
  Proof.
    intros n i v Hn Hi Hg. rewrite (reset_clean T root n i s Hn Hi) in Hg. discriminate.
  Qed.

  Lemma run_calls_ok (root : @sexpr T) (p : point T) :
    wf_ids root ->
    forall (calls : list (@sexpr T)) (s : @store T),
      (forall x, In x calls -> In x (snodes root)) -> consistent N s p root ->
      snd (run_calls N s p calls) = map (fun x => eval N p (erase x)) calls.
  Proof.
    intros Hwf. induction calls as [|c r IH]; intros s Hin Hs; simpl; auto.
    destruct (eval_s_refines T N root c p s Hwf) as [H1 H2]; auto.
    { apply Hin. left. reflexivity. }
    destruct (eval_s N s p c) as [s1 o]. simpl in H1, H2.
    specialize (IH s1). destruct (run_calls N s1 p r) as [s2 os]. simpl in *.
    rewrite H1, IH; auto.
  Qed.

  Lemma run_call_ok (s : @store T) (c : @call T) :
    call_ok c -> snd (run_call N s c) = pure_call N c.
  Proof.
    intros [Hwf Hin]. unfold run_call, pure_call.
    apply run_calls_ok with (root := c_root c); auto. apply reset_consistent.
  Qed.
End HistoryA.

Theorem history_independent : C09_history_independent.
Proof.
  unfold C09_history_independent. intros T N h. induction h as [|c r IH]; intros s0 Hok; simpl; auto.
  inversion Hok as [|c' r' Hc Hr]; subst.
  pose proof (run_call_ok N s0 c Hc) as H1.
  destruct (run_call N s0 c) as [s1 o]. simpl in H1.
  specialize (IH s1 Hr). destruct (run_history N s1 r) as [s2 os]. simpl in *.
  rewrite H1, IH. reflexivity.
Qed.

(** ** no_reset_refuted *)

Definition ZOps : NumOps Z :=
  mkNumOps Z (fun z => z) (fun x => x) 3%Z (fun l => fold_right Z.add 0%Z l)
    Z.add Z.sub Z.mul Z.div Z.opp (fun x _ => x) (fun x _ => x) (fun x => x) (fun x => x)
    (fun x => x) (fun x => x) (fun x => x) Z.eqb Z.ltb (fun x => Some x) (fun _ => true).

Theorem no_reset_refuted : C09_no_reset_refuted.
Proof.
  unfold C09_no_reset_refuted.
  exists (SNeg 1%positive (SVar 2%positive)), [(2%positive, 5%Z)], [(2%positive, 7%Z)], ZOps.
  vm_compute. discriminate.
Qed.


(* ====================================================================================== *)
(** * Part B: the simplifier's flags *)
(* ====================================================================================== *)

Section PartB.
  Context {T : Type} (N : NumOps T).
  Notation E := (expr T).
  Notation FL := (@flags T).
  Variable E_eqb : E -> E -> bool.
  Hypothesis E_eqb_spec : forall a b, E_eqb a b = true <-> a = b.

  (** ** Uniform view of a node: its children and how to put new children back *)
  Definition echildren (e : E) : list E :=
    match e with
    | Const _ | Var _ => []
    | Add l | Mul l => l
    | Minus a b | Divide a b | Power a b => [a; b]
    | Neg a | Recip a | Sin a | Cos a | NthPow a _ | NthRoot a _ | Exp a _ | Log a _ => [a]
    end.

  Definition erebuild (e : E) (l : list E) : E :=
    match e, l with
    | Add _, _ => Add l
    | Mul _, _ => Mul l
    | Minus _ _, [a; b] => Minus a b
    | Divide _ _, [a; b] => Divide a b
    | Power _ _, [a; b] => Power a b
    | Neg _, [a] => Neg a
    | Recip _, [a] => Recip a
    | Sin _, [a] => Sin a
    | Cos _, [a] => Cos a
    | NthPow _ n, [a] => NthPow a n
    | NthRoot _ n, [a] => NthRoot a n
    | Exp _ b, [a] => Exp a b
    | Log _ b, [a] => Log a b
    | _, _ => e
    end.

  Lemma erebuild_same (e : E) : erebuild e (echildren e) = e.
  Proof. destruct e; reflexivity. Qed.

  Lemma expr_ind_ch (P : E -> Prop) :
    (forall e, Forall P (echildren e) -> P e) -> forall e, P e.
  Proof.
    intros H e. induction e using expr_ind'; apply H; simpl; auto.
  Qed.

  (** ** The pure step, uniformly *)

  (* the inner loop of [step_named], standalone, with and without labels *)
  Fixpoint step_list_n (l : list E) : option (label * list E) :=
    match l with
    | [] => None
    | x :: r =>
        match step_named N x with
        | Some (lab, x') => Some (lab, x' :: r)
        | None =>
            match step_list_n r with
            | Some (lab, r') => Some (lab, x :: r')
            | None => None
            end
        end
    end.

  Fixpoint step_list_p (l : list E) : option (list E) :=
    match l with
    | [] => None
    | x :: r =>
        match step N x with
        | Some x' => Some (x' :: r)
        | None =>
            match step_list_p r with
            | Some r' => Some (x :: r')
            | None => None
            end
        end
    end.

  Lemma step_list_n_p (l : list E) :
    match step_list_n l with Some (_, l') => Some l' | None => None end = step_list_p l.
  Proof.
    induction l as [|x r IH]; simpl; auto. unfold step.
    destruct (step_named N x) as [[lab x']|]; auto.
    rewrite <- IH. destruct (step_list_n r) as [[lab r']|]; auto.
  Qed.

  Lemma step_unfold (e : E) :
    step N e =
    match consolidate N e with
    | Some c => Some c
    | None =>
        match step_list_p (echildren e) with
        | Some l' => Some (erebuild e l')
        | None => match apply_reducers N e with Some (_, e') => Some e' | None => None end
        end
    end.
  Proof.
    assert (HL : forall l,
      (fix step_list (l : list E) : option (label * list E) :=
         match l with
         | [] => None
         | x :: r =>
             match step_named N x with
             | Some (lab, x') => Some (lab, x' :: r)
             | None =>
                 match step_list r with
                 | Some (lab, r') => Some (lab, x :: r')
                 | None => None
                 end
             end
         end) l = step_list_n l).
    { induction l as [|x r IH]; simpl; auto; rewrite IH; reflexivity. }
    unfold step at 1.
    destruct e; cbn [step_named];
      (destruct (consolidate N _) as [c0|]; [reflexivity|]);
      cbn [echildren erebuild step_list_p]; try reflexivity;
      try rewrite HL; try rewrite <- step_list_n_p; unfold step;
      repeat match goal with
             | |- context [step_list_n ?l] =>
                 destruct (step_list_n l) as [[? ?]|]; [reflexivity|]
             | |- context [step_named N ?a] =>
                 destruct (step_named N a) as [[? ?]|]; [reflexivity|]
             end;
      unfold rules_at; destruct (apply_reducers N _) as [[? ?]|]; reflexivity.
  Qed.

  (** ** The flagged step, uniformly *)

  Fixpoint step_list_f (f1 : FL) (l : list E) : option (FL * list E) :=
    match l with
    | [] => None
    | x :: r =>
        if reduced f1 x then
          match step_list_f f1 r with
          | Some (f2, r') => Some (f2, x :: r')
          | None => None
          end
        else let (f2, x') := take_step_f N E_eqb f1 x in Some (f2, x' :: r)
    end.

  Lemma take_step_f_unfold (f : FL) (e : E) :
    take_step_f N E_eqb f e =
    if reduced f e then (f, e)
    else
      match consolidate_f N E_eqb f e with
      | (f1, Some c) => (f1, c)
      | (f1, None) =>
          match step_list_f f1 (echildren e) with
          | Some (f2, l') => (f2, erebuild e l')
          | None =>
              match apply_reducers N e with
              | Some (_, e') => (f1, e')
              | None => (mark_reduced E_eqb f1 e, e)
              end
          end
      end.
  Proof.
    assert (HL : forall f1 l,
      (fix step_list (l : list E) : option (FL * list E) :=
         match l with
         | [] => None
         | x :: r =>
             if reduced f1 x then
               match step_list r with
               | Some (f2, r') => Some (f2, x :: r')
               | None => None
               end
             else let (f2, x') := take_step_f N E_eqb f1 x in Some (f2, x' :: r)
         end) l = step_list_f f1 l).
    { intros f1. induction l as [|x r IH]; simpl; auto; rewrite IH; reflexivity. }
    destruct e; cbn [take_step_f];
      (destruct (reduced f _); [reflexivity|]);
      (destruct (consolidate_f N E_eqb f _) as [f1 [c0|]]; [reflexivity|]);
      cbn [echildren erebuild step_list_f]; try reflexivity.
    - rewrite HL. destruct (step_list_f f1 l) as [[f2 l']|]; reflexivity.
    - rewrite HL. destruct (step_list_f f1 l) as [[f2 l']|]; reflexivity.
    - destruct (reduced f1 e1); [destruct (reduced f1 e2)|];
        try destruct (take_step_f N E_eqb f1 _) as [f2 x']; reflexivity.
    - destruct (reduced f1 e1); [destruct (reduced f1 e2)|];
        try destruct (take_step_f N E_eqb f1 _) as [f2 x']; reflexivity.
    - destruct (reduced f1 e1); [destruct (reduced f1 e2)|];
        try destruct (take_step_f N E_eqb f1 _) as [f2 x']; reflexivity.
    - destruct (reduced f1 e); try destruct (take_step_f N E_eqb f1 _) as [f2 x']; reflexivity.
    - destruct (reduced f1 e); try destruct (take_step_f N E_eqb f1 _) as [f2 x']; reflexivity.
    - destruct (reduced f1 e); try destruct (take_step_f N E_eqb f1 _) as [f2 x']; reflexivity.
    - destruct (reduced f1 e); try destruct (take_step_f N E_eqb f1 _) as [f2 x']; reflexivity.
    - destruct (reduced f1 e); try destruct (take_step_f N E_eqb f1 _) as [f2 x']; reflexivity.
    - destruct (reduced f1 e); try destruct (take_step_f N E_eqb f1 _) as [f2 x']; reflexivity.
    - destruct (reduced f1 e); try destruct (take_step_f N E_eqb f1 _) as [f2 x']; reflexivity.
    - destruct (reduced f1 e); try destruct (take_step_f N E_eqb f1 _) as [f2 x']; reflexivity.
  Qed.

  (** ** Consolidation with the [failed] memo agrees with pure consolidation *)

  Lemma consolidate_f_spec (f f1 : FL) (e : E) (o : option E) :
    truthful N f -> consolidate_f N E_eqb f e = (f1, o) ->
    truthful N f1 /\ o = consolidate N e.
  Proof.
    intros Ht H.
    assert (HF : consolidate_f N E_eqb f e =
      if var_free e then
        if is_Const e then (f, None)
        else if failed f e then (f, None)
        else match eval N [] e with
             | Val v => (f, Some (Const v))
             | DomErr => (mark_failed E_eqb f e, None)
             | _ => (f, None)
             end
      else (f, None)) by (destruct e; reflexivity).
    assert (HP : consolidate N e =
      if var_free e then
        if is_Const e then None
        else match eval N [] e with Val v => Some (Const v) | _ => None end
      else None) by (destruct e; reflexivity).
    rewrite HF in H. rewrite HP. clear HF HP.
    destruct (var_free e) eqn:VF; [|inversion H; subst; auto].
    destruct (is_Const e); [inversion H; subst; auto|].
    destruct (failed f e) eqn:Fe.
    - inversion H; subst. split; auto.
      destruct Ht as [_ Ht2]. destruct (Ht2 e Fe) as [_ Hne].
      destruct (eval N [] e) as [v| | |k] eqn:Ev; auto. exfalso. apply (Hne v). reflexivity.
    - destruct (eval N [] e) as [v| | |k] eqn:Ev; inversion H; subst; split; auto.
      destruct Ht as [Ht1 Ht2]. split.
      + exact Ht1.
      + intros x Hx. simpl in Hx. apply orb_true_iff in Hx. destruct Hx as [Hx | Hx].
        * apply E_eqb_spec in Hx. subst x. split; auto. intros v. rewrite Ev. discriminate.
        * apply Ht2. exact Hx.
  Qed.

  (** ** flags_step *)

  Let good (e : E) : Prop :=
    forall (f f' : FL) (e' : E),
      truthful N f -> take_step_f N E_eqb f e = (f', e') ->
      truthful N f' /\ (e' = e \/ step N e = Some e').

  Lemma step_list_f_ok (f1 : FL) (l : list E) :
    Forall good l -> truthful N f1 ->
    match step_list_f f1 l with
    | Some (f2, l') => truthful N f2 /\ (l' = l \/ step_list_p l = Some l')
    | None => step_list_p l = None
    end.
  Proof.
    intros HF Ht. induction HF as [|x r Hx Hr IH]; simpl; auto.
    destruct (reduced f1 x) eqn:Rx.
    - assert (Sx : step N x = None) by (apply Ht; exact Rx). rewrite Sx.
      destruct (step_list_f f1 r) as [[f2 r']|].
      + destruct IH as [I1 [I2 | I2]]; split; auto.
        * left. congruence.
        * right. rewrite I2. reflexivity.
      + rewrite IH. reflexivity.
    - destruct (take_step_f N E_eqb f1 x) as [f2 x'] eqn:TS.
      destruct (Hx f1 f2 x' Ht TS) as [H1 [H2 | H2]]; split; auto.
      + left. congruence.
      + right. rewrite H2. reflexivity.
  Qed.

  Lemma take_step_f_ok (e : E) : good e.
  Proof.
    induction e as [e IH] using expr_ind_ch. intros f f' e' Ht H.
    rewrite take_step_f_unfold in H.
    destruct (reduced f e) eqn:Re.
    { inversion H; subst. auto. }
    destruct (consolidate_f N E_eqb f e) as [f1 o] eqn:CF.
    destruct (consolidate_f_spec f f1 e o Ht CF) as [Ht1 Ho].
    rewrite step_unfold. rewrite <- Ho.
    destruct o as [c|].
    { inversion H; subst. auto. }
    pose proof (step_list_f_ok f1 (echildren e) IH Ht1) as SL.
    destruct (step_list_f f1 (echildren e)) as [[f2 l']|].
    { inversion H; subst. destruct SL as [S1 [S2 | S2]]; split; auto.
      - left. rewrite S2. apply erebuild_same.
      - right. rewrite S2. reflexivity. }
    rewrite SL.
    destruct (apply_reducers N e) as [[nm e'']|] eqn:AR.
    { inversion H; subst. auto. }
    inversion H; subst. split; auto.
    destruct Ht1 as [Ht1 Ht2]. split.
    - intros x Hx. simpl in Hx. apply orb_true_iff in Hx. destruct Hx as [Hx | Hx].
      + apply E_eqb_spec in Hx. subst x.
        rewrite step_unfold, <- Ho, SL, AR. reflexivity.
      + apply Ht1. exact Hx.
    - exact Ht2.
  Qed.

  (** ** flags_fully_reduce *)

  Lemma fully_reduce_f_ok (budget : nat) :
    forall (f f' : FL) (e e' : E),
      truthful N f -> fully_reduce_f N E_eqb budget f e = (f', e') ->
      truthful N f' /\ exists k, iter_step_g N k e = Some e'.
  Proof.
    induction budget as [|b IH]; intros f f' e e' Ht H; simpl in H.
    - inversion H; subst. split; auto. exists 0. reflexivity.
    - destruct (reduced f e).
      + inversion H; subst. split; auto. exists 0. reflexivity.
      + destruct (take_step_f N E_eqb f e) as [f1 e1] eqn:TS.
        destruct (take_step_f_ok e f f1 e1 Ht TS) as [Ht1 Hs].
        destruct (IH f1 f' e1 e' Ht1 H) as [Ht' [k Hk]]. split; auto.
        destruct Hs as [Hs | Hs].
        * subst e1. exists k. exact Hk.
        * exists (S k). simpl. rewrite Hs. exact Hk.
  Qed.

  (** ** flags_history_independent *)

  (* the pure rewrite sequence is deterministic: it has at most one rule-free member *)
  Lemma iter_step_g_det (a : nat) :
    forall (b : nat) (e x y : E),
      iter_step_g N a e = Some x -> step N x = None ->
      iter_step_g N b e = Some y -> step N y = None -> x = y.
  Proof.
    induction a as [|a IH]; intros b e x y Hx Sx Hy Sy; simpl in Hx.
    - inversion Hx; subst. destruct b as [|b]; simpl in Hy.
      + inversion Hy; subst. reflexivity.
      + rewrite Sx in Hy. discriminate.
    - destruct (step N e) as [e1|] eqn:Se; [|discriminate].
      destruct b as [|b]; simpl in Hy.
      + inversion Hy; subst. rewrite Sy in Se. discriminate.
      + rewrite Se in Hy. eapply IH; eauto.
  Qed.

  Lemma flags_history_ok (b1 b2 : nat) (f1 f2 f1' f2' : FL) (e e1 e2 : E) :
    truthful N f1 -> truthful N f2 ->
    fully_reduce_f N E_eqb b1 f1 e = (f1', e1) -> reduced f1' e1 = true ->
    fully_reduce_f N E_eqb b2 f2 e = (f2', e2) -> reduced f2' e2 = true ->
    e1 = e2.
  Proof.
    intros Ht1 Ht2 H1 R1 H2 R2.
    destruct (fully_reduce_f_ok b1 f1 f1' e e1 Ht1 H1) as [Ht1' [k1 Hk1]].
    destruct (fully_reduce_f_ok b2 f2 f2' e e2 Ht2 H2) as [Ht2' [k2 Hk2]].
    eapply iter_step_g_det; eauto.
    - apply Ht1'. exact R1.
    - apply Ht2'. exact R2.
  Qed.
End PartB.

Theorem flags_step : C09_flags_step.
Proof.
  unfold C09_flags_step. intros T N E_eqb Hspec f f' e e' Ht H.
  eapply take_step_f_ok; eauto.
Qed.

Theorem flags_fully_reduce : C09_flags_fully_reduce.
Proof.
  unfold C09_flags_fully_reduce. intros T N E_eqb Hspec budget f f' e e' Ht H.
  eapply fully_reduce_f_ok; eauto.
Qed.

Theorem flags_history_independent : C09_flags_history_independent.
Proof.
  unfold C09_flags_history_independent.
  intros T N E_eqb Hspec b1 b2 f1 f2 f1' f2' e e1 e2 Ht1 Ht2 H1 R1 H2 R2.
  eapply (flags_history_ok N E_eqb Hspec b1 b2 f1 f2 f1' f2' e e1 e2); eauto.
Qed.

(* ====================================================================================== *)
(** * Non-vacuity: the premises are satisfiable on non-trivial objects *)
(* ====================================================================================== *)

(* Part A: a DAG that uses the object with oid 2 twice; two API calls at different points,
   starting from a cache that holds a stale value for that very object *)
Example history_nonvacuous :
  let sh := SNeg 2%positive (SVar 3%positive) in
  let root := SAdd 1%positive [sh; sh] in
  let c1 := mkCall root [(3%positive, 5%Z)] [root; sh] in
  let c2 := mkCall root [(3%positive, 7%Z)] [sh; root] in
  Forall call_ok [c1; c2] /\
  snd (run_history ZOps [(2%positive, 100%Z)] [c1; c2]) =
    [[Val (-10)%Z; Val (-5)%Z]; [Val (-7)%Z; Val (-14)%Z]] /\
  map (pure_call ZOps) [c1; c2] = [[Val (-10)%Z; Val (-5)%Z]; [Val (-7)%Z; Val (-14)%Z]].
Proof.
  intros sh root c1 c2.
  assert (Hwf : wf_ids root).
  { intros a b i Ha Hb Hoa Hob. simpl in Ha, Hb.
    repeat match goal with H : _ \/ _ |- _ => destruct H end; try contradiction;
      subst; simpl in *; try congruence; reflexivity. }
  split; [|split; reflexivity].
  apply Forall_cons; [|apply Forall_cons; [|apply Forall_nil]];
    (split; [exact Hwf|]); simpl; intros x Hx;
    (destruct Hx as [Hx|[Hx|[]]]; subst x; simpl; auto).
Qed.

(* Part B: a decidable syntactic equality exists (here at Z), the empty table is truthful, and
   a run of [fully_reduce_f] ends on a flagged form *)
Fixpoint exprZ_eq_dec (a b : expr Z) {struct a} : {a = b} + {a <> b}.
Proof.
  decide equality; try apply Z.eq_dec; try apply Pos.eq_dec;
    apply (list_eq_dec exprZ_eq_dec).
Defined.

Definition exprZ_eqb (a b : expr Z) : bool := if exprZ_eq_dec a b then true else false.

Lemma exprZ_eqb_spec (a b : expr Z) : exprZ_eqb a b = true <-> a = b.
Proof. unfold exprZ_eqb. destruct (exprZ_eq_dec a b); split; auto; discriminate. Qed.

Definition no_flags : @flags Z := mkFlags (fun _ => false) (fun _ => false).

Example flags_nonvacuous :
  (forall a b, exprZ_eqb a b = true <-> a = b) /\
  truthful ZOps no_flags /\
  let r := fully_reduce_f ZOps exprZ_eqb 5 no_flags (Add [Var 2%positive; Neg (Const 3%Z)]) in
  snd r = Add [Var 2%positive; Const (-3)%Z] /\ reduced (fst r) (snd r) = true.
Proof.
  split; [exact exprZ_eqb_spec|]. split.
  - split; intros e H; discriminate.
  - vm_compute. auto.
Qed.

Print Assumptions reset_clean.
Print Assumptions eval_s_refines.
Print Assumptions history_independent.
Print Assumptions no_reset_refuted.
Print Assumptions flags_step.
Print Assumptions flags_fully_reduce.
Print Assumptions flags_history_independent.
