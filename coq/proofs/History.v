(** * History: proofs of the statements of SpecStateful.v (C09).

    Part A — the evaluation cache ([reset_clean], [eval_s_refines], [history_independent],
    [no_reset_refuted]).
    Part B — the simplifier's flags ([flags_step], [flags_fully_reduce],
    [flags_history_independent]).

    Everything is generic in the number type: no axioms are used. *)
From Coq Require Import ZArith List Bool Lia.
From SM Require Import Num Syntax Outcome MathFun Eval Rules Driver Stateful SpecStateful.
Import ListNotations.

(* ====================================================================================== *)
(** * Part A: the evaluation cache *)
(* ====================================================================================== *)

Section PartA.
  Context {T : Type} (N : NumOps T).
  Notation SE := (@sexpr T).
  Notation ST := (@store T).

  (** ** Induction through the nested lists *)
  Section Ind.
    Variable P : SE -> Prop.
    Hypothesis HConst : forall c, P (SConst c).
    Hypothesis HVar : forall x, P (SVar x).
    Hypothesis HAdd : forall i l, Forall P l -> P (SAdd i l).
    Hypothesis HMul : forall i l, Forall P l -> P (SMul i l).
    Hypothesis HMinus : forall i a b, P a -> P b -> P (SMinus i a b).
    Hypothesis HDivide : forall i a b, P a -> P b -> P (SDivide i a b).
    Hypothesis HPower : forall i a b, P a -> P b -> P (SPower i a b).
    Hypothesis HNeg : forall i a, P a -> P (SNeg i a).
    Hypothesis HRecip : forall i a, P a -> P (SRecip i a).
    Hypothesis HSin : forall i a, P a -> P (SSin i a).
    Hypothesis HCos : forall i a, P a -> P (SCos i a).
    Hypothesis HNthPow : forall i a n, P a -> P (SNthPow i a n).
    Hypothesis HNthRoot : forall i a n, P a -> P (SNthRoot i a n).
    Hypothesis HExp : forall i a b, P a -> P (SExp i a b).
    Hypothesis HLog : forall i a b, P a -> P (SLog i a b).

    Fixpoint sexpr_ind' (e : SE) : P e :=
      let fix go (l : list SE) : Forall P l :=
        match l return Forall P l with
        | [] => Forall_nil P
        | x :: r => Forall_cons x (sexpr_ind' x) (go r)
        end in
      match e return P e with
      | SConst c => HConst c
      | SVar x => HVar x
      | SAdd i l => HAdd i l (go l)
      | SMul i l => HMul i l (go l)
      | SMinus i a b => HMinus i a b (sexpr_ind' a) (sexpr_ind' b)
      | SDivide i a b => HDivide i a b (sexpr_ind' a) (sexpr_ind' b)
      | SPower i a b => HPower i a b (sexpr_ind' a) (sexpr_ind' b)
      | SNeg i a => HNeg i a (sexpr_ind' a)
      | SRecip i a => HRecip i a (sexpr_ind' a)
      | SSin i a => HSin i a (sexpr_ind' a)
      | SCos i a => HCos i a (sexpr_ind' a)
      | SNthPow i a n => HNthPow i a n (sexpr_ind' a)
      | SNthRoot i a n => HNthRoot i a n (sexpr_ind' a)
      | SExp i a b => HExp i a b (sexpr_ind' a)
      | SLog i a b => HLog i a b (sexpr_ind' a)
      end.
  End Ind.

  (** the uniform version: the property holds of a node when it holds of its children *)
  Lemma sexpr_ind_ch (P : SE -> Prop) :
    (forall e, Forall P (schildren e) -> P e) -> forall e, P e.
  Proof.
    intros H e. induction e using sexpr_ind'; apply H; simpl; auto.
  Qed.

  (** ** Uniform unfolding equations *)

  Lemma snodes_unfold (e : SE) : snodes e = e :: flat_map snodes (schildren e).
  Proof.
    destruct e; simpl; rewrite ?app_nil_r; reflexivity.
  Qed.

  Lemma in_snodes_self (e : SE) : In e (snodes e).
  Proof. rewrite snodes_unfold. left. reflexivity. Qed.

  Lemma in_snodes_child (c x : SE) : In x (schildren c) -> In x (snodes c).
  Proof.
    intro H. rewrite snodes_unfold. right. apply in_flat_map. exists x. split; auto.
    apply in_snodes_self.
  Qed.

  Lemma in_snodes_trans (a b c : SE) : In a (snodes b) -> In b (snodes c) -> In a (snodes c).
  Proof.
    revert a b. induction c as [c IH] using sexpr_ind_ch. intros a b Hab Hbc.
    rewrite snodes_unfold in Hbc. destruct Hbc as [Hbc | Hbc].
    - subst b. exact Hab.
    - apply in_flat_map in Hbc. destruct Hbc as [x [Hx Hbx]].
      rewrite snodes_unfold. right. apply in_flat_map. exists x. split; auto.
      rewrite Forall_forall in IH. eapply IH; eauto.
  Qed.

  Lemma in_snodes_child_of (root c x : SE) :
    In c (snodes root) -> In x (schildren c) -> In x (snodes root).
  Proof.
    intros Hc Hx. eapply in_snodes_trans; [apply in_snodes_child; exact Hx | exact Hc].
  Qed.

  (* _reset_evaluation_cache, uniformly *)
  Lemma reset_s_unfold (s : ST) (e : SE) :
    reset_s s e =
    fold_left reset_s (schildren e) (match oid_of e with Some i => sclear s i | None => s end).
  Proof.
    assert (HL : forall l s0,
      (fix reset_list (s : ST) (l : list SE) {struct l} : ST :=
         match l with [] => s | x :: r => reset_list (reset_s s x) r end) s0 l
      = fold_left reset_s l s0).
    { induction l as [|x r IH]; intros s0; simpl; auto. }
    destruct e; simpl; try reflexivity; apply HL.
  Qed.

  (* pure evaluation of a non-leaf node, uniformly *)
  Lemma eval_erase_unfold (p : point T) (e : SE) (i : oid) :
    oid_of e = Some i ->
    eval N p (erase e) =
    bind (sequence (map (fun x => eval N p (erase x)) (schildren e))) (node_value N e).
  Proof.
    intro Hi. destruct e; simpl in Hi; try discriminate; simpl.
    - rewrite map_map. reflexivity.
    - rewrite map_map. reflexivity.
    - destruct (eval N p (erase e1)); simpl; try reflexivity;
        destruct (eval N p (erase e2)); reflexivity.
    - destruct (eval N p (erase e1)); simpl; try reflexivity;
        destruct (eval N p (erase e2)); reflexivity.
    - destruct (eval N p (erase e1)); simpl; try reflexivity;
        destruct (eval N p (erase e2)); reflexivity.
    - destruct (eval N p (erase e)); reflexivity.
    - destruct (eval N p (erase e)); reflexivity.
    - destruct (eval N p (erase e)); reflexivity.
    - destruct (eval N p (erase e)); reflexivity.
    - destruct (eval N p (erase e)); reflexivity.
    - destruct (eval N p (erase e)); reflexivity.
    - destruct (eval N p (erase e)); reflexivity.
    - destruct (eval N p (erase e)); reflexivity.
  Qed.

  (* the inner loop of [eval_s], standalone *)
  Fixpoint eval_list_s (s : ST) (p : point T) (l : list SE) : ST * outcome (list T) :=
    match l with
    | [] => (s, Val [])
    | x :: r =>
        match eval_s N s p x with
        | (s1, Val v) =>
            match eval_list_s s1 p r with
            | (s2, Val vs) => (s2, Val (v :: vs))
            | (s2, DomErr) => (s2, DomErr)
            | (s2, CoordMissing) => (s2, CoordMissing)
            | (s2, PyErr k) => (s2, PyErr k)
            end
        | (s1, DomErr) => (s1, DomErr)
        | (s1, CoordMissing) => (s1, CoordMissing)
        | (s1, PyErr k) => (s1, PyErr k)
        end
    end.

  Definition eval_node_s (s : ST) (p : point T) (e : SE) (i : oid) : ST * outcome T :=
    match sget s i with
    | Some v => (s, Val v)
    | None =>
        match eval_list_s s p (schildren e) with
        | (s1, Val vs) =>
            match node_value N e vs with
            | Val v => (sset s1 i v, Val v)
            | err => (s1, err)
            end
        | (s1, DomErr) => (s1, DomErr)
        | (s1, CoordMissing) => (s1, CoordMissing)
        | (s1, PyErr k) => (s1, PyErr k)
        end
    end.

  Lemma eval_s_unfold (s : ST) (p : point T) (e : SE) :
    eval_s N s p e =
    match oid_of e with
    | None => (s, eval N p (erase e))
    | Some i => eval_node_s s p e i
    end.
  Proof.
    assert (HL : forall l s0,
      (fix eval_list (s : ST) (l : list SE) {struct l} : ST * outcome (list T) :=
         match l with
         | [] => (s, Val [])
         | x :: r =>
             match eval_s N s p x with
             | (s1, Val v) =>
                 match eval_list s1 r with
                 | (s2, Val vs) => (s2, Val (v :: vs))
                 | (s2, DomErr) => (s2, DomErr)
                 | (s2, CoordMissing) => (s2, CoordMissing)
                 | (s2, PyErr k) => (s2, PyErr k)
                 end
             | (s1, DomErr) => (s1, DomErr)
             | (s1, CoordMissing) => (s1, CoordMissing)
             | (s1, PyErr k) => (s1, PyErr k)
             end
         end) s0 l = eval_list_s s0 p l).
    { induction l as [|x r IH]; intros s0; simpl; auto.
      destruct (eval_s N s0 p x) as [s1 [v| | |k]]; auto. rewrite IH. reflexivity. }
    destruct e; simpl; try reflexivity; unfold eval_node_s; simpl;
      try rewrite HL; reflexivity.
  Qed.

  (** ** The store *)

  Lemma sget_sclear (s : ST) (i j : oid) :
    sget (sclear s j) i = if Pos.eqb i j then None else sget s i.
  Proof.
    induction s as [|[k v] r IH]; simpl.
    - destruct (Pos.eqb i j); reflexivity.
    - destruct (Pos.eqb j k) eqn:Ejk.
      + rewrite IH. apply Pos.eqb_eq in Ejk. subst k.
        destruct (Pos.eqb i j); reflexivity.
      + simpl. destruct (Pos.eqb i k) eqn:Eik.
        * apply Pos.eqb_eq in Eik. subst k. rewrite Pos.eqb_sym, Ejk. reflexivity.
        * exact IH.
  Qed.

  Lemma sget_sset (s : ST) (i j : oid) (v : T) :
    sget (sset s i v) j = if Pos.eqb j i then Some v else sget s j.
  Proof. reflexivity. Qed.

  (** ** reset_clean *)

  (* the reset only ever clears *)
  Lemma fold_reset_none (l : list SE) :
    Forall (fun e => forall (s : ST) i, sget s i = None -> sget (reset_s s e) i = None) l ->
    forall (s : ST) i, sget s i = None -> sget (fold_left reset_s l s) i = None.
  Proof.
    induction 1 as [|x r Hx Hr IH]; intros s i Hs; simpl; auto.
  Qed.

  Lemma reset_none (e : SE) :
    forall (s : ST) i, sget s i = None -> sget (reset_s s e) i = None.
  Proof.
    induction e as [e IH] using sexpr_ind_ch. intros s i Hs.
    rewrite reset_s_unfold. apply fold_reset_none; auto.
    destruct (oid_of e) as [j|]; auto.
    rewrite sget_sclear, Hs. destruct (Pos.eqb i j); reflexivity.
  Qed.

  Lemma fold_reset_none' (l : list SE) (s : ST) i :
    sget s i = None -> sget (fold_left reset_s l s) i = None.
  Proof.
    apply fold_reset_none. apply Forall_forall. intros x _. apply reset_none.
  Qed.

  Lemma reset_clean_gen (root : SE) :
    forall (n : SE) (i : oid) (s : ST),
      In n (snodes root) -> oid_of n = Some i -> sget (reset_s s root) i = None.
  Proof.
    induction root as [root IH] using sexpr_ind_ch. intros n i s Hn Hi.
    rewrite reset_s_unfold. rewrite snodes_unfold in Hn. destruct Hn as [Hn | Hn].
    - subst n. rewrite Hi. apply fold_reset_none'. rewrite sget_sclear, Pos.eqb_refl. reflexivity.
    - apply in_flat_map in Hn. destruct Hn as [x [Hx Hnx]].
      generalize (match oid_of root with Some i0 => sclear s i0 | None => s end).
      induction IH as [|y r Hy Hr IHr]; intros s0; simpl.
      + destruct Hx.
      + destruct Hx as [Hx | Hx].
        * subst y. apply fold_reset_none'. eapply Hy; eauto.
        * apply IHr; auto.
  Qed.

  (** ** eval_s_refines *)

  Section Refines.
    Variables (root : SE) (p : point T).
    Hypothesis Hwf : wf_ids root.

    Let good (c : SE) : Prop :=
      forall s : ST, In c (snodes root) -> consistent N s p root ->
        snd (eval_s N s p c) = eval N p (erase c) /\ consistent N (fst (eval_s N s p c)) p root.

    Lemma eval_list_ok (l : list SE) :
      Forall good l ->
      forall s : ST, (forall x, In x l -> In x (snodes root)) -> consistent N s p root ->
        snd (eval_list_s s p l) = sequence (map (fun x => eval N p (erase x)) l) /\
        consistent N (fst (eval_list_s s p l)) p root.
    Proof.
      induction 1 as [|x r Hx Hr IH]; intros s Hin Hc; simpl.
      - split; auto.
      - destruct (Hx s) as [H1 H2]; [apply Hin; left; reflexivity | exact Hc |].
        destruct (eval_s N s p x) as [s1 o]. simpl in H1, H2. rewrite <- H1.
        destruct o as [v| | |k]; simpl; auto.
        destruct (IH s1) as [I1 I2]; [intros y Hy; apply Hin; right; exact Hy | exact H2 |].
        destruct (eval_list_s s1 p r) as [s2 o2]. simpl in I1, I2. rewrite <- I1.
        destruct o2 as [vs| | |k]; simpl; auto.
    Qed.

    Lemma eval_node_ok (c : SE) (i : oid) :
      oid_of c = Some i -> Forall good (schildren c) ->
      forall s : ST, In c (snodes root) -> consistent N s p root ->
        snd (eval_node_s s p c i) = eval N p (erase c) /\
        consistent N (fst (eval_node_s s p c i)) p root.
    Proof.
      intros Hi Hch s Hc Hs. unfold eval_node_s.
      destruct (sget s i) as [v|] eqn:G; simpl.
      - split; auto. symmetry. eapply Hs; eauto.
      - destruct (eval_list_ok (schildren c) Hch s) as [H1 H2]; auto.
        { intros x Hx. eapply in_snodes_child_of; eauto. }
        rewrite (eval_erase_unfold p c i Hi).
        destruct (eval_list_s s p (schildren c)) as [s1 o]. simpl in H1, H2. rewrite <- H1.
        destruct o as [vs| | |k]; simpl; auto.
        destruct (node_value N c vs) as [v| | |k] eqn:NV; simpl; auto.
        split; auto.
        intros n j w Hn Hj Hg. rewrite sget_sset in Hg.
        destruct (Pos.eqb j i) eqn:Eji.
        + apply Pos.eqb_eq in Eji. subst j. injection Hg as Hg. subst w.
          assert (n = c) by (eapply Hwf; eauto). subst n.
          rewrite (eval_erase_unfold p c i Hi), <- H1. simpl. exact NV.
        + eapply H2; eauto.
    Qed.

    Lemma eval_s_ok (c : SE) : good c.
    Proof.
      induction c as [c IH] using sexpr_ind_ch. intros s Hc Hs.
      rewrite eval_s_unfold. destruct (oid_of c) as [i|] eqn:Hi.
      - apply eval_node_ok; auto.
      - simpl. split; auto.
    Qed.
  End Refines.
End PartA.

Theorem reset_clean : C09_reset_clean.
Proof.
  unfold C09_reset_clean. intros T root n i s Hn Hi. eapply reset_clean_gen; eauto.
Qed.

Theorem eval_s_refines : C09_eval_s_refines.
Proof.
  unfold C09_eval_s_refines. intros T N root c p s Hwf Hc Hs.
  apply (eval_s_ok N root p Hwf c s Hc Hs).
Qed.

(** ** history_independent *)
Section HistoryA.
  Context {T : Type} (N : NumOps T).

  Lemma reset_consistent (s : @store T) (p : point T) (root : @sexpr T) :
    consistent N (reset_s s root) p root.
  Proof.
    intros n i v Hn Hi Hg. rewrite (reset_clean T root n i s Hn Hi) in Hg. discriminate.
  Qed.

  Lemma run_calls_ok (root : @sexpr T) (p : point T) :
    wf_ids root ->
    forall (calls : list (@sexpr T)) (s : @store T),
      (forall x, In x calls -> In x (snodes root)) -> consistent N s p root ->
      snd (run_calls N s p calls) = map (fun x => eval N p (erase x)) calls.
  Proof.
    intros Hwf. induction calls as [|c r IH]; intros s Hin Hs; simpl; auto.
    destruct (eval_s_refines T N root c p s Hwf) as [H1 H2]; auto.
    { apply Hin. left. reflexivity. }
    destruct (eval_s N s p c) as [s1 o]. simpl in H1, H2.
    specialize (IH s1). destruct (run_calls N s1 p r) as [s2 os]. simpl in *.
    rewrite H1, IH; auto.
  Qed.

  Lemma run_call_ok (s : @store T) (c : @call T) :
    call_ok c -> snd (run_call N s c) = pure_call N c.
  Proof.
    intros [Hwf Hin]. unfold run_call, pure_call.
    apply run_calls_ok with (root := c_root c); auto. apply reset_consistent.
  Qed.
End HistoryA.

Theorem history_independent : C09_history_independent.
Proof.
  unfold C09_history_independent. intros T N h. induction h as [|c r IH]; intros s0 Hok; simpl; auto.
  inversion Hok as [|c' r' Hc Hr]; subst.
  pose proof (run_call_ok N s0 c Hc) as H1.
  destruct (run_call N s0 c) as [s1 o]. simpl in H1.
  specialize (IH s1 Hr). destruct (run_history N s1 r) as [s2 os]. simpl in *.
  rewrite H1, IH. reflexivity.
Qed.

(** ** no_reset_refuted *)

Definition ZOps : NumOps Z :=
  mkNumOps Z (fun z => z) (fun x => x) 3%Z (fun l => fold_right Z.add 0%Z l)
    Z.add Z.sub Z.mul Z.div Z.opp (fun x _ => x) (fun x _ => x) (fun x => x) (fun x => x)
    (fun x => x) (fun x => x) (fun x => x) Z.eqb Z.ltb (fun x => Some x) (fun _ => true).

Theorem no_reset_refuted : C09_no_reset_refuted.
Proof.
  unfold C09_no_reset_refuted.
  exists (SNeg 1%positive (SVar 2%positive)), [(2%positive, 5%Z)], [(2%positive, 7%Z)], ZOps.
  vm_compute. discriminate.
Qed.

Print Assumptions reset_clean.
Print Assumptions eval_s_refines.
Print Assumptions history_independent.
Print Assumptions no_reset_refuted.
