(** * SynthSound: the symbolic differentiation routes (Synth.v) are sound (C05).

    - [synth_fwd_sound : C05_synth_fwd_sound]   forward symbolic route
    - [synth_rev_sound : C05_synth_rev_sound]   reverse symbolic route (accumulator)

    Structure: every node kind is described once by its "local factors": the symbolic formula
    applied to a multiplier expression [m] denotes [denote rho m * k] (and is well formed, in
    its domain, without new variables), and the true partial of the node is the combination of
    the partials of the children with the same factors [k].  Both routes are then instances. *)
From Coq Require Import Reals ZArith List Bool Lia Lra.
From Coquelicot Require Import Rcomplements Hierarchy Derive.
From SM Require Import Num Syntax Outcome MathFun Eval Forward Synth RInst Denote Spec.
From SM.proofs Require Import DerivLemmas.
Import ListNotations.
Open Scope R_scope.

Notation suf := (synth_unary_formula RInst).
Notation sfwd := (synth_fwd RInst).
Notation srev := (synth_rev RInst).

(** ** Small real facts *)

Lemma SY_exp1_pos : 0 < exp 1.
Proof. apply exp_pos. Qed.

Lemma SY_exp1_neq1 : exp 1 <> 1.
Proof. pose proof (exp_ineq1 1). lra. Qed.

Lemma SY_ln_e : ln (exp 1) = 1.
Proof. apply ln_exp. Qed.

Lemma SY_wf_e_lt : Rltb 0 (exp 1) = true.
Proof. apply Rltb_true, SY_exp1_pos. Qed.

Lemma SY_wf_e_neq : Reqb (exp 1) 1 = false.
Proof. apply Reqb_false, SY_exp1_neq1. Qed.

Lemma SY_root_neq_0 (n : positive) (x : R) : x <> 0 -> root n x <> 0.
Proof.
  intro Hx. unfold root.
  destruct (Rlt_dec 0 x) as [H|H].
  - unfold Rpower. pose proof (exp_pos (/ IZR (Z.pos n) * ln x)). lra.
  - destruct (Rlt_dec x 0) as [H'|H'].
    + unfold Rpower. pose proof (exp_pos (/ IZR (Z.pos n) * ln (- x))). lra.
    + lra.
Qed.

Lemma SY_IZR_pos_neq_0 (n : positive) : IZR (Zpos n) <> 0.
Proof. apply IZR_neq; discriminate. Qed.

Lemma SY_to_nat_pred (n : positive) : n <> 1%positive ->
  Pos.to_nat (Pos.pred n) = (Pos.to_nat n - 1)%nat.
Proof. intro H. rewrite Pos2Nat.inj_pred by lia. lia. Qed.

(** ** What a symbolic local formula must satisfy *)

(** [f m] is well formed / in its domain whenever [m] is, mentions only variables of [m] and
    of [W], and denotes [denote rho m * k] *)
Definition mult_ok (rho : env) (W : list name) (f : expr R -> expr R) (k : R) : Prop :=
  forall m, wfR m -> InDomain rho m ->
    wfR (f m) /\ incl (vars (f m)) (vars m ++ W) /\ InDomain rho (f m) /\
    denote rho (f m) = denote rho m * k.

Definition unary_spec (rho : env) (e a : expr R) : Prop :=
  wfR a /\ InDomain rho a /\ vars e = vars a /\
  exists k, mult_ok rho (vars a) (suf e) k /\
    forall v da, true_partial rho a v da -> true_partial rho e v (da * k).

Definition binary_spec (rho : env) (e a b : expr R) (fl fr : expr R -> expr R) : Prop :=
  wfR a /\ wfR b /\ InDomain rho a /\ InDomain rho b /\ vars e = vars a ++ vars b /\
  exists ka kb, mult_ok rho (vars e) fl ka /\ mult_ok rho (vars e) fr kb /\
    forall v da db, true_partial rho a v da -> true_partial rho b v db ->
      true_partial rho e v (da * ka + db * kb).

Ltac sy_incl :=
  let x := fresh "x" in let Hx := fresh "Hx" in
  intros x Hx; cbn [vars flat_map app] in Hx |- *;
  repeat rewrite in_app_iff in *; cbn [In] in *; tauto.

Ltac sy_split4 := split; [|split; [|split]].

(** ** The unary nodes *)

Lemma SY_neg rho a : wfR (Neg a) -> InDomain rho (Neg a) -> unary_spec rho (Neg a) a.
Proof.
  cbn [wf InDomain]; intros Hwf Hdom. repeat split; try assumption.
  exists (-1). split.
  - intros m Hm Hdm. cbn [synth_unary_formula wf InDomain denote].
    repeat split; try assumption; [sy_incl | ring].
  - intros v da Ha. eapply tp_ext_value; [apply tp_neg; exact Ha | ring].
Qed.

Lemma SY_recip rho a : wfR (Recip a) -> InDomain rho (Recip a) -> unary_spec rho (Recip a) a.
Proof.
  cbn [wf InDomain]; intros Hwf [Hdom H0]. repeat split; try assumption.
  exists (- / (denote rho a ^ 2)). split.
  - intros m Hm Hdm. cbn [synth_unary_formula wf InDomain denote].
    change (Pos.to_nat 2) with 2%nat.
    repeat split; try assumption; [sy_incl | apply pow_nonzero; exact H0 | ].
    field. exact H0.
  - intros v da Ha. eapply tp_ext_value; [apply tp_recip; [exact Ha | exact H0] | ].
    field. exact H0.
Qed.

Lemma SY_sin rho a : wfR (Sin a) -> InDomain rho (Sin a) -> unary_spec rho (Sin a) a.
Proof.
  cbn [wf InDomain]; intros Hwf Hdom. repeat split; try assumption.
  exists (cos (denote rho a)). split.
  - intros m Hm Hdm. cbn [synth_unary_formula wf InDomain denote fold_right].
    repeat split; try assumption; [sy_incl | ring].
  - intros v da Ha. eapply tp_ext_value; [apply tp_sin; exact Ha | ring].
Qed.

Lemma SY_cos rho a : wfR (Cos a) -> InDomain rho (Cos a) -> unary_spec rho (Cos a) a.
Proof.
  cbn [wf InDomain]; intros Hwf Hdom. repeat split; try assumption.
  exists (- sin (denote rho a)). split.
  - intros m Hm Hdm. cbn [synth_unary_formula wf InDomain denote fold_right].
    repeat split; try assumption; [sy_incl | ring].
  - intros v da Ha. eapply tp_ext_value; [apply tp_cos; exact Ha | ring].
Qed.

Lemma SY_suf_nth_pow a n m : n <> 1%positive ->
  suf (NthPow a n) m = Mul [Const (IZR (Zpos n)); NthPow a (Pos.pred n); m].
Proof. intro H. destruct n; try reflexivity. congruence. Qed.

Lemma SY_nth_pow rho a n :
  wfR (NthPow a n) -> InDomain rho (NthPow a n) -> unary_spec rho (NthPow a n) a.
Proof.
  cbn [wf InDomain]; intros Hwf Hdom. repeat split; try assumption.
  destruct (Pos.eq_dec n 1) as [->|Hn].
  - exists 1. split.
    + intros m Hm Hdm. cbn [synth_unary_formula].
      repeat split; try assumption; [sy_incl | ring].
    + intros v da Ha. eapply tp_ext_value; [apply tp_nth_pow_1; exact Ha | ring].
  - exists (IZR (Zpos n) * denote rho a ^ (Pos.to_nat n - 1)). split.
    + intros m Hm Hdm. rewrite SY_suf_nth_pow by exact Hn.
      cbn [wf InDomain denote fold_right]. rewrite SY_to_nat_pred by exact Hn.
      repeat split; try assumption; [sy_incl | ring].
    + intros v da Ha. eapply tp_ext_value; [apply tp_nth_pow; exact Ha | ring].
Qed.

Lemma SY_suf_nth_root a n m : n <> 1%positive ->
  suf (NthRoot a n) m =
  Divide m (Mul [Const (IZR (Zpos n)); NthPow (NthRoot a n) (Pos.pred n)]).
Proof. intro H. destruct n; try reflexivity. congruence. Qed.

Lemma SY_nth_root rho a n :
  wfR (NthRoot a n) -> InDomain rho (NthRoot a n) -> unary_spec rho (NthRoot a n) a.
Proof.
  cbn [wf InDomain]; intros Hwf [Hdom Hn']. repeat split; try assumption.
  destruct (Pos.eq_dec n 1) as [->|Hn].
  - exists 1. split.
    + intros m Hm Hdm. cbn [synth_unary_formula].
      repeat split; try assumption; [sy_incl | ring].
    + intros v da Ha. eapply tp_ext_value; [apply tp_nth_root_1; exact Ha | ring].
  - destruct Hn' as [Hn'|[H0 Hev]]; [contradiction|].
    pose proof (SY_root_neq_0 n _ H0) as Hr.
    pose proof (SY_IZR_pos_neq_0 n) as Hz.
    assert (Hp : root n (denote rho a) ^ (Pos.to_nat n - 1) <> 0) by (apply pow_nonzero; exact Hr).
    exists (/ (IZR (Zpos n) * root n (denote rho a) ^ (Pos.to_nat n - 1))). split.
    + intros m Hm Hdm. rewrite SY_suf_nth_root by exact Hn.
      cbn [wf InDomain denote fold_right]. rewrite SY_to_nat_pred by exact Hn.
      repeat split; try assumption; try sy_incl.
      * right. split; assumption.
      * rewrite Rmult_1_r. apply Rmult_integral_contrapositive_currified; assumption.
      * field. split; assumption.
    + intros v da Ha. eapply tp_ext_value.
      * apply tp_nth_root; [exact Ha | right; split; assumption].
      * field. split; assumption.
Qed.

Lemma SY_suf_exp a b m :
  suf (Exp a b) m =
  if Reqb b 1 then Const 0
  else if Reqb b (exp 1) then Mul [Exp a b; m]
  else Mul [Log (Const b) (exp 1); Exp a b; m].
Proof. reflexivity. Qed.

Lemma SY_suf_log a b m :
  suf (Log a b) m =
  if Reqb b (exp 1) then Divide m a else Divide m (Mul [Log (Const b) (exp 1); a]).
Proof. reflexivity. Qed.

Lemma SY_exp rho a b : wfR (Exp a b) -> InDomain rho (Exp a b) -> unary_spec rho (Exp a b) a.
Proof.
  cbn [wf InDomain]; intros [Hb Hwf] Hdom. repeat split; try assumption.
  change (Rltb 0 b = true) in Hb. pose proof Hb as Hb'. apply Rltb_true in Hb'.
  destruct (Reqb b 1) eqn:E1b; pose proof E1b as E1;
    [apply Reqb_true in E1 | apply Reqb_false in E1].
  - exists 0. split.
    + intros m Hm Hdm. rewrite SY_suf_exp, E1b. cbn [wf InDomain denote vars].
      repeat split; try assumption; [sy_incl | ring].
    + intros v da Ha. eapply tp_ext_value; [apply tp_exp; [exact Hb' | exact Ha] | ].
      subst b. rewrite ln_1. ring.
  - destruct (Reqb b (exp 1)) eqn:E2b; pose proof E2b as E2;
      [apply Reqb_true in E2 | apply Reqb_false in E2].
    + exists (Rpower b (denote rho a)). split.
      * intros m Hm Hdm. rewrite SY_suf_exp, E1b, E2b. cbn [wf InDomain denote fold_right].
        repeat split; try assumption; [sy_incl | ring].
      * intros v da Ha. eapply tp_ext_value; [apply tp_exp; [exact Hb' | exact Ha] | ].
        rewrite E2, SY_ln_e. ring.
    + exists (ln b * Rpower b (denote rho a)). split.
      * intros m Hm Hdm. rewrite SY_suf_exp, E1b, E2b. cbn [wf InDomain denote fold_right].
        repeat split; try assumption;
          [apply SY_wf_e_lt | apply SY_wf_e_neq | sy_incl | ].
        rewrite SY_ln_e. field.
      * intros v da Ha. eapply tp_ext_value; [apply tp_exp; [exact Hb' | exact Ha] | ].
        ring.
Qed.

Lemma SY_log rho a b : wfR (Log a b) -> InDomain rho (Log a b) -> unary_spec rho (Log a b) a.
Proof.
  cbn [wf InDomain]; intros (Hb & Hb1 & Hwf) [Hdom Hpos]. repeat split; try assumption.
  change (Rltb 0 b = true) in Hb. pose proof Hb as Hb'. apply Rltb_true in Hb'.
  change (Reqb b 1 = false) in Hb1. pose proof Hb1 as Hb1'. apply Reqb_false in Hb1'.
  pose proof (ln_neq_0 b Hb' Hb1') as Hln.
  assert (Hva : denote rho a <> 0) by lra.
  destruct (Reqb b (exp 1)) eqn:E2b; pose proof E2b as E2;
    [apply Reqb_true in E2 | apply Reqb_false in E2].
  - exists (/ denote rho a). split.
    + intros m Hm Hdm. rewrite SY_suf_log, E2b. cbn [wf InDomain denote fold_right].
      repeat split; try assumption; try sy_incl; try (field; exact Hva).
    + intros v da Ha. eapply tp_ext_value; [apply tp_log; [exact Hb' | exact Hb1' | exact Hpos | exact Ha] | ].
      rewrite E2, SY_ln_e. field. exact Hva.
  - exists (/ (ln b * denote rho a)). split.
    + intros m Hm Hdm. rewrite SY_suf_log, E2b. cbn [wf InDomain denote fold_right].
      rewrite SY_ln_e.
      repeat split; try assumption;
        [apply SY_wf_e_lt | apply SY_wf_e_neq | sy_incl | | field; split; assumption ].
      unfold Rdiv. rewrite Rinv_1, !Rmult_1_r.
      apply Rmult_integral_contrapositive_currified; assumption.
    + intros v da Ha. eapply tp_ext_value; [apply tp_log; [exact Hb' | exact Hb1' | exact Hpos | exact Ha] | ].
      field. split; assumption.
Qed.

(** ** The binary nodes with two local formulas *)

Lemma SY_divide rho a b : wfR (Divide a b) -> InDomain rho (Divide a b) ->
  binary_spec rho (Divide a b) a b (synth_divide_left a b) (synth_divide_right a b).
Proof.
  cbn [wf InDomain]; intros [Hwa Hwb] (Hda & Hdb & H0). repeat split; try assumption.
  exists (/ denote rho b), (- (denote rho a / denote rho b ^ 2)). split; [|split].
  - intros m Hm Hdm. unfold synth_divide_left. cbn [wf InDomain denote vars].
    repeat split; try assumption; try sy_incl.
  - intros m Hm Hdm. unfold synth_divide_right. cbn [wf InDomain denote fold_right].
    change (Pos.to_nat 2) with 2%nat.
    repeat split; try assumption; try sy_incl; try (apply pow_nonzero; exact H0).
    ring.
  - intros v da db Ha Hb. eapply tp_ext_value; [apply tp_divide; [exact Ha | exact Hb | exact H0] | ].
    unfold Rdiv. ring.
Qed.

Lemma SY_power rho a b : wfR (Power a b) -> InDomain rho (Power a b) ->
  binary_spec rho (Power a b) a b (synth_power_left RInst a b) (synth_power_right RInst a b).
Proof.
  cbn [wf InDomain]; intros [Hwa Hwb] (Hda & Hdb & H0). repeat split; try assumption.
  exists (denote rho b * Rpower (denote rho a) (denote rho b - 1)),
         (ln (denote rho a) * Rpower (denote rho a) (denote rho b)). split; [|split].
  - intros m Hm Hdm. unfold synth_power_left. cbn [wf InDomain denote fold_right].
    change (n1 RInst) with 1.
    repeat split; try assumption; try sy_incl.
    ring.
  - intros m Hm Hdm. unfold synth_power_right. cbn [wf InDomain denote fold_right].
    change (n_e RInst) with (exp 1). change (n0 RInst) with 0. change (n1 RInst) with 1.
    change (nltb RInst) with Rltb. change (neqb RInst) with Reqb.
    rewrite SY_ln_e.
    repeat split; try assumption; try sy_incl; try apply SY_wf_e_lt; try apply SY_wf_e_neq.
    field.
  - intros v da db Ha Hb. eapply tp_ext_value; [apply tp_power; [exact H0 | exact Ha | exact Hb] | ].
    ring.
Qed.

(** ** List helpers *)

Lemma SY_fold_and {A} (P : A -> Prop) (l : list A) :
  fold_right (fun x acc => P x /\ acc) True l <-> Forall P l.
Proof.
  induction l as [|a l IH]; cbn [fold_right].
  - split; intros; [constructor | exact I].
  - rewrite IH. split; [intros [Ha Hl]; constructor; assumption | intro H; inversion H; auto].
Qed.

Lemma SY_wf_Add l : wfR (Add l) <-> Forall wfR l.
Proof. exact (SY_fold_and wfR l). Qed.
Lemma SY_wf_Mul l : wfR (Mul l) <-> Forall wfR l.
Proof. exact (SY_fold_and wfR l). Qed.
Lemma SY_dom_Add rho l : InDomain rho (Add l) <-> Forall (InDomain rho) l.
Proof. exact (SY_fold_and (InDomain rho) l). Qed.
Lemma SY_dom_Mul rho l : InDomain rho (Mul l) <-> Forall (InDomain rho) l.
Proof. exact (SY_fold_and (InDomain rho) l). Qed.

Lemma SY_incl_flat_map (l : list (expr R)) (V : list name) :
  incl (flat_map vars l) V <-> Forall (fun x => incl (vars x) V) l.
Proof.
  induction l as [|a l IH]; cbn [flat_map].
  - split; intros; [constructor | intros x []].
  - split.
    + intro H. constructor.
      * intros x Hx. apply H, in_or_app. left; exact Hx.
      * apply IH. intros x Hx. apply H, in_or_app. right; exact Hx.
    + intro H. inversion H as [|? ? Ha Hl]; subst. apply incl_app; [exact Ha | apply IH; exact Hl].
Qed.

Lemma SY_Forall_mp3 {A} (P Q S : A -> Prop) (l : list A) :
  Forall (fun x => P x -> Q x -> S x) l -> Forall P l -> Forall Q l -> Forall S l.
Proof.
  induction 1 as [|a l Ha Hl IH]; intros HP HQ; constructor;
    inversion HP; inversion HQ; subst; auto.
Qed.

Lemma SY_Forall_remove_nth {A} (P : A -> Prop) (l : list A) (i : nat) :
  Forall P l -> Forall P (remove_nth i l).
Proof.
  intro H. revert i. induction H as [|a l Ha Hl IH]; intro i.
  - destruct i; constructor.
  - destruct i as [|j]; cbn [remove_nth]; [exact Hl | constructor; [exact Ha | apply IH]].
Qed.

Lemma SY_map_remove_nth {A B} (f : A -> B) (l : list A) (i : nat) :
  map f (remove_nth i l) = remove_nth i (map f l).
Proof.
  revert i. induction l as [|a l IH]; intro i; [destruct i; reflexivity|].
  destruct i as [|j]; cbn [remove_nth map]; [reflexivity | rewrite IH; reflexivity].
Qed.

(** ** Forward route *)

Definition fwd_ok (rho : env) (v : name) (e : expr R) : Prop :=
  wfR (sfwd v e) /\ incl (vars (sfwd v e)) (vars e) /\ InDomain rho (sfwd v e) /\
  true_partial rho e v (denote rho (sfwd v e)).

Lemma SY_fwd_unary rho v e a :
  unary_spec rho e a -> sfwd v e = suf e (sfwd v a) ->
  (wfR a -> InDomain rho a -> fwd_ok rho v a) -> fwd_ok rho v e.
Proof.
  intros (Hwa & Hda & Hv & k & Hm & Htp) E IH.
  destruct (IH Hwa Hda) as (H1 & H2 & H3 & H4).
  destruct (Hm _ H1 H3) as (M1 & M2 & M3 & M4).
  unfold fwd_ok. rewrite E, Hv. sy_split4; try assumption.
  - intros x Hx. apply M2 in Hx. apply in_app_or in Hx. destruct Hx as [Hx|Hx]; auto.
  - rewrite M4. apply Htp. exact H4.
Qed.

Lemma SY_fwd_binary rho v e a b fl fr :
  binary_spec rho e a b fl fr -> sfwd v e = Add [fl (sfwd v a); fr (sfwd v b)] ->
  (wfR a -> InDomain rho a -> fwd_ok rho v a) ->
  (wfR b -> InDomain rho b -> fwd_ok rho v b) -> fwd_ok rho v e.
Proof.
  intros (Hwa & Hwb & Hda & Hdb & Hv & ka & kb & Hl & Hr & Htp) E IHa IHb.
  destruct (IHa Hwa Hda) as (A1 & A2 & A3 & A4).
  destruct (IHb Hwb Hdb) as (B1 & B2 & B3 & B4).
  destruct (Hl _ A1 A3) as (L1 & L2 & L3 & L4).
  destruct (Hr _ B1 B3) as (R1 & R2 & R3 & R4).
  unfold fwd_ok. rewrite E. cbn [wf InDomain denote fold_right vars flat_map].
  sy_split4; try (repeat split; assumption).
  - rewrite app_nil_r. apply incl_app.
    + intros x Hx. apply L2 in Hx. apply in_app_or in Hx. destruct Hx as [Hx|Hx]; [|exact Hx].
      rewrite Hv. apply in_or_app. left. apply A2, Hx.
    + intros x Hx. apply R2 in Hx. apply in_app_or in Hx. destruct Hx as [Hx|Hx]; [|exact Hx].
      rewrite Hv. apply in_or_app. right. apply B2, Hx.
  - rewrite L4, R4. eapply tp_ext_value; [apply Htp; [exact A4 | exact B4] | ring].
Qed.

Lemma SY_tp_add_cons rho v a l da dl :
  true_partial rho a v da -> true_partial rho (Add l) v dl ->
  true_partial rho (Add (a :: l)) v (da + dl).
Proof.
  unfold true_partial; cbn [denote fold_right]; intros Ha Hl.
  apply (Rd_plus (fun t => denote (upd rho v t) a)); assumption.
Qed.

Lemma SY_fwd_add rho v l : Forall (fwd_ok rho v) l -> fwd_ok rho v (Add l).
Proof.
  induction 1 as [|a l Ha Hl IH].
  - unfold fwd_ok. cbn [synth_fwd map wf vars flat_map InDomain denote fold_right].
    sy_split4; try exact I; [intros x [] | apply (tp_add rho v [] []); constructor].
  - destruct Ha as (A1 & A2 & A3 & A4). destruct IH as (B1 & B2 & B3 & B4).
    unfold fwd_ok. cbn [synth_fwd map wf InDomain vars flat_map denote fold_right] in *.
    sy_split4.
    + split; assumption.
    + apply incl_app_app; assumption.
    + split; assumption.
    + apply SY_tp_add_cons; assumption.
Qed.

(** the expression [Mul (m :: remove_nth i l)] built by both routes for a product *)
Lemma SY_mul_cons_ok rho V l m i :
  Forall wfR l -> Forall (InDomain rho) l -> Forall (fun x => incl (vars x) V) l ->
  wfR m -> InDomain rho m -> incl (vars m) V ->
  wfR (Mul (m :: remove_nth i l)) /\ InDomain rho (Mul (m :: remove_nth i l)) /\
  incl (vars (Mul (m :: remove_nth i l))) V /\
  denote rho (Mul (m :: remove_nth i l)) =
    denote rho m * fold_right Rmult 1 (remove_nth i (map (denote rho) l)).
Proof.
  intros Hw Hd Hv Hwm Hdm Hvm. sy_split4.
  - apply SY_wf_Mul. constructor; [exact Hwm | apply SY_Forall_remove_nth; exact Hw].
  - apply SY_dom_Mul. constructor; [exact Hdm | apply SY_Forall_remove_nth; exact Hd].
  - cbn [vars]. apply SY_incl_flat_map.
    constructor; [exact Hvm | apply SY_Forall_remove_nth; exact Hv].
  - rewrite denote_Mul_map. cbn [map fold_right]. rewrite SY_map_remove_nth. reflexivity.
Qed.

Lemma SY_mapi_mul rho V l :
  Forall wfR l -> Forall (InDomain rho) l -> Forall (fun x => incl (vars x) V) l ->
  forall ds i, Forall wfR ds -> Forall (InDomain rho) ds ->
    Forall (fun d => incl (vars d) V) ds ->
    Forall wfR (mapi_from i (fun i d => Mul (d :: remove_nth i l)) ds) /\
    Forall (InDomain rho) (mapi_from i (fun i d => Mul (d :: remove_nth i l)) ds) /\
    Forall (fun x => incl (vars x) V) (mapi_from i (fun i d => Mul (d :: remove_nth i l)) ds) /\
    map (denote rho) (mapi_from i (fun i d => Mul (d :: remove_nth i l)) ds) =
      mapi_from i (fun i d => fold_right Rmult 1 (d :: remove_nth i (map (denote rho) l)))
        (map (denote rho) ds).
Proof.
  intros Hw Hd Hv. induction ds as [|d ds IH]; intros i Hwd Hdd Hvd; cbn [mapi_from map].
  - sy_split4; try constructor.
  - inversion Hwd as [|? ? Hw1 Hw2]; inversion Hdd as [|? ? Hd1 Hd2];
      inversion Hvd as [|? ? Hv1 Hv2]; subst.
    destruct (IH (S i) Hw2 Hd2 Hv2) as (I1 & I2 & I3 & I4).
    destruct (SY_mul_cons_ok rho V l d i Hw Hd Hv Hw1 Hd1 Hv1) as (M1 & M2 & M3 & M4).
    sy_split4; try (constructor; assumption).
    rewrite I4, M4. reflexivity.
Qed.

Lemma SY_incl_vars_elems (l : list (expr R)) :
  Forall (fun x => incl (vars x) (flat_map vars l)) l.
Proof. apply SY_incl_flat_map. apply incl_refl. Qed.

Lemma SY_Forall2_map {A B} (S : A -> B -> Prop) (f : A -> B) (l : list A) :
  Forall (fun x => S x (f x)) l -> Forall2 S l (map f l).
Proof. induction 1; cbn [map]; constructor; assumption. Qed.

Lemma SY_fwd_mul rho v l :
  Forall wfR l -> Forall (InDomain rho) l -> Forall (fwd_ok rho v) l -> fwd_ok rho v (Mul l).
Proof.
  intros Hw Hd Hok.
  pose proof (SY_incl_vars_elems l) as Hv.
  assert (Hw' : Forall wfR (map (sfwd v) l)).
  { apply Forall_map. eapply Forall_impl; [|exact Hok]. intros a H; apply H. }
  assert (Hd' : Forall (InDomain rho) (map (sfwd v) l)).
  { apply Forall_map. eapply Forall_impl; [|exact Hok]. intros a H; apply H. }
  assert (Hv' : Forall (fun d => incl (vars d) (flat_map vars l)) (map (sfwd v) l)).
  { apply Forall_map.
    apply (SY_Forall_mp3 (fwd_ok rho v) (fun x => incl (vars x) (flat_map vars l)) _ l);
      [|exact Hok|exact Hv].
    apply Forall_forall. intros a _ (_ & H2 & _) H. eapply incl_tran; eassumption. }
  destruct (SY_mapi_mul rho (flat_map vars l) l Hw Hd Hv (map (sfwd v) l) 0%nat Hw' Hd' Hv')
    as (M1 & M2 & M3 & M4).
  unfold fwd_ok. cbn [synth_fwd]. unfold mapi. sy_split4.
  - apply SY_wf_Add. exact M1.
  - cbn [vars]. apply SY_incl_flat_map. exact M3.
  - apply SY_dom_Add. exact M2.
  - rewrite denote_Add_map, M4.
    apply (tp_mul rho v l (map (denote rho) (map (sfwd v) l))).
    rewrite map_map. apply SY_Forall2_map.
    eapply Forall_impl; [|exact Hok]. intros a H; apply H.
Qed.

Lemma SY_fwd_minus rho v a b :
  fwd_ok rho v a -> fwd_ok rho v b -> fwd_ok rho v (Minus a b).
Proof.
  intros (A1 & A2 & A3 & A4) (B1 & B2 & B3 & B4).
  unfold fwd_ok. cbn [synth_fwd wf vars InDomain denote]. sy_split4.
  - split; assumption.
  - apply incl_app_app; assumption.
  - split; assumption.
  - apply tp_minus; assumption.
Qed.

Lemma SY_fwd_ok rho v : forall e, wfR e -> InDomain rho e -> fwd_ok rho v e.
Proof.
  induction e as [c|x|l IHl|l IHl|a b IHa IHb|a b IHa IHb|a b IHa IHb
                  |a IHa|a IHa|a IHa|a IHa|a n IHa|a n IHa|a b IHa|a b IHa] using expr_ind';
    intros Hwf Hdom.
  - unfold fwd_ok. cbn [synth_fwd wf vars InDomain denote].
    sy_split4; try exact I; [apply incl_refl | apply tp_const].
  - unfold fwd_ok. cbn [synth_fwd]. unfold name_eqb.
    destruct (Pos.eqb x v) eqn:E; cbn [wf vars InDomain denote];
      (sy_split4; try exact I; [intros y [] | ]).
    + apply Pos.eqb_eq in E. subst x. apply tp_var_same.
    + apply Pos.eqb_neq in E. apply tp_var_other. exact E.
  - apply SY_wf_Add in Hwf. apply SY_dom_Add in Hdom.
    apply SY_fwd_add. exact (SY_Forall_mp3 _ _ _ l IHl Hwf Hdom).
  - apply SY_wf_Mul in Hwf. apply SY_dom_Mul in Hdom.
    apply SY_fwd_mul; [exact Hwf | exact Hdom | exact (SY_Forall_mp3 _ _ _ l IHl Hwf Hdom)].
  - destruct Hwf as [Hwa Hwb]. destruct Hdom as [Hda Hdb]. apply SY_fwd_minus; auto.
  - eapply SY_fwd_binary; [apply SY_divide; assumption | reflexivity | exact IHa | exact IHb].
  - eapply SY_fwd_binary; [apply SY_power; assumption | reflexivity | exact IHa | exact IHb].
  - eapply SY_fwd_unary; [apply SY_neg; assumption | reflexivity | exact IHa].
  - eapply SY_fwd_unary; [apply SY_recip; assumption | reflexivity | exact IHa].
  - eapply SY_fwd_unary; [apply SY_sin; assumption | reflexivity | exact IHa].
  - eapply SY_fwd_unary; [apply SY_cos; assumption | reflexivity | exact IHa].
  - eapply SY_fwd_unary; [apply SY_nth_pow; assumption | reflexivity | exact IHa].
  - eapply SY_fwd_unary; [apply SY_nth_root; assumption | reflexivity | exact IHa].
  - eapply SY_fwd_unary; [apply SY_exp; assumption | reflexivity | exact IHa].
  - eapply SY_fwd_unary; [apply SY_log; assumption | reflexivity | exact IHa].
Qed.

Theorem synth_fwd_sound : C05_synth_fwd_sound.
Proof.
  unfold C05_synth_fwd_sound. intros rho e v Hwf Hdom. cbv zeta.
  exact (SY_fwd_ok rho v e Hwf Hdom).
Qed.
