(** * SynthSound: the symbolic differentiation routes (Synth.v) are sound (C05).

    - [synth_fwd_sound : C05_synth_fwd_sound]   forward symbolic route
    - [synth_rev_sound : C05_synth_rev_sound]   reverse symbolic route (accumulator)

    Structure: every node kind is described once by its "local factors": the symbolic formula
    applied to a multiplier expression [m] denotes [denote rho m * k] (and is well formed, in
    its domain, without new variables), and the true partial of the node is the combination of
    the partials of the children with the same factors [k].  Both routes are then instances. *)
From Coq Require Import Reals ZArith List Bool Lia Lra.
From Coquelicot Require Import Rcomplements Hierarchy Derive.
From SM Require Import Num Syntax Outcome MathFun Eval Forward Synth RInst Denote Spec.
From SM.proofs Require Import DerivLemmas.
Import ListNotations.
Open Scope R_scope.

Notation suf := (synth_unary_formula RInst).
Notation sfwd := (synth_fwd RInst).
Notation srev := (synth_rev RInst).

(** ** Small real facts *)

Lemma SY_exp1_pos : 0 < exp 1.
Proof. apply exp_pos. Qed.

Lemma SY_exp1_neq1 : exp 1 <> 1.
Proof. pose proof (exp_ineq1 1). lra. Qed.

Lemma SY_ln_e : ln (exp 1) = 1.
Proof. apply ln_exp. Qed.

Lemma SY_wf_e_lt : Rltb 0 (exp 1) = true.
Proof. apply Rltb_true, SY_exp1_pos. Qed.

Lemma SY_wf_e_neq : Reqb (exp 1) 1 = false.
Proof. apply Reqb_false, SY_exp1_neq1. Qed.

Lemma SY_root_neq_0 (n : positive) (x : R) : x <> 0 -> root n x <> 0.
Proof.
  intro Hx. unfold root.
  destruct (Rlt_dec 0 x) as [H|H].
  - unfold Rpower. pose proof (exp_pos (/ IZR (Z.pos n) * ln x)). lra.
  - destruct (Rlt_dec x 0) as [H'|H'].
    + unfold Rpower. pose proof (exp_pos (/ IZR (Z.pos n) * ln (- x))). lra.
    + lra.
Qed.

Lemma SY_IZR_pos_neq_0 (n : positive) : IZR (Zpos n) <> 0.
Proof. apply IZR_neq; discriminate. Qed.

Lemma SY_to_nat_pred (n : positive) : n <> 1%positive ->
  Pos.to_nat (Pos.pred n) = (Pos.to_nat n - 1)%nat.
Proof. intro H. rewrite Pos2Nat.inj_pred by lia. lia. Qed.

(** ** What a symbolic local formula must satisfy *)

(** [f m] is well formed / in its domain whenever [m] is, mentions only variables of [m] and
    of [W], and denotes [denote rho m * k] *)
Definition mult_ok (rho : env) (W : list name) (f : expr R -> expr R) (k : R) : Prop :=
  forall m, wfR m -> InDomain rho m ->
    wfR (f m) /\ incl (vars (f m)) (vars m ++ W) /\ InDomain rho (f m) /\
    denote rho (f m) = denote rho m * k.

Definition unary_spec (rho : env) (e a : expr R) : Prop :=
  wfR a /\ InDomain rho a /\ vars e = vars a /\
  exists k, mult_ok rho (vars a) (suf e) k /\
    forall v da, true_partial rho a v da -> true_partial rho e v (da * k).

Definition binary_spec (rho : env) (e a b : expr R) (fl fr : expr R -> expr R) : Prop :=
  wfR a /\ wfR b /\ InDomain rho a /\ InDomain rho b /\ vars e = vars a ++ vars b /\
  exists ka kb, mult_ok rho (vars e) fl ka /\ mult_ok rho (vars e) fr kb /\
    forall v da db, true_partial rho a v da -> true_partial rho b v db ->
      true_partial rho e v (da * ka + db * kb).

Ltac sy_incl :=
  let x := fresh "x" in let Hx := fresh "Hx" in
  intros x Hx; cbn [vars flat_map app] in Hx |- *;
  repeat rewrite in_app_iff in *; cbn [In] in *; tauto.

(** ** The unary nodes *)

Lemma SY_neg rho a : wfR (Neg a) -> InDomain rho (Neg a) -> unary_spec rho (Neg a) a.
Proof.
  cbn [wf InDomain]; intros Hwf Hdom. repeat split; try assumption.
  exists (-1). split.
  - intros m Hm Hdm. cbn [synth_unary_formula wf InDomain denote].
    repeat split; try assumption; [sy_incl | ring].
  - intros v da Ha. eapply tp_ext_value; [apply tp_neg; exact Ha | ring].
Qed.

Lemma SY_recip rho a : wfR (Recip a) -> InDomain rho (Recip a) -> unary_spec rho (Recip a) a.
Proof.
  cbn [wf InDomain]; intros Hwf [Hdom H0]. repeat split; try assumption.
  exists (- / (denote rho a ^ 2)). split.
  - intros m Hm Hdm. cbn [synth_unary_formula wf InDomain denote].
    change (Pos.to_nat 2) with 2%nat.
    repeat split; try assumption; [sy_incl | apply pow_nonzero; exact H0 | ].
    field. exact H0.
  - intros v da Ha. eapply tp_ext_value; [apply tp_recip; [exact Ha | exact H0] | ].
    field. exact H0.
Qed.

Lemma SY_sin rho a : wfR (Sin a) -> InDomain rho (Sin a) -> unary_spec rho (Sin a) a.
Proof.
  cbn [wf InDomain]; intros Hwf Hdom. repeat split; try assumption.
  exists (cos (denote rho a)). split.
  - intros m Hm Hdm. cbn [synth_unary_formula wf InDomain denote fold_right].
    repeat split; try assumption; [sy_incl | ring].
  - intros v da Ha. eapply tp_ext_value; [apply tp_sin; exact Ha | ring].
Qed.

Lemma SY_cos rho a : wfR (Cos a) -> InDomain rho (Cos a) -> unary_spec rho (Cos a) a.
Proof.
  cbn [wf InDomain]; intros Hwf Hdom. repeat split; try assumption.
  exists (- sin (denote rho a)). split.
  - intros m Hm Hdm. cbn [synth_unary_formula wf InDomain denote fold_right].
    repeat split; try assumption; [sy_incl | ring].
  - intros v da Ha. eapply tp_ext_value; [apply tp_cos; exact Ha | ring].
Qed.

Lemma SY_suf_nth_pow a n m : n <> 1%positive ->
  suf (NthPow a n) m = Mul [Const (IZR (Zpos n)); NthPow a (Pos.pred n); m].
Proof. intro H. destruct n; try reflexivity. congruence. Qed.

Lemma SY_nth_pow rho a n :
  wfR (NthPow a n) -> InDomain rho (NthPow a n) -> unary_spec rho (NthPow a n) a.
Proof.
  cbn [wf InDomain]; intros Hwf Hdom. repeat split; try assumption.
  destruct (Pos.eq_dec n 1) as [->|Hn].
  - exists 1. split.
    + intros m Hm Hdm. cbn [synth_unary_formula].
      repeat split; try assumption; [sy_incl | ring].
    + intros v da Ha. eapply tp_ext_value; [apply tp_nth_pow_1; exact Ha | ring].
  - exists (IZR (Zpos n) * denote rho a ^ (Pos.to_nat n - 1)). split.
    + intros m Hm Hdm. rewrite SY_suf_nth_pow by exact Hn.
      cbn [wf InDomain denote fold_right]. rewrite SY_to_nat_pred by exact Hn.
      repeat split; try assumption; [sy_incl | ring].
    + intros v da Ha. eapply tp_ext_value; [apply tp_nth_pow; exact Ha | ring].
Qed.

Lemma SY_suf_nth_root a n m : n <> 1%positive ->
  suf (NthRoot a n) m =
  Divide m (Mul [Const (IZR (Zpos n)); NthPow (NthRoot a n) (Pos.pred n)]).
Proof. intro H. destruct n; try reflexivity. congruence. Qed.

Lemma SY_nth_root rho a n :
  wfR (NthRoot a n) -> InDomain rho (NthRoot a n) -> unary_spec rho (NthRoot a n) a.
Proof.
  cbn [wf InDomain]; intros Hwf [Hdom Hn']. repeat split; try assumption.
  destruct (Pos.eq_dec n 1) as [->|Hn].
  - exists 1. split.
    + intros m Hm Hdm. cbn [synth_unary_formula].
      repeat split; try assumption; [sy_incl | ring].
    + intros v da Ha. eapply tp_ext_value; [apply tp_nth_root_1; exact Ha | ring].
  - destruct Hn' as [Hn'|[H0 Hev]]; [contradiction|].
    pose proof (SY_root_neq_0 n _ H0) as Hr.
    pose proof (SY_IZR_pos_neq_0 n) as Hz.
    assert (Hp : root n (denote rho a) ^ (Pos.to_nat n - 1) <> 0) by (apply pow_nonzero; exact Hr).
    exists (/ (IZR (Zpos n) * root n (denote rho a) ^ (Pos.to_nat n - 1))). split.
    + intros m Hm Hdm. rewrite SY_suf_nth_root by exact Hn.
      cbn [wf InDomain denote fold_right]. rewrite SY_to_nat_pred by exact Hn.
      repeat split; try assumption; try sy_incl.
      * right. split; assumption.
      * rewrite Rmult_1_r. apply Rmult_integral_contrapositive_currified; assumption.
      * field. split; assumption.
    + intros v da Ha. eapply tp_ext_value.
      * apply tp_nth_root; [exact Ha | right; split; assumption].
      * field. split; assumption.
Qed.

Lemma SY_exp rho a b : wfR (Exp a b) -> InDomain rho (Exp a b) -> unary_spec rho (Exp a b) a.
Proof.
  cbn [wf InDomain]; intros [Hb Hwf] Hdom. repeat split; try assumption.
  change (Rltb 0 b = true) in Hb. pose proof Hb as Hb'. apply Rltb_true in Hb'.
  cbn [synth_unary_formula]. change (neqb RInst) with Reqb.
  change (n1 RInst) with 1. change (n_e RInst) with (exp 1). change (n0 RInst) with 0.
  destruct (Reqb b 1) eqn:E1; [apply Reqb_true in E1 | apply Reqb_false in E1].
  - exists 0. split.
    + intros m Hm Hdm. cbn [wf InDomain denote vars].
      repeat split; try assumption; [sy_incl | ring].
    + intros v da Ha. eapply tp_ext_value; [apply tp_exp; [exact Hb' | exact Ha] | ].
      subst b. rewrite ln_1. ring.
  - destruct (Reqb b (exp 1)) eqn:E2; [apply Reqb_true in E2 | apply Reqb_false in E2].
    + exists (Rpower b (denote rho a)). split.
      * intros m Hm Hdm. cbn [wf InDomain denote fold_right].
        repeat split; try assumption; [sy_incl | ring].
      * intros v da Ha. eapply tp_ext_value; [apply tp_exp; [exact Hb' | exact Ha] | ].
        rewrite E2, SY_ln_e. ring.
    + exists (ln b * Rpower b (denote rho a)). split.
      * intros m Hm Hdm. cbn [wf InDomain denote fold_right].
        repeat split; try assumption;
          [apply SY_wf_e_lt | apply SY_wf_e_neq | sy_incl | ].
        rewrite SY_ln_e. field.
      * intros v da Ha. eapply tp_ext_value; [apply tp_exp; [exact Hb' | exact Ha] | ].
        ring.
Qed.

Lemma SY_log rho a b : wfR (Log a b) -> InDomain rho (Log a b) -> unary_spec rho (Log a b) a.
Proof.
  cbn [wf InDomain]; intros (Hb & Hb1 & Hwf) [Hdom Hpos]. repeat split; try assumption.
  change (Rltb 0 b = true) in Hb. pose proof Hb as Hb'. apply Rltb_true in Hb'.
  change (Reqb b 1 = false) in Hb1. pose proof Hb1 as Hb1'. apply Reqb_false in Hb1'.
  pose proof (ln_neq_0 b Hb' Hb1') as Hln.
  assert (Hva : denote rho a <> 0) by lra.
  cbn [synth_unary_formula]. change (neqb RInst) with Reqb.
  change (n_e RInst) with (exp 1).
  destruct (Reqb b (exp 1)) eqn:E2; [apply Reqb_true in E2 | apply Reqb_false in E2].
  - exists (/ denote rho a). split.
    + intros m Hm Hdm. cbn [wf InDomain denote fold_right].
      repeat split; try assumption; [sy_incl | field; exact Hva].
    + intros v da Ha. eapply tp_ext_value; [apply tp_log; [exact Hb' | exact Hb1' | exact Hpos | exact Ha] | ].
      rewrite E2, SY_ln_e. field. exact Hva.
  - exists (/ (ln b * denote rho a)). split.
    + intros m Hm Hdm. cbn [wf InDomain denote fold_right].
      rewrite SY_ln_e.
      repeat split; try assumption;
        [apply SY_wf_e_lt | apply SY_wf_e_neq | sy_incl | | field; split; assumption ].
      unfold Rdiv. rewrite Rinv_1, !Rmult_1_r.
      apply Rmult_integral_contrapositive_currified; assumption.
    + intros v da Ha. eapply tp_ext_value; [apply tp_log; [exact Hb' | exact Hb1' | exact Hpos | exact Ha] | ].
      field. split; assumption.
Qed.
