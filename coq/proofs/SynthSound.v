(** * SynthSound: the symbolic differentiation routes (Synth.v) are sound (C05).

    - [synth_fwd_sound : C05_synth_fwd_sound]   forward symbolic route
    - [synth_rev_sound : C05_synth_rev_sound]   reverse symbolic route (accumulator)

    Structure: every node kind is described once by its "local factors": the symbolic formula
    applied to a multiplier expression [m] denotes [denote rho m * k] (and is well formed, in
    its domain, without new variables), and the true partial of the node is the combination of
    the partials of the children with the same factors [k].  Both routes are then instances. *)
From Coq Require Import Reals ZArith List Bool Lia Lra.
From Coquelicot Require Import Rcomplements Hierarchy Derive.
From SM Require Import Num Syntax Outcome MathFun Eval Forward Synth RInst Denote Spec.
From SM.proofs Require Import DerivLemmas.
Import ListNotations.
Open Scope R_scope.

Notation suf := (synth_unary_formula RInst).
Notation sfwd := (synth_fwd RInst).
Notation srev := (synth_rev RInst).

(** ** Small real facts *)

Lemma SY_exp1_pos : 0 < exp 1.
Proof. apply exp_pos. Qed.

Lemma SY_exp1_neq1 : exp 1 <> 1.
Proof. pose proof (exp_ineq1 1). lra. Qed.

Lemma SY_ln_e : ln (exp 1) = 1.
Proof. apply ln_exp. Qed.

Lemma SY_wf_e_lt : Rltb 0 (exp 1) = true.
Proof. apply Rltb_true, SY_exp1_pos. Qed.

Lemma SY_wf_e_neq : Reqb (exp 1) 1 = false.
Proof. apply Reqb_false, SY_exp1_neq1. Qed.

Lemma SY_root_neq_0 (n : positive) (x : R) : x <> 0 -> root n x <> 0.
Proof.
  intro Hx. unfold root.
  destruct (Rlt_dec 0 x) as [H|H].
  - unfold Rpower. pose proof (exp_pos (/ IZR (Z.pos n) * ln x)). lra.
  - destruct (Rlt_dec x 0) as [H'|H'].
    + unfold Rpower. pose proof (exp_pos (/ IZR (Z.pos n) * ln (- x))). lra.
    + lra.
Qed.

Lemma SY_IZR_pos_neq_0 (n : positive) : IZR (Zpos n) <> 0.
Proof. apply IZR_neq; discriminate. Qed.

Lemma SY_to_nat_pred (n : positive) : n <> 1%positive ->
  Pos.to_nat (Pos.pred n) = (Pos.to_nat n - 1)%nat.
Proof. intro H. rewrite Pos2Nat.inj_pred by lia. lia. Qed.

(** ** What a symbolic local formula must satisfy *)

(** [f m] is well formed / in its domain whenever [m] is, mentions only variables of [m] and
    of [W], and denotes [denote rho m * k] *)
Definition mult_ok (rho : env) (W : list name) (f : expr R -> expr R) (k : R) : Prop :=
  forall m, wfR m -> InDomain rho m ->
    wfR (f m) /\ incl (vars (f m)) (vars m ++ W) /\ InDomain rho (f m) /\
    denote rho (f m) = denote rho m * k.

Definition unary_spec (rho : env) (e a : expr R) : Prop :=
  wfR a /\ InDomain rho a /\ vars e = vars a /\
  exists k, mult_ok rho (vars a) (suf e) k /\
    forall v da, true_partial rho a v da -> true_partial rho e v (da * k).

Definition binary_spec (rho : env) (e a b : expr R) (fl fr : expr R -> expr R) : Prop :=
  wfR a /\ wfR b /\ InDomain rho a /\ InDomain rho b /\ vars e = vars a ++ vars b /\
  exists ka kb, mult_ok rho (vars e) fl ka /\ mult_ok rho (vars e) fr kb /\
    forall v da db, true_partial rho a v da -> true_partial rho b v db ->
      true_partial rho e v (da * ka + db * kb).

Ltac sy_incl :=
  let x := fresh "x" in let Hx := fresh "Hx" in
  intros x Hx; cbn [vars flat_map app] in Hx |- *;
  repeat rewrite in_app_iff in *; cbn [In] in *; tauto.

Ltac sy_split4 := split; [|split; [|split]].

(** ** The unary nodes *)

Lemma SY_neg rho a : wfR (Neg a) -> InDomain rho (Neg a) -> unary_spec rho (Neg a) a.
Proof.
  cbn [wf InDomain]; intros Hwf Hdom. repeat split; try assumption.
  exists (-1). split.
  - intros m Hm Hdm. cbn [synth_unary_formula wf InDomain denote].
    repeat split; try assumption; [sy_incl | ring].
  - intros v da Ha. eapply tp_ext_value; [apply tp_neg; exact Ha | ring].
Qed.

Lemma SY_recip rho a : wfR (Recip a) -> InDomain rho (Recip a) -> unary_spec rho (Recip a) a.
Proof.
  cbn [wf InDomain]; intros Hwf [Hdom H0]. repeat split; try assumption.
  exists (- / (denote rho a ^ 2)). split.
  - intros m Hm Hdm. cbn [synth_unary_formula wf InDomain denote].
    change (Pos.to_nat 2) with 2%nat.
    repeat split; try assumption; [sy_incl | apply pow_nonzero; exact H0 | ].
    field. exact H0.
  - intros v da Ha. eapply tp_ext_value; [apply tp_recip; [exact Ha | exact H0] | ].
    field. exact H0.
Qed.

Lemma SY_sin rho a : wfR (Sin a) -> InDomain rho (Sin a) -> unary_spec rho (Sin a) a.
Proof.
  cbn [wf InDomain]; intros Hwf Hdom. repeat split; try assumption.
  exists (cos (denote rho a)). split.
  - intros m Hm Hdm. cbn [synth_unary_formula wf InDomain denote fold_right].
    repeat split; try assumption; [sy_incl | ring].
  - intros v da Ha. eapply tp_ext_value; [apply tp_sin; exact Ha | ring].
Qed.

Lemma SY_cos rho a : wfR (Cos a) -> InDomain rho (Cos a) -> unary_spec rho (Cos a) a.
Proof.
  cbn [wf InDomain]; intros Hwf Hdom. repeat split; try assumption.
  exists (- sin (denote rho a)). split.
  - intros m Hm Hdm. cbn [synth_unary_formula wf InDomain denote fold_right].
    repeat split; try assumption; [sy_incl | ring].
  - intros v da Ha. eapply tp_ext_value; [apply tp_cos; exact Ha | ring].
Qed.

Lemma SY_suf_nth_pow a n m : n <> 1%positive ->
  suf (NthPow a n) m = Mul [Const (IZR (Zpos n)); NthPow a (Pos.pred n); m].
Proof. intro H. destruct n; try reflexivity. congruence. Qed.

Lemma SY_nth_pow rho a n :
  wfR (NthPow a n) -> InDomain rho (NthPow a n) -> unary_spec rho (NthPow a n) a.
Proof.
  cbn [wf InDomain]; intros Hwf Hdom. repeat split; try assumption.
  destruct (Pos.eq_dec n 1) as [->|Hn].
  - exists 1. split.
    + intros m Hm Hdm. cbn [synth_unary_formula].
      repeat split; try assumption; [sy_incl | ring].
    + intros v da Ha. eapply tp_ext_value; [apply tp_nth_pow_1; exact Ha | ring].
  - exists (IZR (Zpos n) * denote rho a ^ (Pos.to_nat n - 1)). split.
    + intros m Hm Hdm. rewrite SY_suf_nth_pow by exact Hn.
      cbn [wf InDomain denote fold_right]. rewrite SY_to_nat_pred by exact Hn.
      repeat split; try assumption; [sy_incl | ring].
    + intros v da Ha. eapply tp_ext_value; [apply tp_nth_pow; exact Ha | ring].
Qed.

Lemma SY_suf_nth_root a n m : n <> 1%positive ->
  suf (NthRoot a n) m =
  Divide m (Mul [Const (IZR (Zpos n)); NthPow (NthRoot a n) (Pos.pred n)]).
Proof. intro H. destruct n; try reflexivity. congruence. Qed.

Lemma SY_nth_root rho a n :
  wfR (NthRoot a n) -> InDomain rho (NthRoot a n) -> unary_spec rho (NthRoot a n) a.
Proof.
  cbn [wf InDomain]; intros Hwf [Hdom Hn']. repeat split; try assumption.
  destruct (Pos.eq_dec n 1) as [->|Hn].
  - exists 1. split.
    + intros m Hm Hdm. cbn [synth_unary_formula].
      repeat split; try assumption; [sy_incl | ring].
    + intros v da Ha. eapply tp_ext_value; [apply tp_nth_root_1; exact Ha | ring].
  - destruct Hn' as [Hn'|[H0 Hev]]; [contradiction|].
    pose proof (SY_root_neq_0 n _ H0) as Hr.
    pose proof (SY_IZR_pos_neq_0 n) as Hz.
    assert (Hp : root n (denote rho a) ^ (Pos.to_nat n - 1) <> 0) by (apply pow_nonzero; exact Hr).
    exists (/ (IZR (Zpos n) * root n (denote rho a) ^ (Pos.to_nat n - 1))). split.
    + intros m Hm Hdm. rewrite SY_suf_nth_root by exact Hn.
      cbn [wf InDomain denote fold_right]. rewrite SY_to_nat_pred by exact Hn.
      repeat split; try assumption; try sy_incl.
      * right. split; assumption.
      * rewrite Rmult_1_r. apply Rmult_integral_contrapositive_currified; assumption.
      * field. split; assumption.
    + intros v da Ha. eapply tp_ext_value.
      * apply tp_nth_root; [exact Ha | right; split; assumption].
      * field. split; assumption.
Qed.

Lemma SY_suf_exp a b m :
  suf (Exp a b) m =
  if Reqb b 1 then Const 0
  else if Reqb b (exp 1) then Mul [Exp a b; m]
  else Mul [Log (Const b) (exp 1); Exp a b; m].
Proof. reflexivity. Qed.

Lemma SY_suf_log a b m :
  suf (Log a b) m =
  if Reqb b (exp 1) then Divide m a else Divide m (Mul [Log (Const b) (exp 1); a]).
Proof. reflexivity. Qed.

Lemma SY_exp rho a b : wfR (Exp a b) -> InDomain rho (Exp a b) -> unary_spec rho (Exp a b) a.
Proof.
  cbn [wf InDomain]; intros [Hb Hwf] Hdom. repeat split; try assumption.
  change (Rltb 0 b = true) in Hb. pose proof Hb as Hb'. apply Rltb_true in Hb'.
  destruct (Reqb b 1) eqn:E1b; pose proof E1b as E1;
    [apply Reqb_true in E1 | apply Reqb_false in E1].
  - exists 0. split.
    + intros m Hm Hdm. rewrite SY_suf_exp, E1b. cbn [wf InDomain denote vars].
      repeat split; try assumption; [sy_incl | ring].
    + intros v da Ha. eapply tp_ext_value; [apply tp_exp; [exact Hb' | exact Ha] | ].
      subst b. rewrite ln_1. ring.
  - destruct (Reqb b (exp 1)) eqn:E2b; pose proof E2b as E2;
      [apply Reqb_true in E2 | apply Reqb_false in E2].
    + exists (Rpower b (denote rho a)). split.
      * intros m Hm Hdm. rewrite SY_suf_exp, E1b, E2b. cbn [wf InDomain denote fold_right].
        repeat split; try assumption; [sy_incl | ring].
      * intros v da Ha. eapply tp_ext_value; [apply tp_exp; [exact Hb' | exact Ha] | ].
        rewrite E2, SY_ln_e. ring.
    + exists (ln b * Rpower b (denote rho a)). split.
      * intros m Hm Hdm. rewrite SY_suf_exp, E1b, E2b. cbn [wf InDomain denote fold_right].
        repeat split; try assumption;
          [apply SY_wf_e_lt | apply SY_wf_e_neq | sy_incl | ].
        rewrite SY_ln_e. field.
      * intros v da Ha. eapply tp_ext_value; [apply tp_exp; [exact Hb' | exact Ha] | ].
        ring.
Qed.

Lemma SY_log rho a b : wfR (Log a b) -> InDomain rho (Log a b) -> unary_spec rho (Log a b) a.
Proof.
  cbn [wf InDomain]; intros (Hb & Hb1 & Hwf) [Hdom Hpos]. repeat split; try assumption.
  change (Rltb 0 b = true) in Hb. pose proof Hb as Hb'. apply Rltb_true in Hb'.
  change (Reqb b 1 = false) in Hb1. pose proof Hb1 as Hb1'. apply Reqb_false in Hb1'.
  pose proof (ln_neq_0 b Hb' Hb1') as Hln.
  assert (Hva : denote rho a <> 0) by lra.
  destruct (Reqb b (exp 1)) eqn:E2b; pose proof E2b as E2;
    [apply Reqb_true in E2 | apply Reqb_false in E2].
  - exists (/ denote rho a). split.
    + intros m Hm Hdm. rewrite SY_suf_log, E2b. cbn [wf InDomain denote fold_right].
      repeat split; try assumption; try sy_incl; try (field; exact Hva).
    + intros v da Ha. eapply tp_ext_value; [apply tp_log; [exact Hb' | exact Hb1' | exact Hpos | exact Ha] | ].
      rewrite E2, SY_ln_e. field. exact Hva.
  - exists (/ (ln b * denote rho a)). split.
    + intros m Hm Hdm. rewrite SY_suf_log, E2b. cbn [wf InDomain denote fold_right].
      rewrite SY_ln_e.
      repeat split; try assumption;
        [apply SY_wf_e_lt | apply SY_wf_e_neq | sy_incl | | field; split; assumption ].
      unfold Rdiv. rewrite Rinv_1, !Rmult_1_r.
      apply Rmult_integral_contrapositive_currified; assumption.
    + intros v da Ha. eapply tp_ext_value; [apply tp_log; [exact Hb' | exact Hb1' | exact Hpos | exact Ha] | ].
      field. split; assumption.
Qed.

(** ** The binary nodes with two local formulas *)

Lemma SY_divide rho a b : wfR (Divide a b) -> InDomain rho (Divide a b) ->
  binary_spec rho (Divide a b) a b (synth_divide_left a b) (synth_divide_right a b).
Proof.
  cbn [wf InDomain]; intros [Hwa Hwb] (Hda & Hdb & H0). repeat split; try assumption.
  exists (/ denote rho b), (- (denote rho a / denote rho b ^ 2)). split; [|split].
  - intros m Hm Hdm. unfold synth_divide_left. cbn [wf InDomain denote vars].
    repeat split; try assumption; try sy_incl.
  - intros m Hm Hdm. unfold synth_divide_right. cbn [wf InDomain denote fold_right].
    change (Pos.to_nat 2) with 2%nat.
    repeat split; try assumption; try sy_incl; try (apply pow_nonzero; exact H0).
    ring.
  - intros v da db Ha Hb. eapply tp_ext_value; [apply tp_divide; [exact Ha | exact Hb | exact H0] | ].
    unfold Rdiv. ring.
Qed.

Lemma SY_power rho a b : wfR (Power a b) -> InDomain rho (Power a b) ->
  binary_spec rho (Power a b) a b (synth_power_left RInst a b) (synth_power_right RInst a b).
Proof.
  cbn [wf InDomain]; intros [Hwa Hwb] (Hda & Hdb & H0). repeat split; try assumption.
  exists (denote rho b * Rpower (denote rho a) (denote rho b - 1)),
         (ln (denote rho a) * Rpower (denote rho a) (denote rho b)). split; [|split].
  - intros m Hm Hdm. unfold synth_power_left. cbn [wf InDomain denote fold_right].
    change (n1 RInst) with 1.
    repeat split; try assumption; try sy_incl.
    ring.
  - intros m Hm Hdm. unfold synth_power_right. cbn [wf InDomain denote fold_right].
    change (n_e RInst) with (exp 1). change (n0 RInst) with 0. change (n1 RInst) with 1.
    change (nltb RInst) with Rltb. change (neqb RInst) with Reqb.
    rewrite SY_ln_e.
    repeat split; try assumption; try sy_incl; try apply SY_wf_e_lt; try apply SY_wf_e_neq.
    field.
  - intros v da db Ha Hb. eapply tp_ext_value; [apply tp_power; [exact H0 | exact Ha | exact Hb] | ].
    ring.
Qed.

(** ** List helpers *)

Lemma SY_fold_and {A} (P : A -> Prop) (l : list A) :
  fold_right (fun x acc => P x /\ acc) True l <-> Forall P l.
Proof.
  induction l as [|a l IH]; cbn [fold_right].
  - split; intros; [constructor | exact I].
  - rewrite IH. split; [intros [Ha Hl]; constructor; assumption | intro H; inversion H; auto].
Qed.

Lemma SY_wf_Add l : wfR (Add l) <-> Forall wfR l.
Proof. exact (SY_fold_and wfR l). Qed.
Lemma SY_wf_Mul l : wfR (Mul l) <-> Forall wfR l.
Proof. exact (SY_fold_and wfR l). Qed.
Lemma SY_dom_Add rho l : InDomain rho (Add l) <-> Forall (InDomain rho) l.
Proof. exact (SY_fold_and (InDomain rho) l). Qed.
Lemma SY_dom_Mul rho l : InDomain rho (Mul l) <-> Forall (InDomain rho) l.
Proof. exact (SY_fold_and (InDomain rho) l). Qed.

Lemma SY_incl_flat_map (l : list (expr R)) (V : list name) :
  incl (flat_map vars l) V <-> Forall (fun x => incl (vars x) V) l.
Proof.
  induction l as [|a l IH]; cbn [flat_map].
  - split; intros; [constructor | intros x []].
  - split.
    + intro H. constructor.
      * intros x Hx. apply H, in_or_app. left; exact Hx.
      * apply IH. intros x Hx. apply H, in_or_app. right; exact Hx.
    + intro H. inversion H as [|? ? Ha Hl]; subst. apply incl_app; [exact Ha | apply IH; exact Hl].
Qed.

Lemma SY_Forall_mp3 {A} (P Q S : A -> Prop) (l : list A) :
  Forall (fun x => P x -> Q x -> S x) l -> Forall P l -> Forall Q l -> Forall S l.
Proof.
  induction 1 as [|a l Ha Hl IH]; intros HP HQ; constructor;
    inversion HP; inversion HQ; subst; auto.
Qed.

Lemma SY_Forall_remove_nth {A} (P : A -> Prop) (l : list A) (i : nat) :
  Forall P l -> Forall P (remove_nth i l).
Proof.
  intro H. revert i. induction H as [|a l Ha Hl IH]; intro i.
  - destruct i; constructor.
  - destruct i as [|j]; cbn [remove_nth]; [exact Hl | constructor; [exact Ha | apply IH]].
Qed.

Lemma SY_map_remove_nth {A B} (f : A -> B) (l : list A) (i : nat) :
  map f (remove_nth i l) = remove_nth i (map f l).
Proof.
  revert i. induction l as [|a l IH]; intro i; [destruct i; reflexivity|].
  destruct i as [|j]; cbn [remove_nth map]; [reflexivity | rewrite IH; reflexivity].
Qed.

(** ** Forward route *)

Definition fwd_ok (rho : env) (v : name) (e : expr R) : Prop :=
  wfR (sfwd v e) /\ incl (vars (sfwd v e)) (vars e) /\ InDomain rho (sfwd v e) /\
  true_partial rho e v (denote rho (sfwd v e)).

Lemma SY_fwd_unary rho v e a :
  unary_spec rho e a -> sfwd v e = suf e (sfwd v a) ->
  (wfR a -> InDomain rho a -> fwd_ok rho v a) -> fwd_ok rho v e.
Proof.
  intros (Hwa & Hda & Hv & k & Hm & Htp) E IH.
  destruct (IH Hwa Hda) as (H1 & H2 & H3 & H4).
  destruct (Hm _ H1 H3) as (M1 & M2 & M3 & M4).
  unfold fwd_ok. rewrite E, Hv. sy_split4; try assumption.
  - intros x Hx. apply M2 in Hx. apply in_app_or in Hx. destruct Hx as [Hx|Hx]; auto.
  - rewrite M4. apply Htp. exact H4.
Qed.

Lemma SY_fwd_binary rho v e a b fl fr :
  binary_spec rho e a b fl fr -> sfwd v e = Add [fl (sfwd v a); fr (sfwd v b)] ->
  (wfR a -> InDomain rho a -> fwd_ok rho v a) ->
  (wfR b -> InDomain rho b -> fwd_ok rho v b) -> fwd_ok rho v e.
Proof.
  intros (Hwa & Hwb & Hda & Hdb & Hv & ka & kb & Hl & Hr & Htp) E IHa IHb.
  destruct (IHa Hwa Hda) as (A1 & A2 & A3 & A4).
  destruct (IHb Hwb Hdb) as (B1 & B2 & B3 & B4).
  destruct (Hl _ A1 A3) as (L1 & L2 & L3 & L4).
  destruct (Hr _ B1 B3) as (R1 & R2 & R3 & R4).
  unfold fwd_ok. rewrite E. cbn [wf InDomain denote fold_right vars flat_map].
  sy_split4; try (repeat split; assumption).
  - rewrite app_nil_r. apply incl_app.
    + intros x Hx. apply L2 in Hx. apply in_app_or in Hx. destruct Hx as [Hx|Hx]; [|exact Hx].
      rewrite Hv. apply in_or_app. left. apply A2, Hx.
    + intros x Hx. apply R2 in Hx. apply in_app_or in Hx. destruct Hx as [Hx|Hx]; [|exact Hx].
      rewrite Hv. apply in_or_app. right. apply B2, Hx.
  - rewrite L4, R4. eapply tp_ext_value; [apply Htp; [exact A4 | exact B4] | ring].
Qed.

Lemma SY_tp_add_cons rho v a l da dl :
  true_partial rho a v da -> true_partial rho (Add l) v dl ->
  true_partial rho (Add (a :: l)) v (da + dl).
Proof.
  unfold true_partial; cbn [denote fold_right]; intros Ha Hl.
  apply (Rd_plus (fun t => denote (upd rho v t) a)); assumption.
Qed.

Lemma SY_fwd_add rho v l : Forall (fwd_ok rho v) l -> fwd_ok rho v (Add l).
Proof.
  induction 1 as [|a l Ha Hl IH].
  - unfold fwd_ok. cbn [synth_fwd map wf vars flat_map InDomain denote fold_right].
    sy_split4; try exact I; [intros x [] | apply (tp_add rho v [] []); constructor].
  - destruct Ha as (A1 & A2 & A3 & A4). destruct IH as (B1 & B2 & B3 & B4).
    unfold fwd_ok. cbn [synth_fwd map wf InDomain vars flat_map denote fold_right] in *.
    sy_split4.
    + split; assumption.
    + apply incl_app_app; assumption.
    + split; assumption.
    + apply SY_tp_add_cons; assumption.
Qed.

(** the expression [Mul (m :: remove_nth i l)] built by both routes for a product *)
Lemma SY_mul_cons_ok rho V l m i :
  Forall wfR l -> Forall (InDomain rho) l -> Forall (fun x => incl (vars x) V) l ->
  wfR m -> InDomain rho m -> incl (vars m) V ->
  wfR (Mul (m :: remove_nth i l)) /\ InDomain rho (Mul (m :: remove_nth i l)) /\
  incl (vars (Mul (m :: remove_nth i l))) V /\
  denote rho (Mul (m :: remove_nth i l)) =
    denote rho m * fold_right Rmult 1 (remove_nth i (map (denote rho) l)).
Proof.
  intros Hw Hd Hv Hwm Hdm Hvm. sy_split4.
  - apply SY_wf_Mul. constructor; [exact Hwm | apply SY_Forall_remove_nth; exact Hw].
  - apply SY_dom_Mul. constructor; [exact Hdm | apply SY_Forall_remove_nth; exact Hd].
  - cbn [vars]. apply SY_incl_flat_map.
    constructor; [exact Hvm | apply SY_Forall_remove_nth; exact Hv].
  - rewrite denote_Mul_map. cbn [map fold_right]. rewrite SY_map_remove_nth. reflexivity.
Qed.

Lemma SY_mapi_mul rho V l :
  Forall wfR l -> Forall (InDomain rho) l -> Forall (fun x => incl (vars x) V) l ->
  forall ds i, Forall wfR ds -> Forall (InDomain rho) ds ->
    Forall (fun d => incl (vars d) V) ds ->
    Forall wfR (mapi_from i (fun i d => Mul (d :: remove_nth i l)) ds) /\
    Forall (InDomain rho) (mapi_from i (fun i d => Mul (d :: remove_nth i l)) ds) /\
    Forall (fun x => incl (vars x) V) (mapi_from i (fun i d => Mul (d :: remove_nth i l)) ds) /\
    map (denote rho) (mapi_from i (fun i d => Mul (d :: remove_nth i l)) ds) =
      mapi_from i (fun i d => fold_right Rmult 1 (d :: remove_nth i (map (denote rho) l)))
        (map (denote rho) ds).
Proof.
  intros Hw Hd Hv. induction ds as [|d ds IH]; intros i Hwd Hdd Hvd; cbn [mapi_from map].
  - sy_split4; try constructor.
  - inversion Hwd as [|? ? Hw1 Hw2]; inversion Hdd as [|? ? Hd1 Hd2];
      inversion Hvd as [|? ? Hv1 Hv2]; subst.
    destruct (IH (S i) Hw2 Hd2 Hv2) as (I1 & I2 & I3 & I4).
    destruct (SY_mul_cons_ok rho V l d i Hw Hd Hv Hw1 Hd1 Hv1) as (M1 & M2 & M3 & M4).
    sy_split4; try (constructor; assumption).
    rewrite I4, M4. reflexivity.
Qed.

Lemma SY_incl_vars_elems (l : list (expr R)) :
  Forall (fun x => incl (vars x) (flat_map vars l)) l.
Proof. apply SY_incl_flat_map. apply incl_refl. Qed.

Lemma SY_Forall2_map {A B} (S : A -> B -> Prop) (f : A -> B) (l : list A) :
  Forall (fun x => S x (f x)) l -> Forall2 S l (map f l).
Proof. induction 1; cbn [map]; constructor; assumption. Qed.

Lemma SY_fwd_mul rho v l :
  Forall wfR l -> Forall (InDomain rho) l -> Forall (fwd_ok rho v) l -> fwd_ok rho v (Mul l).
Proof.
  intros Hw Hd Hok.
  pose proof (SY_incl_vars_elems l) as Hv.
  assert (Hw' : Forall wfR (map (sfwd v) l)).
  { apply Forall_map. eapply Forall_impl; [|exact Hok]. intros a H; apply H. }
  assert (Hd' : Forall (InDomain rho) (map (sfwd v) l)).
  { apply Forall_map. eapply Forall_impl; [|exact Hok]. intros a H; apply H. }
  assert (Hv' : Forall (fun d => incl (vars d) (flat_map vars l)) (map (sfwd v) l)).
  { apply Forall_map.
    apply (SY_Forall_mp3 (fwd_ok rho v) (fun x => incl (vars x) (flat_map vars l)) _ l);
      [|exact Hok|exact Hv].
    apply Forall_forall. intros a _ (_ & H2 & _) H. eapply incl_tran; eassumption. }
  destruct (SY_mapi_mul rho (flat_map vars l) l Hw Hd Hv (map (sfwd v) l) 0%nat Hw' Hd' Hv')
    as (M1 & M2 & M3 & M4).
  unfold fwd_ok. cbn [synth_fwd]. unfold mapi. sy_split4.
  - apply SY_wf_Add. exact M1.
  - cbn [vars]. apply SY_incl_flat_map. exact M3.
  - apply SY_dom_Add. exact M2.
  - rewrite denote_Add_map, M4.
    apply (tp_mul rho v l (map (denote rho) (map (sfwd v) l))).
    rewrite map_map. apply SY_Forall2_map.
    eapply Forall_impl; [|exact Hok]. intros a H; apply H.
Qed.

Lemma SY_fwd_minus rho v a b :
  fwd_ok rho v a -> fwd_ok rho v b -> fwd_ok rho v (Minus a b).
Proof.
  intros (A1 & A2 & A3 & A4) (B1 & B2 & B3 & B4).
  unfold fwd_ok. cbn [synth_fwd wf vars InDomain denote]. sy_split4.
  - split; assumption.
  - apply incl_app_app; assumption.
  - split; assumption.
  - apply tp_minus; assumption.
Qed.

Lemma SY_fwd_ok rho v : forall e, wfR e -> InDomain rho e -> fwd_ok rho v e.
Proof.
  induction e as [c|x|l IHl|l IHl|a b IHa IHb|a b IHa IHb|a b IHa IHb
                  |a IHa|a IHa|a IHa|a IHa|a n IHa|a n IHa|a b IHa|a b IHa] using expr_ind';
    intros Hwf Hdom.
  - unfold fwd_ok. cbn [synth_fwd wf vars InDomain denote].
    sy_split4; try exact I; [apply incl_refl | apply tp_const].
  - unfold fwd_ok. cbn [synth_fwd]. unfold name_eqb.
    destruct (Pos.eqb x v) eqn:E; cbn [wf vars InDomain denote];
      (sy_split4; try exact I; [intros y [] | ]).
    + apply Pos.eqb_eq in E. subst x. apply tp_var_same.
    + apply Pos.eqb_neq in E. apply tp_var_other. exact E.
  - apply SY_wf_Add in Hwf. apply SY_dom_Add in Hdom.
    apply SY_fwd_add. exact (SY_Forall_mp3 _ _ _ l IHl Hwf Hdom).
  - apply SY_wf_Mul in Hwf. apply SY_dom_Mul in Hdom.
    apply SY_fwd_mul; [exact Hwf | exact Hdom | exact (SY_Forall_mp3 _ _ _ l IHl Hwf Hdom)].
  - destruct Hwf as [Hwa Hwb]. destruct Hdom as [Hda Hdb]. apply SY_fwd_minus; auto.
  - eapply SY_fwd_binary; [apply SY_divide; assumption | reflexivity | exact IHa | exact IHb].
  - eapply SY_fwd_binary; [apply SY_power; assumption | reflexivity | exact IHa | exact IHb].
  - eapply SY_fwd_unary; [apply SY_neg; assumption | reflexivity | exact IHa].
  - eapply SY_fwd_unary; [apply SY_recip; assumption | reflexivity | exact IHa].
  - eapply SY_fwd_unary; [apply SY_sin; assumption | reflexivity | exact IHa].
  - eapply SY_fwd_unary; [apply SY_cos; assumption | reflexivity | exact IHa].
  - eapply SY_fwd_unary; [apply SY_nth_pow; assumption | reflexivity | exact IHa].
  - eapply SY_fwd_unary; [apply SY_nth_root; assumption | reflexivity | exact IHa].
  - eapply SY_fwd_unary; [apply SY_exp; assumption | reflexivity | exact IHa].
  - eapply SY_fwd_unary; [apply SY_log; assumption | reflexivity | exact IHa].
Qed.

Theorem synth_fwd_sound : C05_synth_fwd_sound.
Proof.
  unfold C05_synth_fwd_sound. intros rho e v Hwf Hdom. cbv zeta.
  exact (SY_fwd_ok rho v e Hwf Hdom).
Qed.

(** non-vacuity: a tree with a product, a quotient, a root, a power and a logarithm, in its
    domain at x1 = 2, x2 = 3 *)
Example SY_fwd_example :
  let e := Mul [Var 1%positive; Divide (Var 2%positive) (NthRoot (Var 1%positive) 2%positive);
                Power (Var 1%positive) (Var 2%positive);
                Log (Var 2%positive) 10; Exp (Var 1%positive) 2] in
  let rho := fun x : name => if Pos.eqb x 1%positive then 2 else 3 in
  wfR e /\ InDomain rho e.
Proof.
  cbn [wf InDomain denote fold_right]. cbn [Pos.eqb].
  change (nltb RInst) with Rltb. change (neqb RInst) with Reqb.
  change (n0 RInst) with 0. change (n1 RInst) with 1.
  assert (H2 : root 2 2 <> 0) by (apply SY_root_neq_0; lra).
  repeat split; try (apply Rltb_true; lra); try (apply Reqb_false; lra); try lra; try exact H2.
Qed.

(** ** Reverse route: the accumulator *)

Definition sval (rho : env) (acc : @saccum R) (v : name) : R :=
  match slookup v acc with Some s => denote rho s | None => 0 end.

Definition acc_inv (rho : env) (V : list name) (acc : @saccum R) : Prop :=
  forall x s, slookup x acc = Some s -> wfR s /\ InDomain rho s /\ incl (vars s) V.

Lemma SY_slookup_set (acc : @saccum R) x c y :
  slookup y (sacc_set acc x c) = if name_eqb y x then Some c else slookup y acc.
Proof.
  unfold name_eqb. induction acc as [|[z w] r IH]; cbn [sacc_set slookup]; unfold name_eqb.
  - reflexivity.
  - destruct (Pos.eqb x z) eqn:Exz; cbn [slookup]; unfold name_eqb.
    + apply Pos.eqb_eq in Exz. subst z. destruct (Pos.eqb y x); reflexivity.
    + rewrite IH. destruct (Pos.eqb y z) eqn:Eyz; [|reflexivity].
      apply Pos.eqb_eq in Eyz. subst z.
      destruct (Pos.eqb y x) eqn:Eyx; [|reflexivity].
      apply Pos.eqb_eq in Eyx. subst y. rewrite Pos.eqb_refl in Exz. discriminate.
Qed.

Lemma SY_slookup_add (acc : @saccum R) x c y :
  slookup y (sacc_add acc x c) =
  if name_eqb y x
  then Some (match slookup x acc with Some ex => Add [ex; c] | None => c end)
  else slookup y acc.
Proof. unfold sacc_add. destruct (slookup x acc); apply SY_slookup_set. Qed.

Lemma SY_sacc_add_inv rho V acc x c :
  acc_inv rho V acc -> wfR c -> InDomain rho c -> incl (vars c) V ->
  acc_inv rho V (sacc_add acc x c).
Proof.
  intros Hacc Hw Hd Hv y s. rewrite SY_slookup_add.
  destruct (name_eqb y x); [|apply Hacc].
  intro E. injection E as <-.
  destruct (slookup x acc) as [ex|] eqn:Ex; [|auto].
  destruct (Hacc _ _ Ex) as (E1 & E2 & E3).
  cbn [wf InDomain vars flat_map fold_right]. rewrite app_nil_r.
  repeat split; try assumption. apply incl_app; assumption.
Qed.

Lemma SY_sacc_add_val rho acc x c v :
  sval rho (sacc_add acc x c) v =
  sval rho acc v + (if name_eqb v x then denote rho c else 0).
Proof.
  unfold sval. rewrite SY_slookup_add. unfold name_eqb.
  destruct (Pos.eqb v x) eqn:E; [|ring].
  apply Pos.eqb_eq in E. subst v.
  destruct (slookup x acc); cbn [denote fold_right]; ring.
Qed.

(** the two inner loops of [synth_rev], named *)
Definition rev_add_go (m : expr R) :=
  fix go (l : list (expr R)) (acc : @saccum R) {struct l} : @saccum R :=
    match l with
    | [] => acc
    | x :: r => go r (srev x m acc)
    end.

Definition rev_mul_go (m : expr R) (l : list (expr R)) :=
  fix go (i : nat) (r : list (expr R)) (acc : @saccum R) {struct r} : @saccum R :=
    match r with
    | [] => acc
    | x :: r' => go (S i) r' (srev x (Mul (m :: remove_nth i l)) acc)
    end.

Lemma SY_srev_Add l m acc : srev (Add l) m acc = rev_add_go m l acc.
Proof. reflexivity. Qed.
Lemma SY_srev_Mul l m acc : srev (Mul l) m acc = rev_mul_go m l 0 l acc.
Proof. reflexivity. Qed.

(** [e] pushed with multiplier [m] into [acc]: the invariant is kept and every entry grows by
    [denote rho m * (true partial of e)] *)
Definition rev_ok (rho : env) (V : list name) (e : expr R) : Prop :=
  forall m acc, wfR m -> InDomain rho m -> incl (vars m) V -> acc_inv rho V acc ->
    acc_inv rho V (srev e m acc) /\
    forall v d, true_partial rho e v d ->
      sval rho (srev e m acc) v = sval rho acc v + denote rho m * d.

Lemma SY_tp_fwd rho v e : wfR e -> InDomain rho e ->
  true_partial rho e v (denote rho (sfwd v e)).
Proof. intros Hw Hd. apply (SY_fwd_ok rho v e Hw Hd). Qed.

Lemma SY_rev_unary rho V e a :
  unary_spec rho e a -> (forall m acc, srev e m acc = srev a (suf e m) acc) ->
  incl (vars e) V ->
  (wfR a -> InDomain rho a -> incl (vars a) V -> rev_ok rho V a) -> rev_ok rho V e.
Proof.
  intros (Hwa & Hda & Hv & k & Hm & Htp) E HV IH m acc Hwm Hdm Hvm Hacc.
  rewrite Hv in HV.
  destruct (Hm _ Hwm Hdm) as (M1 & M2 & M3 & M4).
  assert (M2' : incl (vars (suf e m)) V).
  { intros x Hx. apply M2 in Hx. apply in_app_or in Hx. destruct Hx; auto. }
  destruct (IH Hwa Hda HV (suf e m) acc M1 M3 M2' Hacc) as [I1 I2].
  rewrite E. split; [exact I1|].
  intros v d Hd.
  pose proof (SY_tp_fwd rho v a Hwa Hda) as Ha.
  rewrite (I2 v _ Ha), M4.
  rewrite (tp_unique rho v e _ _ Hd (Htp v _ Ha)). ring.
Qed.

Lemma SY_rev_binary rho V e a b fl fr :
  binary_spec rho e a b fl fr ->
  (forall m acc, srev e m acc = srev b (fr m) (srev a (fl m) acc)) ->
  incl (vars e) V ->
  (wfR a -> InDomain rho a -> incl (vars a) V -> rev_ok rho V a) ->
  (wfR b -> InDomain rho b -> incl (vars b) V -> rev_ok rho V b) -> rev_ok rho V e.
Proof.
  intros (Hwa & Hwb & Hda & Hdb & Hv & ka & kb & Hl & Hr & Htp) E HV IHa IHb
         m acc Hwm Hdm Hvm Hacc.
  assert (HVa : incl (vars a) V).
  { intros x Hx. apply HV. rewrite Hv. apply in_or_app; auto. }
  assert (HVb : incl (vars b) V).
  { intros x Hx. apply HV. rewrite Hv. apply in_or_app; auto. }
  destruct (Hl _ Hwm Hdm) as (L1 & L2 & L3 & L4).
  destruct (Hr _ Hwm Hdm) as (R1 & R2 & R3 & R4).
  assert (L2' : incl (vars (fl m)) V).
  { intros x Hx. apply L2 in Hx. apply in_app_or in Hx. destruct Hx; auto. }
  assert (R2' : incl (vars (fr m)) V).
  { intros x Hx. apply R2 in Hx. apply in_app_or in Hx. destruct Hx; auto. }
  destruct (IHa Hwa Hda HVa (fl m) acc L1 L3 L2' Hacc) as [A1 A2].
  destruct (IHb Hwb Hdb HVb (fr m) _ R1 R3 R2' A1) as [B1 B2].
  rewrite E. split; [exact B1|].
  intros v d Hd.
  pose proof (SY_tp_fwd rho v a Hwa Hda) as Ha.
  pose proof (SY_tp_fwd rho v b Hwb Hdb) as Hb.
  rewrite (B2 v _ Hb), (A2 v _ Ha), L4, R4.
  rewrite (tp_unique rho v e _ _ Hd (Htp v _ _ Ha Hb)). ring.
Qed.

Lemma SY_rev_const rho V c : rev_ok rho V (Const c).
Proof.
  intros m acc Hwm Hdm Hvm Hacc. cbn [synth_rev]. split; [exact Hacc|].
  intros v d Hd. rewrite (tp_unique rho v _ _ _ Hd (tp_const rho v c)). ring.
Qed.

Lemma SY_rev_var rho V x : rev_ok rho V (Var x).
Proof.
  intros m acc Hwm Hdm Hvm Hacc. cbn [synth_rev]. split.
  - apply SY_sacc_add_inv; assumption.
  - intros v d Hd. rewrite SY_sacc_add_val. unfold name_eqb.
    destruct (Pos.eqb v x) eqn:E.
    + apply Pos.eqb_eq in E. subst x.
      rewrite (tp_unique rho v _ _ _ Hd (tp_var_same rho v)). ring.
    + apply Pos.eqb_neq in E.
      assert (E' : x <> v) by congruence.
      rewrite (tp_unique rho v _ _ _ Hd (tp_var_other rho v x E')). ring.
Qed.

Lemma SY_rev_minus rho V a b :
  wfR (Minus a b) -> InDomain rho (Minus a b) ->
  rev_ok rho V a -> rev_ok rho V b -> rev_ok rho V (Minus a b).
Proof.
  intros [Hwa Hwb] [Hda Hdb] IHa IHb m acc Hwm Hdm Hvm Hacc. cbn [synth_rev].
  destruct (IHa m acc Hwm Hdm Hvm Hacc) as [A1 A2].
  destruct (IHb (Neg m) _ Hwm Hdm Hvm A1) as [B1 B2].
  split; [exact B1|].
  intros v d Hd.
  pose proof (SY_tp_fwd rho v a Hwa Hda) as Ha.
  pose proof (SY_tp_fwd rho v b Hwb Hdb) as Hb.
  rewrite (B2 v _ Hb), (A2 v _ Ha).
  rewrite (tp_unique rho v _ _ _ Hd (tp_minus rho v a b _ _ Ha Hb)).
  cbn [denote]. ring.
Qed.

Lemma SY_rev_add_go rho V m :
  wfR m -> InDomain rho m -> incl (vars m) V ->
  forall l, Forall (rev_ok rho V) l ->
  forall acc, acc_inv rho V acc ->
    acc_inv rho V (rev_add_go m l acc) /\
    forall v ds, Forall2 (fun a d => true_partial rho a v d) l ds ->
      sval rho (rev_add_go m l acc) v = sval rho acc v + denote rho m * fold_right Rplus 0 ds.
Proof.
  intros Hwm Hdm Hvm. induction 1 as [|x r Hx Hr IH]; intros acc Hacc.
  - cbn [rev_add_go]. split; [exact Hacc|].
    intros v ds H. inversion H; subst. cbn [fold_right]. ring.
  - change (rev_add_go m (x :: r) acc) with (rev_add_go m r (srev x m acc)).
    destruct (Hx m acc Hwm Hdm Hvm Hacc) as [X1 X2].
    destruct (IH _ X1) as [I1 I2].
    split; [exact I1|].
    intros v ds H. inversion H as [|? d ? ds' Hd Hds]; subst.
    rewrite (I2 v _ Hds), (X2 v _ Hd). cbn [fold_right]. ring.
Qed.

Lemma SY_rev_mul_go rho V m l :
  Forall wfR l -> Forall (InDomain rho) l -> Forall (fun x => incl (vars x) V) l ->
  wfR m -> InDomain rho m -> incl (vars m) V ->
  forall r, Forall (rev_ok rho V) r ->
  forall i acc, acc_inv rho V acc ->
    acc_inv rho V (rev_mul_go m l i r acc) /\
    forall v ds, Forall2 (fun a d => true_partial rho a v d) r ds ->
      sval rho (rev_mul_go m l i r acc) v =
      sval rho acc v + denote rho m *
        fold_right Rplus 0
          (mapi_from i (fun i d => fold_right Rmult 1 (d :: remove_nth i (map (denote rho) l))) ds).
Proof.
  intros Hw Hd Hv Hwm Hdm Hvm. induction 1 as [|x r Hx Hr IH]; intros i acc Hacc.
  - cbn [rev_mul_go]. split; [exact Hacc|].
    intros v ds H. inversion H; subst. cbn [mapi_from fold_right]. ring.
  - change (rev_mul_go m l i (x :: r) acc)
      with (rev_mul_go m l (S i) r (srev x (Mul (m :: remove_nth i l)) acc)).
    destruct (SY_mul_cons_ok rho V l m i Hw Hd Hv Hwm Hdm Hvm) as (M1 & M2 & M3 & M4).
    destruct (Hx _ acc M1 M2 M3 Hacc) as [X1 X2].
    destruct (IH (S i) _ X1) as [I1 I2].
    split; [exact I1|].
    intros v ds H. inversion H as [|? d ? ds' Hd' Hds]; subst.
    rewrite (I2 v _ Hds), (X2 v _ Hd'), M4. cbn [mapi_from fold_right]. ring.
Qed.

Lemma SY_Forall_mp4 {A} (P Q S U : A -> Prop) (l : list A) :
  Forall (fun x => P x -> Q x -> S x -> U x) l ->
  Forall P l -> Forall Q l -> Forall S l -> Forall U l.
Proof.
  induction 1 as [|a l Ha Hl IH]; intros HP HQ HS; constructor;
    inversion HP; inversion HQ; inversion HS; subst; auto.
Qed.

Lemma SY_Forall2_fwd rho v l :
  Forall wfR l -> Forall (InDomain rho) l ->
  Forall2 (fun a d => true_partial rho a v d) l (map (fun x => denote rho (sfwd v x)) l).
Proof.
  intros Hw Hd. apply SY_Forall2_map.
  apply (SY_Forall_mp3 wfR (InDomain rho) _ l); [|exact Hw|exact Hd].
  apply Forall_forall. intros a _ Ha1 Ha2. apply SY_tp_fwd; assumption.
Qed.

Lemma SY_rev_ok rho V : forall e, wfR e -> InDomain rho e -> incl (vars e) V -> rev_ok rho V e.
Proof.
  induction e as [c|x|l IHl|l IHl|a b IHa IHb|a b IHa IHb|a b IHa IHb
                  |a IHa|a IHa|a IHa|a IHa|a n IHa|a n IHa|a b IHa|a b IHa] using expr_ind';
    intros Hwf Hdom HV.
  - apply SY_rev_const.
  - apply SY_rev_var.
  - apply SY_wf_Add in Hwf. apply SY_dom_Add in Hdom.
    cbn [vars] in HV. apply SY_incl_flat_map in HV.
    pose proof (SY_Forall_mp4 _ _ _ _ l IHl Hwf Hdom HV) as Hok.
    intros m acc Hwm Hdm Hvm Hacc. rewrite SY_srev_Add.
    destruct (SY_rev_add_go rho V m Hwm Hdm Hvm l Hok acc Hacc) as [G1 G2].
    split; [exact G1|].
    intros v d Hd.
    pose proof (SY_Forall2_fwd rho v l Hwf Hdom) as HF.
    rewrite (G2 v _ HF).
    rewrite (tp_unique rho v _ _ _ Hd (tp_add rho v l _ HF)). reflexivity.
  - apply SY_wf_Mul in Hwf. apply SY_dom_Mul in Hdom.
    cbn [vars] in HV. apply SY_incl_flat_map in HV.
    pose proof (SY_Forall_mp4 _ _ _ _ l IHl Hwf Hdom HV) as Hok.
    intros m acc Hwm Hdm Hvm Hacc. rewrite SY_srev_Mul.
    destruct (SY_rev_mul_go rho V m l Hwf Hdom HV Hwm Hdm Hvm l Hok 0%nat acc Hacc) as [G1 G2].
    split; [exact G1|].
    intros v d Hd.
    pose proof (SY_Forall2_fwd rho v l Hwf Hdom) as HF.
    rewrite (G2 v _ HF).
    rewrite (tp_unique rho v _ _ _ Hd (tp_mul rho v l _ HF)). reflexivity.
  - pose proof Hwf as [Hwa Hwb]. pose proof Hdom as [Hda Hdb].
    cbn [vars] in HV.
    apply SY_rev_minus; try assumption.
    + apply IHa; try assumption. intros y Hy. apply HV, in_or_app; auto.
    + apply IHb; try assumption. intros y Hy. apply HV, in_or_app; auto.
  - eapply SY_rev_binary;
      [apply SY_divide; assumption | reflexivity | exact HV | exact IHa | exact IHb].
  - eapply SY_rev_binary;
      [apply SY_power; assumption | reflexivity | exact HV | exact IHa | exact IHb].
  - eapply SY_rev_unary; [apply SY_neg; assumption | reflexivity | exact HV | exact IHa].
  - eapply SY_rev_unary; [apply SY_recip; assumption | reflexivity | exact HV | exact IHa].
  - eapply SY_rev_unary; [apply SY_sin; assumption | reflexivity | exact HV | exact IHa].
  - eapply SY_rev_unary; [apply SY_cos; assumption | reflexivity | exact HV | exact IHa].
  - eapply SY_rev_unary; [apply SY_nth_pow; assumption | reflexivity | exact HV | exact IHa].
  - eapply SY_rev_unary; [apply SY_nth_root; assumption | reflexivity | exact HV | exact IHa].
  - eapply SY_rev_unary; [apply SY_exp; assumption | reflexivity | exact HV | exact IHa].
  - eapply SY_rev_unary; [apply SY_log; assumption | reflexivity | exact HV | exact IHa].
Qed.

Lemma SY_slookup_for (A : @saccum R) (enum : list name) (v : name) :
  In v enum ->
  slookup v (synthetic_partials_for RInst A enum) =
  Some (match slookup v A with Some w => w | None => Const 0 end).
Proof.
  unfold synthetic_partials_for.
  induction enum as [|x enum IH]; intro H; [destruct H|].
  cbn [map slookup]. unfold name_eqb. destruct (Pos.eqb v x) eqn:E.
  - apply Pos.eqb_eq in E. subst x. reflexivity.
  - apply Pos.eqb_neq in E. destruct H as [H|H]; [congruence|]. apply IH, H.
Qed.

Theorem synth_rev_sound : C05_synth_rev_sound.
Proof.
  unfold C05_synth_rev_sound. intros rho e enum v Hwf Hdom Hin.
  unfold synthetic_partials. rewrite SY_slookup_for by exact Hin.
  eexists; split; [reflexivity|].
  assert (Hnil : acc_inv rho (vars e) []).
  { intros x s H. discriminate H. }
  destruct (SY_rev_ok rho (vars e) e Hwf Hdom (incl_refl _) (Const 1) []
              I I (fun x (H : In x []) => match H with end) Hnil) as [Hinv Hval].
  pose proof (SY_tp_fwd rho v e Hwf Hdom) as Htp.
  specialize (Hval v _ Htp).
  unfold sval in Hval. cbn [slookup denote] in Hval.
  change (Const (n1 RInst)) with (Const 1).
  destruct (slookup v (srev e (Const 1) [])) as [w|] eqn:Ew.
  - destruct (Hinv _ _ Ew) as (W1 & W2 & W3).
    sy_split4; try assumption.
    eapply tp_ext_value; [exact Htp | rewrite Hval; ring].
  - cbn [wf InDomain vars denote]. sy_split4; try exact I; [intros x [] | ].
    eapply tp_ext_value; [exact Htp | ]. change (n0 RInst) with 0. lra.
Qed.

(** non-vacuity of the reverse statement: same tree, both variables enumerated *)
Example SY_rev_example :
  let e := Mul [Var 1%positive; Divide (Var 2%positive) (NthRoot (Var 1%positive) 2%positive);
                Power (Var 1%positive) (Var 2%positive);
                Log (Var 2%positive) 10; Exp (Var 1%positive) 2] in
  let rho := fun x : name => if Pos.eqb x 1%positive then 2 else 3 in
  wfR e /\ InDomain rho e /\ In 2%positive [1%positive; 2%positive].
Proof.
  pose proof SY_fwd_example as [H1 H2]. cbv zeta.
  split; [exact H1 | split; [exact H2 | right; left; reflexivity]].
Qed.

Print Assumptions synth_fwd_sound.
Print Assumptions synth_rev_sound.
