(** * Termination: the rewriting simplifier of Driver.v terminates (C11).

    A measure [mu : expr T -> nat * nat * nat * nat] into the lexicographic order [lt4]
    (well founded) strictly decreases with every [step], for EVERY number interface [N]
    (nothing in the argument depends on what the numbers are).

      mu e = ( #Power nodes,
               #{Power, NthPow, NthRoot, Exp, Log} nodes,
               sum of n over the NthPow / NthRoot nodes,
               W e )

    with the polynomial weight [W] below.  From this: [terminates], [no_revisit]; and
    [rule_free] by induction following [step_named]. *)
From Coq Require Import String Rdefinitions.
From Coq Require Import ZArith List Bool Lia Arith Wf_nat Wellfounded.
From SM Require Import Num Syntax Outcome MathFun Eval Rules Driver RInst Spec.
Import ListNotations.
Open Scope list_scope.
Open Scope nat_scope.

(** ** The lexicographic order on quadruples of naturals *)
Definition lt4 (x y : nat * nat * nat * nat) : Prop :=
  let '(a1, b1, c1, d1) := x in
  let '(a2, b2, c2, d2) := y in
  a1 < a2 \/ (a1 = a2 /\ (b1 < b2 \/ (b1 = b2 /\ (c1 < c2 \/ (c1 = c2 /\ d1 < d2))))).

Lemma lt4_wf : well_founded lt4.
Proof.
  intros [[[a b] c] d]. revert b c d.
  induction a as [a IHa] using lt_wf_ind. intros b.
  induction b as [b IHb] using lt_wf_ind. intros c.
  induction c as [c IHc] using lt_wf_ind. intros d.
  induction d as [d IHd] using lt_wf_ind.
  constructor. intros [[[a' b'] c'] d'] H. cbn in H.
  destruct H as [H | [-> [H | [-> [H | [-> H]]]]]].
  - apply IHa; exact H.
  - apply IHb; exact H.
  - apply IHc; exact H.
  - apply IHd; exact H.
Qed.

Lemma lt4_trans x y z : lt4 x y -> lt4 y z -> lt4 x z.
Proof.
  destruct x as [[[a1 b1] c1] d1], y as [[[a2 b2] c2] d2], z as [[[a3 b3] c3] d3].
  cbn. lia.
Qed.

Lemma lt4_irrefl x : ~ lt4 x x.
Proof. destruct x as [[[a b] c] d]. cbn. lia. Qed.

Lemma lt4_1 a b c d a' b' c' d' : a' < a -> lt4 (a', b', c', d') (a, b, c, d).
Proof. cbn; lia. Qed.
Lemma lt4_2 a b c d a' b' c' d' : a' <= a -> b' < b -> lt4 (a', b', c', d') (a, b, c, d).
Proof. cbn; lia. Qed.
Lemma lt4_3 a b c d a' b' c' d' :
  a' <= a -> b' <= b -> c' < c -> lt4 (a', b', c', d') (a, b, c, d).
Proof. cbn; lia. Qed.
Lemma lt4_4 a b c d a' b' c' d' :
  a' <= a -> b' <= b -> c' <= c -> d' < d -> lt4 (a', b', c', d') (a, b, c, d).
Proof. cbn; lia. Qed.

(** ** Sums over lists *)
Definition lsum {A} (f : A -> nat) : list A -> nat :=
  fix go l := match l with [] => 0 | x :: r => f x + go r end.

Section ListSums.
  Context {A : Type}.
  Implicit Types (f g : A -> nat) (p : A -> bool) (l : list A).

  Lemma lsum_app f l1 l2 : lsum f (l1 ++ l2) = lsum f l1 + lsum f l2.
  Proof. induction l1 as [|x r IH]; cbn [lsum app]; lia. Qed.

  Lemma lsum_ext_in f g l : (forall x, In x l -> f x = g x) -> lsum f l = lsum g l.
  Proof.
    induction l as [|x r IH]; intros H; cbn [lsum]; [reflexivity|].
    rewrite (H x (or_introl eq_refl)), IH; [reflexivity|].
    intros y Hy; apply H; right; exact Hy.
  Qed.

  Lemma lsum_partition f p l :
    lsum f (filter p l) + lsum f (filter (fun x => negb (p x)) l) = lsum f l.
  Proof.
    induction l as [|x r IH]; cbn [lsum filter]; [reflexivity|].
    destruct (p x); cbn [negb lsum]; lia.
  Qed.

  Lemma length_partition p l :
    length (filter p l) + length (filter (fun x => negb (p x)) l) = length l.
  Proof.
    induction l as [|x r IH]; cbn [length filter]; [reflexivity|].
    destruct (p x); cbn [negb length]; lia.
  Qed.

  Lemma lsum_filter_le f p l : lsum f (filter p l) <= lsum f l.
  Proof.
    induction l as [|x r IH]; cbn [lsum filter]; [lia|].
    destruct (p x); cbn [lsum]; lia.
  Qed.

  Lemma lsum_ge_length f l : (forall x, 1 <= f x) -> length l <= lsum f l.
  Proof.
    intros H; induction l as [|x r IH]; cbn [lsum length]; [lia|].
    specialize (H x); lia.
  Qed.

  Lemma lsum_plus f g l : lsum (fun x => f x + g x) l = lsum f l + lsum g l.
  Proof. induction l as [|x r IH]; cbn [lsum]; lia. Qed.

  Lemma lsum_const (k : nat) l : lsum (fun _ => k) l = k * length l.
  Proof. induction l as [|x r IH]; cbn [lsum length]; lia. Qed.

  Lemma lsum_scal (k : nat) f l : lsum (fun x => k * f x) l = k * lsum f l.
  Proof. induction l as [|x r IH]; cbn [lsum]; lia. Qed.
End ListSums.

Lemma lsum_map {A B} (f : B -> nat) (h : A -> B) (l : list A) :
  lsum f (map h l) = lsum (fun x => f (h x)) l.
Proof. induction l as [|x r IH]; cbn [lsum map]; [reflexivity|]. rewrite IH; reflexivity. Qed.

(** ** group_by_key: the groups partition the input; every group is non-empty *)
Section Groups.
  Context {K V : Type} (keqb : K -> K -> bool).
  Implicit Types (F : V -> nat) (g : list (K * list V)).

  Definition tot F g : nat := lsum (fun kv : K * list V => lsum F (snd kv)) g.
  Definition nonempty_groups g : Prop := Forall (fun kv : K * list V => 1 <= length (snd kv)) g.

  Lemma tot_group_insert F k v g : tot F (group_insert keqb k v g) = tot F g + F v.
  Proof.
    unfold tot. induction g as [|[k' vs] r IH]; cbn [group_insert lsum snd].
    - lia.
    - destruct (keqb k k'); cbn [lsum snd].
      + rewrite lsum_app. cbn [lsum]. lia.
      + rewrite IH. lia.
  Qed.

  Lemma nonempty_group_insert k v g :
    nonempty_groups g -> nonempty_groups (group_insert keqb k v g).
  Proof.
    unfold nonempty_groups.
    induction g as [|[k' vs] r IH]; intros H; cbn [group_insert].
    - constructor; [cbn; lia | constructor].
    - inversion H as [|x y Hx Hy]; subst.
      destruct (keqb k k').
      + constructor; [|exact Hy]. cbn [snd]. rewrite app_length. cbn [length]. lia.
      + constructor; [exact Hx | apply IH; exact Hy].
  Qed.

  Lemma tot_fold F (key : V -> K) l g :
    tot F (fold_left (fun g v => group_insert keqb (key v) v g) l g) = tot F g + lsum F l.
  Proof.
    revert g; induction l as [|x r IH]; intros g; cbn [fold_left lsum]; [lia|].
    rewrite IH, tot_group_insert. lia.
  Qed.

  Lemma nonempty_fold (key : V -> K) l g :
    nonempty_groups g ->
    nonempty_groups (fold_left (fun g v => group_insert keqb (key v) v g) l g).
  Proof.
    revert g; induction l as [|x r IH]; intros g H; cbn [fold_left]; [exact H|].
    apply IH, nonempty_group_insert, H.
  Qed.

  Lemma tot_group_by_key F (key : V -> K) l : tot F (group_by_key keqb key l) = lsum F l.
  Proof. unfold group_by_key. rewrite tot_fold. cbn. reflexivity. Qed.

  Lemma nonempty_group_by_key (key : V -> K) l : nonempty_groups (group_by_key keqb key l).
  Proof. unfold group_by_key. apply nonempty_fold. constructor. Qed.

  (* fewer groups than members as soon as one group has two members *)
  Lemma groups_lt_members g :
    nonempty_groups g -> all_singletons g = false ->
    length g < tot (fun _ => 1) g.
  Proof.
    unfold nonempty_groups, all_singletons, tot.
    induction g as [|[k vs] r IH]; intros Hne Hs; cbn [forallb] in Hs; [discriminate|].
    inversion Hne as [|x y Hx Hy]; subst. cbn [snd] in *.
    cbn [length lsum snd]. rewrite lsum_const.
    destruct (Nat.leb (length vs) 1) eqn:El; cbn [andb] in Hs.
    - specialize (IH Hy Hs). lia.
    - apply Nat.leb_gt in El.
      assert (length r <= lsum (fun kv : K * list V => lsum (fun _ : V => 1) (snd kv)) r).
      { clear -Hy. induction Hy as [|x l Hx Hl IHl]; cbn [length lsum]; [lia|].
        rewrite lsum_const. lia. }
      lia.
  Qed.

  Lemma group_by_key_fewer (key : V -> K) l :
    all_singletons (group_by_key keqb key l) = false ->
    length (group_by_key keqb key l) < length l.
  Proof.
    intros H.
    pose proof (groups_lt_members _ (nonempty_group_by_key key l) H) as H1.
    rewrite tot_group_by_key, lsum_const in H1. lia.
  Qed.
End Groups.

Section Measure.
  Context {T : Type} (N : NumOps T).
  Notation E := (expr T).

  (** sum over all nodes of a node-local quantity [g] *)
  Section NodeSum.
    Variable g : E -> nat.
    Fixpoint ns (e : E) : nat :=
      g e + match e with
            | Const _ | Var _ => 0
            | Add l | Mul l => lsum ns l
            | Minus a b | Divide a b | Power a b => ns a + ns b
            | Neg a | Recip a | Sin a | Cos a | NthPow a _ | NthRoot a _ | Exp a _ | Log a _ =>
                ns a
            end.
  End NodeSum.

  Definition g1 (e : E) : nat := match e with Power _ _ => 1 | _ => 0 end.
  Definition g2 (e : E) : nat :=
    match e with Power _ _ | NthPow _ _ | NthRoot _ _ | Exp _ _ | Log _ _ => 1 | _ => 0 end.
  Definition g3 (e : E) : nat :=
    match e with NthPow _ n | NthRoot _ n => Pos.to_nat n | _ => 0 end.

  (** the polynomial weight *)
  Fixpoint W (e : E) : nat :=
    match e with
    | Const _ | Var _ => 1
    | Add l => lsum W l + 3 * length l + 2
    | Mul l => lsum W l + 2 * length l + 2
    | Minus a b => W a + 2 * W b + 12
    | Divide a b => W a + 3 * W b + 8
    | Power a b => W a * W a * (W b * W b) + 1
    | Neg a => 2 * W a + 3
    | Recip a => 3 * W a + 1
    | Sin a | Cos a | NthRoot a _ | Log a _ => 2 * W a
    | NthPow a _ => 4 * W a + 1
    | Exp a _ => W a * W a + 1
    end.

  Definition mu (e : E) : nat * nat * nat * nat := (ns g1 e, ns g2 e, ns g3 e, W e).
  Definition lt_mu := lt4.

  Lemma W_pos e : 1 <= W e.
  Proof. induction e; cbn [W]; lia. Qed.

  Lemma lsumW_ge l : length l <= lsum W l.
  Proof. apply lsum_ge_length, W_pos. Qed.

  Lemma split_first_spec (f : E -> bool) l b h a :
    split_first f l = Some (b, h, a) -> l = b ++ h :: a /\ f h = true.
  Proof.
    revert b; induction l as [|x r IH]; intros b H; cbn [split_first] in H; [discriminate|].
    destruct (f x) eqn:Ex.
    - inversion H; subst. split; [reflexivity | exact Ex].
    - destruct (split_first f r) as [[[b' h'] a']|]; [|discriminate].
      inversion H; subst. destruct (IH b' eq_refl) as [-> Hh]. split; [reflexivity | exact Hh].
  Qed.

  Lemma filter_length_le' (p : E -> bool) l : length (filter p l) <= length l.
  Proof. induction l as [|x r IH]; cbn [filter length]; [lia|]. destruct (p x); cbn [length]; lia. Qed.

  Lemma lsum_filter_lt (f : E -> nat) (p : E -> bool) l :
    (forall x, 1 <= f x) -> length (filter p l) <> length l -> lsum f (filter p l) < lsum f l.
  Proof.
    intros Hf. induction l as [|x r IH]; cbn [filter length lsum]; intros H; [congruence|].
    destruct (p x); cbn [length lsum] in *.
    - assert (length (filter p r) <> length r) as H' by lia. specialize (IH H'). lia.
    - pose proof (lsum_filter_le f p r). specialize (Hf x). lia.
  Qed.

  Lemma lsum_filter_ext (f g : E -> nat) (p : E -> bool) l :
    (forall x, p x = true -> f x = g x) -> lsum f (filter p l) = lsum g (filter p l).
  Proof. intros H. apply lsum_ext_in. intros x Hx. apply filter_In in Hx. apply H, Hx. Qed.

  Lemma lsum_affine (a b : nat) (f : E -> nat) l :
    lsum (fun x => a * f x + b) l = a * lsum f l + b * length l.
  Proof. induction l as [|x r IH]; cbn [lsum length]; lia. Qed.

  Lemma lsum_map_ns g (C : E -> E) l :
    (forall x, ns g (C x) = ns g x) -> lsum (ns g) (map C l) = lsum (ns g) l.
  Proof. intros H. rewrite lsum_map. apply lsum_ext_in. intros x _. apply H. Qed.

  Lemma lsum_map_W (C : E -> E) (a b : nat) l :
    (forall x, W (C x) = a * W x + b) ->
    lsum W (map C l) = a * lsum W l + b * length l.
  Proof.
    intros H. rewrite lsum_map, <- lsum_affine. apply lsum_ext_in. intros x _. apply H.
  Qed.

  Lemma lsum_inner_ns g (p : E -> bool) l :
    (forall x, p x = true -> ns g x = ns g (inner_of x)) ->
    lsum (ns g) (map inner_of (filter p l)) = lsum (ns g) (filter p l).
  Proof.
    intros H. rewrite lsum_map. symmetry. apply lsum_filter_ext. exact H.
  Qed.

  Lemma lsum_inner_W (p : E -> bool) (a b : nat) l :
    (forall x, p x = true -> W x = a * W (inner_of x) + b) ->
    lsum W (filter p l) = a * lsum W (map inner_of (filter p l)) + b * length (filter p l).
  Proof.
    intros H. rewrite lsum_map, <- lsum_affine. apply lsum_filter_ext. exact H.
  Qed.

  Ltac crunch :=
    unfold mu;
    repeat (progress (cbn [ns g1 g2 g3 W lsum length];
                      rewrite ?lsum_app, ?app_length, ?map_length)).
  Ltac inv H := inversion H; subst; clear H.
  Ltac break H :=
    repeat (cbv beta iota in H;
            match type of H with
            | context [match ?x with _ => _ end] => destruct x; try discriminate H
            end).
  Ltac wpos :=
    repeat match goal with
           | |- context [W ?a] =>
               lazymatch goal with
               | _ : 1 <= W a |- _ => fail
               | _ => pose proof (W_pos a)
               end
           end.
  Ltac fin :=
    first [ apply lt4_1; lia
          | apply lt4_2; [lia | lia]
          | apply lt4_3; [lia | lia | lia]
          | apply lt4_4; [lia | lia | lia | wpos; nia] ].
  Ltac simple_rule H := break H; inv H; crunch; fin.

  (** ** Add *)
  Lemma mu_flattening_nested_sums e e' :
    reduce_by_flattening_nested_sums e = Some e' -> lt4 (mu e') (mu e).
  Proof.
    unfold reduce_by_flattening_nested_sums. destruct e; try discriminate.
    destruct (split_first is_Add l) as [[[b h] a]|] eqn:Es; [|discriminate].
    apply split_first_spec in Es. destruct Es as [-> _].
    destruct h; try discriminate. intros H; inv H.
    crunch. fin.
  Qed.

  Lemma mu_sum_by_eliminating_zeros e e' :
    reduce_sum_by_eliminating_zeros N e = Some e' -> lt4 (mu e') (mu e).
  Proof.
    unfold reduce_sum_by_eliminating_zeros. destruct e; try discriminate.
    set (p := fun x : E => negb (is_const_eq N (n0 N) x)).
    destruct (Nat.eqb (length (filter p l)) (length l)) eqn:El; [discriminate|].
    apply Nat.eqb_neq in El. intros H; inv H. crunch.
    pose proof (lsum_filter_lt W p l W_pos El).
    pose proof (filter_length_le' p l).
    pose proof (lsum_filter_le (ns g1) p l).
    pose proof (lsum_filter_le (ns g2) p l).
    pose proof (lsum_filter_le (ns g3) p l).
    apply lt4_4; lia.
  Qed.

  (* the four grouping rules *)
  Lemma group_rule {K} (keqb : K -> K -> bool) (key : E -> K) (p : E -> bool)
        (wrap : K * list E -> E) (g : E -> nat) (h : nat) l :
    (forall x, p x = true -> ns g x = h + ns g (inner_of x)) ->
    (forall kv, ns g (wrap kv) = h + lsum (ns g) (map inner_of (snd kv))) ->
    lsum (ns g) (filter (fun x => negb (p x)) l ++
                 map wrap (group_by_key keqb key (filter p l)))
      + h * length (filter p l)
    = lsum (ns g) l + h * length (group_by_key keqb key (filter p l)).
  Proof.
    intros Hp Hw. rewrite lsum_app, lsum_map.
    rewrite (lsum_ext_in (fun kv => ns g (wrap kv))
                         (fun kv => h + lsum (fun x => ns g (inner_of x)) (snd kv))).
    2:{ intros kv _. rewrite Hw, lsum_map. reflexivity. }
    rewrite lsum_plus, lsum_const.
    change (lsum (fun kv : K * list E => lsum (fun x => ns g (inner_of x)) (snd kv))
                 (group_by_key keqb key (filter p l)))
      with (tot (fun x => ns g (inner_of x)) (group_by_key keqb key (filter p l))).
    rewrite tot_group_by_key.
    rewrite <- (lsum_partition (ns g) p l).
    rewrite (lsum_filter_ext (ns g) (fun x => h + ns g (inner_of x)) p l Hp).
    rewrite lsum_plus, lsum_const. lia.
  Qed.

  Lemma group_rule_mu {K} (keqb : K -> K -> bool) (key : E -> K) (p : E -> bool)
        (wrap : K * list E -> E) l w w' :
    (forall x, p x = true ->
               ns g1 x = 0 + ns g1 (inner_of x) /\ ns g2 x = 1 + ns g2 (inner_of x)) ->
    (forall kv, ns g1 (wrap kv) = 0 + lsum (ns g1) (map inner_of (snd kv)) /\
                ns g2 (wrap kv) = 1 + lsum (ns g2) (map inner_of (snd kv))) ->
    all_singletons (group_by_key keqb key (filter p l)) = false ->
    forall c3 c3',
    lt4 (lsum (ns g1) (filter (fun x => negb (p x)) l ++
                       map wrap (group_by_key keqb key (filter p l))),
         lsum (ns g2) (filter (fun x => negb (p x)) l ++
                       map wrap (group_by_key keqb key (filter p l))), c3', w')
        (lsum (ns g1) l, lsum (ns g2) l, c3, w).
  Proof.
    intros Hp Hw Hs c3 c3'.
    pose proof (group_rule keqb key p wrap g1 0 l
                           (fun x Hx => proj1 (Hp x Hx)) (fun kv => proj1 (Hw kv))) as H1.
    pose proof (group_rule keqb key p wrap g2 1 l
                           (fun x Hx => proj2 (Hp x Hx)) (fun kv => proj2 (Hw kv))) as H2.
    pose proof (group_by_key_fewer keqb key (filter p l) Hs) as H3.
    apply lt4_2; lia.
  Qed.

  Lemma mu_sum_by_consolidating_logarithms e e' :
    reduce_sum_by_consolidating_logarithms N e = Some e' -> lt4 (mu e') (mu e).
  Proof.
    unfold reduce_sum_by_consolidating_logarithms, partition_by. destruct e; try discriminate.
    cbv beta iota.
    destruct (Nat.leb (length (filter is_Log l)) 1); [discriminate|].
    destruct (all_singletons (group_by_key (neqb N) (base_of N) (filter is_Log l))) eqn:Es;
      [discriminate|].
    intros H; inv H. unfold mu. cbn [ns g1 g2 g3 W]. cbn [Nat.add].
    apply group_rule_mu; [| |exact Es].
    - intros x Hx. destruct x; try discriminate Hx. cbn [ns g1 g2 inner_of]. lia.
    - intros kv. cbn [ns g1 g2]. lia.
  Qed.

  Lemma mu_sum_by_consolidating_constants e e' :
    reduce_sum_by_consolidating_constants N e = Some e' -> lt4 (mu e') (mu e).
  Proof.
    unfold reduce_sum_by_consolidating_constants, partition_by. destruct e; try discriminate.
    cbv beta iota.
    destruct (Nat.leb (length (filter is_Const l)) 1) eqn:El; [discriminate|].
    apply Nat.leb_gt in El. intros H; inv H. crunch.
    pose proof (lsum_partition W is_Const l).
    pose proof (length_partition is_Const l).
    pose proof (lsumW_ge (filter is_Const l)).
    pose proof (lsum_partition (ns g1) is_Const l).
    pose proof (lsum_partition (ns g2) is_Const l).
    pose proof (lsum_partition (ns g3) is_Const l).
    apply lt4_4; lia.
  Qed.

  (** ** Minus, Negation *)
  Lemma mu_minus_to_sum_with_negation e e' :
    reduce_minus_to_sum_with_negation e = Some e' -> lt4 (mu e') (mu e).
  Proof. unfold reduce_minus_to_sum_with_negation. intros H. simple_rule H. Qed.

  Lemma mu_negation_of_negation e e' :
    reduce_negation_of_negation e = Some e' -> lt4 (mu e') (mu e).
  Proof. unfold reduce_negation_of_negation. intros H. simple_rule H. Qed.

  Lemma mu_negation_of_sum e e' :
    reduce_negation_of_sum e = Some e' -> lt4 (mu e') (mu e).
  Proof.
    unfold reduce_negation_of_sum. intros H. break H. inv H. crunch.
    rewrite !(lsum_map_ns _ Neg) by (intros; cbn [ns g1 g2 g3]; lia).
    rewrite (lsum_map_W Neg 2 3) by (intros; cbn [W]; lia).
    fin.
  Qed.

  (** ** Multiply *)
  Lemma mu_flattening_nested_products e e' :
    reduce_by_flattening_nested_products e = Some e' -> lt4 (mu e') (mu e).
  Proof.
    unfold reduce_by_flattening_nested_products. destruct e; try discriminate.
    destruct (split_first is_Mul l) as [[[b h] a]|] eqn:Es; [|discriminate].
    apply split_first_spec in Es. destruct Es as [-> _].
    destruct h; try discriminate. intros H; inv H.
    crunch. fin.
  Qed.

  Lemma mu_product_when_multiplying_by_zero e e' :
    reduce_product_when_multiplying_by_zero N e = Some e' -> lt4 (mu e') (mu e).
  Proof.
    unfold reduce_product_when_multiplying_by_zero. intros H. break H. inv H. crunch. fin.
  Qed.

  Lemma mu_product_by_eliminating_ones e e' :
    reduce_product_by_eliminating_ones N e = Some e' -> lt4 (mu e') (mu e).
  Proof.
    unfold reduce_product_by_eliminating_ones. destruct e; try discriminate.
    set (p := fun x : E => negb (is_const_eq N (n1 N) x)).
    destruct (Nat.eqb (length (filter p l)) (length l)) eqn:El; [discriminate|].
    apply Nat.eqb_neq in El. intros H; inv H. crunch.
    pose proof (lsum_filter_lt W p l W_pos El).
    pose proof (filter_length_le' p l).
    pose proof (lsum_filter_le (ns g1) p l).
    pose proof (lsum_filter_le (ns g2) p l).
    pose proof (lsum_filter_le (ns g3) p l).
    apply lt4_4; lia.
  Qed.

  Lemma mu_product_by_eliminating_negations e e' :
    reduce_product_by_eliminating_negations N e = Some e' -> lt4 (mu e') (mu e).
  Proof.
    unfold reduce_product_by_eliminating_negations, partition_by. destruct e; try discriminate.
    cbv beta iota.
    assert (Hns : forall g, (forall a, g (Neg a) = 0) ->
                       forall x : E, is_Neg x = true -> ns g x = ns g (inner_of x)).
    { intros g Hg x Hx. destruct x; try discriminate Hx. cbn [ns inner_of]. rewrite Hg. lia. }
    assert (HW : forall x : E, is_Neg x = true -> W x = 2 * W (inner_of x) + 3).
    { intros x Hx. destruct x; try discriminate Hx. reflexivity. }
    pose proof (lsum_inner_ns g1 is_Neg l (Hns g1 (fun _ => eq_refl))) as I1.
    pose proof (lsum_inner_ns g2 is_Neg l (Hns g2 (fun _ => eq_refl))) as I2.
    pose proof (lsum_inner_ns g3 is_Neg l (Hns g3 (fun _ => eq_refl))) as I3.
    pose proof (lsum_inner_W is_Neg 2 3 l HW) as I4.
    pose proof (lsum_partition W is_Neg l).
    pose proof (length_partition is_Neg l).
    pose proof (lsum_partition (ns g1) is_Neg l).
    pose proof (lsum_partition (ns g2) is_Neg l).
    pose proof (lsum_partition (ns g3) is_Neg l).
    pose proof (lsumW_ge (map inner_of (filter is_Neg l))) as I5. rewrite map_length in I5.
    destruct (filter is_Neg l) as [|n0 negs] eqn:En; [discriminate|].
    rewrite <- En in *.
    assert (1 <= length (filter is_Neg l)) by (rewrite En; cbn [length]; lia).
    destruct (Nat.even (length (filter is_Neg l))); intros H'; inv H'; crunch;
      apply lt4_4; lia.
  Qed.

  Lemma mu_product_by_consolidating_nth_powers e e' :
    reduce_product_by_consolidating_nth_powers e = Some e' -> lt4 (mu e') (mu e).
  Proof.
    unfold reduce_product_by_consolidating_nth_powers, partition_by. destruct e; try discriminate.
    cbv beta iota.
    destruct (Nat.leb (length (filter is_NthPow l)) 1); [discriminate|].
    destruct (all_singletons (group_by_key Pos.eqb pos_of_nth (filter is_NthPow l))) eqn:Es;
      [discriminate|].
    intros H; inv H. unfold mu. cbn [ns g1 g2 g3 W]. cbn [Nat.add].
    apply group_rule_mu; [| |exact Es].
    - intros x Hx. destruct x; try discriminate Hx. cbn [ns g1 g2 inner_of]. lia.
    - intros kv. cbn [ns g1 g2]. lia.
  Qed.

  Lemma mu_product_by_consolidating_nth_roots e e' :
    reduce_product_by_consolidating_nth_roots e = Some e' -> lt4 (mu e') (mu e).
  Proof.
    unfold reduce_product_by_consolidating_nth_roots, partition_by. destruct e; try discriminate.
    cbv beta iota.
    destruct (Nat.leb (length (filter is_NthRoot l)) 1); [discriminate|].
    destruct (all_singletons (group_by_key Pos.eqb pos_of_nth (filter is_NthRoot l))) eqn:Es;
      [discriminate|].
    intros H; inv H. unfold mu. cbn [ns g1 g2 g3 W]. cbn [Nat.add].
    apply group_rule_mu; [| |exact Es].
    - intros x Hx. destruct x; try discriminate Hx. cbn [ns g1 g2 inner_of]. lia.
    - intros kv. cbn [ns g1 g2]. lia.
  Qed.

  Lemma mu_product_by_consolidating_exponentials e e' :
    reduce_product_by_consolidating_exponentials N e = Some e' -> lt4 (mu e') (mu e).
  Proof.
    unfold reduce_product_by_consolidating_exponentials, partition_by.
    destruct e; try discriminate.
    cbv beta iota.
    destruct (Nat.leb (length (filter is_Exp l)) 1); [discriminate|].
    destruct (all_singletons (group_by_key (neqb N) (base_of N) (filter is_Exp l))) eqn:Es;
      [discriminate|].
    intros H; inv H. unfold mu. cbn [ns g1 g2 g3 W]. cbn [Nat.add].
    apply group_rule_mu; [| |exact Es].
    - intros x Hx. destruct x; try discriminate Hx. cbn [ns g1 g2 inner_of]. lia.
    - intros kv. cbn [ns g1 g2]. lia.
  Qed.

  Lemma mu_product_by_consolidating_constants e e' :
    reduce_product_by_consolidating_constants N e = Some e' -> lt4 (mu e') (mu e).
  Proof.
    unfold reduce_product_by_consolidating_constants, partition_by. destruct e; try discriminate.
    cbv beta iota.
    destruct (Nat.leb (length (filter is_Const l)) 1) eqn:El; [discriminate|].
    apply Nat.leb_gt in El. intros H; inv H. crunch.
    pose proof (lsum_partition W is_Const l).
    pose proof (length_partition is_Const l).
    pose proof (lsumW_ge (filter is_Const l)).
    pose proof (lsum_partition (ns g1) is_Const l).
    pose proof (lsum_partition (ns g2) is_Const l).
    pose proof (lsum_partition (ns g3) is_Const l).
    apply lt4_4; lia.
  Qed.

  (** ** Divide, Reciprocal *)
  Lemma mu_divide_to_multiplying_with_reciprocal e e' :
    reduce_divide_to_multiplying_with_reciprocal e = Some e' -> lt4 (mu e') (mu e).
  Proof. unfold reduce_divide_to_multiplying_with_reciprocal. intros H. simple_rule H. Qed.

  Lemma mu_reciprocal_of_reciprocal e e' :
    reduce_reciprocal_of_reciprocal e = Some e' -> lt4 (mu e') (mu e).
  Proof. unfold reduce_reciprocal_of_reciprocal. intros H. simple_rule H. Qed.

  Lemma mu_reciprocal_of_negation e e' :
    reduce_reciprocal_of_negation e = Some e' -> lt4 (mu e') (mu e).
  Proof. unfold reduce_reciprocal_of_negation. intros H. simple_rule H. Qed.

  Lemma mu_reciprocal_of_product e e' :
    reduce_reciprocal_of_product e = Some e' -> lt4 (mu e') (mu e).
  Proof.
    unfold reduce_reciprocal_of_product. intros H. break H. inv H. crunch.
    rewrite !(lsum_map_ns _ Recip) by (intros; cbn [ns g1 g2 g3]; lia).
    rewrite (lsum_map_W Recip 3 1) by (intros; cbn [W]; lia).
    fin.
  Qed.

  (** ** Power *)
  Lemma mu_u_to_the_one e e' : reduce_u_to_the_one N e = Some e' -> lt4 (mu e') (mu e).
  Proof. unfold reduce_u_to_the_one. intros H. simple_rule H. Qed.

  Lemma mu_u_to_the_zero e e' : reduce_u_to_the_zero N e = Some e' -> lt4 (mu e') (mu e).
  Proof. unfold reduce_u_to_the_zero. intros H. simple_rule H. Qed.

  Lemma mu_one_to_the_u e e' : reduce_one_to_the_u N e = Some e' -> lt4 (mu e') (mu e).
  Proof. unfold reduce_one_to_the_u. intros H. simple_rule H. Qed.

  Lemma mu_u_to_the_n_at_least_two e e' :
    reduce_u_to_the_n_at_least_two N e = Some e' -> lt4 (mu e') (mu e).
  Proof. unfold reduce_u_to_the_n_at_least_two. intros H. simple_rule H. Qed.

  Lemma mu_u_to_the_negative_one e e' :
    reduce_u_to_the_negative_one N e = Some e' -> lt4 (mu e') (mu e).
  Proof. unfold reduce_u_to_the_negative_one. intros H. simple_rule H. Qed.

  Lemma mu_power_with_constant_base e e' :
    reduce_power_with_constant_base N e = Some e' -> lt4 (mu e') (mu e).
  Proof. unfold reduce_power_with_constant_base. intros H. simple_rule H. Qed.

  Lemma mu_power_of_power e e' : reduce_power_of_power e = Some e' -> lt4 (mu e') (mu e).
  Proof. unfold reduce_power_of_power. intros H. simple_rule H. Qed.

  Lemma mu_u_to_the_negation_of_v e e' :
    reduce_u_to_the_negation_of_v e = Some e' -> lt4 (mu e') (mu e).
  Proof. unfold reduce_u_to_the_negation_of_v. intros H. simple_rule H. Qed.

  Lemma mu_reciprocal_u_to_the_v e e' :
    reduce_reciprocal_u_to_the_v e = Some e' -> lt4 (mu e') (mu e).
  Proof. unfold reduce_reciprocal_u_to_the_v. intros H. simple_rule H. Qed.

  (** ** NthPower *)
  Lemma mu_nth_power_where_n_is_one e e' :
    reduce_nth_power_where_n_is_one e = Some e' -> lt4 (mu e') (mu e).
  Proof. unfold reduce_nth_power_where_n_is_one. intros H. simple_rule H. Qed.

  Lemma div_gcd_lt (m g : positive) :
    (g | m)%positive -> g <> 1%positive ->
    Pos.to_nat (Z.to_pos (Zpos m / Zpos g)) < Pos.to_nat m.
  Proof.
    intros [k ->] Hg. rewrite Pos2Z.inj_mul, Z.div_mul by discriminate.
    rewrite Pos2Z.id, Pos2Nat.inj_mul.
    pose proof (Pos2Nat.is_pos k). assert (2 <= Pos.to_nat g) by lia. nia.
  Qed.

  Lemma mu_nth_power_of_mth_root e e' :
    reduce_nth_power_of_mth_root e = Some e' -> lt4 (mu e') (mu e).
  Proof.
    unfold reduce_nth_power_of_mth_root. destruct e; try discriminate.
    destruct e; try discriminate. rename n0 into m.
    destruct (Pos.eqb m n).
    - intros H; inv H. crunch. fin.
    - cbv zeta. destruct (Pos.eqb (Pos.gcd m n) 1) eqn:Eg; [discriminate|].
      apply Pos.eqb_neq in Eg. intros H; inv H. crunch.
      pose proof (div_gcd_lt m _ (Pos.gcd_divide_l m n) Eg).
      pose proof (div_gcd_lt n _ (Pos.gcd_divide_r m n) Eg).
      apply lt4_3; lia.
  Qed.

  Lemma mu_nth_power_of_mth_power e e' :
    reduce_nth_power_of_mth_power e = Some e' -> lt4 (mu e') (mu e).
  Proof. unfold reduce_nth_power_of_mth_power. intros H. simple_rule H. Qed.

  Lemma mu_nth_power_of_negation e e' :
    reduce_nth_power_of_negation e = Some e' -> lt4 (mu e') (mu e).
  Proof. unfold reduce_nth_power_of_negation. intros H. simple_rule H. Qed.

  Lemma mu_nth_power_of_reciprocal e e' :
    reduce_nth_power_of_reciprocal e = Some e' -> lt4 (mu e') (mu e).
  Proof. unfold reduce_nth_power_of_reciprocal. intros H. simple_rule H. Qed.

  Lemma mu_nth_power_of_exponential e e' :
    reduce_nth_power_of_exponential N e = Some e' -> lt4 (mu e') (mu e).
  Proof. unfold reduce_nth_power_of_exponential. intros H. simple_rule H. Qed.

  (** ** NthRoot *)
  Lemma mu_nth_root_where_n_is_one e e' :
    reduce_nth_root_where_n_is_one e = Some e' -> lt4 (mu e') (mu e).
  Proof. unfold reduce_nth_root_where_n_is_one. intros H. simple_rule H. Qed.

  Lemma mu_nth_root_of_mth_power e e' :
    reduce_nth_root_of_mth_power e = Some e' -> lt4 (mu e') (mu e).
  Proof. unfold reduce_nth_root_of_mth_power. intros H. simple_rule H. Qed.

  Lemma mu_nth_root_of_mth_root e e' :
    reduce_nth_root_of_mth_root e = Some e' -> lt4 (mu e') (mu e).
  Proof. unfold reduce_nth_root_of_mth_root. intros H. simple_rule H. Qed.

  Lemma mu_odd_nth_root_of_negation e e' :
    reduce_odd_nth_root_of_negation e = Some e' -> lt4 (mu e') (mu e).
  Proof. unfold reduce_odd_nth_root_of_negation. intros H. simple_rule H. Qed.

  Lemma mu_nth_root_of_reciprocal e e' :
    reduce_nth_root_of_reciprocal e = Some e' -> lt4 (mu e') (mu e).
  Proof. unfold reduce_nth_root_of_reciprocal. intros H. simple_rule H. Qed.

  (** ** Exponential, Logarithm, Cosine, Sine *)
  Lemma mu_exponential_of_logarithm e e' :
    reduce_exponential_of_logarithm N e = Some e' -> lt4 (mu e') (mu e).
  Proof. unfold reduce_exponential_of_logarithm. intros H. simple_rule H. Qed.

  Lemma mu_exponential_of_negation e e' :
    reduce_exponential_of_negation e = Some e' -> lt4 (mu e') (mu e).
  Proof. unfold reduce_exponential_of_negation. intros H. simple_rule H. Qed.

  Lemma mu_logarithm_of_exponential e e' :
    reduce_logarithm_of_exponential N e = Some e' -> lt4 (mu e') (mu e).
  Proof. unfold reduce_logarithm_of_exponential. intros H. simple_rule H. Qed.

  Lemma mu_logarithm_of_reciprocal e e' :
    reduce_logarithm_of_reciprocal e = Some e' -> lt4 (mu e') (mu e).
  Proof. unfold reduce_logarithm_of_reciprocal. intros H. simple_rule H. Qed.

  Lemma mu_logarithm_of_nth_power e e' :
    reduce_logarithm_of_nth_power N e = Some e' -> lt4 (mu e') (mu e).
  Proof. unfold reduce_logarithm_of_nth_power. intros H. simple_rule H. Qed.

  Lemma mu_cosine_of_negation e e' :
    reduce_cosine_of_negation e = Some e' -> lt4 (mu e') (mu e).
  Proof. unfold reduce_cosine_of_negation. intros H. simple_rule H. Qed.

  Lemma mu_sine_of_negation e e' :
    reduce_sine_of_negation e = Some e' -> lt4 (mu e') (mu e).
  Proof. unfold reduce_sine_of_negation. intros H. simple_rule H. Qed.

  (** ** Every reducer of every class decreases the measure *)
  Definition rule_decreases (r : @rule T) : Prop :=
    forall e e', snd r e = Some e' -> lt4 (mu e') (mu e).

  Lemma first_reducer_decreases rs e nm e' :
    Forall rule_decreases rs -> first_reducer rs e = Some (nm, e') -> lt4 (mu e') (mu e).
  Proof.
    induction 1 as [|[nm0 f] r Hf Hr IH]; cbn [first_reducer]; [discriminate|].
    destruct (f e) as [x|] eqn:Ef.
    - intros H; inv H. apply Hf. exact Ef.
    - exact IH.
  Qed.

  Ltac one_rule :=
    let a := fresh "a" in let b := fresh "b" in
    intros a b; cbn [snd];
    first
      [ exact (mu_flattening_nested_sums a b)
      | exact (mu_sum_by_eliminating_zeros a b)
      | exact (mu_sum_by_consolidating_logarithms a b)
      | exact (mu_sum_by_consolidating_constants a b)
      | exact (mu_minus_to_sum_with_negation a b)
      | exact (mu_negation_of_negation a b)
      | exact (mu_negation_of_sum a b)
      | exact (mu_flattening_nested_products a b)
      | exact (mu_product_when_multiplying_by_zero a b)
      | exact (mu_product_by_eliminating_ones a b)
      | exact (mu_product_by_eliminating_negations a b)
      | exact (mu_product_by_consolidating_nth_powers a b)
      | exact (mu_product_by_consolidating_nth_roots a b)
      | exact (mu_product_by_consolidating_exponentials a b)
      | exact (mu_product_by_consolidating_constants a b)
      | exact (mu_divide_to_multiplying_with_reciprocal a b)
      | exact (mu_reciprocal_of_reciprocal a b)
      | exact (mu_reciprocal_of_negation a b)
      | exact (mu_reciprocal_of_product a b)
      | exact (mu_u_to_the_one a b)
      | exact (mu_u_to_the_zero a b)
      | exact (mu_one_to_the_u a b)
      | exact (mu_u_to_the_n_at_least_two a b)
      | exact (mu_u_to_the_negative_one a b)
      | exact (mu_power_with_constant_base a b)
      | exact (mu_power_of_power a b)
      | exact (mu_u_to_the_negation_of_v a b)
      | exact (mu_reciprocal_u_to_the_v a b)
      | exact (mu_nth_power_where_n_is_one a b)
      | exact (mu_nth_power_of_mth_root a b)
      | exact (mu_nth_power_of_mth_power a b)
      | exact (mu_nth_power_of_negation a b)
      | exact (mu_nth_power_of_reciprocal a b)
      | exact (mu_nth_power_of_exponential a b)
      | exact (mu_nth_root_where_n_is_one a b)
      | exact (mu_nth_root_of_mth_power a b)
      | exact (mu_nth_root_of_mth_root a b)
      | exact (mu_odd_nth_root_of_negation a b)
      | exact (mu_nth_root_of_reciprocal a b)
      | exact (mu_exponential_of_logarithm a b)
      | exact (mu_exponential_of_negation a b)
      | exact (mu_logarithm_of_exponential a b)
      | exact (mu_logarithm_of_reciprocal a b)
      | exact (mu_logarithm_of_nth_power a b)
      | exact (mu_cosine_of_negation a b)
      | exact (mu_sine_of_negation a b) ].

  (* all 46 rules, as listed in [all_rules] *)
  Lemma all_rules_decrease : Forall rule_decreases (all_rules N).
  Proof.
    unfold all_rules, reducers_Add, reducers_Minus, reducers_Negation, reducers_Multiply,
      reducers_Divide, reducers_Reciprocal, reducers_Power, reducers_NthPower, reducers_NthRoot,
      reducers_Exponential, reducers_Logarithm, reducers_Cosine, reducers_Sine.
    cbn [app]. unfold rule_decreases.
    repeat (constructor; [one_rule|]). constructor.
  Qed.

  Lemma all_rules_length : length (all_rules N) = 46.
  Proof. reflexivity. Qed.

  Lemma reducers_decrease e : Forall rule_decreases (reducers_of N e).
  Proof.
    destruct e; cbn [reducers_of];
      unfold reducers_Add, reducers_Minus, reducers_Negation, reducers_Multiply,
        reducers_Divide, reducers_Reciprocal, reducers_Power, reducers_NthPower,
        reducers_NthRoot, reducers_Exponential, reducers_Logarithm, reducers_Cosine,
        reducers_Sine, rule_decreases;
      repeat (constructor; [one_rule|]); constructor.
  Qed.

  Lemma mu_apply_reducers e nm e' :
    apply_reducers N e = Some (nm, e') -> lt4 (mu e') (mu e).
  Proof.
    unfold apply_reducers. intros H.
    eapply first_reducer_decreases; [apply reducers_decrease | exact H].
  Qed.

  Lemma mu_rules_at e lab e' : rules_at N e = Some (lab, e') -> lt4 (mu e') (mu e).
  Proof.
    unfold rules_at. destruct (apply_reducers N e) as [[nm x]|] eqn:Ea; [|discriminate].
    intros H; inv H. eapply mu_apply_reducers. exact Ea.
  Qed.

  (** ** Constant folding *)
  Lemma mu_consolidate e c : consolidate N e = Some c -> lt4 (mu c) (mu e).
  Proof.
    unfold consolidate.
    destruct e; cbn [var_free]; try discriminate;
      match goal with
      | |- (if ?b then _ else _) = _ -> _ => destruct b; [|discriminate]
      end;
      match goal with
      | |- match ?o with _ => _ end = _ -> _ => destruct o; try discriminate
      end;
      intros H; inv H; crunch; (apply lt4_4; [lia | lia | lia | wpos; lia]).
  Qed.

  (** ** The step function, unfolded *)
  Fixpoint step_list (l : list E) : option (@label T * list E) :=
    match l with
    | [] => None
    | x :: r =>
        match step_named N x with
        | Some (lab, x') => Some (lab, x' :: r)
        | None =>
            match step_list r with
            | Some (lab, r') => Some (lab, x :: r')
            | None => None
            end
        end
    end.

  Definition step_unary (e a : E) (rebuild : E -> E) : option (@label T * E) :=
    match step_named N a with
    | Some (lab, a') => Some (lab, rebuild a')
    | None => rules_at N e
    end.

  Definition step_binary (e a b : E) (rebuild : E -> E -> E) : option (@label T * E) :=
    match step_named N a with
    | Some (lab, a') => Some (lab, rebuild a' b)
    | None =>
        match step_named N b with
        | Some (lab, b') => Some (lab, rebuild a b')
        | None => rules_at N e
        end
    end.

  Lemma step_named_eq e :
    step_named N e =
    match consolidate N e with
    | Some c => Some (LConsolidate e, c)
    | None =>
        match e with
        | Const _ | Var _ => None
        | Add l => match step_list l with
                   | Some (lab, l') => Some (lab, Add l')
                   | None => rules_at N e
                   end
        | Mul l => match step_list l with
                   | Some (lab, l') => Some (lab, Mul l')
                   | None => rules_at N e
                   end
        | Minus a b => step_binary e a b Minus
        | Divide a b => step_binary e a b Divide
        | Power a b => step_binary e a b Power
        | Neg a => step_unary e a Neg
        | Recip a => step_unary e a Recip
        | Sin a => step_unary e a Sin
        | Cos a => step_unary e a Cos
        | NthPow a n => step_unary e a (fun x => NthPow x n)
        | NthRoot a n => step_unary e a (fun x => NthRoot x n)
        | Exp a b => step_unary e a (fun x => Exp x b)
        | Log a b => step_unary e a (fun x => Log x b)
        end
    end.
  Proof. destruct e; reflexivity. Qed.

  (** ** Context closure and the main theorem *)
  Definition ml (l : list E) : nat * nat * nat * nat :=
    (lsum (ns g1) l, lsum (ns g2) l, lsum (ns g3) l, lsum W l).

  Definition Pdec (e : E) : Prop :=
    forall lab e', step_named N e = Some (lab, e') -> lt4 (mu e') (mu e).

  Lemma step_list_decreases l :
    Forall Pdec l ->
    forall lab l', step_list l = Some (lab, l') ->
                   length l' = length l /\ lt4 (ml l') (ml l).
  Proof.
    induction 1 as [|x r Hx Hr IH]; intros lab l' H; cbn [step_list] in H; [discriminate|].
    destruct (step_named N x) as [[lab1 x']|] eqn:Ex.
    - inv H. specialize (Hx _ _ Ex). split; [reflexivity|].
      unfold ml, mu, lt4 in *. cbn [lsum]. lia.
    - destruct (step_list r) as [[lab1 r']|] eqn:Er; [|discriminate]. inv H.
      destruct (IH _ _ eq_refl) as [Hl Hlt]. split; [cbn [length]; lia|].
      unfold ml, lt4 in *. cbn [lsum]. lia.
  Qed.

  Lemma sq_lt (x y : nat) : x < y -> x * x < y * y.
  Proof. nia. Qed.
  Lemma mul_lt_pos_r (x y z : nat) : x < y -> 1 <= z -> x * z < y * z.
  Proof. nia. Qed.
  Lemma mul_lt_pos_l (x y z : nat) : x < y -> 1 <= z -> z * x < z * y.
  Proof. nia. Qed.

  Ltac lin_ctx IH := unfold mu, lt4 in *; cbn [ns g1 g2 g3 W]; lia.

  Theorem step_named_decreases e : Pdec e.
  Proof.
    induction e as [c|x|l IHl|l IHl|a b IHa IHb|a b IHa IHb|a b IHa IHb
                   |a IHa|a IHa|a IHa|a IHa|a n IHa|a n IHa|a bs IHa|a bs IHa]
      using expr_ind';
      intros lab e' H; rewrite step_named_eq in H;
      (destruct (consolidate N _) as [c0|] eqn:Ec;
       [inv H; apply mu_consolidate; exact Ec|]);
      try discriminate H;
      try (unfold step_unary in H;
           destruct (step_named N a) as [[lab1 a']|] eqn:Ea;
           [inv H; specialize (IHa _ _ Ea) | exact (mu_rules_at _ _ _ H)]);
      try (unfold step_binary in H;
           destruct (step_named N a) as [[lab1 a']|] eqn:Ea;
           [inv H; specialize (IHa _ _ Ea)
           | destruct (step_named N b) as [[lab1 b']|] eqn:Eb;
             [inv H; specialize (IHb _ _ Eb) | exact (mu_rules_at _ _ _ H)]]);
      try (destruct (step_list l) as [[lab1 l']|] eqn:El;
           [inv H; destruct (step_list_decreases l IHl _ _ El) as [Hlen Hlt]
           | exact (mu_rules_at _ _ _ H)]).
    - (* Add *) unfold ml, mu, lt4 in *; cbn [ns g1 g2 g3 W]; lia.
    - (* Mul *) unfold ml, mu, lt4 in *; cbn [ns g1 g2 g3 W]; lia.
    - (* Minus *) lin_ctx IHa.
    - lin_ctx IHb.
    - (* Divide *) lin_ctx IHa.
    - lin_ctx IHb.
    - (* Power *)
      pose proof (W_pos b) as Hb.
      assert (W a' < W a -> W a' * W a' * (W b * W b) < W a * W a * (W b * W b)) as Hm.
      { intros Hlt. apply mul_lt_pos_r; [apply sq_lt; exact Hlt | nia]. }
      destruct (Nat.lt_ge_cases (W a') (W a)) as [Hlt|Hge]; [apply Hm in Hlt | clear Hm];
        lin_ctx IHa.
    - pose proof (W_pos a) as Ha.
      assert (W b' < W b -> W a * W a * (W b' * W b') < W a * W a * (W b * W b)) as Hm.
      { intros Hlt. apply mul_lt_pos_l; [apply sq_lt; exact Hlt | nia]. }
      destruct (Nat.lt_ge_cases (W b') (W b)) as [Hlt|Hge]; [apply Hm in Hlt | clear Hm];
        lin_ctx IHb.
    - (* Neg *) lin_ctx IHa.
    - (* Recip *) lin_ctx IHa.
    - (* Sin *) lin_ctx IHa.
    - (* Cos *) lin_ctx IHa.
    - (* NthPow *) lin_ctx IHa.
    - (* NthRoot *) lin_ctx IHa.
    - (* Exp *)
      pose proof (sq_lt (W a') (W a)) as Hm.
      destruct (Nat.lt_ge_cases (W a') (W a)) as [Hlt|Hge]; [apply Hm in Hlt | clear Hm];
        lin_ctx IHa.
    - (* Log *) lin_ctx IHa.
  Qed.

  Theorem step_decreases e e' : step N e = Some e' -> lt_mu (mu e') (mu e).
  Proof.
    unfold step, lt_mu. destruct (step_named N e) as [[lab x]|] eqn:Es; [|discriminate].
    intros H; inv H. exact (step_named_decreases _ _ _ Es).
  Qed.

  Lemma step_list_none l :
    step_list l = None -> forall x, In x l -> step_named N x = None.
  Proof.
    induction l as [|y r IH]; intros H x Hx; [destruct Hx|].
    cbn [step_list] in H.
    destruct (step_named N y) as [[lab1 y']|] eqn:Ey; [discriminate|].
    destruct (step_list r) as [[lab1 r']|] eqn:Er; [discriminate|].
    destruct Hx as [<- | Hx]; [exact Ey | exact (IH eq_refl x Hx)].
  Qed.
End Measure.

(** ** The statements of Spec.v (number interface := the reals) *)

Theorem terminates : C11_terminates.
Proof.
  unfold C11_terminates.
  intros e.
  induction e as [e IH]
    using (well_founded_induction (Inverse_Image.wf_inverse_image _ _ lt4 mu lt4_wf)).
  destruct (step RInst e) as [e'|] eqn:Es.
  - destruct (IH e' (step_decreases RInst e e' Es)) as [fuel Hf].
    exists (S fuel). cbn [fully_reduce]. rewrite Es. exact Hf.
  - exists 0. exact Es.
Qed.

Lemma iter_step_S i e :
  iter_step (S i) e = match step RInst e with Some e' => iter_step i e' | None => None end.
Proof. reflexivity. Qed.

Lemma iter_step_add i k : forall e,
  iter_step (i + k) e = match iter_step i e with Some a => iter_step k a | None => None end.
Proof.
  induction i as [|i IH]; intros e; [reflexivity|].
  change (S i + k) with (S (i + k)). rewrite !iter_step_S.
  destruct (step RInst e) as [e'|]; [apply IH | reflexivity].
Qed.

(* along the rewrite sequence the measure strictly decreases *)
Lemma iter_step_decreases k : forall a b,
  iter_step (S k) a = Some b -> lt4 (mu b) (mu a).
Proof.
  induction k as [|k IH]; intros a b H; rewrite iter_step_S in H;
    destruct (step RInst a) as [a'|] eqn:Es; try discriminate H.
  - cbn [iter_step] in H. inversion H; subst. exact (step_decreases RInst _ _ Es).
  - eapply lt4_trans; [exact (IH _ _ H) | exact (step_decreases RInst _ _ Es)].
Qed.

Theorem no_revisit : C11_no_revisit.
Proof.
  unfold C11_no_revisit. intros e a b i j Hij Hi Hj Heq.
  replace j with (i + S (j - i - 1)) in Hj by lia.
  rewrite iter_step_add, Hi in Hj. apply iter_step_decreases in Hj.
  subst b. exact (lt4_irrefl _ Hj).
Qed.

Lemma rules_at_none (e : expr R) : rules_at RInst e = None -> apply_reducers RInst e = None.
Proof.
  unfold rules_at. destruct (apply_reducers RInst e) as [[nm x]|]; [discriminate | reflexivity].
Qed.

Lemma step_named_none_rule_free (e : expr R) :
  step_named RInst e = None ->
  forall s, In s (subterms e) -> apply_reducers RInst s = None /\ consolidate RInst s = None.
Proof.
  induction e as [c|x|l IHl|l IHl|a b IHa IHb|a b IHa IHb|a b IHa IHb
                 |a IHa|a IHa|a IHa|a IHa|a n IHa|a n IHa|a bs IHa|a bs IHa]
    using expr_ind';
    intros H s Hs; rewrite step_named_eq in H;
    (destruct (consolidate RInst _) as [c0|] eqn:Ec; [discriminate H|]);
    cbn [subterms In] in Hs;
    try (unfold step_unary in H;
         destruct (step_named RInst a) as [[lab1 a']|] eqn:Ea; [discriminate H|];
         apply rules_at_none in H;
         destruct Hs as [<- | Hs]; [split; assumption | exact (IHa eq_refl s Hs)]);
    try (unfold step_binary in H;
         destruct (step_named RInst a) as [[lab1 a']|] eqn:Ea; [discriminate H|];
         destruct (step_named RInst b) as [[lab2 b']|] eqn:Eb; [discriminate H|];
         apply rules_at_none in H;
         destruct Hs as [<- | Hs]; [split; assumption|];
         apply in_app_or in Hs; destruct Hs as [Hs | Hs];
         [exact (IHa eq_refl s Hs) | exact (IHb eq_refl s Hs)]);
    try (destruct (step_list RInst l) as [[lab1 l']|] eqn:El; [discriminate H|];
         apply rules_at_none in H;
         destruct Hs as [<- | Hs]; [split; assumption|];
         apply in_flat_map in Hs; destruct Hs as [x [Hx Hsx]];
         exact (proj1 (Forall_forall _ _) IHl x Hx (step_list_none RInst l El x Hx) s Hsx)).
  - destruct Hs as [<- | []]. split; [reflexivity | exact Ec].
  - destruct Hs as [<- | []]. split; [reflexivity | exact Ec].
Qed.

Theorem rule_free : C11_rule_free.
Proof.
  unfold C11_rule_free. intros e H. apply step_named_none_rule_free.
  unfold step in H. destruct (step_named RInst e) as [[lab x]|]; [discriminate H | reflexivity].
Qed.

(** ** Non-vacuity *)
Example ex_step :
  step RInst (Neg (Neg (Var 1%positive))) = Some (Var 1%positive).
Proof. reflexivity. Qed.

(* premises of [no_revisit] on a sequence with two steps *)
Example ex_no_revisit_premises :
  let e : expr R := Minus (Var 1%positive) (Neg (Var 2%positive)) in
  iter_step 0 e = Some e /\
  iter_step 2 e = Some (Add [Var 1%positive; Var 2%positive]) /\
  iter_step 3 e = None.
Proof. repeat split; reflexivity. Qed.

(* premise of [rule_free] on a non-trivial rule-free tree *)
Example ex_rule_free_premise :
  step RInst (Add [Var 1%positive; Mul [Var 2%positive; Sin (Var 1%positive)]]) = None.
Proof. reflexivity. Qed.

Print Assumptions step_decreases.
Print Assumptions terminates.
Print Assumptions no_revisit.
Print Assumptions rule_free.
