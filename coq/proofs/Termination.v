(** * Termination: the rewriting simplifier of Driver.v terminates (C11).

    A measure [mu : expr T -> nat * nat * nat * nat] into the lexicographic order [lt4]
    (well founded) strictly decreases with every [step], for EVERY number interface [N]
    (nothing in the argument depends on what the numbers are).

      mu e = ( #Power nodes,
               #{Power, NthPow, NthRoot, Exp, Log} nodes,
               sum of n over the NthPow / NthRoot nodes,
               W e )

    with the polynomial weight [W] below.  From this: [terminates], [no_revisit]; and
    [rule_free] by induction following [step_named]. *)
From Coq Require Import String.
From Coq Require Import ZArith List Bool Lia Arith Wf_nat.
From SM Require Import Num Syntax Outcome MathFun Eval Rules Driver RInst Spec.
Import ListNotations.
Open Scope list_scope.
Open Scope nat_scope.

(** ** The lexicographic order on quadruples of naturals *)
Definition lt4 (x y : nat * nat * nat * nat) : Prop :=
  let '(a1, b1, c1, d1) := x in
  let '(a2, b2, c2, d2) := y in
  a1 < a2 \/ (a1 = a2 /\ (b1 < b2 \/ (b1 = b2 /\ (c1 < c2 \/ (c1 = c2 /\ d1 < d2))))).

Lemma lt4_wf : well_founded lt4.
Proof.
  intros [[[a b] c] d]. revert b c d.
  induction a as [a IHa] using lt_wf_ind. intros b.
  induction b as [b IHb] using lt_wf_ind. intros c.
  induction c as [c IHc] using lt_wf_ind. intros d.
  induction d as [d IHd] using lt_wf_ind.
  constructor. intros [[[a' b'] c'] d'] H. cbn in H.
  destruct H as [H | [-> [H | [-> [H | [-> H]]]]]].
  - apply IHa; exact H.
  - apply IHb; exact H.
  - apply IHc; exact H.
  - apply IHd; exact H.
Qed.

Lemma lt4_trans x y z : lt4 x y -> lt4 y z -> lt4 x z.
Proof.
  destruct x as [[[a1 b1] c1] d1], y as [[[a2 b2] c2] d2], z as [[[a3 b3] c3] d3].
  cbn. lia.
Qed.

Lemma lt4_irrefl x : ~ lt4 x x.
Proof. destruct x as [[[a b] c] d]. cbn. lia. Qed.

Lemma lt4_1 a b c d a' b' c' d' : a' < a -> lt4 (a', b', c', d') (a, b, c, d).
Proof. cbn; lia. Qed.
Lemma lt4_2 a b c d a' b' c' d' : a' <= a -> b' < b -> lt4 (a', b', c', d') (a, b, c, d).
Proof. cbn; lia. Qed.
Lemma lt4_3 a b c d a' b' c' d' :
  a' <= a -> b' <= b -> c' < c -> lt4 (a', b', c', d') (a, b, c, d).
Proof. cbn; lia. Qed.
Lemma lt4_4 a b c d a' b' c' d' :
  a' <= a -> b' <= b -> c' <= c -> d' < d -> lt4 (a', b', c', d') (a, b, c, d).
Proof. cbn; lia. Qed.

(** ** Sums over lists *)
Definition lsum {A} (f : A -> nat) : list A -> nat :=
  fix go l := match l with [] => 0 | x :: r => f x + go r end.

Section ListSums.
  Context {A : Type}.
  Implicit Types (f g : A -> nat) (p : A -> bool) (l : list A).

  Lemma lsum_app f l1 l2 : lsum f (l1 ++ l2) = lsum f l1 + lsum f l2.
  Proof. induction l1 as [|x r IH]; cbn [lsum app]; lia. Qed.

  Lemma lsum_ext_in f g l : (forall x, In x l -> f x = g x) -> lsum f l = lsum g l.
  Proof.
    induction l as [|x r IH]; intros H; cbn [lsum]; [reflexivity|].
    rewrite (H x (or_introl eq_refl)), IH; [reflexivity|].
    intros y Hy; apply H; right; exact Hy.
  Qed.

  Lemma lsum_partition f p l :
    lsum f (filter p l) + lsum f (filter (fun x => negb (p x)) l) = lsum f l.
  Proof.
    induction l as [|x r IH]; cbn [lsum filter]; [reflexivity|].
    destruct (p x); cbn [negb lsum]; lia.
  Qed.

  Lemma length_partition p l :
    length (filter p l) + length (filter (fun x => negb (p x)) l) = length l.
  Proof.
    induction l as [|x r IH]; cbn [length filter]; [reflexivity|].
    destruct (p x); cbn [negb length]; lia.
  Qed.

  Lemma lsum_filter_le f p l : lsum f (filter p l) <= lsum f l.
  Proof.
    induction l as [|x r IH]; cbn [lsum filter]; [lia|].
    destruct (p x); cbn [lsum]; lia.
  Qed.

  Lemma lsum_ge_length f l : (forall x, 1 <= f x) -> length l <= lsum f l.
  Proof.
    intros H; induction l as [|x r IH]; cbn [lsum length]; [lia|].
    specialize (H x); lia.
  Qed.

  Lemma lsum_plus f g l : lsum (fun x => f x + g x) l = lsum f l + lsum g l.
  Proof. induction l as [|x r IH]; cbn [lsum]; lia. Qed.

  Lemma lsum_const (k : nat) l : lsum (fun _ => k) l = k * length l.
  Proof. induction l as [|x r IH]; cbn [lsum length]; lia. Qed.

  Lemma lsum_scal (k : nat) f l : lsum (fun x => k * f x) l = k * lsum f l.
  Proof. induction l as [|x r IH]; cbn [lsum]; lia. Qed.
End ListSums.

Lemma lsum_map {A B} (f : B -> nat) (h : A -> B) (l : list A) :
  lsum f (map h l) = lsum (fun x => f (h x)) l.
Proof. induction l as [|x r IH]; cbn [lsum map]; [reflexivity|]. rewrite IH; reflexivity. Qed.

(** ** group_by_key: the groups partition the input; every group is non-empty *)
Section Groups.
  Context {K V : Type} (keqb : K -> K -> bool).
  Implicit Types (F : V -> nat) (g : list (K * list V)).

  Definition tot F g : nat := lsum (fun kv : K * list V => lsum F (snd kv)) g.
  Definition nonempty_groups g : Prop := Forall (fun kv : K * list V => 1 <= length (snd kv)) g.

  Lemma tot_group_insert F k v g : tot F (group_insert keqb k v g) = tot F g + F v.
  Proof.
    unfold tot. induction g as [|[k' vs] r IH]; cbn [group_insert lsum snd].
    - lia.
    - destruct (keqb k k'); cbn [lsum snd].
      + rewrite lsum_app. cbn [lsum]. lia.
      + rewrite IH. lia.
  Qed.

  Lemma nonempty_group_insert k v g :
    nonempty_groups g -> nonempty_groups (group_insert keqb k v g).
  Proof.
    unfold nonempty_groups.
    induction g as [|[k' vs] r IH]; intros H; cbn [group_insert].
    - constructor; [cbn; lia | constructor].
    - inversion H as [|x y Hx Hy]; subst.
      destruct (keqb k k').
      + constructor; [|exact Hy]. cbn [snd]. rewrite app_length. cbn [length]. lia.
      + constructor; [exact Hx | apply IH; exact Hy].
  Qed.

  Lemma tot_fold F (key : V -> K) l g :
    tot F (fold_left (fun g v => group_insert keqb (key v) v g) l g) = tot F g + lsum F l.
  Proof.
    revert g; induction l as [|x r IH]; intros g; cbn [fold_left lsum]; [lia|].
    rewrite IH, tot_group_insert. lia.
  Qed.

  Lemma nonempty_fold (key : V -> K) l g :
    nonempty_groups g ->
    nonempty_groups (fold_left (fun g v => group_insert keqb (key v) v g) l g).
  Proof.
    revert g; induction l as [|x r IH]; intros g H; cbn [fold_left]; [exact H|].
    apply IH, nonempty_group_insert, H.
  Qed.

  Lemma tot_group_by_key F (key : V -> K) l : tot F (group_by_key keqb key l) = lsum F l.
  Proof. unfold group_by_key. rewrite tot_fold. cbn. reflexivity. Qed.

  Lemma nonempty_group_by_key (key : V -> K) l : nonempty_groups (group_by_key keqb key l).
  Proof. unfold group_by_key. apply nonempty_fold. constructor. Qed.

  (* fewer groups than members as soon as one group has two members *)
  Lemma groups_lt_members g :
    nonempty_groups g -> all_singletons g = false ->
    length g < tot (fun _ => 1) g.
  Proof.
    unfold nonempty_groups, all_singletons, tot.
    induction g as [|[k vs] r IH]; intros Hne Hs; cbn [forallb] in Hs; [discriminate|].
    inversion Hne as [|x y Hx Hy]; subst. cbn [snd] in *.
    cbn [length lsum snd]. rewrite lsum_const.
    destruct (Nat.leb (length vs) 1) eqn:El; cbn [andb] in Hs.
    - specialize (IH Hy Hs). lia.
    - apply Nat.leb_gt in El.
      assert (length r <= lsum (fun kv : K * list V => lsum (fun _ : V => 1) (snd kv)) r).
      { clear -Hy. induction Hy as [|x l Hx Hl IHl]; cbn [length lsum]; [lia|].
        rewrite lsum_const. lia. }
      lia.
  Qed.

  Lemma group_by_key_fewer (key : V -> K) l :
    all_singletons (group_by_key keqb key l) = false ->
    length (group_by_key keqb key l) < length l.
  Proof.
    intros H.
    pose proof (groups_lt_members _ (nonempty_group_by_key key l) H) as H1.
    rewrite tot_group_by_key, lsum_const in H1. lia.
  Qed.
End Groups.

Section Measure.
  Context {T : Type} (N : NumOps T).
  Notation E := (expr T).

  (** sum over all nodes of a node-local quantity [g] *)
  Section NodeSum.
    Variable g : E -> nat.
    Fixpoint ns (e : E) : nat :=
      g e + match e with
            | Const _ | Var _ => 0
            | Add l | Mul l => lsum ns l
            | Minus a b | Divide a b | Power a b => ns a + ns b
            | Neg a | Recip a | Sin a | Cos a | NthPow a _ | NthRoot a _ | Exp a _ | Log a _ =>
                ns a
            end.
  End NodeSum.

  Definition g1 (e : E) : nat := match e with Power _ _ => 1 | _ => 0 end.
  Definition g2 (e : E) : nat :=
    match e with Power _ _ | NthPow _ _ | NthRoot _ _ | Exp _ _ | Log _ _ => 1 | _ => 0 end.
  Definition g3 (e : E) : nat :=
    match e with NthPow _ n | NthRoot _ n => Pos.to_nat n | _ => 0 end.

  (** the polynomial weight *)
  Fixpoint W (e : E) : nat :=
    match e with
    | Const _ | Var _ => 1
    | Add l => lsum W l + 3 * length l + 2
    | Mul l => lsum W l + 2 * length l + 2
    | Minus a b => W a + 2 * W b + 12
    | Divide a b => W a + 3 * W b + 8
    | Power a b => W a * W a * (W b * W b) + 1
    | Neg a => 2 * W a + 3
    | Recip a => 3 * W a + 1
    | Sin a | Cos a | NthRoot a _ | Log a _ => 2 * W a
    | NthPow a _ => 4 * W a + 1
    | Exp a _ => W a * W a + 1
    end.

  Definition mu (e : E) : nat * nat * nat * nat := (ns g1 e, ns g2 e, ns g3 e, W e).
  Definition lt_mu := lt4.

  Lemma W_pos e : 1 <= W e.
  Proof. induction e; cbn [W]; lia. Qed.

  Lemma lsumW_ge l : length l <= lsum W l.
  Proof. apply lsum_ge_length, W_pos. Qed.

  Lemma split_first_spec (f : E -> bool) l b h a :
    split_first f l = Some (b, h, a) -> l = b ++ h :: a /\ f h = true.
  Proof.
    revert b; induction l as [|x r IH]; intros b H; cbn [split_first] in H; [discriminate|].
    destruct (f x) eqn:Ex.
    - inversion H; subst. split; [reflexivity | exact Ex].
    - destruct (split_first f r) as [[[b' h'] a']|]; [|discriminate].
      inversion H; subst. destruct (IH b' eq_refl) as [-> Hh]. split; [reflexivity | exact Hh].
  Qed.

  Lemma filter_length_le' (p : E -> bool) l : length (filter p l) <= length l.
  Proof. induction l as [|x r IH]; cbn [filter length]; [lia|]. destruct (p x); cbn [length]; lia. Qed.

  Lemma lsum_filter_lt (f : E -> nat) (p : E -> bool) l :
    (forall x, 1 <= f x) -> length (filter p l) <> length l -> lsum f (filter p l) < lsum f l.
  Proof.
    intros Hf. induction l as [|x r IH]; cbn [filter length lsum]; intros H; [congruence|].
    destruct (p x); cbn [length lsum] in *.
    - assert (length (filter p r) <> length r) as H' by lia. specialize (IH H'). lia.
    - pose proof (lsum_filter_le f p r). specialize (Hf x). lia.
  Qed.

  Lemma lsum_filter_ext (f g : E -> nat) (p : E -> bool) l :
    (forall x, p x = true -> f x = g x) -> lsum f (filter p l) = lsum g (filter p l).
  Proof. intros H. apply lsum_ext_in. intros x Hx. apply filter_In in Hx. apply H, Hx. Qed.

  Lemma lsum_affine (a b : nat) (f : E -> nat) l :
    lsum (fun x => a * f x + b) l = a * lsum f l + b * length l.
  Proof. induction l as [|x r IH]; cbn [lsum length]; lia. Qed.

  Lemma lsum_map_ns g (C : E -> E) l :
    (forall x, ns g (C x) = ns g x) -> lsum (ns g) (map C l) = lsum (ns g) l.
  Proof. intros H. rewrite lsum_map. apply lsum_ext_in. intros x _. apply H. Qed.

  Lemma lsum_map_W (C : E -> E) (a b : nat) l :
    (forall x, W (C x) = a * W x + b) ->
    lsum W (map C l) = a * lsum W l + b * length l.
  Proof.
    intros H. rewrite lsum_map, <- lsum_affine. apply lsum_ext_in. intros x _. apply H.
  Qed.

  Lemma lsum_inner_ns g (p : E -> bool) l :
    (forall x, p x = true -> ns g x = ns g (inner_of x)) ->
    lsum (ns g) (map inner_of (filter p l)) = lsum (ns g) (filter p l).
  Proof.
    intros H. rewrite lsum_map. symmetry. apply lsum_filter_ext. exact H.
  Qed.

  Lemma lsum_inner_W (p : E -> bool) (a b : nat) l :
    (forall x, p x = true -> W x = a * W (inner_of x) + b) ->
    lsum W (filter p l) = a * lsum W (map inner_of (filter p l)) + b * length (filter p l).
  Proof.
    intros H. rewrite lsum_map, <- lsum_affine. apply lsum_filter_ext. exact H.
  Qed.

  Ltac crunch :=
    unfold mu;
    repeat (progress (cbn [ns g1 g2 g3 W lsum length];
                      rewrite ?lsum_app, ?app_length, ?map_length)).
  Ltac inv H := inversion H; subst; clear H.
  Ltac break H :=
    repeat (cbv beta iota in H;
            match type of H with
            | context [match ?x with _ => _ end] => destruct x; try discriminate H
            end).
  Ltac wpos :=
    repeat match goal with
           | |- context [W ?a] =>
               lazymatch goal with
               | _ : 1 <= W a |- _ => fail
               | _ => pose proof (W_pos a)
               end
           end.
  Ltac fin :=
    first [ apply lt4_1; lia
          | apply lt4_2; [lia | lia]
          | apply lt4_3; [lia | lia | lia]
          | apply lt4_4; [lia | lia | lia | wpos; nia] ].
  Ltac simple_rule H := break H; inv H; crunch; fin.

  (** ** Add *)
  Lemma mu_flattening_nested_sums e e' :
    reduce_by_flattening_nested_sums e = Some e' -> lt4 (mu e') (mu e).
  Proof.
    unfold reduce_by_flattening_nested_sums. destruct e; try discriminate.
    destruct (split_first is_Add l) as [[[b h] a]|] eqn:Es; [|discriminate].
    apply split_first_spec in Es. destruct Es as [-> _].
    destruct h; try discriminate. intros H; inv H.
    crunch. fin.
  Qed.

  Lemma mu_sum_by_eliminating_zeros e e' :
    reduce_sum_by_eliminating_zeros N e = Some e' -> lt4 (mu e') (mu e).
  Proof.
    unfold reduce_sum_by_eliminating_zeros. destruct e; try discriminate.
    set (p := fun x : E => negb (is_const_eq N (n0 N) x)).
    destruct (Nat.eqb (length (filter p l)) (length l)) eqn:El; [discriminate|].
    apply Nat.eqb_neq in El. intros H; inv H. crunch.
    pose proof (lsum_filter_lt W p l W_pos El).
    pose proof (filter_length_le' p l).
    pose proof (lsum_filter_le (ns g1) p l).
    pose proof (lsum_filter_le (ns g2) p l).
    pose proof (lsum_filter_le (ns g3) p l).
    apply lt4_4; lia.
  Qed.

  (* the four grouping rules *)
  Lemma group_rule {K} (keqb : K -> K -> bool) (key : E -> K) (p : E -> bool)
        (wrap : K * list E -> E) (g : E -> nat) (h : nat) l :
    (forall x, p x = true -> ns g x = h + ns g (inner_of x)) ->
    (forall kv, ns g (wrap kv) = h + lsum (ns g) (map inner_of (snd kv))) ->
    lsum (ns g) (filter (fun x => negb (p x)) l ++
                 map wrap (group_by_key keqb key (filter p l)))
      + h * length (filter p l)
    = lsum (ns g) l + h * length (group_by_key keqb key (filter p l)).
  Proof.
    intros Hp Hw. rewrite lsum_app, lsum_map.
    rewrite (lsum_ext_in (fun kv => ns g (wrap kv))
                         (fun kv => h + lsum (fun x => ns g (inner_of x)) (snd kv))).
    2:{ intros kv _. rewrite Hw, lsum_map. reflexivity. }
    rewrite lsum_plus, lsum_const.
    change (lsum (fun kv : K * list E => lsum (fun x => ns g (inner_of x)) (snd kv))
                 (group_by_key keqb key (filter p l)))
      with (tot (fun x => ns g (inner_of x)) (group_by_key keqb key (filter p l))).
    rewrite tot_group_by_key.
    rewrite <- (lsum_partition (ns g) p l).
    rewrite (lsum_filter_ext (ns g) (fun x => h + ns g (inner_of x)) p l Hp).
    rewrite lsum_plus, lsum_const. lia.
  Qed.

  Lemma group_rule_mu {K} (keqb : K -> K -> bool) (key : E -> K) (p : E -> bool)
        (wrap : K * list E -> E) l w w' :
    (forall x, p x = true ->
               ns g1 x = 0 + ns g1 (inner_of x) /\ ns g2 x = 1 + ns g2 (inner_of x)) ->
    (forall kv, ns g1 (wrap kv) = 0 + lsum (ns g1) (map inner_of (snd kv)) /\
                ns g2 (wrap kv) = 1 + lsum (ns g2) (map inner_of (snd kv))) ->
    all_singletons (group_by_key keqb key (filter p l)) = false ->
    forall c3 c3',
    lt4 (lsum (ns g1) (filter (fun x => negb (p x)) l ++
                       map wrap (group_by_key keqb key (filter p l))),
         lsum (ns g2) (filter (fun x => negb (p x)) l ++
                       map wrap (group_by_key keqb key (filter p l))), c3', w')
        (lsum (ns g1) l, lsum (ns g2) l, c3, w).
  Proof.
    intros Hp Hw Hs c3 c3'.
    pose proof (group_rule keqb key p wrap g1 0 l
                           (fun x Hx => proj1 (Hp x Hx)) (fun kv => proj1 (Hw kv))) as H1.
    pose proof (group_rule keqb key p wrap g2 1 l
                           (fun x Hx => proj2 (Hp x Hx)) (fun kv => proj2 (Hw kv))) as H2.
    pose proof (group_by_key_fewer keqb key (filter p l) Hs) as H3.
    apply lt4_2; lia.
  Qed.

  Lemma mu_sum_by_consolidating_logarithms e e' :
    reduce_sum_by_consolidating_logarithms N e = Some e' -> lt4 (mu e') (mu e).
  Proof.
    unfold reduce_sum_by_consolidating_logarithms, partition_by. destruct e; try discriminate.
    cbv beta iota.
    destruct (Nat.leb (length (filter is_Log l)) 1); [discriminate|].
    destruct (all_singletons (group_by_key (neqb N) (base_of N) (filter is_Log l))) eqn:Es;
      [discriminate|].
    intros H; inv H. unfold mu. cbn [ns g1 g2 g3 W]. cbn [Nat.add].
    apply group_rule_mu; [| |exact Es].
    - intros x Hx. destruct x; try discriminate Hx. cbn [ns g1 g2 inner_of]. lia.
    - intros kv. cbn [ns g1 g2]. lia.
  Qed.

  Lemma mu_sum_by_consolidating_constants e e' :
    reduce_sum_by_consolidating_constants N e = Some e' -> lt4 (mu e') (mu e).
  Proof.
    unfold reduce_sum_by_consolidating_constants, partition_by. destruct e; try discriminate.
    cbv beta iota.
    destruct (Nat.leb (length (filter is_Const l)) 1) eqn:El; [discriminate|].
    apply Nat.leb_gt in El. intros H; inv H. crunch.
    pose proof (lsum_partition W is_Const l).
    pose proof (length_partition is_Const l).
    pose proof (lsumW_ge (filter is_Const l)).
    pose proof (lsum_partition (ns g1) is_Const l).
    pose proof (lsum_partition (ns g2) is_Const l).
    pose proof (lsum_partition (ns g3) is_Const l).
    apply lt4_4; lia.
  Qed.

  (** ** Minus, Negation *)
  Lemma mu_minus_to_sum_with_negation e e' :
    reduce_minus_to_sum_with_negation e = Some e' -> lt4 (mu e') (mu e).
  Proof. unfold reduce_minus_to_sum_with_negation. intros H. simple_rule H. Qed.

  Lemma mu_negation_of_negation e e' :
    reduce_negation_of_negation e = Some e' -> lt4 (mu e') (mu e).
  Proof. unfold reduce_negation_of_negation. intros H. simple_rule H. Qed.

  Lemma mu_negation_of_sum e e' :
    reduce_negation_of_sum e = Some e' -> lt4 (mu e') (mu e).
  Proof.
    unfold reduce_negation_of_sum. intros H. break H. inv H. crunch.
    rewrite !(lsum_map_ns _ Neg) by (intros; cbn [ns g1 g2 g3]; lia).
    rewrite (lsum_map_W Neg 2 3) by (intros; cbn [W]; lia).
    fin.
  Qed.

  (** ** Multiply *)
  Lemma mu_flattening_nested_products e e' :
    reduce_by_flattening_nested_products e = Some e' -> lt4 (mu e') (mu e).
  Proof.
    unfold reduce_by_flattening_nested_products. destruct e; try discriminate.
    destruct (split_first is_Mul l) as [[[b h] a]|] eqn:Es; [|discriminate].
    apply split_first_spec in Es. destruct Es as [-> _].
    destruct h; try discriminate. intros H; inv H.
    crunch. fin.
  Qed.

  Lemma mu_product_when_multiplying_by_zero e e' :
    reduce_product_when_multiplying_by_zero N e = Some e' -> lt4 (mu e') (mu e).
  Proof.
    unfold reduce_product_when_multiplying_by_zero. intros H. break H. inv H. crunch. fin.
  Qed.

  Lemma mu_product_by_eliminating_ones e e' :
    reduce_product_by_eliminating_ones N e = Some e' -> lt4 (mu e') (mu e).
  Proof.
    unfold reduce_product_by_eliminating_ones. destruct e; try discriminate.
    set (p := fun x : E => negb (is_const_eq N (n1 N) x)).
    destruct (Nat.eqb (length (filter p l)) (length l)) eqn:El; [discriminate|].
    apply Nat.eqb_neq in El. intros H; inv H. crunch.
    pose proof (lsum_filter_lt W p l W_pos El).
    pose proof (filter_length_le' p l).
    pose proof (lsum_filter_le (ns g1) p l).
    pose proof (lsum_filter_le (ns g2) p l).
    pose proof (lsum_filter_le (ns g3) p l).
    apply lt4_4; lia.
  Qed.

  Lemma mu_product_by_eliminating_negations e e' :
    reduce_product_by_eliminating_negations N e = Some e' -> lt4 (mu e') (mu e).
  Proof.
    unfold reduce_product_by_eliminating_negations, partition_by. destruct e; try discriminate.
    cbv beta iota.
    assert (Hns : forall g, (forall a, g (Neg a) = 0) ->
                       forall x : E, is_Neg x = true -> ns g x = ns g (inner_of x)).
    { intros g Hg x Hx. destruct x; try discriminate Hx. cbn [ns inner_of]. rewrite Hg. lia. }
    assert (HW : forall x : E, is_Neg x = true -> W x = 2 * W (inner_of x) + 3).
    { intros x Hx. destruct x; try discriminate Hx. reflexivity. }
    pose proof (lsum_inner_ns g1 is_Neg l (Hns g1 (fun _ => eq_refl))) as I1.
    pose proof (lsum_inner_ns g2 is_Neg l (Hns g2 (fun _ => eq_refl))) as I2.
    pose proof (lsum_inner_ns g3 is_Neg l (Hns g3 (fun _ => eq_refl))) as I3.
    pose proof (lsum_inner_W is_Neg 2 3 l HW) as I4.
    pose proof (lsum_partition W is_Neg l).
    pose proof (length_partition is_Neg l).
    pose proof (lsum_partition (ns g1) is_Neg l).
    pose proof (lsum_partition (ns g2) is_Neg l).
    pose proof (lsum_partition (ns g3) is_Neg l).
    pose proof (lsumW_ge (map inner_of (filter is_Neg l))) as I5. rewrite map_length in I5.
    destruct (filter is_Neg l) as [|n0 negs] eqn:En; [discriminate|].
    rewrite <- En in *.
    assert (1 <= length (filter is_Neg l)) by (rewrite En; cbn [length]; lia).
    destruct (Nat.even (length (filter is_Neg l))); intros H'; inv H'; crunch;
      apply lt4_4; lia.
  Qed.

  Lemma mu_product_by_consolidating_nth_powers e e' :
    reduce_product_by_consolidating_nth_powers e = Some e' -> lt4 (mu e') (mu e).
  Proof.
    unfold reduce_product_by_consolidating_nth_powers, partition_by. destruct e; try discriminate.
    cbv beta iota.
    destruct (Nat.leb (length (filter is_NthPow l)) 1); [discriminate|].
    destruct (all_singletons (group_by_key Pos.eqb pos_of_nth (filter is_NthPow l))) eqn:Es;
      [discriminate|].
    intros H; inv H. unfold mu. cbn [ns g1 g2 g3 W]. cbn [Nat.add].
    apply group_rule_mu; [| |exact Es].
    - intros x Hx. destruct x; try discriminate Hx. cbn [ns g1 g2 inner_of]. lia.
    - intros kv. cbn [ns g1 g2]. lia.
  Qed.

  Lemma mu_product_by_consolidating_nth_roots e e' :
    reduce_product_by_consolidating_nth_roots e = Some e' -> lt4 (mu e') (mu e).
  Proof.
    unfold reduce_product_by_consolidating_nth_roots, partition_by. destruct e; try discriminate.
    cbv beta iota.
    destruct (Nat.leb (length (filter is_NthRoot l)) 1); [discriminate|].
    destruct (all_singletons (group_by_key Pos.eqb pos_of_nth (filter is_NthRoot l))) eqn:Es;
      [discriminate|].
    intros H; inv H. unfold mu. cbn [ns g1 g2 g3 W]. cbn [Nat.add].
    apply group_rule_mu; [| |exact Es].
    - intros x Hx. destruct x; try discriminate Hx. cbn [ns g1 g2 inner_of]. lia.
    - intros kv. cbn [ns g1 g2]. lia.
  Qed.

  Lemma mu_product_by_consolidating_exponentials e e' :
    reduce_product_by_consolidating_exponentials N e = Some e' -> lt4 (mu e') (mu e).
  Proof.
    unfold reduce_product_by_consolidating_exponentials, partition_by.
    destruct e; try discriminate.
    cbv beta iota.
    destruct (Nat.leb (length (filter is_Exp l)) 1); [discriminate|].
    destruct (all_singletons (group_by_key (neqb N) (base_of N) (filter is_Exp l))) eqn:Es;
      [discriminate|].
    intros H; inv H. unfold mu. cbn [ns g1 g2 g3 W]. cbn [Nat.add].
    apply group_rule_mu; [| |exact Es].
    - intros x Hx. destruct x; try discriminate Hx. cbn [ns g1 g2 inner_of]. lia.
    - intros kv. cbn [ns g1 g2]. lia.
  Qed.

  Lemma mu_product_by_consolidating_constants e e' :
    reduce_product_by_consolidating_constants N e = Some e' -> lt4 (mu e') (mu e).
  Proof.
    unfold reduce_product_by_consolidating_constants, partition_by. destruct e; try discriminate.
    cbv beta iota.
    destruct (Nat.leb (length (filter is_Const l)) 1) eqn:El; [discriminate|].
    apply Nat.leb_gt in El. intros H; inv H. crunch.
    pose proof (lsum_partition W is_Const l).
    pose proof (length_partition is_Const l).
    pose proof (lsumW_ge (filter is_Const l)).
    pose proof (lsum_partition (ns g1) is_Const l).
    pose proof (lsum_partition (ns g2) is_Const l).
    pose proof (lsum_partition (ns g3) is_Const l).
    apply lt4_4; lia.
  Qed.

  (** ** Divide, Reciprocal *)
  Lemma mu_divide_to_multiplying_with_reciprocal e e' :
    reduce_divide_to_multiplying_with_reciprocal e = Some e' -> lt4 (mu e') (mu e).
  Proof. unfold reduce_divide_to_multiplying_with_reciprocal. intros H. simple_rule H. Qed.

  Lemma mu_reciprocal_of_reciprocal e e' :
    reduce_reciprocal_of_reciprocal e = Some e' -> lt4 (mu e') (mu e).
  Proof. unfold reduce_reciprocal_of_reciprocal. intros H. simple_rule H. Qed.

  Lemma mu_reciprocal_of_negation e e' :
    reduce_reciprocal_of_negation e = Some e' -> lt4 (mu e') (mu e).
  Proof. unfold reduce_reciprocal_of_negation. intros H. simple_rule H. Qed.

  Lemma mu_reciprocal_of_product e e' :
    reduce_reciprocal_of_product e = Some e' -> lt4 (mu e') (mu e).
  Proof.
    unfold reduce_reciprocal_of_product. intros H. break H. inv H. crunch.
    rewrite !(lsum_map_ns _ Recip) by (intros; cbn [ns g1 g2 g3]; lia).
    rewrite (lsum_map_W Recip 3 1) by (intros; cbn [W]; lia).
    fin.
  Qed.

  (** ** Power *)
  Lemma mu_u_to_the_one e e' : reduce_u_to_the_one N e = Some e' -> lt4 (mu e') (mu e).
  Proof. unfold reduce_u_to_the_one. intros H. simple_rule H. Qed.

  Lemma mu_u_to_the_zero e e' : reduce_u_to_the_zero N e = Some e' -> lt4 (mu e') (mu e).
  Proof. unfold reduce_u_to_the_zero. intros H. simple_rule H. Qed.

  Lemma mu_one_to_the_u e e' : reduce_one_to_the_u N e = Some e' -> lt4 (mu e') (mu e).
  Proof. unfold reduce_one_to_the_u. intros H. simple_rule H. Qed.

  Lemma mu_u_to_the_n_at_least_two e e' :
    reduce_u_to_the_n_at_least_two N e = Some e' -> lt4 (mu e') (mu e).
  Proof. unfold reduce_u_to_the_n_at_least_two. intros H. simple_rule H. Qed.

  Lemma mu_u_to_the_negative_one e e' :
    reduce_u_to_the_negative_one N e = Some e' -> lt4 (mu e') (mu e).
  Proof. unfold reduce_u_to_the_negative_one. intros H. simple_rule H. Qed.

  Lemma mu_power_with_constant_base e e' :
    reduce_power_with_constant_base N e = Some e' -> lt4 (mu e') (mu e).
  Proof. unfold reduce_power_with_constant_base. intros H. simple_rule H. Qed.

  Lemma mu_power_of_power e e' : reduce_power_of_power e = Some e' -> lt4 (mu e') (mu e).
  Proof. unfold reduce_power_of_power. intros H. simple_rule H. Qed.

  Lemma mu_u_to_the_negation_of_v e e' :
    reduce_u_to_the_negation_of_v e = Some e' -> lt4 (mu e') (mu e).
  Proof. unfold reduce_u_to_the_negation_of_v. intros H. simple_rule H. Qed.

  Lemma mu_reciprocal_u_to_the_v e e' :
    reduce_reciprocal_u_to_the_v e = Some e' -> lt4 (mu e') (mu e).
  Proof. unfold reduce_reciprocal_u_to_the_v. intros H. simple_rule H. Qed.
End Measure.
