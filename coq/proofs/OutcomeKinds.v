(** * OutcomeKinds: which KIND of outcome the derivative traversals produce
    (C07 forward / reverse, C14 no CoordinateMissing, C17 no foreign Python exception). *)
From Coq Require Import Reals ZArith List Bool Lia Lra.
From SM Require Import Num Syntax Outcome MathFun Eval Forward Reverse RInst Denote Spec.
Import ListNotations.
Open Scope R_scope.

(** ** Booleans at RInst *)
Ltac rbool :=
  repeat match goal with
  | H : Reqb _ _ = true |- _ => apply Reqb_true in H
  | H : Reqb _ _ = false |- _ => apply Reqb_false in H
  | H : Rltb _ _ = true |- _ => apply Rltb_true in H
  | H : Rltb _ _ = false |- _ => apply Rltb_false in H
  end.

Lemma K_Reqb_neq x y : x <> y -> Reqb x y = false.
Proof. apply Reqb_false. Qed.
Lemma K_Reqb_refl x : Reqb x x = true.
Proof. apply Reqb_true; reflexivity. Qed.
Lemma K_Rltb_lt x y : x < y -> Rltb x y = true.
Proof. apply Rltb_true. Qed.
Lemma K_Rltb_nlt x y : ~ x < y -> Rltb x y = false.
Proof. apply Rltb_false. Qed.

Lemma K_exp1_gt : 2 < exp 1.
Proof. pose proof (exp_ineq1 1). lra. Qed.

Lemma K_ln_nonzero b : 0 < b -> b <> 1 -> ln b <> 0.
Proof.
  intros Hb Hb1 H. apply Hb1. apply ln_inv; try lra. rewrite ln_1. exact H.
Qed.

(** ** Outcomes that are a value or a DomainError *)
Definition vd {A} (o : outcome A) : Prop := (exists a, o = Val a) \/ o = DomErr.

Lemma vd_val A (a : A) : vd (Val a).
Proof. left; eexists; reflexivity. Qed.
Lemma vd_dom A : vd (@DomErr A).
Proof. right; reflexivity. Qed.
Lemma vd_not_missing A (o : outcome A) : vd o -> o <> CoordMissing.
Proof. intros [[a ->]| ->]; discriminate. Qed.
Lemma vd_not_pyerr A (o : outcome A) k : vd o -> o <> PyErr k.
Proof. intros [[a ->]| ->]; discriminate. Qed.

(** ** The functions of math_functions.py at RInst *)
Lemma K_divide_val x y : y <> 0 -> mf_divide RInst x y = Val (x / y).
Proof.
  intro H. unfold mf_divide, prim_div. simpl. rewrite K_Reqb_neq by assumption. reflexivity.
Qed.
Lemma K_divide_vd x y : vd (mf_divide RInst x y).
Proof.
  unfold mf_divide, prim_div. simpl. destruct (Reqb y 0); [apply vd_dom | apply vd_val].
Qed.

Lemma K_reciprocal_val x : x <> 0 -> mf_reciprocal RInst x = Val (1 / x).
Proof.
  intro H. unfold mf_reciprocal, prim_div. simpl. rewrite K_Reqb_neq by assumption. reflexivity.
Qed.

Lemma K_nth_power x n : mf_nth_power RInst x n = Val (x ^ Pos.to_nat n).
Proof. reflexivity. Qed.

Lemma K_sine x : mf_sine RInst x = Val (sin x).
Proof. reflexivity. Qed.
Lemma K_cosine x : mf_cosine RInst x = Val (cos x).
Proof. reflexivity. Qed.

Lemma K_prim_pow_pos x y : 0 < x -> prim_pow RInst x y = Val (Rpower x y).
Proof.
  intro H. unfold prim_pow. simpl.
  rewrite (K_Reqb_neq x 0) by lra. rewrite (K_Rltb_nlt x 0) by lra. reflexivity.
Qed.

Lemma K_power_val x y : 0 < x -> mf_power RInst x y = Val (Rpower x y).
Proof.
  intro H. unfold mf_power. rewrite K_prim_pow_pos by assumption. simpl.
  rewrite (K_Reqb_neq x 0) by lra. rewrite (K_Rltb_nlt x 0) by lra. reflexivity.
Qed.
Lemma K_power_vd x y : vd (mf_power RInst x y).
Proof.
  unfold mf_power. simpl. destruct (Reqb x 0) eqn:E0; [apply vd_dom|].
  destruct (Rltb x 0) eqn:E1; [apply vd_dom|]. rbool.
  change (vd (r <- prim_pow RInst x y ;; Val r)).
  rewrite K_prim_pow_pos by lra. apply vd_val.
Qed.

Lemma K_nleb x : nleb RInst x 0 = Rltb x 0 || Reqb x 0.
Proof. reflexivity. Qed.
Lemma K_nleb_pos x : 0 < x -> nleb RInst x 0 = false.
Proof.
  intro H. rewrite K_nleb. rewrite (K_Reqb_neq x 0) by lra. rewrite (K_Rltb_nlt x 0) by lra.
  reflexivity.
Qed.
Lemma K_nleb_true x : nleb RInst x 0 = true -> x <= 0.
Proof.
  rewrite K_nleb. destruct (Rltb x 0) eqn:E1; destruct (Reqb x 0) eqn:E2; rbool; simpl; intros;
    try discriminate; try lra.
Qed.
Lemma K_nleb_false x : nleb RInst x 0 = false -> 0 < x.
Proof.
  rewrite K_nleb. destruct (Rltb x 0) eqn:E1; destruct (Reqb x 0) eqn:E2; rbool; simpl; intros;
    try discriminate; try lra.
Qed.

Lemma K_exponential_val x b : 0 < b -> mf_exponential RInst x b = Val (Rpower b x).
Proof.
  intro H. unfold mf_exponential. rewrite K_nleb_pos by assumption.
  rewrite K_prim_pow_pos by assumption. reflexivity.
Qed.
Lemma K_exponential_vd x b : vd (mf_exponential RInst x b).
Proof.
  unfold mf_exponential. destruct (nleb RInst b (n0 RInst)) eqn:E; [apply vd_dom|].
  apply K_nleb_false in E. rewrite K_prim_pow_pos by assumption. apply vd_val.
Qed.

Lemma K_logarithm_val x b :
  0 < x -> 0 < b -> b <> 1 -> mf_logarithm RInst x b = Val (ln x / ln b).
Proof.
  intros Hx Hb Hb1. unfold mf_logarithm, prim_log.
  rewrite !K_nleb_pos by assumption. simpl.
  rewrite (K_Reqb_neq b 1) by assumption.
  rewrite (K_Reqb_neq (ln b) 0) by (apply K_ln_nonzero; assumption). reflexivity.
Qed.
Lemma K_logarithm_vd x b : 0 < x -> vd (mf_logarithm RInst x b).
Proof.
  intros Hx. unfold mf_logarithm.
  destruct (nleb RInst b (n0 RInst)) eqn:E; [apply vd_dom|]. apply K_nleb_false in E.
  simpl. destruct (Reqb b 1) eqn:E1; [apply vd_dom|]. rbool.
  pose proof (K_logarithm_val x b Hx E E1) as H. unfold mf_logarithm in H.
  rewrite K_nleb_pos in H by assumption. simpl in H. rewrite (K_Reqb_neq b 1) in H by assumption.
  rewrite H. apply vd_val.
Qed.
Lemma K_logarithm_not_missing x b : mf_logarithm RInst x b <> CoordMissing.
Proof.
  unfold mf_logarithm, prim_log.
  repeat match goal with |- context [if ?c then _ else _] => destruct c end; discriminate.
Qed.
Lemma K_logarithm_e b : 0 < b -> mf_logarithm RInst b (exp 1) = Val (ln b).
Proof.
  intro Hb. pose proof K_exp1_gt.
  rewrite K_logarithm_val by lra. rewrite ln_exp. f_equal. field.
Qed.

(** the product is non-zero when every factor is *)
Lemma K_mul_loop_nz l : forall q, q <> 0 -> Forall (fun a => a <> 0) l -> mul_loop RInst q l <> 0.
Proof.
  induction l as [|a l IH]; intros q Hq HF; simpl.
  - exact Hq.
  - inversion HF as [|a' l' Ha Hl]; subst. rewrite K_Reqb_neq by assumption.
    apply IH; [|assumption]. apply Rmult_integral_contrapositive_currified; assumption.
Qed.
Lemma K_multiply_nz l : Forall (fun a => a <> 0) l -> mf_multiply RInst l <> 0.
Proof.
  intro H. unfold mf_multiply. apply K_mul_loop_nz; [|assumption]. simpl. lra.
Qed.

(** the n-th root function *)
Lemma K_verify_nth_root_cases x n :
  verify_nth_root RInst x n = Val tt \/ verify_nth_root RInst x n = DomErr.
Proof.
  unfold verify_nth_root.
  destruct (_ && _); [right; reflexivity|]. destruct (_ && _); [right|left]; reflexivity.
Qed.

Lemma K_verify_nth_root_ok x n :
  verify_nth_root RInst x n = Val tt ->
  n = 1%positive \/ (x <> 0 /\ (Z.even (Zpos n) = true -> 0 < x)).
Proof.
  unfold verify_nth_root. simpl neqb. simpl nltb.
  destruct (Pos.leb 2 n) eqn:E2.
  - simpl andb at 1. destruct (Reqb x 0) eqn:E0; [discriminate|]. rbool.
    destruct (Z.even (Zpos n)) eqn:Ev; simpl andb.
    + destruct (Rltb x 0) eqn:E1; [discriminate|]. rbool. intros _. right. split; [assumption|].
      intros _. change (n0 RInst) with 0 in *. lra.
    + intros _. right. split; [assumption|discriminate].
  - intros _. left. apply Pos.leb_gt in E2. lia.
Qed.

Lemma K_nth_root_pos x n : 0 < x -> exists r, mf_nth_root RInst x n = Val r /\ 0 < r.
Proof.
  intro Hx. unfold mf_nth_root. simpl nltb. simpl neqb. change (n0 RInst) with 0.
  rewrite (K_Rltb_lt 0 x) by assumption. rewrite !K_prim_pow_pos by assumption.
  destruct n as [[q|q|]|[q|q|]|]; cbn [Z.even];
    try (eexists; split; [reflexivity| unfold Rpower; apply exp_pos]).
  - unfold prim_sqrt. simpl. rewrite (K_Rltb_nlt x 0) by lra.
    eexists; split; [reflexivity| apply sqrt_lt_R0; assumption].
  - eexists; split; [reflexivity| assumption].
Qed.

Lemma K_nth_root_neg_odd x n :
  x < 0 -> Z.even (Zpos n) = false -> exists r, mf_nth_root RInst x n = Val r /\ r < 0.
Proof.
  intros Hx Hev. unfold mf_nth_root. simpl nltb. simpl neqb. change (n0 RInst) with 0.
  rewrite (K_Rltb_nlt 0 x) by lra. rewrite (K_Reqb_neq x 0) by lra.
  assert (Hp : forall y, 0 < Rpower (- x) y) by (intro y; unfold Rpower; apply exp_pos).
  destruct n as [[q|q|]|[q|q|]|]; cbn [Z.even] in *; try discriminate.
  - simpl nneg. rewrite K_prim_pow_pos by lra. cbn [bind].
    eexists; split; [reflexivity|]. specialize (Hp (one_over RInst (q~1~1))). lra.
  - simpl nneg. rewrite K_prim_pow_pos by lra. cbn [bind].
    eexists; split; [reflexivity|]. specialize (Hp (one_over RInst (q~0~1))). lra.
  - simpl. eexists; split; [reflexivity|]. specialize (Hp (/ 3)). lra.
  - eexists; split; [reflexivity|assumption].
Qed.

Lemma K_nth_root_val x n :
  verify_nth_root RInst x n = Val tt ->
  exists r, mf_nth_root RInst x n = Val r /\ (n <> 1%positive -> r <> 0).
Proof.
  intro Hv. apply K_verify_nth_root_ok in Hv. destruct Hv as [-> | [Hx Hev]].
  - exists x. split; [reflexivity| congruence].
  - destruct (Rlt_dec 0 x) as [Hp|Hn].
    + destruct (K_nth_root_pos x n Hp) as [r [Hr Hr0]]. exists r. split; [assumption|]. intros _; lra.
    + destruct (Z.even (Zpos n)) eqn:Ev; [specialize (Hev eq_refl); lra|].
      destruct (K_nth_root_neg_odd x n) as [r [Hr Hr0]]; [lra|assumption|].
      exists r. split; [assumption|]. intros _; lra.
Qed.

Lemma K_nth_root_vd x n : vd (mf_nth_root RInst x n).
Proof.
  destruct (Rlt_dec 0 x) as [Hp|Hn].
  - destruct (K_nth_root_pos x n Hp) as [r [Hr _]]. rewrite Hr. apply vd_val.
  - destruct (Req_dec x 0) as [H0|H0].
    + subst x. unfold mf_nth_root. simpl nltb. simpl neqb. change (n0 RInst) with 0.
      rewrite (K_Rltb_nlt 0 0) by lra. rewrite K_Reqb_refl.
      destruct n as [[q|q|]|[q|q|]|]; cbn [Z.even]; try apply vd_dom. apply vd_val.
    + destruct (Z.even (Zpos n)) eqn:Ev.
      * unfold mf_nth_root. simpl nltb. change (n0 RInst) with 0.
        rewrite (K_Rltb_nlt 0 x) by lra.
        destruct n as [[q|q|]|[q|q|]|]; cbn [Z.even] in *; try discriminate; apply vd_dom.
      * destruct (K_nth_root_neg_odd x n) as [r [Hr _]]; [lra|assumption|].
        rewrite Hr. apply vd_val.
Qed.

(** the sign-keeping real root of a non-zero number is non-zero (the specification-side
    counterpart of [K_nth_root_val]) *)
Lemma K_root_nonzero n x : x <> 0 -> root n x <> 0.
Proof.
  intro Hx. unfold root.
  destruct (Rlt_dec 0 x) as [Hp|Hp].
  - pose proof (exp_pos (/ IZR (Zpos n) * ln x)) as H. unfold Rpower. lra.
  - destruct (Rlt_dec x 0) as [Hn|Hn]; [|lra].
    pose proof (exp_pos (/ IZR (Zpos n) * ln (- x))) as H. unfold Rpower. lra.
Qed.

(** ** [same_kind] *)
Lemma sk_val A B (a : A) (b : B) : same_kind (Val a) (Val b).
Proof. split; reflexivity. Qed.
Lemma sk_dom A B : same_kind (@DomErr A) (@DomErr B).
Proof. split; reflexivity. Qed.
Lemma sk_inv_val A B (o : outcome A) (b : B) : same_kind o (Val b) -> exists a, o = Val a.
Proof. intros [H _]. destruct o; try discriminate. eexists; reflexivity. Qed.
Lemma sk_inv_dom A B (o : outcome A) : same_kind o (@DomErr B) -> o = DomErr.
Proof. intros [_ H]. destruct o; try discriminate. reflexivity. Qed.
Lemma sk_cases A B (o1 : outcome A) (o2 : outcome B) :
  same_kind o1 o2 -> vd o2 ->
  (exists a b, o1 = Val a /\ o2 = Val b) \/ (o1 = DomErr /\ o2 = DomErr).
Proof.
  intros H [[b ->]| ->].
  - apply sk_inv_val in H. destruct H as [a ->]. left; eauto.
  - apply sk_inv_dom in H. right; auto.
Qed.
Lemma sk_bind_val A B A' B' (o1 : outcome A) (o2 : outcome B) (f : A -> A') (g : B -> B') :
  same_kind o1 o2 -> vd o2 ->
  same_kind (x <- o1 ;; Val (f x)) (y <- o2 ;; Val (g y)).
Proof.
  intros H V. destruct (sk_cases _ _ _ _ H V) as [[a [b [-> ->]]]|[-> ->]]; cbn [bind].
  - apply sk_val.
  - apply sk_dom.
Qed.

Lemma vd_sequence X B (g : X -> outcome B) l :
  Forall (fun x => vd (g x)) l -> vd (sequence (map g l)).
Proof.
  induction 1 as [|x l Hx Hl IH]; cbn [map sequence].
  - apply vd_val.
  - destruct Hx as [[b ->]| ->]; cbn [bind]; [|apply vd_dom].
    destruct IH as [[bs ->]| ->]; cbn [bind]; [apply vd_val|apply vd_dom].
Qed.

Lemma sk_sequence X A B (f : X -> outcome A) (g : X -> outcome B) l :
  Forall (fun x => same_kind (f x) (g x)) l -> Forall (fun x => vd (g x)) l ->
  same_kind (sequence (map f l)) (sequence (map g l)).
Proof.
  induction 1 as [|x l Hx Hl IH]; intro HV; cbn [map sequence].
  - apply sk_val.
  - inversion HV as [|x' l' Vx Vl]; subst.
    destruct (sk_cases _ _ _ _ Hx Vx) as [[a [b [-> ->]]]|[-> ->]]; cbn [bind]; [|apply sk_dom].
    specialize (IH Vl). pose proof (vd_sequence _ _ g l Vl) as VS.
    destruct (sk_cases _ _ _ _ IH VS) as [[az [bz [-> ->]]]|[-> ->]]; cbn [bind];
      [apply sk_val|apply sk_dom].
Qed.

(** ** [supplies] and [wf] on children *)
Lemma supplies_app p (a b : expr R) :
  (forall x, In x (vars a ++ vars b) -> lookup x p <> None) -> supplies p a /\ supplies p b.
Proof.
  intro H; split; intros x Hx; apply H; apply in_or_app; auto.
Qed.
Lemma supplies_list p (l : list (expr R)) :
  (forall x, In x (flat_map vars l) -> lookup x p <> None) -> Forall (supplies p) l.
Proof.
  intro H. apply Forall_forall. intros a Ha x Hx. apply H. apply in_flat_map. eauto.
Qed.
Lemma wf_list (l : list (expr R)) :
  fold_right (fun x acc => wfR x /\ acc) True l -> Forall wfR l.
Proof.
  induction l as [|a l IH]; intro H; constructor; destruct H; auto.
Qed.

Lemma verify_power_cases x y :
  (verify_power RInst x y = Val tt /\ 0 < x) \/ verify_power RInst x y = DomErr.
Proof.
  unfold verify_power. simpl. destruct (Reqb x 0) eqn:E0; [right; reflexivity|].
  destruct (Rltb x 0) eqn:E1; [right; reflexivity|]. rbool. left. split; [reflexivity|lra].
Qed.
Lemma verify_logarithm_cases x :
  (verify_logarithm RInst x = Val tt /\ 0 < x) \/ verify_logarithm RInst x = DomErr.
Proof.
  unfold verify_logarithm. simpl. destruct (Reqb x 0) eqn:E0; [right; reflexivity|].
  destruct (Rltb x 0) eqn:E1; [right; reflexivity|]. rbool. left. split; [reflexivity|lra].
Qed.
Lemma verify_divide_cases x y :
  (verify_divide RInst x y = Val tt /\ y <> 0) \/ verify_divide RInst x y = DomErr.
Proof.
  unfold verify_divide. simpl. destruct (Reqb y 0) eqn:E0; [right; reflexivity|].
  rbool. left. split; [reflexivity|assumption].
Qed.
Lemma verify_reciprocal_cases x :
  (verify_reciprocal RInst x = Val tt /\ x <> 0) \/ verify_reciprocal RInst x = DomErr.
Proof.
  unfold verify_reciprocal. simpl. destruct (Reqb x 0) eqn:E0; [right; reflexivity|].
  rbool. left. split; [reflexivity|assumption].
Qed.

(** ** Generic facts for "never CoordinateMissing" *)
Lemma nm_bind A B (o : outcome A) (f : A -> outcome B) :
  o <> CoordMissing -> (forall a, o = Val a -> f a <> CoordMissing) -> bind o f <> CoordMissing.
Proof. destruct o; cbn [bind]; intros H1 H2; auto; discriminate. Qed.

Lemma nm_sequence X A (f : X -> outcome A) l :
  Forall (fun x => f x <> CoordMissing) l -> sequence (map f l) <> CoordMissing.
Proof.
  induction 1 as [|x l Hx Hl IH]; cbn [map sequence]; [discriminate|].
  apply nm_bind; [assumption|intros a _]. apply nm_bind; [assumption|intros; discriminate].
Qed.

Lemma verify_divide_vd x y : vd (verify_divide RInst x y).
Proof. destruct (verify_divide_cases x y) as [[-> _]| ->]; [apply vd_val|apply vd_dom]. Qed.
Lemma verify_power_vd x y : vd (verify_power RInst x y).
Proof. destruct (verify_power_cases x y) as [[-> _]| ->]; [apply vd_val|apply vd_dom]. Qed.
Lemma verify_reciprocal_vd x : vd (verify_reciprocal RInst x).
Proof. destruct (verify_reciprocal_cases x) as [[-> _]| ->]; [apply vd_val|apply vd_dom]. Qed.
Lemma verify_logarithm_vd x : vd (verify_logarithm RInst x).
Proof. destruct (verify_logarithm_cases x) as [[-> _]| ->]; [apply vd_val|apply vd_dom]. Qed.
Lemma verify_nth_root_vd x n : vd (verify_nth_root RInst x n).
Proof. destruct (K_verify_nth_root_cases x n) as [-> | ->]; [apply vd_val|apply vd_dom]. Qed.
Lemma unary_verify_vd e x : vd (unary_verify RInst e x).
Proof.
  destruct e; cbn [unary_verify]; try apply vd_val;
    auto using verify_reciprocal_vd, verify_nth_root_vd, verify_logarithm_vd.
Qed.
Lemma K_nth_power_vd x n : vd (mf_nth_power RInst x n).
Proof. rewrite K_nth_power. apply vd_val. Qed.
Lemma K_sine_vd x : vd (mf_sine RInst x).
Proof. apply vd_val. Qed.
Lemma K_cosine_vd x : vd (mf_cosine RInst x).
Proof. apply vd_val. Qed.

(** ** Generic facts for "never a foreign Python exception" *)
Lemma np_bind A B (o : outcome A) (f : A -> outcome B) k :
  o <> PyErr k -> (forall a, o = Val a -> f a <> PyErr k) -> bind o f <> PyErr k.
Proof.
  destruct o as [a| | |k0]; cbn [bind]; intros H1 H2; auto; try discriminate.
  intro E. apply H1. congruence.
Qed.

Lemma np_sequence X A (f : X -> outcome A) l k :
  Forall (fun x => f x <> PyErr k) l -> sequence (map f l) <> PyErr k.
Proof.
  induction 1 as [|x l Hx Hl IH]; cbn [map sequence]; [discriminate|].
  apply np_bind; [assumption|intros a _]. apply np_bind; [assumption|intros; discriminate].
Qed.

Lemma sk_bind_val_r A B B' (o1 : outcome A) (o2 : outcome B) (g : B -> B') :
  same_kind o1 o2 -> same_kind o1 (y <- o2 ;; Val (g y)).
Proof. destruct o2; cbn [bind]; auto. Qed.

Lemma sequence_val_inv X B (g : X -> outcome B) l :
  forall vs, sequence (map g l) = Val vs -> Forall (fun x => exists b, g x = Val b) l.
Proof.
  induction l as [|x l IH]; intros vs H; constructor; cbn [map sequence] in H.
  - destruct (g x); try discriminate. eauto.
  - destruct (g x); try discriminate. cbn [bind] in H.
    destruct (sequence (map g l)) eqn:E; try discriminate. eapply IH; reflexivity.
Qed.

Section K.
  Hypothesis Htotal : C02_total.
  Hypothesis Heval : C01_eval_sound.
  Hypothesis Hdomiff : C02_domerr_iff.
  Hypothesis Hnomiss : forall p e, supplies p e -> evalR p e <> CoordMissing.
  Hypothesis Hnopy : forall p e k, wfR e -> evalR p e <> PyErr k.

  Lemma Hvd p e : wfR e -> supplies p e -> vd (evalR p e).
  Proof. intros Hw Hs. destruct (Htotal p e Hw Hs) as [H|H]; rewrite H; [apply vd_val|apply vd_dom]. Qed.

  (** *** Forward mode *)
  Lemma fwd_sk : forall e p v, wfR e -> supplies p e -> same_kind (fwdR v p e) (evalR p e).
  Proof.
    induction e as [c|x|l IH|l IH|a b IHa IHb|a b IHa IHb|a b IHa IHb|a IHa|a IHa|a IHa|a IHa
                   |a n IHa|a n IHa|a b IHa|a b IHa] using expr_ind'; intros p v Hwf Hs.
    - (* Const *) apply sk_val.
    - (* Var *) cbn [fwd eval]. unfold coordinate.
      specialize (Hs x (or_introl eq_refl)). destruct (lookup x p); [|congruence].
      destruct (name_eqb x v); apply sk_val.
    - (* Add *)
      cbn [fwd eval]. apply wf_list in Hwf. apply supplies_list in Hs.
      apply sk_bind_val.
      + apply sk_sequence.
        * rewrite Forall_forall in *. intros a Ha. apply IH; auto.
        * rewrite Forall_forall in *. intros a Ha. apply Hvd; auto.
      + apply vd_sequence. rewrite Forall_forall in *. intros a Ha. apply Hvd; auto.
    - (* Mul *)
      cbn [fwd eval]. unfold eval_list. apply wf_list in Hwf. apply supplies_list in Hs.
      assert (VS : Forall (fun a => vd (evalR p a)) l)
        by (rewrite Forall_forall in *; intros a Ha; apply Hvd; auto).
      assert (SK : same_kind (sequence (map (fwdR v p) l)) (sequence (map (evalR p) l))).
      { apply sk_sequence; [|assumption]. rewrite Forall_forall in *. intros a Ha. apply IH; auto. }
      destruct (sk_cases _ _ _ _ SK (vd_sequence _ _ _ _ VS)) as [[ds [vs [-> ->]]]|[-> ->]];
        cbn [bind]; [apply sk_val|apply sk_dom].
    - (* Minus *)
      destruct Hwf as [Hwa Hwb]. apply supplies_app in Hs. destruct Hs as [Hsa Hsb].
      cbn [fwd eval].
      destruct (sk_cases _ _ _ _ (IHa p v Hwa Hsa) (Hvd p a Hwa Hsa)) as [[da [x [-> ->]]]|[-> ->]];
        cbn [bind]; [|apply sk_dom].
      destruct (sk_cases _ _ _ _ (IHb p v Hwb Hsb) (Hvd p b Hwb Hsb)) as [[db [y [-> ->]]]|[-> ->]];
        cbn [bind]; [apply sk_val|apply sk_dom].
    - (* Divide *)
      destruct Hwf as [Hwa Hwb]. apply supplies_app in Hs. destruct Hs as [Hsa Hsb].
      cbn [fwd eval]. unfold divide_formula_left, divide_formula_right.
      destruct (sk_cases _ _ _ _ (IHa p v Hwa Hsa) (Hvd p a Hwa Hsa)) as [[da [x [-> ->]]]|[-> ->]];
        cbn [bind]; [|apply sk_dom].
      destruct (sk_cases _ _ _ _ (IHb p v Hwb Hsb) (Hvd p b Hwb Hsb)) as [[db [y [-> ->]]]|[-> ->]];
        cbn [bind]; [|apply sk_dom].
      destruct (verify_divide_cases x y) as [[-> Hy]| ->]; cbn [bind]; [|apply sk_dom].
      rewrite K_nth_power; cbn [bind].
      rewrite !K_divide_val by (try apply pow_nonzero; assumption). cbn [bind]. apply sk_val.
    - (* Power *)
      pose proof Hwf as [Hwa Hwb]. pose proof Hs as Hs'. apply supplies_app in Hs'. destruct Hs' as [Hsa Hsb].
      cbn [fwd].
      destruct (Hvd p (Power a b) Hwf Hs) as [[s Es]| Es]; rewrite Es; cbn [bind]; [|apply sk_dom].
      pose proof Es as Es'. cbn [eval] in Es'.
      destruct (sk_cases _ _ _ _ (IHa p v Hwa Hsa) (Hvd p a Hwa Hsa)) as [[da [x [Fa Ea]]]|[Fa Ea]];
        rewrite Ea in Es'; cbn [bind] in Es'; [|discriminate].
      destruct (sk_cases _ _ _ _ (IHb p v Hwb Hsb) (Hvd p b Hwb Hsb)) as [[db [y [Fb Eb]]]|[Fb Eb]];
        rewrite Eb in Es'; cbn [bind] in Es'; [|discriminate].
      destruct (verify_power_cases x y) as [[Ev Hx]| Ev]; rewrite Ev in Es'; cbn [bind] in Es';
        [|discriminate].
      assert (Hsc : exists sc, power_shortcut RInst p a = Val sc).
      { unfold power_shortcut. destruct (var_free a); [|eauto]. rewrite Ea. cbn [bind]. eauto. }
      destruct Hsc as [sc ->]. cbn [bind]. destruct sc; [apply sk_val|].
      unfold power_formula_left, power_formula_right.
      repeat (first [rewrite Ea | rewrite Eb | rewrite Es | rewrite Ev | rewrite Fa | rewrite Fb];
              cbn [bind]).
      rewrite K_power_val by assumption. cbn [bind].
      rewrite K_logarithm_e by assumption. cbn [bind]. apply sk_val.
    - (* Neg *)
      cbn [fwd eval unary_verify unary_formula].
      destruct (sk_cases _ _ _ _ (IHa p v Hwf Hs) (Hvd p a Hwf Hs)) as [[da [x [-> ->]]]|[-> ->]];
        cbn [bind]; [apply sk_val|apply sk_dom].
    - (* Recip *)
      cbn [fwd eval unary_verify unary_formula].
      destruct (sk_cases _ _ _ _ (IHa p v Hwf Hs) (Hvd p a Hwf Hs)) as [[da [x [-> ->]]]|[-> ->]];
        cbn [bind]; [|apply sk_dom].
      destruct (verify_reciprocal_cases x) as [[-> Hx]| ->]; cbn [bind]; [|apply sk_dom].
      rewrite K_nth_power; cbn [bind]. rewrite K_reciprocal_val by assumption.
      rewrite K_divide_val by (apply pow_nonzero; assumption). cbn [bind]. apply sk_val.
    - (* Sin *)
      cbn [fwd eval unary_verify unary_formula].
      destruct (sk_cases _ _ _ _ (IHa p v Hwf Hs) (Hvd p a Hwf Hs)) as [[da [x [-> ->]]]|[-> ->]];
        cbn [bind]; [apply sk_val|apply sk_dom].
    - (* Cos *)
      cbn [fwd eval unary_verify unary_formula].
      destruct (sk_cases _ _ _ _ (IHa p v Hwf Hs) (Hvd p a Hwf Hs)) as [[da [x [-> ->]]]|[-> ->]];
        cbn [bind]; [apply sk_val|apply sk_dom].
    - (* NthPow *)
      cbn [fwd eval unary_verify unary_formula].
      destruct (sk_cases _ _ _ _ (IHa p v Hwf Hs) (Hvd p a Hwf Hs)) as [[da [x [-> ->]]]|[-> ->]];
        cbn [bind]; [|apply sk_dom].
      rewrite !K_nth_power. destruct n; cbn [bind]; apply sk_val.
    - (* NthRoot *)
      cbn [fwd]. cbn [unary_verify unary_formula].
      pose proof (Hvd p (NthRoot a n) Hwf Hs) as Vs. revert Vs. cbn [eval].
      destruct (sk_cases _ _ _ _ (IHa p v Hwf Hs) (Hvd p a Hwf Hs)) as [[da [x [-> ->]]]|[-> ->]];
        cbn [bind]; [|intros _; apply sk_dom].
      destruct (K_verify_nth_root_cases x n) as [Ev|Ev]; rewrite Ev; cbn [bind];
        [|intros _; apply sk_dom].
      destruct (K_nth_root_val x n Ev) as [r [Er Hr]]. rewrite Er. intros _.
      destruct n as [q|q|]; try apply sk_val.
      + cbn [bind]. rewrite K_nth_power. cbn [bind].
        rewrite K_divide_val; [apply sk_val|].
        apply K_multiply_nz. repeat constructor.
        * simpl. apply IZR_neq. discriminate.
        * apply pow_nonzero. apply Hr. discriminate.
      + cbn [bind]. rewrite K_nth_power. cbn [bind].
        rewrite K_divide_val; [apply sk_val|].
        apply K_multiply_nz. repeat constructor.
        * simpl. apply IZR_neq. discriminate.
        * apply pow_nonzero. apply Hr. discriminate.
    - (* Exp *)
      destruct Hwf as [Hb Hwa]. simpl in Hb. rbool.
      cbn [fwd]. cbn [unary_verify unary_formula]. cbn [eval].
      destruct (sk_cases _ _ _ _ (IHa p v Hwa Hs) (Hvd p a Hwa Hs)) as [[da [x [-> ->]]]|[-> ->]];
        cbn [bind]; [|apply sk_dom].
      rewrite K_exponential_val by assumption. cbn [bind].
      destruct (neqb RInst b (n1 RInst)); [apply sk_val|].
      destruct (neqb RInst b (n_e RInst)); [apply sk_val|].
      change (n_e RInst) with (exp 1). rewrite K_logarithm_e by assumption. cbn [bind]. apply sk_val.
    - (* Log *)
      destruct Hwf as [Hb [Hb1 Hwa]]. simpl in Hb, Hb1. rbool.
      cbn [fwd]. cbn [unary_verify unary_formula]. cbn [eval].
      destruct (sk_cases _ _ _ _ (IHa p v Hwa Hs) (Hvd p a Hwa Hs)) as [[da [x [-> ->]]]|[-> ->]];
        cbn [bind]; [|apply sk_dom].
      destruct (verify_logarithm_cases x) as [[-> Hx]| ->]; cbn [bind]; [|apply sk_dom].
      rewrite (K_logarithm_val x b) by assumption.
      destruct (neqb RInst b (n_e RInst)).
      + rewrite K_divide_val by lra. apply sk_val.
      + change (n_e RInst) with (exp 1). rewrite K_logarithm_e by assumption. cbn [bind].
        rewrite K_divide_val; [apply sk_val|].
        apply K_multiply_nz. repeat constructor; [apply K_ln_nonzero; assumption|lra].
  Qed.

  Theorem fwd_same_kind : C07_fwd.
  Proof. intros p e v Hw Hs. apply fwd_sk; assumption. Qed.

  Ltac nm :=
    repeat match goal with
    | |- bind _ _ <> CoordMissing => apply nm_bind; [ | intros ? ? ]
    | |- Val _ <> CoordMissing => discriminate
    | |- DomErr <> CoordMissing => discriminate
    | |- (if ?c then _ else _) <> CoordMissing => destruct c
    | |- evalR _ _ <> CoordMissing => apply Hnomiss; assumption
    | |- fwdR _ _ _ <> CoordMissing => match goal with IH : _ |- _ => apply IH; assumption end
    | |- rev RInst _ _ _ _ <> CoordMissing => match goal with IH : _ |- _ => apply IH; assumption end
    | |- mf_divide RInst _ _ <> CoordMissing => apply vd_not_missing, K_divide_vd
    | |- mf_power RInst _ _ <> CoordMissing => apply vd_not_missing, K_power_vd
    | |- mf_nth_power RInst _ _ <> CoordMissing => apply vd_not_missing, K_nth_power_vd
    | |- mf_sine RInst _ <> CoordMissing => apply vd_not_missing, K_sine_vd
    | |- mf_cosine RInst _ <> CoordMissing => apply vd_not_missing, K_cosine_vd
    | |- mf_logarithm RInst _ _ <> CoordMissing => apply K_logarithm_not_missing
    | |- unary_verify RInst _ _ <> CoordMissing => apply vd_not_missing, unary_verify_vd
    | |- verify_divide RInst _ _ <> CoordMissing => apply vd_not_missing, verify_divide_vd
    | |- verify_power RInst _ _ <> CoordMissing => apply vd_not_missing, verify_power_vd
    | |- unary_formula RInst _ _ _ <> CoordMissing => cbn [unary_formula]
    | |- divide_formula_left RInst _ _ _ _ <> CoordMissing => unfold divide_formula_left
    | |- divide_formula_right RInst _ _ _ _ <> CoordMissing => unfold divide_formula_right
    | |- power_formula_left RInst _ _ _ _ <> CoordMissing => unfold power_formula_left
    | |- power_formula_right RInst _ _ _ _ <> CoordMissing => unfold power_formula_right
    | |- power_shortcut RInst _ _ <> CoordMissing => unfold power_shortcut
    | |- match ?n with _ => _ end <> CoordMissing => destruct n
    end.

  (** *** No CoordinateMissing under [supplies] (C14) *)
  Lemma fwd_nm : forall e p v, supplies p e -> fwdR v p e <> CoordMissing.
  Proof.
    induction e as [c|x|l IH|l IH|a b IHa IHb|a b IHa IHb|a b IHa IHb|a IHa|a IHa|a IHa|a IHa
                   |a n IHa|a n IHa|a b IHa|a b IHa] using expr_ind'; intros p v Hs;
      try (pose proof Hs as Hs'; apply supplies_app in Hs'; destruct Hs' as [Hsa Hsb]);
      try (cbn [fwd]; nm; fail).
    - (* Add *)
      cbn [fwd]. apply supplies_list in Hs. nm. apply nm_sequence.
      rewrite Forall_forall in *. intros e' He'. apply IH; auto.
    - (* Mul *)
      cbn [fwd]. apply supplies_list in Hs. unfold eval_list. nm.
      + apply nm_sequence. rewrite Forall_forall in *. intros e' He'. apply Hnomiss; auto.
      + apply nm_sequence. rewrite Forall_forall in *. intros e' He'. apply IH; auto.
  Qed.

  Lemma rev_nm : forall e p m acc, supplies p e -> rev RInst p e m acc <> CoordMissing.
  Proof.
    induction e as [c|x|l IH|l IH|a b IHa IHb|a b IHa IHb|a b IHa IHb|a IHa|a IHa|a IHa|a IHa
                   |a n IHa|a n IHa|a b IHa|a b IHa] using expr_ind'; intros p m acc Hs;
      try (pose proof Hs as Hs'; apply supplies_app in Hs'; destruct Hs' as [Hsa Hsb]);
      try (cbn [rev]; nm; fail).
    - (* Add *)
      cbn [rev]. apply supplies_list in Hs.
      assert (H : Forall (fun x => forall m acc, rev RInst p x m acc <> CoordMissing) l).
      { rewrite Forall_forall in *. intros e' He' m' acc'. apply IH; auto. }
      clear IH Hs. revert acc. induction H as [|x r Hx Hr IHr]; intro acc; [discriminate|].
      apply nm_bind; [apply Hx| intros acc' _; apply IHr].
    - (* Mul *)
      cbn [rev]. apply supplies_list in Hs. unfold eval_list. apply nm_bind.
      { apply nm_sequence. rewrite Forall_forall in *. intros e' He'. apply Hnomiss; auto. }
      intros vs _.
      assert (H : Forall (fun x => forall m acc, rev RInst p x m acc <> CoordMissing) l).
      { rewrite Forall_forall in *. intros e' He' m' acc'. apply IH; auto. }
      clear IH Hs. revert acc. generalize O. induction H as [|x r Hx Hr IHr]; intros i acc; [discriminate|].
      apply nm_bind; [apply Hx| intros acc' _; apply IHr].
  Qed.

  Theorem no_missing : C14_no_missing.
  Proof.
    intros p e v Hs. split; [apply Hnomiss; assumption|]. split; [apply fwd_nm; assumption|].
    intros m acc. apply rev_nm; assumption.
  Qed.

  (** *** No foreign Python exception under [wf], at ANY point (C17) *)
  Ltac np :=
    repeat match goal with
    | |- bind _ _ <> PyErr _ => apply np_bind; [ | intros ? ? ]
    | |- Val _ <> PyErr _ => discriminate
    | |- DomErr <> PyErr _ => discriminate
    | |- (if ?c then _ else _) <> PyErr _ => destruct c
    | |- evalR _ _ <> PyErr _ => apply Hnopy; assumption
    | |- fwdR _ _ _ <> PyErr _ => match goal with IH : _ |- _ => apply IH; assumption end
    | |- rev RInst _ _ _ _ <> PyErr _ => match goal with IH : _ |- _ => apply IH; assumption end
    | |- mf_divide RInst _ _ <> PyErr _ => apply vd_not_pyerr, K_divide_vd
    | |- mf_power RInst _ _ <> PyErr _ => apply vd_not_pyerr, K_power_vd
    | |- mf_nth_power RInst _ _ <> PyErr _ => apply vd_not_pyerr, K_nth_power_vd
    | |- mf_sine RInst _ <> PyErr _ => apply vd_not_pyerr, K_sine_vd
    | |- mf_cosine RInst _ <> PyErr _ => apply vd_not_pyerr, K_cosine_vd
    | |- mf_logarithm RInst _ _ <> PyErr _ => apply vd_not_pyerr, K_logarithm_vd
    | |- unary_verify RInst _ _ <> PyErr _ => apply vd_not_pyerr, unary_verify_vd
    | |- verify_divide RInst _ _ <> PyErr _ => apply vd_not_pyerr, verify_divide_vd
    | |- verify_power RInst _ _ <> PyErr _ => apply vd_not_pyerr, verify_power_vd
    | |- unary_formula RInst _ _ _ <> PyErr _ => cbn [unary_formula]
    | |- divide_formula_left RInst _ _ _ _ <> PyErr _ => unfold divide_formula_left
    | |- divide_formula_right RInst _ _ _ _ <> PyErr _ => unfold divide_formula_right
    | |- power_formula_left RInst _ _ _ _ <> PyErr _ => unfold power_formula_left
    | |- power_formula_right RInst _ _ _ _ <> PyErr _ => unfold power_formula_right
    | |- power_shortcut RInst _ _ <> PyErr _ => unfold power_shortcut
    | |- match ?n with _ => _ end <> PyErr _ => destruct n
    end.

  (* the base of a Power node that passed its own check is positive *)
  Ltac power_base :=
    match goal with
    | H1 : evalR ?p ?a = Val ?x, H2 : evalR ?p ?a = Val ?y, H3 : verify_power RInst ?x ?z = Val _
      |- 0 < ?y =>
        rewrite H1 in H2; injection H2 as <-;
        let H := fresh in
        destruct (verify_power_cases x z) as [[_ H]|H]; [exact H | rewrite H in H3; discriminate]
    end.

  Lemma fwd_np : forall e p v k, wfR e -> fwdR v p e <> PyErr k.
  Proof.
    induction e as [c|x|l IH|l IH|a b IHa IHb|a b IHa IHb|a b IHa IHb|a IHa|a IHa|a IHa|a IHa
                   |a n IHa|a n IHa|a b IHa|a b IHa] using expr_ind'; intros p v k Hwf;
      try (pose proof Hwf as [Hwa Hwb]);
      try (cbn [fwd]; np; fail).
    - (* Add *)
      cbn [fwd]. apply wf_list in Hwf. np. apply np_sequence.
      rewrite Forall_forall in *. intros e' He'. apply IH; auto.
    - (* Mul *)
      cbn [fwd]. apply wf_list in Hwf. unfold eval_list. np.
      + apply np_sequence. rewrite Forall_forall in *. intros e' He'. apply Hnopy; auto.
      + apply np_sequence. rewrite Forall_forall in *. intros e' He'. apply IH; auto.
    - (* Power *)
      cbn [fwd]. np. power_base.
    - (* Exp *)
      simpl in Hwa. rbool. cbn [fwd]. np. assumption.
    - (* Log *)
      destruct Hwb as [Hb1 Hwa']. simpl in Hwa. rbool. cbn [fwd]. np. assumption.
  Qed.

  Lemma rev_np : forall e p m acc k, wfR e -> rev RInst p e m acc <> PyErr k.
  Proof.
    induction e as [c|x|l IH|l IH|a b IHa IHb|a b IHa IHb|a b IHa IHb|a IHa|a IHa|a IHa|a IHa
                   |a n IHa|a n IHa|a b IHa|a b IHa] using expr_ind'; intros p m acc k Hwf;
      try (pose proof Hwf as [Hwa Hwb]);
      try (cbn [rev]; np; fail).
    - (* Add *)
      cbn [rev]. apply wf_list in Hwf.
      assert (H : Forall (fun x => forall m acc, rev RInst p x m acc <> PyErr k) l).
      { rewrite Forall_forall in *. intros e' He' m' acc'. apply IH; auto. }
      clear IH Hwf. revert acc. induction H as [|x r Hx Hr IHr]; intro acc; [discriminate|].
      apply np_bind; [apply Hx| intros acc' _; apply IHr].
    - (* Mul *)
      cbn [rev]. apply wf_list in Hwf. unfold eval_list. apply np_bind.
      { apply np_sequence. rewrite Forall_forall in *. intros e' He'. apply Hnopy; auto. }
      intros vs _.
      assert (H : Forall (fun x => forall m acc, rev RInst p x m acc <> PyErr k) l).
      { rewrite Forall_forall in *. intros e' He' m' acc'. apply IH; auto. }
      clear IH Hwf. revert acc. generalize O.
      induction H as [|x r Hx Hr IHr]; intros i acc; [discriminate|].
      apply np_bind; [apply Hx| intros acc' _; apply IHr].
    - (* Power *)
      cbn [rev]. np. power_base.
    - (* Exp *)
      simpl in Hwa. rbool. cbn [rev]. np. assumption.
    - (* Log *)
      destruct Hwb as [Hb1 Hwa']. simpl in Hwa. rbool. cbn [rev]. np. assumption.
  Qed.

  Theorem no_pyerr : C17_no_pyerr.
  Proof.
    intros p e v k Hw. split; [apply Hnopy; assumption|]. split; [apply fwd_np; assumption|].
    intros m acc. apply rev_np; assumption.
  Qed.

  (** *** Reverse mode *)
  Ltac rev_fin IH' :=
    match goal with
    | |- same_kind (rev RInst _ _ ?m' ?acc') _ => destruct (IH' m' acc') as [? ->]; apply sk_val
    end.

  Lemma rev_sk : forall e p m acc,
      wfR e -> supplies p e -> same_kind (rev RInst p e m acc) (evalR p e).
  Proof.
    induction e as [c|x|l IH|l IH|a b IHa IHb|a b IHa IHb|a b IHa IHb|a IHa|a IHa|a IHa|a IHa
                   |a n IHa|a n IHa|a b IHa|a b IHa] using expr_ind'; intros p m acc Hwf Hs.
    - (* Const *) apply sk_val.
    - (* Var *) cbn [rev eval]. unfold coordinate.
      specialize (Hs x (or_introl eq_refl)). destruct (lookup x p); [|congruence]. apply sk_val.
    - (* Add *)
      cbn [rev eval]. apply wf_list in Hwf. apply supplies_list in Hs.
      apply sk_bind_val_r.
      assert (H : Forall (fun x => (forall m acc, same_kind (rev RInst p x m acc) (evalR p x))
                                   /\ vd (evalR p x)) l).
      { rewrite Forall_forall in *. intros e' He'. split; [intros; apply IH; auto|apply Hvd; auto]. }
      clear IH Hwf Hs. revert acc. induction H as [|x r [Hx Vx] Hr IHr]; intro acc.
      + apply sk_val.
      + cbn [map sequence].
        destruct (sk_cases _ _ _ _ (Hx m acc) Vx) as [[acc' [y [-> ->]]]|[-> ->]]; cbn [bind];
          [|apply sk_dom].
        apply sk_bind_val_r. apply IHr.
    - (* Mul *)
      cbn [rev eval]. unfold eval_list. apply wf_list in Hwf. apply supplies_list in Hs.
      assert (VS : Forall (fun a => vd (evalR p a)) l)
        by (rewrite Forall_forall in *; intros e' He'; apply Hvd; auto).
      destruct (vd_sequence _ _ _ _ VS) as [[vs Evs]|Evs]; rewrite Evs; cbn [bind]; [|apply sk_dom].
      apply sequence_val_inv in Evs.
      assert (H : Forall (fun x => forall m acc, exists acc', rev RInst p x m acc = Val acc') l).
      { rewrite Forall_forall in *. intros e' He' m' acc'. destruct (Evs e' He') as [y Ey].
        eapply sk_inv_val. rewrite <- Ey. apply IH; auto. }
      clear IH Hwf Hs VS Evs. revert acc. generalize O.
      induction H as [|x r Hx Hr IHr]; intros i acc.
      + apply sk_val.
      + destruct (Hx (mf_multiply RInst (m :: remove_nth i vs)) acc) as [acc' ->]. cbn [bind].
        apply IHr.
    - (* Minus *)
      destruct Hwf as [Hwa Hwb]. apply supplies_app in Hs. destruct Hs as [Hsa Hsb].
      cbn [rev eval].
      destruct (sk_cases _ _ _ _ (IHa p m acc Hwa Hsa) (Hvd p a Hwa Hsa)) as [[acc1 [x [-> ->]]]|[-> ->]];
        cbn [bind]; [|apply sk_dom].
      apply sk_bind_val_r. apply IHb; assumption.
    - (* Divide *)
      destruct Hwf as [Hwa Hwb]. apply supplies_app in Hs. destruct Hs as [Hsa Hsb].
      cbn [rev eval]. unfold divide_formula_left, divide_formula_right.
      destruct (Hvd p a Hwa Hsa) as [[x Ea]|Ea]; rewrite Ea; cbn [bind]; [|apply sk_dom].
      destruct (Hvd p b Hwb Hsb) as [[y Eb]|Eb]; rewrite Eb; cbn [bind]; [|apply sk_dom].
      destruct (verify_divide_cases x y) as [[-> Hy]| ->]; cbn [bind]; [|apply sk_dom].
      rewrite K_nth_power; cbn [bind].
      rewrite !K_divide_val by (try apply pow_nonzero; assumption). cbn [bind].
      match goal with |- same_kind (acc1 <- rev RInst p a ?ml acc ;; _) _ =>
        pose proof (IHa p ml acc Hwa Hsa) as Ka end.
      rewrite Ea in Ka. apply sk_inv_val in Ka. destruct Ka as [acc1 ->]. cbn [bind].
      match goal with |- same_kind (rev RInst p b ?mr acc1) _ =>
        pose proof (IHb p mr acc1 Hwb Hsb) as Kb end.
      rewrite Eb in Kb. apply sk_inv_val in Kb. destruct Kb as [acc2 ->]. apply sk_val.
    - (* Power *)
      pose proof Hwf as [Hwa Hwb]. pose proof Hs as Hs'. apply supplies_app in Hs'.
      destruct Hs' as [Hsa Hsb].
      cbn [rev].
      destruct (Hvd p (Power a b) Hwf Hs) as [[s Es]| Es]; rewrite Es; cbn [bind]; [|apply sk_dom].
      pose proof Es as Es'. cbn [eval] in Es'.
      destruct (Hvd p a Hwa Hsa) as [[x Ea]|Ea]; rewrite Ea in Es'; cbn [bind] in Es'; [|discriminate].
      destruct (Hvd p b Hwb Hsb) as [[y Eb]|Eb]; rewrite Eb in Es'; cbn [bind] in Es'; [|discriminate].
      destruct (verify_power_cases x y) as [[Ev Hx]| Ev]; rewrite Ev in Es'; cbn [bind] in Es';
        [|discriminate].
      assert (Hsc : exists sc, power_shortcut RInst p a = Val sc).
      { unfold power_shortcut. destruct (var_free a); [|eauto]. rewrite Ea. cbn [bind]. eauto. }
      destruct Hsc as [sc ->]. cbn [bind]. destruct sc; [apply sk_val|].
      unfold power_formula_left, power_formula_right.
      repeat (first [rewrite Ea | rewrite Eb | rewrite Es | rewrite Ev]; cbn [bind]).
      rewrite K_power_val by assumption. cbn [bind].
      rewrite K_logarithm_e by assumption. cbn [bind].
      match goal with |- same_kind (acc1 <- rev RInst p a ?ml acc ;; _) _ =>
        pose proof (IHa p ml acc Hwa Hsa) as Ka end.
      rewrite Ea in Ka. apply sk_inv_val in Ka. destruct Ka as [acc1 ->]. cbn [bind].
      match goal with |- same_kind (rev RInst p b ?mr acc1) _ =>
        pose proof (IHb p mr acc1 Hwb Hsb) as Kb end.
      rewrite Eb in Kb. apply sk_inv_val in Kb. destruct Kb as [acc2 ->]. apply sk_val.
    - (* Neg *)
      cbn [rev eval unary_verify unary_formula].
      destruct (Hvd p a Hwf Hs) as [[x Ea]|Ea]; rewrite Ea; cbn [bind]; [|apply sk_dom].
      assert (IH' : forall m' acc', exists acc'', rev RInst p a m' acc' = Val acc'').
      { intros m' acc'. pose proof (IHa p m' acc' Hwf Hs) as K. rewrite Ea in K.
        exact (sk_inv_val _ _ _ _ K). }
      rev_fin IH'.
    - (* Recip *)
      cbn [rev eval unary_verify unary_formula].
      destruct (Hvd p a Hwf Hs) as [[x Ea]|Ea]; rewrite Ea; cbn [bind]; [|apply sk_dom].
      assert (IH' : forall m' acc', exists acc'', rev RInst p a m' acc' = Val acc'').
      { intros m' acc'. pose proof (IHa p m' acc' Hwf Hs) as K. rewrite Ea in K.
        exact (sk_inv_val _ _ _ _ K). }
      destruct (verify_reciprocal_cases x) as [[-> Hx]| ->]; cbn [bind]; [|apply sk_dom].
      rewrite K_nth_power; cbn [bind]. rewrite K_reciprocal_val by assumption.
      rewrite K_divide_val by (apply pow_nonzero; assumption). cbn [bind]. rev_fin IH'.
    - (* Sin *)
      cbn [rev eval unary_verify unary_formula].
      destruct (Hvd p a Hwf Hs) as [[x Ea]|Ea]; rewrite Ea; cbn [bind]; [|apply sk_dom].
      assert (IH' : forall m' acc', exists acc'', rev RInst p a m' acc' = Val acc'').
      { intros m' acc'. pose proof (IHa p m' acc' Hwf Hs) as K. rewrite Ea in K.
        exact (sk_inv_val _ _ _ _ K). }
      rewrite ?K_cosine, ?K_sine; cbn [bind]. rev_fin IH'.
    - (* Cos *)
      cbn [rev eval unary_verify unary_formula].
      destruct (Hvd p a Hwf Hs) as [[x Ea]|Ea]; rewrite Ea; cbn [bind]; [|apply sk_dom].
      assert (IH' : forall m' acc', exists acc'', rev RInst p a m' acc' = Val acc'').
      { intros m' acc'. pose proof (IHa p m' acc' Hwf Hs) as K. rewrite Ea in K.
        exact (sk_inv_val _ _ _ _ K). }
      rewrite ?K_cosine, ?K_sine; cbn [bind]. rev_fin IH'.
    - (* NthPow *)
      cbn [rev eval unary_verify unary_formula].
      destruct (Hvd p a Hwf Hs) as [[x Ea]|Ea]; rewrite Ea; cbn [bind]; [|apply sk_dom].
      assert (IH' : forall m' acc', exists acc'', rev RInst p a m' acc' = Val acc'').
      { intros m' acc'. pose proof (IHa p m' acc' Hwf Hs) as K. rewrite Ea in K.
        exact (sk_inv_val _ _ _ _ K). }
      rewrite !K_nth_power. destruct n; cbn [bind]; rev_fin IH'.
    - (* NthRoot *)
      cbn [rev]. cbn [unary_verify unary_formula].
      pose proof (Hvd p (NthRoot a n) Hwf Hs) as Vs. revert Vs. cbn [eval].
      destruct (Hvd p a Hwf Hs) as [[x Ea]|Ea]; rewrite Ea; cbn [bind]; [|intros _; apply sk_dom].
      assert (IH' : forall m' acc', exists acc'', rev RInst p a m' acc' = Val acc'').
      { intros m' acc'. pose proof (IHa p m' acc' Hwf Hs) as K. rewrite Ea in K.
        exact (sk_inv_val _ _ _ _ K). }
      destruct (K_verify_nth_root_cases x n) as [Ev|Ev]; rewrite Ev; cbn [bind];
        [|intros _; apply sk_dom].
      destruct (K_nth_root_val x n Ev) as [r [Er Hr]]. rewrite Er. intros _.
      destruct n as [q|q|]; cbn [bind]; try (rev_fin IH').
      + rewrite K_nth_power. cbn [bind].
        rewrite K_divide_val; [cbn [bind]; rev_fin IH'|].
        apply K_multiply_nz. repeat constructor.
        * simpl. apply IZR_neq. discriminate.
        * apply pow_nonzero. apply Hr. discriminate.
      + rewrite K_nth_power. cbn [bind].
        rewrite K_divide_val; [cbn [bind]; rev_fin IH'|].
        apply K_multiply_nz. repeat constructor.
        * simpl. apply IZR_neq. discriminate.
        * apply pow_nonzero. apply Hr. discriminate.
    - (* Exp *)
      destruct Hwf as [Hb Hwa]. simpl in Hb. rbool.
      cbn [rev]. cbn [unary_verify unary_formula]. cbn [eval].
      destruct (Hvd p a Hwa Hs) as [[x Ea]|Ea]; rewrite Ea; cbn [bind]; [|apply sk_dom].
      assert (IH' : forall m' acc', exists acc'', rev RInst p a m' acc' = Val acc'').
      { intros m' acc'. pose proof (IHa p m' acc' Hwa Hs) as K. rewrite Ea in K.
        exact (sk_inv_val _ _ _ _ K). }
      rewrite K_exponential_val by assumption. cbn [bind].
      destruct (neqb RInst b (n1 RInst)); cbn [bind]; [rev_fin IH'|].
      destruct (neqb RInst b (n_e RInst)); cbn [bind]; [rev_fin IH'|].
      change (n_e RInst) with (exp 1). rewrite K_logarithm_e by assumption. cbn [bind]. rev_fin IH'.
    - (* Log *)
      destruct Hwf as [Hb [Hb1 Hwa]]. simpl in Hb, Hb1. rbool.
      cbn [rev]. cbn [unary_verify unary_formula]. cbn [eval].
      destruct (Hvd p a Hwa Hs) as [[x Ea]|Ea]; rewrite Ea; cbn [bind]; [|apply sk_dom].
      assert (IH' : forall m' acc', exists acc'', rev RInst p a m' acc' = Val acc'').
      { intros m' acc'. pose proof (IHa p m' acc' Hwa Hs) as K. rewrite Ea in K.
        exact (sk_inv_val _ _ _ _ K). }
      destruct (verify_logarithm_cases x) as [[-> Hx]| ->]; cbn [bind]; [|apply sk_dom].
      rewrite (K_logarithm_val x b) by assumption.
      destruct (neqb RInst b (n_e RInst)).
      + rewrite K_divide_val by lra. cbn [bind]. rev_fin IH'.
      + change (n_e RInst) with (exp 1). rewrite K_logarithm_e by assumption. cbn [bind].
        rewrite K_divide_val; [cbn [bind]; rev_fin IH'|].
        apply K_multiply_nz. repeat constructor; [apply K_ln_nonzero; assumption|lra].
  Qed.

  Theorem rev_same_kind : C07_rev.
  Proof.
    intros p e enum Hw Hs. unfold numeric_partials.
    pose proof (rev_sk e p (n1 RInst) [] Hw Hs) as K.
    destruct (sk_cases _ _ _ _ K (Hvd p e Hw Hs)) as [[acc [x [-> ->]]]|[-> ->]]; cbn [bind];
      [apply sk_val|apply sk_dom].
  Qed.
End K.

(** ** Non-vacuity: the premises [wfR e], [supplies p e] hold on a non-trivial tree, at a point
    inside the domain and at a point outside of it (division by zero below the logarithm). *)
Definition ex_tree : expr R :=
  Log (Divide (Var 2%positive)
              (Add [Var 2%positive; Power (Const 2) (Var 3%positive);
                    NthRoot (Mul [Var 3%positive; Neg (Var 2%positive)]) 3]))
      10.

Example ex_tree_wf : wfR ex_tree.
Proof.
  simpl. repeat split; [apply Rltb_true; lra | apply Reqb_false; lra].
Qed.

Example ex_tree_supplies x y : supplies [(2%positive, x); (3%positive, y)] ex_tree.
Proof.
  intros z Hz. simpl in Hz.
  repeat (destruct Hz as [<-|Hz]; [cbn; discriminate|]). contradiction.
Qed.

(* so, given the evaluation facts, the four theorems apply to it at every such point *)
Example ex_tree_kinds (Ht : C02_total) x y v :
  same_kind (fwdR v [(2%positive, x); (3%positive, y)] ex_tree)
            (evalR [(2%positive, x); (3%positive, y)] ex_tree)
  /\ same_kind (numeric_partials RInst [(2%positive, x); (3%positive, y)] ex_tree [2%positive; 3%positive])
               (evalR [(2%positive, x); (3%positive, y)] ex_tree).
Proof.
  split.
  - apply (fwd_same_kind Ht); [apply ex_tree_wf | apply ex_tree_supplies].
  - apply (rev_same_kind Ht); [apply ex_tree_wf | apply ex_tree_supplies].
Qed.

Check fwd_same_kind.
Check rev_same_kind.
Check no_missing.
Check no_pyerr.
Print Assumptions fwd_same_kind.
Print Assumptions rev_same_kind.
Print Assumptions no_missing.
Print Assumptions no_pyerr.
