From Coq Require Import Reals ZArith List Bool.
From SM Require Import Num Syntax Outcome Eval Forward Synth RInst Denote Spec SpecMore.
From SM.proofs Require Import SynthSound.
Import ListNotations.

Theorem second_order : C05_second_order.
Proof.
  intros rho e v w Hwf Hdom s s2.
  destruct (synth_fwd_sound rho e v Hwf Hdom) as [Hwfs [Hvs [Hds _]]].
  destruct (synth_fwd_sound rho (synth_fwd RInst v e) w Hwfs Hds) as [Hwf2 [Hv2 [Hd2 Htp2]]].
  split; [|split; [|split; [|split]]].
  - exact Hwf2.
  - intros x Hx. apply Hvs. apply Hv2. exact Hx.
  - exact Hd2.
  - exact Htp2.
  - intros rho' Hd'. destruct (synth_fwd_sound rho' e v Hwf Hd') as [_ [_ [_ H]]]. exact H.
Qed.
Print Assumptions second_order.
