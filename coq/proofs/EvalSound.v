(** * EvalSound: the evaluation model [eval RInst] against the specification [denote]/[InDomain].

    Main theorems (statements in Spec.v):
      eval_total            : C02_total
      eval_sound            : C01_eval_sound
      eval_domerr_iff       : C02_domerr_iff
      at_number_sound       : C01_at_number
      eval_missing_not_val  : C14_missing_not_val
      number_accepted       : C14_number_accepted
    and the eval parts of C14_no_missing / C17_no_pyerr:
      eval_no_missing, eval_no_pyerr.
    Exported helpers: mf_multiply_R, mf_add_R, root_1, root_nonzero, root_pos, root_neg,
    mf_nth_root_R, denote_ext, InDomain_ext, supplies_* decomposition, sequence lemmas,
    eval_* equations, eval_char (the combined characterisation). *)
From Coq Require Import Reals ZArith List Bool Lra Lia.
From SM Require Import Num Syntax Outcome MathFun Eval Routes RInst Denote Spec.
Import ListNotations.
Open Scope R_scope.

(** ** Real-number facts about the primitives at RInst *)

Lemma Reqb_refl x : Reqb x x = true.
Proof. apply Reqb_true; reflexivity. Qed.

Lemma mul_loop_R : forall vs acc, mul_loop RInst acc vs = acc * fold_right Rmult 1 vs.
Proof.
  induction vs as [|a r IH]; intro acc; simpl.
  - ring.
  - destruct (Reqb a 0) eqn:E.
    + apply Reqb_true in E. subst a. ring.
    + rewrite IH. ring.
Qed.

Lemma mf_multiply_R : forall vs, mf_multiply RInst vs = fold_right Rmult 1 vs.
Proof.
  intro vs. unfold mf_multiply. rewrite mul_loop_R. simpl. ring.
Qed.

Lemma mf_add_R : forall vs, mf_add RInst vs = fold_right Rplus 0 vs.
Proof. intro vs. reflexivity. Qed.

Lemma one_over_R n : one_over RInst n = / IZR (Zpos n).
Proof. unfold one_over. simpl. unfold Rdiv. apply Rmult_1_l. Qed.

Lemma Rpower_pos x y : 0 < Rpower x y.
Proof. unfold Rpower. apply exp_pos. Qed.

Lemma root_of_pos n x : 0 < x -> root n x = Rpower x (/ IZR (Zpos n)).
Proof.
  intro H. unfold root. destruct (Rlt_dec 0 x) as [_|N]; [reflexivity|contradiction].
Qed.

Lemma root_of_neg n x : x < 0 -> root n x = - Rpower (- x) (/ IZR (Zpos n)).
Proof.
  intro H. unfold root. destruct (Rlt_dec 0 x) as [P|_]; [lra|].
  destruct (Rlt_dec x 0) as [_|N]; [reflexivity|contradiction].
Qed.

Lemma root_of_0 n : root n 0 = 0.
Proof.
  unfold root. destruct (Rlt_dec 0 0) as [P|_]; [lra|].
  destruct (Rlt_dec 0 0) as [P|_]; [lra|reflexivity].
Qed.

Lemma root_1 : forall x, root 1 x = x.
Proof.
  intro x. destruct (Rtotal_order x 0) as [H|[H|H]].
  - rewrite root_of_neg by assumption. rewrite Rinv_1, Rpower_1 by lra. ring.
  - subst x. apply root_of_0.
  - rewrite root_of_pos by assumption. rewrite Rinv_1, Rpower_1 by lra. reflexivity.
Qed.

Lemma root_pos : forall n x, 0 < x -> 0 < root n x.
Proof. intros n x H. rewrite root_of_pos by assumption. apply Rpower_pos. Qed.

Lemma root_neg : forall n x, x < 0 -> root n x < 0.
Proof.
  intros n x H. rewrite root_of_neg by assumption.
  pose proof (Rpower_pos (- x) (/ IZR (Zpos n))). lra.
Qed.

Lemma root_nonzero : forall n x, x <> 0 -> root n x <> 0.
Proof.
  intros n x H. destruct (Rtotal_order x 0) as [L|[E|G]].
  - pose proof (root_neg n x L). lra.
  - contradiction.
  - pose proof (root_pos n x G). lra.
Qed.

Lemma root_2_sqrt x : 0 < x -> root 2 x = sqrt x.
Proof. intro H. rewrite root_of_pos by assumption. apply Rpower_sqrt; assumption. Qed.

(** [mf_nth_root] on the domain of NthRoot *)
Lemma prim_pow_pos_R x y : 0 < x -> prim_pow RInst x y = Val (Rpower x y).
Proof.
  intro H. unfold prim_pow. simpl.
  assert (E0 : Reqb x 0 = false) by (apply Reqb_false; lra).
  assert (L0 : Rltb x 0 = false) by (apply Rltb_false; lra).
  rewrite E0, L0. reflexivity.
Qed.

Lemma prim_sqrt_pos_R x : 0 < x -> prim_sqrt RInst x = Val (sqrt x).
Proof.
  intro H. unfold prim_sqrt. simpl.
  assert (L0 : Rltb x 0 = false) by (apply Rltb_false; lra).
  rewrite L0. reflexivity.
Qed.

Lemma mf_nth_root_pos_R n x : 0 < x -> mf_nth_root RInst x n = Val (root n x).
Proof.
  intro H.
  assert (P : Rltb 0 x = true) by (apply Rltb_true; assumption).
  assert (G : forall m, (if Rltb 0 x then prim_pow RInst x (one_over RInst m) else DomErr)
                        = Val (root m x)).
  { intro m. rewrite P, prim_pow_pos_R, one_over_R, root_of_pos by assumption. reflexivity. }
  assert (G' : forall m (o : outcome R),
             (if Rltb 0 x then prim_pow RInst x (one_over RInst m) else o) = Val (root m x)).
  { intros m o. rewrite P, prim_pow_pos_R, one_over_R, root_of_pos by assumption. reflexivity. }
  unfold mf_nth_root.
  destruct n as [[n'|n'|]|[n'|n'|]|];
    cbn [Z.even nltb neqb nfloat ncbrt nneg RInst n0 nofZ];
    try (apply G); try (apply G').
  - (* 3 *) rewrite P. rewrite root_of_pos by assumption. reflexivity.
  - (* 2 *) rewrite P. rewrite prim_sqrt_pos_R, root_2_sqrt by assumption. reflexivity.
  - (* 1 *) rewrite root_1. reflexivity.
Qed.

Lemma mf_nth_root_neg_odd_R n x :
  x < 0 -> Z.even (Zpos n) = false -> mf_nth_root RInst x n = Val (root n x).
Proof.
  intros H Hodd.
  assert (P : Rltb 0 x = false) by (apply Rltb_false; lra).
  assert (E0 : Reqb x 0 = false) by (apply Reqb_false; lra).
  assert (G : forall m,
             (if Rltb 0 x then prim_pow RInst x (one_over RInst m)
              else if Reqb x 0 then DomErr
              else r <- prim_pow RInst (- x) (one_over RInst m) ;; Val (- r))
             = Val (root m x)).
  { intro m. rewrite P, E0, prim_pow_pos_R, one_over_R, root_of_neg by lra. reflexivity. }
  unfold mf_nth_root.
  destruct n as [[n'|n'|]|[n'|n'|]|];
    cbn [Z.even nltb neqb nfloat ncbrt nneg RInst n0 nofZ] in *;
    try discriminate; try (apply G).
  - (* 3 *) rewrite P, E0. rewrite root_of_neg by assumption. reflexivity.
  - (* 1 *) rewrite root_1. reflexivity.
Qed.

Lemma mf_nth_root_R : forall n x,
  (n = 1%positive \/ (x <> 0 /\ (Z.even (Zpos n) = true -> 0 < x))) ->
  mf_nth_root RInst x n = Val (root n x).
Proof.
  intros n x [H1|[Hx He]].
  - subst n. unfold mf_nth_root. simpl. rewrite root_1. reflexivity.
  - destruct (Rtotal_order x 0) as [L|[E|G]].
    + apply mf_nth_root_neg_odd_R; [assumption|].
      destruct (Z.even (Zpos n)) eqn:Ev; [|reflexivity].
      specialize (He eq_refl). lra.
    + contradiction.
    + apply mf_nth_root_pos_R; assumption.
Qed.

(** ** Equations of [eval] (any number interface), one per constructor *)
Section EvalEq.
  Context {T : Type} (N : NumOps T) (p : point T).
  Lemma eval_Const c : eval N p (Const c) = Val c.
  Proof. reflexivity. Qed.
  Lemma eval_Var x : eval N p (Var x) = coordinate p x.
  Proof. reflexivity. Qed.
  Lemma eval_Add l :
    eval N p (Add l) = (vs <- sequence (map (eval N p) l) ;; Val (mf_add N vs)).
  Proof. reflexivity. Qed.
  Lemma eval_Mul l :
    eval N p (Mul l) = (vs <- sequence (map (eval N p) l) ;; Val (mf_multiply N vs)).
  Proof. reflexivity. Qed.
  Lemma eval_Minus a b :
    eval N p (Minus a b) = (x <- eval N p a ;; y <- eval N p b ;; Val (mf_minus N x y)).
  Proof. reflexivity. Qed.
  Lemma eval_Divide a b :
    eval N p (Divide a b) =
    (x <- eval N p a ;; y <- eval N p b ;; _ <- verify_divide N x y ;; mf_divide N x y).
  Proof. reflexivity. Qed.
  Lemma eval_Power a b :
    eval N p (Power a b) =
    (x <- eval N p a ;; y <- eval N p b ;; _ <- verify_power N x y ;; mf_power N x y).
  Proof. reflexivity. Qed.
  Lemma eval_Neg a : eval N p (Neg a) = (x <- eval N p a ;; Val (mf_negation N x)).
  Proof. reflexivity. Qed.
  Lemma eval_Recip a :
    eval N p (Recip a) = (x <- eval N p a ;; _ <- verify_reciprocal N x ;; mf_reciprocal N x).
  Proof. reflexivity. Qed.
  Lemma eval_Sin a : eval N p (Sin a) = (x <- eval N p a ;; mf_sine N x).
  Proof. reflexivity. Qed.
  Lemma eval_Cos a : eval N p (Cos a) = (x <- eval N p a ;; mf_cosine N x).
  Proof. reflexivity. Qed.
  Lemma eval_NthPow a n : eval N p (NthPow a n) = (x <- eval N p a ;; mf_nth_power N x n).
  Proof. reflexivity. Qed.
  Lemma eval_NthRoot a n :
    eval N p (NthRoot a n) =
    (x <- eval N p a ;; _ <- verify_nth_root N x n ;; mf_nth_root N x n).
  Proof. reflexivity. Qed.
  Lemma eval_Exp a b : eval N p (Exp a b) = (x <- eval N p a ;; mf_exponential N x b).
  Proof. reflexivity. Qed.
  Lemma eval_Log a b :
    eval N p (Log a b) = (x <- eval N p a ;; _ <- verify_logarithm N x ;; mf_logarithm N x b).
  Proof. reflexivity. Qed.
End EvalEq.

(** ** [sequence] *)
Section Sequence.
  Context {A B : Type}.

  Lemma sequence_cons (o : outcome A) (r : list (outcome A)) :
    sequence (o :: r) = (x <- o ;; xs <- sequence r ;; Val (x :: xs)).
  Proof. reflexivity. Qed.

  (* every element is a value *)
  Lemma sequence_map_Val (f : B -> outcome A) (g : B -> A) (l : list B) :
    Forall (fun e => f e = Val (g e)) l -> sequence (map f l) = Val (map g l).
  Proof.
    induction 1 as [|e r He Hr IH]; [reflexivity|].
    cbn [map sequence]. rewrite He, IH. reflexivity.
  Qed.

  (* a value comes from values only *)
  Lemma sequence_Val_inv (l : list (outcome A)) (vs : list A) :
    sequence l = Val vs -> l = map Val vs.
  Proof.
    revert vs. induction l as [|o r IH]; intros vs H.
    - cbn in H. injection H as <-. reflexivity.
    - cbn [sequence] in H. destruct o as [a| | |k]; cbn [bind] in H; try discriminate.
      destruct (sequence r) as [xs| | |k]; cbn [bind] in H; try discriminate.
      injection H as <-. cbn [map]. rewrite (IH xs eq_refl). reflexivity.
  Qed.

  Lemma sequence_map_Val_inv (f : B -> outcome A) (l : list B) (vs : list A) :
    sequence (map f l) = Val vs -> Forall2 (fun e v => f e = Val v) l vs.
  Proof.
    revert vs. induction l as [|e r IH]; intros vs H.
    - cbn in H. injection H as <-. constructor.
    - cbn [map sequence] in H. destruct (f e) as [a| | |k] eqn:E; cbn [bind] in H; try discriminate.
      destruct (sequence (map f r)) as [xs| | |k]; cbn [bind] in H; try discriminate.
      injection H as <-. constructor; [assumption|]. apply IH. reflexivity.
  Qed.

  (* the first failure wins: values up to a DomErr *)
  Lemma sequence_map_DomErr (f : B -> outcome A) (g : B -> A) (l1 : list B) (e : B) (l2 : list B) :
    Forall (fun e => f e = Val (g e)) l1 -> f e = DomErr ->
    sequence (map f (l1 ++ e :: l2)) = DomErr.
  Proof.
    induction 1 as [|a r Ha Hr IH]; intro He.
    - cbn [app map sequence]. rewrite He. reflexivity.
    - cbn [app map sequence]. rewrite Ha, (IH He). reflexivity.
  Qed.

  (* an outcome of the sequence that is not a value is the outcome of one element *)
  Lemma sequence_map_fail (f : B -> outcome A) (l : list B) :
    (exists vs, sequence (map f l) = Val vs) \/
    (exists e, In e l /\
       match f e with
       | Val _ => False
       | DomErr => sequence (map f l) = DomErr
       | CoordMissing => sequence (map f l) = CoordMissing
       | PyErr k => sequence (map f l) = PyErr k
       end).
  Proof.
    induction l as [|a r IH].
    - left. exists []. reflexivity.
    - cbn [map sequence]. destruct (f a) as [x| | |k] eqn:E.
      + cbn [bind]. destruct IH as [[vs Hvs]|[e [Hin He]]].
        * left. exists (x :: vs). rewrite Hvs. reflexivity.
        * right. exists e. split; [right; assumption|].
          destruct (f e) as [y| | |k']; [contradiction| | |]; rewrite He; reflexivity.
      + right. exists a. split; [left; reflexivity|]. rewrite E. reflexivity.
      + right. exists a. split; [left; reflexivity|]. rewrite E. reflexivity.
      + right. exists a. split; [left; reflexivity|]. rewrite E. reflexivity.
  Qed.
End Sequence.

(** ** The n-ary nodes as [Forall] *)
Lemma wf_list_Forall {T} (N : NumOps T) (l : list (expr T)) :
  fold_right (fun x acc => wf N x /\ acc) True l <-> Forall (wf N) l.
Proof.
  induction l as [|a r IH]; cbn [fold_right].
  - split; intro; [constructor|exact I].
  - split.
    + intros [Ha Hr]. constructor; [assumption|apply IH; assumption].
    + intro H. inversion H as [|x y Ha Hr]; subst. split; [assumption|apply IH; assumption].
Qed.

Lemma wf_Add_Forall {T} (N : NumOps T) l : wf N (Add l) <-> Forall (wf N) l.
Proof. apply wf_list_Forall. Qed.
Lemma wf_Mul_Forall {T} (N : NumOps T) l : wf N (Mul l) <-> Forall (wf N) l.
Proof. apply wf_list_Forall. Qed.

Lemma InDomain_list_Forall rho (l : list (expr R)) :
  fold_right (fun a acc => InDomain rho a /\ acc) True l <-> Forall (InDomain rho) l.
Proof.
  induction l as [|a r IH]; cbn [fold_right].
  - split; intro; [constructor|exact I].
  - split.
    + intros [Ha Hr]. constructor; [assumption|apply IH; assumption].
    + intro H. inversion H as [|x y Ha Hr]; subst. split; [assumption|apply IH; assumption].
Qed.

Lemma InDomain_Add_Forall rho l : InDomain rho (Add l) <-> Forall (InDomain rho) l.
Proof. apply InDomain_list_Forall. Qed.
Lemma InDomain_Mul_Forall rho l : InDomain rho (Mul l) <-> Forall (InDomain rho) l.
Proof. apply InDomain_list_Forall. Qed.

Lemma denote_Add_map rho l : denote rho (Add l) = fold_right Rplus 0 (map (denote rho) l).
Proof.
  cbn [denote]. induction l as [|a r IH]; cbn [fold_right map]; [reflexivity|].
  rewrite IH. reflexivity.
Qed.

Lemma denote_Mul_map rho l : denote rho (Mul l) = fold_right Rmult 1 (map (denote rho) l).
Proof.
  cbn [denote]. induction l as [|a r IH]; cbn [fold_right map]; [reflexivity|].
  rewrite IH. reflexivity.
Qed.

(** ** [supplies] through the constructors *)
Lemma supplies_Const p c : supplies p (Const c).
Proof. intros x []. Qed.

Lemma supplies_Var p x : supplies p (Var x) <-> lookup x p <> None.
Proof.
  unfold supplies; cbn [vars]. split.
  - intro H. apply H. left. reflexivity.
  - intros H y [<-|[]]. assumption.
Qed.

Lemma supplies_flat_map p (l : list (expr R)) :
  (forall x, In x (flat_map vars l) -> lookup x p <> None) <-> Forall (supplies p) l.
Proof.
  split.
  - intro H. apply Forall_forall. intros e He x Hx. apply H.
    apply in_flat_map. exists e. split; assumption.
  - intros H x Hx. apply in_flat_map in Hx. destruct Hx as [e [He Hx]].
    rewrite Forall_forall in H. exact (H e He x Hx).
Qed.

Lemma supplies_Add p l : supplies p (Add l) <-> Forall (supplies p) l.
Proof. apply supplies_flat_map. Qed.
Lemma supplies_Mul p l : supplies p (Mul l) <-> Forall (supplies p) l.
Proof. apply supplies_flat_map. Qed.

Lemma supplies_app p (a b : expr R) :
  (forall x, In x (vars a ++ vars b) -> lookup x p <> None) <-> supplies p a /\ supplies p b.
Proof.
  split.
  - intro H. split; intros x Hx; apply H; apply in_or_app; [left|right]; assumption.
  - intros [Ha Hb] x Hx. apply in_app_or in Hx. destruct Hx as [Hx|Hx]; [apply Ha|apply Hb]; assumption.
Qed.

Lemma supplies_Minus p a b : supplies p (Minus a b) <-> supplies p a /\ supplies p b.
Proof. apply supplies_app. Qed.
Lemma supplies_Divide p a b : supplies p (Divide a b) <-> supplies p a /\ supplies p b.
Proof. apply supplies_app. Qed.
Lemma supplies_Power p a b : supplies p (Power a b) <-> supplies p a /\ supplies p b.
Proof. apply supplies_app. Qed.
Lemma supplies_Neg p a : supplies p (Neg a) <-> supplies p a.
Proof. reflexivity. Qed.
Lemma supplies_Recip p a : supplies p (Recip a) <-> supplies p a.
Proof. reflexivity. Qed.
Lemma supplies_Sin p a : supplies p (Sin a) <-> supplies p a.
Proof. reflexivity. Qed.
Lemma supplies_Cos p a : supplies p (Cos a) <-> supplies p a.
Proof. reflexivity. Qed.
Lemma supplies_NthPow p a n : supplies p (NthPow a n) <-> supplies p a.
Proof. reflexivity. Qed.
Lemma supplies_NthRoot p a n : supplies p (NthRoot a n) <-> supplies p a.
Proof. reflexivity. Qed.
Lemma supplies_Exp p a b : supplies p (Exp a b) <-> supplies p a.
Proof. reflexivity. Qed.
Lemma supplies_Log p a b : supplies p (Log a b) <-> supplies p a.
Proof. reflexivity. Qed.

Lemma coordinate_supplied p x : lookup x p <> None -> coordinate p x = Val (env_of p x).
Proof.
  intro H. unfold coordinate, env_of. destruct (lookup x p) as [v|]; [reflexivity|contradiction].
Qed.

(** ** Extensionality of the specification in the environment *)
Lemma denote_ext : forall (e : expr R) (rho rho' : env),
  (forall x, In x (vars e) -> rho x = rho' x) -> denote rho e = denote rho' e.
Proof.
  intros e rho rho'. induction e as
    [c|x|l IH|l IH|a b IHa IHb|a b IHa IHb|a b IHa IHb|a IHa|a IHa|a IHa|a IHa
    |a n IHa|a n IHa|a b IHa|a b IHa] using expr_ind'; cbn [vars denote]; intro H;
    try (rewrite IHa by (intros; apply H; try (apply in_or_app; left); assumption));
    try (rewrite IHb by (intros; apply H; apply in_or_app; right; assumption));
    try reflexivity.
  - apply H. left. reflexivity.
  - induction IH as [|a r Ha Hr IHr]; cbn [fold_right]; [reflexivity|].
    cbn [flat_map] in H. rewrite Ha, IHr; [reflexivity| |];
      intros x Hx; apply H; apply in_or_app; [right|left]; assumption.
  - induction IH as [|a r Ha Hr IHr]; cbn [fold_right]; [reflexivity|].
    cbn [flat_map] in H. rewrite Ha, IHr; [reflexivity| |];
      intros x Hx; apply H; apply in_or_app; [right|left]; assumption.
Qed.

Lemma InDomain_ext_iff : forall (e : expr R) (rho rho' : env),
  (forall x, In x (vars e) -> rho x = rho' x) -> (InDomain rho e <-> InDomain rho' e).
Proof.
  intros e rho rho'. induction e as
    [c|x|l IH|l IH|a b IHa IHb|a b IHa IHb|a b IHa IHb|a IHa|a IHa|a IHa|a IHa
    |a n IHa|a n IHa|a b IHa|a b IHa] using expr_ind'; cbn [vars InDomain]; intro H;
    try tauto.
  - induction IH as [|a r Ha Hr IHr]; cbn [fold_right]; [tauto|].
    cbn [flat_map] in H.
    rewrite Ha, IHr; [tauto| |]; intros x Hx; apply H; apply in_or_app; [right|left]; assumption.
  - induction IH as [|a r Ha Hr IHr]; cbn [fold_right]; [tauto|].
    cbn [flat_map] in H.
    rewrite Ha, IHr; [tauto| |]; intros x Hx; apply H; apply in_or_app; [right|left]; assumption.
  - assert (Ha : forall x, In x (vars a) -> rho x = rho' x)
      by (intros; apply H; apply in_or_app; left; assumption).
    assert (Hb : forall x, In x (vars b) -> rho x = rho' x)
      by (intros; apply H; apply in_or_app; right; assumption).
    rewrite (IHa Ha), (IHb Hb). tauto.
  - assert (Ha : forall x, In x (vars a) -> rho x = rho' x)
      by (intros; apply H; apply in_or_app; left; assumption).
    assert (Hb : forall x, In x (vars b) -> rho x = rho' x)
      by (intros; apply H; apply in_or_app; right; assumption).
    rewrite (IHa Ha), (IHb Hb), (denote_ext b rho rho' Hb). tauto.
  - assert (Ha : forall x, In x (vars a) -> rho x = rho' x)
      by (intros; apply H; apply in_or_app; left; assumption).
    assert (Hb : forall x, In x (vars b) -> rho x = rho' x)
      by (intros; apply H; apply in_or_app; right; assumption).
    rewrite (IHa Ha), (IHb Hb), (denote_ext a rho rho' Ha). tauto.
  - rewrite (IHa H), (denote_ext a rho rho' H). tauto.
  - rewrite (IHa H), (denote_ext a rho rho' H). tauto.
  - rewrite (IHa H), (denote_ext a rho rho' H). tauto.
Qed.

Lemma InDomain_ext : forall (e : expr R) (rho rho' : env),
  (forall x, In x (vars e) -> rho x = rho' x) -> InDomain rho e -> InDomain rho' e.
Proof. intros e rho rho' H. exact (proj1 (InDomain_ext_iff e rho rho' H)). Qed.

(** ** The node-local steps (domain check, then value formula) at RInst *)
Ltac rbool :=
  repeat match goal with
  | H : ?x = ?y |- context [Reqb ?x ?y] => rewrite (proj2 (Reqb_true x y) H)
  | H : ?x <> ?y |- context [Reqb ?x ?y] => rewrite (proj2 (Reqb_false x y) H)
  | H : ?x < ?y |- context [Rltb ?x ?y] => rewrite (proj2 (Rltb_true x y) H)
  | H : ~ ?x < ?y |- context [Rltb ?x ?y] => rewrite (proj2 (Rltb_false x y) H)
  end.

Lemma step_divide_ok x y :
  y <> 0 -> (_ <- verify_divide RInst x y ;; mf_divide RInst x y) = Val (x / y).
Proof.
  intro H. unfold verify_divide, mf_divide, prim_div. simpl. rbool. reflexivity.
Qed.

Lemma step_divide_bad x y :
  y = 0 -> (_ <- verify_divide RInst x y ;; mf_divide RInst x y) = DomErr.
Proof.
  intro H. unfold verify_divide. simpl. rbool. reflexivity.
Qed.

Lemma step_power_ok x y :
  0 < x -> (_ <- verify_power RInst x y ;; mf_power RInst x y) = Val (Rpower x y).
Proof.
  intro H. assert (H0 : x <> 0) by lra. assert (H1 : ~ x < 0) by lra.
  unfold verify_power, mf_power. simpl. rbool. cbn [bind].
  rewrite prim_pow_pos_R by assumption. reflexivity.
Qed.

Lemma step_power_bad x y :
  ~ 0 < x -> (_ <- verify_power RInst x y ;; mf_power RInst x y) = DomErr.
Proof.
  intro H. unfold verify_power. simpl.
  destruct (Req_EM_T x 0) as [E|E]; rbool; [reflexivity|].
  assert (H1 : x < 0) by lra. rbool. reflexivity.
Qed.

Lemma step_recip_ok x :
  x <> 0 -> (_ <- verify_reciprocal RInst x ;; mf_reciprocal RInst x) = Val (/ x).
Proof.
  intro H. unfold verify_reciprocal, mf_reciprocal, prim_div. simpl. rbool. cbn [bind].
  unfold Rdiv. rewrite Rmult_1_l. reflexivity.
Qed.

Lemma step_recip_bad x :
  x = 0 -> (_ <- verify_reciprocal RInst x ;; mf_reciprocal RInst x) = DomErr.
Proof.
  intro H. unfold verify_reciprocal. simpl. rbool. reflexivity.
Qed.

Definition root_dom (n : positive) (x : R) : Prop :=
  n = 1%positive \/ (x <> 0 /\ (Z.even (Zpos n) = true -> 0 < x)).

Lemma root_dom_dec n x : root_dom n x \/ ~ root_dom n x.
Proof.
  unfold root_dom. destruct (Pos.eq_dec n 1) as [E|E]; [left; left; assumption|].
  destruct (Req_EM_T x 0) as [E0|E0]; [right; intros [H|[H _]]; contradiction|].
  destruct (Z.even (Zpos n)) eqn:Ev.
  - destruct (Rlt_dec 0 x) as [P|P].
    + left. right. split; [assumption|intros _; assumption].
    + right. intros [H|[_ H]]; [contradiction|]. apply P, H. reflexivity.
  - left. right. split; [assumption|discriminate].
Qed.

Lemma verify_nth_root_ok n x : root_dom n x -> verify_nth_root RInst x n = Val tt.
Proof.
  intros [H|[H0 He]]; unfold verify_nth_root; simpl.
  - subst n. reflexivity.
  - rbool. rewrite andb_false_r.
    destruct n as [n'|n'|]; try reflexivity.
    assert (P : 0 < x) by (apply He; reflexivity).
    assert (H1 : ~ x < 0) by lra. rbool. reflexivity.
Qed.

Lemma verify_nth_root_bad n x : ~ root_dom n x -> verify_nth_root RInst x n = DomErr.
Proof.
  intro H. unfold verify_nth_root; simpl.
  assert (L : (2 <=? n)%positive = true).
  { apply Pos.leb_le. destruct (Pos.eq_dec n 1) as [E|E]; [|lia].
    exfalso. apply H. left. assumption. }
  rewrite L. cbn [andb].
  destruct (Req_EM_T x 0) as [E|E]; rbool; [reflexivity|].
  destruct n as [n'|n'|].
  - exfalso. apply H. right. split; [assumption|]. cbn. discriminate.
  - cbn [andb]. assert (H1 : x < 0).
    { destruct (Rlt_dec x 0) as [P|P]; [assumption|]. exfalso. apply H. right.
      split; [assumption|]. intros _. lra. }
    rbool. reflexivity.
  - discriminate L.
Qed.

Lemma step_nth_root_ok n x :
  root_dom n x -> (_ <- verify_nth_root RInst x n ;; mf_nth_root RInst x n) = Val (root n x).
Proof.
  intro H. rewrite verify_nth_root_ok by assumption. cbn [bind]. apply mf_nth_root_R, H.
Qed.

Lemma step_nth_root_bad n x :
  ~ root_dom n x -> (_ <- verify_nth_root RInst x n ;; mf_nth_root RInst x n) = DomErr.
Proof. intro H. rewrite verify_nth_root_bad by assumption. reflexivity. Qed.

Lemma mf_exponential_R x b : 0 < b -> mf_exponential RInst x b = Val (Rpower b x).
Proof.
  intro H. assert (H0 : b <> 0) by lra. assert (H1 : ~ b < 0) by lra.
  unfold mf_exponential, nleb. simpl. rbool. cbn [orb].
  rewrite prim_pow_pos_R by assumption. reflexivity.
Qed.

Lemma ln_eq_0 b : 0 < b -> ln b = 0 -> b = 1.
Proof.
  intros Hb H. destruct (Req_EM_T b 1) as [E|E]; [assumption|].
  exfalso. exact (ln_neq_0 b E Hb H).
Qed.

Lemma mf_logarithm_R x b :
  0 < b -> b <> 1 -> 0 < x -> mf_logarithm RInst x b = Val (ln x / ln b).
Proof.
  intros Hb Hb1 Hx.
  assert (H0 : b <> 0) by lra. assert (H1 : ~ b < 0) by lra.
  assert (H2 : x <> 0) by lra. assert (H3 : ~ x < 0) by lra.
  assert (H4 : ln b <> 0) by (intro E; apply Hb1, ln_eq_0; assumption).
  unfold mf_logarithm, prim_log, nleb. simpl. rbool. reflexivity.
Qed.

Lemma step_log_ok x b :
  0 < b -> b <> 1 -> 0 < x ->
  (_ <- verify_logarithm RInst x ;; mf_logarithm RInst x b) = Val (ln x / ln b).
Proof.
  intros Hb Hb1 Hx. assert (H2 : x <> 0) by lra. assert (H3 : ~ x < 0) by lra.
  unfold verify_logarithm. simpl. rbool. cbn [bind]. apply mf_logarithm_R; assumption.
Qed.

Lemma step_log_bad x b :
  ~ 0 < x -> (_ <- verify_logarithm RInst x ;; mf_logarithm RInst x b) = DomErr.
Proof.
  intro H. unfold verify_logarithm. simpl.
  destruct (Req_EM_T x 0) as [E|E]; rbool; [reflexivity|].
  assert (H1 : x < 0) by lra. rbool. reflexivity.
Qed.

Lemma mf_sine_R x : mf_sine RInst x = Val (sin x).
Proof. reflexivity. Qed.
Lemma mf_cosine_R x : mf_cosine RInst x = Val (cos x).
Proof. reflexivity. Qed.
Lemma mf_nth_power_R x n : mf_nth_power RInst x n = Val (x ^ Pos.to_nat n).
Proof. reflexivity. Qed.
Lemma mf_minus_R x y : mf_minus RInst x y = x - y.
Proof. reflexivity. Qed.
Lemma mf_negation_R x : mf_negation RInst x = - x.
Proof. reflexivity. Qed.

Lemma wf_Exp_R a b : wfR (Exp a b) <-> 0 < b /\ wfR a.
Proof. cbn [wf]. change (nltb RInst (n0 RInst) b) with (Rltb 0 b). rewrite Rltb_true. tauto. Qed.

Lemma wf_Log_R a b : wfR (Log a b) <-> 0 < b /\ b <> 1 /\ wfR a.
Proof.
  cbn [wf]. change (nltb RInst (n0 RInst) b) with (Rltb 0 b).
  change (neqb RInst b (n1 RInst)) with (Reqb b 1).
  rewrite Rltb_true, Reqb_false. tauto.
Qed.

(** ** The characterisation of [eval RInst] by [denote] / [InDomain] *)
Definition eval_char_at (p : point R) (e : expr R) : Prop :=
  (InDomain (env_of p) e /\ evalR p e = Val (denote (env_of p) e)) \/
  (~ InDomain (env_of p) e /\ evalR p e = DomErr).

Lemma eval_list_char p l :
  Forall (eval_char_at p) l ->
  (Forall (InDomain (env_of p)) l /\
   sequence (map (evalR p) l) = Val (map (denote (env_of p)) l)) \/
  (~ Forall (InDomain (env_of p)) l /\ sequence (map (evalR p) l) = DomErr).
Proof.
  induction 1 as [|a r Ha Hr IH].
  - left. split; [constructor|reflexivity].
  - cbn [map sequence]. destruct Ha as [[Da Ea]|[Da Ea]]; rewrite Ea; cbn [bind].
    + destruct IH as [[Dr Er]|[Dr Er]]; rewrite Er; cbn [bind].
      * left. split; [constructor; assumption|reflexivity].
      * right. split; [|reflexivity]. intro H. inversion H; subst. contradiction.
    + right. split; [|reflexivity]. intro H. inversion H; subst. contradiction.
Qed.

Lemma Forall_char p (l : list (expr R)) :
  Forall (fun e => wfR e -> supplies p e -> eval_char_at p e) l ->
  Forall wfR l -> Forall (supplies p) l -> Forall (eval_char_at p) l.
Proof.
  rewrite !Forall_forall. intros IH W S e He. apply IH; auto.
Qed.

Theorem eval_char : forall p e, wfR e -> supplies p e -> eval_char_at p e.
Proof.
  intros p e. induction e as
    [c|x|l IH|l IH|a b IHa IHb|a b IHa IHb|a b IHa IHb|a IHa|a IHa|a IHa|a IHa
    |a n IHa|a n IHa|a b IHa|a b IHa] using expr_ind'; intros W S; unfold eval_char_at.
  - (* Const *) left. split; [exact I|reflexivity].
  - (* Var *) left. split; [exact I|]. rewrite eval_Var. apply coordinate_supplied.
    apply supplies_Var. assumption.
  - (* Add *)
    apply wf_Add_Forall in W. apply supplies_Add in S.
    destruct (eval_list_char p l (Forall_char p l IH W S)) as [[D E]|[D E]];
      rewrite eval_Add, E; cbn [bind].
    + left. split; [apply InDomain_Add_Forall; assumption|].
      rewrite mf_add_R, denote_Add_map. reflexivity.
    + right. split; [rewrite InDomain_Add_Forall; assumption|reflexivity].
  - (* Mul *)
    apply wf_Mul_Forall in W. apply supplies_Mul in S.
    destruct (eval_list_char p l (Forall_char p l IH W S)) as [[D E]|[D E]];
      rewrite eval_Mul, E; cbn [bind].
    + left. split; [apply InDomain_Mul_Forall; assumption|].
      rewrite mf_multiply_R, denote_Mul_map. reflexivity.
    + right. split; [rewrite InDomain_Mul_Forall; assumption|reflexivity].
  - (* Minus *)
    destruct W as [Wa Wb]. apply supplies_Minus in S. destruct S as [Sa Sb].
    rewrite eval_Minus.
    destruct (IHa Wa Sa) as [[Da Ea]|[Da Ea]]; rewrite Ea; cbn [bind];
      [|right; split; [cbn [InDomain]; tauto|reflexivity]].
    destruct (IHb Wb Sb) as [[Db Eb]|[Db Eb]]; rewrite Eb; cbn [bind];
      [|right; split; [cbn [InDomain]; tauto|reflexivity]].
    left. split; [cbn [InDomain]; tauto|reflexivity].
  - (* Divide *)
    destruct W as [Wa Wb]. apply supplies_Divide in S. destruct S as [Sa Sb].
    rewrite eval_Divide.
    destruct (IHa Wa Sa) as [[Da Ea]|[Da Ea]]; rewrite Ea; cbn [bind];
      [|right; split; [cbn [InDomain]; tauto|reflexivity]].
    destruct (IHb Wb Sb) as [[Db Eb]|[Db Eb]]; rewrite Eb; cbn [bind];
      [|right; split; [cbn [InDomain]; tauto|reflexivity]].
    destruct (Req_EM_T (denote (env_of p) b) 0) as [Z|Z].
    + right. split; [cbn [InDomain]; tauto|]. apply step_divide_bad; assumption.
    + left. split; [cbn [InDomain]; tauto|]. apply step_divide_ok; assumption.
  - (* Power *)
    destruct W as [Wa Wb]. apply supplies_Power in S. destruct S as [Sa Sb].
    rewrite eval_Power.
    destruct (IHa Wa Sa) as [[Da Ea]|[Da Ea]]; rewrite Ea; cbn [bind];
      [|right; split; [cbn [InDomain]; tauto|reflexivity]].
    destruct (IHb Wb Sb) as [[Db Eb]|[Db Eb]]; rewrite Eb; cbn [bind];
      [|right; split; [cbn [InDomain]; tauto|reflexivity]].
    destruct (Rlt_dec 0 (denote (env_of p) a)) as [Z|Z].
    + left. split; [cbn [InDomain]; tauto|]. apply step_power_ok; assumption.
    + right. split; [cbn [InDomain]; tauto|]. apply step_power_bad; assumption.
  - (* Neg *)
    cbn [wf] in W. apply supplies_Neg in S. rewrite eval_Neg.
    destruct (IHa W S) as [[Da Ea]|[Da Ea]]; rewrite Ea; cbn [bind];
      [|right; split; [cbn [InDomain]; tauto|reflexivity]].
    left. split; [cbn [InDomain]; tauto|reflexivity].
  - (* Recip *)
    cbn [wf] in W. apply supplies_Recip in S. rewrite eval_Recip.
    destruct (IHa W S) as [[Da Ea]|[Da Ea]]; rewrite Ea; cbn [bind];
      [|right; split; [cbn [InDomain]; tauto|reflexivity]].
    destruct (Req_EM_T (denote (env_of p) a) 0) as [Z|Z].
    + right. split; [cbn [InDomain]; tauto|]. apply step_recip_bad; assumption.
    + left. split; [cbn [InDomain]; tauto|]. apply step_recip_ok; assumption.
  - (* Sin *)
    cbn [wf] in W. apply supplies_Sin in S. rewrite eval_Sin.
    destruct (IHa W S) as [[Da Ea]|[Da Ea]]; rewrite Ea; cbn [bind];
      [|right; split; [cbn [InDomain]; tauto|reflexivity]].
    left. split; [cbn [InDomain]; tauto|reflexivity].
  - (* Cos *)
    cbn [wf] in W. apply supplies_Cos in S. rewrite eval_Cos.
    destruct (IHa W S) as [[Da Ea]|[Da Ea]]; rewrite Ea; cbn [bind];
      [|right; split; [cbn [InDomain]; tauto|reflexivity]].
    left. split; [cbn [InDomain]; tauto|reflexivity].
  - (* NthPow *)
    cbn [wf] in W. apply supplies_NthPow in S. rewrite eval_NthPow.
    destruct (IHa W S) as [[Da Ea]|[Da Ea]]; rewrite Ea; cbn [bind];
      [|right; split; [cbn [InDomain]; tauto|reflexivity]].
    left. split; [cbn [InDomain]; tauto|reflexivity].
  - (* NthRoot *)
    cbn [wf] in W. apply supplies_NthRoot in S. rewrite eval_NthRoot.
    destruct (IHa W S) as [[Da Ea]|[Da Ea]]; rewrite Ea; cbn [bind];
      [|right; split; [cbn [InDomain]; tauto|reflexivity]].
    destruct (root_dom_dec n (denote (env_of p) a)) as [Z|Z].
    + left. split; [cbn [InDomain]; split; assumption|]. apply step_nth_root_ok; assumption.
    + right. split; [cbn [InDomain]; intros [_ H]; apply Z, H|].
      apply step_nth_root_bad; assumption.
  - (* Exp *)
    apply wf_Exp_R in W. destruct W as [Hb W]. apply supplies_Exp in S. rewrite eval_Exp.
    destruct (IHa W S) as [[Da Ea]|[Da Ea]]; rewrite Ea; cbn [bind];
      [|right; split; [cbn [InDomain]; tauto|reflexivity]].
    left. split; [cbn [InDomain]; tauto|]. apply mf_exponential_R; assumption.
  - (* Log *)
    apply wf_Log_R in W. destruct W as [Hb [Hb1 W]]. apply supplies_Log in S. rewrite eval_Log.
    destruct (IHa W S) as [[Da Ea]|[Da Ea]]; rewrite Ea; cbn [bind];
      [|right; split; [cbn [InDomain]; tauto|reflexivity]].
    destruct (Rlt_dec 0 (denote (env_of p) a)) as [Z|Z].
    + left. split; [cbn [InDomain]; tauto|]. apply step_log_ok; assumption.
    + right. split; [cbn [InDomain]; tauto|]. apply step_log_bad; assumption.
Qed.

Lemma eval_in_domain p e :
  wfR e -> supplies p e -> InDomain (env_of p) e -> evalR p e = Val (denote (env_of p) e).
Proof.
  intros W S D. destruct (eval_char p e W S) as [[_ E]|[ND _]]; [assumption|contradiction].
Qed.

Lemma eval_not_in_domain p e :
  wfR e -> supplies p e -> ~ InDomain (env_of p) e -> evalR p e = DomErr.
Proof.
  intros W S D. destruct (eval_char p e W S) as [[D' _]|[_ E]]; [contradiction|assumption].
Qed.

(** the domain is decidable at a point that supplies the variables *)
Lemma InDomain_dec_supplied p e :
  wfR e -> supplies p e -> InDomain (env_of p) e \/ ~ InDomain (env_of p) e.
Proof.
  intros W S. destruct (eval_char p e W S) as [[D _]|[D _]]; [left|right]; assumption.
Qed.

Theorem eval_total : C02_total.
Proof.
  intros p e W S. destruct (eval_char p e W S) as [[_ E]|[_ E]]; [left|right]; assumption.
Qed.

Theorem eval_sound : C01_eval_sound.
Proof. intros p e W S D. apply eval_in_domain; assumption. Qed.

Theorem eval_domerr_iff : C02_domerr_iff.
Proof.
  intros p e W S. split.
  - intros E D. rewrite (eval_in_domain p e W S D) in E. discriminate.
  - apply eval_not_in_domain; assumption.
Qed.

(** ** Which outcomes [eval RInst] can produce (no [wf], no [supplies] needed) *)

(* a value or a DomainError *)
Definition vd {A} (o : outcome A) : Prop := (exists r, o = Val r) \/ o = DomErr.

Lemma vd_Val {A} (a : A) : vd (Val a).
Proof. left. exists a. reflexivity. Qed.
Lemma vd_DomErr {A} : vd (@DomErr A).
Proof. right. reflexivity. Qed.

Lemma vd_step_divide x y : vd (_ <- verify_divide RInst x y ;; mf_divide RInst x y).
Proof.
  destruct (Req_EM_T y 0) as [Z|Z].
  - rewrite step_divide_bad by assumption. apply vd_DomErr.
  - rewrite step_divide_ok by assumption. apply vd_Val.
Qed.

Lemma vd_step_power x y : vd (_ <- verify_power RInst x y ;; mf_power RInst x y).
Proof.
  destruct (Rlt_dec 0 x) as [Z|Z].
  - rewrite step_power_ok by assumption. apply vd_Val.
  - rewrite step_power_bad by assumption. apply vd_DomErr.
Qed.

Lemma vd_step_recip x : vd (_ <- verify_reciprocal RInst x ;; mf_reciprocal RInst x).
Proof.
  destruct (Req_EM_T x 0) as [Z|Z].
  - rewrite step_recip_bad by assumption. apply vd_DomErr.
  - rewrite step_recip_ok by assumption. apply vd_Val.
Qed.

Lemma vd_step_nth_root n x : vd (_ <- verify_nth_root RInst x n ;; mf_nth_root RInst x n).
Proof.
  destruct (root_dom_dec n x) as [Z|Z].
  - rewrite step_nth_root_ok by assumption. apply vd_Val.
  - rewrite step_nth_root_bad by assumption. apply vd_DomErr.
Qed.

Lemma mf_exponential_bad x b : ~ 0 < b -> mf_exponential RInst x b = DomErr.
Proof.
  intro H. unfold mf_exponential, nleb. simpl.
  destruct (Req_EM_T b 0) as [E|E]; rbool; [rewrite orb_true_r; reflexivity|].
  assert (H1 : b < 0) by lra. rbool. reflexivity.
Qed.

Lemma vd_mf_exponential x b : vd (mf_exponential RInst x b).
Proof.
  destruct (Rlt_dec 0 b) as [Z|Z].
  - rewrite mf_exponential_R by assumption. apply vd_Val.
  - rewrite mf_exponential_bad by assumption. apply vd_DomErr.
Qed.

Lemma mf_logarithm_bad_base x b : ~ 0 < b \/ b = 1 -> mf_logarithm RInst x b = DomErr.
Proof.
  intro H. unfold mf_logarithm, nleb. simpl.
  destruct (Rlt_dec 0 b) as [P|P].
  - destruct H as [H|H]; [contradiction|].
    assert (H0 : b <> 0) by lra. assert (H1 : ~ b < 0) by lra. rbool. reflexivity.
  - destruct (Req_EM_T b 0) as [E|E]; rbool; [rewrite orb_true_r; reflexivity|].
    assert (H1 : b < 0) by lra. rbool. reflexivity.
Qed.

Lemma vd_step_log x b : vd (_ <- verify_logarithm RInst x ;; mf_logarithm RInst x b).
Proof.
  destruct (Rlt_dec 0 x) as [Z|Z].
  - destruct (Rlt_dec 0 b) as [Hb|Hb].
    + destruct (Req_EM_T b 1) as [E|E].
      * assert (H2 : x <> 0) by lra. assert (H3 : ~ x < 0) by lra.
        unfold verify_logarithm. simpl. rbool. cbn [bind].
        rewrite mf_logarithm_bad_base by (right; assumption). apply vd_DomErr.
      * rewrite step_log_ok by assumption. apply vd_Val.
    + assert (H2 : x <> 0) by lra. assert (H3 : ~ x < 0) by lra.
      unfold verify_logarithm. simpl. rbool. cbn [bind].
      rewrite mf_logarithm_bad_base by (left; assumption). apply vd_DomErr.
  - rewrite step_log_bad by assumption. apply vd_DomErr.
Qed.

(* a value (then every variable was supplied), a DomainError, or CoordinateMissing (then some
   variable was not supplied); never another Python exception *)
Definition eval_shape_at (p : point R) (e : expr R) : Prop :=
  ((exists r, evalR p e = Val r) /\ supplies p e) \/
  evalR p e = DomErr \/
  (evalR p e = CoordMissing /\ ~ supplies p e).

Lemma eval_list_shape p l :
  Forall (eval_shape_at p) l ->
  ((exists vs, sequence (map (evalR p) l) = Val vs) /\ Forall (supplies p) l) \/
  sequence (map (evalR p) l) = DomErr \/
  (sequence (map (evalR p) l) = CoordMissing /\ ~ Forall (supplies p) l).
Proof.
  induction 1 as [|a r Ha Hr IH].
  - left. split; [exists []; reflexivity|constructor].
  - cbn [map sequence]. destruct Ha as [[[x Ea] Sa]|[Ea|[Ea Sa]]]; rewrite Ea; cbn [bind].
    + destruct IH as [[[vs Er] Sr]|[Er|[Er Sr]]]; rewrite Er; cbn [bind].
      * left. split; [exists (x :: vs); reflexivity|constructor; assumption].
      * right. left. reflexivity.
      * right. right. split; [reflexivity|]. intro H. inversion H; subst. contradiction.
    + right. left. reflexivity.
    + right. right. split; [reflexivity|]. intro H. inversion H; subst. contradiction.
Qed.

Lemma shape_nary p l (k : list R -> R) e' :
  Forall (eval_shape_at p) l ->
  (supplies p e' <-> Forall (supplies p) l) ->
  evalR p e' = (vs <- sequence (map (evalR p) l) ;; Val (k vs)) ->
  eval_shape_at p e'.
Proof.
  intros HF HS HE. unfold eval_shape_at. rewrite HE, HS.
  destruct (eval_list_shape p l HF) as [[[vs E] S]|[E|[E S]]]; rewrite E; cbn [bind].
  - left. split; [exists (k vs); reflexivity|assumption].
  - right. left. reflexivity.
  - right. right. split; [reflexivity|assumption].
Qed.

Lemma shape_unary p a (k : R -> outcome R) e' :
  eval_shape_at p a -> (forall x, vd (k x)) ->
  (supplies p e' <-> supplies p a) ->
  evalR p e' = (x <- evalR p a ;; k x) ->
  eval_shape_at p e'.
Proof.
  intros Ha Hk HS HE. unfold eval_shape_at. rewrite HE, HS.
  destruct Ha as [[[x Ea] Sa]|[Ea|[Ea Sa]]]; rewrite Ea; cbn [bind].
  - destruct (Hk x) as [[r E]|E]; rewrite E.
    + left. split; [exists r; reflexivity|assumption].
    + right. left. reflexivity.
  - right. left. reflexivity.
  - right. right. split; [reflexivity|assumption].
Qed.

Lemma shape_binary p a b (k : R -> R -> outcome R) e' :
  eval_shape_at p a -> eval_shape_at p b -> (forall x y, vd (k x y)) ->
  (supplies p e' <-> supplies p a /\ supplies p b) ->
  evalR p e' = (x <- evalR p a ;; y <- evalR p b ;; k x y) ->
  eval_shape_at p e'.
Proof.
  intros Ha Hb Hk HS HE. unfold eval_shape_at. rewrite HE, HS.
  destruct Ha as [[[x Ea] Sa]|[Ea|[Ea Sa]]]; rewrite Ea; cbn [bind].
  - destruct Hb as [[[y Eb] Sb]|[Eb|[Eb Sb]]]; rewrite Eb; cbn [bind].
    + destruct (Hk x y) as [[r E]|E]; rewrite E.
      * left. split; [exists r; reflexivity|split; assumption].
      * right. left. reflexivity.
    + right. left. reflexivity.
    + right. right. split; [reflexivity|tauto].
  - right. left. reflexivity.
  - right. right. split; [reflexivity|tauto].
Qed.

Theorem eval_shape : forall p e, eval_shape_at p e.
Proof.
  intros p e. induction e as
    [c|x|l IH|l IH|a b IHa IHb|a b IHa IHb|a b IHa IHb|a IHa|a IHa|a IHa|a IHa
    |a n IHa|a n IHa|a b IHa|a b IHa] using expr_ind'.
  - left. split; [exists c; reflexivity|apply supplies_Const].
  - unfold eval_shape_at. rewrite eval_Var, supplies_Var. unfold coordinate.
    destruct (lookup x p) as [v|].
    + left. split; [exists v; reflexivity|discriminate].
    + right. right. split; [reflexivity|]. intro H. apply H. reflexivity.
  - exact (shape_nary p l (mf_add RInst) _ IH (supplies_Add p l) (eval_Add RInst p l)).
  - exact (shape_nary p l (mf_multiply RInst) _ IH (supplies_Mul p l) (eval_Mul RInst p l)).
  - exact (shape_binary p a b (fun x y => Val (mf_minus RInst x y)) _ IHa IHb
             (fun x y => vd_Val _) (supplies_Minus p a b) (eval_Minus RInst p a b)).
  - exact (shape_binary p a b _ _ IHa IHb vd_step_divide
             (supplies_Divide p a b) (eval_Divide RInst p a b)).
  - exact (shape_binary p a b _ _ IHa IHb vd_step_power
             (supplies_Power p a b) (eval_Power RInst p a b)).
  - exact (shape_unary p a (fun x => Val (mf_negation RInst x)) _ IHa
             (fun x => vd_Val _) (supplies_Neg p a) (eval_Neg RInst p a)).
  - exact (shape_unary p a _ _ IHa vd_step_recip (supplies_Recip p a) (eval_Recip RInst p a)).
  - exact (shape_unary p a _ _ IHa (fun x => vd_Val (sin x))
             (supplies_Sin p a) (eval_Sin RInst p a)).
  - exact (shape_unary p a _ _ IHa (fun x => vd_Val (cos x))
             (supplies_Cos p a) (eval_Cos RInst p a)).
  - exact (shape_unary p a _ _ IHa (fun x => vd_Val (x ^ Pos.to_nat n))
             (supplies_NthPow p a n) (eval_NthPow RInst p a n)).
  - exact (shape_unary p a _ _ IHa (vd_step_nth_root n)
             (supplies_NthRoot p a n) (eval_NthRoot RInst p a n)).
  - exact (shape_unary p a _ _ IHa (fun x => vd_mf_exponential x b)
             (supplies_Exp p a b) (eval_Exp RInst p a b)).
  - exact (shape_unary p a _ _ IHa (fun x => vd_step_log x b)
             (supplies_Log p a b) (eval_Log RInst p a b)).
Qed.

(** the eval part of C14_no_missing *)
Lemma eval_no_missing : forall p e, supplies p e -> evalR p e <> CoordMissing.
Proof.
  intros p e S E. destruct (eval_shape p e) as [[[r Er] _]|[Er|[_ NS]]].
  - rewrite Er in E. discriminate.
  - rewrite Er in E. discriminate.
  - contradiction.
Qed.

(** the eval part of C17_no_pyerr (holds for every tree and every point) *)
Lemma eval_no_pyerr_gen : forall p e k, evalR p e <> PyErr k.
Proof.
  intros p e k E. destruct (eval_shape p e) as [[[r Er] _]|[Er|[Er _]]];
    rewrite Er in E; discriminate.
Qed.

Lemma eval_no_pyerr : forall p e k, wfR e -> evalR p e <> PyErr k.
Proof. intros p e k _. apply eval_no_pyerr_gen. Qed.

Lemma eval_Val_supplies p e r : evalR p e = Val r -> supplies p e.
Proof.
  intro E. destruct (eval_shape p e) as [[_ S]|[Er|[Er _]]]; [assumption| |];
    rewrite Er in E; discriminate.
Qed.

Theorem eval_missing_not_val : C14_missing_not_val.
Proof. intros p e NS r E. apply NS. exact (eval_Val_supplies p e r E). Qed.

(** ** Expression.at(number) *)
Lemma In_var_names (e : expr R) x : In x (vars e) <-> In x (var_names e).
Proof. unfold var_names. symmetry. apply nodup_In. Qed.

Theorem at_number_sound : C01_at_number.
Proof.
  intros e x Hlen. unfold at_number, the_single_variable_name.
  destruct (var_names e) as [|v [|w r]] eqn:E.
  - exists whatever. split; [reflexivity|]. intros y Hy. exfalso.
    apply In_var_names in Hy. rewrite E in Hy. contradiction.
  - exists v. split; [reflexivity|]. intros y Hy.
    apply In_var_names in Hy. rewrite E in Hy. destruct Hy as [<-|[]].
    cbn [lookup]. unfold name_eqb. rewrite Pos.eqb_refl. discriminate.
  - cbn [length] in Hlen. lia.
Qed.

Theorem number_accepted : C14_number_accepted.
Proof.
  intros e x. unfold at_number, derivative_variable, the_single_variable_name.
  destruct (var_names e) as [|v [|w r]]; cbn [length]; split; split; intro H;
    try lia; try discriminate; try (exfalso; apply H; reflexivity).
Qed.

(** ** The domain is decidable (in Prop) in every environment.
    (Every node-local condition is decidable by [Req_EM_T]/[Rlt_dec], which rest on the
    classical real-number axioms anyway; [classic] is used directly.) *)
Lemma InDomain_dec : forall rho (e : expr R), InDomain rho e \/ ~ InDomain rho e.
Proof. intros rho e. apply Classical_Prop.classic. Qed.

(** ** The n-ary nodes: what the evaluated argument list is *)
Lemma eval_sequence_Val p (l : list (expr R)) :
  Forall wfR l -> Forall (supplies p) l -> Forall (InDomain (env_of p)) l ->
  sequence (map (evalR p) l) = Val (map (denote (env_of p)) l).
Proof.
  intros W S D. apply sequence_map_Val.
  rewrite Forall_forall in *. intros e He. apply eval_in_domain; auto.
Qed.

Lemma eval_sequence_DomErr p (l : list (expr R)) :
  Forall wfR l -> Forall (supplies p) l -> ~ Forall (InDomain (env_of p)) l ->
  sequence (map (evalR p) l) = DomErr.
Proof.
  intros W S D.
  assert (F : Forall (eval_char_at p) l).
  { rewrite Forall_forall in *. intros e He. apply eval_char; auto. }
  destruct (eval_list_char p l F) as [[D' _]|[_ E]]; [contradiction|assumption].
Qed.

Lemma Forall2_In_l {A B} (P : A -> B -> Prop) l l' a :
  Forall2 P l l' -> In a l -> exists b, P a b.
Proof.
  induction 1 as [|x y r r' Hxy Hr IH]; intros [].
  - subst. exists y. assumption.
  - apply IH. assumption.
Qed.

(* a value of the list of arguments: every argument is supplied, in domain (under wf), and the
   values are the denotations *)
Lemma eval_sequence_Val_inv p (l : list (expr R)) vs :
  Forall wfR l -> sequence (map (evalR p) l) = Val vs ->
  Forall (supplies p) l /\ Forall (InDomain (env_of p)) l /\ vs = map (denote (env_of p)) l.
Proof.
  intros W E.
  assert (S : Forall (supplies p) l).
  { apply sequence_map_Val_inv in E. apply Forall_forall. intros e He.
    destruct (Forall2_In_l _ _ _ e E He) as [v Hv]. exact (eval_Val_supplies p e v Hv). }
  split; [assumption|].
  assert (F : Forall (eval_char_at p) l).
  { rewrite Forall_forall in *. intros e He. apply eval_char; auto. }
  destruct (eval_list_char p l F) as [[D E']|[_ E']]; rewrite E' in E; [|discriminate].
  injection E as <-. split; [assumption|reflexivity].
Qed.

(** ** Non-vacuity: the premises hold on non-trivial trees, and each outcome occurs *)
Local Notation ex_e :=
  (Divide (Mul [Var 1%positive; Const 2; Log (Exp (Var 1%positive) 2) 10])
          (NthRoot (Add [Var 2%positive; Const 1]) 2)).
Local Notation ex_p := [(1%positive, 3); (2%positive, 4)].

Example eval_sound_nonvacuous :
  wfR ex_e /\ supplies ex_p ex_e /\ InDomain (env_of ex_p) ex_e.
Proof.
  split; [|split].
  - cbn [wf fold_right].
    change (nltb RInst (n0 RInst) ?b) with (Rltb 0 b).
    change (neqb RInst ?b (n1 RInst)) with (Reqb b 1).
    repeat split; try (apply Rltb_true; lra). apply Reqb_false. lra.
  - intros y Hy. cbn in Hy.
    destruct Hy as [<-|[<-|[<-|[]]]]; cbn; discriminate.
  - cbn [InDomain fold_right denote]. unfold env_of. cbn [lookup name_eqb Pos.eqb].
    split; [|split].
    + repeat split. apply Rpower_pos.
    + split; [repeat split|]. right. split; [lra|intros _; lra].
    + apply root_nonzero. lra.
Qed.

Example eval_domerr_nonvacuous :
  wfR (Recip (Var 1%positive)) /\ supplies [(1%positive, 0)] (Recip (Var 1%positive)) /\
  ~ InDomain (env_of [(1%positive, 0)]) (Recip (Var 1%positive)) /\
  evalR [(1%positive, 0)] (Recip (Var 1%positive)) = DomErr.
Proof.
  assert (W : wfR (Recip (Var 1%positive))) by exact I.
  assert (S : supplies [(1%positive, 0)] (Recip (Var 1%positive))).
  { intros y [<-|[]]. cbn. discriminate. }
  assert (D : ~ InDomain (env_of [(1%positive, 0)]) (Recip (Var 1%positive))).
  { cbn [InDomain denote]. unfold env_of. cbn [lookup name_eqb Pos.eqb]. intros [_ H].
    apply H. reflexivity. }
  repeat split; try assumption. apply eval_not_in_domain; assumption.
Qed.

Example eval_missing_nonvacuous :
  ~ supplies [(1%positive, 0)] (Add [Var 1%positive; Var 2%positive]) /\
  evalR [(1%positive, 0)] (Add [Var 1%positive; Var 2%positive]) = CoordMissing.
Proof.
  split; [|reflexivity].
  intro S. apply (S 2%positive); [right; left; reflexivity|reflexivity].
Qed.

Example at_number_nonvacuous :
  (List.length (var_names (Mul [Var 5%positive; Sin (Var 5%positive)] : expr R)) <= 1)%nat.
Proof. cbn. lia. Qed.

Print Assumptions eval_total.
Print Assumptions eval_sound.
Print Assumptions eval_domerr_iff.
Print Assumptions at_number_sound.
Print Assumptions eval_missing_not_val.
Print Assumptions number_accepted.
Print Assumptions eval_no_missing.
Print Assumptions eval_no_pyerr.
