(** * ShowParse: __repr__ and reading the printed form back (C13). *)
From Coq Require Import Reals ZArith List Bool String Lia.
From SM Require Import Num Syntax Outcome Eval RInst Objects SpecObjects.
From SM.proofs Require Import EqHash.
Import ListNotations.
Open Scope string_scope.
Open Scope list_scope.

Section PS.
  Context {T : Type}.
  Variable read_num : T -> T.
  Notation E := (expr T).
  Notation tok := (token T).
  Notation parse := (parse read_num).

  (** the inner fixpoint of [parse], standalone ([f] = fuel of the enclosing call) *)
  Section Args.
    Variable f : nat.
    Fixpoint parse_args_ (g : nat) (ts : list tok) {struct g} : option (list E * list tok) :=
      match g with
      | O => None
      | S g' =>
          match ts with
          | TRP :: r => Some ([], r)
          | TComma :: r =>
              match parse f r with
              | Some (e, r') =>
                  match parse_args_ g' r' with
                  | Some (es, r'') => Some (e :: es, r'')
                  | None => None
                  end
              | None => None
              end
          | _ => None
          end
      end.
  End Args.

  (** one characterising equation per printed constructor *)
  Lemma parse_Const f c r :
    parse (S f) (TName "Constant" :: TLP :: TNum c :: TRP :: r) = Some (Const (read_num c), r).
  Proof. reflexivity. Qed.
  Lemma parse_Var f x r :
    parse (S f) (TName "Variable" :: TLP :: TStr x :: TRP :: r) = Some (Var x, r).
  Proof. reflexivity. Qed.
  Lemma parse_Add_nil f r :
    parse (S f) (TName "Add" :: TLP :: TRP :: r) = Some (Add [], r).
  Proof. reflexivity. Qed.
  Lemma parse_Mul_nil f r :
    parse (S f) (TName "Multiply" :: TLP :: TRP :: r) = Some (Mul [], r).
  Proof. reflexivity. Qed.
  Lemma parse_Add_cons f s t :
    parse (S f) (TName "Add" :: TLP :: TName s :: t) =
    match parse f (TName s :: t) with
    | Some (e, r') =>
        match parse_args_ f f r' with
        | Some (es, r'') => Some (Add (e :: es), r'')
        | None => None
        end
    | None => None
    end.
  Proof. reflexivity. Qed.
  Lemma parse_Mul_cons f s t :
    parse (S f) (TName "Multiply" :: TLP :: TName s :: t) =
    match parse f (TName s :: t) with
    | Some (e, r') =>
        match parse_args_ f f r' with
        | Some (es, r'') => Some (Mul (e :: es), r'')
        | None => None
        end
    | None => None
    end.
  Proof. reflexivity. Qed.
  Lemma parse_Minus f r :
    parse (S f) (TName "Minus" :: TLP :: r) =
    match parse f r with
    | Some (a, TComma :: r') =>
        match parse f r' with
        | Some (b, TRP :: r'') => Some (Minus a b, r'')
        | _ => None
        end
    | _ => None
    end.
  Proof. reflexivity. Qed.
  Lemma parse_Divide f r :
    parse (S f) (TName "Divide" :: TLP :: r) =
    match parse f r with
    | Some (a, TComma :: r') =>
        match parse f r' with
        | Some (b, TRP :: r'') => Some (Divide a b, r'')
        | _ => None
        end
    | _ => None
    end.
  Proof. reflexivity. Qed.
  Lemma parse_Power f r :
    parse (S f) (TName "Power" :: TLP :: r) =
    match parse f r with
    | Some (a, TComma :: r') =>
        match parse f r' with
        | Some (b, TRP :: r'') => Some (Power a b, r'')
        | _ => None
        end
    | _ => None
    end.
  Proof. reflexivity. Qed.
  Lemma parse_Neg f r :
    parse (S f) (TName "Negation" :: TLP :: r) =
    match parse f r with Some (a, TRP :: r') => Some (Neg a, r') | _ => None end.
  Proof. reflexivity. Qed.
  Lemma parse_Recip f r :
    parse (S f) (TName "Reciprocal" :: TLP :: r) =
    match parse f r with Some (a, TRP :: r') => Some (Recip a, r') | _ => None end.
  Proof. reflexivity. Qed.
  Lemma parse_Sin f r :
    parse (S f) (TName "Sine" :: TLP :: r) =
    match parse f r with Some (a, TRP :: r') => Some (Sin a, r') | _ => None end.
  Proof. reflexivity. Qed.
  Lemma parse_Cos f r :
    parse (S f) (TName "Cosine" :: TLP :: r) =
    match parse f r with Some (a, TRP :: r') => Some (Cos a, r') | _ => None end.
  Proof. reflexivity. Qed.
  Lemma parse_NthPow f r :
    parse (S f) (TName "NthPower" :: TLP :: r) =
    match parse f r with
    | Some (a, TComma :: TName kw :: TEq :: TPos n :: TRP :: r') =>
        if String.eqb kw "n" then Some (NthPow a n, r') else None
    | _ => None
    end.
  Proof. reflexivity. Qed.
  Lemma parse_NthRoot f r :
    parse (S f) (TName "NthRoot" :: TLP :: r) =
    match parse f r with
    | Some (a, TComma :: TName kw :: TEq :: TPos n :: TRP :: r') =>
        if String.eqb kw "n" then Some (NthRoot a n, r') else None
    | _ => None
    end.
  Proof. reflexivity. Qed.
  Lemma parse_Exp f r :
    parse (S f) (TName "Exponential" :: TLP :: r) =
    match parse f r with
    | Some (a, TComma :: TName kw :: TEq :: TNum c :: TRP :: r') =>
        if String.eqb kw "base" then Some (Exp a (read_num c), r') else None
    | _ => None
    end.
  Proof. reflexivity. Qed.
  Lemma parse_Log f r :
    parse (S f) (TName "Logarithm" :: TLP :: r) =
    match parse f r with
    | Some (a, TComma :: TName kw :: TEq :: TNum c :: TRP :: r') =>
        if String.eqb kw "base" then Some (Log a (read_num c), r') else None
    | _ => None
    end.
  Proof. reflexivity. Qed.

  (** shape of the printed form *)
  Lemma show_head (e : E) : exists s t, show e = TName s :: t.
  Proof. destruct e; simpl; eauto. Qed.

  Definition rest_args (r : list E) : list tok := flat_map (fun y => TComma :: show y) r.

  Lemma join_comma_cons (x : E) (r : list E) :
    join_comma (map show (x :: r)) = show x ++ rest_args r.
  Proof.
    revert x; induction r as [|y r IH]; intros x.
    - simpl. rewrite app_nil_r; reflexivity.
    - change (join_comma (map show (x :: y :: r)))
        with (show x ++ TComma :: join_comma (map show (y :: r))).
      rewrite IH. reflexivity.
  Qed.

  (** sizes *)
  Lemma size_pos (e : E) : (1 <= size e)%nat.
  Proof. destruct e; simpl; lia. Qed.

  Notation sum_sizes := (fold_right (fun (x : E) acc => size x + acc)%nat 0%nat).

  Lemma sum_sizes_length (r : list E) : (List.length r <= sum_sizes r)%nat.
  Proof.
    induction r as [|y r IH]; simpl; [lia|]. pose proof (size_pos y); lia.
  Qed.

  Lemma sum_sizes_each (r : list E) : Forall (fun y => size y <= sum_sizes r)%nat r.
  Proof.
    induction r as [|y r IH]; constructor; simpl; [lia|].
    eapply Forall_impl; [|exact IH]. simpl; intros a Ha; lia.
  Qed.

  Notation PS_stmt := (fun y : E => forall (rest : list tok) (fuel : nat),
                           (parse_fuel y <= fuel)%nat ->
                           parse fuel (show y ++ rest) = Some (map_nums read_num y, rest)).

  Lemma parse_args_show f (r : list E) :
    Forall PS_stmt r ->
    Forall (fun y => parse_fuel y <= f)%nat r ->
    forall g rest, (List.length r < g)%nat ->
      parse_args_ f g (rest_args r ++ TRP :: rest) = Some (map (map_nums read_num) r, rest).
  Proof.
    intros HP; induction HP as [|y r Hy Hr IH]; intros Hf g rest Hg.
    - destruct g as [|g']; [simpl in Hg; lia|]. reflexivity.
    - destruct g as [|g']; [simpl in Hg; lia|].
      inversion Hf as [|y' r' Hfy Hfr]; subst.
      unfold rest_args; simpl flat_map. fold (rest_args r).
      change ((TComma :: show y ++ rest_args r) ++ TRP :: rest)
        with (TComma :: (show y ++ rest_args r) ++ TRP :: rest).
      rewrite <- app_assoc.
      cbn [parse_args_].
      rewrite (Hy _ f Hfy).
      rewrite (IH Hfr g' rest) by (simpl in Hg; lia).
      reflexivity.
  Qed.

  Lemma parse_show_gen : forall e : E, PS_stmt e.
  Proof.
    induction e as [c|x|l IH|l IH|a1 a2 IH1 IH2|a1 a2 IH1 IH2|a1 a2 IH1 IH2
                   |a1 IH1|a1 IH1|a1 IH1|a1 IH1|a1 n IH1|a1 n IH1|a1 c IH1|a1 c IH1]
      using expr_ind';
      intros rest fuel Hf; unfold parse_fuel in Hf;
      (destruct fuel as [|f]; [lia|]).
    - apply parse_Const.
    - apply parse_Var.
    - (* Add *)
      destruct l as [|x r].
      + apply parse_Add_nil.
      + cbn [show]. rewrite join_comma_cons.
        change ((TName "Add" :: TLP :: (show x ++ rest_args r) ++ [TRP]) ++ rest)
          with (TName "Add" :: TLP :: ((show x ++ rest_args r) ++ [TRP]) ++ rest).
        rewrite <- !app_assoc. cbn [app].
        destruct (show_head x) as (s & t & Hx).
        rewrite Hx. cbn [app]. rewrite parse_Add_cons.
        change (TName s :: t ++ rest_args r ++ TRP :: rest)
          with ((TName s :: t) ++ rest_args r ++ TRP :: rest).
        rewrite <- Hx.
        inversion IH as [|x' r' IHx IHr]; subst.
        cbn [size fold_right] in Hf.
        rewrite (IHx _ f) by (unfold parse_fuel; lia).
        rewrite (parse_args_show f r IHr).
        * reflexivity.
        * eapply Forall_impl; [|apply (sum_sizes_each r)].
          simpl; intros a Ha; unfold parse_fuel; pose proof (size_pos x); lia.
        * pose proof (sum_sizes_length r); pose proof (size_pos x); lia.
    - (* Mul *)
      destruct l as [|x r].
      + apply parse_Mul_nil.
      + cbn [show]. rewrite join_comma_cons.
        change ((TName "Multiply" :: TLP :: (show x ++ rest_args r) ++ [TRP]) ++ rest)
          with (TName "Multiply" :: TLP :: ((show x ++ rest_args r) ++ [TRP]) ++ rest).
        rewrite <- !app_assoc. cbn [app].
        destruct (show_head x) as (s & t & Hx).
        rewrite Hx. cbn [app]. rewrite parse_Mul_cons.
        change (TName s :: t ++ rest_args r ++ TRP :: rest)
          with ((TName s :: t) ++ rest_args r ++ TRP :: rest).
        rewrite <- Hx.
        inversion IH as [|x' r' IHx IHr]; subst.
        cbn [size fold_right] in Hf.
        rewrite (IHx _ f) by (unfold parse_fuel; lia).
        rewrite (parse_args_show f r IHr).
        * reflexivity.
        * eapply Forall_impl; [|apply (sum_sizes_each r)].
          simpl; intros a Ha; unfold parse_fuel; pose proof (size_pos x); lia.
        * pose proof (sum_sizes_length r); pose proof (size_pos x); lia.
    - (* Minus *)
      cbn [show size] in *.
      change ((TName "Minus" :: TLP :: show a1 ++ TComma :: show a2 ++ [TRP]) ++ rest)
        with (TName "Minus" :: TLP :: (show a1 ++ TComma :: show a2 ++ [TRP]) ++ rest).
      rewrite <- !app_assoc. cbn [app]. rewrite <- !app_assoc. cbn [app].
      rewrite parse_Minus.
      rewrite (IH1 _ f) by (unfold parse_fuel; lia).
      rewrite (IH2 _ f) by (unfold parse_fuel; lia).
      reflexivity.
    - (* Divide *)
      cbn [show size] in *.
      change ((TName "Divide" :: TLP :: show a1 ++ TComma :: show a2 ++ [TRP]) ++ rest)
        with (TName "Divide" :: TLP :: (show a1 ++ TComma :: show a2 ++ [TRP]) ++ rest).
      rewrite <- !app_assoc. cbn [app]. rewrite <- !app_assoc. cbn [app].
      rewrite parse_Divide.
      rewrite (IH1 _ f) by (unfold parse_fuel; lia).
      rewrite (IH2 _ f) by (unfold parse_fuel; lia).
      reflexivity.
    - (* Power *)
      cbn [show size] in *.
      change ((TName "Power" :: TLP :: show a1 ++ TComma :: show a2 ++ [TRP]) ++ rest)
        with (TName "Power" :: TLP :: (show a1 ++ TComma :: show a2 ++ [TRP]) ++ rest).
      rewrite <- !app_assoc. cbn [app]. rewrite <- !app_assoc. cbn [app].
      rewrite parse_Power.
      rewrite (IH1 _ f) by (unfold parse_fuel; lia).
      rewrite (IH2 _ f) by (unfold parse_fuel; lia).
      reflexivity.
    - cbn [show size] in *.
      change ((TName "Negation" :: TLP :: show a1 ++ [TRP]) ++ rest)
        with (TName "Negation" :: TLP :: (show a1 ++ [TRP]) ++ rest).
      rewrite <- !app_assoc. cbn [app]. rewrite parse_Neg.
      rewrite (IH1 _ f) by (unfold parse_fuel; lia). reflexivity.
    - cbn [show size] in *.
      change ((TName "Reciprocal" :: TLP :: show a1 ++ [TRP]) ++ rest)
        with (TName "Reciprocal" :: TLP :: (show a1 ++ [TRP]) ++ rest).
      rewrite <- !app_assoc. cbn [app]. rewrite parse_Recip.
      rewrite (IH1 _ f) by (unfold parse_fuel; lia). reflexivity.
    - cbn [show size] in *.
      change ((TName "Sine" :: TLP :: show a1 ++ [TRP]) ++ rest)
        with (TName "Sine" :: TLP :: (show a1 ++ [TRP]) ++ rest).
      rewrite <- !app_assoc. cbn [app]. rewrite parse_Sin.
      rewrite (IH1 _ f) by (unfold parse_fuel; lia). reflexivity.
    - cbn [show size] in *.
      change ((TName "Cosine" :: TLP :: show a1 ++ [TRP]) ++ rest)
        with (TName "Cosine" :: TLP :: (show a1 ++ [TRP]) ++ rest).
      rewrite <- !app_assoc. cbn [app]. rewrite parse_Cos.
      rewrite (IH1 _ f) by (unfold parse_fuel; lia). reflexivity.
    - cbn [show size] in *.
      change ((TName "NthPower" :: TLP :: show a1 ++ [TComma; TName "n"; TEq; TPos n; TRP]) ++ rest)
        with (TName "NthPower" :: TLP :: (show a1 ++ [TComma; TName "n"; TEq; TPos n; TRP]) ++ rest).
      rewrite <- !app_assoc. cbn [app]. rewrite parse_NthPow.
      rewrite (IH1 _ f) by (unfold parse_fuel; lia). reflexivity.
    - cbn [show size] in *.
      change ((TName "NthRoot" :: TLP :: show a1 ++ [TComma; TName "n"; TEq; TPos n; TRP]) ++ rest)
        with (TName "NthRoot" :: TLP :: (show a1 ++ [TComma; TName "n"; TEq; TPos n; TRP]) ++ rest).
      rewrite <- !app_assoc. cbn [app]. rewrite parse_NthRoot.
      rewrite (IH1 _ f) by (unfold parse_fuel; lia). reflexivity.
    - cbn [show size] in *.
      change ((TName "Exponential" :: TLP :: show a1 ++ [TComma; TName "base"; TEq; TNum c; TRP]) ++ rest)
        with (TName "Exponential" :: TLP :: (show a1 ++ [TComma; TName "base"; TEq; TNum c; TRP]) ++ rest).
      rewrite <- !app_assoc. cbn [app]. rewrite parse_Exp.
      rewrite (IH1 _ f) by (unfold parse_fuel; lia). reflexivity.
    - cbn [show size] in *.
      change ((TName "Logarithm" :: TLP :: show a1 ++ [TComma; TName "base"; TEq; TNum c; TRP]) ++ rest)
        with (TName "Logarithm" :: TLP :: (show a1 ++ [TComma; TName "base"; TEq; TNum c; TRP]) ++ rest).
      rewrite <- !app_assoc. cbn [app]. rewrite parse_Log.
      rewrite (IH1 _ f) by (unfold parse_fuel; lia). reflexivity.
  Qed.
End PS.

Theorem parse_show : C13_parse_show.
Proof.
  unfold C13_parse_show; intros T read_num e rest fuel Hf.
  apply parse_show_gen; exact Hf.
Qed.


(** re-reading with the identity changes nothing *)
Lemma map_nums_id {T} : forall e : expr T, map_nums (fun x => x) e = e.
Proof.
  induction e as [c|x|l IH|l IH|a1 a2 IH1 IH2|a1 a2 IH1 IH2|a1 a2 IH1 IH2
                 |a1 IH1|a1 IH1|a1 IH1|a1 IH1|a1 n IH1|a1 n IH1|a1 c IH1|a1 c IH1]
    using expr_ind'; cbn [map_nums]; rewrite ?IH1, ?IH2; try reflexivity.
  - f_equal. induction IH as [|x r Hx Hr IHr]; [reflexivity|]. simpl; rewrite Hx, IHr; reflexivity.
  - f_equal. induction IH as [|x r Hx Hr IHr]; [reflexivity|]. simpl; rewrite Hx, IHr; reflexivity.
Qed.

(** the printed form determines where it ends: the reader finds the split point *)
Lemma show_app_inj {T} (a b : expr T) (r1 r2 : list (token T)) :
  show a ++ r1 = show b ++ r2 -> a = b /\ r1 = r2.
Proof.
  intros Hab.
  pose (fuel := Nat.max (parse_fuel a) (parse_fuel b)).
  assert (Ha : parse (fun x => x) fuel (show a ++ r1) = Some (map_nums (fun x => x) a, r1))
    by (apply parse_show_gen; unfold fuel; lia).
  assert (Hb : parse (fun x => x) fuel (show b ++ r2) = Some (map_nums (fun x => x) b, r2))
    by (apply parse_show_gen; unfold fuel; lia).
  rewrite Hab, Hb, !map_nums_id in Ha.
  injection Ha as -> ->; auto.
Qed.

Theorem show_injective : C13_show_injective.
Proof.
  unfold C13_show_injective; intros T a b Hab.
  apply (show_app_inj a b [] []). rewrite !app_nil_r; exact Hab.
Qed.

(** round trip up to == *)
Section RT.
  Context {T : Type} (N : NumOps T) (read_num : T -> T).
  Hypothesis Hequiv : num_equiv N.
  Hypothesis Hread : forall c, neqb N (read_num c) c = true.

  Lemma eqb_list_map_nums l :
    Forall (fun e => eqb N (map_nums read_num e) e = true) l ->
    eqb_list N (map (map_nums read_num) l) l = true.
  Proof.
    induction 1 as [|x r Hx Hr IH]; [reflexivity|].
    simpl map. rewrite eqb_list_cons, Hx, IH; reflexivity.
  Qed.

  Lemma eqb_map_nums : forall e : expr T, eqb N (map_nums read_num e) e = true.
  Proof.
    destruct Hequiv as (Hr & Hs & Ht).
    induction e as [c|x|l IH|l IH|a1 a2 IH1 IH2|a1 a2 IH1 IH2|a1 a2 IH1 IH2
                   |a1 IH1|a1 IH1|a1 IH1|a1 IH1|a1 n IH1|a1 n IH1|a1 c IH1|a1 c IH1]
      using expr_ind'; cbn [map_nums].
    - simpl. rewrite Hs. apply Hread.
    - simpl. apply Pos.eqb_refl.
    - rewrite eqb_Add. apply eqb_list_map_nums; exact IH.
    - rewrite eqb_Mul. apply eqb_list_map_nums; exact IH.
    - simpl; rewrite IH1, IH2; reflexivity.
    - simpl; rewrite IH1, IH2; reflexivity.
    - simpl; rewrite IH1, IH2; reflexivity.
    - simpl; exact IH1.
    - simpl; exact IH1.
    - simpl; exact IH1.
    - simpl; exact IH1.
    - simpl; rewrite IH1, Pos.eqb_refl; reflexivity.
    - simpl; rewrite IH1, Pos.eqb_refl; reflexivity.
    - simpl; rewrite IH1, Hs, Hread; reflexivity.
    - simpl; rewrite IH1, Hs, Hread; reflexivity.
  Qed.
End RT.

Theorem roundtrip_eq : C13_roundtrip_eq.
Proof.
  unfold C13_roundtrip_eq; intros T N read_num HN Hread e.
  exists (map_nums read_num e); split.
  - pose proof (parse_show_gen read_num e [] (parse_fuel e) (le_n _)) as HH.
    rewrite app_nil_r in HH; exact HH.
  - apply eqb_map_nums; assumption.
Qed.

Theorem old_printer_refuted : C13_old_printer_refuted.
Proof.
  unfold C13_old_printer_refuted.
  exists (Const 0%R), 1%positive; split; [reflexivity|discriminate].
Qed.

Theorem wrappers_injective : C13_wrappers_injective.
Proof.
  unfold C13_wrappers_injective; intros T a b v w; split; [|split].
  - unfold show_partial; intros HH; injection HH as HH.
    apply show_app_inj in HH; destruct HH as [-> HH].
    injection HH as ->; auto.
  - unfold show_derivative; intros HH; injection HH as HH.
    apply show_app_inj in HH; destruct HH as [-> _]; reflexivity.
  - unfold show_differential; intros HH; injection HH as HH.
    apply show_app_inj in HH; destruct HH as [-> _]; reflexivity.
Qed.

(* non-vacuity: a concrete round trip at R with the identity reader, on a tree using an n-ary
   node with three arguments, an empty n-ary node, a keyword parameter of each kind *)
Example parse_show_ex :
  let e := Add [Var 2%positive; Mul []; NthRoot (Exp (Const 1%R) 2%R) 3%positive;
                Minus (Log (Var 1%positive) 10%R) (NthPow (Neg (Var 1%positive)) 2%positive)] in
  parse (fun x : R => x) (parse_fuel e) (show e) = Some (e, []).
Proof. reflexivity. Qed.

Print Assumptions parse_show.
Print Assumptions roundtrip_eq.
Print Assumptions show_injective.
Print Assumptions old_printer_refuted.
Print Assumptions wrappers_injective.
