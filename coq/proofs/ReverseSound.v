(** * ReverseSound: C04 — reverse-mode accumulation agrees with forward mode, for every
    variable at once.

    [rev_acc]   : C01_eval_sound -> C04_rev_acc
    [rev_sound] : C01_eval_sound -> C04_rev_sound

    Pure ring reasoning plus the structure of the two traversals.  The only fact used about
    evaluation is [C01_eval_sound] (section hypothesis [Heval]), which is proved in
    proofs/EvalSound.v. *)
From Coq Require Import Reals ZArith List Bool Lra Lia.
From SM Require Import Num Syntax Outcome MathFun Eval Forward Reverse RInst Denote Spec.
Import ListNotations.
Open Scope R_scope.

(** ** math_functions.py at RInst (local copies, prefix RV_) *)

Lemma RV_mul_loop : forall vs pr, mul_loop RInst pr vs = pr * fold_right Rmult 1 vs.
Proof.
  induction vs as [|a r IH]; intros pr; cbn [mul_loop fold_right].
  - ring.
  - change (neqb RInst a (n0 RInst)) with (Reqb a 0). change (n0 RInst) with 0.
    destruct (Reqb a 0) eqn:E.
    + apply Reqb_true in E. subst a. ring.
    + rewrite IH. change (nmul RInst pr a) with (pr * a). ring.
Qed.

Lemma RV_mf_multiply vs : mf_multiply RInst vs = fold_right Rmult 1 vs.
Proof.
  unfold mf_multiply. rewrite RV_mul_loop.
  change (nfloat RInst (n1 RInst)) with 1. ring.
Qed.

Lemma RV_mf_add vs : mf_add RInst vs = fold_right Rplus 0 vs.
Proof. reflexivity. Qed.

Lemma RV_mf_minus x y : mf_minus RInst x y = x - y.
Proof. reflexivity. Qed.

Lemma RV_mf_negation x : mf_negation RInst x = - x.
Proof. reflexivity. Qed.

Lemma RV_mf_cosine x : mf_cosine RInst x = Val (cos x).
Proof. reflexivity. Qed.

Lemma RV_mf_sine x : mf_sine RInst x = Val (sin x).
Proof. reflexivity. Qed.

Lemma RV_mf_nth_power x n : mf_nth_power RInst x n = Val (x ^ Pos.to_nat n).
Proof. reflexivity. Qed.

Lemma RV_neqb_false x y : x <> y -> neqb RInst x y = false.
Proof. intro H. apply Reqb_false. exact H. Qed.

Lemma RV_nltb_false x y : ~ x < y -> nltb RInst x y = false.
Proof. intro H. apply Rltb_false. exact H. Qed.

Lemma RV_nleb_false x y : y < x -> nleb RInst x y = false.
Proof.
  intro H. unfold nleb. rewrite RV_nltb_false by lra. rewrite RV_neqb_false by lra. reflexivity.
Qed.

Lemma RV_mf_divide x y : y <> 0 -> mf_divide RInst x y = Val (x / y).
Proof.
  intro Hy. unfold mf_divide, prim_div. change (n0 RInst) with 0.
  rewrite (RV_neqb_false y 0 Hy). reflexivity.
Qed.

Lemma RV_prim_pow_pos x y : 0 < x -> prim_pow RInst x y = Val (Rpower x y).
Proof.
  intro Hx. unfold prim_pow. change (n0 RInst) with 0.
  rewrite (RV_neqb_false x 0) by lra. rewrite (RV_nltb_false x 0) by lra. reflexivity.
Qed.

Lemma RV_mf_power x y : 0 < x -> mf_power RInst x y = Val (Rpower x y).
Proof.
  intro Hx. unfold mf_power. change (n0 RInst) with 0.
  rewrite (RV_neqb_false x 0) by lra. rewrite (RV_nltb_false x 0) by lra.
  rewrite RV_prim_pow_pos by exact Hx. reflexivity.
Qed.

Lemma RV_exp1_gt1 : 1 < exp 1.
Proof. pose proof (exp_ineq1 1). lra. Qed.

(* math.log(x, math.e) *)
Lemma RV_mf_logarithm_e x : 0 < x -> mf_logarithm RInst x (n_e RInst) = Val (ln x).
Proof.
  intro Hx. pose proof RV_exp1_gt1 as He.
  unfold mf_logarithm, prim_log. change (n_e RInst) with (exp 1).
  change (n0 RInst) with 0. change (n1 RInst) with 1.
  rewrite (RV_nleb_false (exp 1) 0) by lra.
  rewrite (RV_neqb_false (exp 1) 1) by lra.
  rewrite (RV_nleb_false x 0) by lra.
  change (nln RInst (exp 1)) with (ln (exp 1)). rewrite ln_exp.
  rewrite (RV_neqb_false 1 0) by lra.
  change (ndiv RInst (nln RInst x) 1) with (ln x / 1). f_equal. field.
Qed.

Lemma RV_ln_neq0 x : 0 < x -> x <> 1 -> ln x <> 0.
Proof.
  intros Hx Hx1 H. apply Hx1. apply ln_inv; [exact Hx | lra | rewrite ln_1; exact H].
Qed.

Lemma RV_Rpower_pos x y : 0 < Rpower x y.
Proof. unfold Rpower. apply exp_pos. Qed.

Lemma RV_root_nz n x : x <> 0 -> root n x <> 0.
Proof.
  intro Hx. unfold root.
  destruct (Rlt_dec 0 x) as [H|H].
  - pose proof (RV_Rpower_pos x (/ IZR (Z.pos n))). lra.
  - destruct (Rlt_dec x 0) as [H'|H'].
    + pose proof (RV_Rpower_pos (- x) (/ IZR (Z.pos n))). lra.
    + lra.
Qed.

(** ** The accumulator (a dict read with default 0) *)

Lemma RV_lookup_acc_set : forall (acc : accum (T:=R)) x c v,
  lookup v (acc_set acc x c) = if name_eqb v x then Some c else lookup v acc.
Proof.
  induction acc as [|[y w] r IH]; intros x c v; cbn [acc_set lookup].
  - reflexivity.
  - destruct (name_eqb x y) eqn:E.
    + apply Pos.eqb_eq in E. subst y. cbn [lookup].
      destruct (name_eqb v x); reflexivity.
    + cbn [lookup]. rewrite IH.
      destruct (name_eqb v y) eqn:E2; destruct (name_eqb v x) eqn:E3; try reflexivity.
      apply Pos.eqb_eq in E2, E3. subst. unfold name_eqb in E. rewrite Pos.eqb_refl in E.
      discriminate.
Qed.

Lemma RV_acc_get_add (acc : accum (T:=R)) x c v :
  acc_get RInst (acc_add RInst acc x c) v =
  if name_eqb v x then acc_get RInst acc x + c else acc_get RInst acc v.
Proof.
  unfold acc_add, acc_get at 1. rewrite RV_lookup_acc_set.
  destruct (name_eqb v x); reflexivity.
Qed.

Lemma RV_acc_get_nil v : acc_get RInst (@nil (name * R)) v = 0.
Proof. reflexivity. Qed.

(** ** Small list / option helpers *)

Lemma RV_match_pos_not1 {A} (n : positive) (a b : A) :
  n <> 1%positive -> match n with 1%positive => a | _ => b end = b.
Proof. intro H. destruct n; [reflexivity | reflexivity | congruence]. Qed.

Lemma RV_lookup_map_in (f : name -> R) : forall (enum : list name) v,
  In v enum -> lookup v (map (fun x => (x, f x)) enum) = Some (f v).
Proof.
  induction enum as [|y r IH]; intros v Hin; [contradiction|].
  cbn [map lookup]. destruct (name_eqb v y) eqn:E.
  - apply Pos.eqb_eq in E. subst y. reflexivity.
  - destruct Hin as [->|Hin]; [|apply IH; exact Hin].
    unfold name_eqb in E. rewrite Pos.eqb_refl in E. discriminate.
Qed.

Lemma RV_lookup_map_notin (f : name -> R) : forall (enum : list name) v,
  ~ In v enum -> lookup v (map (fun x => (x, f x)) enum) = None.
Proof.
  induction enum as [|y r IH]; intros v Hin; [reflexivity|].
  cbn [map lookup]. destruct (name_eqb v y) eqn:E.
  - apply Pos.eqb_eq in E. subst y. exfalso. apply Hin. left. reflexivity.
  - apply IH. intro H. apply Hin. right. exact H.
Qed.

(** ** "unary node" and the characteristic equations of the two traversals *)

Definition is_unary (e : expr R) : bool :=
  match e with
  | Neg _ | Recip _ | Sin _ | Cos _ | NthPow _ _ | NthRoot _ _ | Exp _ _ | Log _ _ => true
  | _ => false
  end.

Lemma RV_fwd_unary v p e : is_unary e = true ->
  fwdR v p e =
  (iv <- evalR p (inner_of e) ;; _ <- unary_verify RInst e iv ;;
   d <- fwdR v p (inner_of e) ;; unary_formula RInst p e d).
Proof. destruct e; intro H; try discriminate H; reflexivity. Qed.

Lemma RV_rev_unary p e m acc : is_unary e = true ->
  rev RInst p e m acc =
  (iv <- evalR p (inner_of e) ;; _ <- unary_verify RInst e iv ;;
   m' <- unary_formula RInst p e m ;; rev RInst p (inner_of e) m' acc).
Proof. destruct e; intro H; try discriminate H; reflexivity. Qed.

Lemma RV_vars_unary e : is_unary e = true -> vars e = vars (inner_of e).
Proof. destruct e; intro H; try discriminate H; reflexivity. Qed.

Lemma RV_rev_Add_cons p x r m acc :
  rev RInst p (Add (x :: r)) m acc = (acc' <- rev RInst p x m acc ;; rev RInst p (Add r) m acc').
Proof. reflexivity. Qed.

Lemma RV_fwd_Add v p l :
  fwdR v p (Add l) = (ds <- sequence (map (fwdR v p) l) ;; Val (mf_add RInst ds)).
Proof. reflexivity. Qed.

Lemma RV_fwd_Mul v p l :
  fwdR v p (Mul l) =
  (vs <- eval_list RInst p l ;; ds <- sequence (map (fwdR v p) l) ;;
   Val (mf_add RInst (mapi (fun i d => mf_multiply RInst (d :: remove_nth i vs)) ds))).
Proof. reflexivity. Qed.

Lemma RV_fwd_Divide v p a b :
  fwdR v p (Divide a b) =
  (lv <- evalR p a ;; rv <- evalR p b ;; _ <- verify_divide RInst lv rv ;;
   da <- fwdR v p a ;; db <- fwdR v p b ;;
   x <- divide_formula_left RInst p a b da ;;
   y <- divide_formula_right RInst p a b db ;;
   Val (mf_add RInst [x; y])).
Proof. reflexivity. Qed.

Lemma RV_rev_Divide p a b m acc :
  rev RInst p (Divide a b) m acc =
  (lv <- evalR p a ;; rv <- evalR p b ;; _ <- verify_divide RInst lv rv ;;
   ml <- divide_formula_left RInst p a b m ;;
   mr <- divide_formula_right RInst p a b m ;;
   acc1 <- rev RInst p a ml acc ;; rev RInst p b mr acc1).
Proof. reflexivity. Qed.

Lemma RV_fwd_Power v p a b :
  fwdR v p (Power a b) =
  (_ <- evalR p (Power a b) ;; sc <- power_shortcut RInst p a ;;
   if sc then Val 0
   else
     lv <- evalR p a ;; rv <- evalR p b ;; _ <- verify_power RInst lv rv ;;
     da <- fwdR v p a ;; db <- fwdR v p b ;;
     x <- power_formula_left RInst p a b da ;;
     y <- power_formula_right RInst p a b db ;;
     Val (x + y)).
Proof. reflexivity. Qed.

Lemma RV_rev_Power p a b m acc :
  rev RInst p (Power a b) m acc =
  (_ <- evalR p (Power a b) ;; sc <- power_shortcut RInst p a ;;
   if sc then Val acc
   else
     lv <- evalR p a ;; rv <- evalR p b ;; _ <- verify_power RInst lv rv ;;
     ml <- power_formula_left RInst p a b m ;;
     mr <- power_formula_right RInst p a b m ;;
     acc1 <- rev RInst p a ml acc ;; rev RInst p b mr acc1).
Proof. reflexivity. Qed.

Section R.
  Hypothesis Heval : C01_eval_sound.

  (** the three premises, bundled *)
  Definition ok (p : point R) (e : expr R) : Prop :=
    wfR e /\ supplies p e /\ InDomain (env_of p) e.

  Lemma ok_eval p e : ok p e -> evalR p e = Val (denote (env_of p) e).
  Proof. intros [Hw [Hs Hd]]. apply Heval; assumption. Qed.

  (** *** decomposition of the premises per constructor *)

  Lemma ok_list p : forall l,
    fold_right (fun x acc => wfR x /\ acc) True l ->
    (forall x, In x (flat_map vars l) -> lookup x p <> None) ->
    fold_right (fun a acc => InDomain (env_of p) a /\ acc) True l ->
    Forall (ok p) l.
  Proof.
    induction l as [|a r IH]; intros Hw Hs Hd; [constructor|].
    cbn [fold_right] in Hw, Hd. destruct Hw as [Hwa Hwr]. destruct Hd as [Hda Hdr].
    constructor.
    - split; [exact Hwa | split; [|exact Hda]].
      intros x Hx. apply Hs. cbn [flat_map]. apply in_or_app. left. exact Hx.
    - apply IH; [exact Hwr | | exact Hdr].
      intros x Hx. apply Hs. cbn [flat_map]. apply in_or_app. right. exact Hx.
  Qed.

  Lemma ok_Add p l : ok p (Add l) -> Forall (ok p) l.
  Proof. intros [Hw [Hs Hd]]. apply ok_list; assumption. Qed.

  Lemma ok_Mul p l : ok p (Mul l) -> Forall (ok p) l.
  Proof. intros [Hw [Hs Hd]]. apply ok_list; assumption. Qed.

  Lemma supplies_app_l p (e a b : expr R) :
    vars e = vars a ++ vars b -> supplies p e -> supplies p a.
  Proof. intros E Hs x Hx. apply Hs. rewrite E. apply in_or_app. left. exact Hx. Qed.

  Lemma supplies_app_r p (e a b : expr R) :
    vars e = vars a ++ vars b -> supplies p e -> supplies p b.
  Proof. intros E Hs x Hx. apply Hs. rewrite E. apply in_or_app. right. exact Hx. Qed.

  Lemma ok_Minus p a b : ok p (Minus a b) -> ok p a /\ ok p b.
  Proof.
    intros [[Hwa Hwb] [Hs [Hda Hdb]]]. split; (split; [|split]); try assumption.
    - exact (supplies_app_l p (Minus a b) a b eq_refl Hs).
    - exact (supplies_app_r p (Minus a b) a b eq_refl Hs).
  Qed.

  Lemma ok_Divide p a b :
    ok p (Divide a b) -> ok p a /\ ok p b /\ denote (env_of p) b <> 0.
  Proof.
    intros [[Hwa Hwb] [Hs [Hda [Hdb Hnz]]]].
    split; [|split; [|exact Hnz]]; (split; [|split]); try assumption.
    - exact (supplies_app_l p (Divide a b) a b eq_refl Hs).
    - exact (supplies_app_r p (Divide a b) a b eq_refl Hs).
  Qed.

  Lemma ok_Power p a b :
    ok p (Power a b) -> ok p a /\ ok p b /\ 0 < denote (env_of p) a.
  Proof.
    intros [[Hwa Hwb] [Hs [Hda [Hdb Hpos]]]].
    split; [|split; [|exact Hpos]]; (split; [|split]); try assumption.
    - exact (supplies_app_l p (Power a b) a b eq_refl Hs).
    - exact (supplies_app_r p (Power a b) a b eq_refl Hs).
  Qed.

  Lemma ok_inner p e : is_unary e = true -> ok p e -> ok p (inner_of e).
  Proof.
    intros Hu [Hw [Hs Hd]].
    assert (Hs' : supplies p (inner_of e)).
    { intros x Hx. apply Hs. rewrite (RV_vars_unary e Hu). exact Hx. }
    destruct e; try discriminate Hu; cbn [inner_of] in *; cbn [wf InDomain] in Hw, Hd;
      (split; [|split; [exact Hs'|]]); tauto.
  Qed.

  Lemma ok_seq_eval p : forall l, Forall (ok p) l ->
    sequence (map (evalR p) l) = Val (map (denote (env_of p)) l).
  Proof.
    induction l as [|a r IH]; intro H; [reflexivity|].
    inversion H as [|a' r' Ha Hr]; subst. cbn [map sequence].
    rewrite (ok_eval p a Ha). cbn [bind]. rewrite (IH Hr). reflexivity.
  Qed.

  (** *** the node's own domain check succeeds *)

  Lemma ok_unary_verify p e : is_unary e = true -> ok p e ->
    unary_verify RInst e (denote (env_of p) (inner_of e)) = Val tt.
  Proof.
    intros Hu [Hw [Hs Hd]].
    destruct e; try discriminate Hu; cbn [unary_verify inner_of]; cbn [InDomain] in Hd;
      try reflexivity.
    - (* Recip *) destruct Hd as [_ Hnz]. unfold verify_reciprocal.
      change (n0 RInst) with 0. rewrite (RV_neqb_false _ 0 Hnz). reflexivity.
    - (* NthRoot *) destruct Hd as [_ [Hn|[Hnz Hev]]].
      + subst n. reflexivity.
      + unfold verify_nth_root. change (n0 RInst) with 0.
        rewrite (RV_neqb_false _ 0 Hnz). rewrite andb_false_r.
        destruct (Z.even (Z.pos n)) eqn:Ev; [|reflexivity].
        rewrite RV_nltb_false; [reflexivity|]. specialize (Hev eq_refl). lra.
    - (* Log *) destruct Hd as [_ Hpos]. unfold verify_logarithm. change (n0 RInst) with 0.
      rewrite (RV_neqb_false _ 0) by lra. rewrite RV_nltb_false by lra. reflexivity.
  Qed.

  Lemma ok_verify_divide lv rv : rv <> 0 -> verify_divide RInst lv rv = Val tt.
  Proof.
    intro H. unfold verify_divide. change (n0 RInst) with 0.
    rewrite (RV_neqb_false rv 0 H). reflexivity.
  Qed.

  Lemma ok_verify_power lv rv : 0 < lv -> verify_power RInst lv rv = Val tt.
  Proof.
    intro H. unfold verify_power. change (n0 RInst) with 0.
    rewrite (RV_neqb_false lv 0) by lra. rewrite RV_nltb_false by lra. reflexivity.
  Qed.

  Lemma ok_power_shortcut p a : ok p a -> exists sc, power_shortcut RInst p a = Val sc.
  Proof.
    intro Ha. unfold power_shortcut. destruct (var_free a).
    - rewrite (ok_eval p a Ha). cbn [bind]. eexists. reflexivity.
    - eexists. reflexivity.
  Qed.

  (** *** the partial formulas are linear in the multiplier, and succeed inside the domain *)

  Lemma ok_unary_linear p e : is_unary e = true -> ok p e ->
    exists k, forall m, unary_formula RInst p e m = Val (m * k).
  Proof.
    intros Hu Hok.
    pose proof (ok_eval p _ (ok_inner p e Hu Hok)) as Hin.
    pose proof (ok_eval p e Hok) as Hself.
    destruct Hok as [Hw [Hs Hd]].
    destruct e; try discriminate Hu; cbn [inner_of] in Hin; cbn [denote] in Hself;
      cbn [InDomain] in Hd; cbn [wf] in Hw.
    - (* Neg *)
      exists (-1). intro m. cbn [unary_formula]. rewrite RV_mf_negation. f_equal. ring.
    - (* Recip *)
      destruct Hd as [_ Hnz]. set (x := denote (env_of p) e) in *.
      exists (- / (x ^ Pos.to_nat 2)). intro m. cbn [unary_formula].
      rewrite Hin. cbn [bind]. rewrite RV_mf_nth_power. cbn [bind].
      rewrite RV_mf_divide by (apply pow_nonzero; exact Hnz). cbn [bind].
      rewrite RV_mf_negation. f_equal. unfold Rdiv. ring.
    - (* Sin *)
      set (x := denote (env_of p) e) in *.
      exists (cos x). intro m. cbn [unary_formula].
      rewrite Hin. cbn [bind]. rewrite RV_mf_cosine. cbn [bind].
      rewrite RV_mf_multiply. cbn [fold_right]. f_equal. ring.
    - (* Cos *)
      set (x := denote (env_of p) e) in *.
      exists (- sin x). intro m. cbn [unary_formula].
      rewrite Hin. cbn [bind]. rewrite RV_mf_sine. cbn [bind].
      rewrite RV_mf_multiply, RV_mf_negation. cbn [fold_right]. f_equal. ring.
    - (* NthPow *)
      set (x := denote (env_of p) e) in *.
      destruct (Pos.eq_dec n 1) as [->|Hn].
      + exists 1. intro m. cbn [unary_formula]. f_equal. ring.
      + exists (IZR (Z.pos n) * x ^ Pos.to_nat (Pos.pred n)). intro m. cbn [unary_formula].
        rewrite RV_match_pos_not1 by exact Hn.
        rewrite Hin. cbn [bind]. rewrite RV_mf_nth_power. cbn [bind].
        rewrite RV_mf_multiply. cbn [fold_right]. f_equal.
        change (nofZ RInst (Z.pos n)) with (IZR (Z.pos n)). ring.
    - (* NthRoot *)
      set (x := denote (env_of p) e) in *.
      destruct (Pos.eq_dec n 1) as [->|Hn].
      + exists 1. intro m. cbn [unary_formula]. f_equal. ring.
      + destruct Hd as [_ [Hn1|[Hnz _]]]; [contradiction|].
        set (sv := root n x) in *.
        assert (Hsv : sv <> 0) by (apply RV_root_nz; exact Hnz).
        exists (/ (IZR (Z.pos n) * (sv ^ Pos.to_nat (Pos.pred n) * 1))). intro m.
        cbn [unary_formula]. rewrite RV_match_pos_not1 by exact Hn.
        rewrite Hself. cbn [bind]. rewrite RV_mf_nth_power. cbn [bind].
        rewrite RV_mf_multiply. cbn [fold_right].
        change (nofZ RInst (Z.pos n)) with (IZR (Z.pos n)).
        rewrite RV_mf_divide.
        * reflexivity.
        * apply Rmult_integral_contrapositive_currified; [apply IZR_neq; discriminate|].
          apply Rmult_integral_contrapositive_currified; [|lra].
          apply pow_nonzero. exact Hsv.
    - (* Exp *)
      destruct Hw as [Hb _]. apply Rltb_true in Hb. change (n0 RInst) with 0 in Hb.
      set (x := denote (env_of p) e) in *.
      destruct (Reqb base 1) eqn:E1.
      + exists 0. intro m. cbn [unary_formula].
        change (neqb RInst base (n1 RInst)) with (Reqb base 1). rewrite E1.
        change (n0 RInst) with 0. f_equal. ring.
      + destruct (Reqb base (exp 1)) eqn:E2.
        * exists (Rpower base x). intro m. cbn [unary_formula].
          change (neqb RInst base (n1 RInst)) with (Reqb base 1). rewrite E1.
          rewrite Hself. cbn [bind].
          change (neqb RInst base (n_e RInst)) with (Reqb base (exp 1)). rewrite E2.
          rewrite RV_mf_multiply. cbn [fold_right]. f_equal. ring.
        * exists (ln base * Rpower base x). intro m. cbn [unary_formula].
          change (neqb RInst base (n1 RInst)) with (Reqb base 1). rewrite E1.
          rewrite Hself. cbn [bind].
          change (neqb RInst base (n_e RInst)) with (Reqb base (exp 1)). rewrite E2.
          rewrite RV_mf_logarithm_e by exact Hb. cbn [bind].
          rewrite RV_mf_multiply. cbn [fold_right]. f_equal. ring.
    - (* Log *)
      destruct Hw as [Hb [Hb1 _]]. apply Rltb_true in Hb. change (n0 RInst) with 0 in Hb.
      apply Reqb_false in Hb1. change (n1 RInst) with 1 in Hb1.
      destruct Hd as [_ Hpos].
      set (x := denote (env_of p) e) in *.
      destruct (Reqb base (exp 1)) eqn:E2.
      + exists (/ x). intro m. cbn [unary_formula]. rewrite Hin. cbn [bind].
        change (neqb RInst base (n_e RInst)) with (Reqb base (exp 1)). rewrite E2.
        rewrite RV_mf_divide by lra. reflexivity.
      + exists (/ (ln base * (x * 1))). intro m. cbn [unary_formula]. rewrite Hin. cbn [bind].
        change (neqb RInst base (n_e RInst)) with (Reqb base (exp 1)). rewrite E2.
        rewrite RV_mf_logarithm_e by exact Hb. cbn [bind].
        rewrite RV_mf_multiply. cbn [fold_right].
        rewrite RV_mf_divide.
        * reflexivity.
        * apply Rmult_integral_contrapositive_currified;
            [apply RV_ln_neq0; assumption | lra].
  Qed.

  Lemma ok_divide_left p a b : ok p (Divide a b) ->
    exists k, forall m, divide_formula_left RInst p a b m = Val (m * k).
  Proof.
    intro Hok. destruct (ok_Divide p a b Hok) as [Ha [Hb Hnz]].
    exists (/ denote (env_of p) b). intro m. unfold divide_formula_left.
    rewrite (ok_eval p b Hb). cbn [bind]. rewrite RV_mf_divide by exact Hnz. reflexivity.
  Qed.

  Lemma ok_divide_right p a b : ok p (Divide a b) ->
    exists k, forall m, divide_formula_right RInst p a b m = Val (m * k).
  Proof.
    intro Hok. destruct (ok_Divide p a b Hok) as [Ha [Hb Hnz]].
    set (lv := denote (env_of p) a). set (rv := denote (env_of p) b) in *.
    exists (- (lv / rv ^ Pos.to_nat 2)). intro m. unfold divide_formula_right.
    rewrite (ok_eval p a Ha), (ok_eval p b Hb). cbn [bind].
    rewrite RV_mf_nth_power. cbn [bind].
    rewrite RV_mf_divide by (apply pow_nonzero; exact Hnz). cbn [bind].
    rewrite RV_mf_multiply, RV_mf_negation. cbn [fold_right]. fold lv rv. f_equal. ring.
  Qed.

  Lemma ok_power_left p a b : ok p (Power a b) ->
    exists k, forall m, power_formula_left RInst p a b m = Val (m * k).
  Proof.
    intro Hok. destruct (ok_Power p a b Hok) as [Ha [Hb Hpos]].
    set (lv := denote (env_of p) a) in *. set (rv := denote (env_of p) b).
    exists (rv * Rpower lv (mf_minus RInst rv (n1 RInst))). intro m. unfold power_formula_left.
    rewrite (ok_eval p a Ha), (ok_eval p b Hb). cbn [bind].
    rewrite RV_mf_power by exact Hpos. cbn [bind].
    rewrite RV_mf_multiply. cbn [fold_right]. fold lv rv. f_equal. ring.
  Qed.

  Lemma ok_power_right p a b : ok p (Power a b) ->
    exists k, forall m, power_formula_right RInst p a b m = Val (m * k).
  Proof.
    intro Hok. destruct (ok_Power p a b Hok) as [Ha [Hb Hpos]].
    set (lv := denote (env_of p) a) in *. set (rv := denote (env_of p) b).
    exists (ln lv * Rpower lv rv). intro m. unfold power_formula_right.
    rewrite (ok_eval p a Ha), (ok_eval p _ Hok). cbn [bind denote].
    rewrite RV_mf_logarithm_e by exact Hpos. cbn [bind].
    rewrite RV_mf_multiply. cbn [fold_right]. fold lv rv. f_equal. ring.
  Qed.

  (** *** the strengthened induction statement
      (the third conjunct gives [rev_sound] for names outside the enumeration) *)

  Definition Pst (p : point R) (e : expr R) : Prop :=
    ok p e -> forall m acc,
    exists acc', rev RInst p e m acc = Val acc' /\
      forall v, exists d, fwdR v p e = Val d /\
        acc_get RInst acc' v = acc_get RInst acc v + m * d /\
        (~ In v (vars e) -> d = 0).

  (** n-ary sum: the accumulator is threaded through the operands *)
  Lemma add_case p m : forall l, Forall (Pst p) l -> Forall (ok p) l -> forall acc,
    exists acc', rev RInst p (Add l) m acc = Val acc' /\
      forall v, exists ds, sequence (map (fwdR v p) l) = Val ds /\
        acc_get RInst acc' v = acc_get RInst acc v + m * fold_right Rplus 0 ds /\
        (~ In v (flat_map vars l) -> fold_right Rplus 0 ds = 0).
  Proof.
    induction l as [|x r IH]; intros HP Hok acc.
    - exists acc. split; [reflexivity|]. intro v. exists []. cbn [map sequence fold_right].
      split; [reflexivity|]. split; [ring|reflexivity].
    - inversion HP as [|x' r' HPx HPr]; subst. inversion Hok as [|x' r' Hx Hr]; subst.
      rewrite RV_rev_Add_cons. destruct (HPx Hx m acc) as [acc1 [E1 H1]]. rewrite E1. cbn [bind].
      destruct (IH HPr Hr acc1) as [acc2 [E2 H2]]. exists acc2. split; [exact E2|]. intro v.
      destruct (H1 v) as [d [Ed [Ha Hz]]]. destruct (H2 v) as [ds [Eds [Has Hzs]]].
      exists (d :: ds). cbn [map sequence]. rewrite Ed, Eds. cbn [bind fold_right].
      split; [reflexivity|]. split.
      + rewrite Has, Ha. ring.
      + intro Hn. cbn [flat_map] in Hn. rewrite Hz, Hzs.
        * ring.
        * intro H. apply Hn. apply in_or_app. right. exact H.
        * intro H. apply Hn. apply in_or_app. left. exact H.
  Qed.

  (** n-ary product: operand i receives  m * prod_{j<>i} v_j ; the list [vs] of operand values
      is arbitrary here, only the index offset matters *)
  Lemma mul_case p m (vs : list R) : forall l, Forall (Pst p) l -> Forall (ok p) l ->
    forall i acc,
    exists acc',
      (fix go (i : nat) (l : list (expr R)) (acc : accum) {struct l} : outcome accum :=
         match l with
         | [] => Val acc
         | x :: r =>
             acc' <- rev RInst p x (mf_multiply RInst (m :: remove_nth i vs)) acc ;;
             go (S i) r acc'
         end) i l acc = Val acc' /\
      forall v, exists ds, sequence (map (fwdR v p) l) = Val ds /\
        acc_get RInst acc' v = acc_get RInst acc v +
          m * fold_right Rplus 0
                (mapi_from i (fun i d => mf_multiply RInst (d :: remove_nth i vs)) ds) /\
        (~ In v (flat_map vars l) ->
         fold_right Rplus 0
           (mapi_from i (fun i d => mf_multiply RInst (d :: remove_nth i vs)) ds) = 0).
  Proof.
    induction l as [|x r IH]; intros HP Hok i acc.
    - exists acc. split; [reflexivity|]. intro v. exists [].
      cbn [map sequence mapi_from fold_right].
      split; [reflexivity|]. split; [ring|reflexivity].
    - inversion HP as [|x' r' HPx HPr]; subst. inversion Hok as [|x' r' Hx Hr]; subst.
      destruct (HPx Hx (mf_multiply RInst (m :: remove_nth i vs)) acc) as [acc1 [E1 H1]].
      rewrite E1. cbn [bind].
      destruct (IH HPr Hr (S i) acc1) as [acc2 [E2 H2]]. exists acc2. split; [exact E2|].
      intro v.
      destruct (H1 v) as [d [Ed [Ha Hz]]]. destruct (H2 v) as [ds [Eds [Has Hzs]]].
      exists (d :: ds). cbn [map sequence]. rewrite Ed, Eds. cbn [bind mapi_from fold_right].
      split; [reflexivity|].
      rewrite RV_mf_multiply in Ha. rewrite RV_mf_multiply. cbn [fold_right] in Ha |- *.
      split.
      + rewrite Has, Ha. ring.
      + intro Hn. cbn [flat_map] in Hn. rewrite Hz, Hzs.
        * ring.
        * intro H. apply Hn. apply in_or_app. right. exact H.
        * intro H. apply Hn. apply in_or_app. left. exact H.
  Qed.

  Lemma unary_case p e : is_unary e = true -> Pst p (inner_of e) -> Pst p e.
  Proof.
    intros Hu IH Hok m acc.
    pose proof (ok_inner p e Hu Hok) as Hi.
    destruct (ok_unary_linear p e Hu Hok) as [k Hk].
    rewrite (RV_rev_unary p e m acc Hu). rewrite (ok_eval p _ Hi). cbn [bind].
    rewrite (ok_unary_verify p e Hu Hok). cbn [bind]. rewrite Hk. cbn [bind].
    destruct (IH Hi (m * k) acc) as [acc' [E H]]. exists acc'. split; [exact E|]. intro v.
    destruct (H v) as [d [Ed [Ha Hz]]]. exists (d * k).
    rewrite (RV_fwd_unary v p e Hu). rewrite (ok_eval p _ Hi). cbn [bind].
    rewrite (ok_unary_verify p e Hu Hok). cbn [bind]. rewrite Ed. cbn [bind]. rewrite Hk.
    split; [reflexivity|]. split.
    - rewrite Ha. ring.
    - intro Hn. rewrite Hz; [ring|]. rewrite <- (RV_vars_unary e Hu). exact Hn.
  Qed.

  Lemma rev_acc_strong p : forall e, Pst p e.
  Proof.
    induction e as [c|x|l IHl|l IHl|a b IHa IHb|a b IHa IHb|a b IHa IHb
                   |a IHa|a IHa|a IHa|a IHa|a n IHa|a n IHa|a base IHa|a base IHa]
      using expr_ind';
      try (apply unary_case; [reflexivity | exact IHa]).
    - (* Const *)
      intros _ m acc. exists acc. split; [reflexivity|]. intro v. exists 0.
      split; [reflexivity|]. split; [ring|reflexivity].
    - (* Var *)
      intros _ m acc. exists (acc_add RInst acc x m). split; [reflexivity|]. intro v.
      cbn [fwd vars]. rewrite RV_acc_get_add.
      destruct (name_eqb x v) eqn:E.
      + apply Pos.eqb_eq in E. subst v. exists 1. unfold name_eqb. rewrite Pos.eqb_refl.
        split; [reflexivity|]. split; [ring|]. intro Hn. exfalso. apply Hn. left. reflexivity.
      + exists 0. split; [reflexivity|].
        assert (E' : name_eqb v x = false).
        { unfold name_eqb in *. rewrite Pos.eqb_sym. exact E. }
        rewrite E'. split; [ring|reflexivity].
    - (* Add *)
      intros Hok m acc.
      destruct (add_case p m l IHl (ok_Add p l Hok) acc) as [acc' [E H]].
      exists acc'. split; [exact E|]. intro v.
      destruct (H v) as [ds [Eds [Ha Hz]]].
      exists (fold_right Rplus 0 ds). rewrite RV_fwd_Add, Eds. cbn [bind].
      rewrite RV_mf_add. split; [reflexivity|]. split; [exact Ha|exact Hz].
    - (* Mul *)
      intros Hok m acc. pose proof (ok_Mul p l Hok) as Hl.
      set (vs := map (denote (env_of p)) l).
      destruct (mul_case p m vs l IHl Hl O acc) as [acc' [E H]].
      exists acc'. split.
      + cbn [rev]. unfold eval_list. rewrite (ok_seq_eval p l Hl). cbn [bind]. exact E.
      + intro v. destruct (H v) as [ds [Eds [Ha Hz]]].
        rewrite RV_fwd_Mul. unfold eval_list. rewrite (ok_seq_eval p l Hl). cbn [bind].
        rewrite Eds. cbn [bind]. rewrite RV_mf_add. unfold mapi. fold vs.
        eexists. split; [reflexivity|]. split; [exact Ha|exact Hz].
    - (* Minus *)
      intros Hok m acc. destruct (ok_Minus p a b Hok) as [Ha Hb].
      cbn [rev]. destruct (IHa Ha m acc) as [acc1 [E1 H1]]. rewrite E1. cbn [bind].
      destruct (IHb Hb (mf_negation RInst m) acc1) as [acc2 [E2 H2]].
      exists acc2. split; [exact E2|]. intro v.
      destruct (H1 v) as [da [Eda [Ha1 Hz1]]]. destruct (H2 v) as [db [Edb [Ha2 Hz2]]].
      exists (da - db). cbn [fwd]. rewrite Eda, Edb. cbn [bind].
      split; [reflexivity|]. split.
      + rewrite Ha2, Ha1, RV_mf_negation. ring.
      + cbn [vars]. intro Hn. rewrite Hz1, Hz2.
        * ring.
        * intro Hin. apply Hn. apply in_or_app. right. exact Hin.
        * intro Hin. apply Hn. apply in_or_app. left. exact Hin.
    - (* Divide *)
      intros Hok m acc. destruct (ok_Divide p a b Hok) as [Ha [Hb Hnz]].
      destruct (ok_divide_left p a b Hok) as [kl Hkl].
      destruct (ok_divide_right p a b Hok) as [kr Hkr].
      rewrite RV_rev_Divide. rewrite (ok_eval p a Ha), (ok_eval p b Hb). cbn [bind].
      rewrite (ok_verify_divide _ _ Hnz). cbn [bind]. rewrite Hkl, Hkr. cbn [bind].
      destruct (IHa Ha (m * kl) acc) as [acc1 [E1 H1]]. rewrite E1. cbn [bind].
      destruct (IHb Hb (m * kr) acc1) as [acc2 [E2 H2]].
      exists acc2. split; [exact E2|]. intro v.
      destruct (H1 v) as [da [Eda [Ha1 Hz1]]]. destruct (H2 v) as [db [Edb [Ha2 Hz2]]].
      exists (da * kl + (db * kr + 0)).
      rewrite RV_fwd_Divide. rewrite (ok_eval p a Ha), (ok_eval p b Hb). cbn [bind].
      rewrite (ok_verify_divide _ _ Hnz). cbn [bind]. rewrite Eda, Edb. cbn [bind].
      rewrite Hkl, Hkr. cbn [bind]. rewrite RV_mf_add. cbn [fold_right].
      split; [reflexivity|]. split.
      + rewrite Ha2, Ha1. ring.
      + cbn [vars]. intro Hn. rewrite Hz1, Hz2.
        * ring.
        * intro Hin. apply Hn. apply in_or_app. right. exact Hin.
        * intro Hin. apply Hn. apply in_or_app. left. exact Hin.
    - (* Power *)
      intros Hok m acc. destruct (ok_Power p a b Hok) as [Ha [Hb Hpos]].
      destruct (ok_power_left p a b Hok) as [kl Hkl].
      destruct (ok_power_right p a b Hok) as [kr Hkr].
      destruct (ok_power_shortcut p a Ha) as [sc Hsc].
      rewrite RV_rev_Power. rewrite (ok_eval p _ Hok). cbn [bind]. rewrite Hsc. cbn [bind].
      destruct sc.
      + (* base is the constant 1: nothing is propagated, forward returns 0 *)
        exists acc. split; [reflexivity|]. intro v. exists 0.
        rewrite RV_fwd_Power. rewrite (ok_eval p _ Hok). cbn [bind]. rewrite Hsc. cbn [bind].
        split; [reflexivity|]. split; [ring|reflexivity].
      + rewrite (ok_eval p a Ha), (ok_eval p b Hb). cbn [bind].
        rewrite (ok_verify_power _ _ Hpos). cbn [bind]. rewrite Hkl, Hkr. cbn [bind].
        destruct (IHa Ha (m * kl) acc) as [acc1 [E1 H1]]. rewrite E1. cbn [bind].
        destruct (IHb Hb (m * kr) acc1) as [acc2 [E2 H2]].
        exists acc2. split; [exact E2|]. intro v.
        destruct (H1 v) as [da [Eda [Ha1 Hz1]]]. destruct (H2 v) as [db [Edb [Ha2 Hz2]]].
        exists (da * kl + db * kr).
        rewrite RV_fwd_Power. rewrite (ok_eval p _ Hok). cbn [bind]. rewrite Hsc. cbn [bind].
        rewrite (ok_eval p a Ha), (ok_eval p b Hb). cbn [bind].
        rewrite (ok_verify_power _ _ Hpos). cbn [bind]. rewrite Eda, Edb. cbn [bind].
        rewrite Hkl, Hkr. cbn [bind].
        split; [reflexivity|]. split.
        * rewrite Ha2, Ha1. ring.
        * cbn [vars]. intro Hn. rewrite Hz1, Hz2.
          -- ring.
          -- intro Hin. apply Hn. apply in_or_app. right. exact Hin.
          -- intro Hin. apply Hn. apply in_or_app. left. exact Hin.
  Qed.

  (** ** The two statements of Spec.v *)

  Theorem rev_acc : C04_rev_acc.
  Proof.
    intros p e m acc Hw Hs Hd.
    destruct (rev_acc_strong p e (conj Hw (conj Hs Hd)) m acc) as [acc' [E H]].
    exists acc'. split; [exact E|]. intro v. destruct (H v) as [d [Ed [Ha _]]].
    exists d. split; assumption.
  Qed.

  Theorem rev_sound : C04_rev_sound.
  Proof.
    intros p e enum Hw Hs Hd Hc.
    destruct (rev_acc_strong p e (conj Hw (conj Hs Hd)) 1 []) as [acc' [E H]].
    exists (numeric_partials_for RInst acc' enum). split.
    - unfold numeric_partials. change (n1 RInst) with 1. rewrite E. reflexivity.
    - intro v. destruct (H v) as [d [Ed [Ha Hz]]]. exists d. split; [exact Ed|].
      rewrite RV_acc_get_nil in Ha. unfold located_component, numeric_partials_for.
      destruct (in_dec Pos.eq_dec v enum) as [Hin|Hnin].
      + (* v is enumerated: the dictionary entry is the accumulated value *)
        rewrite (RV_lookup_map_in (acc_get RInst acc') enum v Hin). rewrite Ha. ring.
      + (* v is not enumerated, hence does not occur: .get(v, 0) = 0 = forward value *)
        rewrite (RV_lookup_map_notin (acc_get RInst acc') enum v Hnin).
        change (n0 RInst) with 0. symmetry. apply Hz.
        intro Hv. apply Hnin. apply Hc. exact Hv.
  Qed.

End R.

(** ** Non-vacuity: the premises hold on a tree with a repeated variable, an n-ary product,
    a unary node and a quotient whose denominator is not identically non-zero; and on that
    tree the conclusion, instantiated, really speaks about a successful reverse pass. *)
Definition RV_ex_e : expr R :=
  Divide (Mul [Var 1%positive; Sin (Var 2%positive); Var 1%positive])
         (Add [Var 2%positive; Const 1]).
Definition RV_ex_p : point R := [(1%positive, 2); (2%positive, 3)].

Example rev_premises_satisfiable :
  wfR RV_ex_e /\ supplies RV_ex_p RV_ex_e /\ InDomain (env_of RV_ex_p) RV_ex_e /\
  covers [2%positive; 1%positive] RV_ex_e.
Proof.
  unfold RV_ex_e, RV_ex_p. split; [|split; [|split]].
  - cbn. tauto.
  - intros x Hx. cbn in Hx.
    destruct Hx as [<-|[<-|[<-|[<-|[]]]]]; cbn; discriminate.
  - cbn. unfold env_of. cbn. repeat split. lra.
  - intros x Hx. cbn in Hx. cbn.
    destruct Hx as [<-|[<-|[<-|[<-|[]]]]]; tauto.
Qed.

Example rev_acc_instance (Heval : C01_eval_sound) :
  exists acc', rev RInst RV_ex_p RV_ex_e 1 [] = Val acc' /\
    forall v, exists d, fwdR v RV_ex_p RV_ex_e = Val d /\ acc_get RInst acc' v = d.
Proof.
  destruct rev_premises_satisfiable as [Hw [Hs [Hd _]]].
  destruct (rev_acc Heval RV_ex_p RV_ex_e 1 [] Hw Hs Hd) as [acc' [E H]].
  exists acc'. split; [exact E|]. intro v. destruct (H v) as [d [Ed Ha]].
  exists d. split; [exact Ed|]. rewrite Ha. rewrite RV_acc_get_nil. ring.
Qed.

Check (rev_acc : C01_eval_sound -> C04_rev_acc).
Check (rev_sound : C01_eval_sound -> C04_rev_sound).
Print Assumptions rev_acc.
Print Assumptions rev_sound.
