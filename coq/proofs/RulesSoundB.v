(** * RulesSoundB: soundness ([refines]) of the rewrite rules of the classes
    Power, NthPower, NthRoot, Exponential, Logarithm, and the KF-ROOT findings. *)
From Coq Require Import Reals ZArith List Bool String Lra Lia.
From SM Require Import Num Syntax Outcome MathFun Eval Rules Driver RInst Denote Spec.
Import ListNotations.
Open Scope R_scope.

(** ** A small library about [pow], [Rpower] and [root] *)

Lemma RB_IZRpos_pos (n : positive) : 0 < IZR (Zpos n).
Proof. apply IZR_lt; reflexivity. Qed.

Lemma RB_IZRpos_neq (n : positive) : IZR (Zpos n) <> 0.
Proof. apply IZR_neq; discriminate. Qed.

Lemma RB_INR_pos (n : positive) : INR (Pos.to_nat n) = IZR (Zpos n).
Proof. rewrite INR_IZR_INZ, positive_nat_Z; reflexivity. Qed.

Lemma RB_to_nat_pos (n : positive) : (0 < Pos.to_nat n)%nat.
Proof. apply Pos2Nat.is_pos. Qed.

Lemma RB_odd_even (n : positive) : Z.odd (Zpos n) = true -> Z.even (Zpos n) = false.
Proof. intro H; rewrite <- Z.negb_odd, H; reflexivity. Qed.

(** parity and powers *)
Lemma RB_pow_opp_even (n : positive) (a : R) :
  Z.even (Zpos n) = true -> (- a) ^ Pos.to_nat n = a ^ Pos.to_nat n.
Proof.
  intro H. destruct n as [p|p|]; try discriminate.
  rewrite Pos2Nat.inj_xO, !pow_mult.
  replace ((- a) ^ 2) with (a ^ 2) by ring. reflexivity.
Qed.

Lemma RB_pow_opp_odd (n : positive) (a : R) :
  Z.even (Zpos n) = false -> (- a) ^ Pos.to_nat n = - a ^ Pos.to_nat n.
Proof.
  intro H. destruct n as [p|p|]; try discriminate.
  - rewrite Pos2Nat.inj_xI. rewrite <- !tech_pow_Rmult, !pow_mult.
    replace ((- a) ^ 2) with (a ^ 2) by ring. ring.
  - simpl. ring.
Qed.

Lemma RB_pow_pos (n : positive) (x : R) : 0 < x -> 0 < x ^ Pos.to_nat n.
Proof. apply pow_lt. Qed.

Lemma RB_pow_neg_odd (n : positive) (x : R) :
  Z.even (Zpos n) = false -> x < 0 -> x ^ Pos.to_nat n < 0.
Proof.
  intros H Hx. replace x with (- (- x)) by ring. rewrite RB_pow_opp_odd by assumption.
  assert (0 < (- x) ^ Pos.to_nat n) by (apply pow_lt; lra). lra.
Qed.

Lemma RB_pow_neg_even (n : positive) (x : R) :
  Z.even (Zpos n) = true -> x < 0 -> 0 < x ^ Pos.to_nat n.
Proof.
  intros H Hx. replace x with (- (- x)) by ring. rewrite RB_pow_opp_even by assumption.
  apply pow_lt; lra.
Qed.

Lemma RB_pow_0 (n : positive) : 0 ^ Pos.to_nat n = 0.
Proof. apply pow_i, RB_to_nat_pos. Qed.

Lemma RB_pow_neq0_inv (n : positive) (x : R) : x ^ Pos.to_nat n <> 0 -> x <> 0.
Proof. intros H E; subst; apply H, RB_pow_0. Qed.

Lemma RB_pow_odd_pos_inv (n : positive) (x : R) :
  Z.even (Zpos n) = false -> 0 < x ^ Pos.to_nat n -> 0 < x.
Proof.
  intros H Hp. destruct (Rtotal_order x 0) as [Hx|[Hx|Hx]]; [| |assumption].
  - pose proof (RB_pow_neg_odd n x H Hx); lra.
  - subst; rewrite RB_pow_0 in Hp; lra.
Qed.

(** Rpower *)
Lemma RB_Rpower_pos (x y : R) : 0 < Rpower x y.
Proof. apply exp_pos. Qed.

Lemma RB_Rpower_neq0 (x y : R) : Rpower x y <> 0.
Proof. pose proof (RB_Rpower_pos x y); lra. Qed.

Lemma RB_Rpower_1_base (y : R) : Rpower 1 y = 1.
Proof. unfold Rpower. rewrite ln_1, Rmult_0_r. apply exp_0. Qed.

Lemma RB_Rpower_inv_base (x y : R) : 0 < x -> Rpower (/ x) y = / Rpower x y.
Proof.
  intro Hx. unfold Rpower. rewrite ln_Rinv by assumption.
  replace (y * - ln x) with (- (y * ln x)) by ring. apply exp_Ropp.
Qed.

Lemma RB_Rpower_m1 (x : R) : 0 < x -> Rpower x (-1) = / x.
Proof.
  intro Hx. replace (-1) with (Ropp 1) by lra.
  rewrite Rpower_Ropp, Rpower_1 by assumption. reflexivity.
Qed.

Lemma RB_Rpower_posexp (x : R) (n : positive) :
  0 < x -> Rpower x (IZR (Zpos n)) = x ^ Pos.to_nat n.
Proof. intro Hx. rewrite <- RB_INR_pos. apply Rpower_pow; assumption. Qed.

Lemma RB_Rpower_IZR (x : R) (z : Z) :
  0 < x -> (0 < z)%Z -> Rpower x (IZR z) = x ^ Pos.to_nat (Z.to_pos z).
Proof.
  intros Hx Hz. rewrite <- RB_Rpower_posexp by assumption.
  rewrite Z2Pos.id by assumption. reflexivity.
Qed.

Lemma RB_Rpower_pow (b u : R) (n : positive) :
  (Rpower b u) ^ Pos.to_nat n = Rpower b (IZR (Zpos n) * u).
Proof.
  rewrite <- RB_Rpower_posexp by apply RB_Rpower_pos.
  rewrite Rpower_mult. f_equal. ring.
Qed.

Lemma RB_ln_neq0 (b : R) : 0 < b -> b <> 1 -> ln b <> 0.
Proof.
  intros Hb Hb1 E. apply Hb1. apply ln_inv; [assumption|lra|]. rewrite ln_1; assumption.
Qed.

Lemma RB_Rpower_log (b u : R) : 0 < b -> b <> 1 -> 0 < u -> Rpower b (ln u / ln b) = u.
Proof.
  intros Hb Hb1 Hu. unfold Rpower.
  replace (ln u / ln b * ln b) with (ln u) by (field; apply RB_ln_neq0; assumption).
  apply exp_ln; assumption.
Qed.

Lemma RB_log_Rpower (b u : R) : 0 < b -> b <> 1 -> ln (Rpower b u) / ln b = u.
Proof.
  intros Hb Hb1. rewrite ln_Rpower. field. apply RB_ln_neq0; assumption.
Qed.

Lemma RB_ln_pow (x : R) (n : positive) :
  0 < x -> ln (x ^ Pos.to_nat n) = IZR (Zpos n) * ln x.
Proof.
  intro Hx. rewrite <- RB_Rpower_posexp by assumption. apply ln_Rpower.
Qed.

(** [Rint] *)
Lemma RB_Rint_eq (x : R) (z : Z) : Rint x = Some z -> x = IZR z.
Proof.
  unfold Rint. destruct (Req_EM_T x (IZR (Int_part x))) as [E|E]; [|discriminate].
  intro H; inversion H; subst. exact E.
Qed.

(** [root] *)
(* in a goal about x < 0, write x = - y with 0 < y *)
Ltac RB_flip x y Hy :=
  assert (Hy : 0 < - x) by lra; replace x with (- (- x)) by ring;
  revert Hy; generalize (- x); intros y Hy.

Lemma RB_root_pos_eq (n : positive) (x : R) : 0 < x -> root n x = Rpower x (/ IZR (Zpos n)).
Proof. intro Hx. unfold root. destruct (Rlt_dec 0 x); [reflexivity|contradiction]. Qed.

Lemma RB_root_neg_eq (n : positive) (x : R) :
  x < 0 -> root n x = - Rpower (- x) (/ IZR (Zpos n)).
Proof.
  intro Hx. unfold root. destruct (Rlt_dec 0 x); [lra|].
  destruct (Rlt_dec x 0); [reflexivity|contradiction].
Qed.

Lemma RB_root_0 (n : positive) : root n 0 = 0.
Proof.
  unfold root. destruct (Rlt_dec 0 0); [lra|]. destruct (Rlt_dec 0 0); [lra|reflexivity].
Qed.

Lemma RB_root_opp (n : positive) (x : R) : root n (- x) = - root n x.
Proof.
  destruct (Rtotal_order x 0) as [Hx|[Hx|Hx]].
  - rewrite (RB_root_pos_eq n (- x)) by lra. rewrite (RB_root_neg_eq n x) by assumption. ring.
  - subst. rewrite Ropp_0, RB_root_0. ring.
  - rewrite (RB_root_neg_eq n (- x)) by lra. rewrite (RB_root_pos_eq n x) by assumption.
    rewrite Ropp_involutive. reflexivity.
Qed.

Lemma RB_root_1 (x : R) : root 1 x = x.
Proof.
  assert (P : forall y, 0 < y -> root 1 y = y).
  { intros y Hy. rewrite RB_root_pos_eq by assumption. rewrite Rinv_1. apply Rpower_1; assumption. }
  destruct (Rtotal_order x 0) as [Hx|[Hx|Hx]].
  - RB_flip x y Hy. rewrite RB_root_opp, P by assumption. reflexivity.
  - subst; apply RB_root_0.
  - apply P; assumption.
Qed.

Lemma RB_root_pos (n : positive) (x : R) : 0 < x -> 0 < root n x.
Proof. intro Hx. rewrite RB_root_pos_eq by assumption. apply RB_Rpower_pos. Qed.

Lemma RB_root_neg (n : positive) (x : R) : x < 0 -> root n x < 0.
Proof.
  intro Hx. rewrite RB_root_neg_eq by assumption.
  pose proof (RB_Rpower_pos (- x) (/ IZR (Zpos n))). lra.
Qed.

Lemma RB_root_neq0 (n : positive) (x : R) : x <> 0 -> root n x <> 0.
Proof.
  intro Hx. destruct (Rtotal_order x 0) as [H|[H|H]]; [|contradiction|].
  - pose proof (RB_root_neg n x H); lra.
  - pose proof (RB_root_pos n x H); lra.
Qed.

Lemma RB_root_pos_inv (n : positive) (x : R) : 0 < root n x -> 0 < x.
Proof.
  intro H. destruct (Rtotal_order x 0) as [Hx|[Hx|Hx]]; [| |assumption].
  - pose proof (RB_root_neg n x Hx); lra.
  - subst; rewrite RB_root_0 in H; lra.
Qed.

Lemma RB_root_inv (n : positive) (x : R) : x <> 0 -> root n (/ x) = / root n x.
Proof.
  assert (P : forall y, 0 < y -> root n (/ y) = / root n y).
  { intros y Hy. rewrite !RB_root_pos_eq by (try apply Rinv_0_lt_compat; assumption).
    apply RB_Rpower_inv_base; assumption. }
  intro Hx. destruct (Rtotal_order x 0) as [H|[H|H]]; [|contradiction|].
  - RB_flip x y Hy. rewrite Rinv_opp, !RB_root_opp, P by assumption.
    rewrite Rinv_opp. reflexivity.
  - apply P; assumption.
Qed.

(** (root n x)^n = x whenever x >= 0 or n is odd *)
Lemma RB_root_pow_self (n : positive) (x : R) :
  (Z.even (Zpos n) = true -> 0 <= x) -> root n x ^ Pos.to_nat n = x.
Proof.
  intro H. destruct (Rtotal_order x 0) as [Hx|[Hx|Hx]].
  - destruct (Z.even (Zpos n)) eqn:E; [specialize (H eq_refl); lra|].
    clear H. RB_flip x y Hy. rewrite RB_root_opp, RB_pow_opp_odd by assumption.
    rewrite root_pos_pow by assumption. reflexivity.
  - subst. rewrite RB_root_0. apply RB_pow_0.
  - apply root_pos_pow; assumption.
Qed.

(** root n (x^m) = (root n x)^m, for every x *)
Lemma RB_root_pow (n m : positive) (x : R) :
  root n (x ^ Pos.to_nat m) = root n x ^ Pos.to_nat m.
Proof.
  assert (P : forall y, 0 < y -> root n (y ^ Pos.to_nat m) = root n y ^ Pos.to_nat m).
  { intros y Hy. rewrite !RB_root_pos_eq by (try apply pow_lt; assumption).
    rewrite RB_Rpower_pow. rewrite <- RB_Rpower_posexp by assumption.
    rewrite Rpower_mult. reflexivity. }
  destruct (Rtotal_order x 0) as [Hx|[Hx|Hx]].
  - RB_flip x y Hy. rewrite RB_root_opp.
    destruct (Z.even (Zpos m)) eqn:E.
    + rewrite !RB_pow_opp_even by assumption. apply P; assumption.
    + rewrite !RB_pow_opp_odd by assumption. rewrite RB_root_opp, P by assumption. reflexivity.
  - subst. rewrite RB_pow_0, RB_root_0, RB_pow_0. reflexivity.
  - apply P; assumption.
Qed.

(** root n (root m x) = root (n*m) x, for every x *)
Lemma RB_root_root (n m : positive) (x : R) : root n (root m x) = root (n * m) x.
Proof.
  assert (P : forall y, 0 < y -> root n (root m y) = root (n * m) y).
  { intros y Hy. rewrite (RB_root_pos_eq n) by (apply RB_root_pos; assumption).
    rewrite !RB_root_pos_eq by assumption. rewrite Rpower_mult. f_equal.
    rewrite Pos2Z.inj_mul, mult_IZR. field. split; apply RB_IZRpos_neq. }
  destruct (Rtotal_order x 0) as [Hx|[Hx|Hx]].
  - RB_flip x y Hy. rewrite !RB_root_opp, P by assumption. reflexivity.
  - subst. rewrite !RB_root_0. reflexivity.
  - apply P; assumption.
Qed.

(** cancelling a common factor: root (m*g) x ^ (n*g) = root m x ^ n *)
Lemma RB_root_pow_scale (m n g : positive) (x : R) :
  (Z.even (Zpos (m * g)) = true -> 0 <= x) ->
  root (m * g) x ^ Pos.to_nat (n * g) = root m x ^ Pos.to_nat n.
Proof.
  intro H. rewrite (Pos.mul_comm m g), <- RB_root_root.
  rewrite (Pos.mul_comm n g), Pos2Nat.inj_mul, pow_mult.
  rewrite RB_root_pow_self; [reflexivity|].
  intro Eg. rewrite Pos2Z.inj_mul, Z.even_mul, Eg, orb_true_r in H. specialize (H eq_refl).
  destruct H as [H|H]; [left; apply RB_root_pos; assumption|right; subst; symmetry; apply RB_root_0].
Qed.

(** ** Tactics for the rule proofs *)
Local Arguments Z.even : simpl never.
Local Arguments Z.odd : simpl never.
Local Arguments Pos.to_nat : simpl never.
Local Arguments Pos.mul : simpl never.
Local Arguments Pos.gcd : simpl never.
Local Arguments Z.div : simpl never.
Local Arguments Z.to_pos : simpl never.
Local Arguments IZR : simpl never.
Local Arguments Z.leb : simpl never.

Ltac RB_des e a b n :=
  destruct e as [?c|?x|?l|?l|a b|a b|a b|a|a|a|a|a n|a n|a b|a b]; try discriminate.

Ltac RB_incl :=
  let x := fresh "x" in let Hx := fresh "Hx" in
  intros x Hx; simpl in *; rewrite ?in_app_iff in *; tauto.

Ltac RB_inv H := inversion H; subst; clear H.

(** ** Power *)
Lemma reduce_u_to_the_one_sound :
  forall e e' : expr R, reduce_u_to_the_one RInst e = Some e' -> refines e e'.
Proof.
  intros e e' H. unfold reduce_u_to_the_one in H.
  RB_des e u v n. RB_des v w1 w2 n. simpl in H.
  destruct (Reqb c 1) eqn:E; [|discriminate]. apply Reqb_true in E. RB_inv H.
  intros Hwf. simpl in Hwf. destruct Hwf as [Hu _].
  split; [assumption|]. split; [RB_incl|].
  intros rho HD. simpl in *. destruct HD as (HDu & _ & Hpos).
  split; [assumption|]. symmetry. apply Rpower_1; assumption.
Qed.

Lemma reduce_u_to_the_zero_sound :
  forall e e' : expr R, reduce_u_to_the_zero RInst e = Some e' -> refines e e'.
Proof.
  intros e e' H. unfold reduce_u_to_the_zero in H.
  RB_des e u v n. RB_des v w1 w2 n. simpl in H.
  destruct (Reqb c 0) eqn:E; [|discriminate]. apply Reqb_true in E. RB_inv H.
  intros Hwf. split; [exact I|]. split; [RB_incl|].
  intros rho HD. simpl in *. destruct HD as (HDu & _ & Hpos).
  split; [exact I|]. symmetry. apply Rpower_O; assumption.
Qed.

Lemma reduce_one_to_the_u_sound :
  forall e e' : expr R, reduce_one_to_the_u RInst e = Some e' -> refines e e'.
Proof.
  intros e e' H. unfold reduce_one_to_the_u in H.
  RB_des e u v n. RB_des u w1 w2 n. simpl in H.
  destruct (Reqb c 1) eqn:E; [|discriminate]. apply Reqb_true in E. RB_inv H.
  intros Hwf. split; [exact I|]. split; [RB_incl|].
  intros rho HD. simpl in *.
  split; [exact I|]. symmetry. apply RB_Rpower_1_base.
Qed.

Lemma reduce_u_to_the_n_at_least_two_sound :
  forall e e' : expr R, reduce_u_to_the_n_at_least_two RInst e = Some e' -> refines e e'.
Proof.
  intros e e' H. unfold reduce_u_to_the_n_at_least_two in H.
  RB_des e u v n. RB_des v w1 w2 n. simpl in H.
  destruct (Rint c) as [z|] eqn:E; [|discriminate]. apply RB_Rint_eq in E.
  destruct (Z.leb 2 z) eqn:Ez; [|discriminate]. apply Z.leb_le in Ez. RB_inv H.
  intros Hwf. simpl in Hwf. destruct Hwf as [Hu _].
  split; [assumption|]. split; [RB_incl|].
  intros rho HD. simpl in *. destruct HD as (HDu & _ & Hpos).
  split; [assumption|]. symmetry. apply RB_Rpower_IZR; [assumption|lia].
Qed.

Lemma reduce_u_to_the_negative_one_sound :
  forall e e' : expr R, reduce_u_to_the_negative_one RInst e = Some e' -> refines e e'.
Proof.
  intros e e' H. unfold reduce_u_to_the_negative_one in H.
  RB_des e u v n. RB_des v w1 w2 n. simpl in H.
  destruct (Reqb c (-1)) eqn:E; [|discriminate]. apply Reqb_true in E. RB_inv H.
  intros Hwf. simpl in Hwf. destruct Hwf as [Hu _].
  split; [assumption|]. split; [RB_incl|].
  intros rho HD. simpl in *. destruct HD as (HDu & _ & Hpos).
  split; [split; [assumption|lra]|]. symmetry. apply RB_Rpower_m1; assumption.
Qed.

Lemma reduce_power_with_constant_base_sound :
  forall e e' : expr R, reduce_power_with_constant_base RInst e = Some e' -> refines e e'.
Proof.
  intros e e' H. unfold reduce_power_with_constant_base in H.
  RB_des e u v n. RB_des u w1 w2 n. simpl in H.
  destruct (Rltb 0 c) eqn:E; [|discriminate]. simpl in H.
  destruct (Reqb c 1) eqn:E1; [discriminate|]. RB_inv H.
  intros Hwf. simpl in Hwf. destruct Hwf as [_ Hv].
  split; [simpl; split; assumption|]. split; [RB_incl|].
  intros rho HD. simpl in *. destruct HD as (_ & HDv & Hpos).
  split; [assumption|reflexivity].
Qed.

Lemma reduce_power_of_power_sound :
  forall e e' : expr R, reduce_power_of_power e = Some e' -> refines e e'.
Proof.
  intros e e' H. unfold reduce_power_of_power in H.
  RB_des e u w n. RB_des u u v n. RB_inv H.
  intros Hwf. simpl in Hwf. destruct Hwf as [[Hu Hv] Hw].
  split; [simpl; tauto|]. split; [RB_incl|].
  intros rho HD. simpl in *. destruct HD as ((HDu & HDv & Hpos) & HDw & _).
  split; [tauto|]. rewrite Rpower_mult. f_equal. ring.
Qed.

Lemma reduce_u_to_the_negation_of_v_sound :
  forall e e' : expr R, reduce_u_to_the_negation_of_v e = Some e' -> refines e e'.
Proof.
  intros e e' H. unfold reduce_u_to_the_negation_of_v in H.
  RB_des e u w n. RB_des w v v2 n. RB_inv H.
  intros Hwf. simpl in Hwf.
  split; [simpl; tauto|]. split; [RB_incl|].
  intros rho HD. simpl in *. destruct HD as (HDu & HDv & Hpos).
  split; [split; [tauto|apply RB_Rpower_neq0]|]. symmetry. apply Rpower_Ropp.
Qed.

Lemma reduce_reciprocal_u_to_the_v_sound :
  forall e e' : expr R, reduce_reciprocal_u_to_the_v e = Some e' -> refines e e'.
Proof.
  intros e e' H. unfold reduce_reciprocal_u_to_the_v in H.
  RB_des e w v n. RB_des w u u2 n. RB_inv H.
  intros Hwf. simpl in Hwf.
  split; [simpl; tauto|]. split; [RB_incl|].
  intros rho HD. simpl in *. destruct HD as ((HDu & Hne) & HDv & Hpos).
  assert (Hu : 0 < denote rho u).
  { destruct (Rtotal_order (denote rho u) 0) as [Hx|[Hx|Hx]]; [|contradiction|assumption].
    pose proof (Rinv_lt_0_compat _ Hx). lra. }
  split; [split; [tauto|apply RB_Rpower_neq0]|]. symmetry. apply RB_Rpower_inv_base; assumption.
Qed.

(** ** NthPower *)
Lemma reduce_nth_power_where_n_is_one_sound :
  forall e e' : expr R, reduce_nth_power_where_n_is_one e = Some e' -> refines e e'.
Proof.
  intros e e' H. unfold reduce_nth_power_where_n_is_one in H.
  RB_des e u v n. destruct (Pos.eqb n 1) eqn:E; [|discriminate].
  apply Pos.eqb_eq in E. RB_inv H.
  intros Hwf. simpl in Hwf.
  split; [assumption|]. split; [RB_incl|].
  intros rho HD. simpl in *. split; [assumption|].
  change (Pos.to_nat 1) with 1%nat. simpl. ring.
Qed.

(* m = Z.to_pos (m / g) * g when g divides m *)
Lemma RB_div_gcd (m g : positive) :
  (g | m)%positive -> m = (Z.to_pos (Zpos m / Zpos g) * g)%positive.
Proof.
  intros [r Hr]. subst m. rewrite Pos2Z.inj_mul, Z.div_mul by discriminate.
  reflexivity.
Qed.

Lemma reduce_nth_power_of_mth_root_sound :
  forall e e' : expr R, reduce_nth_power_of_mth_root e = Some e' -> refines e e'.
Proof.
  intros e e' H. unfold reduce_nth_power_of_mth_root in H.
  RB_des e w v n. RB_des w u u2 m.
  destruct (Pos.eqb m n) eqn:E.
  - apply Pos.eqb_eq in E. RB_inv H.
    intros Hwf. simpl in Hwf.
    split; [assumption|]. split; [RB_incl|].
    intros rho HD. simpl in *. destruct HD as (HDu & Hdom).
    split; [assumption|]. symmetry. apply RB_root_pow_self.
    intro Ev. destruct Hdom as [->|[_ Hp]]; [discriminate|]. left; auto.
  - destruct (Pos.eqb (Pos.gcd m n) 1) eqn:Eg; [discriminate|].
    apply Pos.eqb_neq in Eg. RB_inv H.
    set (g := Pos.gcd m n) in *.
    pose proof (RB_div_gcd m g (Pos.gcd_divide_l m n)) as Hm.
    pose proof (RB_div_gcd n g (Pos.gcd_divide_r m n)) as Hn.
    set (m' := Z.to_pos (Z.pos m / Z.pos g)) in *.
    set (n' := Z.to_pos (Z.pos n / Z.pos g)) in *.
    clearbody m' n' g.
    intros Hwf. simpl in Hwf.
    split; [assumption|]. split; [RB_incl|].
    intros rho HD. simpl in *. destruct HD as (HDu & Hdom).
    assert (Hm1 : m <> 1%positive) by (intro Em; rewrite Em in Hm; symmetry in Hm; apply Pos.mul_eq_1_r in Hm; contradiction).
    destruct Hdom as [?|[Hne Hp]]; [contradiction|].
    assert (Hev : Z.even (Zpos m') = true -> Z.even (Zpos m) = true).
    { intro Ev. rewrite Hm, Pos2Z.inj_mul, Z.even_mul, Ev. reflexivity. }
    split.
    + split; [assumption|]. right. split; [assumption|]. intro Ev. auto.
    + rewrite Hm, Hn. symmetry. apply RB_root_pow_scale.
      rewrite <- Hm. intro Ev. left; auto.
Qed.

Lemma reduce_nth_power_of_mth_power_sound :
  forall e e' : expr R, reduce_nth_power_of_mth_power e = Some e' -> refines e e'.
Proof.
  intros e e' H. unfold reduce_nth_power_of_mth_power in H.
  RB_des e w v n. RB_des w u u2 m. RB_inv H.
  intros Hwf. simpl in Hwf.
  split; [assumption|]. split; [RB_incl|].
  intros rho HD. simpl in *. split; [assumption|].
  rewrite Pos2Nat.inj_mul, Nat.mul_comm, pow_mult. reflexivity.
Qed.

Lemma reduce_nth_power_of_negation_sound :
  forall e e' : expr R, reduce_nth_power_of_negation e = Some e' -> refines e e'.
Proof.
  intros e e' H. unfold reduce_nth_power_of_negation in H.
  RB_des e w v n. RB_des w u u2 m.
  destruct (Z.even (Zpos n)) eqn:E; RB_inv H.
  - intros Hwf. simpl in Hwf.
    split; [assumption|]. split; [RB_incl|].
    intros rho HD. simpl in *. split; [assumption|].
    symmetry. apply RB_pow_opp_even; assumption.
  - intros Hwf. simpl in Hwf.
    split; [assumption|]. split; [RB_incl|].
    intros rho HD. simpl in *. split; [assumption|].
    symmetry. apply RB_pow_opp_odd; assumption.
Qed.

Lemma reduce_nth_power_of_reciprocal_sound :
  forall e e' : expr R, reduce_nth_power_of_reciprocal e = Some e' -> refines e e'.
Proof.
  intros e e' H. unfold reduce_nth_power_of_reciprocal in H.
  RB_des e w v n. RB_des w u u2 m. RB_inv H.
  intros Hwf. simpl in Hwf.
  split; [assumption|]. split; [RB_incl|].
  intros rho HD. simpl in *. destruct HD as [HDu Hne].
  split; [split; [assumption|apply pow_nonzero; assumption]|].
  symmetry. apply pow_inv.
Qed.

Lemma reduce_nth_power_of_exponential_sound :
  forall e e' : expr R, reduce_nth_power_of_exponential RInst e = Some e' -> refines e e'.
Proof.
  intros e e' H. unfold reduce_nth_power_of_exponential in H.
  RB_des e w v n. RB_des w u b m. RB_inv H.
  intros Hwf. simpl in Hwf. destruct Hwf as [Hb Hu].
  split; [simpl; tauto|]. split; [RB_incl|].
  intros rho HD. simpl in *. split; [tauto|].
  rewrite RB_Rpower_pow. f_equal. ring.
Qed.

(** ** NthRoot *)
Lemma reduce_nth_root_where_n_is_one_sound :
  forall e e' : expr R, reduce_nth_root_where_n_is_one e = Some e' -> refines e e'.
Proof.
  intros e e' H. unfold reduce_nth_root_where_n_is_one in H.
  RB_des e u v n. destruct (Pos.eqb n 1) eqn:E; [|discriminate].
  apply Pos.eqb_eq in E. RB_inv H.
  intros Hwf. simpl in Hwf.
  split; [assumption|]. split; [RB_incl|].
  intros rho HD. simpl in *. split; [tauto|].
  symmetry. apply RB_root_1.
Qed.

(** the VALUE of root-of-power is preserved at every point (under [denote], whose [root]
    keeps the sign): only the DOMAIN can shrink, in the even/even case *)
Lemma reduce_nth_root_of_mth_power_value :
  forall (e e' : expr R) (rho : env),
    reduce_nth_root_of_mth_power e = Some e' -> denote rho e' = denote rho e.
Proof.
  intros e e' rho H. unfold reduce_nth_root_of_mth_power in H.
  RB_des e w v n. RB_des w u u2 m. RB_inv H.
  simpl. symmetry. apply RB_root_pow.
Qed.

Lemma RB_bad_label_root_of_power (u : expr R) (m n : positive) :
  bad_label (LRule "_reduce_nth_root_of_mth_power" (NthRoot (NthPow u m) n))
  = Z.even (Zpos n) && Z.even (Zpos m).
Proof. reflexivity. Qed.

Lemma reduce_nth_root_of_mth_power_sound :
  forall e e' : expr R,
    reduce_nth_root_of_mth_power e = Some e' ->
    bad_label (LRule "_reduce_nth_root_of_mth_power" e) = false ->
    refines e e'.
Proof.
  intros e e' H Hbad. pose proof (fun rho => reduce_nth_root_of_mth_power_value e e' rho H) as Hval.
  unfold reduce_nth_root_of_mth_power in H.
  RB_des e w v n. RB_des w u u2 m. RB_inv H.
  rewrite RB_bad_label_root_of_power in Hbad.
  intros Hwf. simpl in Hwf.
  split; [assumption|]. split; [RB_incl|].
  intros rho HD. split; [|apply Hval].
  simpl in *. destruct HD as (HDu & Hdom).
  split; [assumption|].
  destruct Hdom as [?|[Hne Hp]]; [left; assumption|right].
  split; [eapply RB_pow_neq0_inv; eassumption|].
  intro Ev. rewrite Ev in Hbad. simpl in Hbad.
  apply (RB_pow_odd_pos_inv m); auto.
Qed.

Lemma reduce_nth_root_of_mth_root_sound :
  forall e e' : expr R, reduce_nth_root_of_mth_root e = Some e' -> refines e e'.
Proof.
  intros e e' H. unfold reduce_nth_root_of_mth_root in H.
  RB_des e w v n. RB_des w u u2 m. RB_inv H.
  intros Hwf. simpl in Hwf.
  split; [assumption|]. split; [RB_incl|].
  intros rho HD. simpl in *. destruct HD as ((HDu & Hm) & Hn).
  split; [|symmetry; apply RB_root_root].
  split; [assumption|].
  destruct Hm as [->|[Hne Hpm]]; destruct Hn as [->|[Hrne Hpn]].
  - left; reflexivity.
  - rewrite Pos.mul_1_r. rewrite RB_root_1 in *. right; split; assumption.
  - rewrite Pos.mul_1_l. right; split; assumption.
  - right; split; [assumption|]. intro Ev.
    rewrite Pos2Z.inj_mul, Z.even_mul in Ev. apply orb_true_iff in Ev.
    destruct Ev as [Ev|Ev]; [|auto].
    apply (RB_root_pos_inv m); auto.
Qed.

Lemma reduce_odd_nth_root_of_negation_sound :
  forall e e' : expr R, reduce_odd_nth_root_of_negation e = Some e' -> refines e e'.
Proof.
  intros e e' H. unfold reduce_odd_nth_root_of_negation in H.
  RB_des e w v n. RB_des w u u2 m.
  destruct (Z.odd (Zpos n)) eqn:E; [|discriminate]. apply RB_odd_even in E. RB_inv H.
  intros Hwf. simpl in Hwf.
  split; [assumption|]. split; [RB_incl|].
  intros rho HD. simpl in *. destruct HD as (HDu & Hdom).
  split; [|symmetry; apply RB_root_opp].
  split; [assumption|].
  destruct Hdom as [?|[Hne Hp]]; [left; assumption|right].
  split; [lra|]. intro Ev; congruence.
Qed.

Lemma reduce_nth_root_of_reciprocal_sound :
  forall e e' : expr R, reduce_nth_root_of_reciprocal e = Some e' -> refines e e'.
Proof.
  intros e e' H. unfold reduce_nth_root_of_reciprocal in H.
  RB_des e w v n. RB_des w u u2 m. RB_inv H.
  intros Hwf. simpl in Hwf.
  split; [assumption|]. split; [RB_incl|].
  intros rho HD. simpl in *. destruct HD as ((HDu & Hne) & Hdom).
  split; [|symmetry; apply RB_root_inv; assumption].
  split; [|apply RB_root_neq0; assumption].
  split; [assumption|].
  destruct Hdom as [?|[_ Hp]]; [left; assumption|right].
  split; [assumption|]. intro Ev. specialize (Hp Ev).
  destruct (Rtotal_order (denote rho u) 0) as [Hx|[Hx|Hx]]; [|contradiction|assumption].
  pose proof (Rinv_lt_0_compat _ Hx). lra.
Qed.

(** ** Exponential *)
Lemma reduce_exponential_of_logarithm_sound :
  forall e e' : expr R, reduce_exponential_of_logarithm RInst e = Some e' -> refines e e'.
Proof.
  intros e e' H. unfold reduce_exponential_of_logarithm in H.
  RB_des e w b n. RB_des w u b' m. simpl in H.
  destruct (Reqb b b') eqn:E; [|discriminate]. apply Reqb_true in E. RB_inv H.
  intros Hwf. simpl in Hwf. destruct Hwf as (_ & Hb & Hb1 & Hu).
  apply Rltb_true in Hb. apply Reqb_false in Hb1.
  split; [assumption|]. split; [RB_incl|].
  intros rho HD. simpl in *. destruct HD as (HDu & Hpos).
  split; [assumption|]. symmetry. apply RB_Rpower_log; assumption.
Qed.

Lemma reduce_exponential_of_negation_sound :
  forall e e' : expr R, reduce_exponential_of_negation e = Some e' -> refines e e'.
Proof.
  intros e e' H. unfold reduce_exponential_of_negation in H.
  RB_des e w b n. RB_des w u u2 m. RB_inv H.
  intros Hwf. simpl in Hwf.
  split; [simpl; tauto|]. split; [RB_incl|].
  intros rho HD. simpl in *.
  split; [split; [assumption|apply RB_Rpower_neq0]|]. symmetry. apply Rpower_Ropp.
Qed.

(** ** Logarithm *)
Lemma reduce_logarithm_of_exponential_sound :
  forall e e' : expr R, reduce_logarithm_of_exponential RInst e = Some e' -> refines e e'.
Proof.
  intros e e' H. unfold reduce_logarithm_of_exponential in H.
  RB_des e w b n. RB_des w u b' m. simpl in H.
  destruct (Reqb b b') eqn:E; [|discriminate]. apply Reqb_true in E. RB_inv H.
  intros Hwf. simpl in Hwf. destruct Hwf as (Hb & Hb1 & _ & Hu).
  apply Rltb_true in Hb. apply Reqb_false in Hb1.
  split; [assumption|]. split; [RB_incl|].
  intros rho HD. simpl in *. destruct HD as (HDu & Hpos).
  split; [assumption|]. symmetry. apply RB_log_Rpower; assumption.
Qed.

Lemma reduce_logarithm_of_reciprocal_sound :
  forall e e' : expr R, reduce_logarithm_of_reciprocal e = Some e' -> refines e e'.
Proof.
  intros e e' H. unfold reduce_logarithm_of_reciprocal in H.
  RB_des e w b n. RB_des w u u2 m. RB_inv H.
  intros Hwf. simpl in Hwf.
  split; [simpl; tauto|]. split; [RB_incl|].
  intros rho HD. simpl in *. destruct HD as ((HDu & Hne) & Hpos).
  assert (Hu : 0 < denote rho u).
  { destruct (Rtotal_order (denote rho u) 0) as [Hx|[Hx|Hx]]; [|contradiction|assumption].
    pose proof (Rinv_lt_0_compat _ Hx). lra. }
  split; [tauto|]. rewrite ln_Rinv by assumption. unfold Rdiv. ring.
Qed.

Lemma reduce_logarithm_of_nth_power_sound :
  forall e e' : expr R, reduce_logarithm_of_nth_power RInst e = Some e' -> refines e e'.
Proof.
  intros e e' H. unfold reduce_logarithm_of_nth_power in H.
  RB_des e w b n. RB_des w u u2 m.
  destruct (Z.odd (Zpos m)) eqn:E; [|discriminate]. apply RB_odd_even in E. RB_inv H.
  intros Hwf. simpl in Hwf.
  split; [simpl; tauto|]. split; [RB_incl|].
  intros rho HD. simpl in *. destruct HD as (HDu & Hpos).
  assert (Hu : 0 < denote rho u) by (apply (RB_pow_odd_pos_inv m); assumption).
  split; [tauto|]. rewrite RB_ln_pow by assumption. unfold Rdiv. ring.
Qed.

(** ** KF-ROOT: the even/even instance of root-of-power *)

(** [C08_root_of_power_refuted] (a VALUE discrepancy) is false as stated in Spec.v:
    [Denote.root] keeps the sign for every n, so  root n (x^m) = (root n x)^m  everywhere
    (e.g. n = m = 2, x = -3: both sides are 3). *)
Theorem root_of_power_refuted_is_false : ~ C08_root_of_power_refuted.
Proof.
  intros (e & e' & rho & H & _ & _ & Hne). apply Hne.
  apply reduce_nth_root_of_mth_power_value; assumption.
Qed.

(** what does fail is the DOMAIN: the input is defined, the output is not *)
Theorem root_of_power_domain_refuted : C08_root_of_power_domain_refuted.
Proof.
  exists (NthRoot (NthPow (Var 1%positive) 6) 4), (NthPow (NthRoot (Var 1%positive) 4) 6),
         (fun _ => -2).
  split; [reflexivity|]. split; [exact I|]. split.
  - simpl. split; [exact I|]. right. change (Pos.to_nat 6) with 6%nat. simpl.
    split; [lra|intros _; lra].
  - simpl. intros [_ [H|[_ H]]]; [discriminate|]. specialize (H eq_refl). lra.
Qed.

Lemma RB_root_2_9 : root 2 ((-3) ^ Pos.to_nat 2) = 3.
Proof.
  replace ((-3) ^ Pos.to_nat 2) with (3 ^ Pos.to_nat 2)
    by (change (Pos.to_nat 2) with 2%nat; ring).
  rewrite RB_root_pow. apply RB_root_pow_self. intros _; lra.
Qed.

(** corrected form of [C08_root_of_power_refuted]: [refines] fails on the even/even instance
    (witness of the task: n = m = 2 at x = -3; the value is 3 on the left, the right is outside
    its domain) *)
Theorem root_of_power_refuted_corrected :
  exists (e e' : expr R) (rho : env),
    reduce_nth_root_of_mth_power e = Some e' /\ wfR e /\ InDomain rho e /\
    bad_label (LRule "_reduce_nth_root_of_mth_power" e) = true /\
    denote rho e = 3 /\
    ~ (InDomain rho e' /\ denote rho e' = denote rho e).
Proof.
  exists (NthRoot (NthPow (Var 1%positive) 2) 2), (NthPow (NthRoot (Var 1%positive) 2) 2),
         (fun _ => -3).
  split; [reflexivity|]. split; [exact I|]. split; [|split; [reflexivity|split]].
  - simpl. split; [exact I|]. right. change (Pos.to_nat 2) with 2%nat. simpl.
    split; [lra|intros _; lra].
  - apply RB_root_2_9.
  - simpl. intros [[_ [H|[_ H]]] _]; [discriminate|]. specialize (H eq_refl). lra.
Qed.

(** the value discrepancy "3 versus -3" needs TWO rule applications: root-of-power
    (even/even) followed by power-of-root with equal indices, which legitimately enlarges the
    domain of its own input:  NthRoot (NthPow x 2) 2  ->  NthPow (NthRoot x 2) 2  ->  x *)
Theorem root_of_power_two_step_value_refuted :
  exists (e0 e1 : expr R) (x : name) (rho : env),
    reduce_nth_root_of_mth_power e0 = Some e1 /\
    reduce_nth_power_of_mth_root e1 = Some (Var x) /\
    wfR e0 /\ InDomain rho e0 /\
    denote rho e0 = 3 /\ denote rho (Var x) = -3 /\
    denote rho (Var x) <> denote rho e0.
Proof.
  exists (NthRoot (NthPow (Var 1%positive) 2) 2), (NthPow (NthRoot (Var 1%positive) 2) 2),
         1%positive, (fun _ => -3).
  split; [reflexivity|]. split; [reflexivity|]. split; [exact I|].
  assert (E : denote (fun _ => -3) (NthRoot (NthPow (Var 1%positive) 2) 2) = 3)
    by apply RB_root_2_9.
  split; [|split; [exact E|split; [reflexivity|]]].
  - simpl. split; [exact I|]. right. change (Pos.to_nat 2) with 2%nat. simpl.
    split; [lra|intros _; lra].
  - rewrite E. simpl. lra.
Qed.

Corollary root_of_power_not_refines :
  exists e e' : expr R, reduce_nth_root_of_mth_power e = Some e' /\ ~ refines e e'.
Proof.
  destruct root_of_power_domain_refuted as (e & e' & rho & H & Hwf & HD & HnD).
  exists e, e'. split; [assumption|]. intro Href.
  destruct (Href Hwf) as (_ & _ & Hall). destruct (Hall rho HD) as [HD' _]. contradiction.
Qed.

(** ** Summary: every rule of the five classes, except the even/even root-of-power instance *)
Theorem rules_sound_B :
  forall nm f (e e' : expr R),
    In (nm, f) (reducers_Power RInst ++ reducers_NthPower RInst ++ reducers_NthRoot ++
                reducers_Exponential RInst ++ reducers_Logarithm RInst) ->
    f e = Some e' -> bad_label (LRule nm e) = false -> refines e e'.
Proof.
  intros nm f e e' Hin Hf Hbad.
  unfold reducers_Power, reducers_NthPower, reducers_NthRoot, reducers_Exponential,
    reducers_Logarithm in Hin.
  cbn [app In] in Hin.
  repeat (destruct Hin as [Hin|Hin];
          [injection Hin as <- <-;
           first [ apply reduce_nth_root_of_mth_power_sound; assumption
                 | revert Hf;
                   first [ apply reduce_u_to_the_one_sound
                         | apply reduce_u_to_the_zero_sound
                         | apply reduce_one_to_the_u_sound
                         | apply reduce_u_to_the_n_at_least_two_sound
                         | apply reduce_u_to_the_negative_one_sound
                         | apply reduce_power_with_constant_base_sound
                         | apply reduce_power_of_power_sound
                         | apply reduce_u_to_the_negation_of_v_sound
                         | apply reduce_reciprocal_u_to_the_v_sound
                         | apply reduce_nth_power_where_n_is_one_sound
                         | apply reduce_nth_power_of_mth_root_sound
                         | apply reduce_nth_power_of_mth_power_sound
                         | apply reduce_nth_power_of_negation_sound
                         | apply reduce_nth_power_of_reciprocal_sound
                         | apply reduce_nth_power_of_exponential_sound
                         | apply reduce_nth_root_where_n_is_one_sound
                         | apply reduce_nth_root_of_mth_root_sound
                         | apply reduce_odd_nth_root_of_negation_sound
                         | apply reduce_nth_root_of_reciprocal_sound
                         | apply reduce_exponential_of_logarithm_sound
                         | apply reduce_exponential_of_negation_sound
                         | apply reduce_logarithm_of_exponential_sound
                         | apply reduce_logarithm_of_reciprocal_sound
                         | apply reduce_logarithm_of_nth_power_sound ] ]
          |]).
  contradiction.
Qed.

(** non-vacuity: rules fire on non-trivial trees *)
Example rules_sound_B_nonvacuous :
  refines (NthPow (NthRoot (Add [Var 1%positive; Const 1]) 6) 4)
          (NthPow (NthRoot (Add [Var 1%positive; Const 1]) 3) 2)
  /\ refines (NthRoot (NthPow (Var 1%positive) 2) 3) (NthPow (NthRoot (Var 1%positive) 3) 2).
Proof.
  split.
  - apply (rules_sound_B "_reduce_nth_power_of_mth_root" reduce_nth_power_of_mth_root);
      [simpl; tauto|reflexivity|reflexivity].
  - apply (rules_sound_B "_reduce_nth_root_of_mth_power" reduce_nth_root_of_mth_power);
      [simpl; tauto|reflexivity|reflexivity].
Qed.

Print Assumptions rules_sound_B.
Print Assumptions root_of_power_refuted_is_false.
Print Assumptions root_of_power_domain_refuted.
Print Assumptions root_of_power_refuted_corrected.
Print Assumptions root_of_power_two_step_value_refuted.
