(** * RulesSoundB: soundness ([refines]) of the rewrite rules of the classes
    Power, NthPower, NthRoot, Exponential, Logarithm, and the KF-ROOT findings. *)
From Coq Require Import Reals ZArith List Bool String Lra Lia.
From SM Require Import Num Syntax Outcome MathFun Eval Rules Driver RInst Denote Spec.
Import ListNotations.
Open Scope R_scope.

(** ** A small library about [pow], [Rpower] and [root] *)

Lemma RB_IZRpos_pos (n : positive) : 0 < IZR (Zpos n).
Proof. apply IZR_lt; reflexivity. Qed.

Lemma RB_IZRpos_neq (n : positive) : IZR (Zpos n) <> 0.
Proof. apply IZR_neq; discriminate. Qed.

Lemma RB_INR_pos (n : positive) : INR (Pos.to_nat n) = IZR (Zpos n).
Proof. rewrite INR_IZR_INZ, positive_nat_Z; reflexivity. Qed.

Lemma RB_to_nat_pos (n : positive) : (0 < Pos.to_nat n)%nat.
Proof. apply Pos2Nat.is_pos. Qed.

Lemma RB_odd_even (n : positive) : Z.odd (Zpos n) = true -> Z.even (Zpos n) = false.
Proof. intro H; rewrite <- Z.negb_odd, H; reflexivity. Qed.

(** parity and powers *)
Lemma RB_pow_opp_even (n : positive) (a : R) :
  Z.even (Zpos n) = true -> (- a) ^ Pos.to_nat n = a ^ Pos.to_nat n.
Proof.
  intro H. destruct n as [p|p|]; try discriminate.
  rewrite Pos2Nat.inj_xO, !pow_mult.
  replace ((- a) ^ 2) with (a ^ 2) by ring. reflexivity.
Qed.

Lemma RB_pow_opp_odd (n : positive) (a : R) :
  Z.even (Zpos n) = false -> (- a) ^ Pos.to_nat n = - a ^ Pos.to_nat n.
Proof.
  intro H. destruct n as [p|p|]; try discriminate.
  - rewrite Pos2Nat.inj_xI. rewrite <- !tech_pow_Rmult, !pow_mult.
    replace ((- a) ^ 2) with (a ^ 2) by ring. ring.
  - simpl. ring.
Qed.

Lemma RB_pow_pos (n : positive) (x : R) : 0 < x -> 0 < x ^ Pos.to_nat n.
Proof. apply pow_lt. Qed.

Lemma RB_pow_neg_odd (n : positive) (x : R) :
  Z.even (Zpos n) = false -> x < 0 -> x ^ Pos.to_nat n < 0.
Proof.
  intros H Hx. replace x with (- (- x)) by ring. rewrite RB_pow_opp_odd by assumption.
  assert (0 < (- x) ^ Pos.to_nat n) by (apply pow_lt; lra). lra.
Qed.

Lemma RB_pow_neg_even (n : positive) (x : R) :
  Z.even (Zpos n) = true -> x < 0 -> 0 < x ^ Pos.to_nat n.
Proof.
  intros H Hx. replace x with (- (- x)) by ring. rewrite RB_pow_opp_even by assumption.
  apply pow_lt; lra.
Qed.

Lemma RB_pow_0 (n : positive) : 0 ^ Pos.to_nat n = 0.
Proof. apply pow_i, RB_to_nat_pos. Qed.

Lemma RB_pow_neq0_inv (n : positive) (x : R) : x ^ Pos.to_nat n <> 0 -> x <> 0.
Proof. intros H E; subst; apply H, RB_pow_0. Qed.

Lemma RB_pow_odd_pos_inv (n : positive) (x : R) :
  Z.even (Zpos n) = false -> 0 < x ^ Pos.to_nat n -> 0 < x.
Proof.
  intros H Hp. destruct (Rtotal_order x 0) as [Hx|[Hx|Hx]]; [| |assumption].
  - pose proof (RB_pow_neg_odd n x H Hx); lra.
  - subst; rewrite RB_pow_0 in Hp; lra.
Qed.

(** Rpower *)
Lemma RB_Rpower_pos (x y : R) : 0 < Rpower x y.
Proof. apply exp_pos. Qed.

Lemma RB_Rpower_neq0 (x y : R) : Rpower x y <> 0.
Proof. pose proof (RB_Rpower_pos x y); lra. Qed.

Lemma RB_Rpower_1_base (y : R) : Rpower 1 y = 1.
Proof. unfold Rpower. rewrite ln_1, Rmult_0_r. apply exp_0. Qed.

Lemma RB_Rpower_inv_base (x y : R) : 0 < x -> Rpower (/ x) y = / Rpower x y.
Proof.
  intro Hx. unfold Rpower. rewrite ln_Rinv by assumption.
  replace (y * - ln x) with (- (y * ln x)) by ring. apply exp_Ropp.
Qed.

Lemma RB_Rpower_m1 (x : R) : 0 < x -> Rpower x (-1) = / x.
Proof.
  intro Hx. replace (-1) with (Ropp 1) by lra.
  rewrite Rpower_Ropp, Rpower_1 by assumption. reflexivity.
Qed.

Lemma RB_Rpower_posexp (x : R) (n : positive) :
  0 < x -> Rpower x (IZR (Zpos n)) = x ^ Pos.to_nat n.
Proof. intro Hx. rewrite <- RB_INR_pos. apply Rpower_pow; assumption. Qed.

Lemma RB_Rpower_IZR (x : R) (z : Z) :
  0 < x -> (0 < z)%Z -> Rpower x (IZR z) = x ^ Pos.to_nat (Z.to_pos z).
Proof.
  intros Hx Hz. rewrite <- RB_Rpower_posexp by assumption.
  rewrite Z2Pos.id by assumption. reflexivity.
Qed.

Lemma RB_Rpower_pow (b u : R) (n : positive) :
  (Rpower b u) ^ Pos.to_nat n = Rpower b (IZR (Zpos n) * u).
Proof.
  rewrite <- RB_Rpower_posexp by apply RB_Rpower_pos.
  rewrite Rpower_mult. f_equal. ring.
Qed.

Lemma RB_ln_neq0 (b : R) : 0 < b -> b <> 1 -> ln b <> 0.
Proof.
  intros Hb Hb1 E. apply Hb1. apply ln_inv; [assumption|lra|]. rewrite ln_1; assumption.
Qed.

Lemma RB_Rpower_log (b u : R) : 0 < b -> b <> 1 -> 0 < u -> Rpower b (ln u / ln b) = u.
Proof.
  intros Hb Hb1 Hu. unfold Rpower.
  replace (ln u / ln b * ln b) with (ln u) by (field; apply RB_ln_neq0; assumption).
  apply exp_ln; assumption.
Qed.

Lemma RB_log_Rpower (b u : R) : 0 < b -> b <> 1 -> ln (Rpower b u) / ln b = u.
Proof.
  intros Hb Hb1. rewrite ln_Rpower. field. apply RB_ln_neq0; assumption.
Qed.

Lemma RB_ln_pow (x : R) (n : positive) :
  0 < x -> ln (x ^ Pos.to_nat n) = IZR (Zpos n) * ln x.
Proof.
  intro Hx. rewrite <- RB_Rpower_posexp by assumption. apply ln_Rpower.
Qed.

(** [Rint] *)
Lemma RB_Rint_eq (x : R) (z : Z) : Rint x = Some z -> x = IZR z.
Proof.
  unfold Rint. destruct (Req_EM_T x (IZR (Int_part x))) as [E|E]; [|discriminate].
  intro H; inversion H; subst. exact E.
Qed.

(** [root] *)
Lemma RB_root_pos_eq (n : positive) (x : R) : 0 < x -> root n x = Rpower x (/ IZR (Zpos n)).
Proof. intro Hx. unfold root. destruct (Rlt_dec 0 x); [reflexivity|contradiction]. Qed.

Lemma RB_root_neg_eq (n : positive) (x : R) :
  x < 0 -> root n x = - Rpower (- x) (/ IZR (Zpos n)).
Proof.
  intro Hx. unfold root. destruct (Rlt_dec 0 x); [lra|].
  destruct (Rlt_dec x 0); [reflexivity|contradiction].
Qed.

Lemma RB_root_0 (n : positive) : root n 0 = 0.
Proof.
  unfold root. destruct (Rlt_dec 0 0); [lra|]. destruct (Rlt_dec 0 0); [lra|reflexivity].
Qed.

Lemma RB_root_opp (n : positive) (x : R) : root n (- x) = - root n x.
Proof.
  destruct (Rtotal_order x 0) as [Hx|[Hx|Hx]].
  - rewrite (RB_root_pos_eq n (- x)) by lra. rewrite (RB_root_neg_eq n x) by assumption. ring.
  - subst. rewrite Ropp_0, RB_root_0. ring.
  - rewrite (RB_root_neg_eq n (- x)) by lra. rewrite (RB_root_pos_eq n x) by assumption.
    rewrite Ropp_involutive. reflexivity.
Qed.

Lemma RB_root_1 (x : R) : root 1 x = x.
Proof.
  assert (P : forall y, 0 < y -> root 1 y = y).
  { intros y Hy. rewrite RB_root_pos_eq by assumption. rewrite Rinv_1. apply Rpower_1; assumption. }
  destruct (Rtotal_order x 0) as [Hx|[Hx|Hx]].
  - replace x with (- (- x)) at 1 by ring. rewrite RB_root_opp, P by lra. ring.
  - subst; apply RB_root_0.
  - apply P; assumption.
Qed.

Lemma RB_root_pos (n : positive) (x : R) : 0 < x -> 0 < root n x.
Proof. intro Hx. rewrite RB_root_pos_eq by assumption. apply RB_Rpower_pos. Qed.

Lemma RB_root_neg (n : positive) (x : R) : x < 0 -> root n x < 0.
Proof.
  intro Hx. rewrite RB_root_neg_eq by assumption.
  pose proof (RB_Rpower_pos (- x) (/ IZR (Zpos n))). lra.
Qed.

Lemma RB_root_neq0 (n : positive) (x : R) : x <> 0 -> root n x <> 0.
Proof.
  intro Hx. destruct (Rtotal_order x 0) as [H|[H|H]]; [|contradiction|].
  - pose proof (RB_root_neg n x H); lra.
  - pose proof (RB_root_pos n x H); lra.
Qed.

Lemma RB_root_pos_inv (n : positive) (x : R) : 0 < root n x -> 0 < x.
Proof.
  intro H. destruct (Rtotal_order x 0) as [Hx|[Hx|Hx]]; [| |assumption].
  - pose proof (RB_root_neg n x Hx); lra.
  - subst; rewrite RB_root_0 in H; lra.
Qed.

Lemma RB_root_inv (n : positive) (x : R) : x <> 0 -> root n (/ x) = / root n x.
Proof.
  assert (P : forall y, 0 < y -> root n (/ y) = / root n y).
  { intros y Hy. rewrite !RB_root_pos_eq by (try apply Rinv_0_lt_compat; assumption).
    apply RB_Rpower_inv_base; assumption. }
  intro Hx. destruct (Rtotal_order x 0) as [H|[H|H]]; [|contradiction|].
  - replace x with (- (- x)) by ring. rewrite Rinv_opp, !RB_root_opp, P by lra.
    rewrite Rinv_opp. reflexivity.
  - apply P; assumption.
Qed.

(** (root n x)^n = x whenever x >= 0 or n is odd *)
Lemma RB_root_pow_self (n : positive) (x : R) :
  (Z.even (Zpos n) = true -> 0 <= x) -> root n x ^ Pos.to_nat n = x.
Proof.
  intro H. destruct (Rtotal_order x 0) as [Hx|[Hx|Hx]].
  - destruct (Z.even (Zpos n)) eqn:E; [specialize (H eq_refl); lra|].
    replace x with (- (- x)) at 1 by ring. rewrite RB_root_opp, RB_pow_opp_odd by assumption.
    rewrite root_pos_pow by lra. ring.
  - subst. rewrite RB_root_0. apply RB_pow_0.
  - apply root_pos_pow; assumption.
Qed.

(** root n (x^m) = (root n x)^m, for every x *)
Lemma RB_root_pow (n m : positive) (x : R) :
  root n (x ^ Pos.to_nat m) = root n x ^ Pos.to_nat m.
Proof.
  assert (P : forall y, 0 < y -> root n (y ^ Pos.to_nat m) = root n y ^ Pos.to_nat m).
  { intros y Hy. rewrite !RB_root_pos_eq by (try apply pow_lt; assumption).
    rewrite RB_Rpower_pow. rewrite <- RB_Rpower_posexp by assumption.
    rewrite Rpower_mult. reflexivity. }
  destruct (Rtotal_order x 0) as [Hx|[Hx|Hx]].
  - replace x with (- (- x)) by ring. rewrite RB_root_opp.
    destruct (Z.even (Zpos m)) eqn:E.
    + rewrite !RB_pow_opp_even by assumption. apply P; lra.
    + rewrite !RB_pow_opp_odd by assumption. rewrite RB_root_opp, P by lra. reflexivity.
  - subst. rewrite RB_pow_0, RB_root_0, RB_pow_0. reflexivity.
  - apply P; assumption.
Qed.

(** root n (root m x) = root (n*m) x, for every x *)
Lemma RB_root_root (n m : positive) (x : R) : root n (root m x) = root (n * m) x.
Proof.
  assert (P : forall y, 0 < y -> root n (root m y) = root (n * m) y).
  { intros y Hy. rewrite (RB_root_pos_eq n) by (apply RB_root_pos; assumption).
    rewrite !RB_root_pos_eq by assumption. rewrite Rpower_mult. f_equal.
    rewrite Pos2Z.inj_mul, mult_IZR. field. split; apply RB_IZRpos_neq. }
  destruct (Rtotal_order x 0) as [Hx|[Hx|Hx]].
  - replace x with (- (- x)) by ring. rewrite !RB_root_opp, P by lra. reflexivity.
  - subst. rewrite !RB_root_0. reflexivity.
  - apply P; assumption.
Qed.

(** cancelling a common factor: root (m*g) x ^ (n*g) = root m x ^ n *)
Lemma RB_root_pow_scale (m n g : positive) (x : R) :
  (Z.even (Zpos (m * g)) = true -> 0 <= x) ->
  root (m * g) x ^ Pos.to_nat (n * g) = root m x ^ Pos.to_nat n.
Proof.
  intro H. rewrite (Pos.mul_comm m g), <- RB_root_root.
  rewrite (Pos.mul_comm n g), Pos2Nat.inj_mul, pow_mult.
  rewrite RB_root_pow_self; [reflexivity|].
  intro Eg. rewrite Pos2Z.inj_mul, Z.even_mul, Eg, orb_true_r in H. specialize (H eq_refl).
  destruct H as [H|H]; [left; apply RB_root_pos; assumption|right; subst; symmetry; apply RB_root_0].
Qed.
