(** * DerivLemmas: real analysis about the SPEC only (Denote.v / Spec.v [true_partial]).

    No function of the model of the code is involved, except the two list helpers
    [mapi] and [remove_nth] of Forward.v which are used to STATE the n-ary product rule in the
    shape the model computes it.

    With  [true_partial rho e v d := is_derive (fun t => denote (upd rho v t) e) (rho v) d]
    and writing  va := denote rho a,  vb := denote rho b,  the file proves
    (every tp_* lemma takes [rho v] first, then the sub-expressions / numbers, all as EXPLICIT
    arguments, e.g. [tp_add rho v l ds], [tp_divide rho v a b da db]; use [apply tp_xxx] and let
    unification fill them in; premises are in the order shown; import with
    [From SM.proofs Require Import DerivLemmas]):

    - [denote_ext_local]  : (forall x, In x (vars e) -> rho x = rho' x) -> denote rho e = denote rho' e
    - [denote_upd_same]   : denote (upd rho v (rho v)) e = denote rho e
    - [denote_upd_absent] : ~ In v (vars e) -> denote (upd rho v t) e = denote rho e
    - [denote_Add_map]    : denote rho (Add l) = fold_right Rplus 0 (map (denote rho) l)
    - [denote_Mul_map]    : denote rho (Mul l) = fold_right Rmult 1 (map (denote rho) l)
    - [root_1]            : root 1 x = x
    - [is_derive_root]    : x <> 0 -> (Z.even (Zpos n) = true -> 0 < x) ->
                            is_derive (root n) x (/ (IZR (Zpos n) * root n x ^ (Pos.to_nat n - 1)))

    - [tp_ext_value] : true_partial rho e v d -> d = d' -> true_partial rho e v d'
    - [tp_unique]    : true_partial rho e v d1 -> true_partial rho e v d2 -> d1 = d2
    - [tp_const]     : true_partial rho (Const c) v 0
    - [tp_var_same]  : true_partial rho (Var v) v 1
    - [tp_var_other] : x <> v -> true_partial rho (Var x) v 0
    - [tp_add]       : Forall2 (fun a d => true_partial rho a v d) l ds ->
                       true_partial rho (Add l) v (fold_right Rplus 0 ds)
    - [tp_mul]       : Forall2 (fun a d => true_partial rho a v d) l ds ->
                       true_partial rho (Mul l) v
                         (fold_right Rplus 0
                            (mapi (fun i d => fold_right Rmult 1 (d :: remove_nth i (map (denote rho) l))) ds))
    - [tp_minus]     : true_partial rho a v da -> true_partial rho b v db ->
                       true_partial rho (Minus a b) v (da - db)
    - [tp_neg]       : true_partial rho a v da -> true_partial rho (Neg a) v (- da)
    - [tp_divide]    : true_partial rho a v da -> true_partial rho b v db -> vb <> 0 ->
                       true_partial rho (Divide a b) v (da / vb + (- (va / vb ^ 2)) * db)
    - [tp_recip]     : true_partial rho a v da -> va <> 0 ->
                       true_partial rho (Recip a) v (- (da / va ^ 2))
    - [tp_sin]       : true_partial rho a v da -> true_partial rho (Sin a) v (cos va * da)
    - [tp_cos]       : true_partial rho a v da -> true_partial rho (Cos a) v ((- sin va) * da)
    - [tp_nth_pow]   : true_partial rho a v da ->
                       true_partial rho (NthPow a n) v (IZR (Zpos n) * va ^ (Pos.to_nat n - 1) * da)
    - [tp_nth_pow_1] : true_partial rho a v da -> true_partial rho (NthPow a 1) v da
    - [tp_nth_root]  : true_partial rho a v da ->
                       (n = 1%positive \/ (va <> 0 /\ (Z.even (Zpos n) = true -> 0 < va))) ->
                       true_partial rho (NthRoot a n) v
                         (da / (IZR (Zpos n) * root n va ^ (Pos.to_nat n - 1)))
                       (one formula for every n: for n = 1 it is da / (1 * 1))
    - [tp_nth_root_1]: true_partial rho a v da -> true_partial rho (NthRoot a 1) v da
    - [tp_exp]       : 0 < b -> true_partial rho a v da ->
                       true_partial rho (Exp a b) v (ln b * Rpower b va * da)
    - [tp_log]       : 0 < b -> b <> 1 -> 0 < va -> true_partial rho a v da ->
                       true_partial rho (Log a b) v (da / (ln b * va))
    - [tp_power]     : 0 < va -> true_partial rho a v da -> true_partial rho b v db ->
                       true_partial rho (Power a b) v
                         (vb * Rpower va (vb - 1) * da + ln va * Rpower va vb * db)
    - [tp_absent]    : ~ In v (vars e) -> true_partial rho e v 0
    - [mul_dvalue_cons] : the value of [tp_mul] for (a :: l), (d :: ds) is
                          d * prod vs + va * (value for l, ds)
    - [ln_neq_0]     : 0 < b -> b <> 1 -> ln b <> 0 *)
From Coq Require Import Reals ZArith List Bool Lia Lra.
From Coquelicot Require Import Rcomplements Hierarchy Derive ElemFct.
From SM Require Import Num Syntax Outcome MathFun Eval Forward RInst Denote Spec.
Import ListNotations.
Open Scope R_scope.

(** ** Derivative rules restated over plain [R] *)

Lemma Rd_const (c x : R) : is_derive (fun _ : R => c) x 0.
Proof. exact (is_derive_const (V:=R_NormedModule) c x). Qed.

Lemma Rd_id (x : R) : is_derive (fun t : R => t) x 1.
Proof. exact (is_derive_id (K:=R_AbsRing) x). Qed.

Lemma Rd_val (f : R -> R) (x d d' : R) : is_derive f x d -> d = d' -> is_derive f x d'.
Proof. intros H E; subst; exact H. Qed.

Lemma Rd_plus (f g : R -> R) (x df dg : R) :
  is_derive f x df -> is_derive g x dg -> is_derive (fun t => f t + g t) x (df + dg).
Proof. intros Hf Hg. exact (is_derive_plus (V:=R_NormedModule) f g x df dg Hf Hg). Qed.

Lemma Rd_minus (f g : R -> R) (x df dg : R) :
  is_derive f x df -> is_derive g x dg -> is_derive (fun t => f t - g t) x (df - dg).
Proof. intros Hf Hg. exact (is_derive_minus (V:=R_NormedModule) f g x df dg Hf Hg). Qed.

Lemma Rd_opp (f : R -> R) (x df : R) :
  is_derive f x df -> is_derive (fun t => - f t) x (- df).
Proof. intros Hf. exact (is_derive_opp (V:=R_NormedModule) f x df Hf). Qed.

Lemma Rd_mult (f g : R -> R) (x df dg : R) :
  is_derive f x df -> is_derive g x dg ->
  is_derive (fun t => f t * g t) x (df * g x + f x * dg).
Proof.
  intros Hf Hg.
  exact (is_derive_mult (K:=R_AbsRing) f g x df dg Hf Hg Rmult_comm).
Qed.

Lemma Rd_comp (f g : R -> R) (x df dg : R) :
  is_derive f (g x) df -> is_derive g x dg -> is_derive (fun t => f (g t)) x (df * dg).
Proof.
  intros Hf Hg.
  apply Rd_val with (dg * df); [|apply Rmult_comm].
  exact (is_derive_comp (V:=R_NormedModule) f g x df dg Hf Hg).
Qed.

(** composition with the value of the inner function named explicitly *)
Lemma Rd_comp_at (f g : R -> R) (x y df dg : R) :
  g x = y -> is_derive f y df -> is_derive g x dg -> is_derive (fun t => f (g t)) x (df * dg).
Proof. intros E Hf Hg; subst y; apply Rd_comp; assumption. Qed.

(** ** Derivatives of the elementary functions of the spec *)

Lemma Rd_Rpower_exponent (b x : R) :
  is_derive (fun t => Rpower b t) x (ln b * Rpower b x).
Proof.
  unfold Rpower.
  apply Rd_val with (exp (x * ln b) * (1 * ln b + x * 0)); [|ring].
  apply (Rd_comp exp (fun t => t * ln b)); [apply is_derive_exp|].
  apply (Rd_mult (fun t => t) (fun _ => ln b)); [apply Rd_id | apply Rd_const].
Qed.

Lemma Rd_Rpower_base (c x : R) :
  0 < x -> is_derive (fun t => Rpower t c) x (c * / x * Rpower x c).
Proof.
  intro Hx. unfold Rpower.
  apply Rd_val with (exp (c * ln x) * (c * / x)); [|ring].
  apply (Rd_comp exp (fun t => c * ln t)); [apply is_derive_exp|].
  apply is_derive_scal. apply is_derive_ln; exact Hx.
Qed.

Lemma Rd_Rpower (f g : R -> R) (x df dg : R) :
  0 < f x -> is_derive f x df -> is_derive g x dg ->
  is_derive (fun t => Rpower (f t) (g t)) x
    (g x * Rpower (f x) (g x - 1) * df + ln (f x) * Rpower (f x) (g x) * dg).
Proof.
  intros Hx Hf Hg.
  assert (E : Rpower (f x) (g x - 1) = Rpower (f x) (g x) * / f x).
  { unfold Rminus. rewrite Rpower_plus, Rpower_Ropp, Rpower_1 by exact Hx. reflexivity. }
  rewrite E. unfold Rpower.
  apply Rd_val with (exp (g x * ln (f x)) * (dg * ln (f x) + g x * (/ f x * df))); [|ring].
  apply (Rd_comp exp (fun t => g t * ln (f t))); [apply is_derive_exp|].
  apply (Rd_mult g (fun t => ln (f t))); [exact Hg|].
  apply (Rd_comp ln f); [apply is_derive_ln; exact Hx | exact Hf].
Qed.

Lemma ln_neq_0 (b : R) : 0 < b -> b <> 1 -> ln b <> 0.
Proof.
  intros Hb Hb1 E. apply Hb1. apply ln_inv; [exact Hb | lra |].
  rewrite ln_1; exact E.
Qed.

(** ** The sign-keeping root *)

Lemma root_1 (x : R) : root 1 x = x.
Proof.
  unfold root. change (IZR (Zpos 1)) with 1. rewrite Rinv_1.
  destruct (Rlt_dec 0 x) as [H|H].
  - apply Rpower_1; exact H.
  - destruct (Rlt_dec x 0) as [H'|H'].
    + rewrite Rpower_1 by lra. ring.
    + lra.
Qed.

Lemma root_pos (n : positive) (x : R) : 0 < x -> root n x = Rpower x (/ IZR (Zpos n)).
Proof. intro Hx. unfold root. destruct (Rlt_dec 0 x); [reflexivity | contradiction]. Qed.

Lemma root_neg (n : positive) (x : R) : x < 0 -> root n x = - Rpower (- x) (/ IZR (Zpos n)).
Proof.
  intro Hx. unfold root. destruct (Rlt_dec 0 x); [lra|].
  destruct (Rlt_dec x 0); [reflexivity | contradiction].
Qed.

Lemma odd_pred_even (n : positive) :
  Z.even (Zpos n) = false -> exists k, (Pos.to_nat n - 1 = 2 * k)%nat.
Proof.
  destruct n as [p|p|]; intro H; [ | simpl in H; discriminate | ].
  - exists (Pos.to_nat p). rewrite Pos2Nat.inj_xI. lia.
  - exists 0%nat. reflexivity.
Qed.

Lemma pow_opp_even (s : R) (k : nat) : (- s) ^ (2 * k) = s ^ (2 * k).
Proof. rewrite !pow_mult. f_equal. ring. Qed.

Lemma pow_split_pred (r : R) (n : positive) :
  r * r ^ (Pos.to_nat n - 1) = r ^ Pos.to_nat n.
Proof.
  pose proof (Pos2Nat.is_pos n) as Hn.
  replace (Pos.to_nat n) with (S (Pos.to_nat n - 1)) at 2 by lia.
  reflexivity.
Qed.

Lemma is_derive_root (n : positive) (x : R) :
  x <> 0 -> (Z.even (Zpos n) = true -> 0 < x) ->
  is_derive (root n) x (/ (IZR (Zpos n) * root n x ^ (Pos.to_nat n - 1))).
Proof.
  intros Hx0 Hev.
  assert (Hn : IZR (Zpos n) <> 0) by (apply IZR_neq; discriminate).
  destruct (Rlt_dec 0 x) as [Hpos|Hnpos].
  - (* 0 < x *)
    apply is_derive_ext_loc with (fun t => Rpower t (/ IZR (Zpos n))).
    { apply (locally_open (fun u => 0 < u)); [apply open_gt | | exact Hpos].
      intros t Ht. symmetry; apply root_pos; exact Ht. }
    apply Rd_val with (/ IZR (Zpos n) * / x * Rpower x (/ IZR (Zpos n)));
      [apply Rd_Rpower_base; exact Hpos|].
    pose proof (root_pos_pow n x Hpos) as Hpow.
    rewrite <- pow_split_pred in Hpow.
    rewrite (root_pos n x Hpos) in *.
    set (r := Rpower x (/ IZR (Zpos n))) in *.
    assert (Hr : 0 < r) by apply exp_pos.
    set (m := (Pos.to_nat n - 1)%nat) in *.
    assert (Hrm : r ^ m <> 0) by (apply pow_nonzero; lra).
    rewrite <- Hpow at 1. field. repeat split; try assumption; lra.
  - (* x < 0, n odd *)
    assert (Hneg : x < 0) by lra.
    assert (Hodd : Z.even (Zpos n) = false).
    { destruct (Z.even (Zpos n)); [|reflexivity]. specialize (Hev eq_refl). lra. }
    destruct (odd_pred_even n Hodd) as [k Hk].
    apply is_derive_ext_loc with (fun t => - Rpower (- t) (/ IZR (Zpos n))).
    { apply (locally_open (fun u => u < 0)); [apply open_lt | | exact Hneg].
      intros t Ht. symmetry; apply root_neg; exact Ht. }
    apply Rd_val with (- (/ IZR (Zpos n) * / (- x) * Rpower (- x) (/ IZR (Zpos n)) * (- 1))).
    { apply Rd_opp.
      apply (Rd_comp (fun u => Rpower u (/ IZR (Zpos n))) (fun t => - t)).
      - apply Rd_Rpower_base; lra.
      - apply Rd_opp, Rd_id. }
    assert (Hmx : 0 < - x) by lra.
    pose proof (root_pos_pow n (- x) Hmx) as Hpow.
    rewrite <- pow_split_pred in Hpow.
    rewrite (root_pos n (- x) Hmx) in Hpow.
    rewrite (root_neg n x Hneg).
    set (s := Rpower (- x) (/ IZR (Zpos n))) in *.
    assert (Hs : 0 < s) by apply exp_pos.
    rewrite Hk in *. rewrite pow_opp_even.
    set (m := (2 * k)%nat) in *.
    assert (Hsm : s ^ m <> 0) by (apply pow_nonzero; lra).
    rewrite <- Hpow at 1. field. repeat split; try assumption; lra.
Qed.

(** ** [denote] depends only on the variables that occur *)

Lemma denote_ext_local : forall (e : expr R) (rho rho' : env),
  (forall x, In x (vars e) -> rho x = rho' x) -> denote rho e = denote rho' e.
Proof.
  induction e as [c|x|l IHl|l IHl|a b IHa IHb|a b IHa IHb|a b IHa IHb
                  |a IHa|a IHa|a IHa|a IHa|a n IHa|a n IHa|a b IHa|a b IHa] using expr_ind';
    intros rho rho' Hx; cbn [denote vars] in *;
    try (rewrite (IHa rho rho'), (IHb rho rho');
         [reflexivity | intros; apply Hx, in_or_app; auto | intros; apply Hx, in_or_app; auto]);
    try (rewrite (IHa rho rho') by exact Hx; reflexivity).
  - reflexivity.
  - apply Hx; left; reflexivity.
  - induction IHl as [|a l Ha Hl IH]; cbn [fold_right flat_map] in *; [reflexivity|].
    rewrite (Ha rho rho'), IH; [reflexivity | |]; intros; apply Hx, in_or_app; auto.
  - induction IHl as [|a l Ha Hl IH]; cbn [fold_right flat_map] in *; [reflexivity|].
    rewrite (Ha rho rho'), IH; [reflexivity | |]; intros; apply Hx, in_or_app; auto.
Qed.

Lemma upd_same (rho : env) (v x : name) : upd rho v (rho v) x = rho x.
Proof.
  unfold upd, name_eqb. destruct (Pos.eqb x v) eqn:E; [|reflexivity].
  apply Pos.eqb_eq in E; subst; reflexivity.
Qed.

Lemma upd_other (rho : env) (v x : name) (t : R) : x <> v -> upd rho v t x = rho x.
Proof.
  intro H. unfold upd, name_eqb. destruct (Pos.eqb x v) eqn:E; [|reflexivity].
  apply Pos.eqb_eq in E; contradiction.
Qed.

Lemma upd_eq (rho : env) (v : name) (t : R) : upd rho v t v = t.
Proof. unfold upd, name_eqb. rewrite Pos.eqb_refl. reflexivity. Qed.

Lemma denote_upd_same (rho : env) (v : name) (e : expr R) :
  denote (upd rho v (rho v)) e = denote rho e.
Proof. apply denote_ext_local; intros x _; apply upd_same. Qed.

Lemma denote_upd_absent (rho : env) (v : name) (t : R) (e : expr R) :
  ~ In v (vars e) -> denote (upd rho v t) e = denote rho e.
Proof.
  intro H. apply denote_ext_local; intros x Hx. apply upd_other.
  intro E; subst; contradiction.
Qed.

Lemma denote_Add_map (rho : env) (l : list (expr R)) :
  denote rho (Add l) = fold_right Rplus 0 (map (denote rho) l).
Proof. cbn [denote]. induction l as [|a l IH]; cbn [fold_right map]; [|rewrite IH]; reflexivity. Qed.

Lemma denote_Mul_map (rho : env) (l : list (expr R)) :
  denote rho (Mul l) = fold_right Rmult 1 (map (denote rho) l).
Proof. cbn [denote]. induction l as [|a l IH]; cbn [fold_right map]; [|rewrite IH]; reflexivity. Qed.

(** ** The compositional lemmas *)

Section TP.
  Variable rho : env.
  Variable v : name.

  Lemma tp_ext_value (e : expr R) (d d' : R) :
    true_partial rho e v d -> d = d' -> true_partial rho e v d'.
  Proof. intros H E; subst; exact H. Qed.

  Lemma tp_unique (e : expr R) (d1 d2 : R) :
    true_partial rho e v d1 -> true_partial rho e v d2 -> d1 = d2.
  Proof.
    unfold true_partial; intros H1 H2.
    apply is_derive_unique in H1. apply is_derive_unique in H2. congruence.
  Qed.

  Lemma tp_const (c : R) : true_partial rho (Const c) v 0.
  Proof. unfold true_partial; cbn [denote]. apply Rd_const. Qed.

  Lemma tp_var_same : true_partial rho (Var v) v 1.
  Proof.
    unfold true_partial; cbn [denote].
    apply is_derive_ext with (fun t : R => t); [intro t; symmetry; apply upd_eq | apply Rd_id].
  Qed.

  Lemma tp_var_other (x : name) : x <> v -> true_partial rho (Var x) v 0.
  Proof.
    intro H. unfold true_partial; cbn [denote].
    apply is_derive_ext with (fun _ : R => rho x);
      [intro t; symmetry; apply upd_other; exact H | apply Rd_const].
  Qed.

  Lemma tp_absent (e : expr R) : ~ In v (vars e) -> true_partial rho e v 0.
  Proof.
    intro H. unfold true_partial.
    apply is_derive_ext with (fun _ : R => denote rho e);
      [intro t; symmetry; apply denote_upd_absent; exact H | apply Rd_const].
  Qed.

  (** generic unary node: [denote r e = f (denote r a)] *)
  Lemma tp_comp1 (e a : expr R) (f : R -> R) (df da : R) :
    (forall r, denote r e = f (denote r a)) ->
    is_derive f (denote rho a) df ->
    true_partial rho a v da ->
    true_partial rho e v (df * da).
  Proof.
    intros He Hf Ha. unfold true_partial in *.
    apply is_derive_ext with (fun t => f (denote (upd rho v t) a));
      [intro t; symmetry; apply He|].
    apply (Rd_comp_at f (fun t => denote (upd rho v t) a) (rho v) (denote rho a));
      [apply denote_upd_same | exact Hf | exact Ha].
  Qed.

  Lemma tp_add (l : list (expr R)) (ds : list R) :
    Forall2 (fun a d => true_partial rho a v d) l ds ->
    true_partial rho (Add l) v (fold_right Rplus 0 ds).
  Proof.
    induction 1 as [|a d l ds Ha Hl IH]; unfold true_partial in *; cbn [denote fold_right] in *.
    - apply Rd_const.
    - apply (Rd_plus (fun t => denote (upd rho v t) a)); assumption.
  Qed.

  Lemma mapi_from_shift {A B} (f : nat -> A -> B) (l : list A) (k : nat) :
    mapi_from (S k) f l = mapi_from k (fun i => f (S i)) l.
  Proof.
    revert k; induction l as [|a l IH]; intro k; cbn [mapi_from]; [reflexivity|].
    rewrite IH; reflexivity.
  Qed.

  Lemma sum_mapi_scal (va : R) (f g : nat -> R -> R) (ds : list R) (k : nat) :
    (forall i d, f i d = va * g i d) ->
    fold_right Rplus 0 (mapi_from k f ds) = va * fold_right Rplus 0 (mapi_from k g ds).
  Proof.
    intro Hfg. revert k; induction ds as [|d ds IH]; intro k; cbn [mapi_from fold_right].
    - ring.
    - rewrite IH, Hfg. ring.
  Qed.

  Lemma fold_plus_cons (x : R) (l : list R) :
    fold_right Rplus 0 (x :: l) = x + fold_right Rplus 0 l.
  Proof. reflexivity. Qed.

  Lemma mul_dvalue_cons (va d : R) (vs ds : list R) :
    fold_right Rplus 0
      (mapi (fun i d => fold_right Rmult 1 (d :: remove_nth i (va :: vs))) (d :: ds))
    = d * fold_right Rmult 1 vs
      + va * fold_right Rplus 0
               (mapi (fun i d => fold_right Rmult 1 (d :: remove_nth i vs)) ds).
  Proof.
    unfold mapi. cbn [mapi_from]. rewrite fold_plus_cons, mapi_from_shift.
    f_equal.
    apply sum_mapi_scal. intros i d0. cbn [fold_right remove_nth]. ring.
  Qed.

  Lemma tp_mul (l : list (expr R)) (ds : list R) :
    Forall2 (fun a d => true_partial rho a v d) l ds ->
    true_partial rho (Mul l) v
      (fold_right Rplus 0
         (mapi (fun i d => fold_right Rmult 1 (d :: remove_nth i (map (denote rho) l))) ds)).
  Proof.
    induction 1 as [|a d l ds Ha Hl IH].
    - unfold true_partial; cbn [denote fold_right]. apply Rd_const.
    - cbn [map]. rewrite mul_dvalue_cons.
      unfold true_partial in *. cbn [denote fold_right].
      apply Rd_val with
        (d * denote (upd rho v (rho v)) (Mul l) + denote (upd rho v (rho v)) a *
           fold_right Rplus 0
             (mapi (fun i d0 => fold_right Rmult 1 (d0 :: remove_nth i (map (denote rho) l))) ds)).
      + apply (Rd_mult (fun t => denote (upd rho v t) a) (fun t => denote (upd rho v t) (Mul l)));
          assumption.
      + rewrite !denote_upd_same, denote_Mul_map. reflexivity.
  Qed.

  Lemma tp_minus (a b : expr R) (da db : R) :
    true_partial rho a v da -> true_partial rho b v db ->
    true_partial rho (Minus a b) v (da - db).
  Proof.
    unfold true_partial; cbn [denote]; intros Ha Hb.
    apply (Rd_minus (fun t => denote (upd rho v t) a) (fun t => denote (upd rho v t) b));
      assumption.
  Qed.

  Lemma tp_neg (a : expr R) (da : R) :
    true_partial rho a v da -> true_partial rho (Neg a) v (- da).
  Proof.
    unfold true_partial; cbn [denote]; intros Ha.
    apply (Rd_opp (fun t => denote (upd rho v t) a)); assumption.
  Qed.

  Lemma tp_divide (a b : expr R) (da db : R) :
    true_partial rho a v da -> true_partial rho b v db -> denote rho b <> 0 ->
    true_partial rho (Divide a b) v
      (da / denote rho b + (- (denote rho a / denote rho b ^ 2)) * db).
  Proof.
    unfold true_partial; cbn [denote]; intros Ha Hb Hb0.
    eapply Rd_val.
    - apply (is_derive_div (fun t => denote (upd rho v t) a) (fun t => denote (upd rho v t) b));
        [exact Ha | exact Hb | rewrite denote_upd_same; exact Hb0].
    - cbv beta. rewrite !denote_upd_same. field. exact Hb0.
  Qed.

  Lemma tp_recip (a : expr R) (da : R) :
    true_partial rho a v da -> denote rho a <> 0 ->
    true_partial rho (Recip a) v (- (da / denote rho a ^ 2)).
  Proof.
    unfold true_partial; cbn [denote]; intros Ha Ha0.
    eapply Rd_val.
    - apply (is_derive_inv (fun t => denote (upd rho v t) a));
        [exact Ha | rewrite denote_upd_same; exact Ha0].
    - cbv beta. rewrite !denote_upd_same. field. exact Ha0.
  Qed.

  Lemma tp_sin (a : expr R) (da : R) :
    true_partial rho a v da -> true_partial rho (Sin a) v (cos (denote rho a) * da).
  Proof.
    intro Ha. apply (tp_comp1 (Sin a) a sin); [reflexivity | apply is_derive_sin | exact Ha].
  Qed.

  Lemma tp_cos (a : expr R) (da : R) :
    true_partial rho a v da -> true_partial rho (Cos a) v ((- sin (denote rho a)) * da).
  Proof.
    intro Ha. apply (tp_comp1 (Cos a) a cos); [reflexivity | apply is_derive_cos | exact Ha].
  Qed.

  Lemma tp_nth_pow (a : expr R) (n : positive) (da : R) :
    true_partial rho a v da ->
    true_partial rho (NthPow a n) v
      (IZR (Zpos n) * denote rho a ^ (Pos.to_nat n - 1) * da).
  Proof.
    intro Ha.
    apply (tp_comp1 (NthPow a n) a (fun x => x ^ Pos.to_nat n)); [reflexivity | | exact Ha].
    apply Rd_val with (INR (Pos.to_nat n) * 1 * denote rho a ^ pred (Pos.to_nat n)).
    - apply (is_derive_pow (fun t => t)). apply Rd_id.
    - rewrite INR_IZR_INZ, positive_nat_Z, Nat.sub_1_r. ring.
  Qed.

  Lemma tp_nth_pow_1 (a : expr R) (da : R) :
    true_partial rho a v da -> true_partial rho (NthPow a 1) v da.
  Proof.
    intro Ha. eapply tp_ext_value; [apply tp_nth_pow; exact Ha|].
    change (Pos.to_nat 1 - 1)%nat with 0%nat. cbn [pow]. ring.
  Qed.

  Lemma tp_nth_root (a : expr R) (n : positive) (da : R) :
    true_partial rho a v da ->
    (n = 1%positive \/
     (denote rho a <> 0 /\ (Z.even (Zpos n) = true -> 0 < denote rho a))) ->
    true_partial rho (NthRoot a n) v
      (da / (IZR (Zpos n) * root n (denote rho a) ^ (Pos.to_nat n - 1))).
  Proof.
    intros Ha [Hn|[H0 Hev]].
    - subst n. change (Pos.to_nat 1 - 1)%nat with 0%nat. cbn [pow].
      eapply tp_ext_value.
      + apply (tp_comp1 (NthRoot a 1) a (fun x => x) 1); [| apply Rd_id | exact Ha].
        intro r; cbn [denote]; apply root_1.
      + field.
    - eapply tp_ext_value.
      + apply (tp_comp1 (NthRoot a n) a (root n)); [reflexivity | | exact Ha].
        apply is_derive_root; assumption.
      + unfold Rdiv. apply Rmult_comm.
  Qed.

  Lemma tp_nth_root_1 (a : expr R) (da : R) :
    true_partial rho a v da -> true_partial rho (NthRoot a 1) v da.
  Proof.
    intro Ha. eapply tp_ext_value; [apply tp_nth_root; [exact Ha | left; reflexivity]|].
    change (Pos.to_nat 1 - 1)%nat with 0%nat. cbn [pow]. field.
  Qed.

  Lemma tp_exp (a : expr R) (b da : R) :
    0 < b -> true_partial rho a v da ->
    true_partial rho (Exp a b) v (ln b * Rpower b (denote rho a) * da).
  Proof.
    intros _ Ha.
    apply (tp_comp1 (Exp a b) a (fun x => Rpower b x));
      [reflexivity | apply Rd_Rpower_exponent | exact Ha].
  Qed.

  Lemma tp_log (a : expr R) (b da : R) :
    0 < b -> b <> 1 -> 0 < denote rho a -> true_partial rho a v da ->
    true_partial rho (Log a b) v (da / (ln b * denote rho a)).
  Proof.
    intros Hb Hb1 Hva Ha.
    pose proof (ln_neq_0 b Hb Hb1) as Hln.
    eapply tp_ext_value.
    - apply (tp_comp1 (Log a b) a (fun x => / ln b * ln x) (/ ln b * / denote rho a));
        [ | | exact Ha].
      + intro r; cbn [denote]. unfold Rdiv. apply Rmult_comm.
      + apply is_derive_scal. apply is_derive_ln; exact Hva.
    - field. split; [lra | exact Hln].
  Qed.

  Lemma tp_power (a b : expr R) (da db : R) :
    0 < denote rho a -> true_partial rho a v da -> true_partial rho b v db ->
    true_partial rho (Power a b) v
      (denote rho b * Rpower (denote rho a) (denote rho b - 1) * da
       + ln (denote rho a) * Rpower (denote rho a) (denote rho b) * db).
  Proof.
    unfold true_partial; cbn [denote]; intros Hva Ha Hb.
    eapply Rd_val.
    - apply (Rd_Rpower (fun t => denote (upd rho v t) a) (fun t => denote (upd rho v t) b));
        [rewrite denote_upd_same; exact Hva | exact Ha | exact Hb].
    - cbv beta. rewrite !denote_upd_same. reflexivity.
  Qed.
End TP.

Print Assumptions tp_mul.
Print Assumptions tp_nth_root.
Print Assumptions tp_power.
Print Assumptions tp_absent.
