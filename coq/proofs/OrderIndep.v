(** * OrderIndep: no answer depends on the two orders Python leaves open
    (the iteration order of the variable-name set, the keyword order of a Point),
    and symbolic partials only mention variables of the differentiated expression.

    Main theorems (statements in Spec.v):
      enum_indep        : C18_enum_indep
      point_perm        : C18_point_perm
      synth_enum_indep  : C18_synth_enum_indep
      single_name       : C18_single_name
      vars_of_results   : C14_vars_of_results
    and, beyond Spec.v, the reverse symbolic route:
      vars_of_synth_rev : forall e enum v s,
         slookup v (synthetic_partials RInst e enum) = Some s -> incl (vars s) (vars e).
    All the work is done generically in [N : NumOps T] (sections below, axiom-free) and
    instantiated at [RInst]. *)
From Coq Require Import ZArith List Bool Permutation Lia Setoid Rdefinitions.
From SM Require Import Num Syntax Outcome MathFun Eval Forward Reverse Synth Routes RInst Spec.
Import ListNotations.
Local Close Scope R_scope.

(** ** Association lists *)

Lemma name_eqb_refl (x : name) : name_eqb x x = true.
Proof. apply Pos.eqb_refl. Qed.

Lemma name_eqb_eq (x y : name) : name_eqb x y = true <-> x = y.
Proof. apply Pos.eqb_eq. Qed.

Lemma name_eqb_neq (x y : name) : name_eqb x y = false <-> x <> y.
Proof. apply Pos.eqb_neq. Qed.

(** Reading back a table built over an enumeration: the answer depends on membership only. *)
Lemma lookup_tabulate_in {T} (f : name -> T) (v : name) (enum : list name) :
  In v enum -> lookup v (map (fun x => (x, f x)) enum) = Some (f v).
Proof.
  induction enum as [|a r IH]; intro H; [destruct H|].
  cbn [map lookup]. destruct (name_eqb v a) eqn:E.
  - apply name_eqb_eq in E. subst a. reflexivity.
  - apply name_eqb_neq in E. destruct H as [H|H]; [congruence|]. apply IH, H.
Qed.

Lemma lookup_tabulate_notin {T} (f : name -> T) (v : name) (enum : list name) :
  ~ In v enum -> lookup v (map (fun x => (x, f x)) enum) = None.
Proof.
  induction enum as [|a r IH]; intro H; [reflexivity|].
  cbn [map lookup]. destruct (name_eqb v a) eqn:E.
  - apply name_eqb_eq in E. subst a. exfalso. apply H. left. reflexivity.
  - apply IH. intro K. apply H. right. exact K.
Qed.

Lemma lookup_tabulate_perm {T} (f : name -> T) (v : name) (enum enum' : list name) :
  Permutation enum enum' ->
  lookup v (map (fun x => (x, f x)) enum) = lookup v (map (fun x => (x, f x)) enum').
Proof.
  intro HP. destruct (in_dec Pos.eq_dec v enum) as [I|I].
  - rewrite (lookup_tabulate_in f v enum I).
    rewrite (lookup_tabulate_in f v enum' (Permutation_in _ HP I)). reflexivity.
  - rewrite (lookup_tabulate_notin f v enum I).
    rewrite (lookup_tabulate_notin f v enum'); [reflexivity|].
    intro K. apply I. exact (Permutation_in _ (Permutation_sym HP) K).
Qed.

Lemma slookup_tabulate_in {T} (f : name -> expr T) (v : name) (enum : list name) :
  In v enum -> slookup v (map (fun x => (x, f x)) enum) = Some (f v).
Proof.
  induction enum as [|a r IH]; intro H; [destruct H|].
  cbn [map slookup]. destruct (name_eqb v a) eqn:E.
  - apply name_eqb_eq in E. subst a. reflexivity.
  - apply name_eqb_neq in E. destruct H as [H|H]; [congruence|]. apply IH, H.
Qed.

Lemma slookup_tabulate_notin {T} (f : name -> expr T) (v : name) (enum : list name) :
  ~ In v enum -> slookup v (map (fun x => (x, f x)) enum) = None.
Proof.
  induction enum as [|a r IH]; intro H; [reflexivity|].
  cbn [map slookup]. destruct (name_eqb v a) eqn:E.
  - apply name_eqb_eq in E. subst a. exfalso. apply H. left. reflexivity.
  - apply IH. intro K. apply H. right. exact K.
Qed.

Lemma slookup_tabulate_perm {T} (f : name -> expr T) (v : name) (enum enum' : list name) :
  Permutation enum enum' ->
  slookup v (map (fun x => (x, f x)) enum) = slookup v (map (fun x => (x, f x)) enum').
Proof.
  intro HP. destruct (in_dec Pos.eq_dec v enum) as [I|I].
  - rewrite (slookup_tabulate_in f v enum I).
    rewrite (slookup_tabulate_in f v enum' (Permutation_in _ HP I)). reflexivity.
  - rewrite (slookup_tabulate_notin f v enum I).
    rewrite (slookup_tabulate_notin f v enum'); [reflexivity|].
    intro K. apply I. exact (Permutation_in _ (Permutation_sym HP) K).
Qed.

(** A point with distinct names is a finite map: lookup is membership. *)
Lemma lookup_some_in {T} (x : name) (v : T) (p : point T) :
  lookup x p = Some v -> In (x, v) p.
Proof.
  induction p as [|[y w] r IH]; cbn [lookup]; intro H; [discriminate|].
  destruct (name_eqb x y) eqn:E.
  - apply name_eqb_eq in E. injection H as ->. subst y. left. reflexivity.
  - right. apply IH, H.
Qed.

Lemma in_lookup_some {T} (x : name) (v : T) (p : point T) :
  NoDup (map fst p) -> In (x, v) p -> lookup x p = Some v.
Proof.
  induction p as [|[y w] r IH]; cbn [map fst lookup]; intros ND H; [destruct H|].
  inversion ND as [|? ? Hnin ND']; subst.
  destruct H as [H|H].
  - injection H as -> ->. rewrite name_eqb_refl. reflexivity.
  - destruct (name_eqb x y) eqn:E.
    + apply name_eqb_eq in E. subst y. exfalso. apply Hnin.
      change x with (fst (x, v)). apply in_map, H.
    + apply IH; assumption.
Qed.

Lemma lookup_perm {T} (p p' : point T) :
  NoDup (map fst p) -> Permutation p p' -> forall x, lookup x p = lookup x p'.
Proof.
  intros ND HP x.
  assert (ND' : NoDup (map fst p')).
  { eapply Permutation_NoDup; [|exact ND]. apply Permutation_map, HP. }
  destruct (lookup x p) as [v|] eqn:E1.
  - symmetry. apply in_lookup_some; [exact ND'|].
    apply (Permutation_in _ HP). apply lookup_some_in, E1.
  - destruct (lookup x p') as [v|] eqn:E2; [|reflexivity].
    apply lookup_some_in in E2. apply (Permutation_in _ (Permutation_sym HP)) in E2.
    apply (in_lookup_some _ _ _ ND) in E2. congruence.
Qed.

(** ** Extensionality in the point: eval, fwd, rev use the point only through [lookup] *)

Ltac ext_step :=
  match goal with
  | |- bind ?o _ = bind ?o _ => destruct o; cbn [bind]; try reflexivity
  | |- (if ?b then _ else _) = (if ?b then _ else _) => destruct b; try reflexivity
  end.

Section PointExt.
  Context {T : Type} (N : NumOps T).
  Variables p p' : point T.
  Hypothesis Hlk : forall x, lookup x p = lookup x p'.

  Lemma coordinate_ext x : coordinate p x = coordinate p' x.
  Proof. unfold coordinate. rewrite Hlk. reflexivity. Qed.

  Lemma eval_ext : forall e, eval N p e = eval N p' e.
  Proof.
    induction e as [c|x|l IH|l IH|a b IHa IHb|a b IHa IHb|a b IHa IHb
                   |a IHa|a IHa|a IHa|a IHa|a n IHa|a n IHa|a base IHa|a base IHa]
      using expr_ind'; cbn [eval].
    - reflexivity.
    - apply coordinate_ext.
    - rewrite (map_ext_in (eval N p) (eval N p') l); [reflexivity|].
      exact (proj1 (Forall_forall _ l) IH).
    - rewrite (map_ext_in (eval N p) (eval N p') l); [reflexivity|].
      exact (proj1 (Forall_forall _ l) IH).
    - rewrite IHa, IHb. reflexivity.
    - rewrite IHa, IHb. reflexivity.
    - rewrite IHa, IHb. reflexivity.
    - rewrite IHa. reflexivity.
    - rewrite IHa. reflexivity.
    - rewrite IHa. reflexivity.
    - rewrite IHa. reflexivity.
    - rewrite IHa. reflexivity.
    - rewrite IHa. reflexivity.
    - rewrite IHa. reflexivity.
    - rewrite IHa. reflexivity.
  Qed.

  Lemma eval_list_ext l : eval_list N p l = eval_list N p' l.
  Proof.
    unfold eval_list. rewrite (map_ext (eval N p) (eval N p') eval_ext). reflexivity.
  Qed.

  Lemma unary_formula_ext e m : unary_formula N p e m = unary_formula N p' e m.
  Proof.
    destruct e as [c|x|l|l|a b|a b|a b|a|a|a|a|a n|a n|a base|a base];
      cbn [unary_formula]; try reflexivity.
    - rewrite (eval_ext a). reflexivity.
    - rewrite (eval_ext a). reflexivity.
    - rewrite (eval_ext a). reflexivity.
    - rewrite (eval_ext a). reflexivity.
    - rewrite (eval_ext (NthRoot a n)). reflexivity.
    - rewrite (eval_ext (Exp a base)). reflexivity.
    - rewrite (eval_ext a). reflexivity.
  Qed.

  Lemma divide_formula_left_ext a b m :
    divide_formula_left N p a b m = divide_formula_left N p' a b m.
  Proof. unfold divide_formula_left. rewrite (eval_ext b). reflexivity. Qed.

  Lemma divide_formula_right_ext a b m :
    divide_formula_right N p a b m = divide_formula_right N p' a b m.
  Proof. unfold divide_formula_right. rewrite (eval_ext a), (eval_ext b). reflexivity. Qed.

  Lemma power_formula_left_ext a b m :
    power_formula_left N p a b m = power_formula_left N p' a b m.
  Proof. unfold power_formula_left. rewrite (eval_ext a), (eval_ext b). reflexivity. Qed.

  Lemma power_formula_right_ext a b m :
    power_formula_right N p a b m = power_formula_right N p' a b m.
  Proof.
    unfold power_formula_right. rewrite (eval_ext a), (eval_ext (Power a b)). reflexivity.
  Qed.

  Lemma power_shortcut_ext a : power_shortcut N p a = power_shortcut N p' a.
  Proof. unfold power_shortcut. rewrite (eval_ext a). reflexivity. Qed.

  Lemma fwd_ext v : forall e, fwd N v p e = fwd N v p' e.
  Proof.
    induction e as [c|x|l IH|l IH|a b IHa IHb|a b IHa IHb|a b IHa IHb
                   |a IHa|a IHa|a IHa|a IHa|a n IHa|a n IHa|a base IHa|a base IHa]
      using expr_ind'; cbn [fwd].
    - reflexivity.
    - reflexivity.
    - rewrite (map_ext_in (fwd N v p) (fwd N v p') l); [reflexivity|].
      exact (proj1 (Forall_forall _ l) IH).
    - rewrite eval_list_ext.
      rewrite (map_ext_in (fwd N v p) (fwd N v p') l); [reflexivity|].
      exact (proj1 (Forall_forall _ l) IH).
    - rewrite IHa, IHb. reflexivity.
    - rewrite (eval_ext a), (eval_ext b), IHa, IHb.
      repeat ext_step.
      rewrite divide_formula_left_ext. ext_step.
      rewrite divide_formula_right_ext. reflexivity.
    - rewrite (eval_ext (Power a b)), power_shortcut_ext, (eval_ext a), (eval_ext b), IHa, IHb.
      repeat ext_step.
      rewrite power_formula_left_ext. ext_step.
      rewrite power_formula_right_ext. reflexivity.
    - rewrite (eval_ext a), IHa. repeat ext_step; apply unary_formula_ext.
    - rewrite (eval_ext a), IHa. repeat ext_step; apply unary_formula_ext.
    - rewrite (eval_ext a), IHa. repeat ext_step; apply unary_formula_ext.
    - rewrite (eval_ext a), IHa. repeat ext_step; apply unary_formula_ext.
    - rewrite (eval_ext a), IHa. repeat ext_step; apply unary_formula_ext.
    - rewrite (eval_ext a), IHa. repeat ext_step; apply unary_formula_ext.
    - rewrite (eval_ext a), IHa. repeat ext_step; apply unary_formula_ext.
    - rewrite (eval_ext a), IHa. repeat ext_step; apply unary_formula_ext.
  Qed.

  (** the inner loops of [rev] *)
  Lemma rev_add_go_ext (l : list (expr T)) :
    Forall (fun e => forall m acc, rev N p e m acc = rev N p' e m acc) l ->
    forall m acc,
      (fix go (l : list (expr T)) (acc : accum) {struct l} : outcome accum :=
         match l with
         | [] => Val acc
         | x :: r => acc' <- rev N p x m acc ;; go r acc'
         end) l acc =
      (fix go (l : list (expr T)) (acc : accum) {struct l} : outcome accum :=
         match l with
         | [] => Val acc
         | x :: r => acc' <- rev N p' x m acc ;; go r acc'
         end) l acc.
  Proof.
    induction 1 as [|x r Hx Hr IH]; intros m acc; [reflexivity|].
    rewrite Hx. ext_step. apply IH.
  Qed.

  Lemma rev_mul_go_ext (vs : list T) (l : list (expr T)) :
    Forall (fun e => forall m acc, rev N p e m acc = rev N p' e m acc) l ->
    forall m i acc,
      (fix go (i : nat) (l : list (expr T)) (acc : accum) {struct l} : outcome accum :=
         match l with
         | [] => Val acc
         | x :: r =>
             acc' <- rev N p x (mf_multiply N (m :: remove_nth i vs)) acc ;;
             go (S i) r acc'
         end) i l acc =
      (fix go (i : nat) (l : list (expr T)) (acc : accum) {struct l} : outcome accum :=
         match l with
         | [] => Val acc
         | x :: r =>
             acc' <- rev N p' x (mf_multiply N (m :: remove_nth i vs)) acc ;;
             go (S i) r acc'
         end) i l acc.
  Proof.
    induction 1 as [|x r Hx Hr IH]; intros m i acc; [reflexivity|].
    rewrite Hx. ext_step. apply IH.
  Qed.

  Lemma rev_ext : forall e m acc, rev N p e m acc = rev N p' e m acc.
  Proof.
    induction e as [c|x|l IH|l IH|a b IHa IHb|a b IHa IHb|a b IHa IHb
                   |a IHa|a IHa|a IHa|a IHa|a n IHa|a n IHa|a base IHa|a base IHa]
      using expr_ind'; intros m acc; cbn [rev].
    - reflexivity.
    - reflexivity.
    - apply rev_add_go_ext, IH.
    - rewrite eval_list_ext. ext_step. apply rev_mul_go_ext, IH.
    - rewrite IHa. ext_step. apply IHb.
    - rewrite (eval_ext a), (eval_ext b), divide_formula_left_ext, divide_formula_right_ext.
      repeat ext_step. rewrite IHa. ext_step. apply IHb.
    - rewrite (eval_ext (Power a b)), power_shortcut_ext, (eval_ext a), (eval_ext b),
        power_formula_left_ext, power_formula_right_ext.
      repeat ext_step. rewrite IHa. ext_step. apply IHb.
    - rewrite (eval_ext a), unary_formula_ext. repeat ext_step; apply IHa.
    - rewrite (eval_ext a), unary_formula_ext. repeat ext_step; apply IHa.
    - rewrite (eval_ext a), unary_formula_ext. repeat ext_step; apply IHa.
    - rewrite (eval_ext a), unary_formula_ext. repeat ext_step; apply IHa.
    - rewrite (eval_ext a), unary_formula_ext. repeat ext_step; apply IHa.
    - rewrite (eval_ext a), unary_formula_ext. repeat ext_step; apply IHa.
    - rewrite (eval_ext a), unary_formula_ext. repeat ext_step; apply IHa.
    - rewrite (eval_ext a), unary_formula_ext. repeat ext_step; apply IHa.
  Qed.
End PointExt.

(** ** Generic statements of the order-independence theorems *)

Section Generic.
  Context {T : Type} (N : NumOps T).

  Theorem point_perm_gen (p p' : point T) (e : expr T) (v : name) :
    NoDup (map fst p) -> Permutation p p' ->
    eval N p e = eval N p' e /\ fwd N v p e = fwd N v p' e /\
    (forall m acc, rev N p e m acc = rev N p' e m acc).
  Proof.
    intros ND HP. pose proof (lookup_perm p p' ND HP) as Hlk.
    split; [|split].
    - apply eval_ext, Hlk.
    - apply fwd_ext, Hlk.
    - intros m acc. apply rev_ext, Hlk.
  Qed.

  Theorem enum_indep_gen (p : point T) (e : expr T) (enum enum' : list name) (v : name) :
    Permutation enum enum' ->
    component_of N (located_differential N e enum p) v =
    component_of N (located_differential N e enum' p) v.
  Proof.
    intro HP. unfold component_of, located_differential, numeric_partials.
    destruct (rev N p e (n1 N) []) as [acc| | |k]; cbn [bind]; try reflexivity.
    unfold located_component, numeric_partials_for.
    rewrite (lookup_tabulate_perm (acc_get N acc) v enum enum' HP). reflexivity.
  Qed.

  Theorem synth_enum_indep_gen (e : expr T) (enum enum' : list name) (v : name) :
    Permutation enum enum' ->
    slookup v (synthetic_partials N e enum) = slookup v (synthetic_partials N e enum').
  Proof.
    intro HP. unfold synthetic_partials, synthetic_partials_for.
    apply (slookup_tabulate_perm
             (fun x => match slookup x (synth_rev N e (Const (n1 N)) []) with
                       | Some w => w
                       | None => Const (n0 N)
                       end) v enum enum' HP).
  Qed.
End Generic.

Lemma perm_short {A} (l l' : list A) :
  Permutation l l' -> (length l <= 1)%nat -> l = l'.
Proof.
  intros HP Hlen. destruct l as [|a [|b r]].
  - symmetry. apply Permutation_nil, HP.
  - symmetry. apply Permutation_length_1_inv, HP.
  - cbn [length] in Hlen. lia.
Qed.

(** ** Variables of the symbolic partials *)

Ltac solve_incl :=
  let x := fresh "x" in let Hx := fresh "Hx" in
  intros x Hx; cbn [vars flat_map app] in *;
  repeat match goal with
         | H : incl _ _ |- _ => specialize (H x)
         end;
  rewrite ?in_app_iff in *; cbn [In] in *; tauto.

Section VarsGen.
  Context {T : Type} (N : NumOps T).

  Lemma incl_flat_map_elem (l : list (expr T)) (x : expr T) :
    In x l -> incl (vars x) (flat_map vars l).
  Proof. intros H y Hy. apply in_flat_map. exists x. split; assumption. Qed.

  Lemma incl_flat_map_remove_nth : forall (i : nat) (l : list (expr T)),
    incl (flat_map vars (remove_nth i l)) (flat_map vars l).
  Proof.
    induction i as [|i IH]; intros [|a l]; cbn [remove_nth flat_map].
    - apply incl_refl.
    - apply incl_appr, incl_refl.
    - apply incl_refl.
    - apply incl_app; [apply incl_appl, incl_refl|apply incl_appr, IH].
  Qed.

  Lemma vars_Mul_cons (d : expr T) (l : list (expr T)) :
    vars (Mul (d :: l)) = vars d ++ flat_map vars l.
  Proof. reflexivity. Qed.

  Lemma vars_mapi_mul (V : list name) (L : list (expr T)) :
    incl (flat_map vars L) V ->
    forall (ds : list (expr T)) (i : nat),
      Forall (fun d => incl (vars d) V) ds ->
      incl (flat_map vars (mapi_from i (fun i d => Mul (d :: remove_nth i L)) ds)) V.
  Proof.
    intros HL. induction ds as [|d ds IH]; intros i HF; cbn [mapi_from flat_map].
    - apply incl_nil_l.
    - inversion HF as [|? ? Hd HF']; subst. apply incl_app.
      + rewrite vars_Mul_cons. apply incl_app; [exact Hd|].
        eapply incl_tran; [apply incl_flat_map_remove_nth|exact HL].
      + apply IH, HF'.
  Qed.

  Lemma synth_unary_formula_vars (e m : expr T) :
    incl (vars (synth_unary_formula N e m)) (vars e ++ vars m).
  Proof.
    destruct e as [c|x|l|l|a b|a b|a b|a|a|a|a|a n|a n|a base|a base];
      cbn [synth_unary_formula]; try solve_incl.
    - destruct n; solve_incl.
    - destruct n; solve_incl.
    - destruct (neqb N base (n1 N)); [solve_incl|].
      destruct (neqb N base (n_e N)); solve_incl.
    - destruct (neqb N base (n_e N)); solve_incl.
  Qed.

  Lemma synth_fwd_vars (v : name) : forall e : expr T, incl (vars (synth_fwd N v e)) (vars e).
  Proof.
    induction e as [c|x|l IH|l IH|a b IHa IHb|a b IHa IHb|a b IHa IHb
                   |a IHa|a IHa|a IHa|a IHa|a n IHa|a n IHa|a base IHa|a base IHa]
      using expr_ind'; cbn [synth_fwd].
    - apply incl_nil_l.
    - destruct (name_eqb x v); apply incl_nil_l.
    - change (incl (flat_map vars (map (synth_fwd N v) l)) (flat_map vars l)).
      induction IH as [|x r Hx Hr IHr]; cbn [map flat_map].
      + apply incl_refl.
      + apply incl_app; [apply incl_appl, Hx|apply incl_appr, IHr].
    - change (incl (flat_map vars (mapi_from 0 (fun i d => Mul (d :: remove_nth i l))
                                     (map (synth_fwd N v) l))) (flat_map vars l)).
      apply vars_mapi_mul; [apply incl_refl|].
      apply Forall_forall. intros d Hd. apply in_map_iff in Hd. destruct Hd as [x [<- Hx]].
      eapply incl_tran; [|apply incl_flat_map_elem, Hx].
      exact (proj1 (Forall_forall _ l) IH x Hx).
    - solve_incl.
    - unfold synth_divide_left, synth_divide_right. solve_incl.
    - unfold synth_power_left, synth_power_right. solve_incl.
    - eapply incl_tran; [apply synth_unary_formula_vars|]. solve_incl.
    - eapply incl_tran; [apply synth_unary_formula_vars|]. solve_incl.
    - eapply incl_tran; [apply synth_unary_formula_vars|]. solve_incl.
    - eapply incl_tran; [apply synth_unary_formula_vars|]. solve_incl.
    - eapply incl_tran; [apply synth_unary_formula_vars|]. solve_incl.
    - eapply incl_tran; [apply synth_unary_formula_vars|]. solve_incl.
    - eapply incl_tran; [apply synth_unary_formula_vars|]. solve_incl.
    - eapply incl_tran; [apply synth_unary_formula_vars|]. solve_incl.
  Qed.

  (** *** The reverse symbolic route: every accumulator entry stays within [V] *)
  Definition acc_within (V : list name) (acc : list (name * expr T)) : Prop :=
    Forall (fun xs => incl (vars (snd xs)) V) acc.

  Lemma slookup_within V (acc : list (name * expr T)) x s :
    acc_within V acc -> slookup x acc = Some s -> incl (vars s) V.
  Proof.
    induction acc as [|[y w] r IH]; cbn [slookup]; intros HF H; [discriminate|].
    inversion HF as [|? ? Hw HF']; subst. cbn [snd] in Hw.
    destruct (name_eqb x y).
    - injection H as <-. exact Hw.
    - apply IH; assumption.
  Qed.

  Lemma sacc_set_within V (acc : list (name * expr T)) x s :
    acc_within V acc -> incl (vars s) V -> acc_within V (sacc_set acc x s).
  Proof.
    induction acc as [|[y w] r IH]; cbn [sacc_set]; intros HF Hs.
    - constructor; [exact Hs|constructor].
    - inversion HF as [|? ? Hw HF']; subst.
      destruct (name_eqb x y); constructor.
      + exact Hs.
      + exact HF'.
      + exact Hw.
      + apply IH; assumption.
  Qed.

  Lemma sacc_add_within V (acc : list (name * expr T)) x m :
    acc_within V acc -> incl (vars m) V -> acc_within V (sacc_add acc x m).
  Proof.
    intros HF Hm. unfold sacc_add. destruct (slookup x acc) as [ex|] eqn:E.
    - apply sacc_set_within; [exact HF|].
      pose proof (slookup_within V acc x ex HF E) as Hex. solve_incl.
    - apply sacc_set_within; assumption.
  Qed.

  Definition rev_within (V : list name) (e : expr T) : Prop :=
    forall m acc, incl (vars e) V -> incl (vars m) V -> acc_within V acc ->
                  acc_within V (synth_rev N e m acc).

  Lemma synth_rev_add_go_within V (l : list (expr T)) :
    Forall (rev_within V) l -> incl (flat_map vars l) V ->
    forall m acc, incl (vars m) V -> acc_within V acc ->
      acc_within V
        ((fix go (l : list (expr T)) (acc : list (name * expr T)) {struct l} :=
            match l with
            | [] => acc
            | x :: r => go r (synth_rev N x m acc)
            end) l acc).
  Proof.
    induction 1 as [|x r Hx Hr IH]; cbn [flat_map]; intros Hl m acc Hm Hacc; [exact Hacc|].
    apply incl_app_inv in Hl. destruct Hl as [Hlx Hlr].
    apply IH; [exact Hlr|exact Hm|]. apply Hx; assumption.
  Qed.

  Lemma synth_rev_mul_go_within V (L r : list (expr T)) :
    incl (flat_map vars L) V ->
    Forall (rev_within V) r -> incl (flat_map vars r) V ->
    forall m i acc, incl (vars m) V -> acc_within V acc ->
      acc_within V
        ((fix go (i : nat) (r : list (expr T)) (acc : list (name * expr T)) {struct r} :=
            match r with
            | [] => acc
            | x :: r' => go (S i) r' (synth_rev N x (Mul (m :: remove_nth i L)) acc)
            end) i r acc).
  Proof.
    intro HL. induction 1 as [|x r Hx Hr IH]; cbn [flat_map]; intros Hl m i acc Hm Hacc;
      [exact Hacc|].
    apply incl_app_inv in Hl. destruct Hl as [Hlx Hlr].
    apply IH; [exact Hlr|exact Hm|]. apply Hx; [exact Hlx| |exact Hacc].
    rewrite vars_Mul_cons. apply incl_app; [exact Hm|].
    eapply incl_tran; [apply incl_flat_map_remove_nth|exact HL].
  Qed.

  Lemma synth_rev_within V : forall e : expr T, rev_within V e.
  Proof.
    induction e as [c|x|l IH|l IH|a b IHa IHb|a b IHa IHb|a b IHa IHb
                   |a IHa|a IHa|a IHa|a IHa|a n IHa|a n IHa|a base IHa|a base IHa]
      using expr_ind'; intros m acc He Hm Hacc; cbn [synth_rev].
    - exact Hacc.
    - apply sacc_add_within; assumption.
    - apply synth_rev_add_go_within; assumption.
    - apply synth_rev_mul_go_within; assumption.
    - apply IHb; [solve_incl|solve_incl|]. apply IHa; [solve_incl|exact Hm|exact Hacc].
    - unfold synth_divide_left, synth_divide_right.
      apply IHb; [solve_incl|solve_incl|]. apply IHa; [solve_incl|solve_incl|exact Hacc].
    - unfold synth_power_left, synth_power_right.
      apply IHb; [solve_incl|solve_incl|]. apply IHa; [solve_incl|solve_incl|exact Hacc].
    - apply IHa; [exact He| |exact Hacc].
      eapply incl_tran; [apply synth_unary_formula_vars|]. apply incl_app; assumption.
    - apply IHa; [exact He| |exact Hacc].
      eapply incl_tran; [apply synth_unary_formula_vars|]. apply incl_app; assumption.
    - apply IHa; [exact He| |exact Hacc].
      eapply incl_tran; [apply synth_unary_formula_vars|]. apply incl_app; assumption.
    - apply IHa; [exact He| |exact Hacc].
      eapply incl_tran; [apply synth_unary_formula_vars|]. apply incl_app; assumption.
    - apply IHa; [exact He| |exact Hacc].
      eapply incl_tran; [apply synth_unary_formula_vars|]. apply incl_app; assumption.
    - apply IHa; [exact He| |exact Hacc].
      eapply incl_tran; [apply synth_unary_formula_vars|]. apply incl_app; assumption.
    - apply IHa; [exact He| |exact Hacc].
      eapply incl_tran; [apply synth_unary_formula_vars|]. apply incl_app; assumption.
    - apply IHa; [exact He| |exact Hacc].
      eapply incl_tran; [apply synth_unary_formula_vars|]. apply incl_app; assumption.
  Qed.

  Theorem vars_of_synth_rev_gen (e : expr T) (enum : list name) (v : name) (s : expr T) :
    slookup v (synthetic_partials N e enum) = Some s -> incl (vars s) (vars e).
  Proof.
    unfold synthetic_partials, synthetic_partials_for. intro H.
    pose (f := fun x => match slookup x (synth_rev N e (Const (n1 N)) []) with
                       | Some w => w
                       | None => Const (n0 N)
                       end).
    change (slookup v (map (fun x => (x, f x)) enum) = Some s) in H.
    destruct (in_dec Pos.eq_dec v enum) as [I|I].
    - rewrite (slookup_tabulate_in f v enum I) in H. injection H as <-. unfold f.
      destruct (slookup v (synth_rev N e (Const (n1 N)) [])) as [w|] eqn:E.
      + eapply slookup_within; [|exact E].
        apply synth_rev_within; [apply incl_refl|apply incl_nil_l|constructor].
      + apply incl_nil_l.
    - rewrite (slookup_tabulate_notin f v enum I) in H. discriminate.
  Qed.
End VarsGen.

(** ** The theorems at RInst *)

Theorem enum_indep : C18_enum_indep.
Proof. unfold C18_enum_indep. intros p e enum enum' v HP. apply enum_indep_gen, HP. Qed.

Theorem point_perm : C18_point_perm.
Proof. unfold C18_point_perm. intros p p' e v ND HP. apply point_perm_gen; assumption. Qed.

Theorem synth_enum_indep : C18_synth_enum_indep.
Proof. unfold C18_synth_enum_indep. intros e enum enum' v HP. apply synth_enum_indep_gen, HP. Qed.

Theorem single_name : C18_single_name.
Proof. unfold C18_single_name. intros e l HP Hlen. apply perm_short; assumption. Qed.

Theorem vars_of_results : C14_vars_of_results.
Proof. unfold C14_vars_of_results. intros e v. apply synth_fwd_vars. Qed.

Theorem vars_of_synth_rev : forall (e : expr R) (enum : list name) (v : name) (s : expr R),
  slookup v (synthetic_partials RInst e enum) = Some s -> incl (vars s) (vars e).
Proof. intros e enum v s. apply vars_of_synth_rev_gen. Qed.

(** ** Non-vacuity: the premises are satisfiable on non-trivial data, and the routes
    really produce values there *)

Example enum_indep_nonvacuous :
  Permutation [1; 2]%positive [2; 1]%positive /\
  component_of RInst
    (located_differential RInst (Add [Var 1%positive; Var 2%positive]) [2; 1]%positive [])
    1%positive = Val (0 + 1)%R.
Proof. split; [apply perm_swap|reflexivity]. Qed.

Example point_perm_nonvacuous :
  let p := [(1%positive, 2%R); (2%positive, 3%R)] in
  let p' := [(2%positive, 3%R); (1%positive, 2%R)] in
  NoDup (map fst p) /\ Permutation p p' /\ p <> p' /\
  evalR p (Minus (Var 1%positive) (Var 2%positive)) = Val (2 - 3)%R.
Proof.
  cbv zeta. split; [|split; [|split]].
  - cbn [map fst]. constructor.
    + cbn [In]. intros [H|[]]. discriminate H.
    + constructor; [intros []|constructor].
  - apply perm_swap.
  - intro H. injection H as H _. discriminate H.
  - reflexivity.
Qed.

Example synth_enum_indep_nonvacuous :
  exists s : expr R,
    slookup 1%positive
      (synthetic_partials RInst (Mul [Var 1%positive; Var 2%positive]) [2; 1]%positive) = Some s
    /\ s <> Const (n0 RInst).
Proof. eexists. split; [reflexivity|discriminate]. Qed.

Example single_name_nonvacuous :
  Permutation [3%positive] (var_names (Sin (Mul [Var 3%positive; Var 3%positive]) : expr R)) /\
  (length [3%positive] <= 1)%nat.
Proof. split; [apply Permutation_refl|apply le_n]. Qed.

Example vars_of_results_nontrivial :
  vars (synth_fwd RInst 1%positive (Mul [Var 1%positive; Var 2%positive])) <> [].
Proof. cbn. discriminate. Qed.

Print Assumptions point_perm_gen.
Print Assumptions enum_indep_gen.
Print Assumptions synth_enum_indep_gen.
Print Assumptions synth_fwd_vars.
Print Assumptions vars_of_synth_rev_gen.
Print Assumptions enum_indep.
Print Assumptions point_perm.
Print Assumptions synth_enum_indep.
Print Assumptions single_name.
Print Assumptions vars_of_results.
Print Assumptions vars_of_synth_rev.
