(** * RulesSoundA: soundness ([refines]) of every rewrite rule of the classes
    Add, Minus, Negation, Multiply, Divide, Reciprocal, Cosine, Sine  (part A of C08_rules_sound). *)
From Coq Require Import Reals ZArith List Bool String Permutation Lia Lra.
From SM Require Import Num Syntax Outcome MathFun Eval Rules RInst Denote Spec.
Import ListNotations.
Open Scope R_scope.

(** ** Sums and products of lists of reals *)
Definition RA_sumR (l : list R) : R := fold_right Rplus 0 l.
Definition RA_prodR (l : list R) : R := fold_right Rmult 1 l.
Definition RA_opR (b : bool) (l : list R) : R := if b then RA_sumR l else RA_prodR l.

Lemma RA_sumR_app x y : RA_sumR (x ++ y) = RA_sumR x + RA_sumR y.
Proof. induction x as [|a x IH]; simpl; [lra|]. rewrite IH. lra. Qed.
Lemma RA_prodR_app x y : RA_prodR (x ++ y) = RA_prodR x * RA_prodR y.
Proof. induction x as [|a x IH]; simpl; [lra|]. rewrite IH. ring. Qed.

Lemma RA_opR_app b x x' y y' :
  RA_opR b x' = RA_opR b x -> RA_opR b y' = RA_opR b y -> RA_opR b (x' ++ y') = RA_opR b (x ++ y).
Proof.
  destruct b; simpl; intros H1 H2.
  - rewrite !RA_sumR_app. congruence.
  - rewrite !RA_prodR_app. congruence.
Qed.

Lemma RA_opR_perm b x y : Permutation x y -> RA_opR b x = RA_opR b y.
Proof.
  intro H. induction H as [|a x y H IH|a c x|x y z H1 IH1 H2 IH2].
  - reflexivity.
  - destruct b; simpl in *; rewrite IH; reflexivity.
  - destruct b; simpl; ring.
  - congruence.
Qed.

(** ** n-ary nodes, uniformly *)
Definition RA_nary (b : bool) (l : list (expr R)) : expr R := if b then Add l else Mul l.

Lemma RA_wf_nary b l : wfR (RA_nary b l) <-> Forall wfR l.
Proof.
  destruct b; simpl; (induction l as [|a l IH]; simpl; [split; auto|]);
    rewrite IH; split; [intros [H1 H2]; constructor; auto | intro H; inversion H; auto
                       |intros [H1 H2]; constructor; auto | intro H; inversion H; auto].
Qed.

Lemma RA_dom_nary b rho l : InDomain rho (RA_nary b l) <-> Forall (InDomain rho) l.
Proof.
  destruct b; simpl; (induction l as [|a l IH]; simpl; [split; auto|]);
    rewrite IH; split; [intros [H1 H2]; constructor; auto | intro H; inversion H; auto
                       |intros [H1 H2]; constructor; auto | intro H; inversion H; auto].
Qed.

Lemma RA_vars_nary b l : vars (RA_nary b l) = flat_map vars l.
Proof. destruct b; reflexivity. Qed.

Lemma RA_den_nary b rho l : denote rho (RA_nary b l) = RA_opR b (map (denote rho) l).
Proof. destruct b; simpl; induction l as [|a l IH]; simpl; congruence. Qed.

Lemma RA_wf_Add l : wfR (Add l) <-> Forall wfR l.
Proof. exact (RA_wf_nary true l). Qed.
Lemma RA_wf_Mul l : wfR (Mul l) <-> Forall wfR l.
Proof. exact (RA_wf_nary false l). Qed.
Lemma RA_dom_Add rho l : InDomain rho (Add l) <-> Forall (InDomain rho) l.
Proof. exact (RA_dom_nary true rho l). Qed.
Lemma RA_dom_Mul rho l : InDomain rho (Mul l) <-> Forall (InDomain rho) l.
Proof. exact (RA_dom_nary false rho l). Qed.
Lemma RA_den_Add rho l : denote rho (Add l) = RA_sumR (map (denote rho) l).
Proof. exact (RA_den_nary true rho l). Qed.
Lemma RA_den_Mul rho l : denote rho (Mul l) = RA_prodR (map (denote rho) l).
Proof. exact (RA_den_nary false rho l). Qed.

(** ** [refines]: generic facts *)
Lemma RA_refines_refl e : refines e e.
Proof. intro H. split; [assumption|]. split; [apply incl_refl|]. intros rho Hd; auto. Qed.

Lemma RA_refines_trans e1 e2 e3 : refines e1 e2 -> refines e2 e3 -> refines e1 e3.
Proof.
  intros H12 H23 Hw. destruct (H12 Hw) as (Hw2 & Hi2 & Hd2).
  destruct (H23 Hw2) as (Hw3 & Hi3 & Hd3).
  split; [assumption|]. split; [eapply incl_tran; eassumption|].
  intros rho Hd. destruct (Hd2 rho Hd) as [Hd' He]. destruct (Hd3 rho Hd') as [Hd'' He'].
  split; [assumption|congruence].
Qed.

Lemma RA_refines_nary b l l' :
  (Forall wfR l ->
   Forall wfR l' /\ incl (flat_map vars l') (flat_map vars l) /\
   forall rho, Forall (InDomain rho) l ->
     Forall (InDomain rho) l' /\
     RA_opR b (map (denote rho) l') = RA_opR b (map (denote rho) l))
  <-> refines (RA_nary b l) (RA_nary b l').
Proof.
  unfold refines. rewrite !RA_wf_nary, !RA_vars_nary.
  split; intros H Hw; destruct (H Hw) as (Hw' & Hi & Hd); (split; [assumption|]);
    (split; [assumption|]); intros rho Hdom.
  - rewrite RA_dom_nary in Hdom. destruct (Hd rho Hdom) as [H1 H2].
    rewrite RA_dom_nary, !RA_den_nary. auto.
  - rewrite <- RA_dom_nary with (b := b) in Hdom. destruct (Hd rho Hdom) as [H1 H2].
    rewrite RA_dom_nary, !RA_den_nary in *. auto.
Qed.

Lemma RA_nary_perm b l l' : Permutation l l' -> refines (RA_nary b l) (RA_nary b l').
Proof.
  intro HP. apply RA_refines_nary. intro Hw. split; [|split].
  - eapply Permutation_Forall; eassumption.
  - intros x Hx. eapply Permutation_in; [|exact Hx].
    apply Permutation_flat_map. apply Permutation_sym; assumption.
  - intros rho Hd. split.
    + eapply Permutation_Forall; eassumption.
    + apply RA_opR_perm. apply Permutation_map. apply Permutation_sym; assumption.
Qed.

Lemma RA_nary_app b a a' c c' :
  refines (RA_nary b a) (RA_nary b a') -> refines (RA_nary b c) (RA_nary b c') ->
  refines (RA_nary b (a ++ c)) (RA_nary b (a' ++ c')).
Proof.
  intros Ha0 Hc0. pose proof (proj2 (RA_refines_nary _ _ _) Ha0) as Ha.
  pose proof (proj2 (RA_refines_nary _ _ _) Hc0) as Hc.
  apply RA_refines_nary. intro Hw. apply Forall_app in Hw. destruct Hw as [Hwa Hwc].
  destruct (Ha Hwa) as (Hwa' & Hia & Hda). destruct (Hc Hwc) as (Hwc' & Hic & Hdc).
  split; [apply Forall_app; auto|]. split.
  - rewrite !flat_map_app. apply incl_app_app; assumption.
  - intros rho Hd. apply Forall_app in Hd. destruct Hd as [Hd1 Hd2].
    destruct (Hda rho Hd1) as [Hda1 Hda2]. destruct (Hdc rho Hd2) as [Hdc1 Hdc2].
    split; [apply Forall_app; auto|]. rewrite !map_app. apply RA_opR_app; assumption.
Qed.

(** the workhorse: keep a part, rewrite the rest, any order *)
Lemma RA_nary_parts b l l' keep old new :
  Permutation l (keep ++ old) -> Permutation (keep ++ new) l' ->
  refines (RA_nary b old) (RA_nary b new) ->
  refines (RA_nary b l) (RA_nary b l').
Proof.
  intros H1 H2 H. eapply RA_refines_trans; [apply RA_nary_perm; exact H1|].
  eapply RA_refines_trans; [|apply RA_nary_perm; exact H2].
  apply RA_nary_app; [apply RA_refines_refl|assumption].
Qed.

Lemma RA_nary_flat_map {G} b (f : G -> list (expr R)) (h : G -> expr R) gs :
  (forall g, In g gs -> refines (RA_nary b (f g)) (RA_nary b [h g])) ->
  refines (RA_nary b (flat_map f gs)) (RA_nary b (map h gs)).
Proof.
  induction gs as [|g gs IH]; intro H; simpl.
  - apply RA_refines_refl.
  - change (h g :: map h gs) with ([h g] ++ map h gs). apply RA_nary_app.
    + apply H; left; reflexivity.
    + apply IH. intros g' Hg'. apply H. right; assumption.
Qed.

(** ** helpers of Rules.v *)
Lemma RA_filter_perm {A} (f : A -> bool) l :
  Permutation l (filter (fun x => negb (f x)) l ++ filter f l).
Proof.
  induction l as [|a l IH]; simpl; [constructor|].
  destruct (f a); simpl.
  - apply Permutation_cons_app. assumption.
  - constructor. assumption.
Qed.

Lemma RA_filter_perm' {A} (f : A -> bool) l :
  Permutation l (filter f l ++ filter (fun x => negb (f x)) l).
Proof.
  eapply Permutation_trans; [apply RA_filter_perm with (f := f)|apply Permutation_app_comm].
Qed.

Lemma RA_split_first (f : expr R -> bool) l b h a :
  split_first f l = Some (b, h, a) -> l = b ++ h :: a /\ f h = true.
Proof.
  revert b. induction l as [|x l IH]; intros b H; simpl in H; [discriminate|].
  destruct (f x) eqn:E.
  - inversion H; subst. auto.
  - destruct (split_first f l) as [[[b' h'] a']|]; [|discriminate].
    inversion H; subst. destruct (IH _ eq_refl) as [H1 H2]. subst. auto.
Qed.
