(** * RulesSoundA: soundness ([refines]) of every rewrite rule of the classes
    Add, Minus, Negation, Multiply, Divide, Reciprocal, Cosine, Sine  (part A of C08_rules_sound). *)
From Coq Require Import Reals ZArith List Bool String Permutation Lia Lra.
From SM Require Import Num Syntax Outcome MathFun Eval Rules RInst Denote Spec.
Import ListNotations.
Open Scope R_scope.

(** ** Sums and products of lists of reals *)
Definition RA_sumR (l : list R) : R := fold_right Rplus 0 l.
Definition RA_prodR (l : list R) : R := fold_right Rmult 1 l.
Definition RA_opR (b : bool) (l : list R) : R := if b then RA_sumR l else RA_prodR l.

Lemma RA_sumR_app x y : RA_sumR (x ++ y) = RA_sumR x + RA_sumR y.
Proof. induction x as [|a x IH]; simpl; [lra|]. rewrite IH. lra. Qed.
Lemma RA_prodR_app x y : RA_prodR (x ++ y) = RA_prodR x * RA_prodR y.
Proof. induction x as [|a x IH]; simpl; [lra|]. rewrite IH. ring. Qed.

Lemma RA_opR_app b x x' y y' :
  RA_opR b x' = RA_opR b x -> RA_opR b y' = RA_opR b y -> RA_opR b (x' ++ y') = RA_opR b (x ++ y).
Proof.
  destruct b; simpl; intros H1 H2.
  - rewrite !RA_sumR_app. congruence.
  - rewrite !RA_prodR_app. congruence.
Qed.

Lemma RA_opR_perm b x y : Permutation x y -> RA_opR b x = RA_opR b y.
Proof.
  intro H. induction H as [|a x y H IH|a c x|x y z H1 IH1 H2 IH2].
  - reflexivity.
  - destruct b; simpl in *; rewrite IH; reflexivity.
  - destruct b; simpl; ring.
  - congruence.
Qed.

(** ** n-ary nodes, uniformly *)
Definition RA_nary (b : bool) (l : list (expr R)) : expr R := if b then Add l else Mul l.

Lemma RA_wf_nary b l : wfR (RA_nary b l) <-> Forall wfR l.
Proof.
  destruct b; simpl; (induction l as [|a l IH]; simpl; [split; auto|]);
    rewrite IH; split; [intros [H1 H2]; constructor; auto | intro H; inversion H; auto
                       |intros [H1 H2]; constructor; auto | intro H; inversion H; auto].
Qed.

Lemma RA_dom_nary b rho l : InDomain rho (RA_nary b l) <-> Forall (InDomain rho) l.
Proof.
  destruct b; simpl; (induction l as [|a l IH]; simpl; [split; auto|]);
    rewrite IH; split; [intros [H1 H2]; constructor; auto | intro H; inversion H; auto
                       |intros [H1 H2]; constructor; auto | intro H; inversion H; auto].
Qed.

Lemma RA_vars_nary b l : vars (RA_nary b l) = flat_map vars l.
Proof. destruct b; reflexivity. Qed.

Lemma RA_den_nary b rho l : denote rho (RA_nary b l) = RA_opR b (map (denote rho) l).
Proof. destruct b; simpl; induction l as [|a l IH]; simpl; congruence. Qed.

Lemma RA_wf_Add l : wfR (Add l) <-> Forall wfR l.
Proof. exact (RA_wf_nary true l). Qed.
Lemma RA_wf_Mul l : wfR (Mul l) <-> Forall wfR l.
Proof. exact (RA_wf_nary false l). Qed.
Lemma RA_dom_Add rho l : InDomain rho (Add l) <-> Forall (InDomain rho) l.
Proof. exact (RA_dom_nary true rho l). Qed.
Lemma RA_dom_Mul rho l : InDomain rho (Mul l) <-> Forall (InDomain rho) l.
Proof. exact (RA_dom_nary false rho l). Qed.
Lemma RA_den_Add rho l : denote rho (Add l) = RA_sumR (map (denote rho) l).
Proof. exact (RA_den_nary true rho l). Qed.
Lemma RA_den_Mul rho l : denote rho (Mul l) = RA_prodR (map (denote rho) l).
Proof. exact (RA_den_nary false rho l). Qed.

(** ** [refines]: generic facts *)
Lemma RA_refines_refl e : refines e e.
Proof. intro H. split; [assumption|]. split; [apply incl_refl|]. intros rho Hd; auto. Qed.

Lemma RA_refines_trans e1 e2 e3 : refines e1 e2 -> refines e2 e3 -> refines e1 e3.
Proof.
  intros H12 H23 Hw. destruct (H12 Hw) as (Hw2 & Hi2 & Hd2).
  destruct (H23 Hw2) as (Hw3 & Hi3 & Hd3).
  split; [assumption|]. split; [eapply incl_tran; eassumption|].
  intros rho Hd. destruct (Hd2 rho Hd) as [Hd' He]. destruct (Hd3 rho Hd') as [Hd'' He'].
  split; [assumption|congruence].
Qed.

Lemma RA_refines_nary b l l' :
  (Forall wfR l ->
   Forall wfR l' /\ incl (flat_map vars l') (flat_map vars l) /\
   forall rho, Forall (InDomain rho) l ->
     Forall (InDomain rho) l' /\
     RA_opR b (map (denote rho) l') = RA_opR b (map (denote rho) l))
  <-> refines (RA_nary b l) (RA_nary b l').
Proof.
  unfold refines. rewrite !RA_wf_nary, !RA_vars_nary.
  split; intros H Hw; destruct (H Hw) as (Hw' & Hi & Hd); (split; [assumption|]);
    (split; [assumption|]); intros rho Hdom.
  - rewrite RA_dom_nary in Hdom. destruct (Hd rho Hdom) as [H1 H2].
    rewrite RA_dom_nary, !RA_den_nary. auto.
  - rewrite <- RA_dom_nary with (b := b) in Hdom. destruct (Hd rho Hdom) as [H1 H2].
    rewrite RA_dom_nary, !RA_den_nary in *. auto.
Qed.

Lemma RA_nary_perm b l l' : Permutation l l' -> refines (RA_nary b l) (RA_nary b l').
Proof.
  intro HP. apply RA_refines_nary. intro Hw. split; [|split].
  - eapply Permutation_Forall; eassumption.
  - intros x Hx. eapply Permutation_in; [|exact Hx].
    apply Permutation_flat_map. apply Permutation_sym; assumption.
  - intros rho Hd. split.
    + eapply Permutation_Forall; eassumption.
    + apply RA_opR_perm. apply Permutation_map. apply Permutation_sym; assumption.
Qed.

Lemma RA_nary_app b a a' c c' :
  refines (RA_nary b a) (RA_nary b a') -> refines (RA_nary b c) (RA_nary b c') ->
  refines (RA_nary b (a ++ c)) (RA_nary b (a' ++ c')).
Proof.
  intros Ha0 Hc0. pose proof (proj2 (RA_refines_nary _ _ _) Ha0) as Ha.
  pose proof (proj2 (RA_refines_nary _ _ _) Hc0) as Hc.
  apply RA_refines_nary. intro Hw. apply Forall_app in Hw. destruct Hw as [Hwa Hwc].
  destruct (Ha Hwa) as (Hwa' & Hia & Hda). destruct (Hc Hwc) as (Hwc' & Hic & Hdc).
  split; [apply Forall_app; auto|]. split.
  - rewrite !flat_map_app. apply incl_app_app; assumption.
  - intros rho Hd. apply Forall_app in Hd. destruct Hd as [Hd1 Hd2].
    destruct (Hda rho Hd1) as [Hda1 Hda2]. destruct (Hdc rho Hd2) as [Hdc1 Hdc2].
    split; [apply Forall_app; auto|]. rewrite !map_app. apply RA_opR_app; assumption.
Qed.

(** the workhorse: keep a part, rewrite the rest, any order *)
Lemma RA_nary_parts b l l' keep old new :
  Permutation l (keep ++ old) -> Permutation (keep ++ new) l' ->
  refines (RA_nary b old) (RA_nary b new) ->
  refines (RA_nary b l) (RA_nary b l').
Proof.
  intros H1 H2 H. eapply RA_refines_trans; [apply RA_nary_perm; exact H1|].
  eapply RA_refines_trans; [|apply RA_nary_perm; exact H2].
  apply RA_nary_app; [apply RA_refines_refl|assumption].
Qed.

Lemma RA_nary_flat_map {G} b (f : G -> list (expr R)) (h : G -> expr R) gs :
  (forall g, In g gs -> refines (RA_nary b (f g)) (RA_nary b [h g])) ->
  refines (RA_nary b (flat_map f gs)) (RA_nary b (map h gs)).
Proof.
  induction gs as [|g gs IH]; intro H; simpl.
  - apply RA_refines_refl.
  - change (h g :: map h gs) with ([h g] ++ map h gs). apply RA_nary_app.
    + apply H; left; reflexivity.
    + apply IH. intros g' Hg'. apply H. right; assumption.
Qed.

(** ** helpers of Rules.v *)
Lemma RA_filter_perm {A} (f : A -> bool) l :
  Permutation l (filter (fun x => negb (f x)) l ++ filter f l).
Proof.
  induction l as [|a l IH]; simpl; [constructor|].
  destruct (f a); simpl.
  - apply Permutation_cons_app. assumption.
  - constructor. assumption.
Qed.

Lemma RA_filter_perm' {A} (f : A -> bool) l :
  Permutation l (filter f l ++ filter (fun x => negb (f x)) l).
Proof.
  eapply Permutation_trans; [apply RA_filter_perm with (f := f)|apply Permutation_app_comm].
Qed.

Lemma RA_split_first (f : expr R -> bool) l b h a :
  split_first f l = Some (b, h, a) -> l = b ++ h :: a /\ f h = true.
Proof.
  revert b. induction l as [|x l IH]; intros b H; simpl in H; [discriminate|].
  destruct (f x) eqn:E.
  - inversion H; subst. auto.
  - destruct (split_first f l) as [[[b' h'] a']|]; [|discriminate].
    inversion H; subst. destruct (IH _ eq_refl) as [H1 H2]. subst. auto.
Qed.

(** ** The simple unary / binary rules *)
Lemma reduce_minus_to_sum_with_negation_sound :
  forall e e' : expr R, reduce_minus_to_sum_with_negation e = Some e' -> refines e e'.
Proof.
  intros e e' H. destruct e; try discriminate. inversion H; subst; clear H.
  intros [Hw1 Hw2]. simpl. split; [tauto|]. split.
  - rewrite app_nil_r. apply incl_refl.
  - intros rho [H1 H2]. split; [tauto|lra].
Qed.

Lemma reduce_negation_of_negation_sound :
  forall e e' : expr R, reduce_negation_of_negation e = Some e' -> refines e e'.
Proof.
  intros e e' H. destruct e; try discriminate. destruct e; try discriminate.
  inversion H; subst; clear H.
  intros Hw. simpl in *. split; [assumption|]. split; [apply incl_refl|].
  intros rho Hd. split; [assumption|lra].
Qed.

Lemma RA_neg_sum_vars (l : list (expr R)) : flat_map vars (map Neg l) = flat_map vars l.
Proof. induction l as [|a l IH]; simpl; congruence. Qed.

Lemma reduce_negation_of_sum_sound :
  forall e e' : expr R, reduce_negation_of_sum e = Some e' -> refines e e'.
Proof.
  intros e e' H. destruct e; try discriminate. destruct e; try discriminate.
  inversion H; subst; clear H.
  intros Hw. change (wfR (Add l)) in Hw. rewrite RA_wf_Add in Hw.
  split; [|split].
  - rewrite RA_wf_Add. induction Hw; simpl; constructor; auto.
  - change (incl (flat_map vars (map Neg l)) (flat_map vars l)).
    rewrite RA_neg_sum_vars. apply incl_refl.
  - intros rho Hd. change (InDomain rho (Add l)) in Hd. rewrite RA_dom_Add in Hd.
    rewrite RA_dom_Add. change (denote rho (Neg (Add l))) with (- denote rho (Add l)).
    rewrite !RA_den_Add. clear Hw. induction Hd as [|a l Ha Hl IH]; simpl.
    + split; [constructor|lra].
    + destruct IH as [IH1 IH2]. split; [constructor; auto|]. rewrite IH2. lra.
Qed.

Lemma reduce_divide_to_multiplying_with_reciprocal_sound :
  forall e e' : expr R, reduce_divide_to_multiplying_with_reciprocal e = Some e' -> refines e e'.
Proof.
  intros e e' H. destruct e; try discriminate. inversion H; subst; clear H.
  intros [Hw1 Hw2]. simpl. split; [tauto|]. split.
  - rewrite app_nil_r. apply incl_refl.
  - intros rho (H1 & H2 & H3). split; [tauto|]. unfold Rdiv. ring.
Qed.

Lemma reduce_reciprocal_of_reciprocal_sound :
  forall e e' : expr R, reduce_reciprocal_of_reciprocal e = Some e' -> refines e e'.
Proof.
  intros e e' H. destruct e; try discriminate. destruct e; try discriminate.
  inversion H; subst; clear H.
  intros Hw. simpl in *. split; [assumption|]. split; [apply incl_refl|].
  intros rho [[Hd Hn] Hn']. split; [assumption|]. symmetry. apply Rinv_inv.
Qed.

Lemma reduce_reciprocal_of_negation_sound :
  forall e e' : expr R, reduce_reciprocal_of_negation e = Some e' -> refines e e'.
Proof.
  intros e e' H. destruct e; try discriminate. destruct e; try discriminate.
  inversion H; subst; clear H.
  intros Hw. simpl in *. split; [assumption|]. split; [apply incl_refl|].
  intros rho [Hd Hn]. assert (Hn' : denote rho e <> 0) by (intro Hz; apply Hn; rewrite Hz; lra).
  split; [auto|]. field. assumption.
Qed.

Lemma RA_recip_prod_vars (l : list (expr R)) : flat_map vars (map Recip l) = flat_map vars l.
Proof. induction l as [|a l IH]; simpl; congruence. Qed.

Lemma reduce_reciprocal_of_product_sound :
  forall e e' : expr R, reduce_reciprocal_of_product e = Some e' -> refines e e'.
Proof.
  intros e e' H. destruct e; try discriminate. destruct e; try discriminate.
  inversion H; subst; clear H.
  intros Hw. change (wfR (Mul l)) in Hw. rewrite RA_wf_Mul in Hw.
  split; [|split].
  - rewrite RA_wf_Mul. induction Hw; simpl; constructor; auto.
  - change (incl (flat_map vars (map Recip l)) (flat_map vars l)).
    rewrite RA_recip_prod_vars. apply incl_refl.
  - intros rho Hd. change (InDomain rho (Mul l) /\ denote rho (Mul l) <> 0) in Hd.
    destruct Hd as [Hd Hn]. rewrite RA_dom_Mul in Hd.
    rewrite RA_dom_Mul. change (denote rho (Recip (Mul l))) with (/ denote rho (Mul l)).
    rewrite RA_den_Mul in Hn. rewrite !RA_den_Mul. clear Hw.
    induction Hd as [|a l Ha Hl IH]; simpl in *.
    + split; [constructor|]. symmetry; apply Rinv_1.
    + assert (Hna : denote rho a <> 0) by (intro Hz; apply Hn; rewrite Hz; ring).
      assert (Hnl : RA_prodR (map (denote rho) l) <> 0) by (intro Hz; apply Hn; rewrite Hz; ring).
      destruct (IH Hnl) as [IH1 IH2]. split; [constructor; [simpl; auto|assumption]|].
      rewrite IH2. symmetry. apply Rinv_mult.
Qed.

Lemma reduce_cosine_of_negation_sound :
  forall e e' : expr R, reduce_cosine_of_negation e = Some e' -> refines e e'.
Proof.
  intros e e' H. destruct e; try discriminate. destruct e; try discriminate.
  inversion H; subst; clear H.
  intros Hw. simpl in *. split; [assumption|]. split; [apply incl_refl|].
  intros rho Hd. split; [assumption|]. symmetry. apply cos_neg.
Qed.

Lemma reduce_sine_of_negation_sound :
  forall e e' : expr R, reduce_sine_of_negation e = Some e' -> refines e e'.
Proof.
  intros e e' H. destruct e; try discriminate. destruct e; try discriminate.
  inversion H; subst; clear H.
  intros Hw. simpl in *. split; [assumption|]. split; [apply incl_refl|].
  intros rho Hd. split; [assumption|]. symmetry. apply sin_neg.
Qed.

(** ** Flattening *)
Lemma RA_nary_unnest b l : refines (RA_nary b [RA_nary b l]) (RA_nary b l).
Proof.
  intro Hw. apply RA_wf_nary in Hw. inversion Hw as [|x y Hx Hy]; subst. clear Hw Hy.
  split; [assumption|]. split.
  - rewrite !RA_vars_nary. simpl. rewrite RA_vars_nary, app_nil_r. apply incl_refl.
  - intros rho Hd. apply RA_dom_nary in Hd. inversion Hd as [|x y Hx' Hy']; subst.
    split; [assumption|]. rewrite !RA_den_nary. simpl. rewrite RA_den_nary.
    destruct b; simpl; ring.
Qed.

Lemma RA_nary_flatten b before nested after :
  refines (RA_nary b (before ++ RA_nary b nested :: after)) (RA_nary b (before ++ nested ++ after)).
Proof.
  apply RA_nary_app; [apply RA_refines_refl|].
  change (RA_nary b nested :: after) with ([RA_nary b nested] ++ after).
  apply RA_nary_app; [|apply RA_refines_refl].
  apply RA_nary_unnest.
Qed.

Lemma reduce_by_flattening_nested_sums_sound :
  forall e e' : expr R, reduce_by_flattening_nested_sums e = Some e' -> refines e e'.
Proof.
  intros e e' H. destruct e; try discriminate. simpl in H.
  destruct (split_first is_Add l) as [[[b h] a]|] eqn:E; [|discriminate].
  apply RA_split_first in E. destruct E as [-> Hh].
  destruct h; try discriminate. inversion H; subst; clear H.
  match goal with |- refines _ (Add (_ ++ ?n ++ _)) => exact (RA_nary_flatten true b n a) end.
Qed.

Lemma reduce_by_flattening_nested_products_sound :
  forall e e' : expr R, reduce_by_flattening_nested_products e = Some e' -> refines e e'.
Proof.
  intros e e' H. destruct e; try discriminate. simpl in H.
  destruct (split_first is_Mul l) as [[[b h] a]|] eqn:E; [|discriminate].
  apply RA_split_first in E. destruct E as [-> Hh].
  destruct h; try discriminate. inversion H; subst; clear H.
  match goal with |- refines _ (Mul (_ ++ ?n ++ _)) => exact (RA_nary_flatten false b n a) end.
Qed.

(** ** Eliminating neutral constants, multiplying by zero, consolidating constants *)
Lemma RA_is_const_eq c e : is_const_eq RInst c e = true -> e = Const c.
Proof.
  destruct e; simpl; try discriminate. intro H. apply Reqb_true in H. congruence.
Qed.

Lemma RA_nary_drop_units (b : bool) (c : R) l :
  c = (if b then 0 else 1) ->
  refines (RA_nary b (filter (is_const_eq RInst c) l)) (RA_nary b []).
Proof.
  intro Hc. apply RA_refines_nary. intros _. split; [constructor|].
  split; [apply incl_nil_l|]. intros rho _. split; [constructor|].
  induction l as [|a l IH]; [reflexivity|]. simpl filter.
  destruct (is_const_eq RInst c a) eqn:E; [|assumption].
  apply RA_is_const_eq in E. subst a. destruct b; simpl in *; rewrite <- IH; subst c; lra.
Qed.

Lemma reduce_sum_by_eliminating_zeros_sound :
  forall e e' : expr R, reduce_sum_by_eliminating_zeros RInst e = Some e' -> refines e e'.
Proof.
  intros e e' H. destruct e; try discriminate. unfold reduce_sum_by_eliminating_zeros in H.
  match type of H with (if ?c then _ else _) = _ => destruct c end; [discriminate|].
  inversion H; subst; clear H.
  apply (RA_nary_parts true l _ (filter (fun x => negb (is_const_eq RInst 0 x)) l)
           (filter (is_const_eq RInst 0) l) []).
  - apply RA_filter_perm.
  - rewrite app_nil_r. apply Permutation_refl.
  - apply RA_nary_drop_units. reflexivity.
Qed.

Lemma reduce_product_by_eliminating_ones_sound :
  forall e e' : expr R, reduce_product_by_eliminating_ones RInst e = Some e' -> refines e e'.
Proof.
  intros e e' H. destruct e; try discriminate. unfold reduce_product_by_eliminating_ones in H.
  match type of H with (if ?c then _ else _) = _ => destruct c end; [discriminate|].
  inversion H; subst; clear H.
  apply (RA_nary_parts false l _ (filter (fun x => negb (is_const_eq RInst 1 x)) l)
           (filter (is_const_eq RInst 1) l) []).
  - apply RA_filter_perm.
  - rewrite app_nil_r. apply Permutation_refl.
  - apply RA_nary_drop_units. reflexivity.
Qed.

Lemma RA_prod_zero l : In 0 l -> RA_prodR l = 0.
Proof.
  induction l as [|a l IH]; simpl; [tauto|]. intros [H|H].
  - subst. ring.
  - rewrite IH by assumption. ring.
Qed.

Lemma reduce_product_when_multiplying_by_zero_sound :
  forall e e' : expr R, reduce_product_when_multiplying_by_zero RInst e = Some e' -> refines e e'.
Proof.
  intros e e' H. destruct e; try discriminate.
  unfold reduce_product_when_multiplying_by_zero in H.
  destruct (existsb (is_const_eq RInst (n0 RInst)) l) eqn:E; [|discriminate].
  inversion H; subst; clear H.
  apply existsb_exists in E. destruct E as [x [Hin Hx]]. apply RA_is_const_eq in Hx. subst x.
  intros Hw. split; [exact I|]. split; [apply incl_nil_l|].
  intros rho Hd. split; [exact I|]. rewrite RA_den_Mul. symmetry.
  apply RA_prod_zero. exact (in_map (denote rho) _ _ Hin).
Qed.

Lemma RA_const_values rho b l :
  RA_opR b (map (denote rho) (filter is_Const l)) = RA_opR b (const_values (filter is_Const l)).
Proof.
  unfold const_values. induction l as [|a l IH]; [reflexivity|].
  destruct a; simpl; auto. destruct b; simpl in *; rewrite IH; reflexivity.
Qed.

Lemma RA_mul_loop p vs : mul_loop RInst p vs = p * RA_prodR vs.
Proof.
  revert p. induction vs as [|a r IH]; intro p; simpl; [ring|].
  destruct (Reqb a 0) eqn:E.
  - apply Reqb_true in E. subst a. ring.
  - rewrite IH. ring.
Qed.

Lemma RA_mf_multiply vs : mf_multiply RInst vs = RA_prodR vs.
Proof. unfold mf_multiply. rewrite RA_mul_loop. simpl. ring. Qed.

Lemma RA_mf_add vs : mf_add RInst vs = RA_sumR vs.
Proof. reflexivity. Qed.

Lemma RA_nary_consts b l :
  refines (RA_nary b (filter is_Const l))
          (RA_nary b [Const (RA_opR b (const_values (filter is_Const l)))]).
Proof.
  apply RA_refines_nary. intros _. split; [constructor; [exact I|constructor]|].
  split; [apply incl_nil_l|]. intros rho _. split; [constructor; [exact I|constructor]|].
  rewrite RA_const_values. destruct b; simpl; ring.
Qed.

Lemma reduce_sum_by_consolidating_constants_sound :
  forall e e' : expr R, reduce_sum_by_consolidating_constants RInst e = Some e' -> refines e e'.
Proof.
  intros e e' H. destruct e; try discriminate.
  unfold reduce_sum_by_consolidating_constants, partition_by in H.
  match type of H with (if ?c then _ else _) = _ => destruct c end; [discriminate|].
  inversion H; subst; clear H.
  apply (RA_nary_parts true l _ (filter (fun x => negb (is_Const x)) l) (filter is_Const l)
           [Const (RA_sumR (const_values (filter is_Const l)))]).
  - apply RA_filter_perm.
  - apply Permutation_refl.
  - exact (RA_nary_consts true l).
Qed.

Lemma reduce_product_by_consolidating_constants_sound :
  forall e e' : expr R, reduce_product_by_consolidating_constants RInst e = Some e' -> refines e e'.
Proof.
  intros e e' H. destruct e; try discriminate.
  unfold reduce_product_by_consolidating_constants, partition_by in H.
  match type of H with (if ?c then _ else _) = _ => destruct c end; [discriminate|].
  rewrite RA_mf_multiply in H. inversion H; subst; clear H.
  apply (RA_nary_parts false l _ (filter (fun x => negb (is_Const x)) l) (filter is_Const l)
           [Const (RA_prodR (const_values (filter is_Const l)))]).
  - apply RA_filter_perm.
  - apply Permutation_refl.
  - exact (RA_nary_consts false l).
Qed.

(** ** Eliminating negations in a product *)
Lemma RA_filter_Neg (l : list (expr R)) :
  filter is_Neg l = map Neg (map inner_of (filter is_Neg l)).
Proof.
  induction l as [|a l IH]; [reflexivity|]. destruct a; simpl; auto. congruence.
Qed.

Lemma RA_pow_m1 n : (-1) ^ n = if Nat.even n then 1 else -1.
Proof.
  induction n as [|n IH]; [reflexivity|].
  rewrite Nat.even_succ, <- Nat.negb_even. simpl pow. rewrite IH.
  destruct (Nat.even n); simpl; lra.
Qed.

Lemma RA_prod_negs rho (us : list (expr R)) :
  RA_prodR (map (denote rho) (map Neg us)) =
  (-1) ^ (List.length us) * RA_prodR (map (denote rho) us).
Proof.
  induction us as [|a us IH]; simpl; [ring|]. simpl in IH. rewrite IH. ring.
Qed.

Lemma RA_nary_negs (us : list (expr R)) :
  refines (RA_nary false (map Neg us))
          (RA_nary false (us ++ (if Nat.even (List.length us) then [] else [Const (-1)]))).
Proof.
  apply RA_refines_nary. intro Hw. apply (proj1 (Forall_map _ _ _)) in Hw.
  split; [|split].
  - apply Forall_app. split; [exact Hw|]. destruct (Nat.even _); repeat constructor.
  - rewrite flat_map_app, RA_neg_sum_vars.
    destruct (Nat.even _); simpl; rewrite app_nil_r; apply incl_refl.
  - intros rho Hd. apply (proj1 (Forall_map _ _ _)) in Hd. split.
    + apply Forall_app. split; [exact Hd|]. destruct (Nat.even _); repeat constructor.
    + unfold RA_opR. rewrite map_app, RA_prodR_app, RA_prod_negs, RA_pow_m1.
      destruct (Nat.even _); simpl; ring.
Qed.

Lemma reduce_product_by_eliminating_negations_sound :
  forall e e' : expr R, reduce_product_by_eliminating_negations RInst e = Some e' -> refines e e'.
Proof.
  intros e e' H. destruct e; try discriminate.
  unfold reduce_product_by_eliminating_negations, partition_by in H.
  assert (H' : Some (Mul (filter (fun x => negb (is_Neg x)) l ++ map inner_of (filter is_Neg l) ++
                  (if Nat.even (List.length (map inner_of (filter is_Neg l)))
                   then [] else [Const (-1)]))) = Some e').
  { rewrite map_length. remember (filter is_Neg l) as negs eqn:En.
    destruct negs as [|ng negs']; [discriminate|].
    destruct (Nat.even (List.length (ng :: negs'))); [rewrite app_nil_r|]; exact H. }
  clear H. inversion H'; subst; clear H'.
  apply (RA_nary_parts false l _ (filter (fun x => negb (is_Neg x)) l) (filter is_Neg l)
           (map inner_of (filter is_Neg l) ++
            (if Nat.even (List.length (map inner_of (filter is_Neg l))) then [] else [Const (-1)]))).
  - apply RA_filter_perm.
  - apply Permutation_refl.
  - rewrite RA_filter_Neg at 1. apply RA_nary_negs.
Qed.

(** ** [group_by_key] *)
Section RA_Group.
  Context {K V : Type} (keqb : K -> K -> bool) (key : V -> K).
  Hypothesis keqb_refl : forall k, keqb k k = true.

  Definition RA_ginv (g : list (K * list V)) : Prop :=
    Forall (fun kv => snd kv <> [] /\ Forall (fun v => keqb (key v) (fst kv) = true) (snd kv)) g.

  Lemma RA_group_insert_perm (k : K) (v : V) g :
    Permutation (flat_map snd (group_insert keqb k v g)) (flat_map snd g ++ [v]).
  Proof.
    induction g as [|[k' vs] g IH]; simpl.
    - apply Permutation_refl.
    - destruct (keqb k k'); simpl.
      + rewrite <- !app_assoc. apply Permutation_app_head. apply Permutation_app_comm.
      + rewrite <- app_assoc. apply Permutation_app_head. exact IH.
  Qed.

  Lemma RA_group_insert_inv v g : RA_ginv g -> RA_ginv (group_insert keqb (key v) v g).
  Proof.
    induction g as [|[k' vs] g IH]; intro H; simpl.
    - constructor; [|constructor]. simpl. split; [discriminate|].
      constructor; [apply keqb_refl|constructor].
    - inversion H as [|x y [Hne Hall] Hy]; subst. simpl in Hne, Hall.
      destruct (keqb (key v) k') eqn:E.
      + constructor; [|assumption]. simpl. split.
        * intro Hc. apply app_eq_nil in Hc. destruct Hc; discriminate.
        * apply Forall_app; split; [assumption|]. constructor; [assumption|constructor].
      + constructor; [split; assumption|]. apply IH; assumption.
  Qed.

  Lemma RA_group_fold l : forall g, RA_ginv g ->
    RA_ginv (fold_left (fun g v => group_insert keqb (key v) v g) l g) /\
    Permutation (flat_map snd (fold_left (fun g v => group_insert keqb (key v) v g) l g))
                (flat_map snd g ++ l).
  Proof.
    induction l as [|v l IH]; intros g Hg; simpl.
    - split; [assumption|]. rewrite app_nil_r. apply Permutation_refl.
    - destruct (IH _ (RA_group_insert_inv v g Hg)) as [H1 H2]. split; [assumption|].
      eapply Permutation_trans; [exact H2|].
      change (v :: l) with ([v] ++ l). rewrite app_assoc.
      apply Permutation_app_tail. apply RA_group_insert_perm.
  Qed.

  Lemma RA_group_by_key l :
    RA_ginv (group_by_key keqb key l) /\ Permutation (flat_map snd (group_by_key keqb key l)) l.
  Proof.
    unfold group_by_key. destruct (RA_group_fold l [] (Forall_nil _)) as [H1 H2]. auto.
  Qed.
End RA_Group.

(** the shape common to the four consolidation rules *)
Lemma RA_consolidate {K} b (isX : expr R -> bool) (keqb : K -> K -> bool) (keyf : expr R -> K)
      (mk : list (expr R) -> K -> expr R) l :
  (forall k, keqb k k = true) ->
  (forall k vs, vs <> [] -> Forall (fun v => isX v = true /\ keqb (keyf v) k = true) vs ->
                refines (RA_nary b vs) (RA_nary b [mk (map inner_of vs) k])) ->
  refines (RA_nary b l)
          (RA_nary b (filter (fun x => negb (isX x)) l ++
                      map (fun kv => mk (map inner_of (snd kv)) (fst kv))
                          (group_by_key keqb keyf (filter isX l)))).
Proof.
  intros Hrefl Hgrp.
  destruct (RA_group_by_key keqb keyf Hrefl (filter isX l)) as [Hinv Hperm].
  eapply RA_nary_parts; [apply RA_filter_perm with (f := isX)|apply Permutation_refl|].
  eapply RA_refines_trans; [apply RA_nary_perm; apply Permutation_sym; exact Hperm|].
  apply (RA_nary_flat_map b snd (fun kv => mk (map inner_of (snd kv)) (fst kv))).
  intros g Hg. unfold RA_ginv in Hinv. rewrite Forall_forall in Hinv.
  destruct (Hinv g Hg) as [Hne Hall]. apply Hgrp; [assumption|].
  rewrite Forall_forall in *. intros v Hv. split; [|apply Hall; assumption].
  assert (Hin : In v (filter isX l)).
  { eapply Permutation_in; [exact Hperm|]. apply in_flat_map. exists g; auto. }
  apply filter_In in Hin. tauto.
Qed.

Lemma RA_flat_map_vars_map (f : expr R -> expr R) us :
  (forall u, vars (f u) = vars u) -> flat_map vars (map f us) = flat_map vars us.
Proof. intro H. induction us as [|a us IH]; simpl; [reflexivity|]. rewrite H, IH. reflexivity. Qed.

(** ** Consolidating n-th powers *)
Lemma RA_group_shape_NthPow k (vs : list (expr R)) :
  Forall (fun v => is_NthPow v = true /\ Pos.eqb (pos_of_nth v) k = true) vs ->
  vs = map (fun u => NthPow u k) (map inner_of vs).
Proof.
  induction 1 as [|v vs [H1 H2] _ IH]; [reflexivity|]. simpl. rewrite <- IH.
  destruct v; try discriminate. simpl in *. apply Pos.eqb_eq in H2. subst. reflexivity.
Qed.

Lemma RA_prod_pows rho n (us : list (expr R)) :
  RA_prodR (map (denote rho) (map (fun u => NthPow u n) us)) =
  RA_prodR (map (denote rho) us) ^ Pos.to_nat n.
Proof.
  induction us as [|a us IH]; cbn [map RA_prodR fold_right denote].
  - symmetry. apply pow1.
  - rewrite Rpow_mult_distr. unfold RA_prodR in IH. rewrite IH. reflexivity.
Qed.

Lemma RA_nary_nthpows n (us : list (expr R)) :
  refines (RA_nary false (map (fun u => NthPow u n) us)) (RA_nary false [NthPow (Mul us) n]).
Proof.
  apply RA_refines_nary. intro Hw. apply (proj1 (Forall_map _ _ _)) in Hw.
  split; [|split].
  - constructor; [|constructor]. change (wfR (Mul us)). apply RA_wf_Mul. exact Hw.
  - simpl. rewrite app_nil_r. rewrite RA_flat_map_vars_map by reflexivity. apply incl_refl.
  - intros rho Hd. apply (proj1 (Forall_map _ _ _)) in Hd. split.
    + constructor; [|constructor]. change (InDomain rho (Mul us)). apply RA_dom_Mul. exact Hd.
    + unfold RA_opR. rewrite RA_prod_pows. cbn [map RA_prodR fold_right].
      change (denote rho (NthPow (Mul us) n)) with (denote rho (Mul us) ^ Pos.to_nat n).
      rewrite RA_den_Mul. ring.
Qed.

Lemma reduce_product_by_consolidating_nth_powers_sound :
  forall e e' : expr R, reduce_product_by_consolidating_nth_powers e = Some e' -> refines e e'.
Proof.
  intros e e' H. destruct e; try discriminate.
  unfold reduce_product_by_consolidating_nth_powers, partition_by in H.
  match type of H with (if ?c then _ else _) = _ => destruct c end; [discriminate|].
  match type of H with (if ?c then _ else _) = _ => destruct c end; [discriminate|].
  inversion H; subst; clear H.
  apply (RA_consolidate false is_NthPow Pos.eqb pos_of_nth (fun us k => NthPow (Mul us) k) l).
  - apply Pos.eqb_refl.
  - intros k vs _ Hvs. rewrite (RA_group_shape_NthPow k vs Hvs) at 1. apply RA_nary_nthpows.
Qed.

(** ** Consolidating exponentials *)
Lemma RA_group_shape_Exp k (vs : list (expr R)) :
  Forall (fun v => is_Exp v = true /\ Reqb (base_of RInst v) k = true) vs ->
  vs = map (fun u => Exp u k) (map inner_of vs).
Proof.
  induction 1 as [|v vs [H1 H2] _ IH]; [reflexivity|]. simpl. rewrite <- IH.
  destruct v; try discriminate. simpl in *. apply Reqb_true in H2. subst. reflexivity.
Qed.

Lemma RA_prod_exps rho k (us : list (expr R)) :
  RA_prodR (map (denote rho) (map (fun u => Exp u k) us)) =
  Rpower k (RA_sumR (map (denote rho) us)).
Proof.
  induction us as [|a us IH]; cbn [map RA_prodR RA_sumR fold_right denote].
  - unfold Rpower. rewrite Rmult_0_l. symmetry. apply exp_0.
  - rewrite Rpower_plus. unfold RA_prodR, RA_sumR in IH. rewrite IH. reflexivity.
Qed.

Lemma RA_nary_exps k (us : list (expr R)) :
  us <> [] ->
  refines (RA_nary false (map (fun u => Exp u k) us)) (RA_nary false [Exp (Add us) k]).
Proof.
  intro Hne. apply RA_refines_nary. intro Hw. apply (proj1 (Forall_map _ _ _)) in Hw.
  assert (Hk : nltb RInst (n0 RInst) k = true).
  { destruct us as [|u0 us']; [contradiction|]. inversion Hw as [|x y [Hk _] _]. exact Hk. }
  split; [|split].
  - constructor; [|constructor]. change (nltb RInst (n0 RInst) k = true /\ wfR (Add us)).
    split; [exact Hk|]. apply RA_wf_Add. eapply Forall_impl; [|exact Hw].
    intros a [_ Ha]. exact Ha.
  - simpl. rewrite app_nil_r. rewrite RA_flat_map_vars_map by reflexivity. apply incl_refl.
  - intros rho Hd. apply (proj1 (Forall_map _ _ _)) in Hd. split.
    + constructor; [|constructor]. change (InDomain rho (Add us)). apply RA_dom_Add. exact Hd.
    + unfold RA_opR. rewrite RA_prod_exps. cbn [map RA_prodR fold_right].
      change (denote rho (Exp (Add us) k)) with (Rpower k (denote rho (Add us))).
      rewrite RA_den_Add. ring.
Qed.

Lemma reduce_product_by_consolidating_exponentials_sound :
  forall e e' : expr R,
    reduce_product_by_consolidating_exponentials RInst e = Some e' -> refines e e'.
Proof.
  intros e e' H. destruct e; try discriminate.
  unfold reduce_product_by_consolidating_exponentials, partition_by in H.
  match type of H with (if ?c then _ else _) = _ => destruct c end; [discriminate|].
  match type of H with (if ?c then _ else _) = _ => destruct c end; [discriminate|].
  inversion H; subst; clear H.
  apply (RA_consolidate false is_Exp Reqb (base_of RInst) (fun us k => Exp (Add us) k) l).
  - intro k. apply Reqb_true. reflexivity.
  - intros k vs Hne Hvs. rewrite (RA_group_shape_Exp k vs Hvs) at 1. apply RA_nary_exps.
    intro Hc. apply map_eq_nil in Hc. contradiction.
Qed.

(** ** Consolidating logarithms *)
Lemma RA_group_shape_Log k (vs : list (expr R)) :
  Forall (fun v => is_Log v = true /\ Reqb (base_of RInst v) k = true) vs ->
  vs = map (fun u => Log u k) (map inner_of vs).
Proof.
  induction 1 as [|v vs [H1 H2] _ IH]; [reflexivity|]. simpl. rewrite <- IH.
  destruct v; try discriminate. simpl in *. apply Reqb_true in H2. subst. reflexivity.
Qed.

Lemma RA_sum_logs rho k (us : list (expr R)) :
  Forall (fun u => InDomain rho u /\ 0 < denote rho u) us ->
  0 < RA_prodR (map (denote rho) us) /\
  RA_sumR (map (denote rho) (map (fun u => Log u k) us)) =
  ln (RA_prodR (map (denote rho) us)) / ln k.
Proof.
  induction 1 as [|a us [Hd Hp] _ [IH1 IH2]]; cbn [map RA_prodR RA_sumR fold_right denote].
  - split; [lra|]. rewrite ln_1. unfold Rdiv. ring.
  - unfold RA_prodR, RA_sumR in *. split; [apply Rmult_lt_0_compat; assumption|].
    rewrite IH2, ln_mult by assumption. unfold Rdiv. ring.
Qed.

Lemma RA_nary_logs k (us : list (expr R)) :
  us <> [] ->
  refines (RA_nary true (map (fun u => Log u k) us)) (RA_nary true [Log (Mul us) k]).
Proof.
  intro Hne. apply RA_refines_nary. intro Hw. apply (proj1 (Forall_map _ _ _)) in Hw.
  assert (Hk : nltb RInst (n0 RInst) k = true /\ neqb RInst k (n1 RInst) = false).
  { destruct us as [|u0 us']; [contradiction|]. inversion Hw as [|x y (Hk1 & Hk2 & _) _]. auto. }
  split; [|split].
  - constructor; [|constructor].
    change (nltb RInst (n0 RInst) k = true /\ neqb RInst k (n1 RInst) = false /\ wfR (Mul us)).
    split; [tauto|]. split; [tauto|]. apply RA_wf_Mul. eapply Forall_impl; [|exact Hw].
    intros a (_ & _ & Ha). exact Ha.
  - simpl. rewrite app_nil_r. rewrite RA_flat_map_vars_map by reflexivity. apply incl_refl.
  - intros rho Hd. apply (proj1 (Forall_map _ _ _)) in Hd.
    destruct (RA_sum_logs rho k us Hd) as [Hpos Hsum]. split.
    + constructor; [|constructor].
      change (InDomain rho (Mul us) /\ 0 < denote rho (Mul us)). rewrite RA_den_Mul.
      split; [|exact Hpos]. apply RA_dom_Mul. eapply Forall_impl; [|exact Hd].
      intros a [Ha _]. exact Ha.
    + unfold RA_opR. rewrite Hsum. cbn [map RA_sumR fold_right].
      change (denote rho (Log (Mul us) k)) with (ln (denote rho (Mul us)) / ln k).
      rewrite RA_den_Mul. ring.
Qed.

Lemma reduce_sum_by_consolidating_logarithms_sound :
  forall e e' : expr R,
    reduce_sum_by_consolidating_logarithms RInst e = Some e' -> refines e e'.
Proof.
  intros e e' H. destruct e; try discriminate.
  unfold reduce_sum_by_consolidating_logarithms, partition_by in H.
  match type of H with (if ?c then _ else _) = _ => destruct c end; [discriminate|].
  match type of H with (if ?c then _ else _) = _ => destruct c end; [discriminate|].
  inversion H; subst; clear H.
  apply (RA_consolidate true is_Log Reqb (base_of RInst) (fun us k => Log (Mul us) k) l).
  - intro k. apply Reqb_true. reflexivity.
  - intros k vs Hne Hvs. rewrite (RA_group_shape_Log k vs Hvs) at 1. apply RA_nary_logs.
    intro Hc. apply map_eq_nil in Hc. contradiction.
Qed.

(** ** Consolidating n-th roots *)
Lemma RA_root_0 n : root n 0 = 0.
Proof. unfold root. destruct (Rlt_dec 0 0); [lra|]. destruct (Rlt_dec 0 0); [lra|reflexivity]. Qed.

Lemma RA_root_pos n x : 0 < x -> root n x = Rpower x (/ IZR (Zpos n)).
Proof. intro H. unfold root. destruct (Rlt_dec 0 x); [reflexivity|contradiction]. Qed.

Lemma RA_root_neg n x : x < 0 -> root n x = - Rpower (- x) (/ IZR (Zpos n)).
Proof.
  intro H. unfold root. destruct (Rlt_dec 0 x); [lra|].
  destruct (Rlt_dec x 0); [reflexivity|contradiction].
Qed.

Lemma RA_root_mult n x y : root n (x * y) = root n x * root n y.
Proof.
  destruct (Rtotal_order x 0) as [Hx|[Hx|Hx]]; destruct (Rtotal_order y 0) as [Hy|[Hy|Hy]];
    try (subst; rewrite ?Rmult_0_l, ?Rmult_0_r, RA_root_0; ring).
  - assert (Hxy : 0 < x * y) by nra.
    rewrite (RA_root_pos n _ Hxy), (RA_root_neg n _ Hx), (RA_root_neg n _ Hy).
    replace (x * y) with ((- x) * (- y)) by ring.
    rewrite <- Rpower_mult_distr by lra. ring.
  - assert (Hxy : x * y < 0) by nra.
    rewrite (RA_root_neg n _ Hxy), (RA_root_neg n _ Hx), (RA_root_pos n _ Hy).
    replace (- (x * y)) with ((- x) * y) by ring.
    rewrite <- Rpower_mult_distr by lra. ring.
  - assert (Hxy : x * y < 0) by nra.
    rewrite (RA_root_neg n _ Hxy), (RA_root_pos n _ Hx), (RA_root_neg n _ Hy).
    replace (- (x * y)) with (x * (- y)) by ring.
    rewrite <- Rpower_mult_distr by lra. ring.
  - assert (Hxy : 0 < x * y) by nra.
    rewrite (RA_root_pos n _ Hxy), (RA_root_pos n _ Hx), (RA_root_pos n _ Hy).
    rewrite <- Rpower_mult_distr by lra. reflexivity.
Qed.

Lemma RA_root_one n : root n 1 = 1.
Proof.
  rewrite RA_root_pos by lra. unfold Rpower. rewrite ln_1, Rmult_0_r. apply exp_0.
Qed.

Lemma RA_root_1 x : root 1 x = x.
Proof.
  destruct (Rtotal_order x 0) as [Hx|[Hx|Hx]].
  - rewrite RA_root_neg by assumption. rewrite Rinv_1, Rpower_1 by lra. ring.
  - subst. apply RA_root_0.
  - rewrite RA_root_pos by lra. rewrite Rinv_1. apply Rpower_1. lra.
Qed.

Lemma RA_root_pos_pos n x : 0 < x -> 0 < root n x.
Proof. intro H. rewrite RA_root_pos by assumption. unfold Rpower. apply exp_pos. Qed.

Lemma RA_root_neq_0 n x : x <> 0 -> root n x <> 0.
Proof.
  intro H. destruct (Rtotal_order x 0) as [Hx|[Hx|Hx]]; [|contradiction|].
  - rewrite RA_root_neg by assumption.
    assert (0 < Rpower (- x) (/ IZR (Z.pos n))) by (unfold Rpower; apply exp_pos). lra.
  - pose proof (RA_root_pos_pos n x Hx). lra.
Qed.

Definition RA_rootdom (n : positive) (x : R) : Prop :=
  n = 1%positive \/ (x <> 0 /\ (Z.even (Zpos n) = true -> 0 < x)).

Lemma RA_rootdom_mult n x y : RA_rootdom n x -> RA_rootdom n y -> RA_rootdom n (x * y).
Proof.
  intros [H1|[H1 H2]] [H3|[H3 H4]]; try (left; assumption). right. split.
  - apply Rmult_integral_contrapositive_currified; assumption.
  - intro He. apply Rmult_lt_0_compat; auto.
Qed.

Lemma RA_group_shape_NthRoot k (vs : list (expr R)) :
  Forall (fun v => is_NthRoot v = true /\ Pos.eqb (pos_of_nth v) k = true) vs ->
  vs = map (fun u => NthRoot u k) (map inner_of vs).
Proof.
  induction 1 as [|v vs [H1 H2] _ IH]; [reflexivity|]. simpl. rewrite <- IH.
  destruct v; try discriminate. simpl in *. apply Pos.eqb_eq in H2. subst. reflexivity.
Qed.

Lemma RA_prod_roots rho n (us : list (expr R)) :
  RA_prodR (map (denote rho) (map (fun u => NthRoot u n) us)) =
  root n (RA_prodR (map (denote rho) us)).
Proof.
  induction us as [|a us IH]; cbn [map RA_prodR fold_right denote].
  - symmetry. apply RA_root_one.
  - rewrite RA_root_mult. unfold RA_prodR in IH. rewrite IH. reflexivity.
Qed.

Lemma RA_rootdom_prod rho n (us : list (expr R)) :
  Forall (fun u => InDomain rho u /\ RA_rootdom n (denote rho u)) us ->
  RA_rootdom n (RA_prodR (map (denote rho) us)).
Proof.
  induction 1 as [|a us [Hd Hr] _ IH]; cbn [map RA_prodR fold_right].
  - right. split; [lra|intros _; lra].
  - apply RA_rootdom_mult; assumption.
Qed.

Lemma RA_nary_nthroots n (us : list (expr R)) :
  refines (RA_nary false (map (fun u => NthRoot u n) us)) (RA_nary false [NthRoot (Mul us) n]).
Proof.
  apply RA_refines_nary. intro Hw. apply (proj1 (Forall_map _ _ _)) in Hw.
  split; [|split].
  - constructor; [|constructor]. change (wfR (Mul us)). apply RA_wf_Mul. exact Hw.
  - simpl. rewrite app_nil_r. rewrite RA_flat_map_vars_map by reflexivity. apply incl_refl.
  - intros rho Hd. apply (proj1 (Forall_map _ _ _)) in Hd.
    change (Forall (fun u => InDomain rho u /\ RA_rootdom n (denote rho u)) us) in Hd. split.
    + constructor; [|constructor].
      change (InDomain rho (Mul us) /\ RA_rootdom n (denote rho (Mul us))).
      rewrite RA_den_Mul. split; [|apply RA_rootdom_prod; exact Hd].
      apply RA_dom_Mul. eapply Forall_impl; [|exact Hd]. intros a [Ha _]. exact Ha.
    + unfold RA_opR. rewrite RA_prod_roots. cbn [map RA_prodR fold_right].
      change (denote rho (NthRoot (Mul us) n)) with (root n (denote rho (Mul us))).
      rewrite RA_den_Mul. ring.
Qed.

Lemma reduce_product_by_consolidating_nth_roots_sound :
  forall e e' : expr R, reduce_product_by_consolidating_nth_roots e = Some e' -> refines e e'.
Proof.
  intros e e' H. destruct e; try discriminate.
  unfold reduce_product_by_consolidating_nth_roots, partition_by in H.
  match type of H with (if ?c then _ else _) = _ => destruct c end; [discriminate|].
  match type of H with (if ?c then _ else _) = _ => destruct c end; [discriminate|].
  inversion H; subst; clear H.
  apply (RA_consolidate false is_NthRoot Pos.eqb pos_of_nth (fun us k => NthRoot (Mul us) k) l).
  - apply Pos.eqb_refl.
  - intros k vs _ Hvs. rewrite (RA_group_shape_NthRoot k vs Hvs) at 1. apply RA_nary_nthroots.
Qed.

(** ** Summary: every rule of the classes Add, Minus, Negation, Multiply, Divide, Reciprocal,
       Cosine, Sine is sound *)
Theorem rules_sound_A : forall nm f (e e' : expr R),
  In (nm, f) (reducers_Add RInst ++ reducers_Minus ++ reducers_Negation ++
              reducers_Multiply RInst ++ reducers_Divide ++ reducers_Reciprocal ++
              reducers_Cosine ++ reducers_Sine) ->
  f e = Some e' -> refines e e'.
Proof.
  intros nm f e e' Hin Hf.
  unfold reducers_Add, reducers_Minus, reducers_Negation, reducers_Multiply, reducers_Divide,
    reducers_Reciprocal, reducers_Cosine, reducers_Sine in Hin.
  cbn [app In] in Hin.
  repeat (destruct Hin as [Hin|Hin];
          [inversion Hin; subst; clear Hin; revert Hf;
           first [ apply reduce_by_flattening_nested_sums_sound
                 | apply reduce_sum_by_eliminating_zeros_sound
                 | apply reduce_sum_by_consolidating_logarithms_sound
                 | apply reduce_sum_by_consolidating_constants_sound
                 | apply reduce_minus_to_sum_with_negation_sound
                 | apply reduce_negation_of_negation_sound
                 | apply reduce_negation_of_sum_sound
                 | apply reduce_by_flattening_nested_products_sound
                 | apply reduce_product_when_multiplying_by_zero_sound
                 | apply reduce_product_by_eliminating_ones_sound
                 | apply reduce_product_by_eliminating_negations_sound
                 | apply reduce_product_by_consolidating_nth_powers_sound
                 | apply reduce_product_by_consolidating_nth_roots_sound
                 | apply reduce_product_by_consolidating_exponentials_sound
                 | apply reduce_product_by_consolidating_constants_sound
                 | apply reduce_divide_to_multiplying_with_reciprocal_sound
                 | apply reduce_reciprocal_of_reciprocal_sound
                 | apply reduce_reciprocal_of_negation_sound
                 | apply reduce_reciprocal_of_product_sound
                 | apply reduce_cosine_of_negation_sound
                 | apply reduce_sine_of_negation_sound ]|]).
  contradiction.
Qed.

(** The same, read against [all_rules]: the rules of these eight classes, as members of
    [all_rules RInst], selected by the class of the reducer list they come from. *)
Lemma RA_in_all_rules nm f :
  In (nm, f) (reducers_Add RInst ++ reducers_Minus ++ reducers_Negation ++
              reducers_Multiply RInst ++ reducers_Divide ++ reducers_Reciprocal ++
              reducers_Cosine ++ reducers_Sine) ->
  In (nm, f) (all_rules RInst).
Proof.
  unfold all_rules. rewrite !in_app_iff. tauto.
Qed.

(** ** Non-vacuity: the rules fire on non-trivial trees that are well formed and in domain *)
Example RA_ex_nth_powers :
  let e := Mul [NthPow (Var 1%positive) 2; Var 2%positive; NthPow (Var 3%positive) 2] in
  let e' := Mul [Var 2%positive; NthPow (Mul [Var 1%positive; Var 3%positive]) 2] in
  reduce_product_by_consolidating_nth_powers e = Some e' /\ wfR e /\
  (forall rho, InDomain rho e) /\ refines e e'.
Proof.
  intros e e'. assert (H : reduce_product_by_consolidating_nth_powers e = Some e') by reflexivity.
  split; [exact H|]. split; [simpl; tauto|]. split; [intro rho; simpl; tauto|].
  apply reduce_product_by_consolidating_nth_powers_sound. exact H.
Qed.

Example RA_ex_logarithms :
  let e := Add [Log (Var 1%positive) 2; Var 2%positive; Log (Var 3%positive) 2] in
  let e' := Add [Var 2%positive; Log (Mul [Var 1%positive; Var 3%positive]) 2] in
  reduce_sum_by_consolidating_logarithms RInst e = Some e' /\ wfR e /\
  InDomain (fun _ => 1) e /\ refines e e'.
Proof.
  intros e e'.
  assert (H : reduce_sum_by_consolidating_logarithms RInst e = Some e').
  { unfold e, e', reduce_sum_by_consolidating_logarithms, partition_by, group_by_key.
    cbn [filter is_Log negb List.length Nat.leb fold_left group_insert base_of neqb RInst].
    rewrite (proj2 (Reqb_true 2 2) eq_refl). reflexivity. }
  split; [exact H|]. split.
  - simpl. repeat split; try (apply Rltb_true; lra); apply Reqb_false; lra.
  - split; [simpl; repeat split; lra|].
    apply reduce_sum_by_consolidating_logarithms_sound. exact H.
Qed.

Example RA_ex_in_list :
  In ("_reduce_product_by_consolidating_nth_roots"%string,
      reduce_product_by_consolidating_nth_roots (T := R))
     (reducers_Add RInst ++ reducers_Minus ++ reducers_Negation ++
      reducers_Multiply RInst ++ reducers_Divide ++ reducers_Reciprocal ++
      reducers_Cosine ++ reducers_Sine).
Proof. simpl. tauto. Qed.

Print Assumptions rules_sound_A.
