(** * RulesSoundA: soundness ([refines]) of every rewrite rule of the classes
    Add, Minus, Negation, Multiply, Divide, Reciprocal, Cosine, Sine  (part A of C08_rules_sound). *)
From Coq Require Import Reals ZArith List Bool String Permutation Lia Lra.
From SM Require Import Num Syntax Outcome MathFun Eval Rules RInst Denote Spec.
Import ListNotations.
Open Scope R_scope.

(** ** Sums and products of lists of reals *)
Definition RA_sumR (l : list R) : R := fold_right Rplus 0 l.
Definition RA_prodR (l : list R) : R := fold_right Rmult 1 l.
Definition RA_opR (b : bool) (l : list R) : R := if b then RA_sumR l else RA_prodR l.

Lemma RA_sumR_app x y : RA_sumR (x ++ y) = RA_sumR x + RA_sumR y.
Proof. induction x as [|a x IH]; simpl; [lra|]. rewrite IH. lra. Qed.
Lemma RA_prodR_app x y : RA_prodR (x ++ y) = RA_prodR x * RA_prodR y.
Proof. induction x as [|a x IH]; simpl; [lra|]. rewrite IH. ring. Qed.

Lemma RA_opR_app b x x' y y' :
  RA_opR b x' = RA_opR b x -> RA_opR b y' = RA_opR b y -> RA_opR b (x' ++ y') = RA_opR b (x ++ y).
Proof.
  destruct b; simpl; intros H1 H2.
  - rewrite !RA_sumR_app. congruence.
  - rewrite !RA_prodR_app. congruence.
Qed.

Lemma RA_opR_perm b x y : Permutation x y -> RA_opR b x = RA_opR b y.
Proof.
  intro H. induction H as [|a x y H IH|a c x|x y z H1 IH1 H2 IH2].
  - reflexivity.
  - destruct b; simpl in *; rewrite IH; reflexivity.
  - destruct b; simpl; ring.
  - congruence.
Qed.

(** ** n-ary nodes, uniformly *)
Definition RA_nary (b : bool) (l : list (expr R)) : expr R := if b then Add l else Mul l.

Lemma RA_wf_nary b l : wfR (RA_nary b l) <-> Forall wfR l.
Proof.
  destruct b; simpl; (induction l as [|a l IH]; simpl; [split; auto|]);
    rewrite IH; split; [intros [H1 H2]; constructor; auto | intro H; inversion H; auto
                       |intros [H1 H2]; constructor; auto | intro H; inversion H; auto].
Qed.

Lemma RA_dom_nary b rho l : InDomain rho (RA_nary b l) <-> Forall (InDomain rho) l.
Proof.
  destruct b; simpl; (induction l as [|a l IH]; simpl; [split; auto|]);
    rewrite IH; split; [intros [H1 H2]; constructor; auto | intro H; inversion H; auto
                       |intros [H1 H2]; constructor; auto | intro H; inversion H; auto].
Qed.

Lemma RA_vars_nary b l : vars (RA_nary b l) = flat_map vars l.
Proof. destruct b; reflexivity. Qed.

Lemma RA_den_nary b rho l : denote rho (RA_nary b l) = RA_opR b (map (denote rho) l).
Proof. destruct b; simpl; induction l as [|a l IH]; simpl; congruence. Qed.

Lemma RA_wf_Add l : wfR (Add l) <-> Forall wfR l.
Proof. exact (RA_wf_nary true l). Qed.
Lemma RA_wf_Mul l : wfR (Mul l) <-> Forall wfR l.
Proof. exact (RA_wf_nary false l). Qed.
Lemma RA_dom_Add rho l : InDomain rho (Add l) <-> Forall (InDomain rho) l.
Proof. exact (RA_dom_nary true rho l). Qed.
Lemma RA_dom_Mul rho l : InDomain rho (Mul l) <-> Forall (InDomain rho) l.
Proof. exact (RA_dom_nary false rho l). Qed.
Lemma RA_den_Add rho l : denote rho (Add l) = RA_sumR (map (denote rho) l).
Proof. exact (RA_den_nary true rho l). Qed.
Lemma RA_den_Mul rho l : denote rho (Mul l) = RA_prodR (map (denote rho) l).
Proof. exact (RA_den_nary false rho l). Qed.

(** ** [refines]: generic facts *)
Lemma RA_refines_refl e : refines e e.
Proof. intro H. split; [assumption|]. split; [apply incl_refl|]. intros rho Hd; auto. Qed.

Lemma RA_refines_trans e1 e2 e3 : refines e1 e2 -> refines e2 e3 -> refines e1 e3.
Proof.
  intros H12 H23 Hw. destruct (H12 Hw) as (Hw2 & Hi2 & Hd2).
  destruct (H23 Hw2) as (Hw3 & Hi3 & Hd3).
  split; [assumption|]. split; [eapply incl_tran; eassumption|].
  intros rho Hd. destruct (Hd2 rho Hd) as [Hd' He]. destruct (Hd3 rho Hd') as [Hd'' He'].
  split; [assumption|congruence].
Qed.

Lemma RA_refines_nary b l l' :
  (Forall wfR l ->
   Forall wfR l' /\ incl (flat_map vars l') (flat_map vars l) /\
   forall rho, Forall (InDomain rho) l ->
     Forall (InDomain rho) l' /\
     RA_opR b (map (denote rho) l') = RA_opR b (map (denote rho) l))
  <-> refines (RA_nary b l) (RA_nary b l').
Proof.
  unfold refines. rewrite !RA_wf_nary, !RA_vars_nary.
  split; intros H Hw; destruct (H Hw) as (Hw' & Hi & Hd); (split; [assumption|]);
    (split; [assumption|]); intros rho Hdom.
  - rewrite RA_dom_nary in Hdom. destruct (Hd rho Hdom) as [H1 H2].
    rewrite RA_dom_nary, !RA_den_nary. auto.
  - rewrite <- RA_dom_nary with (b := b) in Hdom. destruct (Hd rho Hdom) as [H1 H2].
    rewrite RA_dom_nary, !RA_den_nary in *. auto.
Qed.

Lemma RA_nary_perm b l l' : Permutation l l' -> refines (RA_nary b l) (RA_nary b l').
Proof.
  intro HP. apply RA_refines_nary. intro Hw. split; [|split].
  - eapply Permutation_Forall; eassumption.
  - intros x Hx. eapply Permutation_in; [|exact Hx].
    apply Permutation_flat_map. apply Permutation_sym; assumption.
  - intros rho Hd. split.
    + eapply Permutation_Forall; eassumption.
    + apply RA_opR_perm. apply Permutation_map. apply Permutation_sym; assumption.
Qed.

Lemma RA_nary_app b a a' c c' :
  refines (RA_nary b a) (RA_nary b a') -> refines (RA_nary b c) (RA_nary b c') ->
  refines (RA_nary b (a ++ c)) (RA_nary b (a' ++ c')).
Proof.
  intros Ha0 Hc0. pose proof (proj2 (RA_refines_nary _ _ _) Ha0) as Ha.
  pose proof (proj2 (RA_refines_nary _ _ _) Hc0) as Hc.
  apply RA_refines_nary. intro Hw. apply Forall_app in Hw. destruct Hw as [Hwa Hwc].
  destruct (Ha Hwa) as (Hwa' & Hia & Hda). destruct (Hc Hwc) as (Hwc' & Hic & Hdc).
  split; [apply Forall_app; auto|]. split.
  - rewrite !flat_map_app. apply incl_app_app; assumption.
  - intros rho Hd. apply Forall_app in Hd. destruct Hd as [Hd1 Hd2].
    destruct (Hda rho Hd1) as [Hda1 Hda2]. destruct (Hdc rho Hd2) as [Hdc1 Hdc2].
    split; [apply Forall_app; auto|]. rewrite !map_app. apply RA_opR_app; assumption.
Qed.

(** the workhorse: keep a part, rewrite the rest, any order *)
Lemma RA_nary_parts b l l' keep old new :
  Permutation l (keep ++ old) -> Permutation (keep ++ new) l' ->
  refines (RA_nary b old) (RA_nary b new) ->
  refines (RA_nary b l) (RA_nary b l').
Proof.
  intros H1 H2 H. eapply RA_refines_trans; [apply RA_nary_perm; exact H1|].
  eapply RA_refines_trans; [|apply RA_nary_perm; exact H2].
  apply RA_nary_app; [apply RA_refines_refl|assumption].
Qed.

Lemma RA_nary_flat_map {G} b (f : G -> list (expr R)) (h : G -> expr R) gs :
  (forall g, In g gs -> refines (RA_nary b (f g)) (RA_nary b [h g])) ->
  refines (RA_nary b (flat_map f gs)) (RA_nary b (map h gs)).
Proof.
  induction gs as [|g gs IH]; intro H; simpl.
  - apply RA_refines_refl.
  - change (h g :: map h gs) with ([h g] ++ map h gs). apply RA_nary_app.
    + apply H; left; reflexivity.
    + apply IH. intros g' Hg'. apply H. right; assumption.
Qed.

(** ** helpers of Rules.v *)
Lemma RA_filter_perm {A} (f : A -> bool) l :
  Permutation l (filter (fun x => negb (f x)) l ++ filter f l).
Proof.
  induction l as [|a l IH]; simpl; [constructor|].
  destruct (f a); simpl.
  - apply Permutation_cons_app. assumption.
  - constructor. assumption.
Qed.

Lemma RA_filter_perm' {A} (f : A -> bool) l :
  Permutation l (filter f l ++ filter (fun x => negb (f x)) l).
Proof.
  eapply Permutation_trans; [apply RA_filter_perm with (f := f)|apply Permutation_app_comm].
Qed.

Lemma RA_split_first (f : expr R -> bool) l b h a :
  split_first f l = Some (b, h, a) -> l = b ++ h :: a /\ f h = true.
Proof.
  revert b. induction l as [|x l IH]; intros b H; simpl in H; [discriminate|].
  destruct (f x) eqn:E.
  - inversion H; subst. auto.
  - destruct (split_first f l) as [[[b' h'] a']|]; [|discriminate].
    inversion H; subst. destruct (IH _ eq_refl) as [H1 H2]. subst. auto.
Qed.

(** ** The simple unary / binary rules *)
Lemma reduce_minus_to_sum_with_negation_sound :
  forall e e' : expr R, reduce_minus_to_sum_with_negation e = Some e' -> refines e e'.
Proof.
  intros e e' H. destruct e; try discriminate. inversion H; subst; clear H.
  intros [Hw1 Hw2]. simpl. split; [tauto|]. split.
  - rewrite app_nil_r. apply incl_refl.
  - intros rho [H1 H2]. split; [tauto|lra].
Qed.

Lemma reduce_negation_of_negation_sound :
  forall e e' : expr R, reduce_negation_of_negation e = Some e' -> refines e e'.
Proof.
  intros e e' H. destruct e; try discriminate. destruct e; try discriminate.
  inversion H; subst; clear H.
  intros Hw. simpl in *. split; [assumption|]. split; [apply incl_refl|].
  intros rho Hd. split; [assumption|lra].
Qed.

Lemma RA_neg_sum_vars (l : list (expr R)) : flat_map vars (map Neg l) = flat_map vars l.
Proof. induction l as [|a l IH]; simpl; congruence. Qed.

Lemma reduce_negation_of_sum_sound :
  forall e e' : expr R, reduce_negation_of_sum e = Some e' -> refines e e'.
Proof.
  intros e e' H. destruct e; try discriminate. destruct e; try discriminate.
  inversion H; subst; clear H.
  intros Hw. change (wfR (Add l)) in Hw. rewrite RA_wf_Add in Hw.
  split; [|split].
  - rewrite RA_wf_Add. induction Hw; simpl; constructor; auto.
  - change (incl (flat_map vars (map Neg l)) (flat_map vars l)).
    rewrite RA_neg_sum_vars. apply incl_refl.
  - intros rho Hd. change (InDomain rho (Add l)) in Hd. rewrite RA_dom_Add in Hd.
    rewrite RA_dom_Add. change (denote rho (Neg (Add l))) with (- denote rho (Add l)).
    rewrite !RA_den_Add. clear Hw. induction Hd as [|a l Ha Hl IH]; simpl.
    + split; [constructor|lra].
    + destruct IH as [IH1 IH2]. split; [constructor; auto|]. rewrite IH2. lra.
Qed.

Lemma reduce_divide_to_multiplying_with_reciprocal_sound :
  forall e e' : expr R, reduce_divide_to_multiplying_with_reciprocal e = Some e' -> refines e e'.
Proof.
  intros e e' H. destruct e; try discriminate. inversion H; subst; clear H.
  intros [Hw1 Hw2]. simpl. split; [tauto|]. split.
  - rewrite app_nil_r. apply incl_refl.
  - intros rho (H1 & H2 & H3). split; [tauto|]. unfold Rdiv. ring.
Qed.

Lemma reduce_reciprocal_of_reciprocal_sound :
  forall e e' : expr R, reduce_reciprocal_of_reciprocal e = Some e' -> refines e e'.
Proof.
  intros e e' H. destruct e; try discriminate. destruct e; try discriminate.
  inversion H; subst; clear H.
  intros Hw. simpl in *. split; [assumption|]. split; [apply incl_refl|].
  intros rho [[Hd Hn] Hn']. split; [assumption|]. symmetry. apply Rinv_inv.
Qed.

Lemma reduce_reciprocal_of_negation_sound :
  forall e e' : expr R, reduce_reciprocal_of_negation e = Some e' -> refines e e'.
Proof.
  intros e e' H. destruct e; try discriminate. destruct e; try discriminate.
  inversion H; subst; clear H.
  intros Hw. simpl in *. split; [assumption|]. split; [apply incl_refl|].
  intros rho [Hd Hn]. assert (Hn' : denote rho e <> 0) by (intro Hz; apply Hn; rewrite Hz; lra).
  split; [auto|]. field. assumption.
Qed.

Lemma RA_recip_prod_vars (l : list (expr R)) : flat_map vars (map Recip l) = flat_map vars l.
Proof. induction l as [|a l IH]; simpl; congruence. Qed.

Lemma reduce_reciprocal_of_product_sound :
  forall e e' : expr R, reduce_reciprocal_of_product e = Some e' -> refines e e'.
Proof.
  intros e e' H. destruct e; try discriminate. destruct e; try discriminate.
  inversion H; subst; clear H.
  intros Hw. change (wfR (Mul l)) in Hw. rewrite RA_wf_Mul in Hw.
  split; [|split].
  - rewrite RA_wf_Mul. induction Hw; simpl; constructor; auto.
  - change (incl (flat_map vars (map Recip l)) (flat_map vars l)).
    rewrite RA_recip_prod_vars. apply incl_refl.
  - intros rho Hd. change (InDomain rho (Mul l) /\ denote rho (Mul l) <> 0) in Hd.
    destruct Hd as [Hd Hn]. rewrite RA_dom_Mul in Hd.
    rewrite RA_dom_Mul. change (denote rho (Recip (Mul l))) with (/ denote rho (Mul l)).
    rewrite RA_den_Mul in Hn. rewrite !RA_den_Mul. clear Hw.
    induction Hd as [|a l Ha Hl IH]; simpl in *.
    + split; [constructor|]. symmetry; apply Rinv_1.
    + assert (Hna : denote rho a <> 0) by (intro Hz; apply Hn; rewrite Hz; ring).
      assert (Hnl : RA_prodR (map (denote rho) l) <> 0) by (intro Hz; apply Hn; rewrite Hz; ring).
      destruct (IH Hnl) as [IH1 IH2]. split; [constructor; [simpl; auto|assumption]|].
      rewrite IH2. symmetry. apply Rinv_mult.
Qed.

Lemma reduce_cosine_of_negation_sound :
  forall e e' : expr R, reduce_cosine_of_negation e = Some e' -> refines e e'.
Proof.
  intros e e' H. destruct e; try discriminate. destruct e; try discriminate.
  inversion H; subst; clear H.
  intros Hw. simpl in *. split; [assumption|]. split; [apply incl_refl|].
  intros rho Hd. split; [assumption|]. symmetry. apply cos_neg.
Qed.

Lemma reduce_sine_of_negation_sound :
  forall e e' : expr R, reduce_sine_of_negation e = Some e' -> refines e e'.
Proof.
  intros e e' H. destruct e; try discriminate. destruct e; try discriminate.
  inversion H; subst; clear H.
  intros Hw. simpl in *. split; [assumption|]. split; [apply incl_refl|].
  intros rho Hd. split; [assumption|]. symmetry. apply sin_neg.
Qed.

(** ** Flattening *)
Lemma RA_nary_unnest b l : refines (RA_nary b [RA_nary b l]) (RA_nary b l).
Proof.
  intro Hw. apply RA_wf_nary in Hw. inversion Hw as [|x y Hx Hy]; subst. clear Hw Hy.
  split; [assumption|]. split.
  - rewrite !RA_vars_nary. simpl. rewrite RA_vars_nary, app_nil_r. apply incl_refl.
  - intros rho Hd. apply RA_dom_nary in Hd. inversion Hd as [|x y Hx' Hy']; subst.
    split; [assumption|]. rewrite !RA_den_nary. simpl. rewrite RA_den_nary.
    destruct b; simpl; ring.
Qed.

Lemma RA_nary_flatten b before nested after :
  refines (RA_nary b (before ++ RA_nary b nested :: after)) (RA_nary b (before ++ nested ++ after)).
Proof.
  apply RA_nary_app; [apply RA_refines_refl|].
  change (RA_nary b nested :: after) with ([RA_nary b nested] ++ after).
  apply RA_nary_app; [|apply RA_refines_refl].
  apply RA_nary_unnest.
Qed.

Lemma reduce_by_flattening_nested_sums_sound :
  forall e e' : expr R, reduce_by_flattening_nested_sums e = Some e' -> refines e e'.
Proof.
  intros e e' H. destruct e; try discriminate. simpl in H.
  destruct (split_first is_Add l) as [[[b h] a]|] eqn:E; [|discriminate].
  apply RA_split_first in E. destruct E as [-> Hh].
  destruct h; try discriminate. inversion H; subst; clear H.
  match goal with |- refines _ (Add (_ ++ ?n ++ _)) => exact (RA_nary_flatten true b n a) end.
Qed.

Lemma reduce_by_flattening_nested_products_sound :
  forall e e' : expr R, reduce_by_flattening_nested_products e = Some e' -> refines e e'.
Proof.
  intros e e' H. destruct e; try discriminate. simpl in H.
  destruct (split_first is_Mul l) as [[[b h] a]|] eqn:E; [|discriminate].
  apply RA_split_first in E. destruct E as [-> Hh].
  destruct h; try discriminate. inversion H; subst; clear H.
  match goal with |- refines _ (Mul (_ ++ ?n ++ _)) => exact (RA_nary_flatten false b n a) end.
Qed.

(** ** Eliminating neutral constants, multiplying by zero, consolidating constants *)
Lemma RA_is_const_eq c e : is_const_eq RInst c e = true -> e = Const c.
Proof.
  destruct e; simpl; try discriminate. intro H. apply Reqb_true in H. congruence.
Qed.

Lemma RA_nary_drop_units (b : bool) (c : R) l :
  c = (if b then 0 else 1) ->
  refines (RA_nary b (filter (is_const_eq RInst c) l)) (RA_nary b []).
Proof.
  intro Hc. apply RA_refines_nary. intros _. split; [constructor|].
  split; [apply incl_nil_l|]. intros rho _. split; [constructor|].
  induction l as [|a l IH]; [reflexivity|]. simpl filter.
  destruct (is_const_eq RInst c a) eqn:E; [|assumption].
  apply RA_is_const_eq in E. subst a. destruct b; simpl in *; rewrite <- IH; subst c; lra.
Qed.

Lemma reduce_sum_by_eliminating_zeros_sound :
  forall e e' : expr R, reduce_sum_by_eliminating_zeros RInst e = Some e' -> refines e e'.
Proof.
  intros e e' H. destruct e; try discriminate. unfold reduce_sum_by_eliminating_zeros in H.
  match type of H with (if ?c then _ else _) = _ => destruct c end; [discriminate|].
  inversion H; subst; clear H.
  apply (RA_nary_parts true l _ (filter (fun x => negb (is_const_eq RInst 0 x)) l)
           (filter (is_const_eq RInst 0) l) []).
  - apply RA_filter_perm.
  - rewrite app_nil_r. apply Permutation_refl.
  - apply RA_nary_drop_units. reflexivity.
Qed.

Lemma reduce_product_by_eliminating_ones_sound :
  forall e e' : expr R, reduce_product_by_eliminating_ones RInst e = Some e' -> refines e e'.
Proof.
  intros e e' H. destruct e; try discriminate. unfold reduce_product_by_eliminating_ones in H.
  match type of H with (if ?c then _ else _) = _ => destruct c end; [discriminate|].
  inversion H; subst; clear H.
  apply (RA_nary_parts false l _ (filter (fun x => negb (is_const_eq RInst 1 x)) l)
           (filter (is_const_eq RInst 1) l) []).
  - apply RA_filter_perm.
  - rewrite app_nil_r. apply Permutation_refl.
  - apply RA_nary_drop_units. reflexivity.
Qed.

Lemma RA_prod_zero l : In 0 l -> RA_prodR l = 0.
Proof.
  induction l as [|a l IH]; simpl; [tauto|]. intros [H|H].
  - subst. ring.
  - rewrite IH by assumption. ring.
Qed.

Lemma reduce_product_when_multiplying_by_zero_sound :
  forall e e' : expr R, reduce_product_when_multiplying_by_zero RInst e = Some e' -> refines e e'.
Proof.
  intros e e' H. destruct e; try discriminate.
  unfold reduce_product_when_multiplying_by_zero in H.
  destruct (existsb (is_const_eq RInst (n0 RInst)) l) eqn:E; [|discriminate].
  inversion H; subst; clear H.
  apply existsb_exists in E. destruct E as [x [Hin Hx]]. apply RA_is_const_eq in Hx. subst x.
  intros Hw. split; [exact I|]. split; [apply incl_nil_l|].
  intros rho Hd. split; [exact I|]. rewrite RA_den_Mul. symmetry.
  apply RA_prod_zero. exact (in_map (denote rho) _ _ Hin).
Qed.

Lemma RA_const_values rho b l :
  RA_opR b (map (denote rho) (filter is_Const l)) = RA_opR b (const_values (filter is_Const l)).
Proof.
  unfold const_values. induction l as [|a l IH]; [reflexivity|].
  destruct a; simpl; auto. destruct b; simpl in *; rewrite IH; reflexivity.
Qed.

Lemma RA_mul_loop p vs : mul_loop RInst p vs = p * RA_prodR vs.
Proof.
  revert p. induction vs as [|a r IH]; intro p; simpl; [ring|].
  destruct (Reqb a 0) eqn:E.
  - apply Reqb_true in E. subst a. ring.
  - rewrite IH. ring.
Qed.

Lemma RA_mf_multiply vs : mf_multiply RInst vs = RA_prodR vs.
Proof. unfold mf_multiply. rewrite RA_mul_loop. simpl. ring. Qed.

Lemma RA_mf_add vs : mf_add RInst vs = RA_sumR vs.
Proof. reflexivity. Qed.

Lemma RA_nary_consts b l :
  refines (RA_nary b (filter is_Const l))
          (RA_nary b [Const (RA_opR b (const_values (filter is_Const l)))]).
Proof.
  apply RA_refines_nary. intros _. split; [constructor; [exact I|constructor]|].
  split; [apply incl_nil_l|]. intros rho _. split; [constructor; [exact I|constructor]|].
  rewrite RA_const_values. destruct b; simpl; ring.
Qed.

Lemma reduce_sum_by_consolidating_constants_sound :
  forall e e' : expr R, reduce_sum_by_consolidating_constants RInst e = Some e' -> refines e e'.
Proof.
  intros e e' H. destruct e; try discriminate.
  unfold reduce_sum_by_consolidating_constants, partition_by in H.
  match type of H with (if ?c then _ else _) = _ => destruct c end; [discriminate|].
  inversion H; subst; clear H.
  apply (RA_nary_parts true l _ (filter (fun x => negb (is_Const x)) l) (filter is_Const l)
           [Const (RA_sumR (const_values (filter is_Const l)))]).
  - apply RA_filter_perm.
  - apply Permutation_refl.
  - exact (RA_nary_consts true l).
Qed.

Lemma reduce_product_by_consolidating_constants_sound :
  forall e e' : expr R, reduce_product_by_consolidating_constants RInst e = Some e' -> refines e e'.
Proof.
  intros e e' H. destruct e; try discriminate.
  unfold reduce_product_by_consolidating_constants, partition_by in H.
  match type of H with (if ?c then _ else _) = _ => destruct c end; [discriminate|].
  rewrite RA_mf_multiply in H. inversion H; subst; clear H.
  apply (RA_nary_parts false l _ (filter (fun x => negb (is_Const x)) l) (filter is_Const l)
           [Const (RA_prodR (const_values (filter is_Const l)))]).
  - apply RA_filter_perm.
  - apply Permutation_refl.
  - exact (RA_nary_consts false l).
Qed.

(** ** Eliminating negations in a product *)
Lemma RA_filter_Neg (l : list (expr R)) :
  filter is_Neg l = map Neg (map inner_of (filter is_Neg l)).
Proof.
  induction l as [|a l IH]; [reflexivity|]. destruct a; simpl; auto. congruence.
Qed.

Lemma RA_pow_m1 n : (-1) ^ n = if Nat.even n then 1 else -1.
Proof.
  induction n as [|n IH]; [reflexivity|].
  rewrite Nat.even_succ, <- Nat.negb_even. simpl pow. rewrite IH.
  destruct (Nat.even n); simpl; lra.
Qed.

Lemma RA_prod_negs rho (us : list (expr R)) :
  RA_prodR (map (denote rho) (map Neg us)) =
  (-1) ^ (List.length us) * RA_prodR (map (denote rho) us).
Proof.
  induction us as [|a us IH]; simpl; [ring|]. simpl in IH. rewrite IH. ring.
Qed.

Lemma RA_nary_negs (us : list (expr R)) :
  refines (RA_nary false (map Neg us))
          (RA_nary false (us ++ (if Nat.even (List.length us) then [] else [Const (-1)]))).
Proof.
  apply RA_refines_nary. intro Hw. apply (proj1 (Forall_map _ _ _)) in Hw.
  split; [|split].
  - apply Forall_app. split; [exact Hw|]. destruct (Nat.even _); repeat constructor.
  - rewrite flat_map_app, RA_neg_sum_vars.
    destruct (Nat.even _); simpl; rewrite app_nil_r; apply incl_refl.
  - intros rho Hd. apply (proj1 (Forall_map _ _ _)) in Hd. split.
    + apply Forall_app. split; [exact Hd|]. destruct (Nat.even _); repeat constructor.
    + unfold RA_opR. rewrite map_app, RA_prodR_app, RA_prod_negs, RA_pow_m1.
      destruct (Nat.even _); simpl; ring.
Qed.

Lemma reduce_product_by_eliminating_negations_sound :
  forall e e' : expr R, reduce_product_by_eliminating_negations RInst e = Some e' -> refines e e'.
Proof.
  intros e e' H. destruct e; try discriminate.
  unfold reduce_product_by_eliminating_negations, partition_by in H.
  assert (H' : Some (Mul (filter (fun x => negb (is_Neg x)) l ++ map inner_of (filter is_Neg l) ++
                  (if Nat.even (List.length (map inner_of (filter is_Neg l)))
                   then [] else [Const (-1)]))) = Some e').
  { rewrite map_length. remember (filter is_Neg l) as negs eqn:En.
    destruct negs as [|ng negs']; [discriminate|].
    destruct (Nat.even (List.length (ng :: negs'))); [rewrite app_nil_r|]; exact H. }
  clear H. inversion H'; subst; clear H'.
  apply (RA_nary_parts false l _ (filter (fun x => negb (is_Neg x)) l) (filter is_Neg l)
           (map inner_of (filter is_Neg l) ++
            (if Nat.even (List.length (map inner_of (filter is_Neg l))) then [] else [Const (-1)]))).
  - apply RA_filter_perm.
  - apply Permutation_refl.
  - rewrite RA_filter_Neg at 1. apply RA_nary_negs.
Qed.

(** ** [group_by_key] *)
Section RA_Group.
  Context {K V : Type} (keqb : K -> K -> bool) (key : V -> K).
  Hypothesis keqb_refl : forall k, keqb k k = true.

  Definition RA_ginv (g : list (K * list V)) : Prop :=
    Forall (fun kv => snd kv <> [] /\ Forall (fun v => keqb (key v) (fst kv) = true) (snd kv)) g.

  Lemma RA_group_insert_perm k v g :
    Permutation (flat_map snd (group_insert keqb k v g)) (flat_map snd g ++ [v]).
  Proof.
    induction g as [|[k' vs] g IH]; simpl.
    - apply Permutation_refl.
    - destruct (keqb k k'); simpl.
      + rewrite <- !app_assoc. apply Permutation_app_head. apply Permutation_app_comm.
      + rewrite <- app_assoc. apply Permutation_app_head. exact IH.
  Qed.

  Lemma RA_group_insert_inv v g : RA_ginv g -> RA_ginv (group_insert keqb (key v) v g).
  Proof.
    induction g as [|[k' vs] g IH]; intro H; simpl.
    - constructor; [|constructor]. simpl. split; [discriminate|].
      constructor; [apply keqb_refl|constructor].
    - inversion H as [|x y [Hne Hall] Hy]; subst. simpl in Hne, Hall.
      destruct (keqb (key v) k') eqn:E.
      + constructor; [|assumption]. simpl. split.
        * intro Hc. apply app_eq_nil in Hc. destruct Hc; discriminate.
        * apply Forall_app; split; [assumption|]. constructor; [assumption|constructor].
      + constructor; [split; assumption|]. apply IH; assumption.
  Qed.

  Lemma RA_group_fold l : forall g, RA_ginv g ->
    RA_ginv (fold_left (fun g v => group_insert keqb (key v) v g) l g) /\
    Permutation (flat_map snd (fold_left (fun g v => group_insert keqb (key v) v g) l g))
                (flat_map snd g ++ l).
  Proof.
    induction l as [|v l IH]; intros g Hg; simpl.
    - split; [assumption|]. rewrite app_nil_r. apply Permutation_refl.
    - destruct (IH _ (RA_group_insert_inv v g Hg)) as [H1 H2]. split; [assumption|].
      eapply Permutation_trans; [exact H2|].
      change (v :: l) with ([v] ++ l). rewrite app_assoc.
      apply Permutation_app_tail. apply RA_group_insert_perm.
  Qed.

  Lemma RA_group_by_key l :
    RA_ginv (group_by_key keqb key l) /\ Permutation (flat_map snd (group_by_key keqb key l)) l.
  Proof.
    unfold group_by_key. destruct (RA_group_fold l [] (Forall_nil _)) as [H1 H2]. auto.
  Qed.
End RA_Group.

(** the shape common to the four consolidation rules *)
Lemma RA_consolidate {K} b (isX : expr R -> bool) (keqb : K -> K -> bool) (keyf : expr R -> K)
      (mk : list (expr R) -> K -> expr R) l :
  (forall k, keqb k k = true) ->
  (forall k vs, vs <> [] -> Forall (fun v => isX v = true /\ keqb (keyf v) k = true) vs ->
                refines (RA_nary b vs) (RA_nary b [mk (map inner_of vs) k])) ->
  refines (RA_nary b l)
          (RA_nary b (filter (fun x => negb (isX x)) l ++
                      map (fun kv => mk (map inner_of (snd kv)) (fst kv))
                          (group_by_key keqb keyf (filter isX l)))).
Proof.
  intros Hrefl Hgrp.
  destruct (RA_group_by_key keqb keyf Hrefl (filter isX l)) as [Hinv Hperm].
  eapply RA_nary_parts; [apply RA_filter_perm with (f := isX)|apply Permutation_refl|].
  eapply RA_refines_trans; [apply RA_nary_perm; apply Permutation_sym; exact Hperm|].
  apply (RA_nary_flat_map b snd (fun kv => mk (map inner_of (snd kv)) (fst kv))).
  intros g Hg. unfold RA_ginv in Hinv. rewrite Forall_forall in Hinv.
  destruct (Hinv g Hg) as [Hne Hall]. apply Hgrp; [assumption|].
  rewrite Forall_forall in *. intros v Hv. split; [|apply Hall; assumption].
  assert (Hin : In v (filter isX l)).
  { eapply Permutation_in; [exact Hperm|]. apply in_flat_map. exists g; auto. }
  apply filter_In in Hin. tauto.
Qed.

Lemma RA_flat_map_vars_map (f : expr R -> expr R) us :
  (forall u, vars (f u) = vars u) -> flat_map vars (map f us) = flat_map vars us.
Proof. intro H. induction us as [|a us IH]; simpl; [reflexivity|]. rewrite H, IH. reflexivity. Qed.
