(** * CtorOps: operator overloads (C15) and constructor validation (C16) of Objects.v. *)
From Coq Require Import Reals ZArith List Bool String Lia Lra.
From SM Require Import Num Syntax Outcome Eval RInst Objects SpecObjects.
Import ListNotations.

(** ** C15 *)
Theorem operators : C15_operators.
Proof.
  unfold C15_operators; intros T N a b.
  repeat split; reflexivity.
Qed.

Theorem pow_integer : C15_pow_integer.
Proof.
  unfold C15_pow_integer; intros T N a x.
  unfold op_pow, mk_nth_power, checked_n, as_expr.
  destruct (nint N x) as [z|] eqn:E; [|reflexivity].
  destruct (Z.leb_spec 1 z) as [H1|H1], (Z.leb_spec z 0) as [H0|H0]; try lia; reflexivity.
Qed.

Theorem rejects : C15_rejects.
Proof.
  unfold C15_rejects; intros T N a x Hx.
  destruct x as [e|y|lg s|].
  - exfalso; apply (Hx e); reflexivity.
  - repeat split; try reflexivity.
    intros Hy; exfalso; apply (Hy y); reflexivity.
  - repeat split; reflexivity.
  - repeat split; reflexivity.
Qed.

(* non-vacuity: 2 ** ... on a concrete tree at R *)
Example pow_integer_ex :
  op_pow RInst (Var 1%positive) (AExpr (Const 2%R)) = Ok (Power (Var 1%positive) (Const 2%R)).
Proof. reflexivity. Qed.

(** ** C16 *)
Lemma checked_n_spec {T} (N : NumOps T) (n : pyarg (T:=T)) (i : positive) :
  checked_n N n = Ok i <->
  exists x z, n = ANum x /\ nint N x = Some z /\ (1 <= z)%Z /\ i = Z.to_pos z.
Proof.
  unfold checked_n; split.
  - destruct n as [e|x|lg s|]; try discriminate.
    destruct (nint N x) as [z|] eqn:E; try discriminate.
    destruct (Z.leb_spec z 0) as [H0|H0]; try discriminate.
    intros H; injection H as <-.
    exists x, z; repeat split; auto; lia.
  - intros (x & z & -> & E & Hz & ->).
    rewrite E.
    destruct (Z.leb_spec z 0) as [H0|H0]; [lia|reflexivity].
Qed.

Theorem ctor_nth : C16_nth.
Proof.
  unfold C16_nth; intros T N a n e; split.
  - unfold mk_nth_power; split.
    + destruct (checked_n N n) as [i|] eqn:En; [|discriminate].
      apply checked_n_spec in En; destruct En as (x & z & -> & E & Hz & ->).
      destruct a as [u|y|lg s|]; simpl; try discriminate.
      intros H; injection H as <-.
      exists u, x, z; repeat split; auto.
    + intros (u & x & z & -> & -> & E & Hz & ->).
      assert (En : checked_n N (ANum x) = Ok (Z.to_pos z))
        by (apply checked_n_spec; exists x, z; repeat split; auto).
      rewrite En; reflexivity.
  - unfold mk_nth_root; split.
    + destruct (checked_n N n) as [i|] eqn:En; [|discriminate].
      apply checked_n_spec in En; destruct En as (x & z & -> & E & Hz & ->).
      destruct a as [u|y|lg s|]; simpl; try discriminate.
      intros H; injection H as <-.
      exists u, x, z; repeat split; auto.
    + intros (u & x & z & -> & -> & E & Hz & ->).
      assert (En : checked_n N (ANum x) = Ok (Z.to_pos z))
        by (apply checked_n_spec; exists x, z; repeat split; auto).
      rewrite En; reflexivity.
Qed.

Theorem ctor_base : C16_base.
Proof.
  unfold C16_base; intros T N a b e; split.
  - unfold mk_exponential; split.
    + destruct a as [u|y|lg s|]; simpl; try discriminate.
      destruct b as [u'|x|lg s|]; try discriminate.
      destruct (nleb N x (n0 N)) eqn:El; try discriminate.
      intros H; injection H as <-.
      exists u, x; repeat split; auto.
    + intros (u & x & -> & -> & El & ->); simpl.
      rewrite El; reflexivity.
  - unfold mk_logarithm; split.
    + destruct a as [u|y|lg s|]; simpl; try discriminate.
      destruct b as [u'|x|lg s|]; try discriminate.
      destruct (nleb N x (n0 N)) eqn:El; try discriminate.
      destruct (neqb N x (n1 N)) eqn:E1; try discriminate.
      intros H; injection H as <-.
      exists u, x; repeat split; auto.
    + intros (u & x & -> & -> & El & E1 & ->); simpl.
      rewrite El, E1; reflexivity.
Qed.

Lemma all_exprs_spec {T} (l : list (pyarg (T:=T))) (es : list (expr T)) :
  all_exprs l = Ok es <-> l = map (@AExpr T) es.
Proof.
  revert es; induction l as [|a r IH]; intros es; simpl.
  - split.
    + intros H; injection H as <-; reflexivity.
    + destruct es; [reflexivity|discriminate].
  - split.
    + destruct a as [u|y|lg s|]; simpl; try discriminate.
      destruct (all_exprs r) as [es'|] eqn:Er; try discriminate.
      intros H; injection H as <-.
      simpl; f_equal. apply IH; reflexivity.
    + destruct es as [|u us]; simpl; [discriminate|].
      intros H; injection H as -> Hr.
      simpl. apply IH in Hr. rewrite Hr; reflexivity.
Qed.

Theorem ctor_operands : C16_operands.
Proof.
  unfold C16_operands; intros T f g h a b l e.
  split; [|split; [|split]].
  - unfold mk_unary; split.
    + destruct a as [u|y|lg s|]; simpl; try discriminate.
      intros H; injection H as <-; exists u; auto.
    + intros (u & -> & ->); reflexivity.
  - unfold mk_binary; split.
    + destruct a as [u|y|lg s|]; simpl; try discriminate;
        destruct b as [w|y'|lg' s'|]; simpl; try discriminate.
      intros H; injection H as <-; exists u, w; auto.
    + intros (u & w & -> & -> & ->); reflexivity.
  - unfold mk_nary; split.
    + destruct (all_exprs l) as [es|] eqn:El; try discriminate.
      intros H; injection H as <-.
      apply all_exprs_spec in El; exists es; auto.
    + intros (us & Hl & ->).
      apply all_exprs_spec in Hl; rewrite Hl; reflexivity.
  - unfold mk_variable; split.
    + destruct a as [u|y|lg s|]; try discriminate.
      destruct lg; try discriminate.
      intros H; injection H as <-; exists s; auto.
    + intros (x & -> & ->); reflexivity.
Qed.

Lemma nleb_R_false (x : R) : nleb RInst x (n0 RInst) = false -> Rltb 0 x = true.
Proof.
  unfold nleb, n0; simpl.
  intros H; apply orb_false_iff in H; destruct H as [Hlt Heq].
  apply Rltb_false in Hlt; apply Reqb_false in Heq.
  apply Rltb_true; lra.
Qed.

Theorem built_wf : C16_built_wf.
Proof.
  unfold C16_built_wf; intros a b e Ha.
  split; [|split; [|split]].
  - intros H; apply (proj1 (ctor_nth R RInst a b e)) in H.
    destruct H as (u & x & z & -> & -> & E & Hz & ->); simpl.
    apply Ha; reflexivity.
  - intros H; apply (proj2 (ctor_nth R RInst a b e)) in H.
    destruct H as (u & x & z & -> & -> & E & Hz & ->); simpl.
    apply Ha; reflexivity.
  - intros H; apply (proj1 (ctor_base R RInst a b e)) in H.
    destruct H as (u & x & -> & -> & El & ->).
    cbn [wf]; split; [|apply Ha; reflexivity].
    apply nleb_R_false in El; exact El.
  - intros H; apply (proj2 (ctor_base R RInst a b e)) in H.
    destruct H as (u & x & -> & -> & El & E1 & ->).
    cbn [wf]; split; [|split]; [| exact E1 | apply Ha; reflexivity].
    apply nleb_R_false in El; exact El.
Qed.

(* non-vacuity: the constructors do accept something, and reject a non-positive base *)
Example built_wf_ex :
  mk_exponential RInst (AExpr (Var 1%positive)) (ANum 2%R) = Ok (Exp (Var 1%positive) 2%R) /\
  mk_exponential RInst (AExpr (Var 1%positive)) (ANum 0%R) = Raises.
Proof.
  unfold mk_exponential, nleb, n0; simpl; split.
  - replace (Rltb 2 0) with false by (symmetry; apply Rltb_false; lra).
    replace (Reqb 2 0) with false by (symmetry; apply Reqb_false; lra).
    reflexivity.
  - replace (Reqb 0 0) with true by (symmetry; apply Reqb_true; reflexivity).
    rewrite orb_true_r; reflexivity.
Qed.

Print Assumptions operators.
Print Assumptions pow_integer.
Print Assumptions rejects.
Print Assumptions ctor_nth.
Print Assumptions ctor_base.
Print Assumptions ctor_operands.
Print Assumptions built_wf.
