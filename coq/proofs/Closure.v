(** * Closure: the driver and the normal-form pass refine, given that every single rule and
    constant folding refine.

    Inside [Section C] the two premises are
      Hrules : C08_rules_sound          (every rule of [all_rules RInst], KF-ROOT instance excluded)
      Hcons  : C08_consolidate_sound    (constant folding)
    and after the section the main theorems take them as explicit premises:
      step_sound          : C08_rules_sound -> C08_consolidate_sound -> C08_step_sound
      fully_reduce_sound  : C08_rules_sound -> C08_consolidate_sound -> C08_fully_reduce_sound
      nfr_sound           : C08_rules_sound -> C08_consolidate_sound -> C08_nfr_sound
      normalize_sound     : C08_rules_sound -> C08_consolidate_sound -> C08_normalize_sound
    Premise-free facts (before the section): [refines] is a preorder and a congruence for every
    constructor ([CL_refines_*], [CL_cong_*]), the partition lemmas behind the normal-form pass
    ([CL_partition_add], [CL_partition_mul], [CL_assemble_add], [CL_assemble_mul]). *)
From Coq Require Import Reals ZArith List Bool String Lra Lia.
From SM Require Import Num Syntax Outcome MathFun Eval Rules Driver Normalize RInst Denote Spec.
Import ListNotations.
Open Scope R_scope.

Local Notation E := (expr R).

(** ** [Add]/[Mul] over lists: well-formedness, variables, domain, value *)

Definition CL_sum (rho : env) (l : list E) : R := fold_right (fun a acc => denote rho a + acc) 0 l.
Definition CL_prod (rho : env) (l : list E) : R := fold_right (fun a acc => denote rho a * acc) 1 l.

Lemma CL_denote_Add rho l : denote rho (Add l) = CL_sum rho l.
Proof. reflexivity. Qed.
Lemma CL_denote_Mul rho l : denote rho (Mul l) = CL_prod rho l.
Proof. reflexivity. Qed.

Lemma CL_sum_cons rho x l : CL_sum rho (x :: l) = denote rho x + CL_sum rho l.
Proof. reflexivity. Qed.
Lemma CL_prod_cons rho x l : CL_prod rho (x :: l) = denote rho x * CL_prod rho l.
Proof. reflexivity. Qed.
Lemma CL_sum_nil rho : CL_sum rho [] = 0.
Proof. reflexivity. Qed.
Lemma CL_prod_nil rho : CL_prod rho [] = 1.
Proof. reflexivity. Qed.

Lemma CL_sum_app rho l1 l2 : CL_sum rho (l1 ++ l2) = CL_sum rho l1 + CL_sum rho l2.
Proof.
  induction l1 as [|a l1 IH]; cbn [app].
  - rewrite CL_sum_nil. ring.
  - rewrite !CL_sum_cons, IH. ring.
Qed.
Lemma CL_prod_app rho l1 l2 : CL_prod rho (l1 ++ l2) = CL_prod rho l1 * CL_prod rho l2.
Proof.
  induction l1 as [|a l1 IH]; cbn [app].
  - rewrite CL_prod_nil. ring.
  - rewrite !CL_prod_cons, IH. ring.
Qed.

Lemma CL_fold_and_Forall {A} (P : A -> Prop) l :
  fold_right (fun x acc => P x /\ acc) True l <-> Forall P l.
Proof.
  induction l as [|a l IH]; simpl.
  - split; auto.
  - split.
    + intros [H1 H2]. constructor; [exact H1 | apply IH; exact H2].
    + intro H. inversion H as [|? ? H1 H2]; subst. split; [exact H1 | apply IH; exact H2].
Qed.

Lemma CL_wf_Add l : wfR (Add l) <-> Forall wfR l.
Proof. apply (CL_fold_and_Forall wfR). Qed.
Lemma CL_wf_Mul l : wfR (Mul l) <-> Forall wfR l.
Proof. apply (CL_fold_and_Forall wfR). Qed.
Lemma CL_dom_Add rho l : InDomain rho (Add l) <-> Forall (InDomain rho) l.
Proof. apply (CL_fold_and_Forall (InDomain rho)). Qed.
Lemma CL_dom_Mul rho l : InDomain rho (Mul l) <-> Forall (InDomain rho) l.
Proof. apply (CL_fold_and_Forall (InDomain rho)). Qed.
Lemma CL_vars_Add (l : list E) : vars (Add l) = flat_map vars l.
Proof. reflexivity. Qed.
Lemma CL_vars_Mul (l : list E) : vars (Mul l) = flat_map vars l.
Proof. reflexivity. Qed.

(** ** [refines] is a preorder *)

Lemma CL_refines_refl e : refines e e.
Proof.
  intro Hwf. split; [exact Hwf|]. split; [apply incl_refl|]. intros rho Hd. split; [exact Hd | reflexivity].
Qed.

Lemma CL_refines_trans e1 e2 e3 : refines e1 e2 -> refines e2 e3 -> refines e1 e3.
Proof.
  intros H12 H23 Hwf.
  destruct (H12 Hwf) as (W2 & I2 & D2).
  destruct (H23 W2) as (W3 & I3 & D3).
  split; [exact W3|]. split; [eapply incl_tran; eassumption|].
  intros rho Hd. destruct (D2 rho Hd) as [Hd2 E2]. destruct (D3 rho Hd2) as [Hd3 E3].
  split; [exact Hd3 | congruence].
Qed.

(** ** Congruence: unary constructors *)

Ltac CL_unary :=
  let H := fresh "H" in let Hwf := fresh "Hwf" in
  let W := fresh "W" in let I := fresh "I" in let D := fresh "D" in
  let rho := fresh "rho" in let Hd := fresh "Hd" in
  let D1 := fresh "D1" in let D2 := fresh "D2" in
  intros H Hwf; cbn [wf] in Hwf;
  repeat match type of Hwf with _ /\ _ => destruct Hwf as [? Hwf] end;
  destruct (H Hwf) as (W & I & D);
  split; [cbn [wf]; repeat split; assumption|];
  split; [exact I|];
  intros rho Hd; cbn [InDomain denote] in Hd |- *;
  repeat match type of Hd with _ /\ _ => destruct Hd as [Hd ?] end;
  destruct (D rho Hd) as [D1 D2]; rewrite D2;
  repeat split; auto.

Lemma CL_cong_Neg a a' : refines a a' -> refines (Neg a) (Neg a').
Proof. CL_unary. Qed.
Lemma CL_cong_Recip a a' : refines a a' -> refines (Recip a) (Recip a').
Proof. CL_unary. Qed.
Lemma CL_cong_Sin a a' : refines a a' -> refines (Sin a) (Sin a').
Proof. CL_unary. Qed.
Lemma CL_cong_Cos a a' : refines a a' -> refines (Cos a) (Cos a').
Proof. CL_unary. Qed.
Lemma CL_cong_NthPow n a a' : refines a a' -> refines (NthPow a n) (NthPow a' n).
Proof. CL_unary. Qed.
Lemma CL_cong_NthRoot n a a' : refines a a' -> refines (NthRoot a n) (NthRoot a' n).
Proof. CL_unary. Qed.
Lemma CL_cong_Exp b a a' : refines a a' -> refines (Exp a b) (Exp a' b).
Proof. CL_unary. Qed.
Lemma CL_cong_Log b a a' : refines a a' -> refines (Log a b) (Log a' b).
Proof. CL_unary. Qed.

(** ** Congruence: binary constructors (both arguments at once; one-sided versions follow by
    reflexivity) *)

Ltac CL_binary :=
  let Ha := fresh "Ha" in let Hb := fresh "Hb" in let Hwf := fresh "Hwf" in
  let Wa := fresh "Wa" in let Ia := fresh "Ia" in let Da := fresh "Da" in
  let Wb := fresh "Wb" in let Ib := fresh "Ib" in let Db := fresh "Db" in
  let rho := fresh "rho" in let Hd := fresh "Hd" in
  let Hda := fresh "Hda" in let Hdb := fresh "Hdb" in
  let A1 := fresh "A1" in let A2 := fresh "A2" in
  let B1 := fresh "B1" in let B2 := fresh "B2" in
  intros Ha Hb Hwf; cbn [wf] in Hwf; destruct Hwf as [Hwfa Hwfb];
  destruct (Ha Hwfa) as (Wa & Ia & Da); destruct (Hb Hwfb) as (Wb & Ib & Db);
  split; [cbn [wf]; split; assumption|];
  split; [cbn [vars]; apply incl_app; [apply incl_appl; exact Ia | apply incl_appr; exact Ib]|];
  intros rho Hd; cbn [InDomain denote] in Hd |- *;
  destruct Hd as [Hda Hd];
  try (destruct Hd as [Hdb Hd]);
  [destruct (Da rho Hda) as [A1 A2]; destruct (Db rho ltac:(first [exact Hdb | exact Hd])) as [B1 B2];
   rewrite A2, B2; repeat split; auto].

Lemma CL_cong_Minus a a' b b' : refines a a' -> refines b b' -> refines (Minus a b) (Minus a' b').
Proof. CL_binary. Qed.
Lemma CL_cong_Divide a a' b b' : refines a a' -> refines b b' -> refines (Divide a b) (Divide a' b').
Proof. CL_binary. Qed.
Lemma CL_cong_Power a a' b b' : refines a a' -> refines b b' -> refines (Power a b) (Power a' b').
Proof. CL_binary. Qed.

(** ** Congruence: the n-ary constructors, all positions at once *)

Lemma CL_Forall2_refines l l' :
  Forall2 refines l l' -> Forall wfR l ->
  Forall wfR l' /\ incl (flat_map vars l') (flat_map vars l) /\
  forall rho, Forall (InDomain rho) l ->
    Forall (InDomain rho) l' /\ CL_sum rho l' = CL_sum rho l /\ CL_prod rho l' = CL_prod rho l.
Proof.
  induction 1 as [|x x' l l' Hx Hl IH]; intro Hwf.
  - split; [constructor|]. split; [apply incl_refl|]. intros rho _. repeat split; constructor.
  - inversion Hwf as [|? ? Hwx Hwl]; subst.
    destruct (Hx Hwx) as (Wx & Ix & Dx). destruct (IH Hwl) as (Wl & Il & Dl).
    split; [constructor; assumption|].
    split; [cbn [flat_map]; apply incl_app; [apply incl_appl; exact Ix | apply incl_appr; exact Il]|].
    intros rho Hd. inversion Hd as [|? ? Hdx Hdl]; subst.
    destruct (Dx rho Hdx) as [X1 X2]. destruct (Dl rho Hdl) as (L1 & L2 & L3).
    split; [constructor; assumption|].
    rewrite !CL_sum_cons, !CL_prod_cons, X2, L2, L3. split; reflexivity.
Qed.

Lemma CL_cong_Add l l' : Forall2 refines l l' -> refines (Add l) (Add l').
Proof.
  intros H Hwf. apply CL_wf_Add in Hwf.
  destruct (CL_Forall2_refines l l' H Hwf) as (W & I & D).
  split; [apply CL_wf_Add; exact W|]. split; [exact I|].
  intros rho Hd. apply CL_dom_Add in Hd. destruct (D rho Hd) as (D1 & D2 & D3).
  split; [apply CL_dom_Add; exact D1 | exact D2].
Qed.

Lemma CL_cong_Mul l l' : Forall2 refines l l' -> refines (Mul l) (Mul l').
Proof.
  intros H Hwf. apply CL_wf_Mul in Hwf.
  destruct (CL_Forall2_refines l l' H Hwf) as (W & I & D).
  split; [apply CL_wf_Mul; exact W|]. split; [exact I|].
  intros rho Hd. apply CL_dom_Mul in Hd. destruct (D rho Hd) as (D1 & D2 & D3).
  split; [apply CL_dom_Mul; exact D1 | exact D3].
Qed.

Lemma CL_Forall2_refl (l : list E) : Forall2 refines l l.
Proof. induction l as [|a l IH]; constructor; [apply CL_refines_refl | exact IH]. Qed.

Lemma CL_Forall2_at l1 l2 (x x' : E) :
  refines x x' -> Forall2 refines (l1 ++ x :: l2) (l1 ++ x' :: l2).
Proof.
  intro H. apply Forall2_app; [apply CL_Forall2_refl|]. constructor; [exact H | apply CL_Forall2_refl].
Qed.

(** the single-position form *)
Lemma CL_cong_Add_at l1 l2 x x' : refines x x' -> refines (Add (l1 ++ x :: l2)) (Add (l1 ++ x' :: l2)).
Proof. intro H. apply CL_cong_Add, CL_Forall2_at, H. Qed.
Lemma CL_cong_Mul_at l1 l2 x x' : refines x x' -> refines (Mul (l1 ++ x :: l2)) (Mul (l1 ++ x' :: l2)).
Proof. intro H. apply CL_cong_Mul, CL_Forall2_at, H. Qed.

(** one-sided forms of the binary congruences *)
Lemma CL_cong_Minus_l a a' b : refines a a' -> refines (Minus a b) (Minus a' b).
Proof. intro H. apply CL_cong_Minus; [exact H | apply CL_refines_refl]. Qed.
Lemma CL_cong_Minus_r a b b' : refines b b' -> refines (Minus a b) (Minus a b').
Proof. intro H. apply CL_cong_Minus; [apply CL_refines_refl | exact H]. Qed.
Lemma CL_cong_Divide_l a a' b : refines a a' -> refines (Divide a b) (Divide a' b).
Proof. intro H. apply CL_cong_Divide; [exact H | apply CL_refines_refl]. Qed.
Lemma CL_cong_Divide_r a b b' : refines b b' -> refines (Divide a b) (Divide a b').
Proof. intro H. apply CL_cong_Divide; [apply CL_refines_refl | exact H]. Qed.
Lemma CL_cong_Power_l a a' b : refines a a' -> refines (Power a b) (Power a' b).
Proof. intro H. apply CL_cong_Power; [exact H | apply CL_refines_refl]. Qed.
Lemma CL_cong_Power_r a b b' : refines b b' -> refines (Power a b) (Power a b').
Proof. intro H. apply CL_cong_Power; [apply CL_refines_refl | exact H]. Qed.

(** ** The driver: an equation for [step_named] with the inner fixpoint named *)

Fixpoint CL_step_list (l : list E) : option (label (T:=R) * list E) :=
  match l with
  | [] => None
  | x :: r =>
      match step_named RInst x with
      | Some (lab, x') => Some (lab, x' :: r)
      | None =>
          match CL_step_list r with
          | Some (lab, r') => Some (lab, x :: r')
          | None => None
          end
      end
  end.

Definition CL_unary_step (e a : E) (rebuild : E -> E) : option (label (T:=R) * E) :=
  match step_named RInst a with
  | Some (lab, a') => Some (lab, rebuild a')
  | None => rules_at RInst e
  end.

Definition CL_binary_step (e a b : E) (rebuild : E -> E -> E) : option (label (T:=R) * E) :=
  match step_named RInst a with
  | Some (lab, a') => Some (lab, rebuild a' b)
  | None =>
      match step_named RInst b with
      | Some (lab, b') => Some (lab, rebuild a b')
      | None => rules_at RInst e
      end
  end.

Lemma CL_step_named_eq (e : E) :
  step_named RInst e =
  match consolidate RInst e with
  | Some c => Some (LConsolidate e, c)
  | None =>
      match e with
      | Const _ | Var _ => None
      | Add l => match CL_step_list l with
                 | Some (lab, l') => Some (lab, Add l')
                 | None => rules_at RInst e
                 end
      | Mul l => match CL_step_list l with
                 | Some (lab, l') => Some (lab, Mul l')
                 | None => rules_at RInst e
                 end
      | Minus a b => CL_binary_step e a b Minus
      | Divide a b => CL_binary_step e a b Divide
      | Power a b => CL_binary_step e a b Power
      | Neg a => CL_unary_step e a Neg
      | Recip a => CL_unary_step e a Recip
      | Sin a => CL_unary_step e a Sin
      | Cos a => CL_unary_step e a Cos
      | NthPow a n => CL_unary_step e a (fun x => NthPow x n)
      | NthRoot a n => CL_unary_step e a (fun x => NthRoot x n)
      | Exp a b => CL_unary_step e a (fun x => Exp x b)
      | Log a b => CL_unary_step e a (fun x => Log x b)
      end
  end.
Proof. destruct e; reflexivity. Qed.

Lemma CL_first_reducer (rs : list (rule (T:=R))) (e : E) nm e' :
  first_reducer rs e = Some (nm, e') -> exists f, In (nm, f) rs /\ f e = Some e'.
Proof.
  induction rs as [|[nm0 f0] rs IH]; cbn [first_reducer]; intro H.
  - discriminate.
  - destruct (f0 e) as [e0|] eqn:Hf.
    + inversion H; subst. exists f0. split; [left; reflexivity | exact Hf].
    + destruct (IH H) as (f & Hin & Hfe). exists f. split; [right; exact Hin | exact Hfe].
Qed.

Lemma CL_reducers_of_all (e : E) nm f :
  In (nm, f) (reducers_of RInst e) -> In (nm, f) (all_rules RInst).
Proof.
  intro H. unfold all_rules. rewrite !in_app_iff.
  destruct e; cbn [reducers_of] in H; try (destruct H; fail); tauto.
Qed.

Lemma CL_good_trace_app (a b : list (label (T:=R))) :
  good_trace (a ++ b) = good_trace a && good_trace b.
Proof. unfold good_trace. apply forallb_app. Qed.

Lemma CL_good_trace_cons (lab : label (T:=R)) tr :
  good_trace (lab :: tr) = true <-> bad_label lab = false /\ good_trace tr = true.
Proof.
  unfold good_trace. cbn [forallb]. rewrite andb_true_iff, negb_true_iff. tauto.
Qed.

(** ** The normal-form pass: pure facts about the partition and the assembly *)

Lemma CL_simplified_add (l : list E) : refines (Add l) (simplified_add RInst l).
Proof.
  destruct l as [|t [|t2 l]]; cbn [simplified_add]; try apply CL_refines_refl.
  - intros _. split; [exact I|]. split; [apply incl_refl|]. intros rho _. split; [exact I|]. reflexivity.
  - intros [Hw _]. split; [exact Hw|]. split; [cbn [vars flat_map]; rewrite app_nil_r; apply incl_refl|].
    intros rho [Hd _]. split; [exact Hd|]. cbn [denote fold_right]. ring.
Qed.

Lemma CL_simplified_multiply (l : list E) : refines (Mul l) (simplified_multiply RInst l).
Proof.
  destruct l as [|t [|t2 l]]; cbn [simplified_multiply]; try apply CL_refines_refl.
  - intros _. split; [exact I|]. split; [apply incl_refl|]. intros rho _. split; [exact I|]. reflexivity.
  - intros [Hw _]. split; [exact Hw|]. split; [cbn [vars flat_map]; rewrite app_nil_r; apply incl_refl|].
    intros rho [Hd _]. split; [exact Hd|]. cbn [denote fold_right]. ring.
Qed.

Lemma CL_minus_nil_r (a : E) : refines (Minus a (Add [])) a.
Proof.
  intros [Hw _]. split; [exact Hw|]. split; [cbn [vars flat_map]; rewrite app_nil_r; apply incl_refl|].
  intros rho [Hd _]. split; [exact Hd|]. cbn [denote fold_right]. ring.
Qed.

Lemma CL_minus_nil_l (b : E) : refines (Minus (Add []) b) (Neg b).
Proof.
  intros [_ Hw]. split; [exact Hw|]. split; [apply incl_refl|].
  intros rho [_ Hd]. split; [exact Hd|]. cbn [denote fold_right]. ring.
Qed.

Lemma CL_divide_nil_r (a : E) : refines (Divide a (Mul [])) a.
Proof.
  intros [Hw _]. split; [exact Hw|]. split; [cbn [vars flat_map]; rewrite app_nil_r; apply incl_refl|].
  intros rho [Hd _]. split; [exact Hd|]. cbn [denote fold_right]. field.
Qed.

Lemma CL_divide_nil_l (b : E) : refines (Divide (Mul []) b) (Recip b).
Proof.
  intros [_ Hw]. split; [exact Hw|]. split; [apply incl_refl|].
  intros rho (_ & Hd & Hnz). split; [split; assumption|]. cbn [denote fold_right]. field. exact Hnz.
Qed.

Lemma CL_assemble_add (ti tii : list E) :
  refines (Minus (Add ti) (Add tii)) (assemble_add RInst ti tii).
Proof.
  destruct ti as [|t ti]; destruct tii as [|u tii]; cbn [assemble_add].
  - intros _. split; [exact I|]. split; [apply incl_refl|]. intros rho _. split; [exact I|].
    cbn [denote fold_right]. simpl. ring.
  - eapply CL_refines_trans; [apply CL_minus_nil_l|]. apply CL_cong_Neg, CL_simplified_add.
  - eapply CL_refines_trans; [apply CL_minus_nil_r|]. apply CL_simplified_add.
  - apply CL_cong_Minus; apply CL_simplified_add.
Qed.

Lemma CL_assemble_multiply (nu de : list E) :
  refines (Divide (Mul nu) (Mul de)) (assemble_multiply RInst nu de).
Proof.
  destruct nu as [|t nu]; destruct de as [|u de]; cbn [assemble_multiply].
  - intros _. split; [exact I|]. split; [apply incl_refl|]. intros rho _. split; [exact I|].
    cbn [denote fold_right]. simpl. field.
  - eapply CL_refines_trans; [apply CL_divide_nil_l|]. apply CL_cong_Recip, CL_simplified_multiply.
  - eapply CL_refines_trans; [apply CL_divide_nil_r|]. apply CL_simplified_multiply.
  - apply CL_cong_Divide; apply CL_simplified_multiply.
Qed.

Lemma CL_is_Neg_inv (x : E) : is_Neg x = true -> x = Neg (inner_of x).
Proof. destruct x; cbn [is_Neg]; intro H; try discriminate; reflexivity. Qed.
Lemma CL_is_Recip_inv (x : E) : is_Recip x = true -> x = Recip (inner_of x).
Proof. destruct x; cbn [is_Recip]; intro H; try discriminate; reflexivity. Qed.

(** the partition of a sum into negations and others: value, domain, variables *)
Lemma CL_partition_add (l : list E) :
  refines (Add l)
    (Minus (Add (filter (fun x => negb (is_Neg x)) l)) (Add (map inner_of (filter is_Neg l)))).
Proof.
  induction l as [|x l IH].
  - cbn [filter map]. intros _. split; [split; exact I|]. split; [apply incl_refl|].
    intros rho _. split; [split; exact I|]. cbn [denote fold_right]. ring.
  - intros Hwf. apply CL_wf_Add in Hwf. inversion Hwf as [|? ? Hwx Hwl]; subst.
    apply CL_wf_Add in Hwl. destruct (IH Hwl) as ((W1 & W2) & Iv & D).
    apply CL_wf_Add in W1. apply CL_wf_Add in W2.
    cbn [filter]. destruct (is_Neg x) eqn:Hn; cbn [negb map].
    + destruct x as [| | | | | | |u| | | | | | |]; try discriminate Hn. cbn [wf inner_of] in Hwx |- *.
      split; [split; [apply CL_wf_Add; assumption | apply CL_wf_Add; constructor; assumption]|].
      split; [cbn [vars flat_map] in Iv |- *; intros z Hz; specialize (Iv z);
              rewrite ?in_app_iff in *; tauto|].
      intros rho Hd. apply CL_dom_Add in Hd. inversion Hd as [|? ? Hdx Hdl]; subst.
      apply CL_dom_Add in Hdl. destruct (D rho Hdl) as ((D1 & D2) & Dv).
      apply CL_dom_Add in D1. apply CL_dom_Add in D2. cbn [InDomain] in Hdx.
      split; [split; [apply CL_dom_Add; assumption | apply CL_dom_Add; constructor; assumption]|].
      cbn [denote fold_right] in Dv |- *. lra.
    + split; [split; [apply CL_wf_Add; constructor; assumption | apply CL_wf_Add; assumption]|].
      split; [cbn [vars flat_map] in Iv |- *; intros z Hz; specialize (Iv z);
              rewrite ?in_app_iff in *; tauto|].
      intros rho Hd. apply CL_dom_Add in Hd. inversion Hd as [|? ? Hdx Hdl]; subst.
      apply CL_dom_Add in Hdl. destruct (D rho Hdl) as ((D1 & D2) & Dv).
      apply CL_dom_Add in D1. apply CL_dom_Add in D2.
      split; [split; [apply CL_dom_Add; constructor; assumption | apply CL_dom_Add; assumption]|].
      cbn [denote fold_right] in Dv |- *. lra.
Qed.

(** the partition of a product into reciprocals and others; every denominator is non-zero
    because each [Recip u] is inside its domain *)
Lemma CL_partition_mul (l : list E) :
  refines (Mul l)
    (Divide (Mul (filter (fun x => negb (is_Recip x)) l)) (Mul (map inner_of (filter is_Recip l)))).
Proof.
  induction l as [|x l IH].
  - cbn [filter map]. intros _. split; [split; exact I|]. split; [apply incl_refl|].
    intros rho _. cbn [InDomain denote fold_right]. split; [repeat split; lra | field].
  - intros Hwf. apply CL_wf_Mul in Hwf. inversion Hwf as [|? ? Hwx Hwl]; subst.
    apply CL_wf_Mul in Hwl. destruct (IH Hwl) as ((W1 & W2) & Iv & D).
    apply CL_wf_Mul in W1. apply CL_wf_Mul in W2.
    cbn [filter]. destruct (is_Recip x) eqn:Hn; cbn [negb map].
    + destruct x as [| | | | | | | |u| | | | | |]; try discriminate Hn. cbn [wf inner_of] in Hwx |- *.
      split; [split; [apply CL_wf_Mul; assumption | apply CL_wf_Mul; constructor; assumption]|].
      split; [cbn [vars flat_map] in Iv |- *; intros z Hz; specialize (Iv z);
              rewrite ?in_app_iff in *; tauto|].
      intros rho Hd. apply CL_dom_Mul in Hd. inversion Hd as [|? ? Hdx Hdl]; subst.
      apply CL_dom_Mul in Hdl. destruct (D rho Hdl) as ((D1 & D2 & Dnz) & Dv).
      apply CL_dom_Mul in D1. apply CL_dom_Mul in D2. cbn [InDomain] in Hdx. destruct Hdx as [Hdu Hunz].
      cbn [denote fold_right] in Dv, Dnz |- *.
      split; [split; [apply CL_dom_Mul; assumption
                     | split; [apply CL_dom_Mul; constructor; assumption
                              | apply Rmult_integral_contrapositive_currified; assumption]]|].
      rewrite <- Dv. field. split; assumption.
    + split; [split; [apply CL_wf_Mul; constructor; assumption | apply CL_wf_Mul; assumption]|].
      split; [cbn [vars flat_map] in Iv |- *; intros z Hz; specialize (Iv z);
              rewrite ?in_app_iff in *; tauto|].
      intros rho Hd. apply CL_dom_Mul in Hd. inversion Hd as [|? ? Hdx Hdl]; subst.
      apply CL_dom_Mul in Hdl. destruct (D rho Hdl) as ((D1 & D2 & Dnz) & Dv).
      apply CL_dom_Mul in D1. apply CL_dom_Mul in D2.
      cbn [denote fold_right] in Dv, Dnz |- *.
      split; [split; [apply CL_dom_Mul; constructor; assumption
                     | split; [apply CL_dom_Mul; assumption | exact Dnz]]|].
      rewrite <- Dv. field. exact Dnz.
Qed.

Lemma CL_omapM_Forall2 {A B} (f : A -> option B) l ys :
  omapM f l = Some ys -> Forall2 (fun x y => f x = Some y) l ys.
Proof.
  revert ys. induction l as [|x l IH]; intros ys H; cbn [omapM] in H.
  - inversion H. constructor.
  - destruct (f x) as [y|] eqn:Hf; [|discriminate].
    destruct (omapM f l) as [ys0|] eqn:Hm; [|discriminate].
    inversion H; subst. constructor; [exact Hf | apply IH; reflexivity].
Qed.

(** elementwise refinement of a list normalized term by term, the traces concatenated *)
Lemma CL_omapM_refines (f : E -> option E) (tr : E -> list (label (T:=R))) (g : E -> E) l ys :
  (forall x y, f x = Some y -> good_trace (tr x) = true -> refines (g x) y) ->
  omapM f l = Some ys -> good_trace (flat_map tr l) = true -> Forall2 refines (map g l) ys.
Proof.
  intros Hf Hm. apply CL_omapM_Forall2 in Hm.
  induction Hm as [|x y l ys Hxy Hl IH]; cbn [flat_map map]; intro Hg.
  - constructor.
  - rewrite CL_good_trace_app in Hg. apply andb_true_iff in Hg. destruct Hg as [G1 G2].
    constructor; [apply Hf; assumption | apply IH; exact G2].
Qed.

Section C.
  Hypothesis Hrules : C08_rules_sound.
  Hypothesis Hcons : C08_consolidate_sound.

  (** *** one step *)

  Lemma CL_rules_at_sound (e e' : E) lab :
    rules_at RInst e = Some (lab, e') -> bad_label lab = false -> refines e e'.
  Proof.
    unfold rules_at, apply_reducers. intros H Hbad.
    destruct (first_reducer (reducers_of RInst e) e) as [[nm e0]|] eqn:Hf; [|discriminate].
    inversion H; subst lab e0. clear H.
    destruct (CL_first_reducer _ _ _ _ Hf) as (f & Hin & Hfe).
    eapply Hrules; [apply (CL_reducers_of_all e); exact Hin | exact Hfe | exact Hbad].
  Qed.

  Definition CL_step_ok (e : E) : Prop :=
    forall e' lab, step_named RInst e = Some (lab, e') -> bad_label lab = false -> refines e e'.

  (** the inner [step_list] fixpoint *)
  Lemma CL_step_list_sound (l : list E) :
    Forall CL_step_ok l ->
    forall l' lab, CL_step_list l = Some (lab, l') -> bad_label lab = false -> Forall2 refines l l'.
  Proof.
    induction 1 as [|x r Hx Hr IH]; intros l' lab H Hbad; cbn [CL_step_list] in H.
    - discriminate.
    - destruct (step_named RInst x) as [[lab0 x']|] eqn:Hs.
      + inversion H; subst lab0 l'. constructor; [eapply Hx; eassumption | apply CL_Forall2_refl].
      + destruct (CL_step_list r) as [[lab0 r']|] eqn:Hsl; [|discriminate].
        inversion H; subst lab0 l'. constructor; [apply CL_refines_refl | eapply IH; [reflexivity | exact Hbad]].
  Qed.

  Lemma CL_unary_step_sound (e a : E) (rebuild : E -> E) :
    CL_step_ok a ->
    (forall a', refines a a' -> refines (rebuild a) (rebuild a')) ->
    e = rebuild a ->
    forall e' lab, CL_unary_step e a rebuild = Some (lab, e') -> bad_label lab = false -> refines e e'.
  Proof.
    intros Ha Hcong He e' lab H Hbad. unfold CL_unary_step in H.
    destruct (step_named RInst a) as [[lab0 a']|] eqn:Hs.
    - inversion H; subst lab0 e'. rewrite He. apply Hcong. eapply Ha; eassumption.
    - eapply CL_rules_at_sound; eassumption.
  Qed.

  Lemma CL_binary_step_sound (e a b : E) (rebuild : E -> E -> E) :
    CL_step_ok a -> CL_step_ok b ->
    (forall a' b', refines a a' -> refines b b' -> refines (rebuild a b) (rebuild a' b')) ->
    e = rebuild a b ->
    forall e' lab, CL_binary_step e a b rebuild = Some (lab, e') -> bad_label lab = false -> refines e e'.
  Proof.
    intros Ha Hb Hcong He e' lab H Hbad. unfold CL_binary_step in H.
    destruct (step_named RInst a) as [[lab0 a']|] eqn:Hsa.
    - inversion H; subst lab0 e'. rewrite He. apply Hcong; [eapply Ha; eassumption | apply CL_refines_refl].
    - destruct (step_named RInst b) as [[lab0 b']|] eqn:Hsb.
      + inversion H; subst lab0 e'. rewrite He. apply Hcong; [apply CL_refines_refl | eapply Hb; eassumption].
      + eapply CL_rules_at_sound; eassumption.
  Qed.

  Lemma CL_step_ok_all (e : E) : CL_step_ok e.
  Proof.
    induction e as [c|x|l IHl|l IHl|a b IHa IHb|a b IHa IHb|a b IHa IHb|a IHa|a IHa|a IHa|a IHa
                   |a n IHa|a n IHa|a b IHa|a b IHa] using expr_ind';
      intros e' lab H Hbad; rewrite CL_step_named_eq in H;
      (match type of H with
       | match consolidate RInst ?e0 with _ => _ end = _ =>
           destruct (consolidate RInst e0) as [c0|] eqn:Hc;
           [inversion H; subst lab e'; apply Hcons; exact Hc|]
       end).
    - discriminate.
    - discriminate.
    - destruct (CL_step_list l) as [[lab0 l']|] eqn:Hsl.
      + inversion H; subst lab0 e'. apply CL_cong_Add. eapply CL_step_list_sound; eassumption.
      + eapply CL_rules_at_sound; eassumption.
    - destruct (CL_step_list l) as [[lab0 l']|] eqn:Hsl.
      + inversion H; subst lab0 e'. apply CL_cong_Mul. eapply CL_step_list_sound; eassumption.
      + eapply CL_rules_at_sound; eassumption.
    - eapply (CL_binary_step_sound _ a b Minus); try eassumption; [intros; apply CL_cong_Minus; assumption | reflexivity].
    - eapply (CL_binary_step_sound _ a b Divide); try eassumption; [intros; apply CL_cong_Divide; assumption | reflexivity].
    - eapply (CL_binary_step_sound _ a b Power); try eassumption; [intros; apply CL_cong_Power; assumption | reflexivity].
    - eapply (CL_unary_step_sound _ a Neg); try eassumption; [intros; apply CL_cong_Neg; assumption | reflexivity].
    - eapply (CL_unary_step_sound _ a Recip); try eassumption; [intros; apply CL_cong_Recip; assumption | reflexivity].
    - eapply (CL_unary_step_sound _ a Sin); try eassumption; [intros; apply CL_cong_Sin; assumption | reflexivity].
    - eapply (CL_unary_step_sound _ a Cos); try eassumption; [intros; apply CL_cong_Cos; assumption | reflexivity].
    - eapply (CL_unary_step_sound _ a (fun x => NthPow x n)); try eassumption;
        [intros; apply CL_cong_NthPow; assumption | reflexivity].
    - eapply (CL_unary_step_sound _ a (fun x => NthRoot x n)); try eassumption;
        [intros; apply CL_cong_NthRoot; assumption | reflexivity].
    - eapply (CL_unary_step_sound _ a (fun x => Exp x b)); try eassumption;
        [intros; apply CL_cong_Exp; assumption | reflexivity].
    - eapply (CL_unary_step_sound _ a (fun x => Log x b)); try eassumption;
        [intros; apply CL_cong_Log; assumption | reflexivity].
  Qed.

  Theorem step_sound : C08_step_sound.
  Proof. intros e e' lab H Hbad. exact (CL_step_ok_all e e' lab H Hbad). Qed.

  (** *** any number of steps *)

  Theorem fully_reduce_sound : C08_fully_reduce_sound.
  Proof.
    intro fuel. induction fuel as [|f IH]; intros e Hg; cbn [fully_reduce reduce_trace] in *.
    - apply CL_refines_refl.
    - unfold step. destruct (step_named RInst e) as [[lab e']|] eqn:Hs.
      + apply CL_good_trace_cons in Hg. destruct Hg as [Hbad Hg].
        eapply CL_refines_trans; [eapply step_sound; eassumption | apply IH; exact Hg].
      + apply CL_refines_refl.
  Qed.
  (** *** the normal-form pass and [_normalize] *)

  Definition CL_nfr_ok (fuel d : nat) : Prop :=
    forall e e' : E,
      nfr RInst fuel d e = Some e' -> good_trace (nfr_trace RInst fuel d e) = true -> refines e e'.

  (* t._normalize() for a term t of a sum or product *)
  Lemma CL_norm_sound fuel d (t y : E) :
    CL_nfr_ok fuel d ->
    nfr RInst fuel d (fully_reduce RInst fuel t) = Some y ->
    good_trace (reduce_trace RInst fuel t ++ nfr_trace RInst fuel d (fully_reduce RInst fuel t)) = true ->
    refines t y.
  Proof.
    intros IH Hn Hg. rewrite CL_good_trace_app in Hg. apply andb_true_iff in Hg. destruct Hg as [G1 G2].
    eapply CL_refines_trans; [apply fully_reduce_sound; exact G1 | apply IH; assumption].
  Qed.

  Lemma CL_opt_map1 (f : E -> E) o (e' : E) :
    opt_map1 f o = Some e' -> exists a', o = Some a' /\ e' = f a'.
  Proof. destruct o as [a'|]; cbn [opt_map1]; intro H; [|discriminate]. inversion H. eauto. Qed.

  Lemma CL_opt_map2 (f : E -> E -> E) o1 o2 (e' : E) :
    opt_map2 f o1 o2 = Some e' -> exists a' b', o1 = Some a' /\ o2 = Some b' /\ e' = f a' b'.
  Proof.
    destruct o1 as [a'|]; destruct o2 as [b'|]; cbn [opt_map2]; intro H; try discriminate.
    inversion H. eauto.
  Qed.

  Lemma CL_nfr_ok_all fuel d : CL_nfr_ok fuel d.
  Proof.
    induction d as [|d IH]; intros e e' Hn Hg.
    - discriminate Hn.
    - destruct e as [c|x|l|l|a b|a b|a b|a|a|a|a|a n|a n|a b|a b];
        cbn [nfr nfr_trace] in Hn, Hg.
      + inversion Hn. apply CL_refines_refl.
      + inversion Hn. apply CL_refines_refl.
      + unfold partition_by in Hn, Hg.
        destruct (omapM (fun t => nfr RInst fuel d (fully_reduce RInst fuel t))
                    (filter (fun x => negb (is_Neg x)) l)) as [ti|] eqn:H1; [|discriminate].
        destruct (omapM (fun t => nfr RInst fuel d (fully_reduce RInst fuel (inner_of t)))
                    (filter is_Neg l)) as [tii|] eqn:H2; [|discriminate].
        inversion Hn; subst e'. clear Hn.
        rewrite CL_good_trace_app in Hg. apply andb_true_iff in Hg. destruct Hg as [G1 G2].
        eapply CL_refines_trans; [apply CL_partition_add|].
        eapply CL_refines_trans; [|apply CL_assemble_add].
        apply CL_cong_Minus; apply CL_cong_Add.
        * rewrite <- (map_id (filter (fun x => negb (is_Neg x)) l)).
          eapply CL_omapM_refines; [|exact H1|exact G1].
          intros x y Hx Hgx. cbv beta. eapply CL_norm_sound; eassumption.
        * eapply CL_omapM_refines; [|exact H2|exact G2].
          intros x y Hx Hgx. eapply CL_norm_sound; eassumption.
      + unfold partition_by in Hn, Hg.
        destruct (omapM (fun t => nfr RInst fuel d (fully_reduce RInst fuel t))
                    (filter (fun x => negb (is_Recip x)) l)) as [ti|] eqn:H1; [|discriminate].
        destruct (omapM (fun t => nfr RInst fuel d (fully_reduce RInst fuel (inner_of t)))
                    (filter is_Recip l)) as [tii|] eqn:H2; [|discriminate].
        inversion Hn; subst e'. clear Hn.
        rewrite CL_good_trace_app in Hg. apply andb_true_iff in Hg. destruct Hg as [G1 G2].
        eapply CL_refines_trans; [apply CL_partition_mul|].
        eapply CL_refines_trans; [|apply CL_assemble_multiply].
        apply CL_cong_Divide; apply CL_cong_Mul.
        * rewrite <- (map_id (filter (fun x => negb (is_Recip x)) l)).
          eapply CL_omapM_refines; [|exact H1|exact G1].
          intros x y Hx Hgx. cbv beta. eapply CL_norm_sound; eassumption.
        * eapply CL_omapM_refines; [|exact H2|exact G2].
          intros x y Hx Hgx. eapply CL_norm_sound; eassumption.
      + apply CL_opt_map2 in Hn. destruct Hn as (a' & b' & Ha & Hb & ->).
        rewrite CL_good_trace_app in Hg. apply andb_true_iff in Hg. destruct Hg as [G1 G2].
        apply CL_cong_Minus; apply IH; assumption.
      + apply CL_opt_map2 in Hn. destruct Hn as (a' & b' & Ha & Hb & ->).
        rewrite CL_good_trace_app in Hg. apply andb_true_iff in Hg. destruct Hg as [G1 G2].
        apply CL_cong_Divide; apply IH; assumption.
      + apply CL_opt_map2 in Hn. destruct Hn as (a' & b' & Ha & Hb & ->).
        rewrite CL_good_trace_app in Hg. apply andb_true_iff in Hg. destruct Hg as [G1 G2].
        apply CL_cong_Power; apply IH; assumption.
      + apply CL_opt_map1 in Hn. destruct Hn as (a' & Ha & ->). apply CL_cong_Neg, IH; assumption.
      + apply CL_opt_map1 in Hn. destruct Hn as (a' & Ha & ->). apply CL_cong_Recip, IH; assumption.
      + apply CL_opt_map1 in Hn. destruct Hn as (a' & Ha & ->). apply CL_cong_Sin, IH; assumption.
      + apply CL_opt_map1 in Hn. destruct Hn as (a' & Ha & ->). apply CL_cong_Cos, IH; assumption.
      + apply CL_opt_map1 in Hn. destruct Hn as (a' & Ha & ->). apply CL_cong_NthPow, IH; assumption.
      + apply CL_opt_map1 in Hn. destruct Hn as (a' & Ha & ->). apply CL_cong_NthRoot, IH; assumption.
      + apply CL_opt_map1 in Hn. destruct Hn as (a' & Ha & ->). apply CL_cong_Exp, IH; assumption.
      + apply CL_opt_map1 in Hn. destruct Hn as (a' & Ha & ->). apply CL_cong_Log, IH; assumption.
  Qed.

  Theorem nfr_sound : C08_nfr_sound.
  Proof. intros fuel d e e' Hn Hg. exact (CL_nfr_ok_all fuel d e e' Hn Hg). Qed.

  Theorem normalize_sound : C08_normalize_sound.
  Proof.
    intros fuel d e e' Hn Hg. unfold normalize in Hn. unfold normalize_trace in Hg.
    eapply CL_norm_sound; [apply CL_nfr_ok_all | exact Hn | exact Hg].
  Qed.
End C.

(** ** Non-vacuity: the premises of the four theorems hold on concrete non-trivial trees *)

Example CL_step_nonvacuous :
  let e : E := Add [Var 1%positive; Sin (Neg (Neg (Var 2%positive)))] in
  exists lab, step_named RInst e = Some (lab, Add [Var 1%positive; Sin (Var 2%positive)])
              /\ bad_label lab = false /\ wfR e.
Proof. cbv zeta. eexists. split; [vm_compute; reflexivity|]. split; [reflexivity | simpl; tauto]. Qed.

Example CL_fully_reduce_nonvacuous :
  let e : E := Add [Var 1%positive; Sin (Neg (Neg (Var 2%positive)))] in
  good_trace (reduce_trace RInst 5 e) = true /\
  fully_reduce RInst 5 e = Add [Var 1%positive; Sin (Var 2%positive)].
Proof. cbv zeta. split; vm_compute; reflexivity. Qed.

Example CL_nfr_nonvacuous :
  let e : E := Mul [Add [Var 1%positive; Neg (Var 2%positive)]; Recip (Var 3%positive)] in
  nfr RInst 5 4 e = Some (Divide (Minus (Var 1%positive) (Var 2%positive)) (Var 3%positive)) /\
  good_trace (nfr_trace RInst 5 4 e) = true.
Proof. cbv zeta. split; vm_compute; reflexivity. Qed.

Example CL_normalize_nonvacuous :
  let e : E := Mul [Add [Var 1%positive; Neg (Neg (Neg (Var 2%positive)))]; Recip (Var 3%positive)] in
  normalize RInst 5 4 e = Some (Divide (Minus (Var 1%positive) (Var 2%positive)) (Var 3%positive)) /\
  good_trace (normalize_trace RInst 5 4 e) = true.
Proof. cbv zeta. split; vm_compute; reflexivity. Qed.

Print Assumptions step_sound.
Print Assumptions fully_reduce_sound.
Print Assumptions nfr_sound.
Print Assumptions normalize_sound.
