(** * Closure: the driver and the normal-form pass refine, given that every single rule and
    constant folding refine.

    Inside [Section C] the two premises are
      Hrules : C08_rules_sound          (every rule of [all_rules RInst], KF-ROOT instance excluded)
      Hcons  : C08_consolidate_sound    (constant folding)
    and after the section the main theorems take them as explicit premises:
      step_sound          : C08_rules_sound -> C08_consolidate_sound -> C08_step_sound
      fully_reduce_sound  : C08_rules_sound -> C08_consolidate_sound -> C08_fully_reduce_sound
      nfr_sound           : C08_rules_sound -> C08_consolidate_sound -> C08_nfr_sound
      normalize_sound     : C08_rules_sound -> C08_consolidate_sound -> C08_normalize_sound
    Premise-free facts (before the section): [refines] is a preorder and a congruence for every
    constructor ([CL_refines_*], [CL_cong_*]), the partition lemmas behind the normal-form pass
    ([CL_partition_add], [CL_partition_mul], [CL_assemble_add], [CL_assemble_mul]). *)
From Coq Require Import Reals ZArith List Bool String Lra Lia.
From SM Require Import Num Syntax Outcome MathFun Eval Rules Driver Normalize RInst Denote Spec.
Import ListNotations.
Open Scope R_scope.

Local Notation E := (expr R).

(** ** [Add]/[Mul] over lists: well-formedness, variables, domain, value *)

Definition CL_sum (rho : env) (l : list E) : R := fold_right (fun a acc => denote rho a + acc) 0 l.
Definition CL_prod (rho : env) (l : list E) : R := fold_right (fun a acc => denote rho a * acc) 1 l.

Lemma CL_denote_Add rho l : denote rho (Add l) = CL_sum rho l.
Proof. reflexivity. Qed.
Lemma CL_denote_Mul rho l : denote rho (Mul l) = CL_prod rho l.
Proof. reflexivity. Qed.

Lemma CL_sum_cons rho x l : CL_sum rho (x :: l) = denote rho x + CL_sum rho l.
Proof. reflexivity. Qed.
Lemma CL_prod_cons rho x l : CL_prod rho (x :: l) = denote rho x * CL_prod rho l.
Proof. reflexivity. Qed.
Lemma CL_sum_nil rho : CL_sum rho [] = 0.
Proof. reflexivity. Qed.
Lemma CL_prod_nil rho : CL_prod rho [] = 1.
Proof. reflexivity. Qed.

Lemma CL_sum_app rho l1 l2 : CL_sum rho (l1 ++ l2) = CL_sum rho l1 + CL_sum rho l2.
Proof.
  induction l1 as [|a l1 IH]; cbn [app].
  - rewrite CL_sum_nil. ring.
  - rewrite !CL_sum_cons, IH. ring.
Qed.
Lemma CL_prod_app rho l1 l2 : CL_prod rho (l1 ++ l2) = CL_prod rho l1 * CL_prod rho l2.
Proof.
  induction l1 as [|a l1 IH]; cbn [app].
  - rewrite CL_prod_nil. ring.
  - rewrite !CL_prod_cons, IH. ring.
Qed.

Lemma CL_fold_and_Forall {A} (P : A -> Prop) l :
  fold_right (fun x acc => P x /\ acc) True l <-> Forall P l.
Proof.
  induction l as [|a l IH]; simpl.
  - split; auto.
  - split.
    + intros [H1 H2]. constructor; [exact H1 | apply IH; exact H2].
    + intro H. inversion H as [|? ? H1 H2]; subst. split; [exact H1 | apply IH; exact H2].
Qed.

Lemma CL_wf_Add l : wfR (Add l) <-> Forall wfR l.
Proof. apply (CL_fold_and_Forall wfR). Qed.
Lemma CL_wf_Mul l : wfR (Mul l) <-> Forall wfR l.
Proof. apply (CL_fold_and_Forall wfR). Qed.
Lemma CL_dom_Add rho l : InDomain rho (Add l) <-> Forall (InDomain rho) l.
Proof. apply (CL_fold_and_Forall (InDomain rho)). Qed.
Lemma CL_dom_Mul rho l : InDomain rho (Mul l) <-> Forall (InDomain rho) l.
Proof. apply (CL_fold_and_Forall (InDomain rho)). Qed.
Lemma CL_vars_Add (l : list E) : vars (Add l) = flat_map vars l.
Proof. reflexivity. Qed.
Lemma CL_vars_Mul (l : list E) : vars (Mul l) = flat_map vars l.
Proof. reflexivity. Qed.

(** ** [refines] is a preorder *)

Lemma CL_refines_refl e : refines e e.
Proof.
  intro Hwf. split; [exact Hwf|]. split; [apply incl_refl|]. intros rho Hd. split; [exact Hd | reflexivity].
Qed.

Lemma CL_refines_trans e1 e2 e3 : refines e1 e2 -> refines e2 e3 -> refines e1 e3.
Proof.
  intros H12 H23 Hwf.
  destruct (H12 Hwf) as (W2 & I2 & D2).
  destruct (H23 W2) as (W3 & I3 & D3).
  split; [exact W3|]. split; [eapply incl_tran; eassumption|].
  intros rho Hd. destruct (D2 rho Hd) as [Hd2 E2]. destruct (D3 rho Hd2) as [Hd3 E3].
  split; [exact Hd3 | congruence].
Qed.

(** ** Congruence: unary constructors *)

Ltac CL_unary :=
  let H := fresh "H" in let Hwf := fresh "Hwf" in
  let W := fresh "W" in let I := fresh "I" in let D := fresh "D" in
  let rho := fresh "rho" in let Hd := fresh "Hd" in
  let D1 := fresh "D1" in let D2 := fresh "D2" in
  intros H Hwf; cbn [wf] in Hwf;
  repeat match type of Hwf with _ /\ _ => destruct Hwf as [? Hwf] end;
  destruct (H Hwf) as (W & I & D);
  split; [cbn [wf]; repeat split; assumption|];
  split; [exact I|];
  intros rho Hd; cbn [InDomain denote] in Hd |- *;
  repeat match type of Hd with _ /\ _ => destruct Hd as [Hd ?] end;
  destruct (D rho Hd) as [D1 D2]; rewrite D2;
  repeat split; auto.

Lemma CL_cong_Neg a a' : refines a a' -> refines (Neg a) (Neg a').
Proof. CL_unary. Qed.
Lemma CL_cong_Recip a a' : refines a a' -> refines (Recip a) (Recip a').
Proof. CL_unary. Qed.
Lemma CL_cong_Sin a a' : refines a a' -> refines (Sin a) (Sin a').
Proof. CL_unary. Qed.
Lemma CL_cong_Cos a a' : refines a a' -> refines (Cos a) (Cos a').
Proof. CL_unary. Qed.
Lemma CL_cong_NthPow n a a' : refines a a' -> refines (NthPow a n) (NthPow a' n).
Proof. CL_unary. Qed.
Lemma CL_cong_NthRoot n a a' : refines a a' -> refines (NthRoot a n) (NthRoot a' n).
Proof. CL_unary. Qed.
Lemma CL_cong_Exp b a a' : refines a a' -> refines (Exp a b) (Exp a' b).
Proof. CL_unary. Qed.
Lemma CL_cong_Log b a a' : refines a a' -> refines (Log a b) (Log a' b).
Proof. CL_unary. Qed.

(** ** Congruence: binary constructors (both arguments at once; one-sided versions follow by
    reflexivity) *)

Ltac CL_binary :=
  let Ha := fresh "Ha" in let Hb := fresh "Hb" in let Hwf := fresh "Hwf" in
  let Wa := fresh "Wa" in let Ia := fresh "Ia" in let Da := fresh "Da" in
  let Wb := fresh "Wb" in let Ib := fresh "Ib" in let Db := fresh "Db" in
  let rho := fresh "rho" in let Hd := fresh "Hd" in
  let Hda := fresh "Hda" in let Hdb := fresh "Hdb" in
  let A1 := fresh "A1" in let A2 := fresh "A2" in
  let B1 := fresh "B1" in let B2 := fresh "B2" in
  intros Ha Hb Hwf; cbn [wf] in Hwf; destruct Hwf as [Hwfa Hwfb];
  destruct (Ha Hwfa) as (Wa & Ia & Da); destruct (Hb Hwfb) as (Wb & Ib & Db);
  split; [cbn [wf]; split; assumption|];
  split; [cbn [vars]; apply incl_app; [apply incl_appl; exact Ia | apply incl_appr; exact Ib]|];
  intros rho Hd; cbn [InDomain denote] in Hd |- *;
  destruct Hd as [Hda Hd];
  try (destruct Hd as [Hdb Hd]);
  [destruct (Da rho Hda) as [A1 A2]; destruct (Db rho ltac:(first [exact Hdb | exact Hd])) as [B1 B2];
   rewrite A2, B2; repeat split; auto].

Lemma CL_cong_Minus a a' b b' : refines a a' -> refines b b' -> refines (Minus a b) (Minus a' b').
Proof. CL_binary. Qed.
Lemma CL_cong_Divide a a' b b' : refines a a' -> refines b b' -> refines (Divide a b) (Divide a' b').
Proof. CL_binary. Qed.
Lemma CL_cong_Power a a' b b' : refines a a' -> refines b b' -> refines (Power a b) (Power a' b').
Proof. CL_binary. Qed.

(** ** Congruence: the n-ary constructors, all positions at once *)

Lemma CL_Forall2_refines l l' :
  Forall2 refines l l' -> Forall wfR l ->
  Forall wfR l' /\ incl (flat_map vars l') (flat_map vars l) /\
  forall rho, Forall (InDomain rho) l ->
    Forall (InDomain rho) l' /\ CL_sum rho l' = CL_sum rho l /\ CL_prod rho l' = CL_prod rho l.
Proof.
  induction 1 as [|x x' l l' Hx Hl IH]; intro Hwf.
  - split; [constructor|]. split; [apply incl_refl|]. intros rho _. repeat split; constructor.
  - inversion Hwf as [|? ? Hwx Hwl]; subst.
    destruct (Hx Hwx) as (Wx & Ix & Dx). destruct (IH Hwl) as (Wl & Il & Dl).
    split; [constructor; assumption|].
    split; [cbn [flat_map]; apply incl_app; [apply incl_appl; exact Ix | apply incl_appr; exact Il]|].
    intros rho Hd. inversion Hd as [|? ? Hdx Hdl]; subst.
    destruct (Dx rho Hdx) as [X1 X2]. destruct (Dl rho Hdl) as (L1 & L2 & L3).
    split; [constructor; assumption|].
    rewrite !CL_sum_cons, !CL_prod_cons, X2, L2, L3. split; reflexivity.
Qed.

Lemma CL_cong_Add l l' : Forall2 refines l l' -> refines (Add l) (Add l').
Proof.
  intros H Hwf. apply CL_wf_Add in Hwf.
  destruct (CL_Forall2_refines l l' H Hwf) as (W & I & D).
  split; [apply CL_wf_Add; exact W|]. split; [exact I|].
  intros rho Hd. apply CL_dom_Add in Hd. destruct (D rho Hd) as (D1 & D2 & D3).
  split; [apply CL_dom_Add; exact D1 | exact D2].
Qed.

Lemma CL_cong_Mul l l' : Forall2 refines l l' -> refines (Mul l) (Mul l').
Proof.
  intros H Hwf. apply CL_wf_Mul in Hwf.
  destruct (CL_Forall2_refines l l' H Hwf) as (W & I & D).
  split; [apply CL_wf_Mul; exact W|]. split; [exact I|].
  intros rho Hd. apply CL_dom_Mul in Hd. destruct (D rho Hd) as (D1 & D2 & D3).
  split; [apply CL_dom_Mul; exact D1 | exact D3].
Qed.

Lemma CL_Forall2_refl (l : list E) : Forall2 refines l l.
Proof. induction l as [|a l IH]; constructor; [apply CL_refines_refl | exact IH]. Qed.

Lemma CL_Forall2_at l1 l2 (x x' : E) :
  refines x x' -> Forall2 refines (l1 ++ x :: l2) (l1 ++ x' :: l2).
Proof.
  intro H. apply Forall2_app; [apply CL_Forall2_refl|]. constructor; [exact H | apply CL_Forall2_refl].
Qed.

(** the single-position form *)
Lemma CL_cong_Add_at l1 l2 x x' : refines x x' -> refines (Add (l1 ++ x :: l2)) (Add (l1 ++ x' :: l2)).
Proof. intro H. apply CL_cong_Add, CL_Forall2_at, H. Qed.
Lemma CL_cong_Mul_at l1 l2 x x' : refines x x' -> refines (Mul (l1 ++ x :: l2)) (Mul (l1 ++ x' :: l2)).
Proof. intro H. apply CL_cong_Mul, CL_Forall2_at, H. Qed.

(** one-sided forms of the binary congruences *)
Lemma CL_cong_Minus_l a a' b : refines a a' -> refines (Minus a b) (Minus a' b).
Proof. intro H. apply CL_cong_Minus; [exact H | apply CL_refines_refl]. Qed.
Lemma CL_cong_Minus_r a b b' : refines b b' -> refines (Minus a b) (Minus a b').
Proof. intro H. apply CL_cong_Minus; [apply CL_refines_refl | exact H]. Qed.
Lemma CL_cong_Divide_l a a' b : refines a a' -> refines (Divide a b) (Divide a' b).
Proof. intro H. apply CL_cong_Divide; [exact H | apply CL_refines_refl]. Qed.
Lemma CL_cong_Divide_r a b b' : refines b b' -> refines (Divide a b) (Divide a b').
Proof. intro H. apply CL_cong_Divide; [apply CL_refines_refl | exact H]. Qed.
Lemma CL_cong_Power_l a a' b : refines a a' -> refines (Power a b) (Power a' b).
Proof. intro H. apply CL_cong_Power; [exact H | apply CL_refines_refl]. Qed.
Lemma CL_cong_Power_r a b b' : refines b b' -> refines (Power a b) (Power a b').
Proof. intro H. apply CL_cong_Power; [apply CL_refines_refl | exact H]. Qed.
