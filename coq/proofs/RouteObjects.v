(** * RouteObjects: the last sentence of C06 — [Differential(e).component(v)] equals
    [Partial(e, v)] and [Differential(e).at(p)] equals [LocatedDifferential(e, p)] — about the
    object model of RouteAst.v (which TieRoute.v ties to the source of the four classes) and the
    equality of Objects.v (which TieObj.v ties to the source of the [__eq__] methods: it looks at
    the original expression, the variable name and the point, and at nothing else). *)
From Coq Require Import List Bool PArith.
From SM Require Import Num Syntax Outcome Eval Forward Reverse Synth RInst Objects SpecObjects RouteAst SpecRoutes.
From SM.proofs Require Import EqHash.
Import ListNotations.

Section RouteObjects.
  Context {T : Type} (N : NumOps T).
  Hypothesis HN : num_equiv N.
  Variable norm : expr T -> expr T.
  Variable enum : expr T -> list name.

  Lemma component_fields : forall e v early,
    partial_pyobj (diff_component N norm (mk_differential N norm enum e early) v) = OPartial e v.
  Proof.
    intros e v early. unfold diff_component, mk_differential, partial_pyobj, mk_partial.
    destruct early; cbn [dsps de]; [destruct (slookup v _)|]; reflexivity.
  Qed.

  Lemma component_equals_partial : forall e v early early',
    py_eq N (partial_pyobj (diff_component N norm (mk_differential N norm enum e early) v))
            (partial_pyobj (mk_partial N norm e v early' None)) = true /\
    py_eq N (partial_pyobj (mk_partial N norm e v early' None))
            (partial_pyobj (diff_component N norm (mk_differential N norm enum e early) v)) = true.
  Proof.
    intros e v early early'. rewrite component_fields.
    unfold partial_pyobj, mk_partial; cbn [pe pv py_eq].
    rewrite (eqb_refl N HN). unfold name_eqb. rewrite Pos.eqb_refl. split; reflexivity.
  Qed.

  Lemma mk_located_fields : forall e p priv o,
    mk_located N enum e p priv = Val o -> located_pyobj o = OLocated e p.
  Proof.
    intros e p priv o. unfold mk_located. destruct priv as [nps|].
    - intros H. injection H as <-. reflexivity.
    - destruct (numeric_partials N p e (enum e)) as [nps| | |]; cbn; intros H; try discriminate.
      injection H as <-. reflexivity.
  Qed.

  Lemma diff_at_fields : forall e p early o,
    diff_at N enum (mk_differential N norm enum e early) p = Val o -> located_pyobj o = OLocated e p.
  Proof.
    intros e p early o. unfold diff_at, mk_differential. cbn [de dsps].
    destruct (eval N p e) as [w| | |]; cbn; try discriminate.
    destruct early.
    - destruct (eval_values N p _) as [nps| | |]; cbn; try discriminate.
      intros H. injection H as <-. reflexivity.
    - apply (mk_located_fields e p None).
  Qed.

  Lemma at_equals_located : forall e p early o o',
    NoDup (map fst p) ->
    diff_at N enum (mk_differential N norm enum e early) p = Val o ->
    mk_located N enum e p None = Val o' ->
    py_eq N (located_pyobj o) (located_pyobj o') = true /\ py_eq N (located_pyobj o') (located_pyobj o) = true.
  Proof.
    intros e p early o o' Hnd Ho Ho'.
    rewrite (diff_at_fields e p early o Ho), (mk_located_fields e p None o' Ho').
    cbn [py_eq]. rewrite (eqb_refl N HN), (point_eqb_refl N HN p Hnd). split; reflexivity.
  Qed.
End RouteObjects.


Lemma component_equals_partial_R : C06_component_equals_partial.
Proof. intros norm enum e v early early'. apply (component_equals_partial RInst RInst_equiv). Qed.

Lemma at_equals_located_R : C06_at_equals_located.
Proof. intros norm enum e p early o o' Hnd Ho Ho'. exact (at_equals_located RInst RInst_equiv norm enum e p early o o' Hnd Ho Ho'). Qed.

(** ** [Differential(e).at(p)] and [LocatedDifferential(e, p)] succeed or fail together, with the same
    partials: the late [at] evaluates the original first and then does exactly what the constructor
    of LocatedDifferential does; where the evaluation fails, so does the reverse sweep (C07_rev),
    and nothing but DomainError can come out of either (C14_no_missing, C17_no_pyerr). *)
From Coq Require Import Reals.
From SM Require Import Spec.
From SM.proofs Require Import EvalSound OutcomeKinds Glue.

Lemma at_located_same_outcome : C06_at_located_same_outcome.
Proof.
  intros norm enum e p Hwf Hsup.
  unfold diff_at, mk_differential. cbn [de dsps].
  destruct (eval RInst p e) as [w| | |k] eqn:He; cbn [bind].
  - reflexivity.
  - (* the evaluation raises DomainError: so does the reverse sweep *)
    pose proof (rev_same_kind eval_total p e (enum e) Hwf Hsup) as [Hv Hd].
    change (eval RInst p e) with (evalR p e) in He. rewrite He in Hv, Hd. cbn in Hv, Hd.
    unfold mk_located. destruct (numeric_partials RInst p e (enum e)) as [nps| | |k]; cbn in *; try discriminate.
    reflexivity.
  - exfalso. pose proof (no_missing eval_no_missing p e 1%positive Hsup) as [H _]. apply H. exact He.
  - exfalso. pose proof (no_pyerr eval_no_pyerr p e 1%positive k Hwf) as [H _]. apply H. exact He.
Qed.
