(** * EqHash: __eq__ / __hash__ of expressions, points and the derivative objects (C12). *)
From Coq Require Import Reals ZArith List Bool String Permutation Sorted Lia.
From SM Require Import Num Syntax Outcome Eval RInst Objects SpecObjects.
Import ListNotations.

(** ** The number comparison at R *)
Theorem RInst_equiv : C12_RInst_equiv.
Proof.
  unfold C12_RInst_equiv, num_equiv; simpl; repeat split.
  - intros x; apply Reqb_true; reflexivity.
  - intros x y. unfold Reqb.
    destruct (Req_EM_T x y) as [E|E], (Req_EM_T y x) as [E'|E']; congruence.
  - intros x y z H1 H2. apply Reqb_true in H1; apply Reqb_true in H2.
    apply Reqb_true; congruence.
Qed.

(** ** Expressions *)
Section Eqb.
  Context {T : Type} (N : NumOps T).
  Notation E := (expr T).

  (* the inner fixpoint of [eqb] on argument lists *)
  Definition eqb_list : list E -> list E -> bool :=
    fix go (l l' : list E) {struct l} : bool :=
      match l, l' with
      | [], [] => true
      | x :: r, y :: r' => eqb N x y && go r r'
      | _, _ => false
      end.

  Lemma eqb_Add l l' : eqb N (Add l) (Add l') = eqb_list l l'.
  Proof. reflexivity. Qed.
  Lemma eqb_Mul l l' : eqb N (Mul l) (Mul l') = eqb_list l l'.
  Proof. reflexivity. Qed.

  Lemma eqb_list_nil_l l' : eqb_list [] l' = match l' with [] => true | _ => false end.
  Proof. destruct l'; reflexivity. Qed.
  Lemma eqb_list_cons x r l' :
    eqb_list (x :: r) l' = match l' with [] => false | y :: r' => eqb N x y && eqb_list r r' end.
  Proof. destruct l'; reflexivity. Qed.

  Lemma eqb_list_Forall2 l l' :
    eqb_list l l' = true <-> Forall2 (fun x y => eqb N x y = true) l l'.
  Proof.
    revert l'; induction l as [|x r IH]; intros l'.
    - rewrite eqb_list_nil_l. destruct l' as [|y r'].
      + split; auto.
      + split; [discriminate | intros HH; inversion HH].
    - rewrite eqb_list_cons. destruct l' as [|y r'].
      + split; [discriminate | intros HH; inversion HH].
      + rewrite andb_true_iff, IH. split.
        * intros [H1 H2]; constructor; auto.
        * intros HH; inversion HH; subst; auto.
  Qed.

  Lemma Forall2_iff_Forall (P Q : E -> E -> Prop) l :
    Forall (fun a => forall b, P a b <-> Q a b) l ->
    forall l', Forall2 P l l' <-> Forall2 Q l l'.
  Proof.
    induction 1 as [|x r Hx Hr IH]; intros l'.
    - split; intros HH; inversion HH; constructor.
    - split; intros HH; inversion HH; subst; constructor;
        try (apply Hx; assumption); apply IH; assumption.
  Qed.

  Hypothesis Hequiv : num_equiv N.

  Let Hrefl : forall x, neqb N x x = true := proj1 Hequiv.
  Let Hsym : forall x y, neqb N x y = neqb N y x := proj1 (proj2 Hequiv).
  Let Htrans : forall x y z, neqb N x y = true -> neqb N y z = true -> neqb N x z = true :=
    proj2 (proj2 Hequiv).

  Lemma eqb_structural_gen : forall a b : E, eqb N a b = true <-> struct_eq N a b.
  Proof.
    induction a as [c|x|l IH|l IH|a1 a2 IH1 IH2|a1 a2 IH1 IH2|a1 a2 IH1 IH2
                   |a1 IH1|a1 IH1|a1 IH1|a1 IH1|a1 n IH1|a1 n IH1|a1 c IH1|a1 c IH1]
      using expr_ind';
      intros b; destruct b as [c'|x'|l'|l'|b1 b2|b1 b2|b1 b2|b1|b1|b1|b1|b1 n'|b1 n'|b1 c'|b1 c'];
      try (split; [intros HH; simpl in HH; discriminate HH | intros HH; inversion HH]; fail).
    - (* Const *) simpl. rewrite Hsym. split; [intros HH; constructor; exact HH|intros HH; inversion HH; auto].
    - (* Var *) simpl. unfold name_eqb. rewrite Pos.eqb_eq. split.
      + intros ->; constructor.
      + intros HH; inversion HH; reflexivity.
    - (* Add *) rewrite eqb_Add, eqb_list_Forall2, (Forall2_iff_Forall _ _ l IH). split.
      + intros HH; constructor; exact HH.
      + intros HH; inversion HH; auto.
    - (* Mul *) rewrite eqb_Mul, eqb_list_Forall2, (Forall2_iff_Forall _ _ l IH). split.
      + intros HH; constructor; exact HH.
      + intros HH; inversion HH; auto.
    - simpl. rewrite andb_true_iff, IH1, IH2. split.
      + intros [H1 H2]; constructor; auto.
      + intros HH; inversion HH; auto.
    - simpl. rewrite andb_true_iff, IH1, IH2. split.
      + intros [H1 H2]; constructor; auto.
      + intros HH; inversion HH; auto.
    - simpl. rewrite andb_true_iff, IH1, IH2. split.
      + intros [H1 H2]; constructor; auto.
      + intros HH; inversion HH; auto.
    - simpl. rewrite IH1. split; [intros HH; constructor; auto | intros HH; inversion HH; auto].
    - simpl. rewrite IH1. split; [intros HH; constructor; auto | intros HH; inversion HH; auto].
    - simpl. rewrite IH1. split; [intros HH; constructor; auto | intros HH; inversion HH; auto].
    - simpl. rewrite IH1. split; [intros HH; constructor; auto | intros HH; inversion HH; auto].
    - simpl. rewrite andb_true_iff, IH1, Pos.eqb_eq. split.
      + intros [H1 ->]; constructor; auto.
      + intros HH; inversion HH; auto.
    - simpl. rewrite andb_true_iff, IH1, Pos.eqb_eq. split.
      + intros [H1 ->]; constructor; auto.
      + intros HH; inversion HH; auto.
    - simpl. rewrite andb_true_iff, IH1, Hsym. split.
      + intros [H1 H2]; constructor; auto.
      + intros HH; inversion HH; auto.
    - simpl. rewrite andb_true_iff, IH1, Hsym. split.
      + intros [H1 H2]; constructor; auto.
      + intros HH; inversion HH; auto.
  Qed.

  (** reflexive *)
  Lemma eqb_list_refl l : Forall (fun a => eqb N a a = true) l -> eqb_list l l = true.
  Proof.
    induction 1 as [|x r Hx Hr IH]; [reflexivity|].
    rewrite eqb_list_cons, Hx, IH; reflexivity.
  Qed.

  Lemma eqb_refl : forall a : E, eqb N a a = true.
  Proof.
    induction a as [c|x|l IH|l IH|a1 a2 IH1 IH2|a1 a2 IH1 IH2|a1 a2 IH1 IH2
                   |a1 IH1|a1 IH1|a1 IH1|a1 IH1|a1 n IH1|a1 n IH1|a1 c IH1|a1 c IH1]
      using expr_ind'; simpl;
      unfold name_eqb; rewrite ?IH1, ?IH2, ?Hrefl, ?Pos.eqb_refl; try reflexivity.
    - apply (eqb_list_refl l IH).
    - apply (eqb_list_refl l IH).
  Qed.

  (** symmetric *)
  Lemma eqb_list_sym l :
    Forall (fun a => forall b, eqb N a b = eqb N b a) l ->
    forall l', eqb_list l l' = eqb_list l' l.
  Proof.
    induction 1 as [|x r Hx Hr IH]; intros l'.
    - destruct l'; reflexivity.
    - destruct l' as [|y r']; [reflexivity|].
      rewrite !eqb_list_cons, Hx, IH; reflexivity.
  Qed.

  Lemma eqb_sym : forall a b : E, eqb N a b = eqb N b a.
  Proof.
    induction a as [c|x|l IH|l IH|a1 a2 IH1 IH2|a1 a2 IH1 IH2|a1 a2 IH1 IH2
                   |a1 IH1|a1 IH1|a1 IH1|a1 IH1|a1 n IH1|a1 n IH1|a1 c IH1|a1 c IH1]
      using expr_ind';
      intros b; destruct b as [c'|x'|l'|l'|b1 b2|b1 b2|b1 b2|b1|b1|b1|b1|b1 n'|b1 n'|b1 c'|b1 c'];
      try reflexivity.
    - simpl; apply Hsym.
    - simpl; apply Pos.eqb_sym.
    - rewrite !eqb_Add; apply (eqb_list_sym l IH).
    - rewrite !eqb_Mul; apply (eqb_list_sym l IH).
    - simpl; rewrite IH1, IH2; reflexivity.
    - simpl; rewrite IH1, IH2; reflexivity.
    - simpl; rewrite IH1, IH2; reflexivity.
    - simpl; apply IH1.
    - simpl; apply IH1.
    - simpl; apply IH1.
    - simpl; apply IH1.
    - simpl; rewrite IH1, Pos.eqb_sym; reflexivity.
    - simpl; rewrite IH1, Pos.eqb_sym; reflexivity.
    - simpl; rewrite IH1, Hsym; reflexivity.
    - simpl; rewrite IH1, Hsym; reflexivity.
  Qed.

  (** transitive *)
  Lemma eqb_list_trans l :
    Forall (fun a => forall b c, eqb N a b = true -> eqb N b c = true -> eqb N a c = true) l ->
    forall l' l'', eqb_list l l' = true -> eqb_list l' l'' = true -> eqb_list l l'' = true.
  Proof.
    induction 1 as [|x r Hx Hr IH]; intros l' l''.
    - destruct l'; [|discriminate]. auto.
    - destruct l' as [|y r']; [discriminate|].
      destruct l'' as [|z r'']; [intros _ HH; rewrite eqb_list_cons in HH; discriminate HH|].
      rewrite !eqb_list_cons, !andb_true_iff.
      intros [H1 H2] [H3 H4]; split; [eapply Hx; eauto | eapply IH; eauto].
  Qed.

  Lemma eqb_trans : forall a b c : E, eqb N a b = true -> eqb N b c = true -> eqb N a c = true.
  Proof.
    induction a as [c|x|l IH|l IH|a1 a2 IH1 IH2|a1 a2 IH1 IH2|a1 a2 IH1 IH2
                   |a1 IH1|a1 IH1|a1 IH1|a1 IH1|a1 n IH1|a1 n IH1|a1 c IH1|a1 c IH1]
      using expr_ind';
      intros b d; destruct b as [c'|x'|l'|l'|b1 b2|b1 b2|b1 b2|b1|b1|b1|b1|b1 n'|b1 n'|b1 c'|b1 c'];
      try (intros HH; simpl in HH; discriminate HH);
      destruct d as [c''|x''|l''|l''|d1 d2|d1 d2|d1 d2|d1|d1|d1|d1|d1 n''|d1 n''|d1 c''|d1 c''];
      try (intros _ HH; simpl in HH; discriminate HH).
    - simpl; intros H1 H2. eapply Htrans; eauto.
    - simpl; unfold name_eqb; rewrite !Pos.eqb_eq; congruence.
    - rewrite !eqb_Add; apply (eqb_list_trans l IH).
    - rewrite !eqb_Mul; apply (eqb_list_trans l IH).
    - simpl; rewrite !andb_true_iff; intros [H1 H2] [H3 H4]; split; eauto.
    - simpl; rewrite !andb_true_iff; intros [H1 H2] [H3 H4]; split; eauto.
    - simpl; rewrite !andb_true_iff; intros [H1 H2] [H3 H4]; split; eauto.
    - simpl; eauto.
    - simpl; eauto.
    - simpl; eauto.
    - simpl; eauto.
    - simpl; rewrite !andb_true_iff, !Pos.eqb_eq; intros [H1 H2] [H3 H4]; split; [eauto|congruence].
    - simpl; rewrite !andb_true_iff, !Pos.eqb_eq; intros [H1 H2] [H3 H4]; split; [eauto|congruence].
    - simpl; rewrite !andb_true_iff; intros [H1 H2] [H3 H4]; split; [eauto|eapply Htrans; eauto].
    - simpl; rewrite !andb_true_iff; intros [H1 H2] [H3 H4]; split; [eauto|eapply Htrans; eauto].
  Qed.

  (** consistent with the hash *)
  Section HashE.
    Context {H : Type}.
    Variable h_str : string -> H.
    Variable h_name : name -> H.
    Variable h_num : T -> H.
    Variable h_pos : positive -> H.
    Variable h_nat : nat -> H.
    Variable h_tuple : list H -> H.
    Hypothesis Hnum : forall x y, neqb N x y = true -> h_num x = h_num y.
    Notation hash := (hash_expr h_str h_name h_num h_pos h_nat h_tuple).

    Lemma eqb_list_hash l :
      Forall (fun a => forall b, eqb N a b = true -> hash a = hash b) l ->
      forall l', eqb_list l l' = true ->
                 List.length l = List.length l' /\ map hash l = map hash l'.
    Proof.
      induction 1 as [|x r Hx Hr IH]; intros l'.
      - destruct l'; [auto|discriminate].
      - destruct l' as [|y r']; [discriminate|].
        rewrite eqb_list_cons, andb_true_iff. intros [H1 H2].
        destruct (IH r' H2) as [IHa IHb].
        simpl; rewrite IHa, IHb, (Hx y H1); auto.
    Qed.

    Lemma eqb_hash_gen : forall a b : E, eqb N a b = true -> hash a = hash b.
    Proof.
      induction a as [c|x|l IH|l IH|a1 a2 IH1 IH2|a1 a2 IH1 IH2|a1 a2 IH1 IH2
                     |a1 IH1|a1 IH1|a1 IH1|a1 IH1|a1 n IH1|a1 n IH1|a1 c IH1|a1 c IH1]
        using expr_ind';
        intros b; destruct b as [c'|x'|l'|l'|b1 b2|b1 b2|b1 b2|b1|b1|b1|b1|b1 n'|b1 n'|b1 c'|b1 c'];
        try (intros HH; simpl in HH; discriminate HH).
      - simpl; intros HH. rewrite (Hnum _ _ HH); reflexivity.
      - simpl; unfold name_eqb; rewrite Pos.eqb_eq; intros ->; reflexivity.
      - rewrite eqb_Add; intros HH.
        destruct (eqb_list_hash l IH l' HH) as [Ha Hb]. simpl; rewrite Ha, Hb; reflexivity.
      - rewrite eqb_Mul; intros HH.
        destruct (eqb_list_hash l IH l' HH) as [Ha Hb]. simpl; rewrite Ha, Hb; reflexivity.
      - simpl; rewrite andb_true_iff; intros [H1 H2]; rewrite (IH1 _ H1), (IH2 _ H2); reflexivity.
      - simpl; rewrite andb_true_iff; intros [H1 H2]; rewrite (IH1 _ H1), (IH2 _ H2); reflexivity.
      - simpl; rewrite andb_true_iff; intros [H1 H2]; rewrite (IH1 _ H1), (IH2 _ H2); reflexivity.
      - simpl; intros H1; rewrite (IH1 _ H1); reflexivity.
      - simpl; intros H1; rewrite (IH1 _ H1); reflexivity.
      - simpl; intros H1; rewrite (IH1 _ H1); reflexivity.
      - simpl; intros H1; rewrite (IH1 _ H1); reflexivity.
      - simpl; rewrite andb_true_iff, Pos.eqb_eq; intros [H1 ->]; rewrite (IH1 _ H1); reflexivity.
      - simpl; rewrite andb_true_iff, Pos.eqb_eq; intros [H1 ->]; rewrite (IH1 _ H1); reflexivity.
      - simpl; rewrite andb_true_iff; intros [H1 H2]; rewrite (IH1 _ H1), (Hnum _ _ H2); reflexivity.
      - simpl; rewrite andb_true_iff; intros [H1 H2]; rewrite (IH1 _ H1), (Hnum _ _ H2); reflexivity.
    Qed.
  End HashE.
End Eqb.

Theorem eqb_structural : C12_eqb_structural.
Proof. unfold C12_eqb_structural; intros T N HN a b; apply eqb_structural_gen; exact HN. Qed.

Theorem eqb_equivalence : C12_eqb_equivalence.
Proof.
  unfold C12_eqb_equivalence; intros T N HN; split; [|split].
  - apply eqb_refl; exact HN.
  - apply eqb_sym; exact HN.
  - apply eqb_trans; exact HN.
Qed.

Theorem eqb_hash : C12_eqb_hash.
Proof.
  unfold C12_eqb_hash; intros T N H h_str h_name h_num h_pos h_nat h_tuple HN Hnum a b Hab.
  apply (eqb_hash_gen N); assumption.
Qed.

(* non-vacuity: 2 == 2.0-style equality on a non-trivial tree at R, and an unequal pair *)
Example eqb_ex :
  eqb RInst (Add [Var 1%positive; Exp (Const 2%R) 3%R]) (Add [Var 1%positive; Exp (Const (1+1)%R) 3%R]) = true /\
  eqb RInst (Add [Var 1%positive]) (Mul [Var 1%positive]) = false.
Proof.
  split; [|reflexivity].
  apply (proj2 (eqb_structural R RInst RInst_equiv _ _)).
  constructor. constructor; [constructor|]. constructor; [|constructor].
  constructor; [constructor|]; simpl; apply Reqb_true; ring.
Qed.

(** ** Points *)
Section Points.
  Context {T : Type} (N : NumOps T).
  Notation pt := (point T).

  Lemma lookup_cons j k v (r : pt) :
    lookup j ((k, v) :: r) = if Pos.eqb j k then Some v else lookup j r.
  Proof. reflexivity. Qed.

  Lemma lookup_In k v (p : pt) : lookup k p = Some v -> In (k, v) p.
  Proof.
    induction p as [|[y w] r IH]; [discriminate|].
    rewrite lookup_cons. destruct (Pos.eqb_spec k y) as [->|Hne].
    - intros HH; injection HH as ->; left; reflexivity.
    - intros HH; right; auto.
  Qed.

  Lemma lookup_None k (p : pt) : lookup k p = None <-> ~ In k (map fst p).
  Proof.
    induction p as [|[y w] r IH].
    - simpl; tauto.
    - rewrite lookup_cons. simpl map. destruct (Pos.eqb_spec k y) as [->|Hne].
      + split; [discriminate | intros HH; exfalso; apply HH; left; reflexivity].
      + rewrite IH. simpl. split.
        * intros H1 [H2|H2]; [congruence|auto].
        * intros H1 H2; apply H1; auto.
  Qed.

  Lemma In_lookup k v (p : pt) : NoDup (map fst p) -> In (k, v) p -> lookup k p = Some v.
  Proof.
    induction p as [|[y w] r IH]; [simpl; tauto|].
    intros Hnd; simpl map in Hnd; inversion Hnd as [|y' r' Hy Hr]; subst.
    rewrite lookup_cons. intros [Heq|Hin].
    - injection Heq as -> ->. rewrite Pos.eqb_refl; reflexivity.
    - destruct (Pos.eqb_spec k y) as [->|Hne].
      + exfalso; apply Hy. apply (in_map fst) in Hin; exact Hin.
      + auto.
  Qed.

  Lemma lookup_Some_key k v (p : pt) : lookup k p = Some v -> In k (map fst p).
  Proof. intros HH; apply lookup_In in HH; apply (in_map fst) in HH; exact HH. Qed.

  Lemma key_lookup k (p : pt) : In k (map fst p) -> exists v, lookup k p = Some v.
  Proof.
    destruct (lookup k p) as [v|] eqn:E; [eauto|].
    apply lookup_None in E; tauto.
  Qed.

  Lemma lookup_perm k (p q : pt) :
    NoDup (map fst p) -> Permutation p q -> lookup k p = lookup k q.
  Proof.
    intros Hp Hpq.
    assert (Hq : NoDup (map fst q))
      by (eapply Permutation_NoDup; [apply Permutation_map; exact Hpq | exact Hp]).
    destruct (lookup k p) as [v|] eqn:Ep.
    - symmetry. apply In_lookup; auto.
      eapply Permutation_in; [exact Hpq|]. apply lookup_In; exact Ep.
    - symmetry. apply lookup_None. apply lookup_None in Ep.
      intros Hin; apply Ep.
      eapply Permutation_in; [apply Permutation_map; symmetry; exact Hpq | exact Hin].
  Qed.

  Lemma point_eqb_spec (p q : pt) :
    point_eqb N p q = true <->
    List.length p = List.length q /\
    forall k v, In (k, v) p -> exists w, lookup k q = Some w /\ neqb N v w = true.
  Proof.
    unfold point_eqb. rewrite andb_true_iff, Nat.eqb_eq, forallb_forall.
    split; intros [H1 H2]; split; auto.
    - intros k v Hin. specialize (H2 _ Hin); simpl in H2.
      destruct (lookup k q) as [w|]; [eauto|discriminate].
    - intros [k v] Hin; simpl. destruct (H2 k v Hin) as (w & -> & Hw); exact Hw.
  Qed.

  Lemma same_coords_incl (p q : pt) :
    same_coords N p q -> incl (map fst p) (map fst q).
  Proof.
    intros Hsc k Hk. destruct (key_lookup k p Hk) as (v & Hv).
    specialize (Hsc k). rewrite Hv in Hsc.
    destruct (lookup k q) as [w|] eqn:Eq; [|contradiction].
    eapply lookup_Some_key; eauto.
  Qed.

  Lemma point_eq_gen (p q : pt) :
    NoDup (map fst p) -> NoDup (map fst q) ->
    (point_eqb N p q = true <-> same_coords N p q).
  Proof.
    intros Hp Hq. rewrite point_eqb_spec. split.
    - intros [Hlen HP].
      assert (Hincl : incl (map fst p) (map fst q)).
      { intros k Hk. destruct (key_lookup k p Hk) as (v & Hv). apply lookup_In in Hv.
        destruct (HP k v Hv) as (w & Hw & _). eapply lookup_Some_key; eauto. }
      assert (Hincl' : incl (map fst q) (map fst p)).
      { apply NoDup_length_incl; auto. rewrite !map_length; lia. }
      intros k. destruct (lookup k p) as [v|] eqn:Ep.
      + apply lookup_In in Ep. destruct (HP k v Ep) as (w & -> & Hw); exact Hw.
      + destruct (lookup k q) as [w|] eqn:Eq; [|exact I].
        apply lookup_Some_key in Eq. apply Hincl' in Eq. apply lookup_None in Ep. auto.
    - intros Hsc. split.
      + assert (H1 : incl (map fst p) (map fst q)) by (apply same_coords_incl; exact Hsc).
        assert (H2 : incl (map fst q) (map fst p)).
        { intros k Hk. destruct (key_lookup k q Hk) as (w & Hw).
          specialize (Hsc k). rewrite Hw in Hsc.
          destruct (lookup k p) as [v|] eqn:Ep; [|contradiction].
          eapply lookup_Some_key; eauto. }
        apply NoDup_incl_length in H1; auto. apply NoDup_incl_length in H2; auto.
        rewrite !map_length in *. lia.
      + intros k v Hin. apply In_lookup in Hin; auto.
        specialize (Hsc k). rewrite Hin in Hsc.
        destruct (lookup k q) as [w|]; [eauto|contradiction].
  Qed.

  (** sorting the coordinates *)
  Lemma insert_coord_perm kv (l : pt) : Permutation (kv :: l) (insert_coord kv l).
  Proof.
    induction l as [|kw r IH]; simpl; [apply Permutation_refl|].
    destruct (Pos.leb (fst kv) (fst kw)); [apply Permutation_refl|].
    eapply perm_trans; [apply perm_swap|]. apply perm_skip; exact IH.
  Qed.

  Lemma sort_coords_cons kv (r : pt) : sort_coords (kv :: r) = insert_coord kv (sort_coords r).
  Proof. reflexivity. Qed.

  Lemma sort_coords_perm (p : pt) : Permutation p (sort_coords p).
  Proof.
    induction p as [|kv r IH]; [apply Permutation_refl|].
    rewrite sort_coords_cons.
    eapply perm_trans; [|apply insert_coord_perm]. apply perm_skip; exact IH.
  Qed.

  Definition ltk (a b : name * T) : Prop := (fst a < fst b)%positive.

  Lemma insert_coord_sorted kv (l : pt) :
    ~ In (fst kv) (map fst l) -> StronglySorted ltk l -> StronglySorted ltk (insert_coord kv l).
  Proof.
    induction l as [|kw r IH]; simpl; intros Hnin Hs.
    - constructor; constructor.
    - inversion Hs as [|kw' r' Hsr Hall]; subst.
      destruct (Pos.leb_spec (fst kv) (fst kw)) as [Hle|Hlt].
      + assert (Hlt : ltk kv kw).
        { unfold ltk. destruct (Pos.eq_dec (fst kv) (fst kw)) as [e|ne];
            [exfalso; apply Hnin; left; symmetry; exact e | lia]. }
        constructor; [exact Hs|]. constructor; [exact Hlt|].
        eapply Forall_impl; [|exact Hall]. unfold ltk in *; intros a Ha; lia.
      + constructor.
        * apply IH; auto.
        * eapply Permutation_Forall; [apply insert_coord_perm|].
          constructor; [exact Hlt|exact Hall].
  Qed.

  Lemma sort_coords_sorted (p : pt) :
    NoDup (map fst p) -> StronglySorted ltk (sort_coords p).
  Proof.
    induction p as [|kv r IH]; intros Hnd.
    - constructor.
    - simpl map in Hnd; inversion Hnd as [|k' r' Hk Hr]; subst.
      rewrite sort_coords_cons. apply insert_coord_sorted; auto.
      intros Hin; apply Hk.
      eapply Permutation_in; [apply Permutation_map; symmetry; apply sort_coords_perm | exact Hin].
  Qed.

  Lemma sorted_tail_None kv (r : pt) : Forall (ltk kv) r -> lookup (fst kv) r = None.
  Proof.
    intros Hall. apply lookup_None. intros Hin.
    apply in_map_iff in Hin; destruct Hin as (kw & Hk & Hin).
    rewrite Forall_forall in Hall. specialize (Hall _ Hin). unfold ltk in Hall. lia.
  Qed.

  (** two key-sorted coordinate lists denoting the same dictionary agree position by position *)
  Definition kv_rel (a b : name * T) : Prop :=
    fst a = fst b /\ neqb N (snd a) (snd b) = true.

  Lemma sorted_head_le k k' w (r2 : pt) :
    Forall (ltk (k', w)) r2 ->
    (exists u, lookup k ((k', w) :: r2) = Some u) -> (k' <= k)%positive.
  Proof.
    intros Ha2 (u & Hu). rewrite lookup_cons in Hu.
    destruct (Pos.eqb_spec k k') as [->|Hne]; [lia|].
    apply lookup_In in Hu. rewrite Forall_forall in Ha2. specialize (Ha2 _ Hu).
    unfold ltk in Ha2; simpl in Ha2; lia.
  Qed.

  Lemma sorted_same (s1 : pt) : forall s2 : pt,
    StronglySorted ltk s1 -> StronglySorted ltk s2 -> same_coords N s1 s2 ->
    Forall2 kv_rel s1 s2.
  Proof.
    induction s1 as [|[k v] r1 IH]; intros s2 H1 H2 Hsc.
    - destruct s2 as [|[k' w] r2]; [constructor|].
      specialize (Hsc k'). rewrite lookup_cons, Pos.eqb_refl in Hsc. simpl in Hsc; contradiction.
    - destruct s2 as [|[k' w] r2].
      { specialize (Hsc k). rewrite lookup_cons, Pos.eqb_refl in Hsc. simpl in Hsc; contradiction. }
      inversion H1 as [|kv1 r1' Hs1 Ha1]; inversion H2 as [|kv2 r2' Hs2 Ha2]; subst.
      assert (Hkk : k = k').
      { assert (Hle1 : (k' <= k)%positive).
        { apply (sorted_head_le k k' w r2 Ha2).
          pose proof (Hsc k) as Hk. rewrite (lookup_cons k k v), Pos.eqb_refl in Hk.
          destruct (lookup k ((k', w) :: r2)) as [u|]; [eauto|contradiction]. }
        assert (Hle2 : (k <= k')%positive).
        { apply (sorted_head_le k' k v r1 Ha1).
          pose proof (Hsc k') as Hk. rewrite (lookup_cons k' k' w), Pos.eqb_refl in Hk.
          destruct (lookup k' ((k, v) :: r1)) as [u|]; [eauto|contradiction]. }
        lia. }
      subst k'. constructor.
      + split; [reflexivity|]. specialize (Hsc k).
        rewrite !lookup_cons, Pos.eqb_refl in Hsc. exact Hsc.
      + apply IH; auto. intros j. destruct (Pos.eqb_spec j k) as [->|Hne].
        * pose proof (sorted_tail_None (k, v) r1 Ha1) as E1.
          pose proof (sorted_tail_None (k, w) r2 Ha2) as E2.
          simpl fst in E1, E2. rewrite E1, E2. exact I.
        * specialize (Hsc j). rewrite !lookup_cons in Hsc.
          rewrite (proj2 (Pos.eqb_neq j k) Hne) in Hsc. exact Hsc.
  Qed.

  Lemma sort_coords_same (p q : pt) :
    NoDup (map fst p) -> NoDup (map fst q) -> same_coords N p q ->
    Forall2 kv_rel (sort_coords p) (sort_coords q).
  Proof.
    intros Hp Hq Hsc. apply sorted_same.
    - apply sort_coords_sorted; exact Hp.
    - apply sort_coords_sorted; exact Hq.
    - intros k.
      rewrite <- (lookup_perm k p (sort_coords p) Hp (sort_coords_perm p)).
      rewrite <- (lookup_perm k q (sort_coords q) Hq (sort_coords_perm q)).
      apply Hsc.
  Qed.

  Section HashP.
    Context {H : Type}.
    Variable h_str : string -> H.
    Variable h_name : name -> H.
    Variable h_num : T -> H.
    Variable h_tuple : list H -> H.
    Hypothesis Hnum : forall x y, neqb N x y = true -> h_num x = h_num y.

    Lemma point_hash_gen (p q : pt) :
      NoDup (map fst p) -> NoDup (map fst q) -> point_eqb N p q = true ->
      hash_point h_str h_name h_num h_tuple p = hash_point h_str h_name h_num h_tuple q.
    Proof.
      intros Hp Hq Heq. apply (point_eq_gen p q Hp Hq) in Heq.
      pose proof (sort_coords_same p q Hp Hq Heq) as HF.
      unfold hash_point.
      assert (HM : map (fun kv : name * T => h_tuple [h_name (fst kv); h_num (snd kv)]) (sort_coords p) =
                   map (fun kv : name * T => h_tuple [h_name (fst kv); h_num (snd kv)]) (sort_coords q)).
      { induction HF as [|a b l l' Hab Hl IH]; [reflexivity|].
        destruct Hab as [Hk Hv]. simpl. rewrite Hk, (Hnum _ _ Hv), IH; reflexivity. }
      rewrite HM; reflexivity.
    Qed.
  End HashP.

  (** [same_coords] is an equivalence when the number comparison is *)
  Hypothesis Hequiv : num_equiv N.

  Lemma same_coords_refl (p : pt) : same_coords N p p.
  Proof. intros k. destruct (lookup k p); [apply (proj1 Hequiv)|exact I]. Qed.

  Lemma same_coords_sym (p q : pt) : same_coords N p q -> same_coords N q p.
  Proof.
    intros Hsc k. specialize (Hsc k).
    destruct (lookup k p), (lookup k q); auto.
    rewrite (proj1 (proj2 Hequiv)); exact Hsc.
  Qed.

  Lemma same_coords_trans (p q r : pt) :
    same_coords N p q -> same_coords N q r -> same_coords N p r.
  Proof.
    intros H1 H2 k. specialize (H1 k); specialize (H2 k).
    destruct (lookup k p), (lookup k q), (lookup k r); auto; try contradiction.
    eapply (proj2 (proj2 Hequiv)); eauto.
  Qed.

  Lemma point_eqb_refl (p : pt) : NoDup (map fst p) -> point_eqb N p p = true.
  Proof. intros Hp. apply (point_eq_gen p p Hp Hp). apply same_coords_refl. Qed.

  Lemma point_eqb_sym (p q : pt) :
    NoDup (map fst p) -> NoDup (map fst q) -> point_eqb N p q = point_eqb N q p.
  Proof.
    intros Hp Hq. apply eq_true_iff_eq.
    rewrite (point_eq_gen p q Hp Hq), (point_eq_gen q p Hq Hp).
    split; apply same_coords_sym.
  Qed.

  Lemma point_eqb_trans (p q r : pt) :
    NoDup (map fst p) -> NoDup (map fst q) -> NoDup (map fst r) ->
    point_eqb N p q = true -> point_eqb N q r = true -> point_eqb N p r = true.
  Proof.
    intros Hp Hq Hr.
    rewrite (point_eq_gen p q Hp Hq), (point_eq_gen q r Hq Hr), (point_eq_gen p r Hp Hr).
    apply same_coords_trans.
  Qed.

  Lemma point_perm_gen (p q : pt) :
    NoDup (map fst p) -> Permutation p q -> point_eqb N p q = true.
  Proof.
    intros Hp Hpq.
    assert (Hq : NoDup (map fst q))
      by (eapply Permutation_NoDup; [apply Permutation_map; exact Hpq | exact Hp]).
    apply (point_eq_gen p q Hp Hq). intros k.
    rewrite <- (lookup_perm k p q Hp Hpq). apply same_coords_refl.
  Qed.
End Points.

Theorem point_eq : C12_point_eq.
Proof.
  unfold C12_point_eq, wf_point; intros T N HN p q Hp Hq. apply point_eq_gen; assumption.
Qed.

Theorem point_perm : C12_point_perm.
Proof.
  unfold C12_point_perm, wf_point; intros T N HN p q Hp Hpq. apply point_perm_gen; assumption.
Qed.

Theorem point_hash : C12_point_hash.
Proof.
  unfold C12_point_hash, wf_point; intros T N H h_str h_name h_num h_tuple HN Hnum p q Hp Hq Heq.
  apply (point_hash_gen N); assumption.
Qed.

(** ** All objects *)
Theorem py_eq_equivalence : C12_py_eq_equivalence.
Proof.
  unfold C12_py_eq_equivalence; intros T N HN; split; [|split].
  - intros a Ha; destruct a as [e|p|e v|e|e|e p|k]; simpl in *.
    + apply eqb_refl; exact HN.
    + apply point_eqb_refl; assumption.
    + rewrite (eqb_refl N HN). unfold name_eqb; rewrite Pos.eqb_refl; reflexivity.
    + apply eqb_refl; exact HN.
    + apply eqb_refl; exact HN.
    + rewrite (eqb_refl N HN), (point_eqb_refl N HN p Ha); reflexivity.
    + apply Nat.eqb_refl.
  - intros a b Ha Hb;
      destruct a as [e|p|e v|e|e|e p|k]; destruct b as [e'|p'|e' v'|e'|e'|e' p'|k'];
      simpl in *; try reflexivity.
    + apply eqb_sym; exact HN.
    + apply point_eqb_sym; assumption.
    + rewrite (eqb_sym N HN e e'). unfold name_eqb; rewrite (Pos.eqb_sym v v'); reflexivity.
    + apply eqb_sym; exact HN.
    + apply eqb_sym; exact HN.
    + rewrite (eqb_sym N HN e e'), (point_eqb_sym N HN p p' Ha Hb); reflexivity.
    + apply Nat.eqb_sym.
  - intros a b c Ha Hb Hc;
      destruct a as [e|p|e v|e|e|e p|k]; destruct b as [e'|p'|e' v'|e'|e'|e' p'|k'];
      simpl in *; try discriminate;
      destruct c as [e''|p''|e'' v''|e''|e''|e'' p''|k'']; simpl in *; try discriminate.
    + apply eqb_trans; exact HN.
    + intros H1 H2. eapply (point_eqb_trans N HN p'' p' p); eauto.
    + rewrite !andb_true_iff. unfold name_eqb; rewrite !Pos.eqb_eq.
      intros [H1 H2] [H3 H4]; split; [eapply eqb_trans; eauto | congruence].
    + apply eqb_trans; exact HN.
    + apply eqb_trans; exact HN.
    + rewrite !andb_true_iff.
      intros [H1 H2] [H3 H4]; split;
        [eapply eqb_trans; eauto | eapply (point_eqb_trans N HN p p' p''); eauto].
    + rewrite !Nat.eqb_eq; congruence.
Qed.

Theorem py_eq_hash : C12_py_eq_hash.
Proof.
  unfold C12_py_eq_hash;
    intros T N H h_str h_name h_num h_pos h_nat h_tuple HN Hnum a b Ha Hb;
    destruct a as [e|p|e v|e|e|e p|k]; destruct b as [e'|p'|e' v'|e'|e'|e' p'|k'];
    simpl in *; try discriminate.
  - intros HH. rewrite (eqb_hash_gen N h_str h_name h_num h_pos h_nat h_tuple Hnum e e' HH).
    reflexivity.
  - intros HH. rewrite (point_hash_gen N h_str h_name h_num h_tuple Hnum p' p Hb Ha HH).
    reflexivity.
  - rewrite andb_true_iff; intros [HH _].
    rewrite (eqb_hash_gen N h_str h_name h_num h_pos h_nat h_tuple Hnum e e' HH). reflexivity.
  - intros HH. rewrite (eqb_hash_gen N h_str h_name h_num h_pos h_nat h_tuple Hnum e e' HH).
    reflexivity.
  - intros HH. rewrite (eqb_hash_gen N h_str h_name h_num h_pos h_nat h_tuple Hnum e e' HH).
    reflexivity.
  - rewrite andb_true_iff; intros [HH HP].
    rewrite (eqb_hash_gen N h_str h_name h_num h_pos h_nat h_tuple Hnum e e' HH).
    rewrite (point_hash_gen N h_str h_name h_num h_tuple Hnum p p' Ha Hb HP). reflexivity.
  - intros _; reflexivity.
Qed.

(* non-vacuity: Point(x=1, y=2) == Point(y=2, x=1) at R, and a sorted view *)
Example point_ex :
  let p := [(1%positive, 1%R); (2%positive, 2%R)] in
  let q := [(2%positive, 2%R); (1%positive, 1%R)] in
  wf_point p /\ wf_point q /\ point_eqb RInst p q = true /\ sort_coords q = p.
Proof.
  simpl; unfold wf_point; simpl. repeat split.
  - repeat constructor; simpl; intuition discriminate.
  - repeat constructor; simpl; intuition discriminate.
  - apply (point_perm R RInst RInst_equiv).
    + unfold wf_point; simpl. repeat constructor; simpl; intuition discriminate.
    + apply perm_swap.
Qed.

Print Assumptions RInst_equiv.
Print Assumptions eqb_structural.
Print Assumptions eqb_equivalence.
Print Assumptions eqb_hash.
Print Assumptions point_eq.
Print Assumptions point_perm.
Print Assumptions point_hash.
Print Assumptions py_eq_equivalence.
Print Assumptions py_eq_hash.
