(** * EqHash: __eq__ / __hash__ of expressions, points and the derivative objects (C12). *)
From Coq Require Import Reals ZArith List Bool String Permutation Sorted Lia.
From SM Require Import Num Syntax Outcome Eval RInst Objects SpecObjects.
Import ListNotations.

(** ** The number comparison at R *)
Theorem RInst_equiv : C12_RInst_equiv.
Proof.
  unfold C12_RInst_equiv, num_equiv; simpl; repeat split.
  - intros x; apply Reqb_true; reflexivity.
  - intros x y. unfold Reqb.
    destruct (Req_EM_T x y) as [E|E], (Req_EM_T y x) as [E'|E']; congruence.
  - intros x y z H1 H2. apply Reqb_true in H1; apply Reqb_true in H2.
    apply Reqb_true; congruence.
Qed.

(** ** Expressions *)
Section Eqb.
  Context {T : Type} (N : NumOps T).
  Notation E := (expr T).

  (* the inner fixpoint of [eqb] on argument lists *)
  Definition eqb_list : list E -> list E -> bool :=
    fix go (l l' : list E) {struct l} : bool :=
      match l, l' with
      | [], [] => true
      | x :: r, y :: r' => eqb N x y && go r r'
      | _, _ => false
      end.

  Lemma eqb_Add l l' : eqb N (Add l) (Add l') = eqb_list l l'.
  Proof. reflexivity. Qed.
  Lemma eqb_Mul l l' : eqb N (Mul l) (Mul l') = eqb_list l l'.
  Proof. reflexivity. Qed.

  Lemma eqb_list_nil_l l' : eqb_list [] l' = match l' with [] => true | _ => false end.
  Proof. destruct l'; reflexivity. Qed.
  Lemma eqb_list_cons x r l' :
    eqb_list (x :: r) l' = match l' with [] => false | y :: r' => eqb N x y && eqb_list r r' end.
  Proof. destruct l'; reflexivity. Qed.

  Lemma eqb_list_Forall2 l l' :
    eqb_list l l' = true <-> Forall2 (fun x y => eqb N x y = true) l l'.
  Proof.
    revert l'; induction l as [|x r IH]; intros l'.
    - rewrite eqb_list_nil_l. destruct l' as [|y r'].
      + split; auto.
      + split; [discriminate | intros HH; inversion HH].
    - rewrite eqb_list_cons. destruct l' as [|y r'].
      + split; [discriminate | intros HH; inversion HH].
      + rewrite andb_true_iff, IH. split.
        * intros [H1 H2]; constructor; auto.
        * intros HH; inversion HH; subst; auto.
  Qed.

  Lemma Forall2_iff_Forall (P Q : E -> E -> Prop) l :
    Forall (fun a => forall b, P a b <-> Q a b) l ->
    forall l', Forall2 P l l' <-> Forall2 Q l l'.
  Proof.
    induction 1 as [|x r Hx Hr IH]; intros l'.
    - split; intros HH; inversion HH; constructor.
    - split; intros HH; inversion HH; subst; constructor;
        try (apply Hx; assumption); apply IH; assumption.
  Qed.

  Hypothesis Hequiv : num_equiv N.

  Let Hrefl : forall x, neqb N x x = true := proj1 Hequiv.
  Let Hsym : forall x y, neqb N x y = neqb N y x := proj1 (proj2 Hequiv).
  Let Htrans : forall x y z, neqb N x y = true -> neqb N y z = true -> neqb N x z = true :=
    proj2 (proj2 Hequiv).

  Lemma eqb_structural_gen : forall a b : E, eqb N a b = true <-> struct_eq N a b.
  Proof.
    induction a as [c|x|l IH|l IH|a1 a2 IH1 IH2|a1 a2 IH1 IH2|a1 a2 IH1 IH2
                   |a1 IH1|a1 IH1|a1 IH1|a1 IH1|a1 n IH1|a1 n IH1|a1 c IH1|a1 c IH1]
      using expr_ind';
      intros b; destruct b as [c'|x'|l'|l'|b1 b2|b1 b2|b1 b2|b1|b1|b1|b1|b1 n'|b1 n'|b1 c'|b1 c'];
      try (split; [intros HH; simpl in HH; discriminate HH | intros HH; inversion HH]; fail).
    - (* Const *) simpl. rewrite Hsym. split; [intros HH; constructor; exact HH|intros HH; inversion HH; auto].
    - (* Var *) simpl. unfold name_eqb. rewrite Pos.eqb_eq. split.
      + intros ->; constructor.
      + intros HH; inversion HH; reflexivity.
    - (* Add *) rewrite eqb_Add, eqb_list_Forall2, (Forall2_iff_Forall _ _ l IH). split.
      + intros HH; constructor; exact HH.
      + intros HH; inversion HH; auto.
    - (* Mul *) rewrite eqb_Mul, eqb_list_Forall2, (Forall2_iff_Forall _ _ l IH). split.
      + intros HH; constructor; exact HH.
      + intros HH; inversion HH; auto.
    - simpl. rewrite andb_true_iff, IH1, IH2. split.
      + intros [H1 H2]; constructor; auto.
      + intros HH; inversion HH; auto.
    - simpl. rewrite andb_true_iff, IH1, IH2. split.
      + intros [H1 H2]; constructor; auto.
      + intros HH; inversion HH; auto.
    - simpl. rewrite andb_true_iff, IH1, IH2. split.
      + intros [H1 H2]; constructor; auto.
      + intros HH; inversion HH; auto.
    - simpl. rewrite IH1. split; [intros HH; constructor; auto | intros HH; inversion HH; auto].
    - simpl. rewrite IH1. split; [intros HH; constructor; auto | intros HH; inversion HH; auto].
    - simpl. rewrite IH1. split; [intros HH; constructor; auto | intros HH; inversion HH; auto].
    - simpl. rewrite IH1. split; [intros HH; constructor; auto | intros HH; inversion HH; auto].
    - simpl. rewrite andb_true_iff, IH1, Pos.eqb_eq. split.
      + intros [H1 ->]; constructor; auto.
      + intros HH; inversion HH; auto.
    - simpl. rewrite andb_true_iff, IH1, Pos.eqb_eq. split.
      + intros [H1 ->]; constructor; auto.
      + intros HH; inversion HH; auto.
    - simpl. rewrite andb_true_iff, IH1, Hsym. split.
      + intros [H1 H2]; constructor; auto.
      + intros HH; inversion HH; auto.
    - simpl. rewrite andb_true_iff, IH1, Hsym. split.
      + intros [H1 H2]; constructor; auto.
      + intros HH; inversion HH; auto.
  Qed.

  (** reflexive *)
  Lemma eqb_list_refl l : Forall (fun a => eqb N a a = true) l -> eqb_list l l = true.
  Proof.
    induction 1 as [|x r Hx Hr IH]; [reflexivity|].
    rewrite eqb_list_cons, Hx, IH; reflexivity.
  Qed.

  Lemma eqb_refl : forall a : E, eqb N a a = true.
  Proof.
    induction a as [c|x|l IH|l IH|a1 a2 IH1 IH2|a1 a2 IH1 IH2|a1 a2 IH1 IH2
                   |a1 IH1|a1 IH1|a1 IH1|a1 IH1|a1 n IH1|a1 n IH1|a1 c IH1|a1 c IH1]
      using expr_ind'; simpl;
      unfold name_eqb; rewrite ?IH1, ?IH2, ?Hrefl, ?Pos.eqb_refl; try reflexivity.
    - apply (eqb_list_refl l IH).
    - apply (eqb_list_refl l IH).
  Qed.

  (** symmetric *)
  Lemma eqb_list_sym l :
    Forall (fun a => forall b, eqb N a b = eqb N b a) l ->
    forall l', eqb_list l l' = eqb_list l' l.
  Proof.
    induction 1 as [|x r Hx Hr IH]; intros l'.
    - destruct l'; reflexivity.
    - destruct l' as [|y r']; [reflexivity|].
      rewrite !eqb_list_cons, Hx, IH; reflexivity.
  Qed.

  Lemma eqb_sym : forall a b : E, eqb N a b = eqb N b a.
  Proof.
    induction a as [c|x|l IH|l IH|a1 a2 IH1 IH2|a1 a2 IH1 IH2|a1 a2 IH1 IH2
                   |a1 IH1|a1 IH1|a1 IH1|a1 IH1|a1 n IH1|a1 n IH1|a1 c IH1|a1 c IH1]
      using expr_ind';
      intros b; destruct b as [c'|x'|l'|l'|b1 b2|b1 b2|b1 b2|b1|b1|b1|b1|b1 n'|b1 n'|b1 c'|b1 c'];
      try reflexivity.
    - simpl; apply Hsym.
    - simpl; apply Pos.eqb_sym.
    - rewrite !eqb_Add; apply (eqb_list_sym l IH).
    - rewrite !eqb_Mul; apply (eqb_list_sym l IH).
    - simpl; rewrite IH1, IH2; reflexivity.
    - simpl; rewrite IH1, IH2; reflexivity.
    - simpl; rewrite IH1, IH2; reflexivity.
    - simpl; apply IH1.
    - simpl; apply IH1.
    - simpl; apply IH1.
    - simpl; apply IH1.
    - simpl; rewrite IH1, Pos.eqb_sym; reflexivity.
    - simpl; rewrite IH1, Pos.eqb_sym; reflexivity.
    - simpl; rewrite IH1, Hsym; reflexivity.
    - simpl; rewrite IH1, Hsym; reflexivity.
  Qed.

  (** transitive *)
  Lemma eqb_list_trans l :
    Forall (fun a => forall b c, eqb N a b = true -> eqb N b c = true -> eqb N a c = true) l ->
    forall l' l'', eqb_list l l' = true -> eqb_list l' l'' = true -> eqb_list l l'' = true.
  Proof.
    induction 1 as [|x r Hx Hr IH]; intros l' l''.
    - destruct l'; [|discriminate]. auto.
    - destruct l' as [|y r']; [discriminate|].
      destruct l'' as [|z r'']; [intros _ HH; rewrite eqb_list_cons in HH; discriminate HH|].
      rewrite !eqb_list_cons, !andb_true_iff.
      intros [H1 H2] [H3 H4]; split; [eapply Hx; eauto | eapply IH; eauto].
  Qed.

  Lemma eqb_trans : forall a b c : E, eqb N a b = true -> eqb N b c = true -> eqb N a c = true.
  Proof.
    induction a as [c|x|l IH|l IH|a1 a2 IH1 IH2|a1 a2 IH1 IH2|a1 a2 IH1 IH2
                   |a1 IH1|a1 IH1|a1 IH1|a1 IH1|a1 n IH1|a1 n IH1|a1 c IH1|a1 c IH1]
      using expr_ind';
      intros b d; destruct b as [c'|x'|l'|l'|b1 b2|b1 b2|b1 b2|b1|b1|b1|b1|b1 n'|b1 n'|b1 c'|b1 c'];
      try (intros HH; simpl in HH; discriminate HH);
      destruct d as [c''|x''|l''|l''|d1 d2|d1 d2|d1 d2|d1|d1|d1|d1|d1 n''|d1 n''|d1 c''|d1 c''];
      try (intros _ HH; simpl in HH; discriminate HH).
    - simpl; intros H1 H2. eapply Htrans; eauto.
    - simpl; unfold name_eqb; rewrite !Pos.eqb_eq; congruence.
    - rewrite !eqb_Add; apply (eqb_list_trans l IH).
    - rewrite !eqb_Mul; apply (eqb_list_trans l IH).
    - simpl; rewrite !andb_true_iff; intros [H1 H2] [H3 H4]; split; eauto.
    - simpl; rewrite !andb_true_iff; intros [H1 H2] [H3 H4]; split; eauto.
    - simpl; rewrite !andb_true_iff; intros [H1 H2] [H3 H4]; split; eauto.
    - simpl; eauto.
    - simpl; eauto.
    - simpl; eauto.
    - simpl; eauto.
    - simpl; rewrite !andb_true_iff, !Pos.eqb_eq; intros [H1 H2] [H3 H4]; split; [eauto|congruence].
    - simpl; rewrite !andb_true_iff, !Pos.eqb_eq; intros [H1 H2] [H3 H4]; split; [eauto|congruence].
    - simpl; rewrite !andb_true_iff; intros [H1 H2] [H3 H4]; split; [eauto|eapply Htrans; eauto].
    - simpl; rewrite !andb_true_iff; intros [H1 H2] [H3 H4]; split; [eauto|eapply Htrans; eauto].
  Qed.

  (** consistent with the hash *)
  Section HashE.
    Context {H : Type}.
    Variable h_str : string -> H.
    Variable h_name : name -> H.
    Variable h_num : T -> H.
    Variable h_pos : positive -> H.
    Variable h_nat : nat -> H.
    Variable h_tuple : list H -> H.
    Hypothesis Hnum : forall x y, neqb N x y = true -> h_num x = h_num y.
    Notation hash := (hash_expr h_str h_name h_num h_pos h_nat h_tuple).

    Lemma eqb_list_hash l :
      Forall (fun a => forall b, eqb N a b = true -> hash a = hash b) l ->
      forall l', eqb_list l l' = true ->
                 List.length l = List.length l' /\ map hash l = map hash l'.
    Proof.
      induction 1 as [|x r Hx Hr IH]; intros l'.
      - destruct l'; [auto|discriminate].
      - destruct l' as [|y r']; [discriminate|].
        rewrite eqb_list_cons, andb_true_iff. intros [H1 H2].
        destruct (IH r' H2) as [IHa IHb].
        simpl; rewrite IHa, IHb, (Hx y H1); auto.
    Qed.

    Lemma eqb_hash_gen : forall a b : E, eqb N a b = true -> hash a = hash b.
    Proof.
      induction a as [c|x|l IH|l IH|a1 a2 IH1 IH2|a1 a2 IH1 IH2|a1 a2 IH1 IH2
                     |a1 IH1|a1 IH1|a1 IH1|a1 IH1|a1 n IH1|a1 n IH1|a1 c IH1|a1 c IH1]
        using expr_ind';
        intros b; destruct b as [c'|x'|l'|l'|b1 b2|b1 b2|b1 b2|b1|b1|b1|b1|b1 n'|b1 n'|b1 c'|b1 c'];
        try (intros HH; simpl in HH; discriminate HH).
      - simpl; intros HH. rewrite (Hnum _ _ HH); reflexivity.
      - simpl; unfold name_eqb; rewrite Pos.eqb_eq; intros ->; reflexivity.
      - rewrite eqb_Add; intros HH.
        destruct (eqb_list_hash l IH l' HH) as [Ha Hb]. simpl; rewrite Ha, Hb; reflexivity.
      - rewrite eqb_Mul; intros HH.
        destruct (eqb_list_hash l IH l' HH) as [Ha Hb]. simpl; rewrite Ha, Hb; reflexivity.
      - simpl; rewrite andb_true_iff; intros [H1 H2]; rewrite (IH1 _ H1), (IH2 _ H2); reflexivity.
      - simpl; rewrite andb_true_iff; intros [H1 H2]; rewrite (IH1 _ H1), (IH2 _ H2); reflexivity.
      - simpl; rewrite andb_true_iff; intros [H1 H2]; rewrite (IH1 _ H1), (IH2 _ H2); reflexivity.
      - simpl; intros H1; rewrite (IH1 _ H1); reflexivity.
      - simpl; intros H1; rewrite (IH1 _ H1); reflexivity.
      - simpl; intros H1; rewrite (IH1 _ H1); reflexivity.
      - simpl; intros H1; rewrite (IH1 _ H1); reflexivity.
      - simpl; rewrite andb_true_iff, Pos.eqb_eq; intros [H1 ->]; rewrite (IH1 _ H1); reflexivity.
      - simpl; rewrite andb_true_iff, Pos.eqb_eq; intros [H1 ->]; rewrite (IH1 _ H1); reflexivity.
      - simpl; rewrite andb_true_iff; intros [H1 H2]; rewrite (IH1 _ H1), (Hnum _ _ H2); reflexivity.
      - simpl; rewrite andb_true_iff; intros [H1 H2]; rewrite (IH1 _ H1), (Hnum _ _ H2); reflexivity.
    Qed.
  End HashE.
End Eqb.

Theorem eqb_structural : C12_eqb_structural.
Proof. unfold C12_eqb_structural; intros T N HN a b; apply eqb_structural_gen; exact HN. Qed.

Theorem eqb_equivalence : C12_eqb_equivalence.
Proof.
  unfold C12_eqb_equivalence; intros T N HN; split; [|split].
  - apply eqb_refl; exact HN.
  - apply eqb_sym; exact HN.
  - apply eqb_trans; exact HN.
Qed.

Theorem eqb_hash : C12_eqb_hash.
Proof.
  unfold C12_eqb_hash; intros T N H h_str h_name h_num h_pos h_nat h_tuple HN Hnum a b Hab.
  apply (eqb_hash_gen N); assumption.
Qed.

(* non-vacuity: 2 == 2.0-style equality on a non-trivial tree at R, and an unequal pair *)
Example eqb_ex :
  eqb RInst (Add [Var 1%positive; Exp (Const 2%R) 3%R]) (Add [Var 1%positive; Exp (Const (1+1)%R) 3%R]) = true /\
  eqb RInst (Add [Var 1%positive]) (Mul [Var 1%positive]) = false.
Proof.
  split; [|reflexivity].
  apply (proj2 (eqb_structural R RInst RInst_equiv _ _)).
  constructor. constructor; [constructor|]. constructor; [|constructor].
  constructor; [constructor|]; simpl; apply Reqb_true; ring.
Qed.

Print Assumptions RInst_equiv.
Print Assumptions eqb_structural.
Print Assumptions eqb_equivalence.
Print Assumptions eqb_hash.
