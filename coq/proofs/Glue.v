(** * Glue: the composite statements of Spec.v, closed.

    - C08_rules_sound (from RulesSoundA / RulesSoundB), C08_consolidate_sound,
      and the closed forms of Closure.v's theorems (step, fully_reduce, nfr, normalize);
    - C05_as_expression_sound (synth_fwd_sound + normalize_sound);
    - C07_early, C06_early, C06_located (the routes agree with the late partial). *)
From Coq Require Import Reals ZArith List Bool String Lra Lia.
From Coquelicot Require Import Rcomplements Hierarchy Derive.
From SM Require Import Num Syntax Outcome MathFun Eval Forward Reverse Synth Rules Driver
  Normalize Routes RInst Denote Spec.
From SM.proofs Require Import EvalSound DerivLemmas Deriv ReverseSound OutcomeKinds
  RulesSoundA RulesSoundB Closure OrderIndep SynthSound.
Import ListNotations.
Open Scope R_scope.

(** ** 1. Every rule of [all_rules] is sound (modulo KF-ROOT) *)

Theorem rules_sound : C08_rules_sound.
Proof.
  intros nm f e e' Hin Hf Hbad.
  assert (HAB :
    In (nm, f)
       (reducers_Add RInst ++ reducers_Minus ++ reducers_Negation ++
        reducers_Multiply RInst ++ reducers_Divide ++ reducers_Reciprocal ++
        reducers_Cosine ++ reducers_Sine) \/
    In (nm, f)
       (reducers_Power RInst ++ reducers_NthPower RInst ++ reducers_NthRoot ++
        reducers_Exponential RInst ++ reducers_Logarithm RInst)).
  { unfold all_rules in Hin. repeat rewrite in_app_iff in Hin.
    repeat rewrite in_app_iff. tauto. }
  destruct HAB as [HA|HB].
  - exact (rules_sound_A nm f e e' HA Hf).
  - exact (rules_sound_B nm f e e' HB Hf Hbad).
Qed.

(** ** 2. Constant folding of a variable-free expression *)

Lemma GL_var_free_list (l : list (expr R)) :
  Forall (fun e => var_free e = true -> vars e = []) l ->
  forallb var_free l = true -> flat_map vars l = [].
Proof.
  induction 1 as [|a r Ha Hr IH]; cbn [forallb flat_map]; intro H.
  - reflexivity.
  - apply andb_prop in H. destruct H as [H1 H2].
    rewrite (Ha H1), (IH H2). reflexivity.
Qed.

Lemma GL_var_free_vars (e : expr R) : var_free e = true -> vars e = [].
Proof.
  induction e as [c|x|l IH|l IH|a b IHa IHb|a b IHa IHb|a b IHa IHb
                 |a IHa|a IHa|a IHa|a IHa|a n IHa|a n IHa|a b IHa|a b IHa]
    using expr_ind'; cbn [var_free vars]; intro H;
    try discriminate; try reflexivity; try (apply IHa; exact H);
    try (apply GL_var_free_list; assumption);
    (apply andb_prop in H; destruct H as [H1 H2]; rewrite (IHa H1), (IHb H2); reflexivity).
Qed.

Lemma GL_var_free_supplies (p : point R) (e : expr R) : var_free e = true -> supplies p e.
Proof.
  intros H x Hx. rewrite (GL_var_free_vars e H) in Hx. destruct Hx.
Qed.

(* what [consolidate] returns *)
Lemma GL_consolidate_inv (e e' : expr R) :
  consolidate RInst e = Some e' ->
  var_free e = true /\ exists v, evalR [] e = Val v /\ e' = Const v.
Proof.
  unfold consolidate. intro Hc.
  destruct (var_free e) eqn:Hvf; [|discriminate].
  split; [reflexivity|].
  destruct (evalR [] e) as [v| | |k] eqn:Ev.
  - exists v. split; [reflexivity|].
    destruct e; try discriminate; injection Hc as <-; reflexivity.
  - destruct e; discriminate.
  - destruct e; discriminate.
  - destruct e; discriminate.
Qed.

Theorem consolidate_sound : C08_consolidate_sound.
Proof.
  intros e e' Hc Hwf.
  destruct (GL_consolidate_inv e e' Hc) as [Hvf [v [Ev ->]]].
  assert (Hs : supplies [] e) by (apply GL_var_free_supplies; exact Hvf).
  assert (Hv : v = denote (env_of []) e).
  { destruct (eval_total [] e Hwf Hs) as [E|E]; rewrite Ev in E.
    - injection E as ->. reflexivity.
    - discriminate. }
  split; [exact I|]. split.
  - cbn [vars]. apply incl_nil_l.
  - intros rho _. split; [exact I|].
    cbn [denote]. rewrite Hv. apply denote_ext.
    intros x Hx. rewrite (GL_var_free_vars e Hvf) in Hx. destruct Hx.
Qed.

(** ** 3. The closed forms of Closure.v *)

Theorem step_sound_closed : C08_step_sound.
Proof. exact (step_sound rules_sound consolidate_sound). Qed.

Theorem fully_reduce_sound_closed : C08_fully_reduce_sound.
Proof. exact (fully_reduce_sound rules_sound consolidate_sound). Qed.

Theorem nfr_sound_closed : C08_nfr_sound.
Proof. exact (nfr_sound rules_sound consolidate_sound). Qed.

Theorem normalize_sound_closed : C08_normalize_sound.
Proof. exact (normalize_sound rules_sound consolidate_sound). Qed.

(** ** 4. Partial(e, v).as_expression() denotes the true partial derivative *)

Theorem as_expression_sound : C05_as_expression_sound.
Proof.
  intros fuel d rho e s v Hwf Hdom Hp Hgt.
  unfold partial_as_expression in Hp.
  destruct (synth_fwd_sound rho e v Hwf Hdom) as (W0 & V0 & D0 & T0).
  destruct (normalize_sound_closed fuel d _ _ Hp Hgt W0) as (W1 & V1 & R1).
  destruct (R1 rho D0) as [D1 E1].
  split; [exact W1|]. split; [|split].
  - eapply incl_tran; [exact V1 | exact V0].
  - exact D1.
  - rewrite E1. exact T0.
Qed.

(** ** 5. The early route *)

(* the closed forms of the kind theorems *)
Lemma GL_fwd_kind : C07_fwd.
Proof. exact (fwd_same_kind eval_total). Qed.

Lemma GL_rev_kind : C07_rev.
Proof. exact (rev_same_kind eval_total). Qed.

Lemma GL_domerr_of_kind {A B} (o1 : outcome A) (o2 : outcome B) :
  same_kind o1 o2 -> o2 = DomErr -> o1 = DomErr.
Proof.
  intros [_ H] ->. cbn in H. destruct o1; try discriminate. reflexivity.
Qed.

Lemma GL_fwd_domerr p e v :
  wfR e -> supplies p e -> evalR p e = DomErr -> fwdR v p e = DomErr.
Proof. intros W S E. exact (GL_domerr_of_kind _ _ (GL_fwd_kind p e v W S) E). Qed.

Lemma GL_rev_domerr p e enum :
  wfR e -> supplies p e -> evalR p e = DomErr -> numeric_partials RInst p e enum = DomErr.
Proof. intros W S E. exact (GL_domerr_of_kind _ _ (GL_rev_kind p e enum W S) E). Qed.

(* under wf and supplies: either inside the domain (value), or DomErr *)
Lemma GL_eval_cases p e :
  wfR e -> supplies p e ->
  (InDomain (env_of p) e /\ evalR p e = Val (denote (env_of p) e)) \/
  (~ InDomain (env_of p) e /\ evalR p e = DomErr).
Proof.
  intros W S. destruct (InDomain_dec_supplied p e W S) as [D|D]; [left|right]; split; try exact D.
  - apply eval_sound; assumption.
  - apply (proj2 (eval_domerr_iff p e W S)). exact D.
Qed.

Lemma GL_supplies_incl p (e s : expr R) :
  incl (vars s) (vars e) -> supplies p e -> supplies p s.
Proof. intros Hi S x Hx. apply S. apply Hi. exact Hx. Qed.

(* the two possible behaviours of the early route, side by side with the late one *)
Lemma GL_early_cases (fuel d : nat) (p : point R) (e s : expr R) (v : name) :
  wfR e -> supplies p e ->
  partial_as_expression RInst fuel d e v = Some s ->
  good_trace (normalize_trace RInst fuel d (synth_fwd RInst v e)) = true ->
  (evalR p e = DomErr /\ fwdR v p e = DomErr) \/
  (exists r dd, evalR p e = Val r /\ evalR p s = Val dd /\ fwdR v p e = Val dd).
Proof.
  intros W S Hp Hgt.
  destruct (GL_eval_cases p e W S) as [[D E]|[D E]].
  - right.
    destruct (as_expression_sound fuel d (env_of p) e s v W D Hp Hgt) as (Ws & Vs & Ds & Ts).
    assert (Ss : supplies p s) by (eapply GL_supplies_incl; eassumption).
    destruct (fwd_sound eval_sound p e v W S D) as [dd [Ef Tf]].
    exists (denote (env_of p) e), dd. split; [exact E|]. split; [|exact Ef].
    rewrite (eval_sound p s Ws Ss Ds). f_equal.
    exact (tp_unique (env_of p) v e _ _ Ts Tf).
  - left. split; [exact E|]. apply GL_fwd_domerr; assumption.
Qed.

Theorem early_same_kind : C07_early.
Proof.
  intros fuel d p e s v W S Hp Hgt. unfold at_via.
  destruct (GL_early_cases fuel d p e s v W S Hp Hgt) as [[E _]|[r [dd [E [Es _]]]]];
    rewrite E; cbn [bind].
  - split; reflexivity.
  - rewrite Es. split; reflexivity.
Qed.

Theorem early_agrees : C06_early.
Proof.
  intros fuel d p e s v W S Hp Hgt. unfold at_via, partial_at_late.
  destruct (GL_early_cases fuel d p e s v W S Hp Hgt) as [[E Ef]|[r [dd [E [Es Ef]]]]];
    rewrite E, Ef; cbn [bind].
  - reflexivity.
  - exact Es.
Qed.

(** ** 6. The located / late differential *)

Theorem located_agrees : C06_located.
Proof.
  intros p e enum v W S Hc.
  unfold located_differential, differential_at_late, partial_at_late, component_of.
  destruct (GL_eval_cases p e W S) as [[D E]|[D E]].
  - destruct (rev_sound eval_sound p e enum W S D Hc) as [ps [En Hps]].
    destruct (Hps v) as [dd [Ef El]].
    rewrite E, En, Ef. cbn [bind]. rewrite El. split; reflexivity.
  - rewrite E, (GL_rev_domerr p e enum W S E), (GL_fwd_domerr p e v W S E). cbn [bind].
    split; reflexivity.
Qed.

(** ** Sanity / non-vacuity *)

(* constant folding really fires on a variable-free sum, and yields its value *)
Example GL_consolidate_example :
  exists v, consolidate RInst (Add [Const 1; Const 2]) = Some (Const v) /\ v = 3 /\
            refines (Add [Const 1; Const 2]) (Const v).
Proof.
  assert (E : consolidate RInst (Add [Const 1; Const 2]) = Some (Const (1 + (2 + 0)))).
  { unfold consolidate. cbn. reflexivity. }
  exists (1 + (2 + 0)). split; [exact E|]. split; [lra|].
  apply consolidate_sound. exact E.
Qed.

(* a variable-free expression outside its domain is NOT folded (premise of 2 is not vacuous
   the other way round) *)
Example GL_consolidate_domerr :
  consolidate RInst (Recip (Const 0)) = None.
Proof.
  unfold consolidate. cbn. unfold verify_reciprocal. cbn.
  replace (Reqb 0 0) with true by (symmetry; apply Reqb_true; reflexivity).
  reflexivity.
Qed.

Lemma GL_fr_some fuel (e e' : expr R) lab :
  step_named RInst e = Some (lab, e') ->
  fully_reduce RInst (S fuel) e = fully_reduce RInst fuel e' /\
  reduce_trace RInst (S fuel) e = lab :: reduce_trace RInst fuel e'.
Proof. intro H. cbn [fully_reduce reduce_trace]. unfold step. rewrite H. split; reflexivity. Qed.

Lemma GL_fr_none fuel (e : expr R) :
  step_named RInst e = None ->
  fully_reduce RInst fuel e = e /\ reduce_trace RInst fuel e = [].
Proof.
  intro H. destruct fuel as [|f]; cbn [fully_reduce reduce_trace]; unfold step; rewrite ?H;
    split; reflexivity.
Qed.

Local Notation x1 := (Var 1%positive).

(* d/dx1 sin x1 is synthesised as cos x1 * 1; one rule application removes the 1 *)
Lemma GL_ex_step1 :
  step_named RInst (Mul [Cos x1; Const 1]) =
  Some (LRule "_reduce_product_by_eliminating_ones" (Mul [Cos x1; Const 1]), Mul [Cos x1]).
Proof.
  cbn. unfold rules_at. cbn.
  replace (Reqb 1 0) with false by (symmetry; apply Reqb_false; lra).
  replace (Reqb 1 1) with true by (symmetry; apply Reqb_true; reflexivity).
  reflexivity.
Qed.

Lemma GL_ex_step2 : step_named RInst (Mul [Cos x1] : expr R) = None.
Proof. reflexivity. Qed.

Lemma GL_ex_step3 : step_named RInst (Cos x1 : expr R) = None.
Proof. reflexivity. Qed.

Example GL_step_instance : refines (Mul [Cos x1; Const 1]) (Mul [Cos x1]).
Proof. apply (step_sound_closed _ _ _ GL_ex_step1). reflexivity. Qed.

(* the premises of C05_as_expression_sound / C07_early / C06_early are satisfiable, with a
   normalisation that takes a genuine rule step and a genuine normal-form rewrite
   (Mul [cos x1] becomes cos x1) *)
Example GL_as_expression_nonvacuous :
  let e : expr R := Sin x1 in
  let p : point R := [(1%positive, 0)] in
  wfR e /\ supplies p e /\
  partial_as_expression RInst 3 3 e 1%positive = Some (Cos x1) /\
  good_trace (normalize_trace RInst 3 3 (synth_fwd RInst 1%positive e)) = true.
Proof.
  cbv zeta. split; [exact I|]. split.
  { intros y [<-|[]]. cbn. discriminate. }
  unfold partial_as_expression, normalize, normalize_trace.
  change (synth_fwd RInst 1%positive (Sin x1)) with (Mul [Cos x1; Const 1] : expr R).
  destruct (GL_fr_some 2 _ _ _ GL_ex_step1) as [F1 T1].
  destruct (GL_fr_none 2 _ GL_ex_step2) as [F2 T2].
  destruct (GL_fr_none 3 _ GL_ex_step3) as [F3 T3].
  rewrite F1, T1, F2, T2.
  cbn [nfr nfr_trace partition_by is_Recip filter negb omapM flat_map app].
  rewrite F3, T3. cbn. split; reflexivity.
Qed.

(* ... so the three theorems say something about that object *)
Example GL_early_instance :
  let e : expr R := Sin x1 in
  let p : point R := [(1%positive, 0)] in
  at_via RInst e (Cos x1) p = partial_at_late RInst e 1%positive p /\
  same_kind (at_via RInst e (Cos x1) p) (evalR p e) /\
  true_partial (env_of p) e 1%positive (denote (env_of p) (Cos x1)).
Proof.
  cbv zeta. destruct GL_as_expression_nonvacuous as (W & S & Hp & Hgt).
  split; [|split].
  - exact (early_agrees 3%nat 3%nat _ _ _ _ W S Hp Hgt).
  - exact (early_same_kind 3%nat 3%nat _ _ _ _ W S Hp Hgt).
  - apply (as_expression_sound 3%nat 3%nat (env_of [(1%positive, 0)]) _ _ _ W I Hp Hgt).
Qed.

(* C06_located on the tree of ReverseSound.v (repeated variable, product, quotient) *)
Example GL_located_instance (v : name) :
  component_of RInst (located_differential RInst RV_ex_e [2%positive; 1%positive] RV_ex_p) v =
  partial_at_late RInst RV_ex_e v RV_ex_p.
Proof.
  destruct rev_premises_satisfiable as (W & S & _ & C).
  exact (proj1 (located_agrees RV_ex_p RV_ex_e _ v W S C)).
Qed.

(** ** Final types and assumptions *)
Check (rules_sound : C08_rules_sound).
Check (consolidate_sound : C08_consolidate_sound).
Check (step_sound_closed : C08_step_sound).
Check (fully_reduce_sound_closed : C08_fully_reduce_sound).
Check (nfr_sound_closed : C08_nfr_sound).
Check (normalize_sound_closed : C08_normalize_sound).
Check (as_expression_sound : C05_as_expression_sound).
Check (early_same_kind : C07_early).
Check (early_agrees : C06_early).
Check (located_agrees : C06_located).
Print Assumptions rules_sound.
Print Assumptions consolidate_sound.
Print Assumptions step_sound_closed.
Print Assumptions fully_reduce_sound_closed.
Print Assumptions nfr_sound_closed.
Print Assumptions normalize_sound_closed.
Print Assumptions as_expression_sound.
Print Assumptions early_same_kind.
Print Assumptions early_agrees.
Print Assumptions located_agrees.
