(** * Deriv: C03 — the forward-mode numeric partial [fwd RInst] returns the true partial
    derivative of the function denoted by the expression ([fwd_sound]), and exactly 0 for a
    variable that does not occur ([fwd_absent]).

    The development depends on C01 (evaluation inside the domain returns [Val (denote ...)]),
    which is proved in parallel in proofs/EvalSound.v: it is a [Hypothesis] of the section, so
    the theorems take it as an explicit premise. *)
From Coq Require Import Reals ZArith List Bool Lia Lra.
From Coquelicot Require Import Rcomplements Hierarchy Derive ElemFct.
From SM Require Import Num Syntax Outcome MathFun Eval Forward RInst Denote Spec.
From SM.proofs Require Import DerivLemmas.
Import ListNotations.
Open Scope R_scope.

(** ** math_functions at RInst *)

Lemma D_mf_add (vs : list R) : mf_add RInst vs = fold_right Rplus 0 vs.
Proof. reflexivity. Qed.

Lemma D_mf_minus (x y : R) : mf_minus RInst x y = x - y.
Proof. reflexivity. Qed.

Lemma D_mf_negation (x : R) : mf_negation RInst x = - x.
Proof. reflexivity. Qed.

Lemma D_mul_loop (acc : R) (vs : list R) :
  mul_loop RInst acc vs = acc * fold_right Rmult 1 vs.
Proof.
  revert acc; induction vs as [|a vs IH]; intro acc; cbn [mul_loop fold_right].
  - ring.
  - change (neqb RInst a (n0 RInst)) with (Reqb a 0).
    destruct (Reqb a 0) eqn:E; [apply Reqb_true in E | apply Reqb_false in E].
    + subst a. change (n0 RInst) with 0. ring.
    + rewrite IH. change (nmul RInst acc a) with (acc * a). ring.
Qed.

Lemma D_mf_multiply (vs : list R) : mf_multiply RInst vs = fold_right Rmult 1 vs.
Proof.
  unfold mf_multiply. rewrite D_mul_loop.
  change (nfloat RInst (n1 RInst)) with 1. ring.
Qed.

Lemma D_mf_divide (x y : R) : y <> 0 -> mf_divide RInst x y = Val (x / y).
Proof.
  intro Hy. unfold mf_divide, prim_div.
  change (neqb RInst y (n0 RInst)) with (Reqb y 0).
  apply Reqb_false in Hy. rewrite Hy. reflexivity.
Qed.

Lemma D_mf_nth_power (x : R) (n : positive) :
  mf_nth_power RInst x n = Val (x ^ Pos.to_nat n).
Proof. reflexivity. Qed.

Lemma D_mf_cosine (x : R) : mf_cosine RInst x = Val (cos x).
Proof. reflexivity. Qed.

Lemma D_mf_sine (x : R) : mf_sine RInst x = Val (sin x).
Proof. reflexivity. Qed.

Lemma D_exp1_gt_1 : 1 < exp 1.
Proof. assert (H : 1 + 1 < exp 1) by (apply exp_ineq1; lra). lra. Qed.

Lemma D_Reqb_false (x y : R) : x <> y -> Reqb x y = false.
Proof. apply Reqb_false. Qed.

Lemma D_Rltb_false (x y : R) : ~ x < y -> Rltb x y = false.
Proof. apply Rltb_false. Qed.

Lemma D_nleb_pos (x : R) : 0 < x -> nleb RInst x (n0 RInst) = false.
Proof.
  intro Hx. unfold nleb.
  change (nltb RInst x (n0 RInst)) with (Rltb x 0).
  change (neqb RInst x (n0 RInst)) with (Reqb x 0).
  rewrite D_Rltb_false, D_Reqb_false by lra. reflexivity.
Qed.

Lemma D_mf_logarithm_e (x : R) : 0 < x -> mf_logarithm RInst x (n_e RInst) = Val (ln x).
Proof.
  intro Hx. pose proof D_exp1_gt_1 as He.
  unfold mf_logarithm, prim_log.
  change (n_e RInst) with (exp 1).
  rewrite (D_nleb_pos (exp 1)) by lra.
  rewrite (D_nleb_pos x) by exact Hx.
  change (neqb RInst (exp 1) (n1 RInst)) with (Reqb (exp 1) 1).
  rewrite D_Reqb_false by lra.
  change (nln RInst (exp 1)) with (ln (exp 1)). rewrite ln_exp.
  change (neqb RInst 1 (n0 RInst)) with (Reqb 1 0).
  rewrite D_Reqb_false by lra.
  change (ndiv RInst (nln RInst x) 1) with (ln x / 1).
  f_equal. field.
Qed.

Lemma D_mf_power (x y : R) : 0 < x -> mf_power RInst x y = Val (Rpower x y).
Proof.
  intro Hx. unfold mf_power, prim_pow.
  change (neqb RInst x (n0 RInst)) with (Reqb x 0).
  change (nltb RInst x (n0 RInst)) with (Rltb x 0).
  rewrite D_Reqb_false, D_Rltb_false by lra.
  reflexivity.
Qed.

(** ** domain checks at RInst *)

Lemma D_verify_divide (l r : R) : r <> 0 -> verify_divide RInst l r = Val tt.
Proof.
  intro H. unfold verify_divide.
  change (neqb RInst r (n0 RInst)) with (Reqb r 0).
  rewrite D_Reqb_false by exact H. reflexivity.
Qed.

Lemma D_verify_power (l r : R) : 0 < l -> verify_power RInst l r = Val tt.
Proof.
  intro H. unfold verify_power.
  change (neqb RInst l (n0 RInst)) with (Reqb l 0).
  change (nltb RInst l (n0 RInst)) with (Rltb l 0).
  rewrite D_Reqb_false, D_Rltb_false by lra. reflexivity.
Qed.

Lemma D_verify_reciprocal (x : R) : x <> 0 -> verify_reciprocal RInst x = Val tt.
Proof.
  intro H. unfold verify_reciprocal.
  change (neqb RInst x (n0 RInst)) with (Reqb x 0).
  rewrite D_Reqb_false by exact H. reflexivity.
Qed.

Lemma D_verify_logarithm (x : R) : 0 < x -> verify_logarithm RInst x = Val tt.
Proof.
  intro H. unfold verify_logarithm.
  change (neqb RInst x (n0 RInst)) with (Reqb x 0).
  change (nltb RInst x (n0 RInst)) with (Rltb x 0).
  rewrite D_Reqb_false, D_Rltb_false by lra. reflexivity.
Qed.

Lemma D_verify_nth_root (x : R) (n : positive) :
  (n = 1%positive \/ (x <> 0 /\ (Z.even (Zpos n) = true -> 0 < x))) ->
  verify_nth_root RInst x n = Val tt.
Proof.
  intros [Hn|[H0 Hev]]; unfold verify_nth_root.
  - subst n. reflexivity.
  - change (neqb RInst x (n0 RInst)) with (Reqb x 0).
    change (nltb RInst x (n0 RInst)) with (Rltb x 0).
    rewrite D_Reqb_false by exact H0. rewrite andb_false_r.
    destruct (Z.even (Zpos n)); [|reflexivity].
    specialize (Hev eq_refl). rewrite D_Rltb_false by lra. reflexivity.
Qed.

Lemma D_root_neq_0 (n : positive) (x : R) : x <> 0 -> root n x <> 0.
Proof.
  intro Hx. unfold root.
  destruct (Rlt_dec 0 x) as [H|H].
  - pose proof (exp_pos (/ IZR (Zpos n) * ln x)). unfold Rpower. lra.
  - destruct (Rlt_dec x 0) as [H'|H'].
    + pose proof (exp_pos (/ IZR (Zpos n) * ln (- x))). unfold Rpower. lra.
    + lra.
Qed.

(** ** lists *)

Lemma D_mapi_from_ext {A B} (f g : nat -> A -> B) (l : list A) (k : nat) :
  (forall i x, f i x = g i x) -> mapi_from k f l = mapi_from k g l.
Proof.
  intro H. revert k; induction l as [|a l IH]; intro k; cbn [mapi_from]; [reflexivity|].
  rewrite H, IH. reflexivity.
Qed.

Lemma D_mapi_ext {A B} (f g : nat -> A -> B) (l : list A) :
  (forall i x, f i x = g i x) -> mapi f l = mapi g l.
Proof. apply D_mapi_from_ext. Qed.

Lemma D_var_free_vars (e : expr R) : var_free e = true -> vars e = [].
Proof.
  induction e as [c|x|l IHl|l IHl|a b IHa IHb|a b IHa IHb|a b IHa IHb
                  |a IHa|a IHa|a IHa|a IHa|a n IHa|a n IHa|a b IHa|a b IHa] using expr_ind';
    cbn [var_free vars]; intro H;
    try (apply andb_prop in H; destruct H as [H1 H2]; rewrite IHa, IHb by assumption; reflexivity);
    try (apply IHa; exact H).
  - reflexivity.
  - discriminate.
  - induction IHl as [|a l Ha Hl IH]; cbn [forallb flat_map] in *; [reflexivity|].
    apply andb_prop in H; destruct H as [H1 H2]. rewrite Ha, IH by assumption. reflexivity.
  - induction IHl as [|a l Ha Hl IH]; cbn [forallb flat_map] in *; [reflexivity|].
    apply andb_prop in H; destruct H as [H1 H2]. rewrite Ha, IH by assumption. reflexivity.
Qed.

(** ** premises of a node give the premises of its children *)

Lemma D_supplies_app (p : point R) (e a b : expr R) :
  vars e = vars a ++ vars b -> supplies p e -> supplies p a /\ supplies p b.
Proof.
  intros E H; split; intros x Hx; apply H; rewrite E; apply in_or_app; auto.
Qed.

Lemma D_supplies_same (p : point R) (e a : expr R) :
  vars e = vars a -> supplies p e -> supplies p a.
Proof. intros E H x Hx; apply H; rewrite E; exact Hx. Qed.

Lemma D_supplies_cons_add (p : point R) (a : expr R) (l : list (expr R)) :
  supplies p (Add (a :: l)) -> supplies p a /\ supplies p (Add l).
Proof. apply D_supplies_app. reflexivity. Qed.

Lemma D_supplies_cons_mul (p : point R) (a : expr R) (l : list (expr R)) :
  supplies p (Mul (a :: l)) -> supplies p a /\ supplies p (Mul l).
Proof. apply D_supplies_app. reflexivity. Qed.

Lemma D_supplies_add_mul (p : point R) (l : list (expr R)) :
  supplies p (Mul l) <-> supplies p (Add l).
Proof. split; intro H; exact H. Qed.

Ltac D_norm :=
  repeat match goal with
  | |- context [mf_add RInst ?l] => change (mf_add RInst l) with (fold_right Rplus 0 l)
  | |- context [mf_negation RInst ?x] => change (mf_negation RInst x) with (- x)
  | |- context [mf_minus RInst ?x ?y] => change (mf_minus RInst x y) with (x - y)
  | |- context [mf_multiply RInst ?l] => rewrite (D_mf_multiply l)
  end;
  cbn [fold_right].

Section D.
  Hypothesis Heval : C01_eval_sound.

  Variable p : point R.
  Variable v : name.
  Notation rho := (env_of p).

  (** the children of an n-ary node evaluate to their denotations *)
  Lemma D_eval_list (l : list (expr R)) :
    wfR (Add l) -> supplies p (Add l) -> InDomain rho (Add l) ->
    sequence (map (evalR p) l) = Val (map (denote rho) l).
  Proof.
    induction l as [|a l IH]; intros Hwf Hs Hd; cbn [map sequence]; [reflexivity|].
    cbn [wf InDomain fold_right] in Hwf, Hd.
    destruct Hwf as [Hwa Hwl]. destruct Hd as [Hda Hdl].
    apply D_supplies_cons_add in Hs. destruct Hs as [Hsa Hsl].
    rewrite (Heval p a Hwa Hsa Hda). cbn [bind].
    rewrite (IH Hwl Hsl Hdl). reflexivity.
  Qed.

  Definition D_P (e : expr R) : Prop :=
    wfR e -> supplies p e -> InDomain rho e ->
    exists d, fwdR v p e = Val d /\ true_partial rho e v d.

  Lemma D_fwd_list (l : list (expr R)) :
    Forall D_P l ->
    wfR (Add l) -> supplies p (Add l) -> InDomain rho (Add l) ->
    exists ds, sequence (map (fwdR v p) l) = Val ds /\
               Forall2 (fun a d => true_partial rho a v d) l ds.
  Proof.
    induction 1 as [|a l Ha Hl IH]; intros Hwf Hs Hd; cbn [map sequence].
    - exists []. split; [reflexivity | constructor].
    - cbn [wf InDomain fold_right] in Hwf, Hd.
      destruct Hwf as [Hwa Hwl]. destruct Hd as [Hda Hdl].
      apply D_supplies_cons_add in Hs. destruct Hs as [Hsa Hsl].
      destruct (Ha Hwa Hsa Hda) as [d [Hfa Hta]].
      destruct (IH Hwl Hsl Hdl) as [ds [Hfl Htl]].
      exists (d :: ds). rewrite Hfa, Hfl. cbn [bind].
      split; [reflexivity | constructor; assumption].
  Qed.

  (** *** unfolding equations of [fwd] (all by computation) *)
  Lemma D_fwd_Add l :
    fwdR v p (Add l) = (ds <- sequence (map (fwdR v p) l) ;; Val (mf_add RInst ds)).
  Proof. reflexivity. Qed.

  Lemma D_fwd_Mul l :
    fwdR v p (Mul l) =
    (vs <- sequence (map (evalR p) l) ;;
     ds <- sequence (map (fwdR v p) l) ;;
     Val (mf_add RInst (mapi (fun i d => mf_multiply RInst (d :: remove_nth i vs)) ds))).
  Proof. reflexivity. Qed.

  Lemma D_fwd_Minus a b :
    fwdR v p (Minus a b) = (da <- fwdR v p a ;; db <- fwdR v p b ;; Val (mf_minus RInst da db)).
  Proof. reflexivity. Qed.

  Lemma D_fwd_Divide a b :
    fwdR v p (Divide a b) =
    (lv <- evalR p a ;; rv <- evalR p b ;; _ <- verify_divide RInst lv rv ;;
     da <- fwdR v p a ;; db <- fwdR v p b ;;
     x <- divide_formula_left RInst p a b da ;;
     y <- divide_formula_right RInst p a b db ;;
     Val (mf_add RInst [x; y])).
  Proof. reflexivity. Qed.

  Definition D_power_main (a b : expr R) : outcome R :=
    lv <- evalR p a ;; rv <- evalR p b ;; _ <- verify_power RInst lv rv ;;
    da <- fwdR v p a ;; db <- fwdR v p b ;;
    x <- power_formula_left RInst p a b da ;;
    y <- power_formula_right RInst p a b db ;;
    Val (x + y).

  Lemma D_fwd_Power a b :
    fwdR v p (Power a b) =
    (_ <- evalR p (Power a b) ;;
     sc <- power_shortcut RInst p a ;;
     if sc then Val 0 else D_power_main a b).
  Proof. reflexivity. Qed.

  Definition D_unary (e a : expr R) : outcome R :=
    iv <- evalR p a ;; _ <- unary_verify RInst e iv ;; d <- fwdR v p a ;;
    unary_formula RInst p e d.

  Lemma D_fwd_Neg a : fwdR v p (Neg a) = D_unary (Neg a) a.
  Proof. reflexivity. Qed.
  Lemma D_fwd_Recip a : fwdR v p (Recip a) = D_unary (Recip a) a.
  Proof. reflexivity. Qed.
  Lemma D_fwd_Sin a : fwdR v p (Sin a) = D_unary (Sin a) a.
  Proof. reflexivity. Qed.
  Lemma D_fwd_Cos a : fwdR v p (Cos a) = D_unary (Cos a) a.
  Proof. reflexivity. Qed.
  Lemma D_fwd_NthPow a n : fwdR v p (NthPow a n) = D_unary (NthPow a n) a.
  Proof. reflexivity. Qed.
  Lemma D_fwd_NthRoot a n : fwdR v p (NthRoot a n) = D_unary (NthRoot a n) a.
  Proof. reflexivity. Qed.
  Lemma D_fwd_Exp a b : fwdR v p (Exp a b) = D_unary (Exp a b) a.
  Proof. reflexivity. Qed.
  Lemma D_fwd_Log a b : fwdR v p (Log a b) = D_unary (Log a b) a.
  Proof. reflexivity. Qed.

  Lemma D_uf_NthPow a n m :
    n <> 1%positive ->
    unary_formula RInst p (NthPow a n) m =
    (iv <- evalR p a ;; w <- mf_nth_power RInst iv (Pos.pred n) ;;
     Val (mf_multiply RInst [IZR (Zpos n); w; m])).
  Proof. intro Hn. destruct n; [reflexivity | reflexivity | congruence]. Qed.

  Lemma D_uf_NthRoot a n m :
    n <> 1%positive ->
    unary_formula RInst p (NthRoot a n) m =
    (sv <- evalR p (NthRoot a n) ;; w <- mf_nth_power RInst sv (Pos.pred n) ;;
     mf_divide RInst m (mf_multiply RInst [IZR (Zpos n); w])).
  Proof. intro Hn. destruct n; [reflexivity | reflexivity | congruence]. Qed.

  Lemma D_to_nat_pred (n : positive) :
    n <> 1%positive -> Pos.to_nat (Pos.pred n) = (Pos.to_nat n - 1)%nat.
  Proof.
    intro Hn. rewrite Pos2Nat.inj_pred by lia. apply Nat.sub_1_r || (symmetry; apply Nat.sub_1_r).
  Qed.

  (** *** the cases *)
  Lemma D_case_const c : D_P (Const c).
  Proof. intros _ _ _. exists 0. split; [reflexivity | apply tp_const]. Qed.

  Lemma D_case_var x : D_P (Var x).
  Proof.
    intros _ _ _. cbn [fwd]. unfold name_eqb.
    destruct (Pos.eqb x v) eqn:E.
    - apply Pos.eqb_eq in E; subst x. exists 1. split; [reflexivity | apply tp_var_same].
    - apply Pos.eqb_neq in E. exists 0. split; [reflexivity | apply tp_var_other; exact E].
  Qed.

  Lemma D_case_add l : Forall D_P l -> D_P (Add l).
  Proof.
    intros Hl Hwf Hs Hd.
    destruct (D_fwd_list l Hl Hwf Hs Hd) as [ds [Hf Ht]].
    exists (fold_right Rplus 0 ds). rewrite D_fwd_Add, Hf. cbn [bind].
    split; [reflexivity | apply tp_add; exact Ht].
  Qed.

  Lemma D_case_mul l : Forall D_P l -> D_P (Mul l).
  Proof.
    intros Hl Hwf Hs Hd.
    destruct (D_fwd_list l Hl Hwf Hs Hd) as [ds [Hf Ht]].
    rewrite D_fwd_Mul, (D_eval_list l Hwf Hs Hd). cbn [bind]. rewrite Hf. cbn [bind].
    eexists; split; [reflexivity|].
    rewrite D_mf_add. erewrite D_mapi_ext; [apply tp_mul; exact Ht|].
    intros i x; apply D_mf_multiply.
  Qed.

  Lemma D_case_minus a b : D_P a -> D_P b -> D_P (Minus a b).
  Proof.
    intros IHa IHb Hwf Hs Hd.
    cbn [wf InDomain] in Hwf, Hd. destruct Hwf as [Hwa Hwb]. destruct Hd as [Hda Hdb].
    apply D_supplies_app with (a := a) (b := b) in Hs; [|reflexivity]. destruct Hs as [Hsa Hsb].
    destruct (IHa Hwa Hsa Hda) as [da [Hfa Hta]].
    destruct (IHb Hwb Hsb Hdb) as [db [Hfb Htb]].
    rewrite D_fwd_Minus, Hfa, Hfb. cbn [bind].
    exists (da - db). split; [reflexivity | apply tp_minus; assumption].
  Qed.

  Lemma D_case_divide a b : D_P a -> D_P b -> D_P (Divide a b).
  Proof.
    intros IHa IHb Hwf Hs Hd.
    cbn [wf InDomain] in Hwf, Hd. destruct Hwf as [Hwa Hwb]. destruct Hd as [Hda [Hdb Hb0]].
    apply D_supplies_app with (a := a) (b := b) in Hs; [|reflexivity]. destruct Hs as [Hsa Hsb].
    destruct (IHa Hwa Hsa Hda) as [da [Hfa Hta]].
    destruct (IHb Hwb Hsb Hdb) as [db [Hfb Htb]].
    pose proof (Heval p a Hwa Hsa Hda) as Ea.
    pose proof (Heval p b Hwb Hsb Hdb) as Eb.
    set (va := denote rho a) in *. set (vb := denote rho b) in *.
    assert (Hsq : vb ^ Pos.to_nat 2 <> 0) by (apply pow_nonzero; exact Hb0).
    rewrite D_fwd_Divide. unfold divide_formula_left, divide_formula_right.
    rewrite Ea, Eb. cbn [bind].
    rewrite D_verify_divide by exact Hb0. cbn [bind].
    rewrite Hfa, Hfb. cbn [bind].
    rewrite D_mf_divide by exact Hb0. cbn [bind].
    rewrite D_mf_nth_power. cbn [bind].
    rewrite D_mf_divide by exact Hsq. cbn [bind].
    eexists; split; [reflexivity|].
    eapply tp_ext_value; [apply tp_divide; eassumption|].
    D_norm. fold va vb. change (Pos.to_nat 2) with 2%nat. ring.
  Qed.
End D.
