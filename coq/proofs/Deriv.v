(** * Deriv: C03 — the forward-mode numeric partial [fwd RInst] returns the true partial
    derivative of the function denoted by the expression ([fwd_sound]), and exactly 0 for a
    variable that does not occur ([fwd_absent]).

    The development depends on C01 (evaluation inside the domain returns [Val (denote ...)]),
    which is proved in parallel in proofs/EvalSound.v: it is a [Hypothesis] of the section, so
    the theorems take it as an explicit premise. *)
From Coq Require Import Reals ZArith List Bool Lia Lra.
From Coquelicot Require Import Rcomplements Hierarchy Derive ElemFct.
From SM Require Import Num Syntax Outcome MathFun Eval Forward RInst Denote Spec.
From SM.proofs Require Import DerivLemmas.
Import ListNotations.
Open Scope R_scope.

(** ** math_functions at RInst *)

Lemma D_mf_add (vs : list R) : mf_add RInst vs = fold_right Rplus 0 vs.
Proof. reflexivity. Qed.

Lemma D_mf_minus (x y : R) : mf_minus RInst x y = x - y.
Proof. reflexivity. Qed.

Lemma D_mf_negation (x : R) : mf_negation RInst x = - x.
Proof. reflexivity. Qed.

Lemma D_mul_loop (acc : R) (vs : list R) :
  mul_loop RInst acc vs = acc * fold_right Rmult 1 vs.
Proof.
  revert acc; induction vs as [|a vs IH]; intro acc; cbn [mul_loop fold_right].
  - ring.
  - change (neqb RInst a (n0 RInst)) with (Reqb a 0).
    destruct (Reqb a 0) eqn:E; [apply Reqb_true in E | apply Reqb_false in E].
    + subst a. change (n0 RInst) with 0. ring.
    + rewrite IH. change (nmul RInst acc a) with (acc * a). ring.
Qed.

Lemma D_mf_multiply (vs : list R) : mf_multiply RInst vs = fold_right Rmult 1 vs.
Proof.
  unfold mf_multiply. rewrite D_mul_loop.
  change (nfloat RInst (n1 RInst)) with 1. ring.
Qed.

Lemma D_mf_divide (x y : R) : y <> 0 -> mf_divide RInst x y = Val (x / y).
Proof.
  intro Hy. unfold mf_divide, prim_div.
  change (neqb RInst y (n0 RInst)) with (Reqb y 0).
  apply Reqb_false in Hy. rewrite Hy. reflexivity.
Qed.

Lemma D_mf_nth_power (x : R) (n : positive) :
  mf_nth_power RInst x n = Val (x ^ Pos.to_nat n).
Proof. reflexivity. Qed.

Lemma D_mf_cosine (x : R) : mf_cosine RInst x = Val (cos x).
Proof. reflexivity. Qed.

Lemma D_mf_sine (x : R) : mf_sine RInst x = Val (sin x).
Proof. reflexivity. Qed.

Lemma D_exp1_gt_1 : 1 < exp 1.
Proof. assert (H : 1 + 1 < exp 1) by (apply exp_ineq1; lra). lra. Qed.

Lemma D_Reqb_false (x y : R) : x <> y -> Reqb x y = false.
Proof. apply Reqb_false. Qed.

Lemma D_Rltb_false (x y : R) : ~ x < y -> Rltb x y = false.
Proof. apply Rltb_false. Qed.

Lemma D_nleb_pos (x : R) : 0 < x -> nleb RInst x (n0 RInst) = false.
Proof.
  intro Hx. unfold nleb.
  change (nltb RInst x (n0 RInst)) with (Rltb x 0).
  change (neqb RInst x (n0 RInst)) with (Reqb x 0).
  rewrite D_Rltb_false, D_Reqb_false by lra. reflexivity.
Qed.

Lemma D_mf_logarithm_e (x : R) : 0 < x -> mf_logarithm RInst x (n_e RInst) = Val (ln x).
Proof.
  intro Hx. pose proof D_exp1_gt_1 as He.
  unfold mf_logarithm, prim_log.
  change (n_e RInst) with (exp 1).
  rewrite (D_nleb_pos (exp 1)) by lra.
  rewrite (D_nleb_pos x) by exact Hx.
  change (neqb RInst (exp 1) (n1 RInst)) with (Reqb (exp 1) 1).
  rewrite D_Reqb_false by lra.
  change (nln RInst (exp 1)) with (ln (exp 1)). rewrite ln_exp.
  change (neqb RInst 1 (n0 RInst)) with (Reqb 1 0).
  rewrite D_Reqb_false by lra.
  change (ndiv RInst (nln RInst x) 1) with (ln x / 1).
  f_equal. field.
Qed.

Lemma D_mf_power (x y : R) : 0 < x -> mf_power RInst x y = Val (Rpower x y).
Proof.
  intro Hx. unfold mf_power, prim_pow.
  change (neqb RInst x (n0 RInst)) with (Reqb x 0).
  change (nltb RInst x (n0 RInst)) with (Rltb x 0).
  rewrite D_Reqb_false, D_Rltb_false by lra.
  reflexivity.
Qed.

(** ** domain checks at RInst *)

Lemma D_verify_divide (l r : R) : r <> 0 -> verify_divide RInst l r = Val tt.
Proof.
  intro H. unfold verify_divide.
  change (neqb RInst r (n0 RInst)) with (Reqb r 0).
  rewrite D_Reqb_false by exact H. reflexivity.
Qed.

Lemma D_verify_power (l r : R) : 0 < l -> verify_power RInst l r = Val tt.
Proof.
  intro H. unfold verify_power.
  change (neqb RInst l (n0 RInst)) with (Reqb l 0).
  change (nltb RInst l (n0 RInst)) with (Rltb l 0).
  rewrite D_Reqb_false, D_Rltb_false by lra. reflexivity.
Qed.

Lemma D_verify_reciprocal (x : R) : x <> 0 -> verify_reciprocal RInst x = Val tt.
Proof.
  intro H. unfold verify_reciprocal.
  change (neqb RInst x (n0 RInst)) with (Reqb x 0).
  rewrite D_Reqb_false by exact H. reflexivity.
Qed.

Lemma D_verify_logarithm (x : R) : 0 < x -> verify_logarithm RInst x = Val tt.
Proof.
  intro H. unfold verify_logarithm.
  change (neqb RInst x (n0 RInst)) with (Reqb x 0).
  change (nltb RInst x (n0 RInst)) with (Rltb x 0).
  rewrite D_Reqb_false, D_Rltb_false by lra. reflexivity.
Qed.

Lemma D_verify_nth_root (x : R) (n : positive) :
  (n = 1%positive \/ (x <> 0 /\ (Z.even (Zpos n) = true -> 0 < x))) ->
  verify_nth_root RInst x n = Val tt.
Proof.
  intros [Hn|[H0 Hev]]; unfold verify_nth_root.
  - subst n. reflexivity.
  - change (neqb RInst x (n0 RInst)) with (Reqb x 0).
    change (nltb RInst x (n0 RInst)) with (Rltb x 0).
    rewrite D_Reqb_false by exact H0. rewrite andb_false_r.
    destruct (Z.even (Zpos n)); [|reflexivity].
    specialize (Hev eq_refl). rewrite D_Rltb_false by lra. reflexivity.
Qed.

Lemma D_root_neq_0 (n : positive) (x : R) : x <> 0 -> root n x <> 0.
Proof.
  intro Hx. unfold root.
  destruct (Rlt_dec 0 x) as [H|H].
  - pose proof (exp_pos (/ IZR (Zpos n) * ln x)). unfold Rpower. lra.
  - destruct (Rlt_dec x 0) as [H'|H'].
    + pose proof (exp_pos (/ IZR (Zpos n) * ln (- x))). unfold Rpower. lra.
    + lra.
Qed.

(** ** lists *)

Lemma D_mapi_from_ext {A B} (f g : nat -> A -> B) (l : list A) (k : nat) :
  (forall i x, f i x = g i x) -> mapi_from k f l = mapi_from k g l.
Proof.
  intro H. revert k; induction l as [|a l IH]; intro k; cbn [mapi_from]; [reflexivity|].
  rewrite H, IH. reflexivity.
Qed.

Lemma D_mapi_ext {A B} (f g : nat -> A -> B) (l : list A) :
  (forall i x, f i x = g i x) -> mapi f l = mapi g l.
Proof. apply D_mapi_from_ext. Qed.

Lemma D_var_free_vars (e : expr R) : var_free e = true -> vars e = [].
Proof.
  induction e as [c|x|l IHl|l IHl|a b IHa IHb|a b IHa IHb|a b IHa IHb
                  |a IHa|a IHa|a IHa|a IHa|a n IHa|a n IHa|a b IHa|a b IHa] using expr_ind';
    cbn [var_free vars]; intro H;
    try (apply andb_prop in H; destruct H as [H1 H2]; rewrite IHa, IHb by assumption; reflexivity);
    try (apply IHa; exact H).
  - reflexivity.
  - discriminate.
  - induction IHl as [|a l Ha Hl IH]; cbn [forallb flat_map] in *; [reflexivity|].
    apply andb_prop in H; destruct H as [H1 H2]. rewrite Ha, IH by assumption. reflexivity.
  - induction IHl as [|a l Ha Hl IH]; cbn [forallb flat_map] in *; [reflexivity|].
    apply andb_prop in H; destruct H as [H1 H2]. rewrite Ha, IH by assumption. reflexivity.
Qed.

(** ** premises of a node give the premises of its children *)

Lemma D_supplies_app (p : point R) (e a b : expr R) :
  vars e = vars a ++ vars b -> supplies p e -> supplies p a /\ supplies p b.
Proof.
  intros E H; split; intros x Hx; apply H; rewrite E; apply in_or_app; auto.
Qed.

Lemma D_supplies_same (p : point R) (e a : expr R) :
  vars e = vars a -> supplies p e -> supplies p a.
Proof. intros E H x Hx; apply H; rewrite E; exact Hx. Qed.

Lemma D_supplies_cons_add (p : point R) (a : expr R) (l : list (expr R)) :
  supplies p (Add (a :: l)) -> supplies p a /\ supplies p (Add l).
Proof. apply D_supplies_app. reflexivity. Qed.

Lemma D_supplies_cons_mul (p : point R) (a : expr R) (l : list (expr R)) :
  supplies p (Mul (a :: l)) -> supplies p a /\ supplies p (Mul l).
Proof. apply D_supplies_app. reflexivity. Qed.

Lemma D_supplies_add_mul (p : point R) (l : list (expr R)) :
  supplies p (Mul l) <-> supplies p (Add l).
Proof. split; intro H; exact H. Qed.

Ltac D_norm :=
  repeat match goal with
  | |- context [mf_add RInst ?l] => change (mf_add RInst l) with (fold_right Rplus 0 l)
  | |- context [mf_negation RInst ?x] => change (mf_negation RInst x) with (- x)
  | |- context [mf_minus RInst ?x ?y] => change (mf_minus RInst x y) with (x - y)
  | |- context [mf_multiply RInst ?l] => rewrite (D_mf_multiply l)
  end;
  cbn [fold_right].

Section D.
  Hypothesis Heval : C01_eval_sound.

  Variable p : point R.
  Variable v : name.
  Notation rho := (env_of p).

  (** the children of an n-ary node evaluate to their denotations *)
  Lemma D_eval_list (l : list (expr R)) :
    wfR (Add l) -> supplies p (Add l) -> InDomain rho (Add l) ->
    sequence (map (evalR p) l) = Val (map (denote rho) l).
  Proof.
    induction l as [|a l IH]; intros Hwf Hs Hd; cbn [map sequence]; [reflexivity|].
    cbn [wf InDomain fold_right] in Hwf, Hd.
    destruct Hwf as [Hwa Hwl]. destruct Hd as [Hda Hdl].
    apply D_supplies_cons_add in Hs. destruct Hs as [Hsa Hsl].
    rewrite (Heval p a Hwa Hsa Hda). cbn [bind].
    rewrite (IH Hwl Hsl Hdl). reflexivity.
  Qed.

  Definition D_P (e : expr R) : Prop :=
    wfR e -> supplies p e -> InDomain rho e ->
    exists d, fwdR v p e = Val d /\ true_partial rho e v d.

  Lemma D_fwd_list (l : list (expr R)) :
    Forall D_P l ->
    wfR (Add l) -> supplies p (Add l) -> InDomain rho (Add l) ->
    exists ds, sequence (map (fwdR v p) l) = Val ds /\
               Forall2 (fun a d => true_partial rho a v d) l ds.
  Proof.
    induction 1 as [|a l Ha Hl IH]; intros Hwf Hs Hd; cbn [map sequence].
    - exists []. split; [reflexivity | constructor].
    - cbn [wf InDomain fold_right] in Hwf, Hd.
      destruct Hwf as [Hwa Hwl]. destruct Hd as [Hda Hdl].
      apply D_supplies_cons_add in Hs. destruct Hs as [Hsa Hsl].
      destruct (Ha Hwa Hsa Hda) as [d [Hfa Hta]].
      destruct (IH Hwl Hsl Hdl) as [ds [Hfl Htl]].
      exists (d :: ds). rewrite Hfa, Hfl. cbn [bind].
      split; [reflexivity | constructor; assumption].
  Qed.

  (** *** unfolding equations of [fwd] (all by computation) *)
  Lemma D_fwd_Add l :
    fwdR v p (Add l) = (ds <- sequence (map (fwdR v p) l) ;; Val (mf_add RInst ds)).
  Proof. reflexivity. Qed.

  Lemma D_fwd_Mul l :
    fwdR v p (Mul l) =
    (vs <- sequence (map (evalR p) l) ;;
     ds <- sequence (map (fwdR v p) l) ;;
     Val (mf_add RInst (mapi (fun i d => mf_multiply RInst (d :: remove_nth i vs)) ds))).
  Proof. reflexivity. Qed.

  Lemma D_fwd_Minus a b :
    fwdR v p (Minus a b) = (da <- fwdR v p a ;; db <- fwdR v p b ;; Val (mf_minus RInst da db)).
  Proof. reflexivity. Qed.

  Lemma D_fwd_Divide a b :
    fwdR v p (Divide a b) =
    (lv <- evalR p a ;; rv <- evalR p b ;; _ <- verify_divide RInst lv rv ;;
     da <- fwdR v p a ;; db <- fwdR v p b ;;
     x <- divide_formula_left RInst p a b da ;;
     y <- divide_formula_right RInst p a b db ;;
     Val (mf_add RInst [x; y])).
  Proof. reflexivity. Qed.

  Definition D_power_main (a b : expr R) : outcome R :=
    lv <- evalR p a ;; rv <- evalR p b ;; _ <- verify_power RInst lv rv ;;
    da <- fwdR v p a ;; db <- fwdR v p b ;;
    x <- power_formula_left RInst p a b da ;;
    y <- power_formula_right RInst p a b db ;;
    Val (x + y).

  Lemma D_fwd_Power a b :
    fwdR v p (Power a b) =
    (_ <- evalR p (Power a b) ;;
     sc <- power_shortcut RInst p a ;;
     if sc then Val 0 else D_power_main a b).
  Proof. reflexivity. Qed.

  Definition D_unary (e a : expr R) : outcome R :=
    iv <- evalR p a ;; _ <- unary_verify RInst e iv ;; d <- fwdR v p a ;;
    unary_formula RInst p e d.

  Lemma D_fwd_Neg a : fwdR v p (Neg a) = D_unary (Neg a) a.
  Proof. reflexivity. Qed.
  Lemma D_fwd_Recip a : fwdR v p (Recip a) = D_unary (Recip a) a.
  Proof. reflexivity. Qed.
  Lemma D_fwd_Sin a : fwdR v p (Sin a) = D_unary (Sin a) a.
  Proof. reflexivity. Qed.
  Lemma D_fwd_Cos a : fwdR v p (Cos a) = D_unary (Cos a) a.
  Proof. reflexivity. Qed.
  Lemma D_fwd_NthPow a n : fwdR v p (NthPow a n) = D_unary (NthPow a n) a.
  Proof. reflexivity. Qed.
  Lemma D_fwd_NthRoot a n : fwdR v p (NthRoot a n) = D_unary (NthRoot a n) a.
  Proof. reflexivity. Qed.
  Lemma D_fwd_Exp a b : fwdR v p (Exp a b) = D_unary (Exp a b) a.
  Proof. reflexivity. Qed.
  Lemma D_fwd_Log a b : fwdR v p (Log a b) = D_unary (Log a b) a.
  Proof. reflexivity. Qed.

  Lemma D_uf_NthPow a n m :
    n <> 1%positive ->
    unary_formula RInst p (NthPow a n) m =
    (iv <- evalR p a ;; w <- mf_nth_power RInst iv (Pos.pred n) ;;
     Val (mf_multiply RInst [IZR (Zpos n); w; m])).
  Proof. intro Hn. destruct n; [reflexivity | reflexivity | congruence]. Qed.

  Lemma D_uf_NthRoot a n m :
    n <> 1%positive ->
    unary_formula RInst p (NthRoot a n) m =
    (sv <- evalR p (NthRoot a n) ;; w <- mf_nth_power RInst sv (Pos.pred n) ;;
     mf_divide RInst m (mf_multiply RInst [IZR (Zpos n); w])).
  Proof. intro Hn. destruct n; [reflexivity | reflexivity | congruence]. Qed.

  Lemma D_to_nat_pred (n : positive) :
    n <> 1%positive -> Pos.to_nat (Pos.pred n) = (Pos.to_nat n - 1)%nat.
  Proof.
    intro Hn. rewrite Pos2Nat.inj_pred by lia. apply Nat.sub_1_r || (symmetry; apply Nat.sub_1_r).
  Qed.

  (** *** the cases *)
  Lemma D_case_const c : D_P (Const c).
  Proof. intros _ _ _. exists 0. split; [reflexivity | apply tp_const]. Qed.

  Lemma D_case_var x : D_P (Var x).
  Proof.
    intros _ _ _. cbn [fwd]. unfold name_eqb.
    destruct (Pos.eqb x v) eqn:E.
    - apply Pos.eqb_eq in E; subst x. exists 1. split; [reflexivity | apply tp_var_same].
    - apply Pos.eqb_neq in E. exists 0. split; [reflexivity | apply tp_var_other; exact E].
  Qed.

  Lemma D_case_add l : Forall D_P l -> D_P (Add l).
  Proof.
    intros Hl Hwf Hs Hd.
    destruct (D_fwd_list l Hl Hwf Hs Hd) as [ds [Hf Ht]].
    exists (fold_right Rplus 0 ds). rewrite D_fwd_Add, Hf. cbn [bind].
    split; [reflexivity | apply tp_add; exact Ht].
  Qed.

  Lemma D_case_mul l : Forall D_P l -> D_P (Mul l).
  Proof.
    intros Hl Hwf Hs Hd.
    destruct (D_fwd_list l Hl Hwf Hs Hd) as [ds [Hf Ht]].
    rewrite D_fwd_Mul, (D_eval_list l Hwf Hs Hd). cbn [bind]. rewrite Hf. cbn [bind].
    eexists; split; [reflexivity|].
    rewrite D_mf_add. erewrite D_mapi_ext; [apply tp_mul; exact Ht|].
    intros i x; apply D_mf_multiply.
  Qed.

  Lemma D_case_minus a b : D_P a -> D_P b -> D_P (Minus a b).
  Proof.
    intros IHa IHb Hwf Hs Hd.
    cbn [wf InDomain] in Hwf, Hd. destruct Hwf as [Hwa Hwb]. destruct Hd as [Hda Hdb].
    apply D_supplies_app with (a := a) (b := b) in Hs; [|reflexivity]. destruct Hs as [Hsa Hsb].
    destruct (IHa Hwa Hsa Hda) as [da [Hfa Hta]].
    destruct (IHb Hwb Hsb Hdb) as [db [Hfb Htb]].
    rewrite D_fwd_Minus, Hfa, Hfb. cbn [bind].
    exists (da - db). split; [reflexivity | apply tp_minus; assumption].
  Qed.

  Lemma D_case_divide a b : D_P a -> D_P b -> D_P (Divide a b).
  Proof.
    intros IHa IHb Hwf Hs Hd.
    cbn [wf InDomain] in Hwf, Hd. destruct Hwf as [Hwa Hwb]. destruct Hd as [Hda [Hdb Hb0]].
    apply D_supplies_app with (a := a) (b := b) in Hs; [|reflexivity]. destruct Hs as [Hsa Hsb].
    destruct (IHa Hwa Hsa Hda) as [da [Hfa Hta]].
    destruct (IHb Hwb Hsb Hdb) as [db [Hfb Htb]].
    pose proof (Heval p a Hwa Hsa Hda) as Ea.
    pose proof (Heval p b Hwb Hsb Hdb) as Eb.
    set (va := denote rho a) in *. set (vb := denote rho b) in *.
    assert (Hsq : vb ^ Pos.to_nat 2 <> 0) by (apply pow_nonzero; exact Hb0).
    rewrite D_fwd_Divide. unfold divide_formula_left, divide_formula_right.
    rewrite Ea, Eb. cbn [bind].
    rewrite D_verify_divide by exact Hb0. cbn [bind].
    rewrite Hfa, Hfb. cbn [bind].
    rewrite D_mf_divide by exact Hb0. cbn [bind].
    rewrite D_mf_nth_power. cbn [bind].
    rewrite D_mf_divide by exact Hsq. cbn [bind].
    eexists; split; [reflexivity|].
    eapply tp_ext_value; [apply tp_divide; eassumption|].
    D_norm. fold va vb. change (Pos.to_nat 2) with 2%nat. ring.
  Qed.

  Lemma D_case_power a b : D_P a -> D_P b -> D_P (Power a b).
  Proof.
    intros IHa IHb Hwf Hs Hd.
    pose proof (Heval p (Power a b) Hwf Hs Hd) as En. cbn [denote] in En.
    cbn [wf InDomain] in Hwf, Hd. destruct Hwf as [Hwa Hwb]. destruct Hd as [Hda [Hdb Ha0]].
    apply D_supplies_app with (a := a) (b := b) in Hs; [|reflexivity]. destruct Hs as [Hsa Hsb].
    destruct (IHa Hwa Hsa Hda) as [da [Hfa Hta]].
    destruct (IHb Hwb Hsb Hdb) as [db [Hfb Htb]].
    pose proof (Heval p a Hwa Hsa Hda) as Ea.
    pose proof (Heval p b Hwb Hsb Hdb) as Eb.
    set (va := denote rho a) in *. set (vb := denote rho b) in *.
    (* the general branch *)
    assert (Hgen : exists d, D_power_main a b = Val d /\ true_partial rho (Power a b) v d).
    { unfold D_power_main, power_formula_left, power_formula_right.
      rewrite En, Ea, Eb. cbn [bind].
      rewrite D_verify_power by exact Ha0. cbn [bind].
      rewrite Hfa, Hfb. cbn [bind].
      rewrite D_mf_power by exact Ha0. cbn [bind].
      rewrite D_mf_logarithm_e by exact Ha0. cbn [bind].
      eexists; split; [reflexivity|].
      eapply tp_ext_value; [apply tp_power; eassumption|].
      D_norm. fold va vb. change (n1 RInst) with 1. ring. }
    rewrite D_fwd_Power, En. cbn [bind]. unfold power_shortcut.
    destruct (var_free a) eqn:Evf.
    - rewrite Ea. cbn [bind].
      change (neqb RInst va (n1 RInst)) with (Reqb va 1).
      destruct (Reqb va 1) eqn:E1; [apply Reqb_true in E1 | exact Hgen].
      exists 0. split; [reflexivity|].
      eapply tp_ext_value.
      + apply tp_power; [exact Ha0 | apply tp_absent | exact Htb].
        rewrite (D_var_free_vars a Evf). intros [].
      + fold va vb. rewrite E1, ln_1. ring.
    - cbn [bind]. exact Hgen.
  Qed.

  (** common start of the unary cases *)
  Lemma D_unary_start (e a : expr R) (da : R) :
    evalR p a = Val (denote rho a) ->
    unary_verify RInst e (denote rho a) = Val tt ->
    fwdR v p a = Val da ->
    D_unary e a = unary_formula RInst p e da.
  Proof.
    intros Ea Hv Hfa. unfold D_unary. rewrite Ea. cbn [bind]. rewrite Hv. cbn [bind].
    rewrite Hfa. reflexivity.
  Qed.

  Lemma D_case_neg a : D_P a -> D_P (Neg a).
  Proof.
    intros IHa Hwf Hs Hd. cbn [wf InDomain] in Hwf, Hd.
    apply D_supplies_same with (a := a) in Hs; [|reflexivity].
    destruct (IHa Hwf Hs Hd) as [da [Hfa Hta]].
    pose proof (Heval p a Hwf Hs Hd) as Ea.
    rewrite D_fwd_Neg, (D_unary_start (Neg a) a da Ea eq_refl Hfa).
    exists (- da). split; [reflexivity | apply tp_neg; exact Hta].
  Qed.

  Lemma D_case_recip a : D_P a -> D_P (Recip a).
  Proof.
    intros IHa Hwf Hs Hd. cbn [wf InDomain] in Hwf, Hd. destruct Hd as [Hd Ha0].
    apply D_supplies_same with (a := a) in Hs; [|reflexivity].
    destruct (IHa Hwf Hs Hd) as [da [Hfa Hta]].
    pose proof (Heval p a Hwf Hs Hd) as Ea.
    rewrite D_fwd_Recip, (D_unary_start (Recip a) a da Ea (D_verify_reciprocal _ Ha0) Hfa).
    cbn [unary_formula]. rewrite Ea. cbn [bind].
    rewrite D_mf_nth_power. cbn [bind].
    rewrite D_mf_divide by (apply pow_nonzero; exact Ha0). cbn [bind].
    eexists; split; [reflexivity|].
    eapply tp_ext_value; [apply tp_recip; eassumption|].
    D_norm. change (Pos.to_nat 2) with 2%nat. reflexivity.
  Qed.

  Lemma D_case_sin a : D_P a -> D_P (Sin a).
  Proof.
    intros IHa Hwf Hs Hd. cbn [wf InDomain] in Hwf, Hd.
    apply D_supplies_same with (a := a) in Hs; [|reflexivity].
    destruct (IHa Hwf Hs Hd) as [da [Hfa Hta]].
    pose proof (Heval p a Hwf Hs Hd) as Ea.
    rewrite D_fwd_Sin, (D_unary_start (Sin a) a da Ea eq_refl Hfa).
    cbn [unary_formula]. rewrite Ea. cbn [bind]. rewrite D_mf_cosine. cbn [bind].
    eexists; split; [reflexivity|].
    eapply tp_ext_value; [apply tp_sin; eassumption|].
    D_norm. ring.
  Qed.

  Lemma D_case_cos a : D_P a -> D_P (Cos a).
  Proof.
    intros IHa Hwf Hs Hd. cbn [wf InDomain] in Hwf, Hd.
    apply D_supplies_same with (a := a) in Hs; [|reflexivity].
    destruct (IHa Hwf Hs Hd) as [da [Hfa Hta]].
    pose proof (Heval p a Hwf Hs Hd) as Ea.
    rewrite D_fwd_Cos, (D_unary_start (Cos a) a da Ea eq_refl Hfa).
    cbn [unary_formula]. rewrite Ea. cbn [bind]. rewrite D_mf_sine. cbn [bind].
    eexists; split; [reflexivity|].
    eapply tp_ext_value; [apply tp_cos; eassumption|].
    D_norm. ring.
  Qed.

  Lemma D_case_nth_pow a n : D_P a -> D_P (NthPow a n).
  Proof.
    intros IHa Hwf Hs Hd. cbn [wf InDomain] in Hwf, Hd.
    apply D_supplies_same with (a := a) in Hs; [|reflexivity].
    destruct (IHa Hwf Hs Hd) as [da [Hfa Hta]].
    pose proof (Heval p a Hwf Hs Hd) as Ea.
    rewrite D_fwd_NthPow, (D_unary_start (NthPow a n) a da Ea eq_refl Hfa).
    destruct (Pos.eq_dec n 1) as [Hn|Hn].
    - subst n. exists da. split; [reflexivity | apply tp_nth_pow_1; exact Hta].
    - rewrite (D_uf_NthPow a n da Hn), Ea. cbn [bind].
      rewrite D_mf_nth_power. cbn [bind].
      eexists; split; [reflexivity|].
      eapply tp_ext_value; [apply tp_nth_pow; eassumption|].
      D_norm. rewrite (D_to_nat_pred n Hn). ring.
  Qed.

  Lemma D_case_nth_root a n : D_P a -> D_P (NthRoot a n).
  Proof.
    intros IHa Hwf Hs Hd.
    pose proof (Heval p (NthRoot a n) Hwf Hs Hd) as En. cbn [denote] in En.
    cbn [wf InDomain] in Hwf, Hd. destruct Hd as [Hd Hroot].
    apply D_supplies_same with (a := a) in Hs; [|reflexivity].
    destruct (IHa Hwf Hs Hd) as [da [Hfa Hta]].
    pose proof (Heval p a Hwf Hs Hd) as Ea.
    rewrite D_fwd_NthRoot, (D_unary_start (NthRoot a n) a da Ea (D_verify_nth_root _ n Hroot) Hfa).
    destruct (Pos.eq_dec n 1) as [Hn|Hn].
    - subst n. exists da. split; [reflexivity | apply tp_nth_root_1; exact Hta].
    - assert (Ha0 : denote rho a <> 0) by (destruct Hroot as [?|[? _]]; [contradiction | assumption]).
      pose proof (D_root_neq_0 n _ Ha0) as Hr0.
      rewrite (D_uf_NthRoot a n da Hn), En. cbn [bind].
      rewrite D_mf_nth_power. cbn [bind].
      rewrite D_mf_multiply. cbn [fold_right].
      rewrite (D_to_nat_pred n Hn).
      assert (Hn0 : IZR (Zpos n) <> 0) by (apply IZR_neq; discriminate).
      rewrite D_mf_divide.
      + eexists; split; [reflexivity|].
        eapply tp_ext_value; [apply tp_nth_root; eassumption|].
        rewrite Rmult_1_r. reflexivity.
      + rewrite Rmult_1_r. apply Rmult_integral_contrapositive_currified; [exact Hn0|].
        apply pow_nonzero; exact Hr0.
  Qed.

  Lemma D_case_exp a b : D_P a -> D_P (Exp a b).
  Proof.
    intros IHa Hwf Hs Hd.
    pose proof (Heval p (Exp a b) Hwf Hs Hd) as En. cbn [denote] in En.
    cbn [wf InDomain] in Hwf, Hd. destruct Hwf as [Hb Hwf].
    change (Rltb 0 b = true) in Hb. apply Rltb_true in Hb.
    apply D_supplies_same with (a := a) in Hs; [|reflexivity].
    destruct (IHa Hwf Hs Hd) as [da [Hfa Hta]].
    pose proof (Heval p a Hwf Hs Hd) as Ea.
    rewrite D_fwd_Exp, (D_unary_start (Exp a b) a da Ea eq_refl Hfa).
    cbn [unary_formula].
    change (neqb RInst b (n1 RInst)) with (Reqb b 1).
    change (neqb RInst b (n_e RInst)) with (Reqb b (exp 1)).
    destruct (Reqb b 1) eqn:E1; [apply Reqb_true in E1 | apply Reqb_false in E1].
    - exists 0. split; [reflexivity|].
      eapply tp_ext_value; [apply tp_exp; eassumption|].
      rewrite E1, ln_1. ring.
    - rewrite En. cbn [bind].
      destruct (Reqb b (exp 1)) eqn:Ee; [apply Reqb_true in Ee | apply Reqb_false in Ee].
      + eexists; split; [reflexivity|].
        eapply tp_ext_value; [apply tp_exp; eassumption|].
        D_norm. rewrite Ee at 1. rewrite ln_exp. ring.
      + rewrite D_mf_logarithm_e by exact Hb. cbn [bind].
        eexists; split; [reflexivity|].
        eapply tp_ext_value; [apply tp_exp; eassumption|].
        D_norm. ring.
  Qed.

  Lemma D_case_log a b : D_P a -> D_P (Log a b).
  Proof.
    intros IHa Hwf Hs Hd.
    cbn [wf InDomain] in Hwf, Hd. destruct Hwf as [Hb [Hb1 Hwf]]. destruct Hd as [Hd Ha0].
    change (Rltb 0 b = true) in Hb. apply Rltb_true in Hb.
    change (Reqb b 1 = false) in Hb1. apply Reqb_false in Hb1.
    apply D_supplies_same with (a := a) in Hs; [|reflexivity].
    destruct (IHa Hwf Hs Hd) as [da [Hfa Hta]].
    pose proof (Heval p a Hwf Hs Hd) as Ea.
    rewrite D_fwd_Log, (D_unary_start (Log a b) a da Ea (D_verify_logarithm _ Ha0) Hfa).
    cbn [unary_formula]. rewrite Ea. cbn [bind].
    change (neqb RInst b (n_e RInst)) with (Reqb b (exp 1)).
    pose proof (ln_neq_0 b Hb Hb1) as Hln.
    destruct (Reqb b (exp 1)) eqn:Ee; [apply Reqb_true in Ee | apply Reqb_false in Ee].
    - rewrite D_mf_divide by lra.
      eexists; split; [reflexivity|].
      eapply tp_ext_value; [apply tp_log; eassumption|].
      rewrite Ee, ln_exp. field. lra.
    - rewrite D_mf_logarithm_e by exact Hb. cbn [bind].
      rewrite D_mf_multiply. cbn [fold_right]. rewrite Rmult_1_r.
      rewrite D_mf_divide by (apply Rmult_integral_contrapositive_currified; lra).
      eexists; split; [reflexivity|].
      eapply tp_ext_value; [apply tp_log; eassumption|]. reflexivity.
  Qed.

  Lemma D_fwd_sound_all (e : expr R) : D_P e.
  Proof.
    induction e as [c|x|l IHl|l IHl|a b IHa IHb|a b IHa IHb|a b IHa IHb
                    |a IHa|a IHa|a IHa|a IHa|a n IHa|a n IHa|a b IHa|a b IHa] using expr_ind'.
    - apply D_case_const.
    - apply D_case_var.
    - apply D_case_add; exact IHl.
    - apply D_case_mul; exact IHl.
    - apply D_case_minus; assumption.
    - apply D_case_divide; assumption.
    - apply D_case_power; assumption.
    - apply D_case_neg; assumption.
    - apply D_case_recip; assumption.
    - apply D_case_sin; assumption.
    - apply D_case_cos; assumption.
    - apply D_case_nth_pow; assumption.
    - apply D_case_nth_root; assumption.
    - apply D_case_exp; assumption.
    - apply D_case_log; assumption.
  Qed.
End D.

Section Main.
  Hypothesis Heval : C01_eval_sound.

  Theorem fwd_sound : C03_fwd_sound.
  Proof. intros p e v. apply (D_fwd_sound_all Heval p v e). Qed.

  Theorem fwd_absent : C03_fwd_absent.
  Proof.
    intros p e v Hwf Hs Hd Hv.
    destruct (fwd_sound p e v Hwf Hs Hd) as [d [Hf Ht]].
    rewrite Hf. f_equal.
    apply (tp_unique (env_of p) v e); [exact Ht | apply tp_absent; exact Hv].
  Qed.
End Main.

(** Non-vacuity: the premises of both theorems hold on a tree with genuine domain constraints
    (x ^ (y * log_2 x) at x = 2, y = 3; the variable 3 does not occur). *)
Example D_premises_satisfiable :
  let p : point R := [(1%positive, 2); (2%positive, 3)] in
  let e : expr R :=
    Power (Var 1%positive) (Mul [Var 2%positive; Log (Var 1%positive) 2]) in
  wfR e /\ supplies p e /\ InDomain (env_of p) e /\ ~ In 3%positive (vars e).
Proof.
  cbv zeta. repeat split.
  - change (Rltb 0 2 = true). apply Rltb_true. lra.
  - change (Reqb 2 1 = false). apply Reqb_false. lra.
  - intros x Hx. cbn in Hx.
    destruct Hx as [Hx|[Hx|[Hx|[]]]]; subst x; cbn; discriminate.
  - change (0 < 2). lra.
  - change (0 < 2). lra.
  - cbn. intros [H|[H|[H|[]]]]; discriminate.
Qed.

Print Assumptions fwd_sound.
Print Assumptions fwd_absent.
