(** * TieOrch: the _numeric_partial and _compute_numeric_partials methods of the CURRENT source
    (GeneratedOrch.v, regenerated on every run), interpreted by OrchAst, compute exactly one
    unfolding of the model's forward and reverse traversals (Forward.fwd, Reverse.rev) — for
    every number interface N, variable, point, multiplier, accumulator and tree. *)
From Coq Require Import ZArith List Bool String Lia.
From SM Require Import Num Syntax Outcome MathFun Eval Forward Reverse OrchAst GeneratedOrch.
Import ListNotations.
Open Scope string_scope.
Open Scope list_scope.

Section Tie.
  Context {T : Type} (N : NumOps T).
  Notation E := (expr T).
  Variable v : name.
  Variable p : point T.

  Ltac opq := cbn -[nofZ nfloat n_e nsum nadd nsub nmul ndiv nneg npow npowi nsqrt ncbrt nln nsin ncos neqb nltb
                    nint nfinite mf_add mf_multiply mf_minus mf_negation mf_divide eval fwd rev unary_formula
                    divide_formula_left divide_formula_right power_formula_left power_formula_right
                    verify_divide verify_power unary_verify acc_add var_free Z.of_nat]; unfold n0, n1, nm1.
  Ltac binds :=
    repeat match goal with
           | |- context [bind ?o _] =>
               lazymatch o with
               | context [bind _ _] => fail
               | _ => destruct o eqn:?; opq
               end
           end.

  Lemma fwd_Constant_tied : forall c, ocall_fwd N v p gen_orch_Constant_fwd (Const c) = fwd N v p (Const c).
  Proof. reflexivity. Qed.

  Lemma fwd_Variable_tied : forall x, ocall_fwd N v p gen_orch_Variable_fwd (Var x) = fwd N v p (Var x).
  Proof. intros x. unfold ocall_fwd. opq. cbn [fwd]. destruct (name_eqb x v); reflexivity. Qed.

  Lemma fwd_Minus_tied : forall a b, ocall_fwd N v p gen_orch_Minus_fwd (Minus a b) = fwd N v p (Minus a b).
  Proof.
    intros a b. unfold ocall_fwd. opq. cbn [fwd].
    destruct (fwd N v p a); opq; try reflexivity. destruct (fwd N v p b); reflexivity.
  Qed.
  Ltac go :=
    repeat (opq;
            match goal with
            | |- context [bind ?o _] =>
                lazymatch o with
                | context [bind _ _] => fail
                | _ => destruct o; try reflexivity
                end
            | |- context [if ?b then _ else _] =>
                lazymatch b with
                | context [if _ then _ else _] => fail
                | _ => destruct b eqn:?; try reflexivity
                end
            end).

  Lemma fwd_Divide_tied : forall a b, ocall_fwd N v p gen_orch_Divide_fwd (Divide a b) = fwd N v p (Divide a b).
  Proof. intros a b. unfold ocall_fwd. opq. cbn [fwd]. go. Qed.

  Lemma fwd_Power_tied : forall a b, ocall_fwd N v p gen_orch_Power_fwd (Power a b) = fwd N v p (Power a b).
  Proof.
    intros a b. unfold ocall_fwd. opq. cbn [fwd]. unfold power_shortcut.
    destruct (eval N p (Power a b)); opq; try reflexivity.
    destruct (var_free a); opq.
    - destruct (eval N p a) as [lv| | |k] eqn:Ea; opq; try reflexivity.
      destruct (neqb N lv (nofZ N 1)); opq; [reflexivity|]. rewrite ?Ea. go.
    - go.
  Qed.

  Lemma fwd_Unary_tied : forall e,
    match e with
    | Neg _ | Recip _ | Sin _ | Cos _ | NthPow _ _ | NthRoot _ _ | Exp _ _ | Log _ _ =>
        ocall_fwd N v p gen_orch_UnaryExpression_fwd e = fwd N v p e
    | _ => True
    end.
  Proof.
    intros e. destruct e; try exact I; unfold ocall_fwd; opq; cbn [fwd]; go.
  Qed.

  (** ** reverse mode *)
  Lemma rev_Constant_tied : forall c m acc,
    ocall_rev N v p gen_orch_Constant_rev (Const c) m acc = rev N p (Const c) m acc.
  Proof. reflexivity. Qed.

  Lemma rev_Variable_tied : forall x m acc,
    ocall_rev N v p gen_orch_Variable_rev (Var x) m acc = rev N p (Var x) m acc.
  Proof. reflexivity. Qed.

  Lemma rev_Minus_tied : forall a b m acc,
    ocall_rev N v p gen_orch_Minus_rev (Minus a b) m acc = rev N p (Minus a b) m acc.
  Proof. intros. unfold ocall_rev. opq. cbn [rev]. go. Qed.

  Lemma rev_Divide_tied : forall a b m acc,
    ocall_rev N v p gen_orch_Divide_rev (Divide a b) m acc = rev N p (Divide a b) m acc.
  Proof. intros. unfold ocall_rev. opq. cbn [rev]. go. Qed.

  Lemma rev_Power_tied : forall a b m acc,
    ocall_rev N v p gen_orch_Power_rev (Power a b) m acc = rev N p (Power a b) m acc.
  Proof.
    intros a b m acc. unfold ocall_rev. opq. cbn [rev]. unfold power_shortcut.
    destruct (eval N p (Power a b)); opq; try reflexivity.
    destruct (var_free a); opq.
    - destruct (eval N p a) as [lv| | |k] eqn:Ea; opq; try reflexivity.
      destruct (neqb N lv (nofZ N 1)); opq; [reflexivity|]. rewrite ?Ea. go.
    - go.
  Qed.

  Lemma rev_Unary_tied : forall e m acc,
    match e with
    | Neg _ | Recip _ | Sin _ | Cos _ | NthPow _ _ | NthRoot _ _ | Exp _ _ | Log _ _ =>
        ocall_rev N v p gen_orch_UnaryExpression_rev e m acc = rev N p e m acc
    | _ => True
    end.
  Proof.
    intros e m acc. destruct e; try exact I; unfold ocall_rev; opq; cbn [rev]; go.
  Qed.
  (** ** n-ary nodes *)
  Lemma ocomp_seq : forall (f : oval (T:=T) -> outcome oval) (g : E -> outcome T) (l : list E),
    (forall e, f (OVE e) = (x <- g e ;; Val (OVN x))) ->
    ocomp_loop f (map OVE l) = (xs <- sequence (map g l) ;; Val (map OVN xs)).
  Proof.
    intros f g l Hf. induction l as [|a l IH]; cbn [map ocomp_loop sequence bind]; [reflexivity|].
    rewrite Hf, IH. destruct (g a); cbn [bind]; try reflexivity.
    destruct (sequence (map g l)); reflexivity.
  Qed.

  Lemma onums_OVN : forall l : list T, onums N (map OVN l) = Val l.
  Proof. induction l as [|a l IH]; cbn [map onums bind onum]; [reflexivity|]. rewrite IH. reflexivity. Qed.

  Lemma fwd_Add_tied : forall l, ocall_fwd N v p gen_orch_Add_fwd (Add l) = fwd N v p (Add l).
  Proof.
    intros l. unfold ocall_fwd. opq. cbn [fwd].
    rewrite (ocomp_seq _ (fwd N v p)) by (intros; reflexivity).
    destruct (sequence (map (fwd N v p) l)); opq; try reflexivity.
    rewrite app_nil_r, onums_OVN. reflexivity.
  Qed.

  Lemma flow_eta : forall (X : outcome (oflow (T:=T))),
    (f <- X ;; match f with inl st' => Val (inl st') | inr w => Val (inr w) end) = X.
  Proof. intros X. destruct X as [[s|w]| | |k]; reflexivity. Qed.

  Definition acc_of (X : outcome (oflow (T:=T))) : outcome accum :=
    fl <- X ;; match fl with inl st => Val (snd st) | inr _ => stuck end.

  Fixpoint loop_model (step : nat -> E -> accum -> outcome accum) (n : nat) (l : list E) (acc : accum (T:=T))
    : outcome accum :=
    match l with
    | [] => Val acc
    | x :: rest => acc' <- step n x acc ;; loop_model step (S n) rest acc'
    end.

  Lemma ofor_spec : forall (body : ostate (T:=T) -> nat -> oval -> outcome oflow) (Inv : oenv (T:=T) -> Prop)
                           (step : nat -> E -> accum -> outcome accum),
    (forall r acc n e, Inv r ->
       exists r', Inv r' /\ body (r, acc) n (OVE e) = (acc' <- step n e acc ;; Val (inl (r', acc')))) ->
    forall l n r acc, Inv r ->
      acc_of (ofor_loop body n (r, acc) (map OVE l)) = loop_model step n l acc.
  Proof.
    intros body Inv step Hb l. induction l as [|a l IH]; intros n r acc Hr; cbn [map ofor_loop loop_model].
    - reflexivity.
    - destruct (Hb r acc n a Hr) as (r' & Hr' & Heq). rewrite Heq.
      destruct (step n a acc) as [acc'| | |k]; cbn [bind]; try reflexivity.
      apply IH. exact Hr'.
  Qed.

  Lemma rev_Add_tied : forall l m acc,
    ocall_rev N v p gen_orch_Add_rev (Add l) m acc = rev N p (Add l) m acc.
  Proof.
    intros l m acc. unfold ocall_rev. opq. cbn [rev]. rewrite flow_eta.
    match goal with |- (fl <- ofor_loop ?body 0 (?r0, acc) (map OVE l) ;; _) = ?R =>
      change (acc_of (ofor_loop body 0 (r0, acc) (map OVE l)) = R);
      rewrite (ofor_spec body (fun r1 => olook "multiplier" r1 = Some (OVN m)) (fun _ e a1 => rev N p e m a1))
    end.
    - generalize 0%nat. revert acc. induction l as [|a l IH]; intros acc n; cbn [loop_model]; [reflexivity|].
      destruct (rev N p a m acc); cbn [bind]; try reflexivity. apply IH.
    - intros r acc0 n e Hr. exists (("inner", OVE e) :: r). split; [exact Hr|].
      cbn [fst snd]. rewrite Hr. opq. rewrite flow_eta. reflexivity.
    - reflexivity.
  Qed.
  Lemma owithout_OVN : forall (i : nat) (vs : list T),
    owithout i (map (@OVN T) vs) = map OVN (remove_nth i vs).
  Proof.
    intros i vs. revert i. induction vs as [|a vs IH]; intros i; [destruct i; reflexivity|].
    destruct i; cbn [map owithout remove_nth]; [reflexivity|]. rewrite IH. reflexivity.
  Qed.

  Lemma oenum_seq : forall (f : nat -> oval (T:=T) -> outcome oval) (g : E -> outcome T) (h : nat -> T -> T)
                           (l : list E) (n : nat),
    (forall i e, f i (OVE e) = (x <- g e ;; Val (OVN (h i x)))) ->
    oenum_loop f n (map OVE l) = (ds <- sequence (map g l) ;; Val (map OVN (mapi_from n h ds))).
  Proof.
    intros f g h l. induction l as [|a l IH]; intros n Hf; cbn [map oenum_loop sequence bind mapi_from]; [reflexivity|].
    rewrite Hf, IH by exact Hf. destruct (g a); cbn [bind]; try reflexivity.
    destruct (sequence (map g l)); reflexivity.
  Qed.

  Lemma Z_nat_id_leb : forall n, (0 <=? Z.of_nat n)%Z = true.
  Proof. intros. apply Z.leb_le. lia. Qed.

  Lemma fwd_Mul_tied : forall l, ocall_fwd N v p gen_orch_Multiply_fwd (Mul l) = fwd N v p (Mul l).
  Proof.
    intros l. unfold ocall_fwd. opq. cbn [fwd]. unfold eval_list.
    rewrite (ocomp_seq _ (eval N p)) by (intros; reflexivity).
    destruct (sequence (map (eval N p) l)) as [vs| | |k]; opq; try reflexivity.
    rewrite (oenum_seq _ (fwd N v p) (fun i d => mf_multiply N (d :: remove_nth i vs))).
    2: { intros i e. destruct (fwd N v p e); opq; try reflexivity.
         rewrite Z_nat_id_leb, Nat2Z.id, owithout_OVN. opq. rewrite app_nil_r, onums_OVN. reflexivity. }
    destruct (sequence (map (fwd N v p) l)); opq; try reflexivity.
    rewrite app_nil_r, onums_OVN. reflexivity.
  Qed.

  Lemma rev_Mul_tied : forall l m acc,
    ocall_rev N v p gen_orch_Multiply_rev (Mul l) m acc = rev N p (Mul l) m acc.
  Proof.
    intros l m acc. unfold ocall_rev. opq. cbn [rev]. unfold eval_list.
    rewrite (ocomp_seq _ (eval N p)) by (intros; reflexivity).
    destruct (sequence (map (eval N p) l)) as [vs| | |k]; opq; try reflexivity.
    rewrite flow_eta.
    match goal with |- (fl <- ofor_loop ?body 0 (?r0, acc) (map OVE l) ;; _) = ?R =>
      change (acc_of (ofor_loop body 0 (r0, acc) (map OVE l)) = R);
      rewrite (ofor_spec body
                 (fun r1 => olook "multiplier" r1 = Some (OVN m) /\
                            olook "inner_values" r1 = Some (OVL (map OVN vs)))
                 (fun i e a1 => rev N p e (mf_multiply N (m :: remove_nth i vs)) a1))
    end.
    - generalize 0%nat. revert acc. induction l as [|a l IH]; intros acc n; cbn [loop_model]; [reflexivity|].
      destruct (rev N p a (mf_multiply N (m :: remove_nth n vs)) acc); cbn [bind]; try reflexivity. apply IH.
    - intros r acc0 n e [Hm Hv].
      exists (("next_multiplier", OVN (mf_multiply N (m :: remove_nth n vs))) :: ("inner", OVE e) ::
              ("i", OVZ (Z.of_nat n)) :: r).
      split; [split; assumption|].
      cbn [fst snd]. rewrite Hm, Hv. opq.
      rewrite Z_nat_id_leb, Nat2Z.id, owithout_OVN. opq. rewrite app_nil_r, onums_OVN. opq.
      rewrite flow_eta. reflexivity.
    - split; reflexivity.
  Qed.

  (** ** the two traversals as wholes: per class, the translated method (the class's own or the
      one it inherits from UnaryExpression) computes the model *)
  Definition gen_fwd (e : E) : outcome T :=
    match e with
    | Const _ => ocall_fwd N v p gen_orch_Constant_fwd e
    | Var _ => ocall_fwd N v p gen_orch_Variable_fwd e
    | Add _ => ocall_fwd N v p gen_orch_Add_fwd e
    | Mul _ => ocall_fwd N v p gen_orch_Multiply_fwd e
    | Minus _ _ => ocall_fwd N v p gen_orch_Minus_fwd e
    | Divide _ _ => ocall_fwd N v p gen_orch_Divide_fwd e
    | Power _ _ => ocall_fwd N v p gen_orch_Power_fwd e
    | _ => ocall_fwd N v p gen_orch_UnaryExpression_fwd e
    end.

  Definition gen_rev (e : E) (m : T) (acc : accum) : outcome accum :=
    match e with
    | Const _ => ocall_rev N v p gen_orch_Constant_rev e m acc
    | Var _ => ocall_rev N v p gen_orch_Variable_rev e m acc
    | Add _ => ocall_rev N v p gen_orch_Add_rev e m acc
    | Mul _ => ocall_rev N v p gen_orch_Multiply_rev e m acc
    | Minus _ _ => ocall_rev N v p gen_orch_Minus_rev e m acc
    | Divide _ _ => ocall_rev N v p gen_orch_Divide_rev e m acc
    | Power _ _ => ocall_rev N v p gen_orch_Power_rev e m acc
    | _ => ocall_rev N v p gen_orch_UnaryExpression_rev e m acc
    end.

  Theorem fwd_tied : forall e, gen_fwd e = fwd N v p e.
  Proof.
    intros e. destruct e; unfold gen_fwd.
    - apply fwd_Constant_tied. - apply fwd_Variable_tied. - apply fwd_Add_tied. - apply fwd_Mul_tied.
    - apply fwd_Minus_tied. - apply fwd_Divide_tied. - apply fwd_Power_tied.
    - apply (fwd_Unary_tied (Neg e)). - apply (fwd_Unary_tied (Recip e)). - apply (fwd_Unary_tied (Sin e)).
    - apply (fwd_Unary_tied (Cos e)). - apply (fwd_Unary_tied (NthPow e n)). - apply (fwd_Unary_tied (NthRoot e n)).
    - apply (fwd_Unary_tied (Exp e base)). - apply (fwd_Unary_tied (Log e base)).
  Qed.

  Theorem rev_tied : forall e m acc, gen_rev e m acc = rev N p e m acc.
  Proof.
    intros e m acc. destruct e; unfold gen_rev.
    - apply rev_Constant_tied. - apply rev_Variable_tied. - apply rev_Add_tied. - apply rev_Mul_tied.
    - apply rev_Minus_tied. - apply rev_Divide_tied. - apply rev_Power_tied.
    - apply (rev_Unary_tied (Neg e)). - apply (rev_Unary_tied (Recip e)). - apply (rev_Unary_tied (Sin e)).
    - apply (rev_Unary_tied (Cos e)). - apply (rev_Unary_tied (NthPow e n)). - apply (rev_Unary_tied (NthRoot e n)).
    - apply (rev_Unary_tied (Exp e base)). - apply (rev_Unary_tied (Log e base)).
  Qed.
End Tie.
