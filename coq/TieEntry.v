(** * TieEntry: the CURRENT source of Expression._numeric_partials / _synthetic_partials / _normalize
    (GeneratedEntry.v) computes the model's [numeric_partials] (Reverse.v), [synthetic_partials]
    (Synth.v) and [normalize] (Normalize.v), for every number interface, expression, point and
    iteration order of the variable-name set. *)
From Coq Require Import ZArith List Bool String Ascii.
From SM Require Import Num Syntax Outcome Eval Reverse Synth Driver Normalize EntryAst GeneratedEntry.
Import ListNotations.
Open Scope string_scope.
Open Scope list_scope.

Section Tie.
  Context {T : Type} (N : NumOps T).
  Notation E := (expr T).
  Variable enum : list name.
  Variable fr : E -> E.
  Variable nf : E -> option E.

  Lemma no_overrides : gen_entry_overrides = [].
  Proof. reflexivity. Qed.

  Theorem numeric_partials_tied : forall (self : E) (p : point T),
    nrun N enum p fr nf gen_entry_numeric_partials self
    = (d <- numeric_partials N p self enum ;; Val (NVDictN d)).
  Proof.
    intros self p. unfold nrun, gen_entry_numeric_partials, numeric_partials.
    cbn -[rev numeric_partials_for nofZ]. fold (n1 N).
    destruct (rev N p self (n1 N) []) as [acc| | |]; reflexivity.
  Qed.

  Theorem synthetic_partials_tied : forall (self : E) (p : point T),
    nrun N enum p fr nf gen_entry_synthetic_partials self
    = Val (NVDictE (synthetic_partials N self enum)).
  Proof. intros self p. reflexivity. Qed.

  Theorem normalize_body_tied : forall (self : E) (p : point T),
    nrun N enum p fr nf gen_entry_normalize self = Val (NVEo (nf (fr self))).
  Proof. intros self p. reflexivity. Qed.
End Tie.

(** with the two oracles instantiated by the model's full reduction and normal-form pass (tied to
    their own source by TieStep.fully_reduce_tied and TieNorm.nfr_tied), [_normalize] is the
    model's [normalize] *)
Theorem normalize_tied : forall {T} (N : NumOps T) (enum : list name) (fuel d : nat) (self : expr T) (p : point T),
  nrun N enum p (fully_reduce N fuel) (nfr N fuel d) gen_entry_normalize self = Val (NVEo (normalize N fuel d self)).
Proof. intros. rewrite normalize_body_tied. reflexivity. Qed.
