(** Static tie: operator overloads. *)
From Coq Require Import List String Bool.
From SM Require Import Generated.
Import ListNotations.
Open Scope string_scope.

(* operator overloads (the op_ functions of Objects.v); no reflected (__radd__ ...) operators exist *)
Definition model_operators : list (string * list string) :=
  [ ("__add__", ["Add(self,other)"]); ("__mul__", ["Multiply(self,other)"]);
    ("__neg__", ["Negation(self)"]); ("__pow__", ["Power(self,exponent)"; "NthPower(self,n)"]);
    ("__sub__", ["Minus(self,other)"]); ("__truediv__", ["Divide(self,other)"]) ].
Lemma operators_tied : gen_operators = model_operators.
Proof. reflexivity. Qed.

