
(** val negb : bool -> bool **)

let negb = function
| true -> false
| false -> true

type nat =
| O
| S of nat

(** val fst : ('a1 * 'a2) -> 'a1 **)

let fst = function
| (x, _) -> x

(** val snd : ('a1 * 'a2) -> 'a2 **)

let snd = function
| (_, y) -> y

(** val length : 'a1 list -> nat **)

let rec length = function
| [] -> O
| _ :: l' -> S (length l')

(** val app : 'a1 list -> 'a1 list -> 'a1 list **)

let rec app l m =
  match l with
  | [] -> m
  | a :: l1 -> a :: (app l1 m)

type comparison =
| Eq
| Lt
| Gt

(** val compOpp : comparison -> comparison **)

let compOpp = function
| Eq -> Eq
| Lt -> Gt
| Gt -> Lt

module Coq__1 = struct
 (** val add : nat -> nat -> nat **)
 let rec add n m =
   match n with
   | O -> m
   | S p -> S (add p m)
end
include Coq__1

type positive =
| XI of positive
| XO of positive
| XH

type z =
| Z0
| Zpos of positive
| Zneg of positive

(** val eqb : bool -> bool -> bool **)

let eqb b1 b2 =
  if b1 then b2 else if b2 then false else true

module Nat =
 struct
  (** val eqb : nat -> nat -> bool **)

  let rec eqb n m =
    match n with
    | O -> (match m with
            | O -> true
            | S _ -> false)
    | S n' -> (match m with
               | O -> false
               | S m' -> eqb n' m')

  (** val leb : nat -> nat -> bool **)

  let rec leb n m =
    match n with
    | O -> true
    | S n' -> (match m with
               | O -> false
               | S m' -> leb n' m')

  (** val even : nat -> bool **)

  let rec even = function
  | O -> true
  | S n2 -> (match n2 with
             | O -> false
             | S n' -> even n')
 end

module Pos =
 struct
  type mask =
  | IsNul
  | IsPos of positive
  | IsNeg
 end

module Coq_Pos =
 struct
  (** val succ : positive -> positive **)

  let rec succ = function
  | XI p -> XO (succ p)
  | XO p -> XI p
  | XH -> XO XH

  (** val add : positive -> positive -> positive **)

  let rec add x y =
    match x with
    | XI p ->
      (match y with
       | XI q -> XO (add_carry p q)
       | XO q -> XI (add p q)
       | XH -> XO (succ p))
    | XO p ->
      (match y with
       | XI q -> XI (add p q)
       | XO q -> XO (add p q)
       | XH -> XI p)
    | XH -> (match y with
             | XI q -> XO (succ q)
             | XO q -> XI q
             | XH -> XO XH)

  (** val add_carry : positive -> positive -> positive **)

  and add_carry x y =
    match x with
    | XI p ->
      (match y with
       | XI q -> XI (add_carry p q)
       | XO q -> XO (add_carry p q)
       | XH -> XI (succ p))
    | XO p ->
      (match y with
       | XI q -> XO (add_carry p q)
       | XO q -> XI (add p q)
       | XH -> XO (succ p))
    | XH ->
      (match y with
       | XI q -> XI (succ q)
       | XO q -> XO (succ q)
       | XH -> XI XH)

  (** val pred_double : positive -> positive **)

  let rec pred_double = function
  | XI p -> XI (XO p)
  | XO p -> XI (pred_double p)
  | XH -> XH

  (** val pred : positive -> positive **)

  let pred = function
  | XI p -> XO p
  | XO p -> pred_double p
  | XH -> XH

  type mask = Pos.mask =
  | IsNul
  | IsPos of positive
  | IsNeg

  (** val succ_double_mask : mask -> mask **)

  let succ_double_mask = function
  | IsNul -> IsPos XH
  | IsPos p -> IsPos (XI p)
  | IsNeg -> IsNeg

  (** val double_mask : mask -> mask **)

  let double_mask = function
  | IsPos p -> IsPos (XO p)
  | x0 -> x0

  (** val double_pred_mask : positive -> mask **)

  let double_pred_mask = function
  | XI p -> IsPos (XO (XO p))
  | XO p -> IsPos (XO (pred_double p))
  | XH -> IsNul

  (** val sub_mask : positive -> positive -> mask **)

  let rec sub_mask x y =
    match x with
    | XI p ->
      (match y with
       | XI q -> double_mask (sub_mask p q)
       | XO q -> succ_double_mask (sub_mask p q)
       | XH -> IsPos (XO p))
    | XO p ->
      (match y with
       | XI q -> succ_double_mask (sub_mask_carry p q)
       | XO q -> double_mask (sub_mask p q)
       | XH -> IsPos (pred_double p))
    | XH -> (match y with
             | XH -> IsNul
             | _ -> IsNeg)

  (** val sub_mask_carry : positive -> positive -> mask **)

  and sub_mask_carry x y =
    match x with
    | XI p ->
      (match y with
       | XI q -> succ_double_mask (sub_mask_carry p q)
       | XO q -> double_mask (sub_mask p q)
       | XH -> IsPos (pred_double p))
    | XO p ->
      (match y with
       | XI q -> double_mask (sub_mask_carry p q)
       | XO q -> succ_double_mask (sub_mask_carry p q)
       | XH -> double_pred_mask p)
    | XH -> IsNeg

  (** val sub : positive -> positive -> positive **)

  let sub x y =
    match sub_mask x y with
    | IsPos z0 -> z0
    | _ -> XH

  (** val mul : positive -> positive -> positive **)

  let rec mul x y =
    match x with
    | XI p -> add y (XO (mul p y))
    | XO p -> XO (mul p y)
    | XH -> y

  (** val iter : ('a1 -> 'a1) -> 'a1 -> positive -> 'a1 **)

  let rec iter f x = function
  | XI n' -> f (iter f (iter f x n') n')
  | XO n' -> iter f (iter f x n') n'
  | XH -> f x

  (** val size_nat : positive -> nat **)

  let rec size_nat = function
  | XI p0 -> S (size_nat p0)
  | XO p0 -> S (size_nat p0)
  | XH -> S O

  (** val compare_cont : comparison -> positive -> positive -> comparison **)

  let rec compare_cont r x y =
    match x with
    | XI p ->
      (match y with
       | XI q -> compare_cont r p q
       | XO q -> compare_cont Gt p q
       | XH -> Gt)
    | XO p ->
      (match y with
       | XI q -> compare_cont Lt p q
       | XO q -> compare_cont r p q
       | XH -> Gt)
    | XH -> (match y with
             | XH -> r
             | _ -> Lt)

  (** val compare : positive -> positive -> comparison **)

  let compare =
    compare_cont Eq

  (** val eqb : positive -> positive -> bool **)

  let rec eqb p q =
    match p with
    | XI p0 -> (match q with
                | XI q0 -> eqb p0 q0
                | _ -> false)
    | XO p0 -> (match q with
                | XO q0 -> eqb p0 q0
                | _ -> false)
    | XH -> (match q with
             | XH -> true
             | _ -> false)

  (** val leb : positive -> positive -> bool **)

  let leb x y =
    match compare x y with
    | Gt -> false
    | _ -> true

  (** val gcdn : nat -> positive -> positive -> positive **)

  let rec gcdn n a b =
    match n with
    | O -> XH
    | S n2 ->
      (match a with
       | XI a' ->
         (match b with
          | XI b' ->
            (match compare a' b' with
             | Eq -> a
             | Lt -> gcdn n2 (sub b' a') a
             | Gt -> gcdn n2 (sub a' b') b)
          | XO b0 -> gcdn n2 a b0
          | XH -> XH)
       | XO a0 ->
         (match b with
          | XI _ -> gcdn n2 a0 b
          | XO b0 -> XO (gcdn n2 a0 b0)
          | XH -> XH)
       | XH -> XH)

  (** val gcd : positive -> positive -> positive **)

  let gcd a b =
    gcdn (Coq__1.add (size_nat a) (size_nat b)) a b

  (** val eq_dec : positive -> positive -> bool **)

  let rec eq_dec p x0 =
    match p with
    | XI p0 -> (match x0 with
                | XI p1 -> eq_dec p0 p1
                | _ -> false)
    | XO p0 -> (match x0 with
                | XO p1 -> eq_dec p0 p1
                | _ -> false)
    | XH -> (match x0 with
             | XH -> true
             | _ -> false)
 end

module Z =
 struct
  (** val double : z -> z **)

  let double = function
  | Z0 -> Z0
  | Zpos p -> Zpos (XO p)
  | Zneg p -> Zneg (XO p)

  (** val succ_double : z -> z **)

  let succ_double = function
  | Z0 -> Zpos XH
  | Zpos p -> Zpos (XI p)
  | Zneg p -> Zneg (Coq_Pos.pred_double p)

  (** val pred_double : z -> z **)

  let pred_double = function
  | Z0 -> Zneg XH
  | Zpos p -> Zpos (Coq_Pos.pred_double p)
  | Zneg p -> Zneg (XI p)

  (** val pos_sub : positive -> positive -> z **)

  let rec pos_sub x y =
    match x with
    | XI p ->
      (match y with
       | XI q -> double (pos_sub p q)
       | XO q -> succ_double (pos_sub p q)
       | XH -> Zpos (XO p))
    | XO p ->
      (match y with
       | XI q -> pred_double (pos_sub p q)
       | XO q -> double (pos_sub p q)
       | XH -> Zpos (Coq_Pos.pred_double p))
    | XH ->
      (match y with
       | XI q -> Zneg (XO q)
       | XO q -> Zneg (Coq_Pos.pred_double q)
       | XH -> Z0)

  (** val add : z -> z -> z **)

  let add x y =
    match x with
    | Z0 -> y
    | Zpos x' ->
      (match y with
       | Z0 -> x
       | Zpos y' -> Zpos (Coq_Pos.add x' y')
       | Zneg y' -> pos_sub x' y')
    | Zneg x' ->
      (match y with
       | Z0 -> x
       | Zpos y' -> pos_sub y' x'
       | Zneg y' -> Zneg (Coq_Pos.add x' y'))

  (** val opp : z -> z **)

  let opp = function
  | Z0 -> Z0
  | Zpos x0 -> Zneg x0
  | Zneg x0 -> Zpos x0

  (** val sub : z -> z -> z **)

  let sub m n =
    add m (opp n)

  (** val mul : z -> z -> z **)

  let mul x y =
    match x with
    | Z0 -> Z0
    | Zpos x' ->
      (match y with
       | Z0 -> Z0
       | Zpos y' -> Zpos (Coq_Pos.mul x' y')
       | Zneg y' -> Zneg (Coq_Pos.mul x' y'))
    | Zneg x' ->
      (match y with
       | Z0 -> Z0
       | Zpos y' -> Zneg (Coq_Pos.mul x' y')
       | Zneg y' -> Zpos (Coq_Pos.mul x' y'))

  (** val pow_pos : z -> positive -> z **)

  let pow_pos z0 =
    Coq_Pos.iter (mul z0) (Zpos XH)

  (** val pow : z -> z -> z **)

  let pow x = function
  | Z0 -> Zpos XH
  | Zpos p -> pow_pos x p
  | Zneg _ -> Z0

  (** val compare : z -> z -> comparison **)

  let compare x y =
    match x with
    | Z0 -> (match y with
             | Z0 -> Eq
             | Zpos _ -> Lt
             | Zneg _ -> Gt)
    | Zpos x' -> (match y with
                  | Zpos y' -> Coq_Pos.compare x' y'
                  | _ -> Gt)
    | Zneg x' ->
      (match y with
       | Zneg y' -> compOpp (Coq_Pos.compare x' y')
       | _ -> Lt)

  (** val leb : z -> z -> bool **)

  let leb x y =
    match compare x y with
    | Gt -> false
    | _ -> true

  (** val ltb : z -> z -> bool **)

  let ltb x y =
    match compare x y with
    | Lt -> true
    | _ -> false

  (** val eqb : z -> z -> bool **)

  let eqb x y =
    match x with
    | Z0 -> (match y with
             | Z0 -> true
             | _ -> false)
    | Zpos p -> (match y with
                 | Zpos q -> Coq_Pos.eqb p q
                 | _ -> false)
    | Zneg p -> (match y with
                 | Zneg q -> Coq_Pos.eqb p q
                 | _ -> false)

  (** val to_pos : z -> positive **)

  let to_pos = function
  | Zpos p -> p
  | _ -> XH

  (** val pos_div_eucl : positive -> z -> z * z **)

  let rec pos_div_eucl a b =
    match a with
    | XI a' ->
      let (q, r) = pos_div_eucl a' b in
      let r' = add (mul (Zpos (XO XH)) r) (Zpos XH) in
      if ltb r' b
      then ((mul (Zpos (XO XH)) q), r')
      else ((add (mul (Zpos (XO XH)) q) (Zpos XH)), (sub r' b))
    | XO a' ->
      let (q, r) = pos_div_eucl a' b in
      let r' = mul (Zpos (XO XH)) r in
      if ltb r' b
      then ((mul (Zpos (XO XH)) q), r')
      else ((add (mul (Zpos (XO XH)) q) (Zpos XH)), (sub r' b))
    | XH -> if leb (Zpos (XO XH)) b then (Z0, (Zpos XH)) else ((Zpos XH), Z0)

  (** val div_eucl : z -> z -> z * z **)

  let div_eucl a b =
    match a with
    | Z0 -> (Z0, Z0)
    | Zpos a' ->
      (match b with
       | Z0 -> (Z0, a)
       | Zpos _ -> pos_div_eucl a' b
       | Zneg b' ->
         let (q, r) = pos_div_eucl a' (Zpos b') in
         (match r with
          | Z0 -> ((opp q), Z0)
          | _ -> ((opp (add q (Zpos XH))), (add b r))))
    | Zneg a' ->
      (match b with
       | Z0 -> (Z0, a)
       | Zpos _ ->
         let (q, r) = pos_div_eucl a' b in
         (match r with
          | Z0 -> ((opp q), Z0)
          | _ -> ((opp (add q (Zpos XH))), (sub b r)))
       | Zneg b' -> let (q, r) = pos_div_eucl a' (Zpos b') in (q, (opp r)))

  (** val div : z -> z -> z **)

  let div a b =
    let (q, _) = div_eucl a b in q

  (** val even : z -> bool **)

  let even = function
  | Z0 -> true
  | Zpos p -> (match p with
               | XO _ -> true
               | _ -> false)
  | Zneg p -> (match p with
               | XO _ -> true
               | _ -> false)

  (** val odd : z -> bool **)

  let odd = function
  | Z0 -> false
  | Zpos p -> (match p with
               | XO _ -> false
               | _ -> true)
  | Zneg p -> (match p with
               | XO _ -> false
               | _ -> true)
 end

(** val in_dec : ('a1 -> 'a1 -> bool) -> 'a1 -> 'a1 list -> bool **)

let rec in_dec h a = function
| [] -> false
| y :: l0 -> let s = h y a in if s then true else in_dec h a l0

(** val map : ('a1 -> 'a2) -> 'a1 list -> 'a2 list **)

let rec map f = function
| [] -> []
| a :: t -> (f a) :: (map f t)

(** val flat_map : ('a1 -> 'a2 list) -> 'a1 list -> 'a2 list **)

let rec flat_map f = function
| [] -> []
| x :: t -> app (f x) (flat_map f t)

(** val fold_left : ('a1 -> 'a2 -> 'a1) -> 'a2 list -> 'a1 -> 'a1 **)

let rec fold_left f l a0 =
  match l with
  | [] -> a0
  | b :: t -> fold_left f t (f a0 b)

(** val fold_right : ('a2 -> 'a1 -> 'a1) -> 'a1 -> 'a2 list -> 'a1 **)

let rec fold_right f a0 = function
| [] -> a0
| b :: t -> f b (fold_right f a0 t)

(** val existsb : ('a1 -> bool) -> 'a1 list -> bool **)

let rec existsb f = function
| [] -> false
| a :: l0 -> (||) (f a) (existsb f l0)

(** val forallb : ('a1 -> bool) -> 'a1 list -> bool **)

let rec forallb f = function
| [] -> true
| a :: l0 -> (&&) (f a) (forallb f l0)

(** val filter : ('a1 -> bool) -> 'a1 list -> 'a1 list **)

let rec filter f = function
| [] -> []
| x :: l0 -> if f x then x :: (filter f l0) else filter f l0

(** val nodup : ('a1 -> 'a1 -> bool) -> 'a1 list -> 'a1 list **)

let rec nodup decA = function
| [] -> []
| x :: xs -> if in_dec decA x xs then nodup decA xs else x :: (nodup decA xs)

type ascii =
| Ascii of bool * bool * bool * bool * bool * bool * bool * bool

(** val eqb0 : ascii -> ascii -> bool **)

let eqb0 a b =
  let Ascii (a0, a1, a2, a3, a4, a5, a6, a7) = a in
  let Ascii (b0, b1, b2, b3, b4, b5, b6, b7) = b in
  if if if if if if if eqb a0 b0 then eqb a1 b1 else false
                 then eqb a2 b2
                 else false
              then eqb a3 b3
              else false
           then eqb a4 b4
           else false
        then eqb a5 b5
        else false
     then eqb a6 b6
     else false
  then eqb a7 b7
  else false

type string =
| EmptyString
| String of ascii * string

(** val eqb1 : string -> string -> bool **)

let rec eqb1 s1 s2 =
  match s1 with
  | EmptyString ->
    (match s2 with
     | EmptyString -> true
     | String (_, _) -> false)
  | String (c1, s1') ->
    (match s2 with
     | EmptyString -> false
     | String (c2, s2') -> if eqb0 c1 c2 then eqb1 s1' s2' else false)

type 't numOps = { nofZ : (z -> 't); nfloat : ('t -> 't); n_e : 't;
                   nsum : ('t list -> 't); nadd : ('t -> 't -> 't);
                   nsub : ('t -> 't -> 't); nmul : ('t -> 't -> 't);
                   ndiv : ('t -> 't -> 't); nneg : ('t -> 't);
                   npow : ('t -> 't -> 't); npowi : ('t -> positive -> 't);
                   nsqrt : ('t -> 't); ncbrt : ('t -> 't); nln : ('t -> 't);
                   nsin : ('t -> 't); ncos : ('t -> 't);
                   neqb : ('t -> 't -> bool); nltb : ('t -> 't -> bool);
                   nint : ('t -> z option); nfinite : ('t -> bool) }

(** val n0 : 'a1 numOps -> 'a1 **)

let n0 n =
  n.nofZ Z0

(** val n1 : 'a1 numOps -> 'a1 **)

let n1 n =
  n.nofZ (Zpos XH)

(** val nm1 : 'a1 numOps -> 'a1 **)

let nm1 n =
  n.nofZ (Zneg XH)

(** val nleb : 'a1 numOps -> 'a1 -> 'a1 -> bool **)

let nleb n x y =
  (||) (n.nltb x y) (n.neqb x y)

type name = positive

(** val name_eqb : name -> name -> bool **)

let name_eqb =
  Coq_Pos.eqb

(** val whatever : name **)

let whatever =
  XH

type 't expr =
| Const of 't
| Var of name
| Add of 't expr list
| Mul of 't expr list
| Minus of 't expr * 't expr
| Divide of 't expr * 't expr
| Power of 't expr * 't expr
| Neg of 't expr
| Recip of 't expr
| Sin of 't expr
| Cos of 't expr
| NthPow of 't expr * positive
| NthRoot of 't expr * positive
| Exp of 't expr * 't
| Log of 't expr * 't

(** val size : 'a1 expr -> nat **)

let rec size = function
| Add l -> S (fold_right (fun x acc -> add (size x) acc) O l)
| Mul l -> S (fold_right (fun x acc -> add (size x) acc) O l)
| Minus (a, b) -> S (add (size a) (size b))
| Divide (a, b) -> S (add (size a) (size b))
| Power (a, b) -> S (add (size a) (size b))
| Neg a -> S (size a)
| Recip a -> S (size a)
| Sin a -> S (size a)
| Cos a -> S (size a)
| NthPow (a, _) -> S (size a)
| NthRoot (a, _) -> S (size a)
| Exp (a, _) -> S (size a)
| Log (a, _) -> S (size a)
| _ -> S O

(** val vars : 'a1 expr -> name list **)

let rec vars = function
| Const _ -> []
| Var x -> x :: []
| Add l -> flat_map vars l
| Mul l -> flat_map vars l
| Minus (a, b) -> app (vars a) (vars b)
| Divide (a, b) -> app (vars a) (vars b)
| Power (a, b) -> app (vars a) (vars b)
| Neg a -> vars a
| Recip a -> vars a
| Sin a -> vars a
| Cos a -> vars a
| NthPow (a, _) -> vars a
| NthRoot (a, _) -> vars a
| Exp (a, _) -> vars a
| Log (a, _) -> vars a

(** val var_free : 'a1 expr -> bool **)

let rec var_free = function
| Const _ -> true
| Var _ -> false
| Add l -> forallb var_free l
| Mul l -> forallb var_free l
| Minus (a, b) -> (&&) (var_free a) (var_free b)
| Divide (a, b) -> (&&) (var_free a) (var_free b)
| Power (a, b) -> (&&) (var_free a) (var_free b)
| Neg a -> var_free a
| Recip a -> var_free a
| Sin a -> var_free a
| Cos a -> var_free a
| NthPow (a, _) -> var_free a
| NthRoot (a, _) -> var_free a
| Exp (a, _) -> var_free a
| Log (a, _) -> var_free a

(** val var_names : 'a1 expr -> name list **)

let var_names e =
  nodup Coq_Pos.eq_dec (vars e)

(** val is_Const : 'a1 expr -> bool **)

let is_Const = function
| Const _ -> true
| _ -> false

(** val is_Add : 'a1 expr -> bool **)

let is_Add = function
| Add _ -> true
| _ -> false

(** val is_Mul : 'a1 expr -> bool **)

let is_Mul = function
| Mul _ -> true
| _ -> false

(** val is_Neg : 'a1 expr -> bool **)

let is_Neg = function
| Neg _ -> true
| _ -> false

(** val is_Recip : 'a1 expr -> bool **)

let is_Recip = function
| Recip _ -> true
| _ -> false

(** val is_NthPow : 'a1 expr -> bool **)

let is_NthPow = function
| NthPow (_, _) -> true
| _ -> false

(** val is_NthRoot : 'a1 expr -> bool **)

let is_NthRoot = function
| NthRoot (_, _) -> true
| _ -> false

(** val is_Exp : 'a1 expr -> bool **)

let is_Exp = function
| Exp (_, _) -> true
| _ -> false

(** val is_Log : 'a1 expr -> bool **)

let is_Log = function
| Log (_, _) -> true
| _ -> false

(** val inner_of : 'a1 expr -> 'a1 expr **)

let inner_of e = match e with
| Neg a -> a
| Recip a -> a
| Sin a -> a
| Cos a -> a
| NthPow (a, _) -> a
| NthRoot (a, _) -> a
| Exp (a, _) -> a
| Log (a, _) -> a
| _ -> e

(** val wfb : 'a1 numOps -> 'a1 expr -> bool **)

let rec wfb n = function
| Add l -> forallb (wfb n) l
| Mul l -> forallb (wfb n) l
| Minus (a, b) -> (&&) (wfb n a) (wfb n b)
| Divide (a, b) -> (&&) (wfb n a) (wfb n b)
| Power (a, b) -> (&&) (wfb n a) (wfb n b)
| Neg a -> wfb n a
| Recip a -> wfb n a
| Sin a -> wfb n a
| Cos a -> wfb n a
| NthPow (a, _) -> wfb n a
| NthRoot (a, _) -> wfb n a
| Exp (a, b) -> (&&) (n.nltb (n0 n) b) (wfb n a)
| Log (a, b) ->
  (&&) ((&&) (n.nltb (n0 n) b) (negb (n.neqb b (n1 n)))) (wfb n a)
| _ -> true

type pyerr =
| ZeroDivision
| ValueError
| ComplexResult
| TypeError
| KeyError
| OverflowErr

type 'a outcome =
| Val of 'a
| DomErr
| CoordMissing
| PyErr of pyerr

(** val bind : 'a1 outcome -> ('a1 -> 'a2 outcome) -> 'a2 outcome **)

let bind o f =
  match o with
  | Val a -> f a
  | DomErr -> DomErr
  | CoordMissing -> CoordMissing
  | PyErr k -> PyErr k

(** val sequence : 'a1 outcome list -> 'a1 list outcome **)

let rec sequence = function
| [] -> Val []
| o :: r -> bind o (fun x -> bind (sequence r) (fun xs -> Val (x :: xs)))

(** val prim_div : 'a1 numOps -> 'a1 -> 'a1 -> 'a1 outcome **)

let prim_div n x y =
  if n.neqb y (n0 n) then PyErr ZeroDivision else Val (n.ndiv x y)

(** val prim_pow : 'a1 numOps -> 'a1 -> 'a1 -> 'a1 outcome **)

let prim_pow n x y =
  if (&&) (n.neqb x (n0 n)) (n.nltb y (n0 n))
  then PyErr ZeroDivision
  else if (&&) (n.nltb x (n0 n))
            (match n.nint y with
             | Some _ -> false
             | None -> true)
       then PyErr ComplexResult
       else let r = n.npow x y in
            if n.nfinite r then Val r else PyErr OverflowErr

(** val prim_powi : 'a1 numOps -> 'a1 -> positive -> 'a1 outcome **)

let prim_powi n x n2 =
  let r = n.npowi x n2 in if n.nfinite r then Val r else PyErr OverflowErr

(** val prim_sqrt : 'a1 numOps -> 'a1 -> 'a1 outcome **)

let prim_sqrt n x =
  if n.nltb x (n0 n) then PyErr ValueError else Val (n.nsqrt x)

(** val prim_log : 'a1 numOps -> 'a1 -> 'a1 -> 'a1 outcome **)

let prim_log n x base =
  if nleb n x (n0 n)
  then PyErr ValueError
  else if nleb n base (n0 n)
       then PyErr ValueError
       else let d = n.nln base in
            if n.neqb d (n0 n)
            then PyErr ZeroDivision
            else Val (n.ndiv (n.nln x) d)

(** val prim_sin : 'a1 numOps -> 'a1 -> 'a1 outcome **)

let prim_sin n x =
  if n.nfinite x then Val (n.nsin x) else PyErr ValueError

(** val prim_cos : 'a1 numOps -> 'a1 -> 'a1 outcome **)

let prim_cos n x =
  if n.nfinite x then Val (n.ncos x) else PyErr ValueError

(** val mf_add : 'a1 numOps -> 'a1 list -> 'a1 **)

let mf_add n args =
  n.nfloat (n.nsum args)

(** val mf_minus : 'a1 numOps -> 'a1 -> 'a1 -> 'a1 **)

let mf_minus n x y =
  n.nfloat (n.nsub x y)

(** val mf_negation : 'a1 numOps -> 'a1 -> 'a1 **)

let mf_negation n x =
  n.nfloat (n.nneg x)

(** val mul_loop : 'a1 numOps -> 'a1 -> 'a1 list -> 'a1 **)

let rec mul_loop n product = function
| [] -> product
| a :: r -> if n.neqb a (n0 n) then n0 n else mul_loop n (n.nmul product a) r

(** val mf_multiply : 'a1 numOps -> 'a1 list -> 'a1 **)

let mf_multiply n args =
  mul_loop n (n.nfloat (n1 n)) args

(** val mf_divide : 'a1 numOps -> 'a1 -> 'a1 -> 'a1 outcome **)

let mf_divide n x y =
  if n.neqb y (n0 n) then DomErr else prim_div n x y

(** val mf_reciprocal : 'a1 numOps -> 'a1 -> 'a1 outcome **)

let mf_reciprocal n x =
  if n.neqb x (n0 n) then DomErr else prim_div n (n1 n) x

(** val mf_power : 'a1 numOps -> 'a1 -> 'a1 -> 'a1 outcome **)

let mf_power n x y =
  if n.neqb x (n0 n)
  then DomErr
  else if n.nltb x (n0 n)
       then DomErr
       else bind (prim_pow n x y) (fun r -> Val (n.nfloat r))

(** val mf_nth_power : 'a1 numOps -> 'a1 -> positive -> 'a1 outcome **)

let mf_nth_power n x n2 =
  bind (prim_powi n x n2) (fun r -> Val (n.nfloat r))

(** val one_over : 'a1 numOps -> positive -> 'a1 **)

let one_over n n2 =
  n.ndiv (n1 n) (n.nofZ (Zpos n2))

(** val mf_nth_root : 'a1 numOps -> 'a1 -> positive -> 'a1 outcome **)

let mf_nth_root n x n2 = match n2 with
| XI p ->
  (match p with
   | XH ->
     if n.nltb (n0 n) x
     then Val (n.ncbrt x)
     else if n.neqb x (n0 n)
          then DomErr
          else Val (n.nneg (n.ncbrt (n.nneg x)))
   | _ ->
     if Z.even (Zpos n2)
     then if n.nltb (n0 n) x then prim_pow n x (one_over n n2) else DomErr
     else if n.nltb (n0 n) x
          then prim_pow n x (one_over n n2)
          else if n.neqb x (n0 n)
               then DomErr
               else bind (prim_pow n (n.nneg x) (one_over n n2)) (fun r ->
                      Val (n.nneg r)))
| XO p ->
  (match p with
   | XH -> if n.nltb (n0 n) x then prim_sqrt n x else DomErr
   | _ ->
     if Z.even (Zpos n2)
     then if n.nltb (n0 n) x then prim_pow n x (one_over n n2) else DomErr
     else if n.nltb (n0 n) x
          then prim_pow n x (one_over n n2)
          else if n.neqb x (n0 n)
               then DomErr
               else bind (prim_pow n (n.nneg x) (one_over n n2)) (fun r ->
                      Val (n.nneg r)))
| XH -> Val (n.nfloat x)

(** val mf_exponential : 'a1 numOps -> 'a1 -> 'a1 -> 'a1 outcome **)

let mf_exponential n x base =
  if nleb n base (n0 n)
  then DomErr
  else bind (prim_pow n base x) (fun r -> Val (n.nfloat r))

(** val mf_logarithm : 'a1 numOps -> 'a1 -> 'a1 -> 'a1 outcome **)

let mf_logarithm n x base =
  if nleb n base (n0 n)
  then DomErr
  else if n.neqb base (n1 n) then DomErr else prim_log n x base

(** val mf_cosine : 'a1 numOps -> 'a1 -> 'a1 outcome **)

let mf_cosine =
  prim_cos

(** val mf_sine : 'a1 numOps -> 'a1 -> 'a1 outcome **)

let mf_sine =
  prim_sin

type 't point = (name * 't) list

(** val lookup : name -> 'a1 point -> 'a1 option **)

let rec lookup x = function
| [] -> None
| p0 :: r -> let (y, v) = p0 in if name_eqb x y then Some v else lookup x r

(** val coordinate : 'a1 point -> name -> 'a1 outcome **)

let coordinate p x =
  match lookup x p with
  | Some v -> Val v
  | None -> CoordMissing

(** val verify_divide : 'a1 numOps -> 'a1 -> 'a1 -> unit outcome **)

let verify_divide n _ r =
  if n.neqb r (n0 n) then DomErr else Val ()

(** val verify_power : 'a1 numOps -> 'a1 -> 'a1 -> unit outcome **)

let verify_power n l _ =
  if n.neqb l (n0 n)
  then DomErr
  else if n.nltb l (n0 n) then DomErr else Val ()

(** val verify_reciprocal : 'a1 numOps -> 'a1 -> unit outcome **)

let verify_reciprocal n x =
  if n.neqb x (n0 n) then DomErr else Val ()

(** val verify_nth_root : 'a1 numOps -> 'a1 -> positive -> unit outcome **)

let verify_nth_root n x n2 =
  if (&&) (Coq_Pos.leb (XO XH) n2) (n.neqb x (n0 n))
  then DomErr
  else if (&&) (Z.even (Zpos n2)) (n.nltb x (n0 n)) then DomErr else Val ()

(** val verify_logarithm : 'a1 numOps -> 'a1 -> unit outcome **)

let verify_logarithm n x =
  if n.neqb x (n0 n)
  then DomErr
  else if n.nltb x (n0 n) then DomErr else Val ()

(** val eval : 'a1 numOps -> 'a1 point -> 'a1 expr -> 'a1 outcome **)

let rec eval n p = function
| Const c -> Val c
| Var x -> coordinate p x
| Add l -> bind (sequence (map (eval n p) l)) (fun vs -> Val (mf_add n vs))
| Mul l ->
  bind (sequence (map (eval n p) l)) (fun vs -> Val (mf_multiply n vs))
| Minus (a, b) ->
  bind (eval n p a) (fun x ->
    bind (eval n p b) (fun y -> Val (mf_minus n x y)))
| Divide (a, b) ->
  bind (eval n p a) (fun x ->
    bind (eval n p b) (fun y ->
      bind (verify_divide n x y) (fun _ -> mf_divide n x y)))
| Power (a, b) ->
  bind (eval n p a) (fun x ->
    bind (eval n p b) (fun y ->
      bind (verify_power n x y) (fun _ -> mf_power n x y)))
| Neg a -> bind (eval n p a) (fun x -> Val (mf_negation n x))
| Recip a ->
  bind (eval n p a) (fun x ->
    bind (verify_reciprocal n x) (fun _ -> mf_reciprocal n x))
| Sin a -> bind (eval n p a) (fun x -> mf_sine n x)
| Cos a -> bind (eval n p a) (fun x -> mf_cosine n x)
| NthPow (a, n2) -> bind (eval n p a) (fun x -> mf_nth_power n x n2)
| NthRoot (a, n2) ->
  bind (eval n p a) (fun x ->
    bind (verify_nth_root n x n2) (fun _ -> mf_nth_root n x n2))
| Exp (a, base) -> bind (eval n p a) (fun x -> mf_exponential n x base)
| Log (a, base) ->
  bind (eval n p a) (fun x ->
    bind (verify_logarithm n x) (fun _ -> mf_logarithm n x base))

(** val eval_list :
    'a1 numOps -> 'a1 point -> 'a1 expr list -> 'a1 list outcome **)

let eval_list n p l =
  sequence (map (eval n p) l)

(** val the_single_variable_name : 'a1 expr -> name option **)

let the_single_variable_name e =
  match var_names e with
  | [] -> Some whatever
  | x :: l -> (match l with
               | [] -> Some x
               | _ :: _ -> None)

(** val at_number : 'a1 numOps -> 'a1 expr -> 'a1 -> 'a1 outcome option **)

let at_number n e x =
  match the_single_variable_name e with
  | Some v -> Some (eval n ((v, x) :: []) e)
  | None -> None

(** val remove_nth : nat -> 'a1 list -> 'a1 list **)

let rec remove_nth i = function
| [] -> []
| x :: r -> (match i with
             | O -> r
             | S j -> x :: (remove_nth j r))

(** val mapi_from : nat -> (nat -> 'a1 -> 'a2) -> 'a1 list -> 'a2 list **)

let rec mapi_from i f = function
| [] -> []
| x :: r -> (f i x) :: (mapi_from (S i) f r)

(** val mapi : (nat -> 'a1 -> 'a2) -> 'a1 list -> 'a2 list **)

let mapi f l =
  mapi_from O f l

(** val unary_formula :
    'a1 numOps -> 'a1 point -> 'a1 expr -> 'a1 -> 'a1 outcome **)

let unary_formula n p e m =
  match e with
  | Neg _ -> Val (mf_negation n m)
  | Recip a ->
    bind (eval n p a) (fun iv ->
      bind (mf_nth_power n iv (XO XH)) (fun sq ->
        bind (mf_divide n m sq) (fun q -> Val (mf_negation n q))))
  | Sin a ->
    bind (eval n p a) (fun iv ->
      bind (mf_cosine n iv) (fun c -> Val (mf_multiply n (c :: (m :: [])))))
  | Cos a ->
    bind (eval n p a) (fun iv ->
      bind (mf_sine n iv) (fun s -> Val
        (mf_multiply n ((mf_negation n s) :: (m :: [])))))
  | NthPow (a, n2) ->
    (match n2 with
     | XH -> Val m
     | _ ->
       bind (eval n p a) (fun iv ->
         bind (mf_nth_power n iv (Coq_Pos.pred n2)) (fun w -> Val
           (mf_multiply n ((n.nofZ (Zpos n2)) :: (w :: (m :: [])))))))
  | NthRoot (_, n2) ->
    (match n2 with
     | XH -> Val m
     | _ ->
       bind (eval n p e) (fun sv ->
         bind (mf_nth_power n sv (Coq_Pos.pred n2)) (fun w ->
           mf_divide n m (mf_multiply n ((n.nofZ (Zpos n2)) :: (w :: []))))))
  | Exp (_, base) ->
    if n.neqb base (n1 n)
    then Val (n0 n)
    else bind (eval n p e) (fun sv ->
           if n.neqb base n.n_e
           then Val (mf_multiply n (sv :: (m :: [])))
           else bind (mf_logarithm n base n.n_e) (fun lb -> Val
                  (mf_multiply n (lb :: (sv :: (m :: []))))))
  | Log (a, base) ->
    bind (eval n p a) (fun iv ->
      if n.neqb base n.n_e
      then mf_divide n m iv
      else bind (mf_logarithm n base n.n_e) (fun lb ->
             mf_divide n m (mf_multiply n (lb :: (iv :: [])))))
  | _ -> Val m

(** val unary_verify : 'a1 numOps -> 'a1 expr -> 'a1 -> unit outcome **)

let unary_verify n e iv =
  match e with
  | Recip _ -> verify_reciprocal n iv
  | NthRoot (_, n2) -> verify_nth_root n iv n2
  | Log (_, _) -> verify_logarithm n iv
  | _ -> Val ()

(** val divide_formula_left :
    'a1 numOps -> 'a1 point -> 'a1 expr -> 'a1 expr -> 'a1 -> 'a1 outcome **)

let divide_formula_left n p _ b m =
  bind (eval n p b) (fun rv -> mf_divide n m rv)

(** val divide_formula_right :
    'a1 numOps -> 'a1 point -> 'a1 expr -> 'a1 expr -> 'a1 -> 'a1 outcome **)

let divide_formula_right n p a b m =
  bind (eval n p a) (fun lv ->
    bind (eval n p b) (fun rv ->
      bind (mf_nth_power n rv (XO XH)) (fun sq ->
        bind (mf_divide n lv sq) (fun q -> Val
          (mf_multiply n ((mf_negation n q) :: (m :: [])))))))

(** val power_formula_left :
    'a1 numOps -> 'a1 point -> 'a1 expr -> 'a1 expr -> 'a1 -> 'a1 outcome **)

let power_formula_left n p a b m =
  bind (eval n p a) (fun lv ->
    bind (eval n p b) (fun rv ->
      bind (mf_power n lv (mf_minus n rv (n1 n))) (fun w -> Val
        (mf_multiply n (rv :: (w :: (m :: [])))))))

(** val power_formula_right :
    'a1 numOps -> 'a1 point -> 'a1 expr -> 'a1 expr -> 'a1 -> 'a1 outcome **)

let power_formula_right n p a b m =
  bind (eval n p a) (fun lv ->
    bind (eval n p (Power (a, b))) (fun sv ->
      bind (mf_logarithm n lv n.n_e) (fun lg -> Val
        (mf_multiply n (lg :: (sv :: (m :: [])))))))

(** val power_shortcut :
    'a1 numOps -> 'a1 point -> 'a1 expr -> bool outcome **)

let power_shortcut n p a =
  if var_free a
  then bind (eval n p a) (fun lv -> Val (n.neqb lv (n1 n)))
  else Val false

(** val fwd : 'a1 numOps -> name -> 'a1 point -> 'a1 expr -> 'a1 outcome **)

let rec fwd n v p e = match e with
| Const _ -> Val (n0 n)
| Var x -> if name_eqb x v then Val (n1 n) else Val (n0 n)
| Add l -> bind (sequence (map (fwd n v p) l)) (fun ds -> Val (mf_add n ds))
| Mul l ->
  bind (eval_list n p l) (fun vs ->
    bind (sequence (map (fwd n v p) l)) (fun ds -> Val
      (mf_add n (mapi (fun i d -> mf_multiply n (d :: (remove_nth i vs))) ds))))
| Minus (a, b) ->
  bind (fwd n v p a) (fun da ->
    bind (fwd n v p b) (fun db -> Val (mf_minus n da db)))
| Divide (a, b) ->
  bind (eval n p a) (fun lv ->
    bind (eval n p b) (fun rv ->
      bind (verify_divide n lv rv) (fun _ ->
        bind (fwd n v p a) (fun da ->
          bind (fwd n v p b) (fun db ->
            bind (divide_formula_left n p a b da) (fun x ->
              bind (divide_formula_right n p a b db) (fun y -> Val
                (mf_add n (x :: (y :: []))))))))))
| Power (a, b) ->
  bind (eval n p e) (fun _ ->
    bind (power_shortcut n p a) (fun sc ->
      if sc
      then Val (n0 n)
      else bind (eval n p a) (fun lv ->
             bind (eval n p b) (fun rv ->
               bind (verify_power n lv rv) (fun _ ->
                 bind (fwd n v p a) (fun da ->
                   bind (fwd n v p b) (fun db ->
                     bind (power_formula_left n p a b da) (fun x ->
                       bind (power_formula_right n p a b db) (fun y -> Val
                         (n.nadd x y))))))))))
| Neg a ->
  bind (eval n p a) (fun iv ->
    bind (unary_verify n e iv) (fun _ ->
      bind (fwd n v p a) (fun d -> unary_formula n p e d)))
| Recip a ->
  bind (eval n p a) (fun iv ->
    bind (unary_verify n e iv) (fun _ ->
      bind (fwd n v p a) (fun d -> unary_formula n p e d)))
| Sin a ->
  bind (eval n p a) (fun iv ->
    bind (unary_verify n e iv) (fun _ ->
      bind (fwd n v p a) (fun d -> unary_formula n p e d)))
| Cos a ->
  bind (eval n p a) (fun iv ->
    bind (unary_verify n e iv) (fun _ ->
      bind (fwd n v p a) (fun d -> unary_formula n p e d)))
| NthPow (a, _) ->
  bind (eval n p a) (fun iv ->
    bind (unary_verify n e iv) (fun _ ->
      bind (fwd n v p a) (fun d -> unary_formula n p e d)))
| NthRoot (a, _) ->
  bind (eval n p a) (fun iv ->
    bind (unary_verify n e iv) (fun _ ->
      bind (fwd n v p a) (fun d -> unary_formula n p e d)))
| Exp (a, _) ->
  bind (eval n p a) (fun iv ->
    bind (unary_verify n e iv) (fun _ ->
      bind (fwd n v p a) (fun d -> unary_formula n p e d)))
| Log (a, _) ->
  bind (eval n p a) (fun iv ->
    bind (unary_verify n e iv) (fun _ ->
      bind (fwd n v p a) (fun d -> unary_formula n p e d)))

type 't accum = (name * 't) list

(** val acc_get : 'a1 numOps -> 'a1 accum -> name -> 'a1 **)

let acc_get n acc x =
  match lookup x acc with
  | Some v -> v
  | None -> n0 n

(** val acc_set : 'a1 accum -> name -> 'a1 -> 'a1 accum **)

let rec acc_set acc x v =
  match acc with
  | [] -> (x, v) :: []
  | p :: r ->
    let (y, w) = p in
    if name_eqb x y then (y, v) :: r else (y, w) :: (acc_set r x v)

(** val acc_add : 'a1 numOps -> 'a1 accum -> name -> 'a1 -> 'a1 accum **)

let acc_add n acc x c =
  acc_set acc x (n.nadd (acc_get n acc x) c)

(** val rev :
    'a1 numOps -> 'a1 point -> 'a1 expr -> 'a1 -> 'a1 accum -> 'a1 accum
    outcome **)

let rec rev n p e m acc =
  match e with
  | Const _ -> Val acc
  | Var x -> Val (acc_add n acc x m)
  | Add l ->
    let rec go l0 acc0 =
      match l0 with
      | [] -> Val acc0
      | x :: r -> bind (rev n p x m acc0) (fun acc' -> go r acc')
    in go l acc
  | Mul l ->
    bind (eval_list n p l) (fun vs ->
      let rec go i l0 acc0 =
        match l0 with
        | [] -> Val acc0
        | x :: r ->
          bind (rev n p x (mf_multiply n (m :: (remove_nth i vs))) acc0)
            (fun acc' -> go (S i) r acc')
      in go O l acc)
  | Minus (a, b) ->
    bind (rev n p a m acc) (fun acc1 -> rev n p b (mf_negation n m) acc1)
  | Divide (a, b) ->
    bind (eval n p a) (fun lv ->
      bind (eval n p b) (fun rv ->
        bind (verify_divide n lv rv) (fun _ ->
          bind (divide_formula_left n p a b m) (fun ml ->
            bind (divide_formula_right n p a b m) (fun mr ->
              bind (rev n p a ml acc) (fun acc1 -> rev n p b mr acc1))))))
  | Power (a, b) ->
    bind (eval n p e) (fun _ ->
      bind (power_shortcut n p a) (fun sc ->
        if sc
        then Val acc
        else bind (eval n p a) (fun lv ->
               bind (eval n p b) (fun rv ->
                 bind (verify_power n lv rv) (fun _ ->
                   bind (power_formula_left n p a b m) (fun ml ->
                     bind (power_formula_right n p a b m) (fun mr ->
                       bind (rev n p a ml acc) (fun acc1 -> rev n p b mr acc1))))))))
  | Neg a ->
    bind (eval n p a) (fun iv ->
      bind (unary_verify n e iv) (fun _ ->
        bind (unary_formula n p e m) (fun m' -> rev n p a m' acc)))
  | Recip a ->
    bind (eval n p a) (fun iv ->
      bind (unary_verify n e iv) (fun _ ->
        bind (unary_formula n p e m) (fun m' -> rev n p a m' acc)))
  | Sin a ->
    bind (eval n p a) (fun iv ->
      bind (unary_verify n e iv) (fun _ ->
        bind (unary_formula n p e m) (fun m' -> rev n p a m' acc)))
  | Cos a ->
    bind (eval n p a) (fun iv ->
      bind (unary_verify n e iv) (fun _ ->
        bind (unary_formula n p e m) (fun m' -> rev n p a m' acc)))
  | NthPow (a, _) ->
    bind (eval n p a) (fun iv ->
      bind (unary_verify n e iv) (fun _ ->
        bind (unary_formula n p e m) (fun m' -> rev n p a m' acc)))
  | NthRoot (a, _) ->
    bind (eval n p a) (fun iv ->
      bind (unary_verify n e iv) (fun _ ->
        bind (unary_formula n p e m) (fun m' -> rev n p a m' acc)))
  | Exp (a, _) ->
    bind (eval n p a) (fun iv ->
      bind (unary_verify n e iv) (fun _ ->
        bind (unary_formula n p e m) (fun m' -> rev n p a m' acc)))
  | Log (a, _) ->
    bind (eval n p a) (fun iv ->
      bind (unary_verify n e iv) (fun _ ->
        bind (unary_formula n p e m) (fun m' -> rev n p a m' acc)))

(** val numeric_partials_for :
    'a1 numOps -> 'a1 accum -> name list -> (name * 'a1) list **)

let numeric_partials_for n acc enum =
  map (fun x -> (x, (acc_get n acc x))) enum

(** val numeric_partials :
    'a1 numOps -> 'a1 point -> 'a1 expr -> name list -> (name * 'a1) list
    outcome **)

let numeric_partials n p e enum =
  bind (rev n p e (n1 n) []) (fun acc -> Val
    (numeric_partials_for n acc enum))

(** val located_component : 'a1 numOps -> (name * 'a1) list -> name -> 'a1 **)

let located_component n partials v =
  match lookup v partials with
  | Some d -> d
  | None -> n0 n

(** val synth_unary_formula :
    'a1 numOps -> 'a1 expr -> 'a1 expr -> 'a1 expr **)

let synth_unary_formula n e m =
  match e with
  | Neg _ -> Neg m
  | Recip a -> Neg (Divide (m, (NthPow (a, (XO XH)))))
  | Sin a -> Mul ((Cos a) :: (m :: []))
  | Cos a -> Mul ((Neg (Sin a)) :: (m :: []))
  | NthPow (a, n2) ->
    (match n2 with
     | XH -> m
     | _ ->
       Mul ((Const (n.nofZ (Zpos n2))) :: ((NthPow (a,
         (Coq_Pos.pred n2))) :: (m :: []))))
  | NthRoot (_, n2) ->
    (match n2 with
     | XH -> m
     | _ ->
       Divide (m, (Mul ((Const (n.nofZ (Zpos n2))) :: ((NthPow (e,
         (Coq_Pos.pred n2))) :: [])))))
  | Exp (_, base) ->
    if n.neqb base (n1 n)
    then Const (n0 n)
    else if n.neqb base n.n_e
         then Mul (e :: (m :: []))
         else Mul ((Log ((Const base), n.n_e)) :: (e :: (m :: [])))
  | Log (a, base) ->
    if n.neqb base n.n_e
    then Divide (m, a)
    else Divide (m, (Mul ((Log ((Const base), n.n_e)) :: (a :: []))))
  | _ -> m

(** val synth_divide_left : 'a1 expr -> 'a1 expr -> 'a1 expr -> 'a1 expr **)

let synth_divide_left _ b m =
  Divide (m, b)

(** val synth_divide_right : 'a1 expr -> 'a1 expr -> 'a1 expr -> 'a1 expr **)

let synth_divide_right a b m =
  Mul ((Neg (Divide (a, (NthPow (b, (XO XH)))))) :: (m :: []))

(** val synth_power_left :
    'a1 numOps -> 'a1 expr -> 'a1 expr -> 'a1 expr -> 'a1 expr **)

let synth_power_left n a b m =
  Mul (b :: ((Power (a, (Minus (b, (Const (n1 n)))))) :: (m :: [])))

(** val synth_power_right :
    'a1 numOps -> 'a1 expr -> 'a1 expr -> 'a1 expr -> 'a1 expr **)

let synth_power_right n a b m =
  Mul ((Log (a, n.n_e)) :: ((Power (a, b)) :: (m :: [])))

(** val synth_fwd : 'a1 numOps -> name -> 'a1 expr -> 'a1 expr **)

let rec synth_fwd n v e = match e with
| Const _ -> Const (n0 n)
| Var x -> if name_eqb x v then Const (n1 n) else Const (n0 n)
| Add l -> Add (map (synth_fwd n v) l)
| Mul l ->
  Add (mapi (fun i d -> Mul (d :: (remove_nth i l))) (map (synth_fwd n v) l))
| Minus (a, b) -> Minus ((synth_fwd n v a), (synth_fwd n v b))
| Divide (a, b) ->
  Add
    ((synth_divide_left a b (synth_fwd n v a)) :: ((synth_divide_right a b
                                                     (synth_fwd n v b)) :: []))
| Power (a, b) ->
  Add
    ((synth_power_left n a b (synth_fwd n v a)) :: ((synth_power_right n a b
                                                      (synth_fwd n v b)) :: []))
| Neg a -> synth_unary_formula n e (synth_fwd n v a)
| Recip a -> synth_unary_formula n e (synth_fwd n v a)
| Sin a -> synth_unary_formula n e (synth_fwd n v a)
| Cos a -> synth_unary_formula n e (synth_fwd n v a)
| NthPow (a, _) -> synth_unary_formula n e (synth_fwd n v a)
| NthRoot (a, _) -> synth_unary_formula n e (synth_fwd n v a)
| Exp (a, _) -> synth_unary_formula n e (synth_fwd n v a)
| Log (a, _) -> synth_unary_formula n e (synth_fwd n v a)

type 't saccum = (name * 't expr) list

(** val slookup : name -> 'a1 saccum -> 'a1 expr option **)

let rec slookup x = function
| [] -> None
| p :: r -> let (y, w) = p in if name_eqb x y then Some w else slookup x r

(** val sacc_set : 'a1 saccum -> name -> 'a1 expr -> 'a1 saccum **)

let rec sacc_set acc x v =
  match acc with
  | [] -> (x, v) :: []
  | p :: r ->
    let (y, w) = p in
    if name_eqb x y then (y, v) :: r else (y, w) :: (sacc_set r x v)

(** val sacc_add : 'a1 saccum -> name -> 'a1 expr -> 'a1 saccum **)

let sacc_add acc x c =
  match slookup x acc with
  | Some ex -> sacc_set acc x (Add (ex :: (c :: [])))
  | None -> sacc_set acc x c

(** val synth_rev :
    'a1 numOps -> 'a1 expr -> 'a1 expr -> 'a1 saccum -> 'a1 saccum **)

let rec synth_rev n e m acc =
  match e with
  | Const _ -> acc
  | Var x -> sacc_add acc x m
  | Add l ->
    let rec go l0 acc0 =
      match l0 with
      | [] -> acc0
      | x :: r -> go r (synth_rev n x m acc0)
    in go l acc
  | Mul l ->
    let rec go i r acc0 =
      match r with
      | [] -> acc0
      | x :: r' ->
        go (S i) r' (synth_rev n x (Mul (m :: (remove_nth i l))) acc0)
    in go O l acc
  | Minus (a, b) -> synth_rev n b (Neg m) (synth_rev n a m acc)
  | Divide (a, b) ->
    synth_rev n b (synth_divide_right a b m)
      (synth_rev n a (synth_divide_left a b m) acc)
  | Power (a, b) ->
    synth_rev n b (synth_power_right n a b m)
      (synth_rev n a (synth_power_left n a b m) acc)
  | Neg a -> synth_rev n a (synth_unary_formula n e m) acc
  | Recip a -> synth_rev n a (synth_unary_formula n e m) acc
  | Sin a -> synth_rev n a (synth_unary_formula n e m) acc
  | Cos a -> synth_rev n a (synth_unary_formula n e m) acc
  | NthPow (a, _) -> synth_rev n a (synth_unary_formula n e m) acc
  | NthRoot (a, _) -> synth_rev n a (synth_unary_formula n e m) acc
  | Exp (a, _) -> synth_rev n a (synth_unary_formula n e m) acc
  | Log (a, _) -> synth_rev n a (synth_unary_formula n e m) acc

(** val synthetic_partials_for :
    'a1 numOps -> 'a1 saccum -> name list -> (name * 'a1 expr) list **)

let synthetic_partials_for n acc enum =
  map (fun x -> (x,
    (match slookup x acc with
     | Some w -> w
     | None -> Const (n0 n)))) enum

(** val synthetic_partials :
    'a1 numOps -> 'a1 expr -> name list -> (name * 'a1 expr) list **)

let synthetic_partials n e enum =
  synthetic_partials_for n (synth_rev n e (Const (n1 n)) []) enum

(** val partition_by :
    ('a1 expr -> bool) -> 'a1 expr list -> 'a1 expr list * 'a1 expr list **)

let partition_by f l =
  ((filter f l), (filter (fun x -> negb (f x)) l))

(** val split_first :
    ('a1 expr -> bool) -> 'a1 expr list -> (('a1 expr list * 'a1 expr) * 'a1
    expr list) option **)

let rec split_first f = function
| [] -> None
| x :: r ->
  if f x
  then Some (([], x), r)
  else (match split_first f r with
        | Some p ->
          let (p0, a) = p in let (b, h) = p0 in Some (((x :: b), h), a)
        | None -> None)

(** val group_insert :
    ('a1 -> 'a1 -> bool) -> 'a1 -> 'a2 -> ('a1 * 'a2 list) list -> ('a1 * 'a2
    list) list **)

let rec group_insert keqb k v = function
| [] -> (k, (v :: [])) :: []
| p :: r ->
  let (k', vs) = p in
  if keqb k k'
  then (k', (app vs (v :: []))) :: r
  else (k', vs) :: (group_insert keqb k v r)

(** val group_by_key :
    ('a1 -> 'a1 -> bool) -> ('a2 -> 'a1) -> 'a2 list -> ('a1 * 'a2 list) list **)

let group_by_key keqb key l =
  fold_left (fun g v -> group_insert keqb (key v) v g) l []

(** val is_const_eq : 'a1 numOps -> 'a1 -> 'a1 expr -> bool **)

let is_const_eq n c = function
| Const v -> n.neqb v c
| _ -> false

(** val const_values : 'a1 expr list -> 'a1 list **)

let const_values l =
  flat_map (fun e -> match e with
                     | Const v -> v :: []
                     | _ -> []) l

(** val all_singletons : ('a1 * 'a2 list) list -> bool **)

let all_singletons g =
  forallb (fun kv -> Nat.leb (length (snd kv)) (S O)) g

(** val pos_of_nth : 'a1 expr -> positive **)

let pos_of_nth = function
| NthPow (_, n) -> n
| NthRoot (_, n) -> n
| _ -> XH

(** val base_of : 'a1 numOps -> 'a1 expr -> 'a1 **)

let base_of n = function
| Exp (_, b) -> b
| Log (_, b) -> b
| _ -> n0 n

(** val reduce_by_flattening_nested_sums : 'a1 expr -> 'a1 expr option **)

let reduce_by_flattening_nested_sums = function
| Add l ->
  (match split_first is_Add l with
   | Some p ->
     let (p0, after) = p in
     let (before, e0) = p0 in
     (match e0 with
      | Add nested -> Some (Add (app before (app nested after)))
      | _ -> None)
   | None -> None)
| _ -> None

(** val reduce_sum_by_eliminating_zeros :
    'a1 numOps -> 'a1 expr -> 'a1 expr option **)

let reduce_sum_by_eliminating_zeros n = function
| Add l ->
  let non_zeros = filter (fun x -> negb (is_const_eq n (n0 n) x)) l in
  if Nat.eqb (length non_zeros) (length l) then None else Some (Add non_zeros)
| _ -> None

(** val reduce_sum_by_consolidating_logarithms :
    'a1 numOps -> 'a1 expr -> 'a1 expr option **)

let reduce_sum_by_consolidating_logarithms n = function
| Add l ->
  let (logs, non_logs) = partition_by is_Log l in
  if Nat.leb (length logs) (S O)
  then None
  else let groups = group_by_key n.neqb (base_of n) logs in
       if all_singletons groups
       then None
       else Some (Add
              (app non_logs
                (map (fun kv -> Log ((Mul (map inner_of (snd kv))),
                  (fst kv))) groups)))
| _ -> None

(** val reduce_sum_by_consolidating_constants :
    'a1 numOps -> 'a1 expr -> 'a1 expr option **)

let reduce_sum_by_consolidating_constants n = function
| Add l ->
  let (consts, non_consts) = partition_by is_Const l in
  if Nat.leb (length consts) (S O)
  then None
  else Some (Add
         (app non_consts ((Const (mf_add n (const_values consts))) :: [])))
| _ -> None

(** val reduce_minus_to_sum_with_negation : 'a1 expr -> 'a1 expr option **)

let reduce_minus_to_sum_with_negation = function
| Minus (a, b) -> Some (Add (a :: ((Neg b) :: [])))
| _ -> None

(** val reduce_negation_of_negation : 'a1 expr -> 'a1 expr option **)

let reduce_negation_of_negation = function
| Neg a -> (match a with
            | Neg u -> Some u
            | _ -> None)
| _ -> None

(** val reduce_negation_of_sum : 'a1 expr -> 'a1 expr option **)

let reduce_negation_of_sum = function
| Neg a ->
  (match a with
   | Add l -> Some (Add (map (fun x -> Neg x) l))
   | _ -> None)
| _ -> None

(** val reduce_by_flattening_nested_products : 'a1 expr -> 'a1 expr option **)

let reduce_by_flattening_nested_products = function
| Mul l ->
  (match split_first is_Mul l with
   | Some p ->
     let (p0, after) = p in
     let (before, e0) = p0 in
     (match e0 with
      | Mul nested -> Some (Mul (app before (app nested after)))
      | _ -> None)
   | None -> None)
| _ -> None

(** val reduce_product_when_multiplying_by_zero :
    'a1 numOps -> 'a1 expr -> 'a1 expr option **)

let reduce_product_when_multiplying_by_zero n = function
| Mul l ->
  if existsb (is_const_eq n (n0 n)) l then Some (Const (n0 n)) else None
| _ -> None

(** val reduce_product_by_eliminating_ones :
    'a1 numOps -> 'a1 expr -> 'a1 expr option **)

let reduce_product_by_eliminating_ones n = function
| Mul l ->
  let non_ones = filter (fun x -> negb (is_const_eq n (n1 n) x)) l in
  if Nat.eqb (length non_ones) (length l) then None else Some (Mul non_ones)
| _ -> None

(** val reduce_product_by_eliminating_negations :
    'a1 numOps -> 'a1 expr -> 'a1 expr option **)

let reduce_product_by_eliminating_negations n = function
| Mul l ->
  let (negs, non_negs) = partition_by is_Neg l in
  (match negs with
   | [] -> None
   | _ :: _ ->
     if Nat.even (length negs)
     then Some (Mul (app non_negs (map inner_of negs)))
     else Some (Mul
            (app non_negs (app (map inner_of negs) ((Const (nm1 n)) :: [])))))
| _ -> None

(** val reduce_product_by_consolidating_nth_powers :
    'a1 expr -> 'a1 expr option **)

let reduce_product_by_consolidating_nth_powers = function
| Mul l ->
  let (pows, non_pows) = partition_by is_NthPow l in
  if Nat.leb (length pows) (S O)
  then None
  else let groups = group_by_key Coq_Pos.eqb pos_of_nth pows in
       if all_singletons groups
       then None
       else Some (Mul
              (app non_pows
                (map (fun kv -> NthPow ((Mul (map inner_of (snd kv))),
                  (fst kv))) groups)))
| _ -> None

(** val reduce_product_by_consolidating_nth_roots :
    'a1 expr -> 'a1 expr option **)

let reduce_product_by_consolidating_nth_roots = function
| Mul l ->
  let (roots, non_roots) = partition_by is_NthRoot l in
  if Nat.leb (length roots) (S O)
  then None
  else let groups = group_by_key Coq_Pos.eqb pos_of_nth roots in
       if all_singletons groups
       then None
       else Some (Mul
              (app non_roots
                (map (fun kv -> NthRoot ((Mul (map inner_of (snd kv))),
                  (fst kv))) groups)))
| _ -> None

(** val reduce_product_by_consolidating_exponentials :
    'a1 numOps -> 'a1 expr -> 'a1 expr option **)

let reduce_product_by_consolidating_exponentials n = function
| Mul l ->
  let (exps, non_exps) = partition_by is_Exp l in
  if Nat.leb (length exps) (S O)
  then None
  else let groups = group_by_key n.neqb (base_of n) exps in
       if all_singletons groups
       then None
       else Some (Mul
              (app non_exps
                (map (fun kv -> Exp ((Add (map inner_of (snd kv))),
                  (fst kv))) groups)))
| _ -> None

(** val reduce_product_by_consolidating_constants :
    'a1 numOps -> 'a1 expr -> 'a1 expr option **)

let reduce_product_by_consolidating_constants n = function
| Mul l ->
  let (consts, non_consts) = partition_by is_Const l in
  if Nat.leb (length consts) (S O)
  then None
  else Some (Mul
         (app non_consts ((Const
           (mf_multiply n (const_values consts))) :: [])))
| _ -> None

(** val reduce_divide_to_multiplying_with_reciprocal :
    'a1 expr -> 'a1 expr option **)

let reduce_divide_to_multiplying_with_reciprocal = function
| Divide (a, b) -> Some (Mul (a :: ((Recip b) :: [])))
| _ -> None

(** val reduce_reciprocal_of_reciprocal : 'a1 expr -> 'a1 expr option **)

let reduce_reciprocal_of_reciprocal = function
| Recip a -> (match a with
              | Recip u -> Some u
              | _ -> None)
| _ -> None

(** val reduce_reciprocal_of_negation : 'a1 expr -> 'a1 expr option **)

let reduce_reciprocal_of_negation = function
| Recip a -> (match a with
              | Neg u -> Some (Neg (Recip u))
              | _ -> None)
| _ -> None

(** val reduce_reciprocal_of_product : 'a1 expr -> 'a1 expr option **)

let reduce_reciprocal_of_product = function
| Recip a ->
  (match a with
   | Mul l -> Some (Mul (map (fun x -> Recip x) l))
   | _ -> None)
| _ -> None

(** val reduce_u_to_the_one : 'a1 numOps -> 'a1 expr -> 'a1 expr option **)

let reduce_u_to_the_one n = function
| Power (u, b) ->
  (match b with
   | Const c -> if n.neqb c (n1 n) then Some u else None
   | _ -> None)
| _ -> None

(** val reduce_u_to_the_zero : 'a1 numOps -> 'a1 expr -> 'a1 expr option **)

let reduce_u_to_the_zero n = function
| Power (_, b) ->
  (match b with
   | Const c -> if n.neqb c (n0 n) then Some (Const (n1 n)) else None
   | _ -> None)
| _ -> None

(** val reduce_one_to_the_u : 'a1 numOps -> 'a1 expr -> 'a1 expr option **)

let reduce_one_to_the_u n = function
| Power (a, _) ->
  (match a with
   | Const c -> if n.neqb c (n1 n) then Some (Const (n1 n)) else None
   | _ -> None)
| _ -> None

(** val reduce_u_to_the_n_at_least_two :
    'a1 numOps -> 'a1 expr -> 'a1 expr option **)

let reduce_u_to_the_n_at_least_two n = function
| Power (u, b) ->
  (match b with
   | Const c ->
     (match n.nint c with
      | Some z0 ->
        if Z.leb (Zpos (XO XH)) z0
        then Some (NthPow (u, (Z.to_pos z0)))
        else None
      | None -> None)
   | _ -> None)
| _ -> None

(** val reduce_u_to_the_negative_one :
    'a1 numOps -> 'a1 expr -> 'a1 expr option **)

let reduce_u_to_the_negative_one n = function
| Power (u, b) ->
  (match b with
   | Const c -> if n.neqb c (nm1 n) then Some (Recip u) else None
   | _ -> None)
| _ -> None

(** val reduce_power_with_constant_base :
    'a1 numOps -> 'a1 expr -> 'a1 expr option **)

let reduce_power_with_constant_base n = function
| Power (a, u) ->
  (match a with
   | Const c ->
     if (&&) (n.nltb (n0 n) c) (negb (n.neqb c (n1 n)))
     then Some (Exp (u, c))
     else None
   | _ -> None)
| _ -> None

(** val reduce_power_of_power : 'a1 expr -> 'a1 expr option **)

let reduce_power_of_power = function
| Power (a, w) ->
  (match a with
   | Power (u, v) -> Some (Power (u, (Mul (v :: (w :: [])))))
   | _ -> None)
| _ -> None

(** val reduce_u_to_the_negation_of_v : 'a1 expr -> 'a1 expr option **)

let reduce_u_to_the_negation_of_v = function
| Power (u, b) ->
  (match b with
   | Neg v -> Some (Recip (Power (u, v)))
   | _ -> None)
| _ -> None

(** val reduce_reciprocal_u__to_the_v : 'a1 expr -> 'a1 expr option **)

let reduce_reciprocal_u__to_the_v = function
| Power (a, v) ->
  (match a with
   | Recip u -> Some (Recip (Power (u, v)))
   | _ -> None)
| _ -> None

(** val reduce_nth_power_where_n_is_one : 'a1 expr -> 'a1 expr option **)

let reduce_nth_power_where_n_is_one = function
| NthPow (u, n) -> if Coq_Pos.eqb n XH then Some u else None
| _ -> None

(** val reduce_nth_power_of_mth_root : 'a1 expr -> 'a1 expr option **)

let reduce_nth_power_of_mth_root = function
| NthPow (a, n) ->
  (match a with
   | NthRoot (u, m) ->
     if Coq_Pos.eqb m n
     then Some u
     else let g = Coq_Pos.gcd m n in
          if Coq_Pos.eqb g XH
          then None
          else Some (NthPow ((NthRoot (u,
                 (Z.to_pos (Z.div (Zpos m) (Zpos g))))),
                 (Z.to_pos (Z.div (Zpos n) (Zpos g)))))
   | _ -> None)
| _ -> None

(** val reduce_nth_power_of_mth_power : 'a1 expr -> 'a1 expr option **)

let reduce_nth_power_of_mth_power = function
| NthPow (a, n) ->
  (match a with
   | NthPow (u, m) -> Some (NthPow (u, (Coq_Pos.mul n m)))
   | _ -> None)
| _ -> None

(** val reduce_nth_power_of_negation : 'a1 expr -> 'a1 expr option **)

let reduce_nth_power_of_negation = function
| NthPow (a, n) ->
  (match a with
   | Neg u ->
     if Z.even (Zpos n)
     then Some (NthPow (u, n))
     else Some (Neg (NthPow (u, n)))
   | _ -> None)
| _ -> None

(** val reduce_nth_power_of_reciprocal : 'a1 expr -> 'a1 expr option **)

let reduce_nth_power_of_reciprocal = function
| NthPow (a, n) ->
  (match a with
   | Recip u -> Some (Recip (NthPow (u, n)))
   | _ -> None)
| _ -> None

(** val reduce_nth_power_of_exponential :
    'a1 numOps -> 'a1 expr -> 'a1 expr option **)

let reduce_nth_power_of_exponential n = function
| NthPow (a, n2) ->
  (match a with
   | Exp (u, b) ->
     Some (Exp ((Mul ((Const (n.nofZ (Zpos n2))) :: (u :: []))), b))
   | _ -> None)
| _ -> None

(** val reduce_nth_root_where_n_is_one : 'a1 expr -> 'a1 expr option **)

let reduce_nth_root_where_n_is_one = function
| NthRoot (u, n) -> if Coq_Pos.eqb n XH then Some u else None
| _ -> None

(** val reduce_nth_root_of_mth_power : 'a1 expr -> 'a1 expr option **)

let reduce_nth_root_of_mth_power = function
| NthRoot (a, n) ->
  (match a with
   | NthPow (u, m) -> Some (NthPow ((NthRoot (u, n)), m))
   | _ -> None)
| _ -> None

(** val reduce_nth_root_of_mth_root : 'a1 expr -> 'a1 expr option **)

let reduce_nth_root_of_mth_root = function
| NthRoot (a, n) ->
  (match a with
   | NthRoot (u, m) -> Some (NthRoot (u, (Coq_Pos.mul n m)))
   | _ -> None)
| _ -> None

(** val reduce_odd_nth_root_of_negation : 'a1 expr -> 'a1 expr option **)

let reduce_odd_nth_root_of_negation = function
| NthRoot (a, n) ->
  (match a with
   | Neg u -> if Z.odd (Zpos n) then Some (Neg (NthRoot (u, n))) else None
   | _ -> None)
| _ -> None

(** val reduce_nth_root_of_reciprocal : 'a1 expr -> 'a1 expr option **)

let reduce_nth_root_of_reciprocal = function
| NthRoot (a, n) ->
  (match a with
   | Recip u -> Some (Recip (NthRoot (u, n)))
   | _ -> None)
| _ -> None

(** val reduce_exponential_of_logarithm :
    'a1 numOps -> 'a1 expr -> 'a1 expr option **)

let reduce_exponential_of_logarithm n = function
| Exp (a, b) ->
  (match a with
   | Log (u, b') -> if n.neqb b b' then Some u else None
   | _ -> None)
| _ -> None

(** val reduce_exponential_of_negation : 'a1 expr -> 'a1 expr option **)

let reduce_exponential_of_negation = function
| Exp (a, b) -> (match a with
                 | Neg u -> Some (Recip (Exp (u, b)))
                 | _ -> None)
| _ -> None

(** val reduce_logarithm_of_exponential :
    'a1 numOps -> 'a1 expr -> 'a1 expr option **)

let reduce_logarithm_of_exponential n = function
| Log (a, b) ->
  (match a with
   | Exp (u, b') -> if n.neqb b b' then Some u else None
   | _ -> None)
| _ -> None

(** val reduce_logarithm_of_reciprocal : 'a1 expr -> 'a1 expr option **)

let reduce_logarithm_of_reciprocal = function
| Log (a, b) -> (match a with
                 | Recip u -> Some (Neg (Log (u, b)))
                 | _ -> None)
| _ -> None

(** val reduce_logarithm_of_nth_power :
    'a1 numOps -> 'a1 expr -> 'a1 expr option **)

let reduce_logarithm_of_nth_power n = function
| Log (a, b) ->
  (match a with
   | NthPow (u, n2) ->
     if Z.odd (Zpos n2)
     then Some (Mul ((Const (n.nofZ (Zpos n2))) :: ((Log (u, b)) :: [])))
     else None
   | _ -> None)
| _ -> None

(** val reduce_cosine_of_negation : 'a1 expr -> 'a1 expr option **)

let reduce_cosine_of_negation = function
| Cos a -> (match a with
            | Neg u -> Some (Cos u)
            | _ -> None)
| _ -> None

(** val reduce_sine_of_negation : 'a1 expr -> 'a1 expr option **)

let reduce_sine_of_negation = function
| Sin a -> (match a with
            | Neg u -> Some (Neg (Sin u))
            | _ -> None)
| _ -> None

type 't rule = string * ('t expr -> 't expr option)

(** val reducers_Add : 'a1 numOps -> 'a1 rule list **)

let reducers_Add n =
  ((String ((Ascii (true, true, true, true, true, false, true, false)),
    (String ((Ascii (false, true, false, false, true, true, true, false)),
    (String ((Ascii (true, false, true, false, false, true, true, false)),
    (String ((Ascii (false, false, true, false, false, true, true, false)),
    (String ((Ascii (true, false, true, false, true, true, true, false)),
    (String ((Ascii (true, true, false, false, false, true, true, false)),
    (String ((Ascii (true, false, true, false, false, true, true, false)),
    (String ((Ascii (true, true, true, true, true, false, true, false)),
    (String ((Ascii (false, true, false, false, false, true, true, false)),
    (String ((Ascii (true, false, false, true, true, true, true, false)),
    (String ((Ascii (true, true, true, true, true, false, true, false)),
    (String ((Ascii (false, true, true, false, false, true, true, false)),
    (String ((Ascii (false, false, true, true, false, true, true, false)),
    (String ((Ascii (true, false, false, false, false, true, true, false)),
    (String ((Ascii (false, false, true, false, true, true, true, false)),
    (String ((Ascii (false, false, true, false, true, true, true, false)),
    (String ((Ascii (true, false, true, false, false, true, true, false)),
    (String ((Ascii (false, true, true, true, false, true, true, false)),
    (String ((Ascii (true, false, false, true, false, true, true, false)),
    (String ((Ascii (false, true, true, true, false, true, true, false)),
    (String ((Ascii (true, true, true, false, false, true, true, false)),
    (String ((Ascii (true, true, true, true, true, false, true, false)),
    (String ((Ascii (false, true, true, true, false, true, true, false)),
    (String ((Ascii (true, false, true, false, false, true, true, false)),
    (String ((Ascii (true, true, false, false, true, true, true, false)),
    (String ((Ascii (false, false, true, false, true, true, true, false)),
    (String ((Ascii (true, false, true, false, false, true, true, false)),
    (String ((Ascii (false, false, true, false, false, true, true, false)),
    (String ((Ascii (true, true, true, true, true, false, true, false)),
    (String ((Ascii (true, true, false, false, true, true, true, false)),
    (String ((Ascii (true, false, true, false, true, true, true, false)),
    (String ((Ascii (true, false, true, true, false, true, true, false)),
    (String ((Ascii (true, true, false, false, true, true, true, false)),
    EmptyString)))))))))))))))))))))))))))))))))))))))))))))))))))))))))))))))))),
    reduce_by_flattening_nested_sums) :: (((String ((Ascii (true, true, true,
    true, true, false, true, false)), (String ((Ascii (false, true, false,
    false, true, true, true, false)), (String ((Ascii (true, false, true,
    false, false, true, true, false)), (String ((Ascii (false, false, true,
    false, false, true, true, false)), (String ((Ascii (true, false, true,
    false, true, true, true, false)), (String ((Ascii (true, true, false,
    false, false, true, true, false)), (String ((Ascii (true, false, true,
    false, false, true, true, false)), (String ((Ascii (true, true, true,
    true, true, false, true, false)), (String ((Ascii (true, true, false,
    false, true, true, true, false)), (String ((Ascii (true, false, true,
    false, true, true, true, false)), (String ((Ascii (true, false, true,
    true, false, true, true, false)), (String ((Ascii (true, true, true,
    true, true, false, true, false)), (String ((Ascii (false, true, false,
    false, false, true, true, false)), (String ((Ascii (true, false, false,
    true, true, true, true, false)), (String ((Ascii (true, true, true, true,
    true, false, true, false)), (String ((Ascii (true, false, true, false,
    false, true, true, false)), (String ((Ascii (false, false, true, true,
    false, true, true, false)), (String ((Ascii (true, false, false, true,
    false, true, true, false)), (String ((Ascii (true, false, true, true,
    false, true, true, false)), (String ((Ascii (true, false, false, true,
    false, true, true, false)), (String ((Ascii (false, true, true, true,
    false, true, true, false)), (String ((Ascii (true, false, false, false,
    false, true, true, false)), (String ((Ascii (false, false, true, false,
    true, true, true, false)), (String ((Ascii (true, false, false, true,
    false, true, true, false)), (String ((Ascii (false, true, true, true,
    false, true, true, false)), (String ((Ascii (true, true, true, false,
    false, true, true, false)), (String ((Ascii (true, true, true, true,
    true, false, true, false)), (String ((Ascii (false, true, false, true,
    true, true, true, false)), (String ((Ascii (true, false, true, false,
    false, true, true, false)), (String ((Ascii (false, true, false, false,
    true, true, true, false)), (String ((Ascii (true, true, true, true,
    false, true, true, false)), (String ((Ascii (true, true, false, false,
    true, true, true, false)),
    EmptyString)))))))))))))))))))))))))))))))))))))))))))))))))))))))))))))))),
    (reduce_sum_by_eliminating_zeros n)) :: (((String ((Ascii (true, true,
    true, true, true, false, true, false)), (String ((Ascii (false, true,
    false, false, true, true, true, false)), (String ((Ascii (true, false,
    true, false, false, true, true, false)), (String ((Ascii (false, false,
    true, false, false, true, true, false)), (String ((Ascii (true, false,
    true, false, true, true, true, false)), (String ((Ascii (true, true,
    false, false, false, true, true, false)), (String ((Ascii (true, false,
    true, false, false, true, true, false)), (String ((Ascii (true, true,
    true, true, true, false, true, false)), (String ((Ascii (true, true,
    false, false, true, true, true, false)), (String ((Ascii (true, false,
    true, false, true, true, true, false)), (String ((Ascii (true, false,
    true, true, false, true, true, false)), (String ((Ascii (true, true,
    true, true, true, false, true, false)), (String ((Ascii (false, true,
    false, false, false, true, true, false)), (String ((Ascii (true, false,
    false, true, true, true, true, false)), (String ((Ascii (true, true,
    true, true, true, false, true, false)), (String ((Ascii (true, true,
    false, false, false, true, true, false)), (String ((Ascii (true, true,
    true, true, false, true, true, false)), (String ((Ascii (false, true,
    true, true, false, true, true, false)), (String ((Ascii (true, true,
    false, false, true, true, true, false)), (String ((Ascii (true, true,
    true, true, false, true, true, false)), (String ((Ascii (false, false,
    true, true, false, true, true, false)), (String ((Ascii (true, false,
    false, true, false, true, true, false)), (String ((Ascii (false, false,
    true, false, false, true, true, false)), (String ((Ascii (true, false,
    false, false, false, true, true, false)), (String ((Ascii (false, false,
    true, false, true, true, true, false)), (String ((Ascii (true, false,
    false, true, false, true, true, false)), (String ((Ascii (false, true,
    true, true, false, true, true, false)), (String ((Ascii (true, true,
    true, false, false, true, true, false)), (String ((Ascii (true, true,
    true, true, true, false, true, false)), (String ((Ascii (false, false,
    true, true, false, true, true, false)), (String ((Ascii (true, true,
    true, true, false, true, true, false)), (String ((Ascii (true, true,
    true, false, false, true, true, false)), (String ((Ascii (true, false,
    false, false, false, true, true, false)), (String ((Ascii (false, true,
    false, false, true, true, true, false)), (String ((Ascii (true, false,
    false, true, false, true, true, false)), (String ((Ascii (false, false,
    true, false, true, true, true, false)), (String ((Ascii (false, false,
    false, true, false, true, true, false)), (String ((Ascii (true, false,
    true, true, false, true, true, false)), (String ((Ascii (true, true,
    false, false, true, true, true, false)),
    EmptyString)))))))))))))))))))))))))))))))))))))))))))))))))))))))))))))))))))))))))))))),
    (reduce_sum_by_consolidating_logarithms n)) :: (((String ((Ascii (true,
    true, true, true, true, false, true, false)), (String ((Ascii (false,
    true, false, false, true, true, true, false)), (String ((Ascii (true,
    false, true, false, false, true, true, false)), (String ((Ascii (false,
    false, true, false, false, true, true, false)), (String ((Ascii (true,
    false, true, false, true, true, true, false)), (String ((Ascii (true,
    true, false, false, false, true, true, false)), (String ((Ascii (true,
    false, true, false, false, true, true, false)), (String ((Ascii (true,
    true, true, true, true, false, true, false)), (String ((Ascii (true,
    true, false, false, true, true, true, false)), (String ((Ascii (true,
    false, true, false, true, true, true, false)), (String ((Ascii (true,
    false, true, true, false, true, true, false)), (String ((Ascii (true,
    true, true, true, true, false, true, false)), (String ((Ascii (false,
    true, false, false, false, true, true, false)), (String ((Ascii (true,
    false, false, true, true, true, true, false)), (String ((Ascii (true,
    true, true, true, true, false, true, false)), (String ((Ascii (true,
    true, false, false, false, true, true, false)), (String ((Ascii (true,
    true, true, true, false, true, true, false)), (String ((Ascii (false,
    true, true, true, false, true, true, false)), (String ((Ascii (true,
    true, false, false, true, true, true, false)), (String ((Ascii (true,
    true, true, true, false, true, true, false)), (String ((Ascii (false,
    false, true, true, false, true, true, false)), (String ((Ascii (true,
    false, false, true, false, true, true, false)), (String ((Ascii (false,
    false, true, false, false, true, true, false)), (String ((Ascii (true,
    false, false, false, false, true, true, false)), (String ((Ascii (false,
    false, true, false, true, true, true, false)), (String ((Ascii (true,
    false, false, true, false, true, true, false)), (String ((Ascii (false,
    true, true, true, false, true, true, false)), (String ((Ascii (true,
    true, true, false, false, true, true, false)), (String ((Ascii (true,
    true, true, true, true, false, true, false)), (String ((Ascii (true,
    true, false, false, false, true, true, false)), (String ((Ascii (true,
    true, true, true, false, true, true, false)), (String ((Ascii (false,
    true, true, true, false, true, true, false)), (String ((Ascii (true,
    true, false, false, true, true, true, false)), (String ((Ascii (false,
    false, true, false, true, true, true, false)), (String ((Ascii (true,
    false, false, false, false, true, true, false)), (String ((Ascii (false,
    true, true, true, false, true, true, false)), (String ((Ascii (false,
    false, true, false, true, true, true, false)), (String ((Ascii (true,
    true, false, false, true, true, true, false)),
    EmptyString)))))))))))))))))))))))))))))))))))))))))))))))))))))))))))))))))))))))))))),
    (reduce_sum_by_consolidating_constants n)) :: [])))

(** val reducers_Minus : 'a1 rule list **)

let reducers_Minus =
  ((String ((Ascii (true, true, true, true, true, false, true, false)),
    (String ((Ascii (false, true, false, false, true, true, true, false)),
    (String ((Ascii (true, false, true, false, false, true, true, false)),
    (String ((Ascii (false, false, true, false, false, true, true, false)),
    (String ((Ascii (true, false, true, false, true, true, true, false)),
    (String ((Ascii (true, true, false, false, false, true, true, false)),
    (String ((Ascii (true, false, true, false, false, true, true, false)),
    (String ((Ascii (true, true, true, true, true, false, true, false)),
    (String ((Ascii (true, false, true, true, false, true, true, false)),
    (String ((Ascii (true, false, false, true, false, true, true, false)),
    (String ((Ascii (false, true, true, true, false, true, true, false)),
    (String ((Ascii (true, false, true, false, true, true, true, false)),
    (String ((Ascii (true, true, false, false, true, true, true, false)),
    (String ((Ascii (true, true, true, true, true, false, true, false)),
    (String ((Ascii (false, false, true, false, true, true, true, false)),
    (String ((Ascii (true, true, true, true, false, true, true, false)),
    (String ((Ascii (true, true, true, true, true, false, true, false)),
    (String ((Ascii (true, true, false, false, true, true, true, false)),
    (String ((Ascii (true, false, true, false, true, true, true, false)),
    (String ((Ascii (true, false, true, true, false, true, true, false)),
    (String ((Ascii (true, true, true, true, true, false, true, false)),
    (String ((Ascii (true, true, true, false, true, true, true, false)),
    (String ((Ascii (true, false, false, true, false, true, true, false)),
    (String ((Ascii (false, false, true, false, true, true, true, false)),
    (String ((Ascii (false, false, false, true, false, true, true, false)),
    (String ((Ascii (true, true, true, true, true, false, true, false)),
    (String ((Ascii (false, true, true, true, false, true, true, false)),
    (String ((Ascii (true, false, true, false, false, true, true, false)),
    (String ((Ascii (true, true, true, false, false, true, true, false)),
    (String ((Ascii (true, false, false, false, false, true, true, false)),
    (String ((Ascii (false, false, true, false, true, true, true, false)),
    (String ((Ascii (true, false, false, true, false, true, true, false)),
    (String ((Ascii (true, true, true, true, false, true, true, false)),
    (String ((Ascii (false, true, true, true, false, true, true, false)),
    EmptyString)))))))))))))))))))))))))))))))))))))))))))))))))))))))))))))))))))),
    reduce_minus_to_sum_with_negation) :: []

(** val reducers_Negation : 'a1 rule list **)

let reducers_Negation =
  ((String ((Ascii (true, true, true, true, true, false, true, false)),
    (String ((Ascii (false, true, false, false, true, true, true, false)),
    (String ((Ascii (true, false, true, false, false, true, true, false)),
    (String ((Ascii (false, false, true, false, false, true, true, false)),
    (String ((Ascii (true, false, true, false, true, true, true, false)),
    (String ((Ascii (true, true, false, false, false, true, true, false)),
    (String ((Ascii (true, false, true, false, false, true, true, false)),
    (String ((Ascii (true, true, true, true, true, false, true, false)),
    (String ((Ascii (false, true, true, true, false, true, true, false)),
    (String ((Ascii (true, false, true, false, false, true, true, false)),
    (String ((Ascii (true, true, true, false, false, true, true, false)),
    (String ((Ascii (true, false, false, false, false, true, true, false)),
    (String ((Ascii (false, false, true, false, true, true, true, false)),
    (String ((Ascii (true, false, false, true, false, true, true, false)),
    (String ((Ascii (true, true, true, true, false, true, true, false)),
    (String ((Ascii (false, true, true, true, false, true, true, false)),
    (String ((Ascii (true, true, true, true, true, false, true, false)),
    (String ((Ascii (true, true, true, true, false, true, true, false)),
    (String ((Ascii (false, true, true, false, false, true, true, false)),
    (String ((Ascii (true, true, true, true, true, false, true, false)),
    (String ((Ascii (false, true, true, true, false, true, true, false)),
    (String ((Ascii (true, false, true, false, false, true, true, false)),
    (String ((Ascii (true, true, true, false, false, true, true, false)),
    (String ((Ascii (true, false, false, false, false, true, true, false)),
    (String ((Ascii (false, false, true, false, true, true, true, false)),
    (String ((Ascii (true, false, false, true, false, true, true, false)),
    (String ((Ascii (true, true, true, true, false, true, true, false)),
    (String ((Ascii (false, true, true, true, false, true, true, false)),
    EmptyString)))))))))))))))))))))))))))))))))))))))))))))))))))))))),
    reduce_negation_of_negation) :: (((String ((Ascii (true, true, true,
    true, true, false, true, false)), (String ((Ascii (false, true, false,
    false, true, true, true, false)), (String ((Ascii (true, false, true,
    false, false, true, true, false)), (String ((Ascii (false, false, true,
    false, false, true, true, false)), (String ((Ascii (true, false, true,
    false, true, true, true, false)), (String ((Ascii (true, true, false,
    false, false, true, true, false)), (String ((Ascii (true, false, true,
    false, false, true, true, false)), (String ((Ascii (true, true, true,
    true, true, false, true, false)), (String ((Ascii (false, true, true,
    true, false, true, true, false)), (String ((Ascii (true, false, true,
    false, false, true, true, false)), (String ((Ascii (true, true, true,
    false, false, true, true, false)), (String ((Ascii (true, false, false,
    false, false, true, true, false)), (String ((Ascii (false, false, true,
    false, true, true, true, false)), (String ((Ascii (true, false, false,
    true, false, true, true, false)), (String ((Ascii (true, true, true,
    true, false, true, true, false)), (String ((Ascii (false, true, true,
    true, false, true, true, false)), (String ((Ascii (true, true, true,
    true, true, false, true, false)), (String ((Ascii (true, true, true,
    true, false, true, true, false)), (String ((Ascii (false, true, true,
    false, false, true, true, false)), (String ((Ascii (true, true, true,
    true, true, false, true, false)), (String ((Ascii (true, true, false,
    false, true, true, true, false)), (String ((Ascii (true, false, true,
    false, true, true, true, false)), (String ((Ascii (true, false, true,
    true, false, true, true, false)),
    EmptyString)))))))))))))))))))))))))))))))))))))))))))))),
    reduce_negation_of_sum) :: [])

(** val reducers_Multiply : 'a1 numOps -> 'a1 rule list **)

let reducers_Multiply n =
  ((String ((Ascii (true, true, true, true, true, false, true, false)),
    (String ((Ascii (false, true, false, false, true, true, true, false)),
    (String ((Ascii (true, false, true, false, false, true, true, false)),
    (String ((Ascii (false, false, true, false, false, true, true, false)),
    (String ((Ascii (true, false, true, false, true, true, true, false)),
    (String ((Ascii (true, true, false, false, false, true, true, false)),
    (String ((Ascii (true, false, true, false, false, true, true, false)),
    (String ((Ascii (true, true, true, true, true, false, true, false)),
    (String ((Ascii (false, true, false, false, false, true, true, false)),
    (String ((Ascii (true, false, false, true, true, true, true, false)),
    (String ((Ascii (true, true, true, true, true, false, true, false)),
    (String ((Ascii (false, true, true, false, false, true, true, false)),
    (String ((Ascii (false, false, true, true, false, true, true, false)),
    (String ((Ascii (true, false, false, false, false, true, true, false)),
    (String ((Ascii (false, false, true, false, true, true, true, false)),
    (String ((Ascii (false, false, true, false, true, true, true, false)),
    (String ((Ascii (true, false, true, false, false, true, true, false)),
    (String ((Ascii (false, true, true, true, false, true, true, false)),
    (String ((Ascii (true, false, false, true, false, true, true, false)),
    (String ((Ascii (false, true, true, true, false, true, true, false)),
    (String ((Ascii (true, true, true, false, false, true, true, false)),
    (String ((Ascii (true, true, true, true, true, false, true, false)),
    (String ((Ascii (false, true, true, true, false, true, true, false)),
    (String ((Ascii (true, false, true, false, false, true, true, false)),
    (String ((Ascii (true, true, false, false, true, true, true, false)),
    (String ((Ascii (false, false, true, false, true, true, true, false)),
    (String ((Ascii (true, false, true, false, false, true, true, false)),
    (String ((Ascii (false, false, true, false, false, true, true, false)),
    (String ((Ascii (true, true, true, true, true, false, true, false)),
    (String ((Ascii (false, false, false, false, true, true, true, false)),
    (String ((Ascii (false, true, false, false, true, true, true, false)),
    (String ((Ascii (true, true, true, true, false, true, true, false)),
    (String ((Ascii (false, false, true, false, false, true, true, false)),
    (String ((Ascii (true, false, true, false, true, true, true, false)),
    (String ((Ascii (true, true, false, false, false, true, true, false)),
    (String ((Ascii (false, false, true, false, true, true, true, false)),
    (String ((Ascii (true, true, false, false, true, true, true, false)),
    EmptyString)))))))))))))))))))))))))))))))))))))))))))))))))))))))))))))))))))))))))),
    reduce_by_flattening_nested_products) :: (((String ((Ascii (true, true,
    true, true, true, false, true, false)), (String ((Ascii (false, true,
    false, false, true, true, true, false)), (String ((Ascii (true, false,
    true, false, false, true, true, false)), (String ((Ascii (false, false,
    true, false, false, true, true, false)), (String ((Ascii (true, false,
    true, false, true, true, true, false)), (String ((Ascii (true, true,
    false, false, false, true, true, false)), (String ((Ascii (true, false,
    true, false, false, true, true, false)), (String ((Ascii (true, true,
    true, true, true, false, true, false)), (String ((Ascii (false, false,
    false, false, true, true, true, false)), (String ((Ascii (false, true,
    false, false, true, true, true, false)), (String ((Ascii (true, true,
    true, true, false, true, true, false)), (String ((Ascii (false, false,
    true, false, false, true, true, false)), (String ((Ascii (true, false,
    true, false, true, true, true, false)), (String ((Ascii (true, true,
    false, false, false, true, true, false)), (String ((Ascii (false, false,
    true, false, true, true, true, false)), (String ((Ascii (true, true,
    true, true, true, false, true, false)), (String ((Ascii (true, true,
    true, false, true, true, true, false)), (String ((Ascii (false, false,
    false, true, false, true, true, false)), (String ((Ascii (true, false,
    true, false, false, true, true, false)), (String ((Ascii (false, true,
    true, true, false, true, true, false)), (String ((Ascii (true, true,
    true, true, true, false, true, false)), (String ((Ascii (true, false,
    true, true, false, true, true, false)), (String ((Ascii (true, false,
    true, false, true, true, true, false)), (String ((Ascii (false, false,
    true, true, false, true, true, false)), (String ((Ascii (false, false,
    true, false, true, true, true, false)), (String ((Ascii (true, false,
    false, true, false, true, true, false)), (String ((Ascii (false, false,
    false, false, true, true, true, false)), (String ((Ascii (false, false,
    true, true, false, true, true, false)), (String ((Ascii (true, false,
    false, true, true, true, true, false)), (String ((Ascii (true, false,
    false, true, false, true, true, false)), (String ((Ascii (false, true,
    true, true, false, true, true, false)), (String ((Ascii (true, true,
    true, false, false, true, true, false)), (String ((Ascii (true, true,
    true, true, true, false, true, false)), (String ((Ascii (false, true,
    false, false, false, true, true, false)), (String ((Ascii (true, false,
    false, true, true, true, true, false)), (String ((Ascii (true, true,
    true, true, true, false, true, false)), (String ((Ascii (false, true,
    false, true, true, true, true, false)), (String ((Ascii (true, false,
    true, false, false, true, true, false)), (String ((Ascii (false, true,
    false, false, true, true, true, false)), (String ((Ascii (true, true,
    true, true, false, true, true, false)),
    EmptyString)))))))))))))))))))))))))))))))))))))))))))))))))))))))))))))))))))))))))))))))),
    (reduce_product_when_multiplying_by_zero n)) :: (((String ((Ascii (true,
    true, true, true, true, false, true, false)), (String ((Ascii (false,
    true, false, false, true, true, true, false)), (String ((Ascii (true,
    false, true, false, false, true, true, false)), (String ((Ascii (false,
    false, true, false, false, true, true, false)), (String ((Ascii (true,
    false, true, false, true, true, true, false)), (String ((Ascii (true,
    true, false, false, false, true, true, false)), (String ((Ascii (true,
    false, true, false, false, true, true, false)), (String ((Ascii (true,
    true, true, true, true, false, true, false)), (String ((Ascii (false,
    false, false, false, true, true, true, false)), (String ((Ascii (false,
    true, false, false, true, true, true, false)), (String ((Ascii (true,
    true, true, true, false, true, true, false)), (String ((Ascii (false,
    false, true, false, false, true, true, false)), (String ((Ascii (true,
    false, true, false, true, true, true, false)), (String ((Ascii (true,
    true, false, false, false, true, true, false)), (String ((Ascii (false,
    false, true, false, true, true, true, false)), (String ((Ascii (true,
    true, true, true, true, false, true, false)), (String ((Ascii (false,
    true, false, false, false, true, true, false)), (String ((Ascii (true,
    false, false, true, true, true, true, false)), (String ((Ascii (true,
    true, true, true, true, false, true, false)), (String ((Ascii (true,
    false, true, false, false, true, true, false)), (String ((Ascii (false,
    false, true, true, false, true, true, false)), (String ((Ascii (true,
    false, false, true, false, true, true, false)), (String ((Ascii (true,
    false, true, true, false, true, true, false)), (String ((Ascii (true,
    false, false, true, false, true, true, false)), (String ((Ascii (false,
    true, true, true, false, true, true, false)), (String ((Ascii (true,
    false, false, false, false, true, true, false)), (String ((Ascii (false,
    false, true, false, true, true, true, false)), (String ((Ascii (true,
    false, false, true, false, true, true, false)), (String ((Ascii (false,
    true, true, true, false, true, true, false)), (String ((Ascii (true,
    true, true, false, false, true, true, false)), (String ((Ascii (true,
    true, true, true, true, false, true, false)), (String ((Ascii (true,
    true, true, true, false, true, true, false)), (String ((Ascii (false,
    true, true, true, false, true, true, false)), (String ((Ascii (true,
    false, true, false, false, true, true, false)), (String ((Ascii (true,
    true, false, false, true, true, true, false)),
    EmptyString)))))))))))))))))))))))))))))))))))))))))))))))))))))))))))))))))))))),
    (reduce_product_by_eliminating_ones n)) :: (((String ((Ascii (true, true,
    true, true, true, false, true, false)), (String ((Ascii (false, true,
    false, false, true, true, true, false)), (String ((Ascii (true, false,
    true, false, false, true, true, false)), (String ((Ascii (false, false,
    true, false, false, true, true, false)), (String ((Ascii (true, false,
    true, false, true, true, true, false)), (String ((Ascii (true, true,
    false, false, false, true, true, false)), (String ((Ascii (true, false,
    true, false, false, true, true, false)), (String ((Ascii (true, true,
    true, true, true, false, true, false)), (String ((Ascii (false, false,
    false, false, true, true, true, false)), (String ((Ascii (false, true,
    false, false, true, true, true, false)), (String ((Ascii (true, true,
    true, true, false, true, true, false)), (String ((Ascii (false, false,
    true, false, false, true, true, false)), (String ((Ascii (true, false,
    true, false, true, true, true, false)), (String ((Ascii (true, true,
    false, false, false, true, true, false)), (String ((Ascii (false, false,
    true, false, true, true, true, false)), (String ((Ascii (true, true,
    true, true, true, false, true, false)), (String ((Ascii (false, true,
    false, false, false, true, true, false)), (String ((Ascii (true, false,
    false, true, true, true, true, false)), (String ((Ascii (true, true,
    true, true, true, false, true, false)), (String ((Ascii (true, false,
    true, false, false, true, true, false)), (String ((Ascii (false, false,
    true, true, false, true, true, false)), (String ((Ascii (true, false,
    false, true, false, true, true, false)), (String ((Ascii (true, false,
    true, true, false, true, true, false)), (String ((Ascii (true, false,
    false, true, false, true, true, false)), (String ((Ascii (false, true,
    true, true, false, true, true, false)), (String ((Ascii (true, false,
    false, false, false, true, true, false)), (String ((Ascii (false, false,
    true, false, true, true, true, false)), (String ((Ascii (true, false,
    false, true, false, true, true, false)), (String ((Ascii (false, true,
    true, true, false, true, true, false)), (String ((Ascii (true, true,
    true, false, false, true, true, false)), (String ((Ascii (true, true,
    true, true, true, false, true, false)), (String ((Ascii (false, true,
    true, true, false, true, true, false)), (String ((Ascii (true, false,
    true, false, false, true, true, false)), (String ((Ascii (true, true,
    true, false, false, true, true, false)), (String ((Ascii (true, false,
    false, false, false, true, true, false)), (String ((Ascii (false, false,
    true, false, true, true, true, false)), (String ((Ascii (true, false,
    false, true, false, true, true, false)), (String ((Ascii (true, true,
    true, true, false, true, true, false)), (String ((Ascii (false, true,
    true, true, false, true, true, false)), (String ((Ascii (true, true,
    false, false, true, true, true, false)),
    EmptyString)))))))))))))))))))))))))))))))))))))))))))))))))))))))))))))))))))))))))))))))),
    (reduce_product_by_eliminating_negations n)) :: (((String ((Ascii (true,
    true, true, true, true, false, true, false)), (String ((Ascii (false,
    true, false, false, true, true, true, false)), (String ((Ascii (true,
    false, true, false, false, true, true, false)), (String ((Ascii (false,
    false, true, false, false, true, true, false)), (String ((Ascii (true,
    false, true, false, true, true, true, false)), (String ((Ascii (true,
    true, false, false, false, true, true, false)), (String ((Ascii (true,
    false, true, false, false, true, true, false)), (String ((Ascii (true,
    true, true, true, true, false, true, false)), (String ((Ascii (false,
    false, false, false, true, true, true, false)), (String ((Ascii (false,
    true, false, false, true, true, true, false)), (String ((Ascii (true,
    true, true, true, false, true, true, false)), (String ((Ascii (false,
    false, true, false, false, true, true, false)), (String ((Ascii (true,
    false, true, false, true, true, true, false)), (String ((Ascii (true,
    true, false, false, false, true, true, false)), (String ((Ascii (false,
    false, true, false, true, true, true, false)), (String ((Ascii (true,
    true, true, true, true, false, true, false)), (String ((Ascii (false,
    true, false, false, false, true, true, false)), (String ((Ascii (true,
    false, false, true, true, true, true, false)), (String ((Ascii (true,
    true, true, true, true, false, true, false)), (String ((Ascii (true,
    true, false, false, false, true, true, false)), (String ((Ascii (true,
    true, true, true, false, true, true, false)), (String ((Ascii (false,
    true, true, true, false, true, true, false)), (String ((Ascii (true,
    true, false, false, true, true, true, false)), (String ((Ascii (true,
    true, true, true, false, true, true, false)), (String ((Ascii (false,
    false, true, true, false, true, true, false)), (String ((Ascii (true,
    false, false, true, false, true, true, false)), (String ((Ascii (false,
    false, true, false, false, true, true, false)), (String ((Ascii (true,
    false, false, false, false, true, true, false)), (String ((Ascii (false,
    false, true, false, true, true, true, false)), (String ((Ascii (true,
    false, false, true, false, true, true, false)), (String ((Ascii (false,
    true, true, true, false, true, true, false)), (String ((Ascii (true,
    true, true, false, false, true, true, false)), (String ((Ascii (true,
    true, true, true, true, false, true, false)), (String ((Ascii (false,
    true, true, true, false, true, true, false)), (String ((Ascii (false,
    false, true, false, true, true, true, false)), (String ((Ascii (false,
    false, false, true, false, true, true, false)), (String ((Ascii (true,
    true, true, true, true, false, true, false)), (String ((Ascii (false,
    false, false, false, true, true, true, false)), (String ((Ascii (true,
    true, true, true, false, true, true, false)), (String ((Ascii (true,
    true, true, false, true, true, true, false)), (String ((Ascii (true,
    false, true, false, false, true, true, false)), (String ((Ascii (false,
    true, false, false, true, true, true, false)), (String ((Ascii (true,
    true, false, false, true, true, true, false)),
    EmptyString)))))))))))))))))))))))))))))))))))))))))))))))))))))))))))))))))))))))))))))))))))))),
    reduce_product_by_consolidating_nth_powers) :: (((String ((Ascii (true,
    true, true, true, true, false, true, false)), (String ((Ascii (false,
    true, false, false, true, true, true, false)), (String ((Ascii (true,
    false, true, false, false, true, true, false)), (String ((Ascii (false,
    false, true, false, false, true, true, false)), (String ((Ascii (true,
    false, true, false, true, true, true, false)), (String ((Ascii (true,
    true, false, false, false, true, true, false)), (String ((Ascii (true,
    false, true, false, false, true, true, false)), (String ((Ascii (true,
    true, true, true, true, false, true, false)), (String ((Ascii (false,
    false, false, false, true, true, true, false)), (String ((Ascii (false,
    true, false, false, true, true, true, false)), (String ((Ascii (true,
    true, true, true, false, true, true, false)), (String ((Ascii (false,
    false, true, false, false, true, true, false)), (String ((Ascii (true,
    false, true, false, true, true, true, false)), (String ((Ascii (true,
    true, false, false, false, true, true, false)), (String ((Ascii (false,
    false, true, false, true, true, true, false)), (String ((Ascii (true,
    true, true, true, true, false, true, false)), (String ((Ascii (false,
    true, false, false, false, true, true, false)), (String ((Ascii (true,
    false, false, true, true, true, true, false)), (String ((Ascii (true,
    true, true, true, true, false, true, false)), (String ((Ascii (true,
    true, false, false, false, true, true, false)), (String ((Ascii (true,
    true, true, true, false, true, true, false)), (String ((Ascii (false,
    true, true, true, false, true, true, false)), (String ((Ascii (true,
    true, false, false, true, true, true, false)), (String ((Ascii (true,
    true, true, true, false, true, true, false)), (String ((Ascii (false,
    false, true, true, false, true, true, false)), (String ((Ascii (true,
    false, false, true, false, true, true, false)), (String ((Ascii (false,
    false, true, false, false, true, true, false)), (String ((Ascii (true,
    false, false, false, false, true, true, false)), (String ((Ascii (false,
    false, true, false, true, true, true, false)), (String ((Ascii (true,
    false, false, true, false, true, true, false)), (String ((Ascii (false,
    true, true, true, false, true, true, false)), (String ((Ascii (true,
    true, true, false, false, true, true, false)), (String ((Ascii (true,
    true, true, true, true, false, true, false)), (String ((Ascii (false,
    true, true, true, false, true, true, false)), (String ((Ascii (false,
    false, true, false, true, true, true, false)), (String ((Ascii (false,
    false, false, true, false, true, true, false)), (String ((Ascii (true,
    true, true, true, true, false, true, false)), (String ((Ascii (false,
    true, false, false, true, true, true, false)), (String ((Ascii (true,
    true, true, true, false, true, true, false)), (String ((Ascii (true,
    true, true, true, false, true, true, false)), (String ((Ascii (false,
    false, true, false, true, true, true, false)), (String ((Ascii (true,
    true, false, false, true, true, true, false)),
    EmptyString)))))))))))))))))))))))))))))))))))))))))))))))))))))))))))))))))))))))))))))))))))),
    reduce_product_by_consolidating_nth_roots) :: (((String ((Ascii (true,
    true, true, true, true, false, true, false)), (String ((Ascii (false,
    true, false, false, true, true, true, false)), (String ((Ascii (true,
    false, true, false, false, true, true, false)), (String ((Ascii (false,
    false, true, false, false, true, true, false)), (String ((Ascii (true,
    false, true, false, true, true, true, false)), (String ((Ascii (true,
    true, false, false, false, true, true, false)), (String ((Ascii (true,
    false, true, false, false, true, true, false)), (String ((Ascii (true,
    true, true, true, true, false, true, false)), (String ((Ascii (false,
    false, false, false, true, true, true, false)), (String ((Ascii (false,
    true, false, false, true, true, true, false)), (String ((Ascii (true,
    true, true, true, false, true, true, false)), (String ((Ascii (false,
    false, true, false, false, true, true, false)), (String ((Ascii (true,
    false, true, false, true, true, true, false)), (String ((Ascii (true,
    true, false, false, false, true, true, false)), (String ((Ascii (false,
    false, true, false, true, true, true, false)), (String ((Ascii (true,
    true, true, true, true, false, true, false)), (String ((Ascii (false,
    true, false, false, false, true, true, false)), (String ((Ascii (true,
    false, false, true, true, true, true, false)), (String ((Ascii (true,
    true, true, true, true, false, true, false)), (String ((Ascii (true,
    true, false, false, false, true, true, false)), (String ((Ascii (true,
    true, true, true, false, true, true, false)), (String ((Ascii (false,
    true, true, true, false, true, true, false)), (String ((Ascii (true,
    true, false, false, true, true, true, false)), (String ((Ascii (true,
    true, true, true, false, true, true, false)), (String ((Ascii (false,
    false, true, true, false, true, true, false)), (String ((Ascii (true,
    false, false, true, false, true, true, false)), (String ((Ascii (false,
    false, true, false, false, true, true, false)), (String ((Ascii (true,
    false, false, false, false, true, true, false)), (String ((Ascii (false,
    false, true, false, true, true, true, false)), (String ((Ascii (true,
    false, false, true, false, true, true, false)), (String ((Ascii (false,
    true, true, true, false, true, true, false)), (String ((Ascii (true,
    true, true, false, false, true, true, false)), (String ((Ascii (true,
    true, true, true, true, false, true, false)), (String ((Ascii (true,
    false, true, false, false, true, true, false)), (String ((Ascii (false,
    false, false, true, true, true, true, false)), (String ((Ascii (false,
    false, false, false, true, true, true, false)), (String ((Ascii (true,
    true, true, true, false, true, true, false)), (String ((Ascii (false,
    true, true, true, false, true, true, false)), (String ((Ascii (true,
    false, true, false, false, true, true, false)), (String ((Ascii (false,
    true, true, true, false, true, true, false)), (String ((Ascii (false,
    false, true, false, true, true, true, false)), (String ((Ascii (true,
    false, false, true, false, true, true, false)), (String ((Ascii (true,
    false, false, false, false, true, true, false)), (String ((Ascii (false,
    false, true, true, false, true, true, false)), (String ((Ascii (true,
    true, false, false, true, true, true, false)),
    EmptyString)))))))))))))))))))))))))))))))))))))))))))))))))))))))))))))))))))))))))))))))))))))))))),
    (reduce_product_by_consolidating_exponentials n)) :: (((String ((Ascii
    (true, true, true, true, true, false, true, false)), (String ((Ascii
    (false, true, false, false, true, true, true, false)), (String ((Ascii
    (true, false, true, false, false, true, true, false)), (String ((Ascii
    (false, false, true, false, false, true, true, false)), (String ((Ascii
    (true, false, true, false, true, true, true, false)), (String ((Ascii
    (true, true, false, false, false, true, true, false)), (String ((Ascii
    (true, false, true, false, false, true, true, false)), (String ((Ascii
    (true, true, true, true, true, false, true, false)), (String ((Ascii
    (false, false, false, false, true, true, true, false)), (String ((Ascii
    (false, true, false, false, true, true, true, false)), (String ((Ascii
    (true, true, true, true, false, true, true, false)), (String ((Ascii
    (false, false, true, false, false, true, true, false)), (String ((Ascii
    (true, false, true, false, true, true, true, false)), (String ((Ascii
    (true, true, false, false, false, true, true, false)), (String ((Ascii
    (false, false, true, false, true, true, true, false)), (String ((Ascii
    (true, true, true, true, true, false, true, false)), (String ((Ascii
    (false, true, false, false, false, true, true, false)), (String ((Ascii
    (true, false, false, true, true, true, true, false)), (String ((Ascii
    (true, true, true, true, true, false, true, false)), (String ((Ascii
    (true, true, false, false, false, true, true, false)), (String ((Ascii
    (true, true, true, true, false, true, true, false)), (String ((Ascii
    (false, true, true, true, false, true, true, false)), (String ((Ascii
    (true, true, false, false, true, true, true, false)), (String ((Ascii
    (true, true, true, true, false, true, true, false)), (String ((Ascii
    (false, false, true, true, false, true, true, false)), (String ((Ascii
    (true, false, false, true, false, true, true, false)), (String ((Ascii
    (false, false, true, false, false, true, true, false)), (String ((Ascii
    (true, false, false, false, false, true, true, false)), (String ((Ascii
    (false, false, true, false, true, true, true, false)), (String ((Ascii
    (true, false, false, true, false, true, true, false)), (String ((Ascii
    (false, true, true, true, false, true, true, false)), (String ((Ascii
    (true, true, true, false, false, true, true, false)), (String ((Ascii
    (true, true, true, true, true, false, true, false)), (String ((Ascii
    (true, true, false, false, false, true, true, false)), (String ((Ascii
    (true, true, true, true, false, true, true, false)), (String ((Ascii
    (false, true, true, true, false, true, true, false)), (String ((Ascii
    (true, true, false, false, true, true, true, false)), (String ((Ascii
    (false, false, true, false, true, true, true, false)), (String ((Ascii
    (true, false, false, false, false, true, true, false)), (String ((Ascii
    (false, true, true, true, false, true, true, false)), (String ((Ascii
    (false, false, true, false, true, true, true, false)), (String ((Ascii
    (true, true, false, false, true, true, true, false)),
    EmptyString)))))))))))))))))))))))))))))))))))))))))))))))))))))))))))))))))))))))))))))))))))),
    (reduce_product_by_consolidating_constants n)) :: [])))))))

(** val reducers_Divide : 'a1 rule list **)

let reducers_Divide =
  ((String ((Ascii (true, true, true, true, true, false, true, false)),
    (String ((Ascii (false, true, false, false, true, true, true, false)),
    (String ((Ascii (true, false, true, false, false, true, true, false)),
    (String ((Ascii (false, false, true, false, false, true, true, false)),
    (String ((Ascii (true, false, true, false, true, true, true, false)),
    (String ((Ascii (true, true, false, false, false, true, true, false)),
    (String ((Ascii (true, false, true, false, false, true, true, false)),
    (String ((Ascii (true, true, true, true, true, false, true, false)),
    (String ((Ascii (false, false, true, false, false, true, true, false)),
    (String ((Ascii (true, false, false, true, false, true, true, false)),
    (String ((Ascii (false, true, true, false, true, true, true, false)),
    (String ((Ascii (true, false, false, true, false, true, true, false)),
    (String ((Ascii (false, false, true, false, false, true, true, false)),
    (String ((Ascii (true, false, true, false, false, true, true, false)),
    (String ((Ascii (true, true, true, true, true, false, true, false)),
    (String ((Ascii (false, false, true, false, true, true, true, false)),
    (String ((Ascii (true, true, true, true, false, true, true, false)),
    (String ((Ascii (true, true, true, true, true, false, true, false)),
    (String ((Ascii (true, false, true, true, false, true, true, false)),
    (String ((Ascii (true, false, true, false, true, true, true, false)),
    (String ((Ascii (false, false, true, true, false, true, true, false)),
    (String ((Ascii (false, false, true, false, true, true, true, false)),
    (String ((Ascii (true, false, false, true, false, true, true, false)),
    (String ((Ascii (false, false, false, false, true, true, true, false)),
    (String ((Ascii (false, false, true, true, false, true, true, false)),
    (String ((Ascii (true, false, false, true, true, true, true, false)),
    (String ((Ascii (true, false, false, true, false, true, true, false)),
    (String ((Ascii (false, true, true, true, false, true, true, false)),
    (String ((Ascii (true, true, true, false, false, true, true, false)),
    (String ((Ascii (true, true, true, true, true, false, true, false)),
    (String ((Ascii (true, true, true, false, true, true, true, false)),
    (String ((Ascii (true, false, false, true, false, true, true, false)),
    (String ((Ascii (false, false, true, false, true, true, true, false)),
    (String ((Ascii (false, false, false, true, false, true, true, false)),
    (String ((Ascii (true, true, true, true, true, false, true, false)),
    (String ((Ascii (false, true, false, false, true, true, true, false)),
    (String ((Ascii (true, false, true, false, false, true, true, false)),
    (String ((Ascii (true, true, false, false, false, true, true, false)),
    (String ((Ascii (true, false, false, true, false, true, true, false)),
    (String ((Ascii (false, false, false, false, true, true, true, false)),
    (String ((Ascii (false, true, false, false, true, true, true, false)),
    (String ((Ascii (true, true, true, true, false, true, true, false)),
    (String ((Ascii (true, true, false, false, false, true, true, false)),
    (String ((Ascii (true, false, false, false, false, true, true, false)),
    (String ((Ascii (false, false, true, true, false, true, true, false)),
    EmptyString)))))))))))))))))))))))))))))))))))))))))))))))))))))))))))))))))))))))))))))))))))))))))),
    reduce_divide_to_multiplying_with_reciprocal) :: []

(** val reducers_Reciprocal : 'a1 rule list **)

let reducers_Reciprocal =
  ((String ((Ascii (true, true, true, true, true, false, true, false)),
    (String ((Ascii (false, true, false, false, true, true, true, false)),
    (String ((Ascii (true, false, true, false, false, true, true, false)),
    (String ((Ascii (false, false, true, false, false, true, true, false)),
    (String ((Ascii (true, false, true, false, true, true, true, false)),
    (String ((Ascii (true, true, false, false, false, true, true, false)),
    (String ((Ascii (true, false, true, false, false, true, true, false)),
    (String ((Ascii (true, true, true, true, true, false, true, false)),
    (String ((Ascii (false, true, false, false, true, true, true, false)),
    (String ((Ascii (true, false, true, false, false, true, true, false)),
    (String ((Ascii (true, true, false, false, false, true, true, false)),
    (String ((Ascii (true, false, false, true, false, true, true, false)),
    (String ((Ascii (false, false, false, false, true, true, true, false)),
    (String ((Ascii (false, true, false, false, true, true, true, false)),
    (String ((Ascii (true, true, true, true, false, true, true, false)),
    (String ((Ascii (true, true, false, false, false, true, true, false)),
    (String ((Ascii (true, false, false, false, false, true, true, false)),
    (String ((Ascii (false, false, true, true, false, true, true, false)),
    (String ((Ascii (true, true, true, true, true, false, true, false)),
    (String ((Ascii (true, true, true, true, false, true, true, false)),
    (String ((Ascii (false, true, true, false, false, true, true, false)),
    (String ((Ascii (true, true, true, true, true, false, true, false)),
    (String ((Ascii (false, true, false, false, true, true, true, false)),
    (String ((Ascii (true, false, true, false, false, true, true, false)),
    (String ((Ascii (true, true, false, false, false, true, true, false)),
    (String ((Ascii (true, false, false, true, false, true, true, false)),
    (String ((Ascii (false, false, false, false, true, true, true, false)),
    (String ((Ascii (false, true, false, false, true, true, true, false)),
    (String ((Ascii (true, true, true, true, false, true, true, false)),
    (String ((Ascii (true, true, false, false, false, true, true, false)),
    (String ((Ascii (true, false, false, false, false, true, true, false)),
    (String ((Ascii (false, false, true, true, false, true, true, false)),
    EmptyString)))))))))))))))))))))))))))))))))))))))))))))))))))))))))))))))),
    reduce_reciprocal_of_reciprocal) :: (((String ((Ascii (true, true, true,
    true, true, false, true, false)), (String ((Ascii (false, true, false,
    false, true, true, true, false)), (String ((Ascii (true, false, true,
    false, false, true, true, false)), (String ((Ascii (false, false, true,
    false, false, true, true, false)), (String ((Ascii (true, false, true,
    false, true, true, true, false)), (String ((Ascii (true, true, false,
    false, false, true, true, false)), (String ((Ascii (true, false, true,
    false, false, true, true, false)), (String ((Ascii (true, true, true,
    true, true, false, true, false)), (String ((Ascii (false, true, false,
    false, true, true, true, false)), (String ((Ascii (true, false, true,
    false, false, true, true, false)), (String ((Ascii (true, true, false,
    false, false, true, true, false)), (String ((Ascii (true, false, false,
    true, false, true, true, false)), (String ((Ascii (false, false, false,
    false, true, true, true, false)), (String ((Ascii (false, true, false,
    false, true, true, true, false)), (String ((Ascii (true, true, true,
    true, false, true, true, false)), (String ((Ascii (true, true, false,
    false, false, true, true, false)), (String ((Ascii (true, false, false,
    false, false, true, true, false)), (String ((Ascii (false, false, true,
    true, false, true, true, false)), (String ((Ascii (true, true, true,
    true, true, false, true, false)), (String ((Ascii (true, true, true,
    true, false, true, true, false)), (String ((Ascii (false, true, true,
    false, false, true, true, false)), (String ((Ascii (true, true, true,
    true, true, false, true, false)), (String ((Ascii (false, true, true,
    true, false, true, true, false)), (String ((Ascii (true, false, true,
    false, false, true, true, false)), (String ((Ascii (true, true, true,
    false, false, true, true, false)), (String ((Ascii (true, false, false,
    false, false, true, true, false)), (String ((Ascii (false, false, true,
    false, true, true, true, false)), (String ((Ascii (true, false, false,
    true, false, true, true, false)), (String ((Ascii (true, true, true,
    true, false, true, true, false)), (String ((Ascii (false, true, true,
    true, false, true, true, false)),
    EmptyString)))))))))))))))))))))))))))))))))))))))))))))))))))))))))))),
    reduce_reciprocal_of_negation) :: (((String ((Ascii (true, true, true,
    true, true, false, true, false)), (String ((Ascii (false, true, false,
    false, true, true, true, false)), (String ((Ascii (true, false, true,
    false, false, true, true, false)), (String ((Ascii (false, false, true,
    false, false, true, true, false)), (String ((Ascii (true, false, true,
    false, true, true, true, false)), (String ((Ascii (true, true, false,
    false, false, true, true, false)), (String ((Ascii (true, false, true,
    false, false, true, true, false)), (String ((Ascii (true, true, true,
    true, true, false, true, false)), (String ((Ascii (false, true, false,
    false, true, true, true, false)), (String ((Ascii (true, false, true,
    false, false, true, true, false)), (String ((Ascii (true, true, false,
    false, false, true, true, false)), (String ((Ascii (true, false, false,
    true, false, true, true, false)), (String ((Ascii (false, false, false,
    false, true, true, true, false)), (String ((Ascii (false, true, false,
    false, true, true, true, false)), (String ((Ascii (true, true, true,
    true, false, true, true, false)), (String ((Ascii (true, true, false,
    false, false, true, true, false)), (String ((Ascii (true, false, false,
    false, false, true, true, false)), (String ((Ascii (false, false, true,
    true, false, true, true, false)), (String ((Ascii (true, true, true,
    true, true, false, true, false)), (String ((Ascii (true, true, true,
    true, false, true, true, false)), (String ((Ascii (false, true, true,
    false, false, true, true, false)), (String ((Ascii (true, true, true,
    true, true, false, true, false)), (String ((Ascii (false, false, false,
    false, true, true, true, false)), (String ((Ascii (false, true, false,
    false, true, true, true, false)), (String ((Ascii (true, true, true,
    true, false, true, true, false)), (String ((Ascii (false, false, true,
    false, false, true, true, false)), (String ((Ascii (true, false, true,
    false, true, true, true, false)), (String ((Ascii (true, true, false,
    false, false, true, true, false)), (String ((Ascii (false, false, true,
    false, true, true, true, false)),
    EmptyString)))))))))))))))))))))))))))))))))))))))))))))))))))))))))),
    reduce_reciprocal_of_product) :: []))

(** val reducers_Power : 'a1 numOps -> 'a1 rule list **)

let reducers_Power n =
  ((String ((Ascii (true, true, true, true, true, false, true, false)),
    (String ((Ascii (false, true, false, false, true, true, true, false)),
    (String ((Ascii (true, false, true, false, false, true, true, false)),
    (String ((Ascii (false, false, true, false, false, true, true, false)),
    (String ((Ascii (true, false, true, false, true, true, true, false)),
    (String ((Ascii (true, true, false, false, false, true, true, false)),
    (String ((Ascii (true, false, true, false, false, true, true, false)),
    (String ((Ascii (true, true, true, true, true, false, true, false)),
    (String ((Ascii (true, false, true, false, true, true, true, false)),
    (String ((Ascii (true, true, true, true, true, false, true, false)),
    (String ((Ascii (false, false, true, false, true, true, true, false)),
    (String ((Ascii (true, true, true, true, false, true, true, false)),
    (String ((Ascii (true, true, true, true, true, false, true, false)),
    (String ((Ascii (false, false, true, false, true, true, true, false)),
    (String ((Ascii (false, false, false, true, false, true, true, false)),
    (String ((Ascii (true, false, true, false, false, true, true, false)),
    (String ((Ascii (true, true, true, true, true, false, true, false)),
    (String ((Ascii (true, true, true, true, false, true, true, false)),
    (String ((Ascii (false, true, true, true, false, true, true, false)),
    (String ((Ascii (true, false, true, false, false, true, true, false)),
    EmptyString)))))))))))))))))))))))))))))))))))))))),
    (reduce_u_to_the_one n)) :: (((String ((Ascii (true, true, true, true,
    true, false, true, false)), (String ((Ascii (false, true, false, false,
    true, true, true, false)), (String ((Ascii (true, false, true, false,
    false, true, true, false)), (String ((Ascii (false, false, true, false,
    false, true, true, false)), (String ((Ascii (true, false, true, false,
    true, true, true, false)), (String ((Ascii (true, true, false, false,
    false, true, true, false)), (String ((Ascii (true, false, true, false,
    false, true, true, false)), (String ((Ascii (true, true, true, true,
    true, false, true, false)), (String ((Ascii (true, false, true, false,
    true, true, true, false)), (String ((Ascii (true, true, true, true, true,
    false, true, false)), (String ((Ascii (false, false, true, false, true,
    true, true, false)), (String ((Ascii (true, true, true, true, false,
    true, true, false)), (String ((Ascii (true, true, true, true, true,
    false, true, false)), (String ((Ascii (false, false, true, false, true,
    true, true, false)), (String ((Ascii (false, false, false, true, false,
    true, true, false)), (String ((Ascii (true, false, true, false, false,
    true, true, false)), (String ((Ascii (true, true, true, true, true,
    false, true, false)), (String ((Ascii (false, true, false, true, true,
    true, true, false)), (String ((Ascii (true, false, true, false, false,
    true, true, false)), (String ((Ascii (false, true, false, false, true,
    true, true, false)), (String ((Ascii (true, true, true, true, false,
    true, true, false)),
    EmptyString)))))))))))))))))))))))))))))))))))))))))),
    (reduce_u_to_the_zero n)) :: (((String ((Ascii (true, true, true, true,
    true, false, true, false)), (String ((Ascii (false, true, false, false,
    true, true, true, false)), (String ((Ascii (true, false, true, false,
    false, true, true, false)), (String ((Ascii (false, false, true, false,
    false, true, true, false)), (String ((Ascii (true, false, true, false,
    true, true, true, false)), (String ((Ascii (true, true, false, false,
    false, true, true, false)), (String ((Ascii (true, false, true, false,
    false, true, true, false)), (String ((Ascii (true, true, true, true,
    true, false, true, false)), (String ((Ascii (true, true, true, true,
    false, true, true, false)), (String ((Ascii (false, true, true, true,
    false, true, true, false)), (String ((Ascii (true, false, true, false,
    false, true, true, false)), (String ((Ascii (true, true, true, true,
    true, false, true, false)), (String ((Ascii (false, false, true, false,
    true, true, true, false)), (String ((Ascii (true, true, true, true,
    false, true, true, false)), (String ((Ascii (true, true, true, true,
    true, false, true, false)), (String ((Ascii (false, false, true, false,
    true, true, true, false)), (String ((Ascii (false, false, false, true,
    false, true, true, false)), (String ((Ascii (true, false, true, false,
    false, true, true, false)), (String ((Ascii (true, true, true, true,
    true, false, true, false)), (String ((Ascii (true, false, true, false,
    true, true, true, false)),
    EmptyString)))))))))))))))))))))))))))))))))))))))),
    (reduce_one_to_the_u n)) :: (((String ((Ascii (true, true, true, true,
    true, false, true, false)), (String ((Ascii (false, true, false, false,
    true, true, true, false)), (String ((Ascii (true, false, true, false,
    false, true, true, false)), (String ((Ascii (false, false, true, false,
    false, true, true, false)), (String ((Ascii (true, false, true, false,
    true, true, true, false)), (String ((Ascii (true, true, false, false,
    false, true, true, false)), (String ((Ascii (true, false, true, false,
    false, true, true, false)), (String ((Ascii (true, true, true, true,
    true, false, true, false)), (String ((Ascii (true, false, true, false,
    true, true, true, false)), (String ((Ascii (true, true, true, true, true,
    false, true, false)), (String ((Ascii (false, false, true, false, true,
    true, true, false)), (String ((Ascii (true, true, true, true, false,
    true, true, false)), (String ((Ascii (true, true, true, true, true,
    false, true, false)), (String ((Ascii (false, false, true, false, true,
    true, true, false)), (String ((Ascii (false, false, false, true, false,
    true, true, false)), (String ((Ascii (true, false, true, false, false,
    true, true, false)), (String ((Ascii (true, true, true, true, true,
    false, true, false)), (String ((Ascii (false, true, true, true, false,
    true, true, false)), (String ((Ascii (true, true, true, true, true,
    false, true, false)), (String ((Ascii (true, false, false, false, false,
    true, true, false)), (String ((Ascii (false, false, true, false, true,
    true, true, false)), (String ((Ascii (true, true, true, true, true,
    false, true, false)), (String ((Ascii (false, false, true, true, false,
    true, true, false)), (String ((Ascii (true, false, true, false, false,
    true, true, false)), (String ((Ascii (true, false, false, false, false,
    true, true, false)), (String ((Ascii (true, true, false, false, true,
    true, true, false)), (String ((Ascii (false, false, true, false, true,
    true, true, false)), (String ((Ascii (true, true, true, true, true,
    false, true, false)), (String ((Ascii (false, false, true, false, true,
    true, true, false)), (String ((Ascii (true, true, true, false, true,
    true, true, false)), (String ((Ascii (true, true, true, true, false,
    true, true, false)),
    EmptyString)))))))))))))))))))))))))))))))))))))))))))))))))))))))))))))),
    (reduce_u_to_the_n_at_least_two n)) :: (((String ((Ascii (true, true,
    true, true, true, false, true, false)), (String ((Ascii (false, true,
    false, false, true, true, true, false)), (String ((Ascii (true, false,
    true, false, false, true, true, false)), (String ((Ascii (false, false,
    true, false, false, true, true, false)), (String ((Ascii (true, false,
    true, false, true, true, true, false)), (String ((Ascii (true, true,
    false, false, false, true, true, false)), (String ((Ascii (true, false,
    true, false, false, true, true, false)), (String ((Ascii (true, true,
    true, true, true, false, true, false)), (String ((Ascii (true, false,
    true, false, true, true, true, false)), (String ((Ascii (true, true,
    true, true, true, false, true, false)), (String ((Ascii (false, false,
    true, false, true, true, true, false)), (String ((Ascii (true, true,
    true, true, false, true, true, false)), (String ((Ascii (true, true,
    true, true, true, false, true, false)), (String ((Ascii (false, false,
    true, false, true, true, true, false)), (String ((Ascii (false, false,
    false, true, false, true, true, false)), (String ((Ascii (true, false,
    true, false, false, true, true, false)), (String ((Ascii (true, true,
    true, true, true, false, true, false)), (String ((Ascii (false, true,
    true, true, false, true, true, false)), (String ((Ascii (true, false,
    true, false, false, true, true, false)), (String ((Ascii (true, true,
    true, false, false, true, true, false)), (String ((Ascii (true, false,
    false, false, false, true, true, false)), (String ((Ascii (false, false,
    true, false, true, true, true, false)), (String ((Ascii (true, false,
    false, true, false, true, true, false)), (String ((Ascii (false, true,
    true, false, true, true, true, false)), (String ((Ascii (true, false,
    true, false, false, true, true, false)), (String ((Ascii (true, true,
    true, true, true, false, true, false)), (String ((Ascii (true, true,
    true, true, false, true, true, false)), (String ((Ascii (false, true,
    true, true, false, true, true, false)), (String ((Ascii (true, false,
    true, false, false, true, true, false)),
    EmptyString)))))))))))))))))))))))))))))))))))))))))))))))))))))))))),
    (reduce_u_to_the_negative_one n)) :: (((String ((Ascii (true, true, true,
    true, true, false, true, false)), (String ((Ascii (false, true, false,
    false, true, true, true, false)), (String ((Ascii (true, false, true,
    false, false, true, true, false)), (String ((Ascii (false, false, true,
    false, false, true, true, false)), (String ((Ascii (true, false, true,
    false, true, true, true, false)), (String ((Ascii (true, true, false,
    false, false, true, true, false)), (String ((Ascii (true, false, true,
    false, false, true, true, false)), (String ((Ascii (true, true, true,
    true, true, false, true, false)), (String ((Ascii (false, false, false,
    false, true, true, true, false)), (String ((Ascii (true, true, true,
    true, false, true, true, false)), (String ((Ascii (true, true, true,
    false, true, true, true, false)), (String ((Ascii (true, false, true,
    false, false, true, true, false)), (String ((Ascii (false, true, false,
    false, true, true, true, false)), (String ((Ascii (true, true, true,
    true, true, false, true, false)), (String ((Ascii (true, true, true,
    false, true, true, true, false)), (String ((Ascii (true, false, false,
    true, false, true, true, false)), (String ((Ascii (false, false, true,
    false, true, true, true, false)), (String ((Ascii (false, false, false,
    true, false, true, true, false)), (String ((Ascii (true, true, true,
    true, true, false, true, false)), (String ((Ascii (true, true, false,
    false, false, true, true, false)), (String ((Ascii (true, true, true,
    true, false, true, true, false)), (String ((Ascii (false, true, true,
    true, false, true, true, false)), (String ((Ascii (true, true, false,
    false, true, true, true, false)), (String ((Ascii (false, false, true,
    false, true, true, true, false)), (String ((Ascii (true, false, false,
    false, false, true, true, false)), (String ((Ascii (false, true, true,
    true, false, true, true, false)), (String ((Ascii (false, false, true,
    false, true, true, true, false)), (String ((Ascii (true, true, true,
    true, true, false, true, false)), (String ((Ascii (false, true, false,
    false, false, true, true, false)), (String ((Ascii (true, false, false,
    false, false, true, true, false)), (String ((Ascii (true, true, false,
    false, true, true, true, false)), (String ((Ascii (true, false, true,
    false, false, true, true, false)),
    EmptyString)))))))))))))))))))))))))))))))))))))))))))))))))))))))))))))))),
    (reduce_power_with_constant_base n)) :: (((String ((Ascii (true, true,
    true, true, true, false, true, false)), (String ((Ascii (false, true,
    false, false, true, true, true, false)), (String ((Ascii (true, false,
    true, false, false, true, true, false)), (String ((Ascii (false, false,
    true, false, false, true, true, false)), (String ((Ascii (true, false,
    true, false, true, true, true, false)), (String ((Ascii (true, true,
    false, false, false, true, true, false)), (String ((Ascii (true, false,
    true, false, false, true, true, false)), (String ((Ascii (true, true,
    true, true, true, false, true, false)), (String ((Ascii (false, false,
    false, false, true, true, true, false)), (String ((Ascii (true, true,
    true, true, false, true, true, false)), (String ((Ascii (true, true,
    true, false, true, true, true, false)), (String ((Ascii (true, false,
    true, false, false, true, true, false)), (String ((Ascii (false, true,
    false, false, true, true, true, false)), (String ((Ascii (true, true,
    true, true, true, false, true, false)), (String ((Ascii (true, true,
    true, true, false, true, true, false)), (String ((Ascii (false, true,
    true, false, false, true, true, false)), (String ((Ascii (true, true,
    true, true, true, false, true, false)), (String ((Ascii (false, false,
    false, false, true, true, true, false)), (String ((Ascii (true, true,
    true, true, false, true, true, false)), (String ((Ascii (true, true,
    true, false, true, true, true, false)), (String ((Ascii (true, false,
    true, false, false, true, true, false)), (String ((Ascii (false, true,
    false, false, true, true, true, false)),
    EmptyString)))))))))))))))))))))))))))))))))))))))))))),
    reduce_power_of_power) :: (((String ((Ascii (true, true, true, true,
    true, false, true, false)), (String ((Ascii (false, true, false, false,
    true, true, true, false)), (String ((Ascii (true, false, true, false,
    false, true, true, false)), (String ((Ascii (false, false, true, false,
    false, true, true, false)), (String ((Ascii (true, false, true, false,
    true, true, true, false)), (String ((Ascii (true, true, false, false,
    false, true, true, false)), (String ((Ascii (true, false, true, false,
    false, true, true, false)), (String ((Ascii (true, true, true, true,
    true, false, true, false)), (String ((Ascii (true, false, true, false,
    true, true, true, false)), (String ((Ascii (true, true, true, true, true,
    false, true, false)), (String ((Ascii (false, false, true, false, true,
    true, true, false)), (String ((Ascii (true, true, true, true, false,
    true, true, false)), (String ((Ascii (true, true, true, true, true,
    false, true, false)), (String ((Ascii (false, false, true, false, true,
    true, true, false)), (String ((Ascii (false, false, false, true, false,
    true, true, false)), (String ((Ascii (true, false, true, false, false,
    true, true, false)), (String ((Ascii (true, true, true, true, true,
    false, true, false)), (String ((Ascii (false, true, true, true, false,
    true, true, false)), (String ((Ascii (true, false, true, false, false,
    true, true, false)), (String ((Ascii (true, true, true, false, false,
    true, true, false)), (String ((Ascii (true, false, false, false, false,
    true, true, false)), (String ((Ascii (false, false, true, false, true,
    true, true, false)), (String ((Ascii (true, false, false, true, false,
    true, true, false)), (String ((Ascii (true, true, true, true, false,
    true, true, false)), (String ((Ascii (false, true, true, true, false,
    true, true, false)), (String ((Ascii (true, true, true, true, true,
    false, true, false)), (String ((Ascii (true, true, true, true, false,
    true, true, false)), (String ((Ascii (false, true, true, false, false,
    true, true, false)), (String ((Ascii (true, true, true, true, true,
    false, true, false)), (String ((Ascii (false, true, true, false, true,
    true, true, false)),
    EmptyString)))))))))))))))))))))))))))))))))))))))))))))))))))))))))))),
    reduce_u_to_the_negation_of_v) :: (((String ((Ascii (true, true, true,
    true, true, false, true, false)), (String ((Ascii (false, true, false,
    false, true, true, true, false)), (String ((Ascii (true, false, true,
    false, false, true, true, false)), (String ((Ascii (false, false, true,
    false, false, true, true, false)), (String ((Ascii (true, false, true,
    false, true, true, true, false)), (String ((Ascii (true, true, false,
    false, false, true, true, false)), (String ((Ascii (true, false, true,
    false, false, true, true, false)), (String ((Ascii (true, true, true,
    true, true, false, true, false)), (String ((Ascii (false, true, false,
    false, true, true, true, false)), (String ((Ascii (true, false, true,
    false, false, true, true, false)), (String ((Ascii (true, true, false,
    false, false, true, true, false)), (String ((Ascii (true, false, false,
    true, false, true, true, false)), (String ((Ascii (false, false, false,
    false, true, true, true, false)), (String ((Ascii (false, true, false,
    false, true, true, true, false)), (String ((Ascii (true, true, true,
    true, false, true, true, false)), (String ((Ascii (true, true, false,
    false, false, true, true, false)), (String ((Ascii (true, false, false,
    false, false, true, true, false)), (String ((Ascii (false, false, true,
    true, false, true, true, false)), (String ((Ascii (true, true, true,
    true, true, false, true, false)), (String ((Ascii (true, false, true,
    false, true, true, true, false)), (String ((Ascii (true, true, true,
    true, true, false, true, false)), (String ((Ascii (true, true, true,
    true, true, false, true, false)), (String ((Ascii (false, false, true,
    false, true, true, true, false)), (String ((Ascii (true, true, true,
    true, false, true, true, false)), (String ((Ascii (true, true, true,
    true, true, false, true, false)), (String ((Ascii (false, false, true,
    false, true, true, true, false)), (String ((Ascii (false, false, false,
    true, false, true, true, false)), (String ((Ascii (true, false, true,
    false, false, true, true, false)), (String ((Ascii (true, true, true,
    true, true, false, true, false)), (String ((Ascii (false, true, true,
    false, true, true, true, false)),
    EmptyString)))))))))))))))))))))))))))))))))))))))))))))))))))))))))))),
    reduce_reciprocal_u__to_the_v) :: []))))))))

(** val reducers_NthPower : 'a1 numOps -> 'a1 rule list **)

let reducers_NthPower n =
  ((String ((Ascii (true, true, true, true, true, false, true, false)),
    (String ((Ascii (false, true, false, false, true, true, true, false)),
    (String ((Ascii (true, false, true, false, false, true, true, false)),
    (String ((Ascii (false, false, true, false, false, true, true, false)),
    (String ((Ascii (true, false, true, false, true, true, true, false)),
    (String ((Ascii (true, true, false, false, false, true, true, false)),
    (String ((Ascii (true, false, true, false, false, true, true, false)),
    (String ((Ascii (true, true, true, true, true, false, true, false)),
    (String ((Ascii (false, true, true, true, false, true, true, false)),
    (String ((Ascii (false, false, true, false, true, true, true, false)),
    (String ((Ascii (false, false, false, true, false, true, true, false)),
    (String ((Ascii (true, true, true, true, true, false, true, false)),
    (String ((Ascii (false, false, false, false, true, true, true, false)),
    (String ((Ascii (true, true, true, true, false, true, true, false)),
    (String ((Ascii (true, true, true, false, true, true, true, false)),
    (String ((Ascii (true, false, true, false, false, true, true, false)),
    (String ((Ascii (false, true, false, false, true, true, true, false)),
    (String ((Ascii (true, true, true, true, true, false, true, false)),
    (String ((Ascii (true, true, true, false, true, true, true, false)),
    (String ((Ascii (false, false, false, true, false, true, true, false)),
    (String ((Ascii (true, false, true, false, false, true, true, false)),
    (String ((Ascii (false, true, false, false, true, true, true, false)),
    (String ((Ascii (true, false, true, false, false, true, true, false)),
    (String ((Ascii (true, true, true, true, true, false, true, false)),
    (String ((Ascii (false, true, true, true, false, true, true, false)),
    (String ((Ascii (true, true, true, true, true, false, true, false)),
    (String ((Ascii (true, false, false, true, false, true, true, false)),
    (String ((Ascii (true, true, false, false, true, true, true, false)),
    (String ((Ascii (true, true, true, true, true, false, true, false)),
    (String ((Ascii (true, true, true, true, false, true, true, false)),
    (String ((Ascii (false, true, true, true, false, true, true, false)),
    (String ((Ascii (true, false, true, false, false, true, true, false)),
    EmptyString)))))))))))))))))))))))))))))))))))))))))))))))))))))))))))))))),
    reduce_nth_power_where_n_is_one) :: (((String ((Ascii (true, true, true,
    true, true, false, true, false)), (String ((Ascii (false, true, false,
    false, true, true, true, false)), (String ((Ascii (true, false, true,
    false, false, true, true, false)), (String ((Ascii (false, false, true,
    false, false, true, true, false)), (String ((Ascii (true, false, true,
    false, true, true, true, false)), (String ((Ascii (true, true, false,
    false, false, true, true, false)), (String ((Ascii (true, false, true,
    false, false, true, true, false)), (String ((Ascii (true, true, true,
    true, true, false, true, false)), (String ((Ascii (false, true, true,
    true, false, true, true, false)), (String ((Ascii (false, false, true,
    false, true, true, true, false)), (String ((Ascii (false, false, false,
    true, false, true, true, false)), (String ((Ascii (true, true, true,
    true, true, false, true, false)), (String ((Ascii (false, false, false,
    false, true, true, true, false)), (String ((Ascii (true, true, true,
    true, false, true, true, false)), (String ((Ascii (true, true, true,
    false, true, true, true, false)), (String ((Ascii (true, false, true,
    false, false, true, true, false)), (String ((Ascii (false, true, false,
    false, true, true, true, false)), (String ((Ascii (true, true, true,
    true, true, false, true, false)), (String ((Ascii (true, true, true,
    true, false, true, true, false)), (String ((Ascii (false, true, true,
    false, false, true, true, false)), (String ((Ascii (true, true, true,
    true, true, false, true, false)), (String ((Ascii (true, false, true,
    true, false, true, true, false)), (String ((Ascii (false, false, true,
    false, true, true, true, false)), (String ((Ascii (false, false, false,
    true, false, true, true, false)), (String ((Ascii (true, true, true,
    true, true, false, true, false)), (String ((Ascii (false, true, false,
    false, true, true, true, false)), (String ((Ascii (true, true, true,
    true, false, true, true, false)), (String ((Ascii (true, true, true,
    true, false, true, true, false)), (String ((Ascii (false, false, true,
    false, true, true, true, false)),
    EmptyString)))))))))))))))))))))))))))))))))))))))))))))))))))))))))),
    reduce_nth_power_of_mth_root) :: (((String ((Ascii (true, true, true,
    true, true, false, true, false)), (String ((Ascii (false, true, false,
    false, true, true, true, false)), (String ((Ascii (true, false, true,
    false, false, true, true, false)), (String ((Ascii (false, false, true,
    false, false, true, true, false)), (String ((Ascii (true, false, true,
    false, true, true, true, false)), (String ((Ascii (true, true, false,
    false, false, true, true, false)), (String ((Ascii (true, false, true,
    false, false, true, true, false)), (String ((Ascii (true, true, true,
    true, true, false, true, false)), (String ((Ascii (false, true, true,
    true, false, true, true, false)), (String ((Ascii (false, false, true,
    false, true, true, true, false)), (String ((Ascii (false, false, false,
    true, false, true, true, false)), (String ((Ascii (true, true, true,
    true, true, false, true, false)), (String ((Ascii (false, false, false,
    false, true, true, true, false)), (String ((Ascii (true, true, true,
    true, false, true, true, false)), (String ((Ascii (true, true, true,
    false, true, true, true, false)), (String ((Ascii (true, false, true,
    false, false, true, true, false)), (String ((Ascii (false, true, false,
    false, true, true, true, false)), (String ((Ascii (true, true, true,
    true, true, false, true, false)), (String ((Ascii (true, true, true,
    true, false, true, true, false)), (String ((Ascii (false, true, true,
    false, false, true, true, false)), (String ((Ascii (true, true, true,
    true, true, false, true, false)), (String ((Ascii (true, false, true,
    true, false, true, true, false)), (String ((Ascii (false, false, true,
    false, true, true, true, false)), (String ((Ascii (false, false, false,
    true, false, true, true, false)), (String ((Ascii (true, true, true,
    true, true, false, true, false)), (String ((Ascii (false, false, false,
    false, true, true, true, false)), (String ((Ascii (true, true, true,
    true, false, true, true, false)), (String ((Ascii (true, true, true,
    false, true, true, true, false)), (String ((Ascii (true, false, true,
    false, false, true, true, false)), (String ((Ascii (false, true, false,
    false, true, true, true, false)),
    EmptyString)))))))))))))))))))))))))))))))))))))))))))))))))))))))))))),
    reduce_nth_power_of_mth_power) :: (((String ((Ascii (true, true, true,
    true, true, false, true, false)), (String ((Ascii (false, true, false,
    false, true, true, true, false)), (String ((Ascii (true, false, true,
    false, false, true, true, false)), (String ((Ascii (false, false, true,
    false, false, true, true, false)), (String ((Ascii (true, false, true,
    false, true, true, true, false)), (String ((Ascii (true, true, false,
    false, false, true, true, false)), (String ((Ascii (true, false, true,
    false, false, true, true, false)), (String ((Ascii (true, true, true,
    true, true, false, true, false)), (String ((Ascii (false, true, true,
    true, false, true, true, false)), (String ((Ascii (false, false, true,
    false, true, true, true, false)), (String ((Ascii (false, false, false,
    true, false, true, true, false)), (String ((Ascii (true, true, true,
    true, true, false, true, false)), (String ((Ascii (false, false, false,
    false, true, true, true, false)), (String ((Ascii (true, true, true,
    true, false, true, true, false)), (String ((Ascii (true, true, true,
    false, true, true, true, false)), (String ((Ascii (true, false, true,
    false, false, true, true, false)), (String ((Ascii (false, true, false,
    false, true, true, true, false)), (String ((Ascii (true, true, true,
    true, true, false, true, false)), (String ((Ascii (true, true, true,
    true, false, true, true, false)), (String ((Ascii (false, true, true,
    false, false, true, true, false)), (String ((Ascii (true, true, true,
    true, true, false, true, false)), (String ((Ascii (false, true, true,
    true, false, true, true, false)), (String ((Ascii (true, false, true,
    false, false, true, true, false)), (String ((Ascii (true, true, true,
    false, false, true, true, false)), (String ((Ascii (true, false, false,
    false, false, true, true, false)), (String ((Ascii (false, false, true,
    false, true, true, true, false)), (String ((Ascii (true, false, false,
    true, false, true, true, false)), (String ((Ascii (true, true, true,
    true, false, true, true, false)), (String ((Ascii (false, true, true,
    true, false, true, true, false)),
    EmptyString)))))))))))))))))))))))))))))))))))))))))))))))))))))))))),
    reduce_nth_power_of_negation) :: (((String ((Ascii (true, true, true,
    true, true, false, true, false)), (String ((Ascii (false, true, false,
    false, true, true, true, false)), (String ((Ascii (true, false, true,
    false, false, true, true, false)), (String ((Ascii (false, false, true,
    false, false, true, true, false)), (String ((Ascii (true, false, true,
    false, true, true, true, false)), (String ((Ascii (true, true, false,
    false, false, true, true, false)), (String ((Ascii (true, false, true,
    false, false, true, true, false)), (String ((Ascii (true, true, true,
    true, true, false, true, false)), (String ((Ascii (false, true, true,
    true, false, true, true, false)), (String ((Ascii (false, false, true,
    false, true, true, true, false)), (String ((Ascii (false, false, false,
    true, false, true, true, false)), (String ((Ascii (true, true, true,
    true, true, false, true, false)), (String ((Ascii (false, false, false,
    false, true, true, true, false)), (String ((Ascii (true, true, true,
    true, false, true, true, false)), (String ((Ascii (true, true, true,
    false, true, true, true, false)), (String ((Ascii (true, false, true,
    false, false, true, true, false)), (String ((Ascii (false, true, false,
    false, true, true, true, false)), (String ((Ascii (true, true, true,
    true, true, false, true, false)), (String ((Ascii (true, true, true,
    true, false, true, true, false)), (String ((Ascii (false, true, true,
    false, false, true, true, false)), (String ((Ascii (true, true, true,
    true, true, false, true, false)), (String ((Ascii (false, true, false,
    false, true, true, true, false)), (String ((Ascii (true, false, true,
    false, false, true, true, false)), (String ((Ascii (true, true, false,
    false, false, true, true, false)), (String ((Ascii (true, false, false,
    true, false, true, true, false)), (String ((Ascii (false, false, false,
    false, true, true, true, false)), (String ((Ascii (false, true, false,
    false, true, true, true, false)), (String ((Ascii (true, true, true,
    true, false, true, true, false)), (String ((Ascii (true, true, false,
    false, false, true, true, false)), (String ((Ascii (true, false, false,
    false, false, true, true, false)), (String ((Ascii (false, false, true,
    true, false, true, true, false)),
    EmptyString)))))))))))))))))))))))))))))))))))))))))))))))))))))))))))))),
    reduce_nth_power_of_reciprocal) :: (((String ((Ascii (true, true, true,
    true, true, false, true, false)), (String ((Ascii (false, true, false,
    false, true, true, true, false)), (String ((Ascii (true, false, true,
    false, false, true, true, false)), (String ((Ascii (false, false, true,
    false, false, true, true, false)), (String ((Ascii (true, false, true,
    false, true, true, true, false)), (String ((Ascii (true, true, false,
    false, false, true, true, false)), (String ((Ascii (true, false, true,
    false, false, true, true, false)), (String ((Ascii (true, true, true,
    true, true, false, true, false)), (String ((Ascii (false, true, true,
    true, false, true, true, false)), (String ((Ascii (false, false, true,
    false, true, true, true, false)), (String ((Ascii (false, false, false,
    true, false, true, true, false)), (String ((Ascii (true, true, true,
    true, true, false, true, false)), (String ((Ascii (false, false, false,
    false, true, true, true, false)), (String ((Ascii (true, true, true,
    true, false, true, true, false)), (String ((Ascii (true, true, true,
    false, true, true, true, false)), (String ((Ascii (true, false, true,
    false, false, true, true, false)), (String ((Ascii (false, true, false,
    false, true, true, true, false)), (String ((Ascii (true, true, true,
    true, true, false, true, false)), (String ((Ascii (true, true, true,
    true, false, true, true, false)), (String ((Ascii (false, true, true,
    false, false, true, true, false)), (String ((Ascii (true, true, true,
    true, true, false, true, false)), (String ((Ascii (true, false, true,
    false, false, true, true, false)), (String ((Ascii (false, false, false,
    true, true, true, true, false)), (String ((Ascii (false, false, false,
    false, true, true, true, false)), (String ((Ascii (true, true, true,
    true, false, true, true, false)), (String ((Ascii (false, true, true,
    true, false, true, true, false)), (String ((Ascii (true, false, true,
    false, false, true, true, false)), (String ((Ascii (false, true, true,
    true, false, true, true, false)), (String ((Ascii (false, false, true,
    false, true, true, true, false)), (String ((Ascii (true, false, false,
    true, false, true, true, false)), (String ((Ascii (true, false, false,
    false, false, true, true, false)), (String ((Ascii (false, false, true,
    true, false, true, true, false)),
    EmptyString)))))))))))))))))))))))))))))))))))))))))))))))))))))))))))))))),
    (reduce_nth_power_of_exponential n)) :: [])))))

(** val reducers_NthRoot : 'a1 rule list **)

let reducers_NthRoot =
  ((String ((Ascii (true, true, true, true, true, false, true, false)),
    (String ((Ascii (false, true, false, false, true, true, true, false)),
    (String ((Ascii (true, false, true, false, false, true, true, false)),
    (String ((Ascii (false, false, true, false, false, true, true, false)),
    (String ((Ascii (true, false, true, false, true, true, true, false)),
    (String ((Ascii (true, true, false, false, false, true, true, false)),
    (String ((Ascii (true, false, true, false, false, true, true, false)),
    (String ((Ascii (true, true, true, true, true, false, true, false)),
    (String ((Ascii (false, true, true, true, false, true, true, false)),
    (String ((Ascii (false, false, true, false, true, true, true, false)),
    (String ((Ascii (false, false, false, true, false, true, true, false)),
    (String ((Ascii (true, true, true, true, true, false, true, false)),
    (String ((Ascii (false, true, false, false, true, true, true, false)),
    (String ((Ascii (true, true, true, true, false, true, true, false)),
    (String ((Ascii (true, true, true, true, false, true, true, false)),
    (String ((Ascii (false, false, true, false, true, true, true, false)),
    (String ((Ascii (true, true, true, true, true, false, true, false)),
    (String ((Ascii (true, true, true, false, true, true, true, false)),
    (String ((Ascii (false, false, false, true, false, true, true, false)),
    (String ((Ascii (true, false, true, false, false, true, true, false)),
    (String ((Ascii (false, true, false, false, true, true, true, false)),
    (String ((Ascii (true, false, true, false, false, true, true, false)),
    (String ((Ascii (true, true, true, true, true, false, true, false)),
    (String ((Ascii (false, true, true, true, false, true, true, false)),
    (String ((Ascii (true, true, true, true, true, false, true, false)),
    (String ((Ascii (true, false, false, true, false, true, true, false)),
    (String ((Ascii (true, true, false, false, true, true, true, false)),
    (String ((Ascii (true, true, true, true, true, false, true, false)),
    (String ((Ascii (true, true, true, true, false, true, true, false)),
    (String ((Ascii (false, true, true, true, false, true, true, false)),
    (String ((Ascii (true, false, true, false, false, true, true, false)),
    EmptyString)))))))))))))))))))))))))))))))))))))))))))))))))))))))))))))),
    reduce_nth_root_where_n_is_one) :: (((String ((Ascii (true, true, true,
    true, true, false, true, false)), (String ((Ascii (false, true, false,
    false, true, true, true, false)), (String ((Ascii (true, false, true,
    false, false, true, true, false)), (String ((Ascii (false, false, true,
    false, false, true, true, false)), (String ((Ascii (true, false, true,
    false, true, true, true, false)), (String ((Ascii (true, true, false,
    false, false, true, true, false)), (String ((Ascii (true, false, true,
    false, false, true, true, false)), (String ((Ascii (true, true, true,
    true, true, false, true, false)), (String ((Ascii (false, true, true,
    true, false, true, true, false)), (String ((Ascii (false, false, true,
    false, true, true, true, false)), (String ((Ascii (false, false, false,
    true, false, true, true, false)), (String ((Ascii (true, true, true,
    true, true, false, true, false)), (String ((Ascii (false, true, false,
    false, true, true, true, false)), (String ((Ascii (true, true, true,
    true, false, true, true, false)), (String ((Ascii (true, true, true,
    true, false, true, true, false)), (String ((Ascii (false, false, true,
    false, true, true, true, false)), (String ((Ascii (true, true, true,
    true, true, false, true, false)), (String ((Ascii (true, true, true,
    true, false, true, true, false)), (String ((Ascii (false, true, true,
    false, false, true, true, false)), (String ((Ascii (true, true, true,
    true, true, false, true, false)), (String ((Ascii (true, false, true,
    true, false, true, true, false)), (String ((Ascii (false, false, true,
    false, true, true, true, false)), (String ((Ascii (false, false, false,
    true, false, true, true, false)), (String ((Ascii (true, true, true,
    true, true, false, true, false)), (String ((Ascii (false, false, false,
    false, true, true, true, false)), (String ((Ascii (true, true, true,
    true, false, true, true, false)), (String ((Ascii (true, true, true,
    false, true, true, true, false)), (String ((Ascii (true, false, true,
    false, false, true, true, false)), (String ((Ascii (false, true, false,
    false, true, true, true, false)),
    EmptyString)))))))))))))))))))))))))))))))))))))))))))))))))))))))))),
    reduce_nth_root_of_mth_power) :: (((String ((Ascii (true, true, true,
    true, true, false, true, false)), (String ((Ascii (false, true, false,
    false, true, true, true, false)), (String ((Ascii (true, false, true,
    false, false, true, true, false)), (String ((Ascii (false, false, true,
    false, false, true, true, false)), (String ((Ascii (true, false, true,
    false, true, true, true, false)), (String ((Ascii (true, true, false,
    false, false, true, true, false)), (String ((Ascii (true, false, true,
    false, false, true, true, false)), (String ((Ascii (true, true, true,
    true, true, false, true, false)), (String ((Ascii (false, true, true,
    true, false, true, true, false)), (String ((Ascii (false, false, true,
    false, true, true, true, false)), (String ((Ascii (false, false, false,
    true, false, true, true, false)), (String ((Ascii (true, true, true,
    true, true, false, true, false)), (String ((Ascii (false, true, false,
    false, true, true, true, false)), (String ((Ascii (true, true, true,
    true, false, true, true, false)), (String ((Ascii (true, true, true,
    true, false, true, true, false)), (String ((Ascii (false, false, true,
    false, true, true, true, false)), (String ((Ascii (true, true, true,
    true, true, false, true, false)), (String ((Ascii (true, true, true,
    true, false, true, true, false)), (String ((Ascii (false, true, true,
    false, false, true, true, false)), (String ((Ascii (true, true, true,
    true, true, false, true, false)), (String ((Ascii (true, false, true,
    true, false, true, true, false)), (String ((Ascii (false, false, true,
    false, true, true, true, false)), (String ((Ascii (false, false, false,
    true, false, true, true, false)), (String ((Ascii (true, true, true,
    true, true, false, true, false)), (String ((Ascii (false, true, false,
    false, true, true, true, false)), (String ((Ascii (true, true, true,
    true, false, true, true, false)), (String ((Ascii (true, true, true,
    true, false, true, true, false)), (String ((Ascii (false, false, true,
    false, true, true, true, false)),
    EmptyString)))))))))))))))))))))))))))))))))))))))))))))))))))))))),
    reduce_nth_root_of_mth_root) :: (((String ((Ascii (true, true, true,
    true, true, false, true, false)), (String ((Ascii (false, true, false,
    false, true, true, true, false)), (String ((Ascii (true, false, true,
    false, false, true, true, false)), (String ((Ascii (false, false, true,
    false, false, true, true, false)), (String ((Ascii (true, false, true,
    false, true, true, true, false)), (String ((Ascii (true, true, false,
    false, false, true, true, false)), (String ((Ascii (true, false, true,
    false, false, true, true, false)), (String ((Ascii (true, true, true,
    true, true, false, true, false)), (String ((Ascii (true, true, true,
    true, false, true, true, false)), (String ((Ascii (false, false, true,
    false, false, true, true, false)), (String ((Ascii (false, false, true,
    false, false, true, true, false)), (String ((Ascii (true, true, true,
    true, true, false, true, false)), (String ((Ascii (false, true, true,
    true, false, true, true, false)), (String ((Ascii (false, false, true,
    false, true, true, true, false)), (String ((Ascii (false, false, false,
    true, false, true, true, false)), (String ((Ascii (true, true, true,
    true, true, false, true, false)), (String ((Ascii (false, true, false,
    false, true, true, true, false)), (String ((Ascii (true, true, true,
    true, false, true, true, false)), (String ((Ascii (true, true, true,
    true, false, true, true, false)), (String ((Ascii (false, false, true,
    false, true, true, true, false)), (String ((Ascii (true, true, true,
    true, true, false, true, false)), (String ((Ascii (true, true, true,
    true, false, true, true, false)), (String ((Ascii (false, true, true,
    false, false, true, true, false)), (String ((Ascii (true, true, true,
    true, true, false, true, false)), (String ((Ascii (false, true, true,
    true, false, true, true, false)), (String ((Ascii (true, false, true,
    false, false, true, true, false)), (String ((Ascii (true, true, true,
    false, false, true, true, false)), (String ((Ascii (true, false, false,
    false, false, true, true, false)), (String ((Ascii (false, false, true,
    false, true, true, true, false)), (String ((Ascii (true, false, false,
    true, false, true, true, false)), (String ((Ascii (true, true, true,
    true, false, true, true, false)), (String ((Ascii (false, true, true,
    true, false, true, true, false)),
    EmptyString)))))))))))))))))))))))))))))))))))))))))))))))))))))))))))))))),
    reduce_odd_nth_root_of_negation) :: (((String ((Ascii (true, true, true,
    true, true, false, true, false)), (String ((Ascii (false, true, false,
    false, true, true, true, false)), (String ((Ascii (true, false, true,
    false, false, true, true, false)), (String ((Ascii (false, false, true,
    false, false, true, true, false)), (String ((Ascii (true, false, true,
    false, true, true, true, false)), (String ((Ascii (true, true, false,
    false, false, true, true, false)), (String ((Ascii (true, false, true,
    false, false, true, true, false)), (String ((Ascii (true, true, true,
    true, true, false, true, false)), (String ((Ascii (false, true, true,
    true, false, true, true, false)), (String ((Ascii (false, false, true,
    false, true, true, true, false)), (String ((Ascii (false, false, false,
    true, false, true, true, false)), (String ((Ascii (true, true, true,
    true, true, false, true, false)), (String ((Ascii (false, true, false,
    false, true, true, true, false)), (String ((Ascii (true, true, true,
    true, false, true, true, false)), (String ((Ascii (true, true, true,
    true, false, true, true, false)), (String ((Ascii (false, false, true,
    false, true, true, true, false)), (String ((Ascii (true, true, true,
    true, true, false, true, false)), (String ((Ascii (true, true, true,
    true, false, true, true, false)), (String ((Ascii (false, true, true,
    false, false, true, true, false)), (String ((Ascii (true, true, true,
    true, true, false, true, false)), (String ((Ascii (false, true, false,
    false, true, true, true, false)), (String ((Ascii (true, false, true,
    false, false, true, true, false)), (String ((Ascii (true, true, false,
    false, false, true, true, false)), (String ((Ascii (true, false, false,
    true, false, true, true, false)), (String ((Ascii (false, false, false,
    false, true, true, true, false)), (String ((Ascii (false, true, false,
    false, true, true, true, false)), (String ((Ascii (true, true, true,
    true, false, true, true, false)), (String ((Ascii (true, true, false,
    false, false, true, true, false)), (String ((Ascii (true, false, false,
    false, false, true, true, false)), (String ((Ascii (false, false, true,
    true, false, true, true, false)),
    EmptyString)))))))))))))))))))))))))))))))))))))))))))))))))))))))))))),
    reduce_nth_root_of_reciprocal) :: []))))

(** val reducers_Exponential : 'a1 numOps -> 'a1 rule list **)

let reducers_Exponential n =
  ((String ((Ascii (true, true, true, true, true, false, true, false)),
    (String ((Ascii (false, true, false, false, true, true, true, false)),
    (String ((Ascii (true, false, true, false, false, true, true, false)),
    (String ((Ascii (false, false, true, false, false, true, true, false)),
    (String ((Ascii (true, false, true, false, true, true, true, false)),
    (String ((Ascii (true, true, false, false, false, true, true, false)),
    (String ((Ascii (true, false, true, false, false, true, true, false)),
    (String ((Ascii (true, true, true, true, true, false, true, false)),
    (String ((Ascii (true, false, true, false, false, true, true, false)),
    (String ((Ascii (false, false, false, true, true, true, true, false)),
    (String ((Ascii (false, false, false, false, true, true, true, false)),
    (String ((Ascii (true, true, true, true, false, true, true, false)),
    (String ((Ascii (false, true, true, true, false, true, true, false)),
    (String ((Ascii (true, false, true, false, false, true, true, false)),
    (String ((Ascii (false, true, true, true, false, true, true, false)),
    (String ((Ascii (false, false, true, false, true, true, true, false)),
    (String ((Ascii (true, false, false, true, false, true, true, false)),
    (String ((Ascii (true, false, false, false, false, true, true, false)),
    (String ((Ascii (false, false, true, true, false, true, true, false)),
    (String ((Ascii (true, true, true, true, true, false, true, false)),
    (String ((Ascii (true, true, true, true, false, true, true, false)),
    (String ((Ascii (false, true, true, false, false, true, true, false)),
    (String ((Ascii (true, true, true, true, true, false, true, false)),
    (String ((Ascii (false, false, true, true, false, true, true, false)),
    (String ((Ascii (true, true, true, true, false, true, true, false)),
    (String ((Ascii (true, true, true, false, false, true, true, false)),
    (String ((Ascii (true, false, false, false, false, true, true, false)),
    (String ((Ascii (false, true, false, false, true, true, true, false)),
    (String ((Ascii (true, false, false, true, false, true, true, false)),
    (String ((Ascii (false, false, true, false, true, true, true, false)),
    (String ((Ascii (false, false, false, true, false, true, true, false)),
    (String ((Ascii (true, false, true, true, false, true, true, false)),
    EmptyString)))))))))))))))))))))))))))))))))))))))))))))))))))))))))))))))),
    (reduce_exponential_of_logarithm n)) :: (((String ((Ascii (true, true,
    true, true, true, false, true, false)), (String ((Ascii (false, true,
    false, false, true, true, true, false)), (String ((Ascii (true, false,
    true, false, false, true, true, false)), (String ((Ascii (false, false,
    true, false, false, true, true, false)), (String ((Ascii (true, false,
    true, false, true, true, true, false)), (String ((Ascii (true, true,
    false, false, false, true, true, false)), (String ((Ascii (true, false,
    true, false, false, true, true, false)), (String ((Ascii (true, true,
    true, true, true, false, true, false)), (String ((Ascii (true, false,
    true, false, false, true, true, false)), (String ((Ascii (false, false,
    false, true, true, true, true, false)), (String ((Ascii (false, false,
    false, false, true, true, true, false)), (String ((Ascii (true, true,
    true, true, false, true, true, false)), (String ((Ascii (false, true,
    true, true, false, true, true, false)), (String ((Ascii (true, false,
    true, false, false, true, true, false)), (String ((Ascii (false, true,
    true, true, false, true, true, false)), (String ((Ascii (false, false,
    true, false, true, true, true, false)), (String ((Ascii (true, false,
    false, true, false, true, true, false)), (String ((Ascii (true, false,
    false, false, false, true, true, false)), (String ((Ascii (false, false,
    true, true, false, true, true, false)), (String ((Ascii (true, true,
    true, true, true, false, true, false)), (String ((Ascii (true, true,
    true, true, false, true, true, false)), (String ((Ascii (false, true,
    true, false, false, true, true, false)), (String ((Ascii (true, true,
    true, true, true, false, true, false)), (String ((Ascii (false, true,
    true, true, false, true, true, false)), (String ((Ascii (true, false,
    true, false, false, true, true, false)), (String ((Ascii (true, true,
    true, false, false, true, true, false)), (String ((Ascii (true, false,
    false, false, false, true, true, false)), (String ((Ascii (false, false,
    true, false, true, true, true, false)), (String ((Ascii (true, false,
    false, true, false, true, true, false)), (String ((Ascii (true, true,
    true, true, false, true, true, false)), (String ((Ascii (false, true,
    true, true, false, true, true, false)),
    EmptyString)))))))))))))))))))))))))))))))))))))))))))))))))))))))))))))),
    reduce_exponential_of_negation) :: [])

(** val reducers_Logarithm : 'a1 numOps -> 'a1 rule list **)

let reducers_Logarithm n =
  ((String ((Ascii (true, true, true, true, true, false, true, false)),
    (String ((Ascii (false, true, false, false, true, true, true, false)),
    (String ((Ascii (true, false, true, false, false, true, true, false)),
    (String ((Ascii (false, false, true, false, false, true, true, false)),
    (String ((Ascii (true, false, true, false, true, true, true, false)),
    (String ((Ascii (true, true, false, false, false, true, true, false)),
    (String ((Ascii (true, false, true, false, false, true, true, false)),
    (String ((Ascii (true, true, true, true, true, false, true, false)),
    (String ((Ascii (false, false, true, true, false, true, true, false)),
    (String ((Ascii (true, true, true, true, false, true, true, false)),
    (String ((Ascii (true, true, true, false, false, true, true, false)),
    (String ((Ascii (true, false, false, false, false, true, true, false)),
    (String ((Ascii (false, true, false, false, true, true, true, false)),
    (String ((Ascii (true, false, false, true, false, true, true, false)),
    (String ((Ascii (false, false, true, false, true, true, true, false)),
    (String ((Ascii (false, false, false, true, false, true, true, false)),
    (String ((Ascii (true, false, true, true, false, true, true, false)),
    (String ((Ascii (true, true, true, true, true, false, true, false)),
    (String ((Ascii (true, true, true, true, false, true, true, false)),
    (String ((Ascii (false, true, true, false, false, true, true, false)),
    (String ((Ascii (true, true, true, true, true, false, true, false)),
    (String ((Ascii (true, false, true, false, false, true, true, false)),
    (String ((Ascii (false, false, false, true, true, true, true, false)),
    (String ((Ascii (false, false, false, false, true, true, true, false)),
    (String ((Ascii (true, true, true, true, false, true, true, false)),
    (String ((Ascii (false, true, true, true, false, true, true, false)),
    (String ((Ascii (true, false, true, false, false, true, true, false)),
    (String ((Ascii (false, true, true, true, false, true, true, false)),
    (String ((Ascii (false, false, true, false, true, true, true, false)),
    (String ((Ascii (true, false, false, true, false, true, true, false)),
    (String ((Ascii (true, false, false, false, false, true, true, false)),
    (String ((Ascii (false, false, true, true, false, true, true, false)),
    EmptyString)))))))))))))))))))))))))))))))))))))))))))))))))))))))))))))))),
    (reduce_logarithm_of_exponential n)) :: (((String ((Ascii (true, true,
    true, true, true, false, true, false)), (String ((Ascii (false, true,
    false, false, true, true, true, false)), (String ((Ascii (true, false,
    true, false, false, true, true, false)), (String ((Ascii (false, false,
    true, false, false, true, true, false)), (String ((Ascii (true, false,
    true, false, true, true, true, false)), (String ((Ascii (true, true,
    false, false, false, true, true, false)), (String ((Ascii (true, false,
    true, false, false, true, true, false)), (String ((Ascii (true, true,
    true, true, true, false, true, false)), (String ((Ascii (false, false,
    true, true, false, true, true, false)), (String ((Ascii (true, true,
    true, true, false, true, true, false)), (String ((Ascii (true, true,
    true, false, false, true, true, false)), (String ((Ascii (true, false,
    false, false, false, true, true, false)), (String ((Ascii (false, true,
    false, false, true, true, true, false)), (String ((Ascii (true, false,
    false, true, false, true, true, false)), (String ((Ascii (false, false,
    true, false, true, true, true, false)), (String ((Ascii (false, false,
    false, true, false, true, true, false)), (String ((Ascii (true, false,
    true, true, false, true, true, false)), (String ((Ascii (true, true,
    true, true, true, false, true, false)), (String ((Ascii (true, true,
    true, true, false, true, true, false)), (String ((Ascii (false, true,
    true, false, false, true, true, false)), (String ((Ascii (true, true,
    true, true, true, false, true, false)), (String ((Ascii (false, true,
    false, false, true, true, true, false)), (String ((Ascii (true, false,
    true, false, false, true, true, false)), (String ((Ascii (true, true,
    false, false, false, true, true, false)), (String ((Ascii (true, false,
    false, true, false, true, true, false)), (String ((Ascii (false, false,
    false, false, true, true, true, false)), (String ((Ascii (false, true,
    false, false, true, true, true, false)), (String ((Ascii (true, true,
    true, true, false, true, true, false)), (String ((Ascii (true, true,
    false, false, false, true, true, false)), (String ((Ascii (true, false,
    false, false, false, true, true, false)), (String ((Ascii (false, false,
    true, true, false, true, true, false)),
    EmptyString)))))))))))))))))))))))))))))))))))))))))))))))))))))))))))))),
    reduce_logarithm_of_reciprocal) :: (((String ((Ascii (true, true, true,
    true, true, false, true, false)), (String ((Ascii (false, true, false,
    false, true, true, true, false)), (String ((Ascii (true, false, true,
    false, false, true, true, false)), (String ((Ascii (false, false, true,
    false, false, true, true, false)), (String ((Ascii (true, false, true,
    false, true, true, true, false)), (String ((Ascii (true, true, false,
    false, false, true, true, false)), (String ((Ascii (true, false, true,
    false, false, true, true, false)), (String ((Ascii (true, true, true,
    true, true, false, true, false)), (String ((Ascii (false, false, true,
    true, false, true, true, false)), (String ((Ascii (true, true, true,
    true, false, true, true, false)), (String ((Ascii (true, true, true,
    false, false, true, true, false)), (String ((Ascii (true, false, false,
    false, false, true, true, false)), (String ((Ascii (false, true, false,
    false, true, true, true, false)), (String ((Ascii (true, false, false,
    true, false, true, true, false)), (String ((Ascii (false, false, true,
    false, true, true, true, false)), (String ((Ascii (false, false, false,
    true, false, true, true, false)), (String ((Ascii (true, false, true,
    true, false, true, true, false)), (String ((Ascii (true, true, true,
    true, true, false, true, false)), (String ((Ascii (true, true, true,
    true, false, true, true, false)), (String ((Ascii (false, true, true,
    false, false, true, true, false)), (String ((Ascii (true, true, true,
    true, true, false, true, false)), (String ((Ascii (false, true, true,
    true, false, true, true, false)), (String ((Ascii (false, false, true,
    false, true, true, true, false)), (String ((Ascii (false, false, false,
    true, false, true, true, false)), (String ((Ascii (true, true, true,
    true, true, false, true, false)), (String ((Ascii (false, false, false,
    false, true, true, true, false)), (String ((Ascii (true, true, true,
    true, false, true, true, false)), (String ((Ascii (true, true, true,
    false, true, true, true, false)), (String ((Ascii (true, false, true,
    false, false, true, true, false)), (String ((Ascii (false, true, false,
    false, true, true, true, false)),
    EmptyString)))))))))))))))))))))))))))))))))))))))))))))))))))))))))))),
    (reduce_logarithm_of_nth_power n)) :: []))

(** val reducers_Cosine : 'a1 rule list **)

let reducers_Cosine =
  ((String ((Ascii (true, true, true, true, true, false, true, false)),
    (String ((Ascii (false, true, false, false, true, true, true, false)),
    (String ((Ascii (true, false, true, false, false, true, true, false)),
    (String ((Ascii (false, false, true, false, false, true, true, false)),
    (String ((Ascii (true, false, true, false, true, true, true, false)),
    (String ((Ascii (true, true, false, false, false, true, true, false)),
    (String ((Ascii (true, false, true, false, false, true, true, false)),
    (String ((Ascii (true, true, true, true, true, false, true, false)),
    (String ((Ascii (true, true, false, false, false, true, true, false)),
    (String ((Ascii (true, true, true, true, false, true, true, false)),
    (String ((Ascii (true, true, false, false, true, true, true, false)),
    (String ((Ascii (true, false, false, true, false, true, true, false)),
    (String ((Ascii (false, true, true, true, false, true, true, false)),
    (String ((Ascii (true, false, true, false, false, true, true, false)),
    (String ((Ascii (true, true, true, true, true, false, true, false)),
    (String ((Ascii (true, true, true, true, false, true, true, false)),
    (String ((Ascii (false, true, true, false, false, true, true, false)),
    (String ((Ascii (true, true, true, true, true, false, true, false)),
    (String ((Ascii (false, true, true, true, false, true, true, false)),
    (String ((Ascii (true, false, true, false, false, true, true, false)),
    (String ((Ascii (true, true, true, false, false, true, true, false)),
    (String ((Ascii (true, false, false, false, false, true, true, false)),
    (String ((Ascii (false, false, true, false, true, true, true, false)),
    (String ((Ascii (true, false, false, true, false, true, true, false)),
    (String ((Ascii (true, true, true, true, false, true, true, false)),
    (String ((Ascii (false, true, true, true, false, true, true, false)),
    EmptyString)))))))))))))))))))))))))))))))))))))))))))))))))))),
    reduce_cosine_of_negation) :: []

(** val reducers_Sine : 'a1 rule list **)

let reducers_Sine =
  ((String ((Ascii (true, true, true, true, true, false, true, false)),
    (String ((Ascii (false, true, false, false, true, true, true, false)),
    (String ((Ascii (true, false, true, false, false, true, true, false)),
    (String ((Ascii (false, false, true, false, false, true, true, false)),
    (String ((Ascii (true, false, true, false, true, true, true, false)),
    (String ((Ascii (true, true, false, false, false, true, true, false)),
    (String ((Ascii (true, false, true, false, false, true, true, false)),
    (String ((Ascii (true, true, true, true, true, false, true, false)),
    (String ((Ascii (true, true, false, false, true, true, true, false)),
    (String ((Ascii (true, false, false, true, false, true, true, false)),
    (String ((Ascii (false, true, true, true, false, true, true, false)),
    (String ((Ascii (true, false, true, false, false, true, true, false)),
    (String ((Ascii (true, true, true, true, true, false, true, false)),
    (String ((Ascii (true, true, true, true, false, true, true, false)),
    (String ((Ascii (false, true, true, false, false, true, true, false)),
    (String ((Ascii (true, true, true, true, true, false, true, false)),
    (String ((Ascii (false, true, true, true, false, true, true, false)),
    (String ((Ascii (true, false, true, false, false, true, true, false)),
    (String ((Ascii (true, true, true, false, false, true, true, false)),
    (String ((Ascii (true, false, false, false, false, true, true, false)),
    (String ((Ascii (false, false, true, false, true, true, true, false)),
    (String ((Ascii (true, false, false, true, false, true, true, false)),
    (String ((Ascii (true, true, true, true, false, true, true, false)),
    (String ((Ascii (false, true, true, true, false, true, true, false)),
    EmptyString)))))))))))))))))))))))))))))))))))))))))))))))),
    reduce_sine_of_negation) :: []

(** val reducers_of : 'a1 numOps -> 'a1 expr -> 'a1 rule list **)

let reducers_of n = function
| Add _ -> reducers_Add n
| Mul _ -> reducers_Multiply n
| Minus (_, _) -> reducers_Minus
| Divide (_, _) -> reducers_Divide
| Power (_, _) -> reducers_Power n
| Neg _ -> reducers_Negation
| Recip _ -> reducers_Reciprocal
| Sin _ -> reducers_Sine
| Cos _ -> reducers_Cosine
| NthPow (_, _) -> reducers_NthPower n
| NthRoot (_, _) -> reducers_NthRoot
| Exp (_, _) -> reducers_Exponential n
| Log (_, _) -> reducers_Logarithm n
| _ -> []

(** val first_reducer :
    'a1 rule list -> 'a1 expr -> (string * 'a1 expr) option **)

let rec first_reducer rs e =
  match rs with
  | [] -> None
  | r0 :: r ->
    let (nm, f) = r0 in
    (match f e with
     | Some e' -> Some (nm, e')
     | None -> first_reducer r e)

(** val apply_reducers :
    'a1 numOps -> 'a1 expr -> (string * 'a1 expr) option **)

let apply_reducers n e =
  first_reducer (reducers_of n e) e

(** val all_rules : 'a1 numOps -> 'a1 rule list **)

let all_rules n =
  app (reducers_Add n)
    (app reducers_Minus
      (app reducers_Negation
        (app (reducers_Multiply n)
          (app reducers_Divide
            (app reducers_Reciprocal
              (app (reducers_Power n)
                (app (reducers_NthPower n)
                  (app reducers_NthRoot
                    (app (reducers_Exponential n)
                      (app (reducers_Logarithm n)
                        (app reducers_Cosine reducers_Sine)))))))))))

type 't label =
| LConsolidate of 't expr
| LRule of string * 't expr

(** val consolidate : 'a1 numOps -> 'a1 expr -> 'a1 expr option **)

let consolidate n e =
  if var_free e
  then (match e with
        | Const _ -> None
        | _ -> (match eval n [] e with
                | Val v -> Some (Const v)
                | _ -> None))
  else None

(** val rules_at : 'a1 numOps -> 'a1 expr -> ('a1 label * 'a1 expr) option **)

let rules_at n e =
  match apply_reducers n e with
  | Some p -> let (nm, e') = p in Some ((LRule (nm, e)), e')
  | None -> None

(** val step_named :
    'a1 numOps -> 'a1 expr -> ('a1 label * 'a1 expr) option **)

let rec step_named n e =
  match consolidate n e with
  | Some c -> Some ((LConsolidate e), c)
  | None ->
    let step_list =
      let rec step_list = function
      | [] -> None
      | x :: r ->
        (match step_named n x with
         | Some p -> let (lab, x') = p in Some (lab, (x' :: r))
         | None ->
           (match step_list r with
            | Some p -> let (lab, r') = p in Some (lab, (x :: r'))
            | None -> None))
      in step_list
    in
    let unary = fun a rebuild ->
      match step_named n a with
      | Some p -> let (lab, a') = p in Some (lab, (rebuild a'))
      | None -> rules_at n e
    in
    let binary = fun a b rebuild ->
      match step_named n a with
      | Some p -> let (lab, a') = p in Some (lab, (rebuild a' b))
      | None ->
        (match step_named n b with
         | Some p -> let (lab, b') = p in Some (lab, (rebuild a b'))
         | None -> rules_at n e)
    in
    (match e with
     | Add l ->
       (match step_list l with
        | Some p -> let (lab, l') = p in Some (lab, (Add l'))
        | None -> rules_at n e)
     | Mul l ->
       (match step_list l with
        | Some p -> let (lab, l') = p in Some (lab, (Mul l'))
        | None -> rules_at n e)
     | Minus (a, b) -> binary a b (fun x x0 -> Minus (x, x0))
     | Divide (a, b) -> binary a b (fun x x0 -> Divide (x, x0))
     | Power (a, b) -> binary a b (fun x x0 -> Power (x, x0))
     | Neg a -> unary a (fun x -> Neg x)
     | Recip a -> unary a (fun x -> Recip x)
     | Sin a -> unary a (fun x -> Sin x)
     | Cos a -> unary a (fun x -> Cos x)
     | NthPow (a, n2) -> unary a (fun x -> NthPow (x, n2))
     | NthRoot (a, n2) -> unary a (fun x -> NthRoot (x, n2))
     | Exp (a, b) -> unary a (fun x -> Exp (x, b))
     | Log (a, b) -> unary a (fun x -> Log (x, b))
     | _ -> None)

(** val step : 'a1 numOps -> 'a1 expr -> 'a1 expr option **)

let step n e =
  match step_named n e with
  | Some p -> let (_, e') = p in Some e'
  | None -> None

(** val fully_reduce : 'a1 numOps -> nat -> 'a1 expr -> 'a1 expr **)

let rec fully_reduce n fuel e =
  match fuel with
  | O -> e
  | S f -> (match step n e with
            | Some e' -> fully_reduce n f e'
            | None -> e)

(** val reduce_trace : 'a1 numOps -> nat -> 'a1 expr -> 'a1 label list **)

let rec reduce_trace n fuel e =
  match fuel with
  | O -> []
  | S f ->
    (match step_named n e with
     | Some p -> let (lab, e') = p in lab :: (reduce_trace n f e')
     | None -> [])

(** val bad_label : 'a1 label -> bool **)

let bad_label = function
| LConsolidate _ -> false
| LRule (nm, redex) ->
  (match redex with
   | NthRoot (a, n) ->
     (match a with
      | NthPow (_, m) ->
        (&&)
          ((&&)
            (eqb1 nm (String ((Ascii (true, true, true, true, true, false,
              true, false)), (String ((Ascii (false, true, false, false,
              true, true, true, false)), (String ((Ascii (true, false, true,
              false, false, true, true, false)), (String ((Ascii (false,
              false, true, false, false, true, true, false)), (String ((Ascii
              (true, false, true, false, true, true, true, false)), (String
              ((Ascii (true, true, false, false, false, true, true, false)),
              (String ((Ascii (true, false, true, false, false, true, true,
              false)), (String ((Ascii (true, true, true, true, true, false,
              true, false)), (String ((Ascii (false, true, true, true, false,
              true, true, false)), (String ((Ascii (false, false, true,
              false, true, true, true, false)), (String ((Ascii (false,
              false, false, true, false, true, true, false)), (String ((Ascii
              (true, true, true, true, true, false, true, false)), (String
              ((Ascii (false, true, false, false, true, true, true, false)),
              (String ((Ascii (true, true, true, true, false, true, true,
              false)), (String ((Ascii (true, true, true, true, false, true,
              true, false)), (String ((Ascii (false, false, true, false,
              true, true, true, false)), (String ((Ascii (true, true, true,
              true, true, false, true, false)), (String ((Ascii (true, true,
              true, true, false, true, true, false)), (String ((Ascii (false,
              true, true, false, false, true, true, false)), (String ((Ascii
              (true, true, true, true, true, false, true, false)), (String
              ((Ascii (true, false, true, true, false, true, true, false)),
              (String ((Ascii (false, false, true, false, true, true, true,
              false)), (String ((Ascii (false, false, false, true, false,
              true, true, false)), (String ((Ascii (true, true, true, true,
              true, false, true, false)), (String ((Ascii (false, false,
              false, false, true, true, true, false)), (String ((Ascii (true,
              true, true, true, false, true, true, false)), (String ((Ascii
              (true, true, true, false, true, true, true, false)), (String
              ((Ascii (true, false, true, false, false, true, true, false)),
              (String ((Ascii (false, true, false, false, true, true, true,
              false)),
              EmptyString)))))))))))))))))))))))))))))))))))))))))))))))))))))))))))
            (Z.even (Zpos n))) (Z.even (Zpos m))
      | _ -> false)
   | _ -> false)

(** val omapM : ('a1 -> 'a2 option) -> 'a1 list -> 'a2 list option **)

let rec omapM f = function
| [] -> Some []
| x :: r ->
  (match f x with
   | Some y -> (match omapM f r with
                | Some ys -> Some (y :: ys)
                | None -> None)
   | None -> None)

(** val simplified_add : 'a1 numOps -> 'a1 expr list -> 'a1 expr **)

let simplified_add n terms = match terms with
| [] -> Const (n0 n)
| t :: l -> (match l with
             | [] -> t
             | _ :: _ -> Add terms)

(** val simplified_multiply : 'a1 numOps -> 'a1 expr list -> 'a1 expr **)

let simplified_multiply n terms = match terms with
| [] -> Const (n1 n)
| t :: l -> (match l with
             | [] -> t
             | _ :: _ -> Mul terms)

(** val assemble_add :
    'a1 numOps -> 'a1 expr list -> 'a1 expr list -> 'a1 expr **)

let assemble_add n type_i type_ii =
  match type_i with
  | [] ->
    (match type_ii with
     | [] -> Const (n0 n)
     | _ :: _ -> Neg (simplified_add n type_ii))
  | _ :: _ ->
    (match type_ii with
     | [] -> simplified_add n type_i
     | _ :: _ -> Minus ((simplified_add n type_i), (simplified_add n type_ii)))

(** val assemble_multiply :
    'a1 numOps -> 'a1 expr list -> 'a1 expr list -> 'a1 expr **)

let assemble_multiply n numer denom =
  match numer with
  | [] ->
    (match denom with
     | [] -> Const (n1 n)
     | _ :: _ -> Recip (simplified_multiply n denom))
  | _ :: _ ->
    (match denom with
     | [] -> simplified_multiply n numer
     | _ :: _ ->
       Divide ((simplified_multiply n numer), (simplified_multiply n denom)))

(** val opt_map1 :
    ('a1 expr -> 'a1 expr) -> 'a1 expr option -> 'a1 expr option **)

let opt_map1 f = function
| Some x -> Some (f x)
| None -> None

(** val opt_map2 :
    ('a1 expr -> 'a1 expr -> 'a1 expr) -> 'a1 expr option -> 'a1 expr option
    -> 'a1 expr option **)

let opt_map2 f o1 o2 =
  match o1 with
  | Some x -> (match o2 with
               | Some y -> Some (f x y)
               | None -> None)
  | None -> None

(** val nfr : 'a1 numOps -> nat -> nat -> 'a1 expr -> 'a1 expr option **)

let rec nfr n fuel d e =
  match d with
  | O -> None
  | S d' ->
    let norm = fun t -> nfr n fuel d' (fully_reduce n fuel t) in
    (match e with
     | Add l ->
       let (negs, non_negs) = partition_by is_Neg l in
       (match omapM norm non_negs with
        | Some type_i ->
          (match omapM (fun t -> norm (inner_of t)) negs with
           | Some type_ii -> Some (assemble_add n type_i type_ii)
           | None -> None)
        | None -> None)
     | Mul l ->
       let (recips, non_recips) = partition_by is_Recip l in
       (match omapM norm non_recips with
        | Some numer ->
          (match omapM (fun t -> norm (inner_of t)) recips with
           | Some denom -> Some (assemble_multiply n numer denom)
           | None -> None)
        | None -> None)
     | Minus (a, b) ->
       opt_map2 (fun x x0 -> Minus (x, x0)) (nfr n fuel d' a)
         (nfr n fuel d' b)
     | Divide (a, b) ->
       opt_map2 (fun x x0 -> Divide (x, x0)) (nfr n fuel d' a)
         (nfr n fuel d' b)
     | Power (a, b) ->
       opt_map2 (fun x x0 -> Power (x, x0)) (nfr n fuel d' a)
         (nfr n fuel d' b)
     | Neg a -> opt_map1 (fun x -> Neg x) (nfr n fuel d' a)
     | Recip a -> opt_map1 (fun x -> Recip x) (nfr n fuel d' a)
     | Sin a -> opt_map1 (fun x -> Sin x) (nfr n fuel d' a)
     | Cos a -> opt_map1 (fun x -> Cos x) (nfr n fuel d' a)
     | NthPow (a, n2) -> opt_map1 (fun x -> NthPow (x, n2)) (nfr n fuel d' a)
     | NthRoot (a, n2) ->
       opt_map1 (fun x -> NthRoot (x, n2)) (nfr n fuel d' a)
     | Exp (a, b) -> opt_map1 (fun x -> Exp (x, b)) (nfr n fuel d' a)
     | Log (a, b) -> opt_map1 (fun x -> Log (x, b)) (nfr n fuel d' a)
     | x -> Some x)

(** val normalize :
    'a1 numOps -> nat -> nat -> 'a1 expr -> 'a1 expr option **)

let normalize n fuel d e =
  nfr n fuel d (fully_reduce n fuel e)

(** val partial_as_expression :
    'a1 numOps -> nat -> nat -> 'a1 expr -> name -> 'a1 expr option **)

let partial_as_expression n fuel d e v =
  normalize n fuel d (synth_fwd n v e)

(** val partial_at_late :
    'a1 numOps -> 'a1 expr -> name -> 'a1 point -> 'a1 outcome **)

let partial_at_late n e v p =
  fwd n v p e

(** val at_via :
    'a1 numOps -> 'a1 expr -> 'a1 expr -> 'a1 point -> 'a1 outcome **)

let at_via n e s p =
  bind (eval n p e) (fun _ -> eval n p s)

(** val partial_at_early :
    'a1 numOps -> nat -> nat -> 'a1 expr -> name -> 'a1 point -> 'a1 outcome
    option **)

let partial_at_early n fuel d e v p =
  match partial_as_expression n fuel d e v with
  | Some s -> Some (at_via n e s p)
  | None -> None

(** val derivative_variable : 'a1 expr -> name option **)

let derivative_variable =
  the_single_variable_name

(** val derivative_at_late :
    'a1 numOps -> 'a1 expr -> 'a1 point -> 'a1 outcome option **)

let derivative_at_late n e p =
  match derivative_variable e with
  | Some v -> Some (partial_at_late n e v p)
  | None -> None

(** val derivative_at_number_late :
    'a1 numOps -> 'a1 expr -> 'a1 -> 'a1 outcome option **)

let derivative_at_number_late n e x =
  match derivative_variable e with
  | Some v -> Some (partial_at_late n e v ((v, x) :: []))
  | None -> None

(** val differential_early_partials :
    'a1 numOps -> nat -> nat -> 'a1 expr -> name list -> (name * 'a1 expr)
    list option **)

let differential_early_partials n fuel d e enum =
  omapM (fun xs ->
    match normalize n fuel d (snd xs) with
    | Some s -> Some ((fst xs), s)
    | None -> None) (synthetic_partials n e enum)

(** val differential_early_component_expr :
    'a1 numOps -> nat -> nat -> 'a1 expr -> name list -> name -> 'a1 expr
    option **)

let differential_early_component_expr n fuel d e enum v =
  match differential_early_partials n fuel d e enum with
  | Some sp ->
    (match slookup v sp with
     | Some s -> Some s
     | None -> partial_as_expression n fuel d e v)
  | None -> None

(** val differential_early_component_at :
    'a1 numOps -> nat -> nat -> 'a1 expr -> name list -> name -> 'a1 point ->
    'a1 outcome option **)

let differential_early_component_at n fuel d e enum v p =
  match differential_early_partials n fuel d e enum with
  | Some sp ->
    (match slookup v sp with
     | Some s -> Some (at_via n e s p)
     | None -> Some (partial_at_late n e v p))
  | None -> None

(** val differential_at_late :
    'a1 numOps -> 'a1 expr -> name list -> 'a1 point -> (name * 'a1) list
    outcome **)

let differential_at_late n e enum p =
  bind (eval n p e) (fun _ -> numeric_partials n p e enum)

(** val located_differential :
    'a1 numOps -> 'a1 expr -> name list -> 'a1 point -> (name * 'a1) list
    outcome **)

let located_differential n e enum p =
  numeric_partials n p e enum

(** val differential_at_early :
    'a1 numOps -> nat -> nat -> 'a1 expr -> name list -> 'a1 point ->
    (name * 'a1) list outcome option **)

let differential_at_early n fuel d e enum p =
  match differential_early_partials n fuel d e enum with
  | Some sp ->
    Some
      (bind (eval n p e) (fun _ ->
        sequence
          (map (fun xs ->
            bind (eval n p (snd xs)) (fun v -> Val ((fst xs), v))) sp)))
  | None -> None

(** val component_of :
    'a1 numOps -> (name * 'a1) list outcome -> name -> 'a1 outcome **)

let component_of n o v =
  bind o (fun ps -> Val (located_component n ps v))

type 'f floatOps = { f_add : ('f -> 'f -> 'f); f_sub : ('f -> 'f -> 'f);
                     f_mul : ('f -> 'f -> 'f); f_div : ('f -> 'f -> 'f);
                     f_pow : ('f -> 'f -> 'f); f_neg : ('f -> 'f);
                     f_abs : ('f -> 'f); f_sqrt : ('f -> 'f);
                     f_cbrt : ('f -> 'f); f_log : ('f -> 'f);
                     f_sin : ('f -> 'f); f_cos : ('f -> 'f);
                     f_ofZ : (z -> 'f); f_eqb : ('f -> 'f -> bool);
                     f_ltb : ('f -> 'f -> bool); f_is_integer : ('f -> bool);
                     f_floorZ : ('f -> z); f_ceilZ : ('f -> z);
                     f_is_finite : ('f -> bool); f_e : 'f }

type 'f pynum =
| PInt of z
| PFloat of 'f

(** val to_f : 'a1 floatOps -> 'a1 pynum -> 'a1 **)

let to_f o = function
| PInt z0 -> o.f_ofZ z0
| PFloat f -> f

(** val py_float : 'a1 floatOps -> 'a1 pynum -> 'a1 pynum **)

let py_float o x =
  PFloat (to_f o x)

(** val py_add : 'a1 floatOps -> 'a1 pynum -> 'a1 pynum -> 'a1 pynum **)

let py_add o x y =
  match x with
  | PInt a ->
    (match y with
     | PInt b -> PInt (Z.add a b)
     | PFloat _ -> PFloat (o.f_add (to_f o x) (to_f o y)))
  | PFloat _ -> PFloat (o.f_add (to_f o x) (to_f o y))

(** val py_sub : 'a1 floatOps -> 'a1 pynum -> 'a1 pynum -> 'a1 pynum **)

let py_sub o x y =
  match x with
  | PInt a ->
    (match y with
     | PInt b -> PInt (Z.sub a b)
     | PFloat _ -> PFloat (o.f_sub (to_f o x) (to_f o y)))
  | PFloat _ -> PFloat (o.f_sub (to_f o x) (to_f o y))

(** val py_mul : 'a1 floatOps -> 'a1 pynum -> 'a1 pynum -> 'a1 pynum **)

let py_mul o x y =
  match x with
  | PInt a ->
    (match y with
     | PInt b -> PInt (Z.mul a b)
     | PFloat _ -> PFloat (o.f_mul (to_f o x) (to_f o y)))
  | PFloat _ -> PFloat (o.f_mul (to_f o x) (to_f o y))

(** val py_div : 'a1 floatOps -> 'a1 pynum -> 'a1 pynum -> 'a1 pynum **)

let py_div o x y =
  PFloat (o.f_div (to_f o x) (to_f o y))

(** val py_neg : 'a1 floatOps -> 'a1 pynum -> 'a1 pynum **)

let py_neg o = function
| PInt a -> PInt (Z.opp a)
| PFloat f -> PFloat (o.f_neg f)

(** val float_pow : 'a1 floatOps -> 'a1 -> 'a1 -> 'a1 **)

let float_pow o iv iw =
  if (&&) (o.f_ltb iv (o.f_ofZ Z0)) (o.f_is_integer iw)
  then let r = o.f_pow (o.f_neg iv) iw in
       if Z.odd (o.f_floorZ iw) then o.f_neg r else r
  else o.f_pow iv iw

(** val py_pow : 'a1 floatOps -> 'a1 pynum -> 'a1 pynum -> 'a1 pynum **)

let py_pow o x y =
  match x with
  | PInt a ->
    (match y with
     | PInt b ->
       if Z.leb Z0 b
       then PInt (Z.pow a b)
       else PFloat (float_pow o (o.f_ofZ a) (o.f_ofZ b))
     | PFloat _ -> PFloat (float_pow o (to_f o x) (to_f o y)))
  | PFloat _ -> PFloat (float_pow o (to_f o x) (to_f o y))

(** val py_eqb : 'a1 floatOps -> 'a1 pynum -> 'a1 pynum -> bool **)

let py_eqb o x y =
  match x with
  | PInt a ->
    (match y with
     | PInt b -> Z.eqb a b
     | PFloat f -> (&&) (o.f_is_integer f) (Z.eqb (o.f_floorZ f) a))
  | PFloat f ->
    (match y with
     | PInt a -> (&&) (o.f_is_integer f) (Z.eqb (o.f_floorZ f) a)
     | PFloat g -> o.f_eqb f g)

(** val py_ltb : 'a1 floatOps -> 'a1 pynum -> 'a1 pynum -> bool **)

let py_ltb o x y =
  match x with
  | PInt a ->
    (match y with
     | PInt b -> Z.ltb a b
     | PFloat f ->
       if o.f_is_finite f
       then Z.ltb a (o.f_ceilZ f)
       else o.f_ltb (o.f_ofZ Z0) f)
  | PFloat f ->
    (match y with
     | PInt a ->
       if o.f_is_finite f
       then Z.ltb (o.f_floorZ f) a
       else o.f_ltb f (o.f_ofZ Z0)
     | PFloat g -> o.f_ltb f g)

(** val py_int : 'a1 floatOps -> 'a1 pynum -> z option **)

let py_int o = function
| PInt a -> Some a
| PFloat f -> if o.f_is_integer f then Some (o.f_floorZ f) else None

(** val py_finite : 'a1 floatOps -> 'a1 pynum -> bool **)

let py_finite o = function
| PInt _ -> true
| PFloat f -> o.f_is_finite f

(** val f_geb : 'a1 floatOps -> 'a1 -> 'a1 -> bool **)

let f_geb o a b =
  (||) (o.f_ltb b a) (o.f_eqb a b)

(** val sum_float : 'a1 floatOps -> 'a1 -> 'a1 -> 'a1 pynum list -> 'a1 **)

let rec sum_float o fr c = function
| [] ->
  if (&&) (negb (o.f_eqb c (o.f_ofZ Z0))) (o.f_is_finite c)
  then o.f_add fr c
  else fr
| p :: r ->
  (match p with
   | PInt z0 -> sum_float o (o.f_add fr (o.f_ofZ z0)) c r
   | PFloat x ->
     let t = o.f_add fr x in
     let c' =
       if f_geb o (o.f_abs fr) (o.f_abs x)
       then o.f_add c (o.f_add (o.f_sub fr t) x)
       else o.f_add c (o.f_add (o.f_sub x t) fr)
     in
     sum_float o t c' r)

(** val sum_int : 'a1 floatOps -> z -> 'a1 pynum list -> 'a1 pynum **)

let rec sum_int o i = function
| [] -> PInt i
| p :: r ->
  (match p with
   | PInt z0 -> sum_int o (Z.add i z0) r
   | PFloat x -> PFloat (sum_float o (o.f_add (o.f_ofZ i) x) (o.f_ofZ Z0) r))

(** val py_sum : 'a1 floatOps -> 'a1 pynum list -> 'a1 pynum **)

let py_sum o l =
  sum_int o Z0 l

(** val pyNumInst : 'a1 floatOps -> 'a1 pynum numOps **)

let pyNumInst o =
  { nofZ = (fun z0 -> PInt z0); nfloat = (py_float o); n_e = (PFloat o.f_e);
    nsum = (py_sum o); nadd = (py_add o); nsub = (py_sub o); nmul =
    (py_mul o); ndiv = (py_div o); nneg = (py_neg o); npow = (py_pow o);
    npowi = (fun x n -> py_pow o x (PInt (Zpos n))); nsqrt = (fun x -> PFloat
    (o.f_sqrt (to_f o x))); ncbrt = (fun x -> PFloat (o.f_cbrt (to_f o x)));
    nln = (fun x -> PFloat (o.f_log (to_f o x))); nsin = (fun x -> PFloat
    (o.f_sin (to_f o x))); ncos = (fun x -> PFloat (o.f_cos (to_f o x)));
    neqb = (py_eqb o); nltb = (py_ltb o); nint = (py_int o); nfinite =
    (py_finite o) }
