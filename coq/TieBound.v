(** Static tie: REDUCTION_STEPS_BOUND. *)
From Coq Require Import List String Bool.
From SM Require Import Generated.
Import ListNotations.
Open Scope string_scope.

(* REDUCTION_STEPS_BOUND, the budget of Stateful.fully_reduce_f and of the C11 budget clause *)
Definition model_steps_bound : nat := 1000.
Lemma steps_bound_tied : gen_steps_bound = model_steps_bound.
Proof. reflexivity. Qed.

