(** * Denote: the specification.  An expression tree read as ordinary real arithmetic, and its
    documented (strict) domain.  Mentions no function of the model of the code. *)
From Coq Require Import Reals ZArith List Bool.
From SM Require Import Num Syntax.
Import ListNotations.
Open Scope R_scope.

Definition env := name -> R.

Definition upd (rho : env) (v : name) (t : R) : env :=
  fun x => if name_eqb x v then t else rho x.

(** the real n-th root that keeps the sign (defined for every x when n is odd) *)
Definition root (n : positive) (x : R) : R :=
  if Rlt_dec 0 x then Rpower x (/ IZR (Zpos n))
  else if Rlt_dec x 0 then - Rpower (- x) (/ IZR (Zpos n))
  else 0.

Fixpoint denote (rho : env) (e : expr R) : R :=
  match e with
  | Const c => c
  | Var x => rho x
  | Add l => fold_right (fun a acc => denote rho a + acc) 0 l
  | Mul l => fold_right (fun a acc => denote rho a * acc) 1 l
  | Minus a b => denote rho a - denote rho b
  | Divide a b => denote rho a / denote rho b
  | Power a b => Rpower (denote rho a) (denote rho b)          (* a^b = exp (b ln a) *)
  | Neg a => - denote rho a
  | Recip a => / denote rho a
  | Sin a => sin (denote rho a)
  | Cos a => cos (denote rho a)
  | NthPow a n => denote rho a ^ Pos.to_nat n
  | NthRoot a n => root n (denote rho a)
  | Exp a b => Rpower b (denote rho a)                          (* b^a *)
  | Log a b => ln (denote rho a) / ln b
  end.

(** the documented strict domain; every sub-expression must be inside its own domain *)
Fixpoint InDomain (rho : env) (e : expr R) : Prop :=
  match e with
  | Const _ | Var _ => True
  | Add l | Mul l => fold_right (fun a acc => InDomain rho a /\ acc) True l
  | Minus a b => InDomain rho a /\ InDomain rho b
  | Divide a b => InDomain rho a /\ InDomain rho b /\ denote rho b <> 0
  | Power a b => InDomain rho a /\ InDomain rho b /\ 0 < denote rho a
  | Neg a | Sin a | Cos a | NthPow a _ | Exp a _ => InDomain rho a
  | Recip a => InDomain rho a /\ denote rho a <> 0
  | NthRoot a n =>
      InDomain rho a /\
      (n = 1%positive \/
       (denote rho a <> 0 /\ (Z.even (Zpos n) = true -> 0 < denote rho a)))
  | Log a _ => InDomain rho a /\ 0 < denote rho a
  end.

(** sanity of [root]: it is the n-th root *)
Lemma root_pos_pow n x : 0 < x -> root n x ^ Pos.to_nat n = x.
Proof.
  intro Hx. unfold root. destruct (Rlt_dec 0 x) as [_|]; [|contradiction].
  rewrite <- Rpower_pow by apply exp_pos.
  rewrite Rpower_mult, INR_IZR_INZ, positive_nat_Z.
  rewrite Rinv_l by (apply IZR_neq; discriminate).
  apply Rpower_1; assumption.
Qed.
