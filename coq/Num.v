(** * Num: the abstract number interface the model is written against.

    Every definition of the model (MathFun, Eval, Forward, Reverse, Synth, Rules, Driver, ...)
    is parameterised by a record [NumOps T].  Two instances exist:
    - [RInst]  (RInst.v): Coq's real numbers; the object of the theorems.
    - [PyNumInst] (PyNum.v): Python's int/float tower over raw double primitives;
      extracted to OCaml and run against the implementation, bit for bit.

    A field corresponds to one primitive Python operation used by smoothmath. *)
From Coq Require Import ZArith List Bool.
Import ListNotations.

Record NumOps (T : Type) : Type := mkNumOps {
  nofZ   : Z -> T;              (* an int literal / int object, e.g. 0, 1, n            *)
  nfloat : T -> T;              (* float(x)                                               *)
  n_e    : T;                   (* math.e                                                 *)
  nsum   : list T -> T;         (* builtin sum(args)            (before float())          *)
  nadd   : T -> T -> T;         (* x + y                                                  *)
  nsub   : T -> T -> T;         (* x - y                                                  *)
  nmul   : T -> T -> T;         (* x * y                                                  *)
  ndiv   : T -> T -> T;         (* x / y  (true division), y != 0                         *)
  nneg   : T -> T;              (* - x                                                    *)
  npow   : T -> T -> T;         (* x ** y, general exponent                               *)
  npowi  : T -> positive -> T;  (* x ** n for an int object n >= 1                        *)
  nsqrt  : T -> T;              (* math.sqrt                                              *)
  ncbrt  : T -> T;              (* math.cbrt                                              *)
  nln    : T -> T;              (* math.log(x) (one argument; also numerator/denominator
                                   of math.log(x, base))                                  *)
  nsin   : T -> T;              (* math.sin                                               *)
  ncos   : T -> T;              (* math.cos                                               *)
  neqb   : T -> T -> bool;      (* x == y                                                 *)
  nltb   : T -> T -> bool;      (* x < y                                                  *)
  nint   : T -> option Z;       (* utilities.integer_from_integral_float                  *)
  nfinite: T -> bool;           (* math.isfinite; constantly true at R                    *)
}.

Arguments nofZ {T} _ _.
Arguments nfloat {T} _ _.
Arguments n_e {T} _.
Arguments nsum {T} _ _.
Arguments nadd {T} _ _ _.
Arguments nsub {T} _ _ _.
Arguments nmul {T} _ _ _.
Arguments ndiv {T} _ _ _.
Arguments nneg {T} _ _.
Arguments npow {T} _ _ _.
Arguments npowi {T} _ _ _.
Arguments nsqrt {T} _ _.
Arguments ncbrt {T} _ _.
Arguments nln {T} _ _.
Arguments nsin {T} _ _.
Arguments ncos {T} _ _.
Arguments neqb {T} _ _ _.
Arguments nltb {T} _ _ _.
Arguments nint {T} _ _.
Arguments nfinite {T} _ _.

Section Derived.
  Context {T : Type} (N : NumOps T).
  Definition n0 : T := nofZ N 0%Z.
  Definition n1 : T := nofZ N 1%Z.
  Definition nm1 : T := nofZ N (-1)%Z.
  (* x <= y as Python evaluates it on non-NaN numbers *)
  Definition nleb (x y : T) : bool := nltb N x y || neqb N x y.
  Definition nis0 (x : T) : bool := neqb N x n0.
  Definition nis1 (x : T) : bool := neqb N x n1.
End Derived.

(** Names of variables.  The harness keeps the table  Python string <-> positive.
    [whatever] is the name smoothmath invents for the coordinate of a bare number
    handed to an expression without variables. *)
Definition name := positive.
Definition name_eqb : name -> name -> bool := Pos.eqb.
Definition whatever : name := 1%positive.
