(** * Tie: the static tie.  Tables regenerated from /repo's current sources on every run
    (Generated.v, by harness/tie_extract.py) are proved equal to the tables the model was written
    against.  A reordered rule list, a re-pointed operator, a new place that touches a memo
    field or iterates a set, a new mutation of a structural field ... breaks a lemma here
    before any test input is needed. *)
From Coq Require Import List String Bool.
From SM Require Import Num Rules Generated.
Import ListNotations.
Open Scope string_scope.

Section Names.
  Context {T : Type} (N : NumOps T).
  Definition names (rs : list (rule (T:=T))) : list string := map fst rs.

  (* the reducer lists of Rules.v, per class, sorted by class name as the generator sorts *)
  Definition model_reducers : list (string * list string) :=
    [ ("Add", names (reducers_Add N));
      ("Cosine", names reducers_Cosine);
      ("Divide", names reducers_Divide);
      ("Exponential", names (reducers_Exponential N));
      ("Logarithm", names (reducers_Logarithm N));
      ("Minus", names reducers_Minus);
      ("Multiply", names (reducers_Multiply N));
      ("Negation", names reducers_Negation);
      ("NthPower", names (reducers_NthPower N));
      ("NthRoot", names reducers_NthRoot);
      ("Power", names (reducers_Power N));
      ("Reciprocal", names reducers_Reciprocal);
      ("Sine", names reducers_Sine) ].

  Lemma reducers_tied : gen_reducers = model_reducers.
  Proof. reflexivity. Qed.
End Names.

(* REDUCTION_STEPS_BOUND, the budget of Stateful.fully_reduce_f and of the C11 budget clause *)
Definition model_steps_bound : nat := 1000.
Lemma steps_bound_tied : gen_steps_bound = model_steps_bound.
Proof. reflexivity. Qed.

(* class hierarchy: which generic traversal (unary / binary / n-ary / leaf) each class inherits *)
Definition model_bases : list (string * string) :=
  [ ("Add", "NAryExpression"); ("BinaryExpression", "Expression"); ("Constant", "Expression");
    ("CoordinateMissing", "Exception"); ("Cosine", "UnaryExpression");
    ("Divide", "BinaryExpression"); ("DomainError", "Exception");
    ("Exponential", "ParameterizedUnaryExpression"); ("Expression", "ABC");
    ("Logarithm", "ParameterizedUnaryExpression"); ("Minus", "BinaryExpression");
    ("Multiply", "NAryExpression"); ("NAryExpression", "Expression");
    ("Negation", "UnaryExpression"); ("NthPower", "ParameterizedUnaryExpression");
    ("NthRoot", "ParameterizedUnaryExpression");
    ("ParameterizedUnaryExpression", "UnaryExpression"); ("Power", "BinaryExpression");
    ("Reciprocal", "UnaryExpression"); ("Sine", "UnaryExpression");
    ("UnaryExpression", "Expression"); ("Variable", "Expression") ].
Lemma bases_tied : gen_bases = model_bases.
Proof. reflexivity. Qed.

(* which math_functions function each _value_formula calls (Eval.v) *)
Definition model_value_formula : list (string * string) :=
  [ ("Add", "add"); ("Cosine", "cosine"); ("Divide", "divide"); ("Exponential", "exponential");
    ("Logarithm", "logarithm"); ("Minus", "minus"); ("Multiply", "multiply");
    ("Negation", "negation"); ("NthPower", "nth_power"); ("NthRoot", "nth_root");
    ("Power", "power"); ("Reciprocal", "reciprocal"); ("Sine", "sine") ].
Lemma value_formula_tied : gen_value_formula = model_value_formula.
Proof. reflexivity. Qed.

(* which classes have a domain check of their own (the verify_ functions of Eval.v, Forward.unary_verify) *)
Definition model_verify : list (string * bool) :=
  [ ("Add", false); ("BinaryExpression", false); ("Cosine", false); ("Divide", true);
    ("Exponential", false); ("Logarithm", true); ("Minus", false); ("Multiply", false);
    ("NAryExpression", false); ("Negation", false); ("NthPower", false); ("NthRoot", true);
    ("Power", true); ("Reciprocal", true); ("Sine", false); ("UnaryExpression", false) ].
Lemma verify_tied : gen_verify = model_verify.
Proof. reflexivity. Qed.

(* operator overloads (the op_ functions of Objects.v); no reflected (__radd__ ...) operators exist *)
Definition model_operators : list (string * list string) :=
  [ ("__add__", ["Add(self,other)"]); ("__mul__", ["Multiply(self,other)"]);
    ("__neg__", ["Negation(self)"]); ("__pow__", ["Power(self,exponent)"; "NthPower(self,n)"]);
    ("__sub__", ["Minus(self,other)"]); ("__truediv__", ["Divide(self,other)"]) ].
Lemma operators_tied : gen_operators = model_operators.
Proof. reflexivity. Qed.

(* the evaluation cache is read and written by exactly these methods (Stateful.v, Part A) *)
Definition model_value_access : list (string * string) :=
  [ ("BinaryExpression", "__init__"); ("BinaryExpression", "_evaluate");
    ("BinaryExpression", "_reset_evaluation_cache"); ("NAryExpression", "__init__");
    ("NAryExpression", "_evaluate"); ("NAryExpression", "_reset_evaluation_cache");
    ("UnaryExpression", "__init__"); ("UnaryExpression", "_evaluate");
    ("UnaryExpression", "_reset_evaluation_cache") ].
Lemma value_access_tied : gen_value_access = model_value_access.
Proof. reflexivity. Qed.

(* the simplifier flags are touched by exactly these methods (Stateful.v, Part B) *)
Definition model_flag_access : list (string * string * string) :=
  [ ("BinaryExpression", "_take_reduction_step", "_is_fully_reduced");
    ("Constant", "_take_reduction_step", "_is_fully_reduced");
    ("Expression", "__init__", "_evaluation_failed");
    ("Expression", "__init__", "_is_fully_reduced");
    ("Expression", "_consolidate_expression_lacking_variables", "_evaluation_failed");
    ("Expression", "_fully_reduce", "_is_fully_reduced");
    ("NAryExpression", "_take_reduction_step", "_is_fully_reduced");
    ("UnaryExpression", "_take_reduction_step", "_is_fully_reduced");
    ("Variable", "_take_reduction_step", "_is_fully_reduced") ].
Lemma flag_access_tied : gen_flag_access = model_flag_access.
Proof. reflexivity. Qed.

(* the only places that iterate a set of variable names: each takes an enumeration [enum] in the
   model (Reverse.numeric_partials_for, Synth.synthetic_partials_for,
   Eval.the_single_variable_name) *)
Definition model_set_iterations : list (string * string * string) :=
  [ ("NumericPartialsAccumulator", "numeric_partials_for", "for");
    ("SyntheticPartialsAccumulator", "synthetic_partials_for", "for");
    ("_private.base_expression.expression", "get_the_single_variable_name", "unpack") ].
Lemma set_iterations_tied : gen_set_iterations = model_set_iterations.
Proof. reflexivity. Qed.

(* the only places that build a set / take a dict view *)
Definition model_set_creations : list (string * string) :=
  [ ("Add", "_reduce_sum_by_consolidating_logarithms"); ("BinaryExpression", "__init__");
    ("Constant", "__init__"); ("Multiply", "_reduce_product_by_consolidating_exponentials");
    ("Multiply", "_reduce_product_by_consolidating_nth_powers");
    ("Multiply", "_reduce_product_by_consolidating_nth_roots"); ("NAryExpression", "__init__");
    ("Variable", "__init__") ].
Lemma set_creations_tied : gen_set_creations = model_set_creations.
Proof. reflexivity. Qed.

Definition model_public : list string :=
  [ "DomainError"; "CoordinateMissing"; "Point"; "Expression"; "Derivative"; "Differential";
    "Partial"; "LocatedDifferential"; "Variable"; "Constant"; "Add"; "Minus"; "Negation";
    "Multiply"; "Divide"; "Reciprocal"; "Power"; "NthPower"; "NthRoot"; "Exponential";
    "Logarithm"; "Cosine"; "Sine" ].
Lemma public_tied : gen_public = model_public.
Proof. reflexivity. Qed.

Definition model_mf_names : list string :=
  [ "add"; "minus"; "negation"; "multiply"; "divide"; "reciprocal"; "power"; "nth_power";
    "nth_root"; "exponential"; "logarithm"; "cosine"; "sine" ].
Lemma mf_names_tied : gen_mf_names = model_mf_names.
Proof. reflexivity. Qed.

(** ** C10: the effects table.  Every write site of the sources is one of:
    - a memo field (cache, flags, memoised symbolic partials), on any receiver;
    - a field of the object under construction, inside __init__;
    - the private dict of an accumulator object, inside its own add_to;
    - a container created in the same function body. *)
Definition memo_fields : list string :=
  [ "_value"; "_is_fully_reduced"; "_evaluation_failed"; "_synthetic_partial" ].

Definition str_in (s : string) (l : list string) : bool := existsb (String.eqb s) l.

Definition write_allowed (w : string * string * string * string * string) : bool :=
  match w with
  | (owner, func, how, kind, field) =>
      (* memo field, plain assignment *)
      (String.eqb how "assign" && str_in field memo_fields)
      (* construction of self *)
      || (String.eqb func "__init__" && String.eqb how "assign" && String.eqb kind "self")
      (* accumulators *)
      || (str_in owner ["NumericPartialsAccumulator"; "SyntheticPartialsAccumulator"]
          && String.eqb func "add_to" && String.eqb kind "self.field")
      (* locally created containers *)
      || String.eqb kind "local_fresh"
  end.

Theorem writes_framed : forallb write_allowed gen_writes = true.
Proof. vm_compute. reflexivity. Qed.

(* every write site, one by one *)
Corollary writes_framed_forall : forall w, In w gen_writes -> write_allowed w = true.
Proof. apply forallb_forall. exact writes_framed. Qed.
