(** Static tie: class hierarchy, value formulas, domain checks, math_functions names. *)
From Coq Require Import List String Bool.
From SM Require Import Generated.
Import ListNotations.
Open Scope string_scope.

(* class hierarchy: which generic traversal (unary / binary / n-ary / leaf) each class inherits *)
Definition model_bases : list (string * string) :=
  [ ("Add", "NAryExpression"); ("BinaryExpression", "Expression"); ("Constant", "Expression");
    ("CoordinateMissing", "Exception"); ("Cosine", "UnaryExpression");
    ("Divide", "BinaryExpression"); ("DomainError", "Exception");
    ("Exponential", "ParameterizedUnaryExpression"); ("Expression", "ABC");
    ("Logarithm", "ParameterizedUnaryExpression"); ("Minus", "BinaryExpression");
    ("Multiply", "NAryExpression"); ("NAryExpression", "Expression");
    ("Negation", "UnaryExpression"); ("NthPower", "ParameterizedUnaryExpression");
    ("NthRoot", "ParameterizedUnaryExpression");
    ("ParameterizedUnaryExpression", "UnaryExpression"); ("Power", "BinaryExpression");
    ("Reciprocal", "UnaryExpression"); ("Sine", "UnaryExpression");
    ("UnaryExpression", "Expression"); ("Variable", "Expression") ].
Lemma bases_tied : gen_bases = model_bases.
Proof. reflexivity. Qed.

(* which math_functions function each _value_formula calls (Eval.v) *)
Definition model_value_formula : list (string * string) :=
  [ ("Add", "add"); ("Cosine", "cosine"); ("Divide", "divide"); ("Exponential", "exponential");
    ("Logarithm", "logarithm"); ("Minus", "minus"); ("Multiply", "multiply");
    ("Negation", "negation"); ("NthPower", "nth_power"); ("NthRoot", "nth_root");
    ("Power", "power"); ("Reciprocal", "reciprocal"); ("Sine", "sine") ].
Lemma value_formula_tied : gen_value_formula = model_value_formula.
Proof. reflexivity. Qed.

(* which classes have a domain check of their own (the verify_ functions of Eval.v, Forward.unary_verify) *)
Definition model_verify : list (string * bool) :=
  [ ("Add", false); ("BinaryExpression", false); ("Cosine", false); ("Divide", true);
    ("Exponential", false); ("Logarithm", true); ("Minus", false); ("Multiply", false);
    ("NAryExpression", false); ("Negation", false); ("NthPower", false); ("NthRoot", true);
    ("Power", true); ("Reciprocal", true); ("Sine", false); ("UnaryExpression", false) ].
Lemma verify_tied : gen_verify = model_verify.
Proof. reflexivity. Qed.

Definition model_mf_names : list string :=
  [ "add"; "minus"; "negation"; "multiply"; "divide"; "reciprocal"; "power"; "nth_power";
    "nth_root"; "exponential"; "logarithm"; "cosine"; "sine" ].
Lemma mf_names_tied : gen_mf_names = model_mf_names.
Proof. reflexivity. Qed.

