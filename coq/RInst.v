(** * RInst: the number interface read as exact real arithmetic (the object of the theorems).

    Python's int and float are both read as the real number they denote; [float()] is the
    identity; there is no overflow ([nfinite] is constantly true).
    [npow] is [Rpower] = exp (y * ln x): it is the mathematical power for x > 0, which is the
    only case the library lets through (every call site is guarded by x > 0). *)
From Coq Require Import Reals ZArith List Bool.
From SM Require Import Num.
Import ListNotations.
Open Scope R_scope.

Definition Reqb (x y : R) : bool := if Req_EM_T x y then true else false.
Definition Rltb (x y : R) : bool := if Rlt_dec x y then true else false.

(* utilities.integer_from_integral_float *)
Definition Rint (x : R) : option Z :=
  let z := Int_part x in if Req_EM_T x (IZR z) then Some z else None.

Definition RInst : NumOps R := {|
  nofZ := IZR;
  nfloat := fun x => x;
  n_e := exp 1;
  nsum := fun l => fold_right Rplus 0 l;
  nadd := Rplus;
  nsub := Rminus;
  nmul := Rmult;
  ndiv := Rdiv;
  nneg := Ropp;
  npow := Rpower;
  npowi := fun x n => x ^ Pos.to_nat n;
  nsqrt := sqrt;
  ncbrt := fun x => Rpower x (/ 3);
  nln := ln;
  nsin := sin;
  ncos := cos;
  neqb := Reqb;
  nltb := Rltb;
  nint := Rint;
  nfinite := fun _ => true;
|}.

Lemma Reqb_true x y : Reqb x y = true <-> x = y.
Proof. unfold Reqb; destruct (Req_EM_T x y); split; congruence. Qed.
Lemma Reqb_false x y : Reqb x y = false <-> x <> y.
Proof. unfold Reqb; destruct (Req_EM_T x y); split; congruence. Qed.
Lemma Rltb_true x y : Rltb x y = true <-> x < y.
Proof. unfold Rltb; destruct (Rlt_dec x y); split; congruence. Qed.
Lemma Rltb_false x y : Rltb x y = false <-> ~ x < y.
Proof. unfold Rltb; destruct (Rlt_dec x y); split; congruence. Qed.
